import HgVerif.Model.Dispatch
/-!
Specification-side definitions and helper lemmas for C19 (operator resolution).

* `MapLe`            : one `ResolutionMap` extends another (every binding is kept).
* `instG x p m c`    : *checking-mode* reading of a pattern: under the fixed bindings `m` the input
                       pattern `p` accepts a port of schema `c`.  It never binds anything.  A whole-time-series
                       variable `~T` must be bound to EXACTLY the schema at its position (identity: same
                       name, same fields).  The flag only concerns a `TSB[~S]` schema variable: `x = true`
                       (`instX`, the strict reading) demands identity there too, `x = false` (`inst`, what
                       the code does) equivalence of the field lists.  The matcher is sound against `inst`
                       and complete for `instX`; the two coincide on patterns without a schema variable and
                       on name-free schemas.
* `equiv` lemmas     : reflexivity, compatibility with `derefAll`, `equiv` = equality on name-free schemas.
* `wildEq d c`       : schema `d` equals schema `c` except that `SIGNAL` in `d` stands for anything
                       and a `TSL` of size `0` in `d` stands for any size (the two wildcards the
                       code's resolved input types can contain); bundle NAMES are not compared (an
                       un-named pattern resolves to the un-named bundle whatever name the argument had).
* sorting lemmas for `stableSort`, the decision step `decide_`, and the per-key reading of the rank
  accumulator (`keyRankT`).
-/
namespace HgVerif.Dispatch

/-! ## association lists -/

theorem lookup_cons_self {α β : Type} [DecidableEq α] (k : α) (v : β) (l : List (α × β)) :
    lookup ((k, v) :: l) k = some v := by simp [lookup]

theorem lookup_cons_of_none {α β : Type} [DecidableEq α] {l : List (α × β)} {k n : α} {v w : β}
    (hk : lookup l k = none) (hn : lookup l n = some w) : lookup ((k, v) :: l) n = some w := by
  unfold lookup
  by_cases h : k = n
  · subst h; rw [hk] at hn; cases hn
  · simp [h, hn]

/-! ## map extension -/

structure MapLe (m m' : RMap) : Prop where
  ts : ∀ n v, m.findTs n = some v → m'.findTs n = some v
  sc : ∀ n v, m.findSc n = some v → m'.findSc n = some v
  sz : ∀ n v, m.findSz n = some v → m'.findSz n = some v

theorem MapLe.refl (m : RMap) : MapLe m m := ⟨fun _ _ h => h, fun _ _ h => h, fun _ _ h => h⟩

theorem MapLe.trans {a b c : RMap} (h1 : MapLe a b) (h2 : MapLe b c) : MapLe a c :=
  ⟨fun n v h => h2.ts n v (h1.ts n v h), fun n v h => h2.sc n v (h1.sc n v h),
   fun n v h => h2.sz n v (h1.sz n v h)⟩

theorem mapLe_bindTs {m : RMap} {n : Name} (c : CT) (h : m.findTs n = none) : MapLe m (m.bindTs n c) :=
  ⟨fun k v hk => by
      simp only [RMap.findTs, RMap.bindTs] at *
      exact lookup_cons_of_none h hk,
   fun _ _ hk => hk, fun _ _ hk => hk⟩

theorem mapLe_bindSc {m : RMap} {n : Name} (c : Sc) (h : m.findSc n = none) : MapLe m (m.bindSc n c) :=
  ⟨fun _ _ hk => hk,
   fun k v hk => by
      simp only [RMap.findSc, RMap.bindSc] at *
      exact lookup_cons_of_none h hk,
   fun _ _ hk => hk⟩

theorem mapLe_bindSz {m : RMap} {n : Name} (c : Nat) (h : m.findSz n = none) : MapLe m (m.bindSz n c) :=
  ⟨fun _ _ hk => hk, fun _ _ hk => hk,
   fun k v hk => by
      simp only [RMap.findSz, RMap.bindSz] at *
      exact lookup_cons_of_none h hk⟩

@[simp] theorem findTs_bindTs (m : RMap) (n : Name) (c : CT) : (m.bindTs n c).findTs n = some c := by
  simp [RMap.findTs, RMap.bindTs, lookup]
@[simp] theorem findSc_bindSc (m : RMap) (n : Name) (c : Sc) : (m.bindSc n c).findSc n = some c := by
  simp [RMap.findSc, RMap.bindSc, lookup]
@[simp] theorem findSz_bindSz (m : RMap) (n : Name) (c : Nat) : (m.bindSz n c).findSz n = some c := by
  simp [RMap.findSz, RMap.bindSz, lookup]

/-! ## the checking-mode specification of matching -/

def instS (p : SP) (m : RMap) (c : Sc) : Bool :=
  match p with
  | .var n cs => decide (m.findSc n = some c) && allowed cs c
  | .conc s => decide (s = c)

def instSz (p : SizeP) (m : RMap) (n : Nat) : Bool :=
  match p with
  | .fixed k => decide (k = 0 ∨ k = n)
  | .var v cs => decide (m.findSz v = some n) && allowed cs n

/-- how a re-used `TSB[~S]` schema variable is compared with the bundle at its position: the strict
    reading (`true`) by identity, the code (`false`) with `time_series_schema_equivalent` -/
def svOk (strict : Bool) (b c : CT) : Bool := if strict then decide (b = c) else equiv b c

mutual
/-- under the bindings `m`, the input pattern `p` accepts a port of schema `c` -/
def instG (x : Bool) (p : TP) (m : RMap) (c : CT) : Bool :=
  match p with
  | .signal => true
  | .ref t => instG x t m (stripOne c)
  | .var n cs => decide (m.findTs n = some (stripRefs c)) && allowedT cs (stripRefs c)
  | .conc pc => accepts pc (stripRefs c)
  | .ts s =>
    match stripRefs c with
    | .ts a => instS s m a
    | _ => false
  | .tss s =>
    match stripRefs c with
    | .tss a => instS s m a
    | _ => false
  | .tsl e sz =>
    match stripRefs c with
    | .tsl ce n => instSz sz m n && instG x e m ce
    | _ => false
  | .tsd k v =>
    match stripRefs c with
    | .tsd ck cv => instS k m ck && instG x v m cv
    | _ => false
  | .tsw s w =>
    match stripRefs c with
    | .tsw a period minp => instS s m a && windowOk w period minp
    | _ => false
  | .tsb pn fs =>
    match stripRefs c with
    | .tsb cn cfs => nameOk pn cn && instFieldsG x fs m cfs
    | _ => false
  | .tsbVar n =>
    match stripRefs c with
    | .tsb cn cfs =>
      match m.findTs n with
      | some b => svOk x b (.tsb cn cfs)
      | none => false
    | _ => false
def instFieldsG (x : Bool) (fs : PFields) (m : RMap) (cfs : CFields) : Bool :=
  match fs, cfs with
  | .nil, .nil => true
  | .cons f p rest, .cons g c crest => decide (f = g) && instG x p m c && instFieldsG x rest m crest
  | .nil, .cons _ _ _ => false
  | .cons _ _ _, .nil => false
end

/-- a parameter accepts an argument under the bindings `m` -/
def instParamG (x : Bool) (p : Param) (m : RMap) (a : Arg) : Bool :=
  match p, a with
  | .input t, .ts c => instG x t m c
  | .scalar (.conc s), .sc a => decide (a = s) || coercible a s
  | .scalar (.var n cs), .sc a => instS (.var n cs) m a
  | _, _ => false

/-- every parameter position accepts its argument under the *one* map `m` -/
def instArgsG (x : Bool) : List Param → List Arg → RMap → Bool
  | [], [], _ => true
  | p :: ps, a :: as, m => instParamG x p m a && instArgsG x ps as m
  | _, _, _ => false

/-- the code's reading (a re-used `TSB[~S]` compares field lists) -/
abbrev inst (p : TP) (m : RMap) (c : CT) : Bool := instG false p m c
abbrev instFields (fs : PFields) (m : RMap) (cfs : CFields) : Bool := instFieldsG false fs m cfs
abbrev instParam (p : Param) (m : RMap) (a : Arg) : Bool := instParamG false p m a
abbrev instArgs (ps : List Param) (as : List Arg) (m : RMap) : Bool := instArgsG false ps as m
/-- the strict reading (every variable, `TSB[~S]` included, is bound to exactly the type at its position) -/
abbrev instX (p : TP) (m : RMap) (c : CT) : Bool := instG true p m c
abbrev instArgsX (ps : List Param) (as : List Arg) (m : RMap) : Bool := instArgsG true ps as m

/-! ### every variable of a pattern is bound -/

def boundS (p : SP) (m : RMap) : Bool :=
  match p with
  | .var n _ => (m.findSc n).isSome
  | .conc _ => true

def boundSz (p : SizeP) (m : RMap) : Bool :=
  match p with
  | .fixed _ => true
  | .var v _ => (m.findSz v).isSome

mutual
def bound (p : TP) (m : RMap) : Bool :=
  match p with
  | .var n _ => (m.findTs n).isSome
  | .conc _ => true
  | .signal => true
  | .ts s => boundS s m
  | .tss s => boundS s m
  | .tsw s _ => boundS s m
  | .tsl e sz => bound e m && boundSz sz m
  | .tsd k v => boundS k m && bound v m
  | .tsb _ fs => boundFields fs m
  | .tsbVar n => (m.findTs n).isSome
  | .ref t => bound t m
def boundFields (fs : PFields) (m : RMap) : Bool :=
  match fs with
  | .nil => true
  | .cons _ p rest => bound p m && boundFields rest m
end

/-! ### monotonicity of `inst` in the map -/

theorem instS_mono {p : SP} {m m' : RMap} {c : Sc} (h : MapLe m m') (hi : instS p m c = true) :
    instS p m' c = true := by
  cases p with
  | var n cs =>
    simp only [instS, Bool.and_eq_true, decide_eq_true_eq] at *
    exact ⟨h.sc _ _ hi.1, hi.2⟩
  | conc s => exact hi

theorem instSz_mono {p : SizeP} {m m' : RMap} {n : Nat} (h : MapLe m m') (hi : instSz p m n = true) :
    instSz p m' n = true := by
  cases p with
  | fixed k => exact hi
  | var v cs =>
    simp only [instSz, Bool.and_eq_true, decide_eq_true_eq] at *
    exact ⟨h.sz _ _ hi.1, hi.2⟩

mutual
theorem inst_mono {x : Bool} {m m' : RMap} (h : MapLe m m') :
    ∀ (p : TP) (c : CT), instG x p m c = true → instG x p m' c = true
  | .signal, _, _ => by simp [instG]
  | .ref t, c, hi => by
    simp only [instG] at *
    exact inst_mono h t _ hi
  | .var n cs, c, hi => by
    simp only [instG, Bool.and_eq_true, decide_eq_true_eq] at *
    exact ⟨h.ts _ _ hi.1, hi.2⟩
  | .conc pc, c, hi => by simpa [instG] using hi
  | .ts s, c, hi => by
    simp only [instG] at *
    split at hi <;> simp_all [instS_mono h]
  | .tss s, c, hi => by
    simp only [instG] at *
    split at hi <;> simp_all [instS_mono h]
  | .tsl e sz, c, hi => by
    simp only [instG] at *
    split at hi
    · simp only [Bool.and_eq_true] at hi ⊢
      exact ⟨instSz_mono h hi.1, inst_mono h e _ hi.2⟩
    · cases hi
  | .tsd k v, c, hi => by
    simp only [instG] at *
    split at hi
    · simp only [Bool.and_eq_true] at hi ⊢
      exact ⟨instS_mono h hi.1, inst_mono h v _ hi.2⟩
    · cases hi
  | .tsw s w, c, hi => by
    simp only [instG] at *
    split at hi
    · simp only [Bool.and_eq_true] at hi ⊢
      exact ⟨instS_mono h hi.1, hi.2⟩
    · cases hi
  | .tsb pn fs, c, hi => by
    simp only [instG] at *
    split at hi
    · simp only [Bool.and_eq_true] at hi ⊢
      exact ⟨hi.1, instFields_mono h fs _ hi.2⟩
    · cases hi
  | .tsbVar n, c, hi => by
    simp only [instG] at *
    split at hi
    · split at hi
      · rename_i b hb
        rw [h.ts _ _ hb]
        exact hi
      · cases hi
    · cases hi
theorem instFields_mono {x : Bool} {m m' : RMap} (h : MapLe m m') :
    ∀ (fs : PFields) (cfs : CFields), instFieldsG x fs m cfs = true → instFieldsG x fs m' cfs = true
  | .nil, .nil, _ => by simp [instFieldsG]
  | .cons f p rest, .cons g c crest, hi => by
    simp only [instFieldsG, Bool.and_eq_true, decide_eq_true_eq] at *
    exact ⟨⟨hi.1.1, inst_mono h p c hi.1.2⟩, instFields_mono h rest crest hi.2⟩
  | .nil, .cons _ _ _, hi => by simp [instFieldsG] at hi
  | .cons _ _ _, .nil, hi => by simp [instFieldsG] at hi
end

theorem instParam_mono {x : Bool} {m m' : RMap} (h : MapLe m m') {p : Param} {a : Arg}
    (hi : instParamG x p m a = true) : instParamG x p m' a = true := by
  cases p with
  | input t =>
    cases a with
    | ts c => exact inst_mono h t c hi
    | sc s => simp [instParamG] at hi
  | scalar sp =>
    cases a with
    | ts c => cases sp <;> simp [instParamG] at hi
    | sc s =>
      cases sp with
      | conc k => exact hi
      | var n cs =>
        simp only [instParamG] at hi ⊢
        exact instS_mono h hi

theorem instArgs_mono {x : Bool} {m m' : RMap} (h : MapLe m m') :
    ∀ (ps : List Param) (as : List Arg), instArgsG x ps as m = true → instArgsG x ps as m' = true
  | [], [], _ => by simp [instArgsG]
  | p :: ps, a :: as, hi => by
    simp only [instArgsG, Bool.and_eq_true] at *
    exact ⟨instParam_mono h hi.1, instArgs_mono h ps as hi.2⟩
  | [], _ :: _, hi => by simp [instArgsG] at hi
  | _ :: _, [], hi => by simp [instArgsG] at hi

/-! ### `inst` implies every variable is bound -/

theorem instS_bound {p : SP} {m : RMap} {c : Sc} (hi : instS p m c = true) : boundS p m = true := by
  cases p with
  | var n cs =>
    simp only [instS, Bool.and_eq_true, decide_eq_true_eq] at hi
    simp [boundS, hi.1]
  | conc s => rfl

theorem instSz_bound {p : SizeP} {m : RMap} {n : Nat} (hi : instSz p m n = true) : boundSz p m = true := by
  cases p with
  | fixed k => rfl
  | var v cs =>
    simp only [instSz, Bool.and_eq_true, decide_eq_true_eq] at hi
    simp [boundSz, hi.1]

mutual
theorem inst_bound {x : Bool} {m : RMap} : ∀ (p : TP) (c : CT), instG x p m c = true → bound p m = true
  | .signal, _, _ => by simp [bound]
  | .ref t, c, hi => by
    simp only [instG, bound] at *
    exact inst_bound t _ hi
  | .var n cs, c, hi => by
    simp only [instG, Bool.and_eq_true, decide_eq_true_eq] at hi
    simp [bound, hi.1]
  | .conc pc, c, hi => by simp [bound]
  | .ts s, c, hi => by
    simp only [instG, bound] at *
    split at hi
    · exact instS_bound hi
    · cases hi
  | .tss s, c, hi => by
    simp only [instG, bound] at *
    split at hi
    · exact instS_bound hi
    · cases hi
  | .tsl e sz, c, hi => by
    simp only [instG, bound] at *
    split at hi
    · simp only [Bool.and_eq_true] at hi ⊢
      exact ⟨inst_bound e _ hi.2, instSz_bound hi.1⟩
    · cases hi
  | .tsd k v, c, hi => by
    simp only [instG, bound] at *
    split at hi
    · simp only [Bool.and_eq_true] at hi ⊢
      exact ⟨instS_bound hi.1, inst_bound v _ hi.2⟩
    · cases hi
  | .tsw s w, c, hi => by
    simp only [instG, bound] at *
    split at hi
    · simp only [Bool.and_eq_true] at hi
      exact instS_bound hi.1
    · cases hi
  | .tsb pn fs, c, hi => by
    simp only [instG, bound] at *
    split at hi
    · simp only [Bool.and_eq_true] at hi
      exact instFields_bound fs _ hi.2
    · cases hi
  | .tsbVar n, c, hi => by
    simp only [instG, bound] at *
    split at hi
    · split at hi
      · rename_i b hb
        simp [hb]
      · cases hi
    · cases hi
theorem instFields_bound {x : Bool} {m : RMap} :
    ∀ (fs : PFields) (cfs : CFields), instFieldsG x fs m cfs = true → boundFields fs m = true
  | .nil, .nil, _ => by simp [boundFields]
  | .cons f p rest, .cons g c crest, hi => by
    simp only [instFieldsG, boundFields, Bool.and_eq_true, decide_eq_true_eq] at *
    exact ⟨inst_bound p c hi.1.2, instFields_bound rest crest hi.2⟩
  | .nil, .cons _ _ _, hi => by simp [instFieldsG] at hi
  | .cons _ _ _, .nil, hi => by simp [instFieldsG] at hi
end

/-! ### `time_series_schema_equivalent` -/

mutual
theorem equiv_refl : ∀ c : CT, equiv c c = true
  | .ts _ | .tss _ | .tsw _ _ _ | .signal => by simp [equiv]
  | .tsl e n => by simp [equiv, equiv_refl e]
  | .tsd k v => by simp [equiv, equiv_refl v]
  | .tsb nm fs => by simp [equiv, equivFields_refl fs]
  | .ref t => by simp [equiv, equiv_refl t]
theorem equivFields_refl : ∀ fs : CFields, equivFields fs fs = true
  | .nil => by simp [equivFields]
  | .cons f t r => by simp [equivFields, equiv_refl t, equivFields_refl r]
end

theorem svOk_equiv {x : Bool} {b c : CT} (h : svOk x b c = true) : equiv b c = true := by
  cases x with
  | false => simpa [svOk] using h
  | true =>
    simp only [svOk, if_true, decide_eq_true_eq] at h
    subst h
    exact equiv_refl _

/-- the strict reading implies the code's reading … -/
theorem svOk_weaken {b c : CT} (h : svOk true b c = true) : svOk false b c = true := by
  simpa [svOk] using svOk_equiv h

/-! ### soundness of the leaf matchers -/

theorem scalarMatch_sound {p : SP} {c : Sc} {m m' : RMap} (h : scalarMatch p c m = some m') :
    MapLe m m' ∧ instS p m' c = true := by
  cases p with
  | conc s =>
    simp only [scalarMatch] at h
    split at h
    · cases h; exact ⟨MapLe.refl _, by simp [instS, *]⟩
    · cases h
  | var n cs =>
    simp only [scalarMatch] at h
    split at h
    · rename_i b hb
      split at h
      · rename_i hc
        cases h
        refine ⟨MapLe.refl _, ?_⟩
        simp [instS, hb, hc.1, hc.2]
      · cases h
    · rename_i hb
      split at h
      · rename_i hc
        cases h
        exact ⟨mapLe_bindSc c hb, by simp [instS, hc]⟩
      · cases h

theorem sizeMatch_sound {p : SizeP} {n : Nat} {m m' : RMap} (h : sizeMatch p n m = some m') :
    MapLe m m' ∧ instSz p m' n = true := by
  cases p with
  | fixed k =>
    simp only [sizeMatch] at h
    split at h
    · cases h; exact ⟨MapLe.refl _, by simp [instSz, *]⟩
    · cases h
  | var v cs =>
    simp only [sizeMatch] at h
    split at h
    · rename_i b hb
      split at h
      · rename_i hc
        cases h
        refine ⟨MapLe.refl _, ?_⟩
        simp [instSz, hb, hc.1, hc.2]
      · cases h
    · rename_i hb
      split at h
      · rename_i hc
        cases h
        exact ⟨mapLe_bindSz n hb, by simp [instSz, hc]⟩
      · cases h

theorem varMatch_sound {n : Name} {cs : List CT} {c : CT} {m m' : RMap} (h : varMatch n cs c m = some m') :
    MapLe m m' ∧ m'.findTs n = some c ∧ allowedT cs c = true := by
  simp only [varMatch] at h
  split at h
  · rename_i b hb
    split at h
    · rename_i hc
      cases h
      exact ⟨MapLe.refl _, by rw [hb, hc.1], hc.2⟩
    · cases h
  · rename_i hb
    split at h
    · rename_i hc
      cases h
      exact ⟨mapLe_bindTs c hb, by simp, hc⟩
    · cases h

/-! ### soundness of `inMatch` -/

mutual
theorem inMatch_sound : ∀ (p : TP) (c : CT) (m m' : RMap), inMatch p c m = some m' →
    MapLe m m' ∧ inst p m' c = true
  | .signal, c, m, m', h => by
    simp only [inMatch, Option.some.injEq] at h
    subst h
    exact ⟨MapLe.refl _, by simp [instG]⟩
  | .ref t, c, m, m', h => by
    simp only [inMatch] at h
    have := inMatch_sound t _ m m' h
    exact ⟨this.1, by simpa [instG] using this.2⟩
  | .var n cs, c, m, m', h => by
    simp only [inMatch] at h
    have := varMatch_sound h
    exact ⟨this.1, by simp [instG, this.2.1, this.2.2]⟩
  | .conc pc, c, m, m', h => by
    simp only [inMatch] at h
    split at h
    · cases h; exact ⟨MapLe.refl _, by simpa [instG]⟩
    · cases h
  | .ts s, c, m, m', h => by
    simp only [inMatch] at h
    split at h
    · rename_i a hc
      have := scalarMatch_sound h
      exact ⟨this.1, by simp [instG, hc, this.2]⟩
    · cases h
  | .tss s, c, m, m', h => by
    simp only [inMatch] at h
    split at h
    · rename_i a hc
      have := scalarMatch_sound h
      exact ⟨this.1, by simp [instG, hc, this.2]⟩
    · cases h
  | .tsl e sz, c, m, m', h => by
    simp only [inMatch] at h
    split at h
    · rename_i ce n hc
      split at h
      · rename_i m1 h1
        have a := sizeMatch_sound h1
        have b := inMatch_sound e ce m1 m' h
        exact ⟨a.1.trans b.1, by simp [instG, hc, instSz_mono b.1 a.2, b.2]⟩
      · cases h
    · cases h
  | .tsd k v, c, m, m', h => by
    simp only [inMatch] at h
    split at h
    · rename_i ck cv hc
      split at h
      · rename_i m1 h1
        have a := scalarMatch_sound h1
        have b := inMatch_sound v cv m1 m' h
        exact ⟨a.1.trans b.1, by simp [instG, hc, instS_mono b.1 a.2, b.2]⟩
      · cases h
    · cases h
  | .tsw s w, c, m, m', h => by
    simp only [inMatch] at h
    split at h
    · rename_i a period minp hc
      split at h
      · rename_i m1 h1
        have a := scalarMatch_sound h1
        split at h
        · rename_i hw
          cases h
          exact ⟨a.1, by simp [instG, hc, a.2, hw]⟩
        · cases h
      · cases h
    · cases h
  | .tsb pn fs, c, m, m', h => by
    simp only [inMatch] at h
    split at h
    · rename_i cn cfs hc
      split at h
      · rename_i hnm
        have := inMatchFields_sound fs cfs m m' h
        exact ⟨this.1, by simp [instG, hc, hnm, this.2]⟩
      · cases h
    · cases h
  | .tsbVar n, c, m, m', h => by
    simp only [inMatch] at h
    split at h
    · rename_i cn cfs hc
      split at h
      · rename_i b hb
        split at h
        · rename_i hbc
          cases h
          exact ⟨MapLe.refl _, by simp [instG, hc, hb, svOk, hbc]⟩
        · cases h
      · rename_i hb
        cases h
        exact ⟨mapLe_bindTs _ hb, by simp [instG, hc, svOk, equiv_refl]⟩
    · cases h
theorem inMatchFields_sound : ∀ (fs : PFields) (cfs : CFields) (m m' : RMap),
    inMatchFields fs cfs m = some m' → MapLe m m' ∧ instFields fs m' cfs = true
  | .nil, .nil, m, m', h => by
    simp only [inMatchFields, Option.some.injEq] at h
    subst h
    exact ⟨MapLe.refl _, by simp [instFieldsG]⟩
  | .cons f p rest, .cons g c crest, m, m', h => by
    simp only [inMatchFields] at h
    split at h
    · rename_i hfg
      split at h
      · rename_i m1 h1
        have a := inMatch_sound p c m m1 h1
        have b := inMatchFields_sound rest crest m1 m' h
        exact ⟨a.1.trans b.1, by simp [instFieldsG, hfg, inst_mono b.1 p c a.2, b.2]⟩
      · cases h
    · cases h
  | .nil, .cons _ _ _, m, m', h => by simp [inMatchFields] at h
  | .cons _ _ _, .nil, m, m', h => by simp [inMatchFields] at h
end

/-- soundness of the argument loop: the final map extends the initial one and, *as one map*,
    makes every parameter accept its argument -/
theorem matchArgs_sound' : ∀ (ps : List Param) (as : List Arg) (m : RMap) (adj : Nat) (m' : RMap) (adj' : Nat),
    matchArgs ps as m adj = (some m', adj') → MapLe m m' ∧ instArgs ps as m' = true ∧ adj ≤ adj'
  | [], [], m, adj, m', adj', h => by
    simp only [matchArgs, Prod.mk.injEq, Option.some.injEq] at h
    obtain ⟨rfl, rfl⟩ := h
    exact ⟨MapLe.refl _, by simp [instArgsG], Nat.le_refl _⟩
  | .input p :: ps, .ts c :: as, m, adj, m', adj', h => by
    simp only [matchArgs] at h
    split at h
    · rename_i m1 h1
      have a := inMatch_sound p c m m1 h1
      have b := matchArgs_sound' ps as m1 adj m' adj' h
      exact ⟨a.1.trans b.1, by simp [instArgsG, instParamG, inst_mono b.1 p c a.2, b.2.1], b.2.2⟩
    · simp at h
  | .input _ :: _, .sc _ :: _, m, adj, m', adj', h => by simp [matchArgs] at h
  | .scalar _ :: _, .ts _ :: _, m, adj, m', adj', h => by simp [matchArgs] at h
  | .scalar (.conc s) :: ps, .sc a :: as, m, adj, m', adj', h => by
    simp only [matchArgs] at h
    split at h
    · rename_i heq
      have b := matchArgs_sound' ps as m adj m' adj' h
      exact ⟨b.1, by simp [instArgsG, instParamG, heq, b.2.1], b.2.2⟩
    · split at h
      · rename_i hco
        have b := matchArgs_sound' ps as m (adj + 1) m' adj' h
        exact ⟨b.1, by simp [instArgsG, instParamG, hco, b.2.1], by omega⟩
      · simp at h
  | .scalar (.var n cs) :: ps, .sc a :: as, m, adj, m', adj', h => by
    simp only [matchArgs] at h
    split at h
    · rename_i m1 h1
      have a := scalarMatch_sound h1
      have b := matchArgs_sound' ps as m1 adj m' adj' h
      exact ⟨a.1.trans b.1, by simp [instArgsG, instParamG, instS_mono b.1 a.2, b.2.1], b.2.2⟩
    · simp at h
  | [], _ :: _, m, adj, m', adj', h => by simp [matchArgs] at h
  | _ :: _, [], m, adj, m', adj', h => by simp [matchArgs] at h

/-! ### completeness of the matchers: whatever bindings make the pattern accept, the matcher finds the least ones -/

theorem mapLe_bindSc_of {m mf : RMap} {n : Name} {c : Sc} (h : MapLe m mf) (hf : mf.findSc n = some c) :
    MapLe (m.bindSc n c) mf :=
  ⟨h.ts, fun k v hk => by
      simp only [RMap.findSc, RMap.bindSc, lookup] at hk
      split at hk
      · rename_i hkn; subst hkn; cases hk; exact hf
      · exact h.sc k v hk,
   h.sz⟩

theorem mapLe_bindSz_of {m mf : RMap} {n : Name} {c : Nat} (h : MapLe m mf) (hf : mf.findSz n = some c) :
    MapLe (m.bindSz n c) mf :=
  ⟨h.ts, h.sc, fun k v hk => by
      simp only [RMap.findSz, RMap.bindSz, lookup] at hk
      split at hk
      · rename_i hkn; subst hkn; cases hk; exact hf
      · exact h.sz k v hk⟩

theorem mapLe_bindTs_of {m mf : RMap} {n : Name} {c : CT} (h : MapLe m mf) (hf : mf.findTs n = some c) :
    MapLe (m.bindTs n c) mf :=
  ⟨fun k v hk => by
      simp only [RMap.findTs, RMap.bindTs, lookup] at hk
      split at hk
      · rename_i hkn; subst hkn; cases hk; exact hf
      · exact h.ts k v hk,
   h.sc, h.sz⟩

theorem scalarMatch_complete {p : SP} {c : Sc} {m mf : RMap} (h : MapLe m mf) (hi : instS p mf c = true) :
    ∃ m', scalarMatch p c m = some m' ∧ MapLe m' mf := by
  cases p with
  | conc s =>
    simp only [instS, decide_eq_true_eq] at hi
    exact ⟨m, by simp [scalarMatch, hi], h⟩
  | var n cs =>
    simp only [instS, Bool.and_eq_true, decide_eq_true_eq] at hi
    simp only [scalarMatch]
    cases hb : m.findSc n with
    | some b =>
      have := h.sc n b hb
      rw [hi.1] at this
      cases this
      exact ⟨m, by simp [hi.2], h⟩
    | none => exact ⟨m.bindSc n c, by simp [hi.2], mapLe_bindSc_of h hi.1⟩

theorem sizeMatch_complete {p : SizeP} {n : Nat} {m mf : RMap} (h : MapLe m mf) (hi : instSz p mf n = true) :
    ∃ m', sizeMatch p n m = some m' ∧ MapLe m' mf := by
  cases p with
  | fixed k =>
    simp only [instSz, decide_eq_true_eq] at hi
    exact ⟨m, by simp [sizeMatch, hi], h⟩
  | var v cs =>
    simp only [instSz, Bool.and_eq_true, decide_eq_true_eq] at hi
    simp only [sizeMatch]
    cases hb : m.findSz v with
    | some b =>
      have := h.sz v b hb
      rw [hi.1] at this
      cases this
      exact ⟨m, by simp [hi.2], h⟩
    | none => exact ⟨m.bindSz v n, by simp [hi.2], mapLe_bindSz_of h hi.1⟩

theorem varMatch_complete {n : Name} {cs : List CT} {c : CT} {m mf : RMap} (h : MapLe m mf)
    (hf : mf.findTs n = some c) (ha : allowedT cs c = true) :
    ∃ m', varMatch n cs c m = some m' ∧ MapLe m' mf := by
  simp only [varMatch]
  cases hb : m.findTs n with
  | some b =>
    have := h.ts n b hb
    rw [hf] at this
    cases this
    exact ⟨m, by simp [ha], h⟩
  | none => exact ⟨m.bindTs n c, by simp [ha], mapLe_bindTs_of h hf⟩

mutual
theorem inMatch_complete : ∀ (p : TP) (c : CT) (m mf : RMap), MapLe m mf → instX p mf c = true →
    ∃ m', inMatch p c m = some m' ∧ MapLe m' mf
  | .signal, c, m, mf, h, _ => ⟨m, by simp [inMatch], h⟩
  | .ref t, c, m, mf, h, hi => by
    simp only [instG] at hi
    simpa [inMatch] using inMatch_complete t _ m mf h hi
  | .var n cs, c, m, mf, h, hi => by
    simp only [instG, Bool.and_eq_true, decide_eq_true_eq] at hi
    simpa [inMatch] using varMatch_complete h hi.1 hi.2
  | .conc pc, c, m, mf, h, hi => by
    simp only [instG] at hi
    exact ⟨m, by simp [inMatch, hi], h⟩
  | .ts s, c, m, mf, h, hi => by
    simp only [instG] at hi
    simp only [inMatch]
    split at hi
    · rename_i a hc
      rw [hc]
      exact scalarMatch_complete h hi
    · cases hi
  | .tss s, c, m, mf, h, hi => by
    simp only [instG] at hi
    simp only [inMatch]
    split at hi
    · rename_i a hc
      rw [hc]
      exact scalarMatch_complete h hi
    · cases hi
  | .tsl e sz, c, m, mf, h, hi => by
    simp only [instG] at hi
    simp only [inMatch]
    split at hi
    · rename_i ce n hc
      rw [hc]
      simp only [Bool.and_eq_true] at hi
      obtain ⟨m1, h1, hle1⟩ := sizeMatch_complete h hi.1
      obtain ⟨m2, h2, hle2⟩ := inMatch_complete e ce m1 mf hle1 hi.2
      exact ⟨m2, by simp [h1, h2], hle2⟩
    · cases hi
  | .tsd k v, c, m, mf, h, hi => by
    simp only [instG] at hi
    simp only [inMatch]
    split at hi
    · rename_i ck cv hc
      rw [hc]
      simp only [Bool.and_eq_true] at hi
      obtain ⟨m1, h1, hle1⟩ := scalarMatch_complete h hi.1
      obtain ⟨m2, h2, hle2⟩ := inMatch_complete v cv m1 mf hle1 hi.2
      exact ⟨m2, by simp [h1, h2], hle2⟩
    · cases hi
  | .tsw s w, c, m, mf, h, hi => by
    simp only [instG] at hi
    simp only [inMatch]
    split at hi
    · rename_i a period minp hc
      rw [hc]
      simp only [Bool.and_eq_true] at hi
      obtain ⟨m1, h1, hle1⟩ := scalarMatch_complete h hi.1
      exact ⟨m1, by simp [h1, hi.2], hle1⟩
    · cases hi
  | .tsb pn fs, c, m, mf, h, hi => by
    simp only [instG] at hi
    simp only [inMatch]
    split at hi
    · rename_i cn cfs hc
      rw [hc]
      simp only [Bool.and_eq_true] at hi
      simp only [hi.1, if_true]
      exact inMatchFields_complete fs cfs m mf h hi.2
    · cases hi
  | .tsbVar n, c, m, mf, h, hi => by
    simp only [instG] at hi
    simp only [inMatch]
    split at hi
    · rename_i cn cfs hc
      rw [hc]
      split at hi
      · rename_i bf hbf
        simp only [svOk, if_true, decide_eq_true_eq] at hi
        subst hi
        cases hb : m.findTs n with
        | some b =>
          have := h.ts n b hb
          rw [hbf] at this
          cases this
          exact ⟨m, by simp [equiv_refl], h⟩
        | none => exact ⟨m.bindTs n (.tsb cn cfs), by simp, mapLe_bindTs_of h hbf⟩
      · cases hi
    · cases hi
theorem inMatchFields_complete : ∀ (fs : PFields) (cfs : CFields) (m mf : RMap), MapLe m mf →
    instFieldsG true fs mf cfs = true → ∃ m', inMatchFields fs cfs m = some m' ∧ MapLe m' mf
  | .nil, .nil, m, mf, h, _ => ⟨m, by simp [inMatchFields], h⟩
  | .cons f p rest, .cons g c crest, m, mf, h, hi => by
    simp only [instFieldsG, Bool.and_eq_true, decide_eq_true_eq] at hi
    obtain ⟨m1, h1, hle1⟩ := inMatch_complete p c m mf h hi.1.2
    obtain ⟨m2, h2, hle2⟩ := inMatchFields_complete rest crest m1 mf hle1 hi.2
    exact ⟨m2, by simp [inMatchFields, hi.1.1, h1, h2], hle2⟩
  | .nil, .cons _ _ _, m, mf, _, hi => by simp [instFieldsG] at hi
  | .cons _ _ _, .nil, m, mf, _, hi => by simp [instFieldsG] at hi
end

/-- completeness of the argument loop -/
theorem matchArgs_complete' : ∀ (ps : List Param) (as : List Arg) (m mf : RMap) (adj : Nat), MapLe m mf →
    instArgsX ps as mf = true → ∃ m' adj', matchArgs ps as m adj = (some m', adj') ∧ MapLe m' mf
  | [], [], m, mf, adj, h, _ => ⟨m, adj, by simp [matchArgs], h⟩
  | .input p :: ps, .ts c :: as, m, mf, adj, h, hi => by
    simp only [instArgsG, instParamG, Bool.and_eq_true] at hi
    obtain ⟨m1, h1, hle1⟩ := inMatch_complete p c m mf h hi.1
    obtain ⟨m2, adj2, h2, hle2⟩ := matchArgs_complete' ps as m1 mf adj hle1 hi.2
    exact ⟨m2, adj2, by simp [matchArgs, h1, h2], hle2⟩
  | .input _ :: _, .sc _ :: _, m, mf, adj, _, hi => by simp [instArgsG, instParamG] at hi
  | .scalar sp :: _, .ts _ :: _, m, mf, adj, _, hi => by cases sp <;> simp [instArgsG, instParamG] at hi
  | .scalar (.conc s) :: ps, .sc a :: as, m, mf, adj, h, hi => by
    simp only [instArgsG, instParamG, Bool.and_eq_true, Bool.or_eq_true, decide_eq_true_eq] at hi
    simp only [matchArgs]
    by_cases heq : a = s
    · obtain ⟨m2, adj2, h2, hle2⟩ := matchArgs_complete' ps as m mf adj h hi.2
      exact ⟨m2, adj2, by simp [heq, h2], hle2⟩
    · have hco : coercible a s = true := by
        rcases hi.1 with h0 | h0
        · exact absurd h0 heq
        · exact h0
      obtain ⟨m2, adj2, h2, hle2⟩ := matchArgs_complete' ps as m mf (adj + 1) h hi.2
      exact ⟨m2, adj2, by simp [heq, hco, h2], hle2⟩
  | .scalar (.var n cs) :: ps, .sc a :: as, m, mf, adj, h, hi => by
    simp only [instArgsG, instParamG, Bool.and_eq_true] at hi
    obtain ⟨m1, h1, hle1⟩ := scalarMatch_complete (p := .var n cs) h hi.1
    obtain ⟨m2, adj2, h2, hle2⟩ := matchArgs_complete' ps as m1 mf adj hle1 hi.2
    exact ⟨m2, adj2, by simp [matchArgs, h1, h2], hle2⟩
  | [], _ :: _, m, mf, adj, _, hi => by simp [instArgsG] at hi
  | _ :: _, [], m, mf, adj, _, hi => by simp [instArgsG] at hi

theorem instArgs_length {x : Bool} : ∀ (ps : List Param) (as : List Arg) (m : RMap), instArgsG x ps as m = true →
    ps.length = as.length
  | [], [], _, _ => rfl
  | p :: ps, a :: as, m, h => by
    simp only [instArgsG, Bool.and_eq_true] at h
    simp [instArgs_length ps as m h.2]
  | [], _ :: _, _, h => by simp [instArgsG] at h
  | _ :: _, [], _, h => by simp [instArgsG] at h

/-! ## REF transparency: `derefAll` forgets every way of wrapping in `REF` -/

@[simp] theorem derefAll_stripRefs : ∀ c : CT, derefAll (stripRefs c) = derefAll c
  | .ref t => by simp [stripRefs, derefAll, derefAll_stripRefs t]
  | .ts _ | .tss _ | .tsl _ _ | .tsd _ _ | .tsw _ _ _ | .tsb _ _ | .signal => by simp [stripRefs]

@[simp] theorem derefAll_stripOne (c : CT) : derefAll (stripOne c) = derefAll c := by
  cases c <;> simp [stripOne, derefAll]

@[simp] theorem derefAll_mkRef (c : CT) : derefAll (mkRef c) = derefAll c := by
  cases c <;> simp [mkRef, derefAll]

/-- `stripRefs` returns something that is not a `REF` -/
theorem stripRefs_not_ref : ∀ c t : CT, stripRefs c ≠ .ref t
  | .ref u, t => by simp only [stripRefs]; exact stripRefs_not_ref u t
  | .ts _, _ | .tss _, _ | .tsl _ _, _ | .tsd _ _, _ | .tsw _ _ _, _ | .tsb _ _, _ | .signal, _ => by simp [stripRefs]

/-! ## equality up to the two wildcards of a resolved input type (and up to bundle names) -/

mutual
def wildEq : CT → CT → Bool
  | .signal, _ => true
  | .ts a, .ts b => decide (a = b)
  | .tss a, .tss b => decide (a = b)
  | .tsl e n, .tsl e' n' => (decide (n = 0) || decide (n = n')) && wildEq e e'
  | .tsd k v, .tsd k' v' => decide (k = k') && wildEq v v'
  | .tsw s p mn, .tsw s' p' mn' => decide (s = s') && decide (p = p') && decide (mn = mn')
  | .tsb _ fs, .tsb _ gs => wildEqFields fs gs
  | .ref t, .ref t' => wildEq t t'
  | _, _ => false
def wildEqFields : CFields → CFields → Bool
  | .nil, .nil => true
  | .cons f t r, .cons g u s => decide (f = g) && wildEq t u && wildEqFields r s
  | _, _ => false
end

mutual
theorem wildEq_refl : ∀ c : CT, wildEq c c = true
  | .signal => by simp [wildEq]
  | .ts _ | .tss _ | .tsw _ _ _ => by simp [wildEq]
  | .tsl e n => by simp [wildEq, wildEq_refl e]
  | .tsd k v => by simp [wildEq, wildEq_refl v]
  | .tsb nm fs => by simp [wildEq, wildEqFields_refl fs]
  | .ref t => by simp [wildEq, wildEq_refl t]
theorem wildEqFields_refl : ∀ fs : CFields, wildEqFields fs fs = true
  | .nil => by simp [wildEqFields]
  | .cons f t r => by simp [wildEqFields, wildEq_refl t, wildEqFields_refl r]
end

mutual
/-- equivalent schemas are in particular equal up to wildcards -/
theorem wildEq_of_equiv : ∀ a b : CT, equiv a b = true → wildEq a b = true
  | .signal, _, _ => by simp [wildEq]
  | .ts a, b, h => by cases b <;> simp_all [equiv, wildEq]
  | .tss a, b, h => by cases b <;> simp_all [equiv, wildEq]
  | .tsw _ _ _, b, h => by cases b <;> simp_all [equiv, wildEq]
  | .tsl e n, b, h => by
    cases b with
    | tsl e' n' =>
      simp only [equiv, Bool.and_eq_true, decide_eq_true_eq] at h
      simp [wildEq, h.1, wildEq_of_equiv e e' h.2]
    | _ => simp [equiv] at h
  | .tsd k v, b, h => by
    cases b with
    | tsd k' v' =>
      simp only [equiv, Bool.and_eq_true, decide_eq_true_eq] at h
      simp [wildEq, h.1, wildEq_of_equiv v v' h.2]
    | _ => simp [equiv] at h
  | .tsb nm fs, b, h => by
    cases b with
    | tsb nm' gs =>
      simp only [equiv] at h
      simp [wildEq, wildEqFields_of_equiv fs gs h]
    | _ => simp [equiv] at h
  | .ref t, b, h => by
    cases b with
    | ref t' =>
      simp only [equiv] at h
      simp [wildEq, wildEq_of_equiv t t' h]
    | _ => simp [equiv] at h
theorem wildEqFields_of_equiv : ∀ fs gs : CFields, equivFields fs gs = true → wildEqFields fs gs = true
  | .nil, .nil, _ => by simp [wildEqFields]
  | .cons f t r, .cons g u s, h => by
    simp only [equivFields, Bool.and_eq_true, decide_eq_true_eq] at h
    simp [wildEqFields, h.1.1, wildEq_of_equiv t u h.1.2, wildEqFields_of_equiv r s h.2]
  | .nil, .cons _ _ _, h => by simp [equivFields] at h
  | .cons _ _ _, .nil, h => by simp [equivFields] at h
end

mutual
/-- `time_series_schema_equivalent` is compatible with `TypeRegistry::dereference` -/
theorem equiv_derefAll : ∀ a b : CT, equiv a b = true → equiv (derefAll a) (derefAll b) = true
  | .signal, b, h => by cases b <;> simp_all [equiv, derefAll]
  | .ts a, b, h => by cases b <;> simp_all [equiv, derefAll]
  | .tss a, b, h => by cases b <;> simp_all [equiv, derefAll]
  | .tsw _ _ _, b, h => by cases b <;> simp_all [equiv, derefAll]
  | .tsl e n, b, h => by
    cases b with
    | tsl e' n' =>
      simp only [equiv, Bool.and_eq_true, decide_eq_true_eq] at h
      simp [derefAll, equiv, h.1, equiv_derefAll e e' h.2]
    | _ => simp [equiv] at h
  | .tsd k v, b, h => by
    cases b with
    | tsd k' v' =>
      simp only [equiv, Bool.and_eq_true, decide_eq_true_eq] at h
      simp [derefAll, equiv, h.1, equiv_derefAll v v' h.2]
    | _ => simp [equiv] at h
  | .tsb nm fs, b, h => by
    cases b with
    | tsb nm' gs =>
      simp only [equiv] at h
      simp [derefAll, equiv, equivFields_deref fs gs h]
    | _ => simp [equiv] at h
  | .ref t, b, h => by
    cases b with
    | ref t' =>
      simp only [equiv] at h
      simpa [derefAll] using equiv_derefAll t t' h
    | _ => simp [equiv] at h
theorem equivFields_deref : ∀ fs gs : CFields, equivFields fs gs = true →
    equivFields (derefFields fs) (derefFields gs) = true
  | .nil, .nil, _ => by simp [derefFields, equivFields]
  | .cons f t r, .cons g u s, h => by
    simp only [equivFields, Bool.and_eq_true, decide_eq_true_eq] at h
    simp [derefFields, equivFields, h.1.1, equiv_derefAll t u h.1.2, equivFields_deref r s h.2]
  | .nil, .cons _ _ _, h => by simp [equivFields] at h
  | .cons _ _ _, .nil, h => by simp [equivFields] at h
end

mutual
/-- a schema without `SIGNAL` and without a size-`0` `TSL` -/
def noWild : CT → Bool
  | .signal => false
  | .tsl e n => decide (n ≠ 0) && noWild e
  | .tsd _ v => noWild v
  | .tsb _ fs => noWildFields fs
  | .ref t => noWild t
  | .ts _ => true
  | .tss _ => true
  | .tsw _ _ _ => true
def noWildFields : CFields → Bool
  | .nil => true
  | .cons _ t r => noWild t && noWildFields r
end

mutual
/-- without a wildcard, `wildEq` is `time_series_schema_equivalent`: same structure, same field names and
    field types all the way down (bundle names aside) -/
theorem wildEq_exact : ∀ d c : CT, noWild d = true → wildEq d c = true → equiv d c = true
  | .signal, _, hn, _ => by simp [noWild] at hn
  | .ts a, c, _, h => by cases c <;> simp_all [wildEq, equiv]
  | .tss a, c, _, h => by cases c <;> simp_all [wildEq, equiv]
  | .tsw _ _ _, c, _, h => by cases c <;> simp_all [wildEq, equiv]
  | .tsl e n, c, hn, h => by
    cases c with
    | tsl e' n' =>
      simp only [wildEq, noWild, Bool.and_eq_true, Bool.or_eq_true, decide_eq_true_eq] at h hn
      have ih := wildEq_exact e e' hn.2 h.2
      have : n = n' := by
        rcases h.1 with h0 | h0
        · exact absurd h0 hn.1
        · exact h0
      simp [equiv, this, ih]
    | _ => simp [wildEq] at h
  | .tsd k v, c, hn, h => by
    cases c with
    | tsd k' v' =>
      simp only [wildEq, noWild, Bool.and_eq_true, decide_eq_true_eq] at h hn
      simp [equiv, h.1, wildEq_exact v v' hn h.2]
    | _ => simp [wildEq] at h
  | .tsb nm fs, c, hn, h => by
    cases c with
    | tsb nm' gs =>
      simp only [wildEq, noWild] at h hn
      simp [equiv, wildEqFields_exact fs gs hn h]
    | _ => simp [wildEq] at h
  | .ref t, c, hn, h => by
    cases c with
    | ref t' =>
      simp only [wildEq, noWild] at h hn
      simp [equiv, wildEq_exact t t' hn h]
    | _ => simp [wildEq] at h
theorem wildEqFields_exact : ∀ fs gs : CFields, noWildFields fs = true → wildEqFields fs gs = true →
    equivFields fs gs = true
  | .nil, .nil, _, _ => by simp [equivFields]
  | .cons f t r, .cons g u s, hn, h => by
    simp only [wildEqFields, noWildFields, Bool.and_eq_true, decide_eq_true_eq] at h hn
    simp [equivFields, h.1.1, wildEq_exact t u hn.1 h.1.2, wildEqFields_exact r s hn.2 h.2]
  | .nil, .cons _ _ _, _, h => by simp [wildEqFields] at h
  | .cons _ _ _, .nil, _, h => by simp [wildEqFields] at h
end

/-! ### on name-free schemas equivalence is identity -/

mutual
/-- no named bundle anywhere in the schema -/
def nameless : CT → Bool
  | .tsb nm fs => nm.isNone && namelessFields fs
  | .tsl e _ => nameless e
  | .tsd _ v => nameless v
  | .ref t => nameless t
  | .ts _ => true
  | .tss _ => true
  | .tsw _ _ _ => true
  | .signal => true
def namelessFields : CFields → Bool
  | .nil => true
  | .cons _ t r => nameless t && namelessFields r
end

mutual
theorem equiv_eq_of_nameless : ∀ a b : CT, nameless a = true → nameless b = true → equiv a b = true → a = b
  | .signal, b, _, _, h => by cases b <;> simp_all [equiv]
  | .ts a, b, _, _, h => by cases b <;> simp_all [equiv]
  | .tss a, b, _, _, h => by cases b <;> simp_all [equiv]
  | .tsw _ _ _, b, _, _, h => by cases b <;> simp_all [equiv]
  | .tsl e n, b, ha, hb, h => by
    cases b with
    | tsl e' n' =>
      simp only [equiv, Bool.and_eq_true, decide_eq_true_eq] at h
      simp only [nameless] at ha hb
      rw [h.1, equiv_eq_of_nameless e e' ha hb h.2]
    | _ => simp [equiv] at h
  | .tsd k v, b, ha, hb, h => by
    cases b with
    | tsd k' v' =>
      simp only [equiv, Bool.and_eq_true, decide_eq_true_eq] at h
      simp only [nameless] at ha hb
      rw [h.1, equiv_eq_of_nameless v v' ha hb h.2]
    | _ => simp [equiv] at h
  | .tsb nm fs, b, ha, hb, h => by
    cases b with
    | tsb nm' gs =>
      simp only [equiv] at h
      simp only [nameless, Bool.and_eq_true, Option.isNone_iff_eq_none] at ha hb
      rw [ha.1, hb.1, equivFields_eq_of_nameless fs gs ha.2 hb.2 h]
    | _ => simp [equiv] at h
  | .ref t, b, ha, hb, h => by
    cases b with
    | ref t' =>
      simp only [equiv] at h
      simp only [nameless] at ha hb
      rw [equiv_eq_of_nameless t t' ha hb h]
    | _ => simp [equiv] at h
theorem equivFields_eq_of_nameless : ∀ fs gs : CFields, namelessFields fs = true → namelessFields gs = true →
    equivFields fs gs = true → fs = gs
  | .nil, .nil, _, _, _ => rfl
  | .cons f t r, .cons g u s, ha, hb, h => by
    simp only [equivFields, Bool.and_eq_true, decide_eq_true_eq] at h
    simp only [namelessFields, Bool.and_eq_true] at ha hb
    rw [h.1.1, equiv_eq_of_nameless t u ha.1 hb.1 h.1.2, equivFields_eq_of_nameless r s ha.2 hb.2 h.2]
  | .nil, .cons _ _ _, _, _, h => by simp [equivFields] at h
  | .cons _ _ _, .nil, _, _, h => by simp [equivFields] at h
end

/-! ## substituting the bindings into a pattern gives the supplied type, up to REF transparency -/

theorem substS_of_instS {p : SP} {m : RMap} {c a : Sc} (hi : instS p m c = true) (hs : substS p m = some a) :
    a = c := by
  cases p with
  | var n cs =>
    simp only [instS, Bool.and_eq_true, decide_eq_true_eq] at hi
    simp only [substS] at hs
    rw [hi.1] at hs
    exact (Option.some.inj hs).symm
  | conc s =>
    simp only [instS, decide_eq_true_eq] at hi
    simp only [substS, Option.some.injEq] at hs
    exact hs.symm.trans hi

theorem accepts_spec {pc c : CT} (h : accepts pc c = true) :
    pc = .signal ∨ equiv (derefAll pc) (derefAll c) = true := by
  unfold accepts at h
  split at h
  · exact Or.inl rfl
  · exact Or.inr h

mutual
theorem inst_subst_wild {x : Bool} : ∀ (p : TP) (m : RMap) (c d : CT), instG x p m c = true → subst p m = some d →
    wildEq (derefAll d) (derefAll c) = true
  | .signal, m, c, d, _, hs => by
    simp only [subst, Option.some.injEq] at hs
    subst hs
    simp [derefAll, wildEq]
  | .ref t, m, c, d, hi, hs => by
    simp only [subst, Option.map_eq_some_iff] at hs
    obtain ⟨dt, hdt, rfl⟩ := hs
    simp only [instG] at hi
    simpa using inst_subst_wild t m _ dt hi hdt
  | .var n cs, m, c, d, hi, hs => by
    simp only [instG, Bool.and_eq_true, decide_eq_true_eq] at hi
    simp only [subst] at hs
    rw [hi.1] at hs
    cases hs
    simp [wildEq_refl]
  | .conc pc, m, c, d, hi, hs => by
    simp only [subst, Option.some.injEq] at hs
    subst hs
    simp only [instG] at hi
    rcases accepts_spec hi with h | h
    · subst h; simp [derefAll, wildEq]
    · exact wildEq_of_equiv _ _ (by simpa using h)
  | .ts s, m, c, d, hi, hs => by
    simp only [subst, Option.map_eq_some_iff] at hs
    obtain ⟨a, ha, rfl⟩ := hs
    simp only [instG] at hi
    split at hi
    · rename_i b hb
      have := substS_of_instS hi ha
      subst this
      rw [← derefAll_stripRefs c, hb]
      simp [derefAll, wildEq]
    · cases hi
  | .tss s, m, c, d, hi, hs => by
    simp only [subst, Option.map_eq_some_iff] at hs
    obtain ⟨a, ha, rfl⟩ := hs
    simp only [instG] at hi
    split at hi
    · rename_i b hb
      have := substS_of_instS hi ha
      subst this
      rw [← derefAll_stripRefs c, hb]
      simp [derefAll, wildEq]
    · cases hi
  | .tsl e sz, m, c, d, hi, hs => by
    simp only [subst] at hs
    split at hs
    · rename_i ce n hce hn
      cases hs
      simp only [instG] at hi
      split at hi
      · rename_i ce' n' hc
        simp only [Bool.and_eq_true] at hi
        have ih := inst_subst_wild e m ce' ce hi.2 hce
        rw [← derefAll_stripRefs c, hc]
        simp only [derefAll, wildEq, Bool.and_eq_true, Bool.or_eq_true, decide_eq_true_eq]
        refine ⟨?_, ih⟩
        cases sz with
        | fixed k =>
          simp only [substSz, Option.some.injEq] at hn
          simp only [instSz, decide_eq_true_eq] at hi
          omega
        | var v cs =>
          simp only [substSz] at hn
          simp only [instSz, Bool.and_eq_true, decide_eq_true_eq] at hi
          rw [hi.1.1] at hn
          exact Or.inr (Option.some.inj hn).symm
      · cases hi
    · cases hs
  | .tsd k v, m, c, d, hi, hs => by
    simp only [subst] at hs
    split at hs
    · rename_i ck cv hck hcv
      cases hs
      simp only [instG] at hi
      split at hi
      · rename_i ck' cv' hc
        simp only [Bool.and_eq_true] at hi
        have ih := inst_subst_wild v m cv' cv hi.2 hcv
        have := substS_of_instS hi.1 hck
        subst this
        rw [← derefAll_stripRefs c, hc]
        simp [derefAll, wildEq, ih]
      · cases hi
    · cases hs
  | .tsw s w, m, c, d, hi, hs => by
    simp only [subst] at hs
    split at hs
    · rename_i _ _ a p mn hsa
      cases hs
      simp only [instG] at hi
      split at hi
      · rename_i a' period minp hc
        simp only [Bool.and_eq_true] at hi
        have := substS_of_instS hi.1 hsa
        subst this
        have hwin := hi.2
        simp only [windowOk, Bool.and_eq_true, beq_iff_eq] at hwin
        rw [← derefAll_stripRefs c, hc]
        simp [derefAll, wildEq, hwin.1, hwin.2]
      · cases hi
    · cases hs
  | .tsb pn fs, m, c, d, hi, hs => by
    simp only [subst, Option.map_eq_some_iff] at hs
    obtain ⟨dfs, hdfs, rfl⟩ := hs
    simp only [instG] at hi
    split at hi
    · rename_i cn cfs hc
      simp only [Bool.and_eq_true] at hi
      have ih := instFields_subst_wild fs m cfs dfs hi.2 hdfs
      rw [← derefAll_stripRefs c, hc]
      simpa [derefAll, wildEq] using ih
    · cases hi
  | .tsbVar n, m, c, d, hi, hs => by
    simp only [instG] at hi
    split at hi
    · rename_i cn cfs hc
      split at hi
      · rename_i b hb
        simp only [subst] at hs
        rw [hb] at hs
        cases hs
        rw [← derefAll_stripRefs c, hc]
        exact wildEq_of_equiv _ _ (equiv_derefAll _ _ (svOk_equiv hi))
      · cases hi
    · cases hi
theorem instFields_subst_wild {x : Bool} : ∀ (fs : PFields) (m : RMap) (cfs dfs : CFields),
    instFieldsG x fs m cfs = true → substFields fs m = some dfs →
    wildEqFields (derefFields dfs) (derefFields cfs) = true
  | .nil, m, .nil, dfs, _, hs => by
    simp only [substFields, Option.some.injEq] at hs
    subst hs
    simp [derefFields, wildEqFields]
  | .cons f p rest, m, .cons g c crest, dfs, hi, hs => by
    simp only [substFields] at hs
    split at hs
    · rename_i d drest hd hdrest
      cases hs
      simp only [instFieldsG, Bool.and_eq_true, decide_eq_true_eq] at hi
      have a := inst_subst_wild p m c d hi.1.2 hd
      have b := instFields_subst_wild rest m crest drest hi.2 hdrest
      simp [derefFields, wildEqFields, hi.1.1, a, b]
    · cases hs
  | .nil, m, .cons _ _ _, dfs, hi, _ => by simp [instFieldsG] at hi
  | .cons _ _ _, m, .nil, dfs, hi, _ => by simp [instFieldsG] at hi
end

/-- the resolved parameter type is equivalent (same structure, same fields) to the supplied one after
    dereferencing, when it has no wildcard -/
theorem inst_subst_noWild {x : Bool} {p : TP} {m : RMap} {c d : CT} (hi : instG x p m c = true)
    (hs : subst p m = some d) (hn : noWild (derefAll d) = true) : equiv (derefAll d) (derefAll c) = true :=
  wildEq_exact _ _ hn (inst_subst_wild p m c d hi hs)

/-! ## the stable sort and the decision step -/

def Sorted (l : List Survivor) : Prop := l.Pairwise (fun a b => a.rank ≤ b.rank)

theorem perm_insertByRank (s : Survivor) : ∀ l : List Survivor, (insertByRank s l).Perm (s :: l)
  | [] => by simp [insertByRank]
  | x :: xs => by
    simp only [insertByRank]
    split
    · exact ((perm_insertByRank s xs).cons x).trans (List.Perm.swap s x xs)
    · exact List.Perm.refl _

theorem perm_stableSort : ∀ l : List Survivor, (stableSort l).Perm l
  | [] => by simp [stableSort]
  | x :: xs => by
    simp only [stableSort, List.foldr_cons]
    exact (perm_insertByRank x _).trans ((perm_stableSort xs).cons x)

theorem sorted_insertByRank (s : Survivor) : ∀ l : List Survivor, Sorted l → Sorted (insertByRank s l)
  | [], _ => by simp [insertByRank, Sorted]
  | x :: xs, h => by
    simp only [insertByRank]
    have hx := List.pairwise_cons.mp h
    split
    · rename_i hlt
      refine List.pairwise_cons.mpr ⟨?_, sorted_insertByRank s xs hx.2⟩
      intro t ht
      rcases List.mem_cons.mp ((perm_insertByRank s xs).mem_iff.mp ht) with rfl | ht
      · exact Nat.le_of_lt hlt
      · exact hx.1 t ht
    · rename_i hge
      refine List.pairwise_cons.mpr ⟨?_, h⟩
      intro t ht
      rcases List.mem_cons.mp ht with rfl | ht
      · omega
      · have := hx.1 t ht
        omega

theorem sorted_stableSort : ∀ l : List Survivor, Sorted (stableSort l)
  | [] => by simp [stableSort, Sorted]
  | x :: xs => by
    simp only [stableSort, List.foldr_cons]
    exact sorted_insertByRank x _ (sorted_stableSort xs)

/-- `s` sits somewhere in `L` and every other entry has a strictly larger rank -/
def UniqueMin (L : List Survivor) (s : Survivor) : Prop :=
  ∃ l1 l2, L = l1 ++ s :: l2 ∧ ∀ t ∈ l1 ++ l2, s.rank < t.rank

/-- `r` is the least rank in `L` and at least two entries have it -/
def SharedMin (L : List Survivor) (r : Nat) : Prop :=
  (∀ t ∈ L, r ≤ t.rank) ∧ 2 ≤ (L.filter (fun t => decide (t.rank = r))).length

theorem uniqueMin_mem {L : List Survivor} {s : Survivor} (h : UniqueMin L s) : s ∈ L := by
  obtain ⟨l1, l2, rfl, _⟩ := h
  simp

theorem uniqueMin_perm {L L' : List Survivor} {s : Survivor} (hp : L.Perm L') (h : UniqueMin L s) :
    UniqueMin L' s := by
  obtain ⟨l1, l2, rfl, hlt⟩ := h
  have hs : s ∈ L' := hp.mem_iff.mp (by simp)
  obtain ⟨l1', l2', rfl⟩ := List.append_of_mem hs
  refine ⟨l1', l2', rfl, ?_⟩
  have h1 : (s :: (l1 ++ l2)).Perm (s :: (l1' ++ l2')) :=
    (List.perm_middle.symm.trans hp).trans List.perm_middle
  have h2 : (l1 ++ l2).Perm (l1' ++ l2') := h1.cons_inv
  intro t ht
  exact hlt t (h2.mem_iff.mpr ht)

theorem sharedMin_perm {L L' : List Survivor} {r : Nat} (hp : L.Perm L') (h : SharedMin L r) :
    SharedMin L' r := by
  refine ⟨fun t ht => h.1 t (hp.mem_iff.mpr ht), ?_⟩
  rw [← (hp.filter _).length_eq]
  exact h.2

theorem uniqueMin_unique {L : List Survivor} {s s' : Survivor} (h : UniqueMin L s) (h' : UniqueMin L s') :
    s = s' := by
  obtain ⟨l1, l2, hL, hlt⟩ := h
  obtain ⟨l1', l2', hL', hlt'⟩ := h'
  by_cases hss : s = s'
  · exact hss
  · exfalso
    have m1 : s' ∈ l1 ++ s :: l2 := by rw [← hL, hL']; simp
    have m2 : s ∈ l1' ++ s' :: l2' := by rw [← hL', hL]; simp
    have a : s.rank < s'.rank := by
      apply hlt
      simp only [List.mem_append, List.mem_cons] at m1 ⊢
      rcases m1 with h | h | h
      · exact Or.inl h
      · exact absurd h.symm hss
      · exact Or.inr h
    have b : s'.rank < s.rank := by
      apply hlt'
      simp only [List.mem_append, List.mem_cons] at m2 ⊢
      rcases m2 with h | h | h
      · exact Or.inl h
      · exact absurd h hss
      · exact Or.inr h
    omega

theorem filter_eq_nil_of_lt {l : List Survivor} {r : Nat} (h : ∀ t ∈ l, r < t.rank) :
    l.filter (fun t => decide (t.rank = r)) = [] := by
  apply List.filter_eq_nil_iff.mpr
  intro t ht
  have := h t ht
  simp
  omega

theorem uniqueMin_not_shared {L : List Survivor} {s : Survivor} {r : Nat} (h : UniqueMin L s)
    (h' : SharedMin L r) : False := by
  obtain ⟨l1, l2, rfl, hlt⟩ := h
  obtain ⟨hmin, hlen⟩ := h'
  have hr : r ≤ s.rank := hmin s (by simp)
  have f1 : l1.filter (fun t => decide (t.rank = r)) = [] :=
    filter_eq_nil_of_lt (fun t ht => by have := hlt t (by simp [ht]); omega)
  have f2 : l2.filter (fun t => decide (t.rank = r)) = [] :=
    filter_eq_nil_of_lt (fun t ht => by have := hlt t (by simp [ht]); omega)
  rw [List.filter_append, List.filter_cons, f1, f2] at hlen
  split at hlen <;> simp at hlen

theorem sharedMin_unique {L : List Survivor} {r r' : Nat} (h : SharedMin L r) (h' : SharedMin L r') : r = r' := by
  have ex : ∀ {q}, SharedMin L q → ∃ t ∈ L, t.rank = q := by
    intro q hq
    have : (L.filter (fun t => decide (t.rank = q))) ≠ [] := by
      intro hnil; have := hq.2; rw [hnil] at this; simp at this
    obtain ⟨t, ht⟩ := List.exists_mem_of_ne_nil _ this
    have := List.mem_filter.mp ht
    exact ⟨t, this.1, by simpa using this.2⟩
  obtain ⟨t, ht, rfl⟩ := ex h
  obtain ⟨t', ht', rfl⟩ := ex h'
  have := h.1 t' ht'
  have := h'.1 t ht
  omega

/-! what `decide_` returns on a sorted list, declaratively -/

theorem decide_noMatch {S : List Survivor} (h : decide_ S = .noMatch) : S = [] := by
  match S with
  | [] => rfl
  | [s] => simp [decide_] at h
  | s0 :: s1 :: rest =>
    simp only [decide_] at h
    split at h <;> cases h

theorem decide_winner {S : List Survivor} (hs : Sorted S) {s : Survivor} {o : Option CT}
    (h : decide_ S = .winner s o) : o = outputOf s ∧ UniqueMin S s := by
  match S, hs with
  | [], _ => simp [decide_] at h
  | [s'], _ =>
    simp only [decide_, Outcome.winner.injEq] at h
    obtain ⟨rfl, rfl⟩ := h
    exact ⟨rfl, [], [], rfl, by simp⟩
  | s0 :: s1 :: rest, hs =>
    simp only [decide_] at h
    have h0 := List.pairwise_cons.mp hs
    have h1 := List.pairwise_cons.mp h0.2
    split at h
    · cases h
    · rename_i hne
      simp only [Outcome.winner.injEq] at h
      obtain ⟨rfl, rfl⟩ := h
      refine ⟨rfl, [], s1 :: rest, rfl, ?_⟩
      intro t ht
      simp only [List.nil_append] at ht
      have a : s0.rank ≤ s1.rank := h0.1 s1 (by simp)
      have b : s1.rank ≤ t.rank := by
        rcases List.mem_cons.mp ht with rfl | ht
        · exact Nat.le_refl _
        · exact h1.1 t ht
      omega

theorem decide_ambiguous {S : List Survivor} (hs : Sorted S) {tied : List Survivor}
    (h : decide_ S = .ambiguous tied) :
    ∃ r, SharedMin S r ∧ tied = S.filter (fun t => decide (t.rank = r)) := by
  match S, hs with
  | [], _ => simp [decide_] at h
  | [s'], _ => simp [decide_] at h
  | s0 :: s1 :: rest, hs =>
    simp only [decide_] at h
    have h0 := List.pairwise_cons.mp hs
    split at h
    · rename_i heq
      simp only [Outcome.ambiguous.injEq] at h
      refine ⟨s0.rank, ⟨?_, ?_⟩, h.symm⟩
      · intro t ht
        rcases List.mem_cons.mp ht with rfl | ht
        · exact Nat.le_refl _
        · exact h0.1 t ht
      · simp [heq]
    · cases h

end HgVerif.Dispatch
