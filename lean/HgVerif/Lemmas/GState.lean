import HgVerif.Model.GState
/-!
Helper lemmas for the C07 global-state stream (`Props/C07GState.lean`):
the association-list store, agreement of two stores on a key set, and the simulation argument
(the evaluation loop reads and writes only the replay key and the sink keys).
-/
namespace HgVerif.GState

/-! ## the store -/

theorem get_nil (k : Key) : get [] k = none := rfl

theorem get_cons (k' : Key) (b : Buf) (s : GState) (k : Key) :
    get ((k', b) :: s) k = if k = k' then some b else get s k := by
  unfold get
  rw [List.lookup_cons]
  by_cases h : k = k'
  · simp [h]
  · have : (k == k') = false := by simpa using h
    simp [this, h]

theorem get_erase_self (s : GState) (k : Key) : get (erase s k) k = none := by
  induction s with
  | nil => rfl
  | cons p rest ih =>
    obtain ⟨k', b⟩ := p
    unfold erase at ih ⊢
    by_cases h : k' = k
    · subst h; simpa [List.filter_cons] using ih
    · have hne : (k' != k) = true := by simpa using h
      rw [List.filter_cons]
      simp only [hne, ↓reduceIte]
      rw [get_cons]
      have : ¬ k = k' := fun e => h e.symm
      simp only [this, ↓reduceIte]
      exact ih

theorem get_erase_ne (s : GState) {k k' : Key} (h : k' ≠ k) : get (erase s k) k' = get s k' := by
  induction s with
  | nil => rfl
  | cons p rest ih =>
    obtain ⟨k0, b⟩ := p
    unfold erase at ih ⊢
    by_cases h0 : k0 = k
    · subst h0
      rw [List.filter_cons]
      simp only [bne_self_eq_false, Bool.false_eq_true, ↓reduceIte]
      rw [get_cons]
      simp only [h, ↓reduceIte]
      exact ih
    · have hne : (k0 != k) = true := by simpa using h0
      rw [List.filter_cons]
      simp only [hne, ↓reduceIte]
      rw [get_cons, get_cons, ih]

theorem get_set_self (s : GState) (k : Key) (b : Buf) : get (set s k b) k = some b := by
  unfold set; rw [get_cons]; simp

theorem get_set_ne (s : GState) {k k' : Key} (b : Buf) (h : k' ≠ k) : get (set s k b) k' = get s k' := by
  unfold set; rw [get_cons]; simp only [h, ↓reduceIte]; exact get_erase_ne s h

/-! ## agreement on a key set -/

def AgreeOn (K : List Key) (s1 s2 : GState) : Prop := ∀ k ∈ K, get s1 k = get s2 k

theorem AgreeOn.refl (K : List Key) (s : GState) : AgreeOn K s s := fun _ _ => rfl

theorem AgreeOn.set {K : List Key} {s1 s2 : GState} (h : AgreeOn K s1 s2) (k : Key) (b : Buf) :
    AgreeOn K (set s1 k b) (set s2 k b) := by
  intro k' hk'
  by_cases e : k' = k
  · subst e; rw [get_set_self, get_set_self]
  · rw [get_set_ne _ _ e, get_set_ne _ _ e]; exact h k' hk'

theorem AgreeOn.erase {K : List Key} {s1 s2 : GState} (h : AgreeOn K s1 s2) (k : Key) :
    AgreeOn K (erase s1 k) (erase s2 k) := by
  intro k' hk'
  by_cases e : k' = k
  · subst e; rw [get_erase_self, get_erase_self]
  · rw [get_erase_ne _ e, get_erase_ne _ e]; exact h k' hk'

/-- two results of a sink write: the same exception, or stores that still agree -/
def RelW (K : List Key) : Except Err GState → Except Err GState → Prop
  | .error e1, .error e2 => e1 = e2
  | .ok a, .ok b => AgreeOn K a b
  | _, _ => False

theorem pushSparse_agree {K : List Key} {s1 s2 : GState} (h : AgreeOn K s1 s2) {key : Key} (hk : key ∈ K)
    (cyc : Nat) (v : Int) : RelW K (pushSparse s1 key cyc v) (pushSparse s2 key cyc v) := by
  unfold pushSparse
  rw [h key hk]
  cases hg : get s2 key with
  | none => exact h.set _ _
  | some b =>
    cases b with
    | sparse xs => exact h.set _ _
    | any xs => rfl
    | dense xs => rfl

theorem pushDense_agree {K : List Key} {s1 s2 : GState} (h : AgreeOn K s1 s2) {key : Key} (hk : key ∈ K)
    (cyc : Nat) (v : Int) : RelW K (pushDense s1 key cyc v) (pushDense s2 key cyc v) := by
  unfold pushDense
  rw [h key hk]
  cases hb : (get s2 key).getD (.dense []) with
  | dense xs =>
    simp only
    by_cases h1 : xs.length > cyc
    · simp only [h1, ↓reduceIte]; rfl
    · simp only [h1, ↓reduceIte]
      by_cases h2 : cyc - xs.length > maxDenseCycles
      · simp only [h2, ↓reduceIte]; rfl
      · simp only [h2, ↓reduceIte]; exact h.set _ _
  | any xs => rfl
  | sparse xs => rfl

theorem recordTick_agree {K : List Key} {s1 s2 : GState} (h : AgreeOn K s1 s2) (lay : Layout) (sk : Sink)
    (hk : sk.key ∈ K) (cyc : Nat) (v : Int) : RelW K (recordTick lay sk s1 cyc v) (recordTick lay sk s2 cyc v) := by
  unfold recordTick
  by_cases c : (sk.persist || lay == Layout.sparse) = true
  · simp only [c, ↓reduceIte]; exact pushSparse_agree h hk cyc v
  · simp only [c]; exact pushDense_agree h hk cyc v

def keysOf (sks : List (Sink × Int)) : List Key := sks.map (fun p => p.1.key)

/-- a tick advances node states only: the sinks themselves stay -/
theorem sinksTick_sinks (lay : Layout) (cyc : Nat) (v : Int) (sks : List (Sink × Int)) (gs : GState) :
    (sinksTick lay cyc v sks gs).2.1.map (·.1) = sks.map (·.1) := by
  induction sks generalizing gs with
  | nil => rfl
  | cons p rest ih =>
    obtain ⟨sk, st⟩ := p
    unfold sinksTick
    simp only
    cases h1 : recordTick lay sk gs cyc (sk.node.step st v).2 with
    | error e => simp
    | ok a => simp [ih a]

theorem sinksTick_keys {K : List Key} (lay : Layout) (cyc : Nat) (v : Int) (sks : List (Sink × Int)) (gs : GState)
    (hK : ∀ p ∈ sks, p.1.key ∈ K) : ∀ p ∈ (sinksTick lay cyc v sks gs).2.1, p.1.key ∈ K := by
  intro p hp
  have hm : p.1 ∈ (sinksTick lay cyc v sks gs).2.1.map (·.1) := List.mem_map.mpr ⟨p, hp, rfl⟩
  rw [sinksTick_sinks] at hm
  obtain ⟨q, hq, e⟩ := List.mem_map.mp hm
  rw [← e]; exact hK q hq

theorem sinksTick_agree {K : List Key} (lay : Layout) (cyc : Nat) (v : Int) (sks : List (Sink × Int))
    (hK : ∀ p ∈ sks, p.1.key ∈ K) {s1 s2 : GState} (h : AgreeOn K s1 s2) :
    AgreeOn K (sinksTick lay cyc v sks s1).1 (sinksTick lay cyc v sks s2).1 ∧
      (sinksTick lay cyc v sks s1).2 = (sinksTick lay cyc v sks s2).2 := by
  induction sks generalizing s1 s2 with
  | nil => exact ⟨h, rfl⟩
  | cons p rest ih =>
    obtain ⟨sk, st⟩ := p
    have hk : sk.key ∈ K := hK (sk, st) (by simp)
    have hrest : ∀ p ∈ rest, p.1.key ∈ K := fun p hp => hK p (by simp [hp])
    have hr := recordTick_agree h lay sk hk cyc (sk.node.step st v).2
    unfold sinksTick
    simp only
    cases h1 : recordTick lay sk s1 cyc (sk.node.step st v).2 with
    | error e1 =>
      cases h2 : recordTick lay sk s2 cyc (sk.node.step st v).2 with
      | error e2 =>
        rw [h1, h2] at hr
        have : e1 = e2 := hr
        subst this
        exact ⟨h, rfl⟩
      | ok b => rw [h1, h2] at hr; exact hr.elim
    | ok a =>
      cases h2 : recordTick lay sk s2 cyc (sk.node.step st v).2 with
      | error e2 => rw [h1, h2] at hr; exact hr.elim
      | ok b =>
        rw [h1, h2] at hr
        have hab : AgreeOn K a b := hr
        have := ih hrest hab
        refine ⟨this.1, ?_⟩
        simp only [this.2]

theorem cycles_agree {K : List Key} (lay : Layout) (inKey : Key) (hin : inKey ∈ K) (fuel : Nat) :
    ∀ (i : Nat) (sks : List (Sink × Int)), (∀ p ∈ sks, p.1.key ∈ K) → ∀ {s1 s2 : GState}, AgreeOn K s1 s2 →
      AgreeOn K (cycles lay inKey fuel i sks s1).1 (cycles lay inKey fuel i sks s2).1 ∧
        (cycles lay inKey fuel i sks s1).2 = (cycles lay inKey fuel i sks s2).2 := by
  induction fuel with
  | zero => intro i sks _ s1 s2 h; exact ⟨h, rfl⟩
  | succ f ih =>
    intro i sks hK s1 s2 h
    unfold cycles
    rw [h inKey hin]
    cases hg : get s2 inKey with
    | none => exact ⟨h, rfl⟩
    | some buf =>
      simp only
      cases ht : (if i < bufLen buf then entryAt buf i else none) with
      | none =>
        simp only
        by_cases hlt : i + 1 < bufLen buf
        · simp only [hlt, ↓reduceIte]; exact ih (i + 1) sks hK h
        · simp only [hlt, ↓reduceIte]; exact ⟨h, trivial⟩
      | some v =>
        simp only
        have hs := sinksTick_agree lay i v sks hK h
        rw [hs.2]
        cases he : (sinksTick lay i v sks s2).2.2 with
        | some e => exact ⟨hs.1, rfl⟩
        | none =>
          simp only
          have hK' : ∀ p ∈ (sinksTick lay i v sks s2).2.1, p.1.key ∈ K := by
            intro p hp
            exact sinksTick_keys lay i v sks s2 hK p hp
          by_cases hlt : i + 1 < bufLen buf
          · simp only [hlt, ↓reduceIte]; exact ih (i + 1) _ hK' hs.1
          · simp only [hlt, ↓reduceIte]; exact ⟨hs.1, trivial⟩

/-! ## start: which keys the sinks erase -/

def erasedBy (sks : List Sink) (k : Key) : Bool := sks.any (fun sk => !sk.persist && sk.key == k)

theorem get_startSinks (sks : List Sink) (gs : GState) (k : Key) :
    get (startSinks sks gs) k = if erasedBy sks k then none else get gs k := by
  induction sks generalizing gs with
  | nil => simp [startSinks, erasedBy]
  | cons sk rest ih =>
    unfold startSinks
    rw [ih]
    unfold erasedBy at *
    rw [List.any_cons]
    cases hp : sk.persist with
    | true => simp
    | false =>
      by_cases hk : sk.key = k
      · subst hk
        simp [get_erase_self]
      · have hk' : k ≠ sk.key := fun e => hk e.symm
        have : (sk.key == k) = false := by simpa using hk
        simp [this, get_erase_ne _ hk']

/-- the keys a run reads or writes -/
def ownedKeys (g : Graph) : List Key := g.inKey :: g.sinks.map (·.key)

theorem start_agree (g : Graph) (b : Buf) {s1 s2 : GState}
    (h : ∀ sk ∈ g.sinks, sk.persist = true → get s1 sk.key = get s2 sk.key) :
    AgreeOn (ownedKeys g) (startSinks g.sinks (set s1 g.inKey b)) (startSinks g.sinks (set s2 g.inKey b)) := by
  intro k hk
  rw [get_startSinks, get_startSinks]
  cases he : erasedBy g.sinks k with
  | true => rfl
  | false =>
    simp only [Bool.false_eq_true, ↓reduceIte]
    by_cases hin : k = g.inKey
    · subst hin; rw [get_set_self, get_set_self]
    · rw [get_set_ne _ _ hin, get_set_ne _ _ hin]
      have hk' : k ∈ g.sinks.map (·.key) := by
        unfold ownedKeys at hk
        rcases List.mem_cons.mp hk with e | e
        · exact absurd e hin
        · exact e
      obtain ⟨sk, hsk, e⟩ := List.mem_map.mp hk'
      subst e
      have hp : sk.persist = true := by
        cases hp : sk.persist with
        | true => rfl
        | false =>
          have : erasedBy g.sinks sk.key = true := by
            unfold erasedBy
            exact List.any_eq_true.mpr ⟨sk, hsk, by simp [hp]⟩
          rw [this] at he; cases he
      exact h sk hsk hp

theorem readBack_agree {K : List Key} {s1 s2 : GState} (h : AgreeOn K s1 s2) (lay : Layout) (sk : Sink)
    (hk : sk.key ∈ K) : readBack lay sk s1 = readBack lay sk s2 := by
  unfold readBack; rw [h sk.key hk]

theorem readAll_agree {K : List Key} {s1 s2 : GState} (h : AgreeOn K s1 s2) (lay : Layout) (sks : List Sink)
    (hK : ∀ sk ∈ sks, sk.key ∈ K) : readAll lay s1 sks = readAll lay s2 sks := by
  induction sks with
  | nil => rfl
  | cons sk rest ih =>
    unfold readAll
    rw [readBack_agree h lay sk (hK sk (by simp)), ih (fun sk' h' => hK sk' (by simp [h']))]

/-! ## writes stay inside the sink keys -/

theorem pushSparse_other {gs gs' : GState} {key : Key} {cyc : Nat} {v : Int}
    (h : pushSparse gs key cyc v = .ok gs') {k : Key} (hk : k ≠ key) : get gs' k = get gs k := by
  unfold pushSparse at h
  cases hg : get gs key with
  | none => rw [hg] at h; cases h; exact get_set_ne _ _ hk
  | some b =>
    rw [hg] at h
    cases b with
    | sparse xs => cases h; exact get_set_ne _ _ hk
    | any xs => cases h
    | dense xs => cases h

theorem pushDense_other {gs gs' : GState} {key : Key} {cyc : Nat} {v : Int}
    (h : pushDense gs key cyc v = .ok gs') {k : Key} (hk : k ≠ key) : get gs' k = get gs k := by
  unfold pushDense at h
  cases hb : (get gs key).getD (.dense []) with
  | dense xs =>
    rw [hb] at h
    simp only at h
    by_cases h1 : xs.length > cyc
    · simp only [h1, ↓reduceIte] at h; cases h
    · simp only [h1, ↓reduceIte] at h
      by_cases h2 : cyc - xs.length > maxDenseCycles
      · simp only [h2, ↓reduceIte] at h; cases h
      · simp only [h2, ↓reduceIte] at h; cases h; exact get_set_ne _ _ hk
  | any xs => rw [hb] at h; cases h
  | sparse xs => rw [hb] at h; cases h

theorem recordTick_other {lay : Layout} {sk : Sink} {gs gs' : GState} {cyc : Nat} {v : Int}
    (h : recordTick lay sk gs cyc v = .ok gs') {k : Key} (hk : k ≠ sk.key) : get gs' k = get gs k := by
  unfold recordTick at h
  by_cases c : (sk.persist || lay == Layout.sparse) = true
  · simp only [c, ↓reduceIte] at h; exact pushSparse_other h hk
  · simp only [c] at h; exact pushDense_other h hk

theorem sinksTick_other (lay : Layout) (cyc : Nat) (v : Int) (sks : List (Sink × Int)) (gs : GState) {k : Key}
    (hk : k ∉ keysOf sks) : get (sinksTick lay cyc v sks gs).1 k = get gs k := by
  induction sks generalizing gs with
  | nil => rfl
  | cons p rest ih =>
    obtain ⟨sk, st⟩ := p
    have hk1 : k ≠ sk.key := fun e => hk (by simp [keysOf, e])
    have hk2 : k ∉ keysOf rest := fun e => hk (by simp only [keysOf, List.map_cons, List.mem_cons]; exact Or.inr e)
    unfold sinksTick
    simp only
    cases h1 : recordTick lay sk gs cyc (sk.node.step st v).2 with
    | error e => rfl
    | ok a => simp only; rw [ih a hk2]; exact recordTick_other h1 hk1

theorem keysOf_sinksTick (lay : Layout) (cyc : Nat) (v : Int) (sks : List (Sink × Int)) (gs : GState) :
    keysOf (sinksTick lay cyc v sks gs).2.1 = keysOf sks := by
  have := sinksTick_sinks lay cyc v sks gs
  unfold keysOf
  have e : ∀ l : List (Sink × Int), l.map (fun p => p.1.key) = (l.map (·.1)).map (·.key) := by
    intro l; simp [List.map_map]
  rw [e, e, this]

theorem cycles_other (lay : Layout) (inKey : Key) (fuel : Nat) :
    ∀ (i : Nat) (sks : List (Sink × Int)) (gs : GState) {k : Key}, k ∉ keysOf sks →
      get (cycles lay inKey fuel i sks gs).1 k = get gs k := by
  induction fuel with
  | zero => intro i sks gs k _; rfl
  | succ f ih =>
    intro i sks gs k hk
    unfold cycles
    cases hg : get gs inKey with
    | none => rfl
    | some buf =>
      simp only
      cases ht : (if i < bufLen buf then entryAt buf i else none) with
      | none =>
        simp only
        by_cases hlt : i + 1 < bufLen buf
        · simp only [hlt, ↓reduceIte]; exact ih (i + 1) sks gs hk
        · simp only [hlt, ↓reduceIte]
      | some v =>
        simp only
        have ho := sinksTick_other lay i v sks gs hk
        cases he : (sinksTick lay i v sks gs).2.2 with
        | some e => exact ho
        | none =>
          simp only
          by_cases hlt : i + 1 < bufLen buf
          · simp only [hlt, ↓reduceIte]
            rw [ih (i + 1) _ _ (by rw [keysOf_sinksTick]; exact hk)]; exact ho
          · simp only [hlt, ↓reduceIte]; exact ho

end HgVerif.GState
