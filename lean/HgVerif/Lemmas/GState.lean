import HgVerif.Model.GState
/-!
Helper lemmas for the C07 global-state stream (`Props/C07GState.lean`):
the association-list store, agreement of two stores on a key set, and the simulation argument
(the evaluation loop reads and writes only the replay key and the sink keys).
-/
namespace HgVerif.GState

/-! ## the store -/

theorem get_nil (k : Key) : get [] k = none := rfl

theorem get_cons (k' : Key) (b : Buf) (s : GState) (k : Key) :
    get ((k', b) :: s) k = if k = k' then some b else get s k := by
  unfold get
  rw [List.lookup_cons]
  by_cases h : k = k'
  · simp [h]
  · have : (k == k') = false := by simpa using h
    simp [this, h]

theorem get_erase_self (s : GState) (k : Key) : get (erase s k) k = none := by
  induction s with
  | nil => rfl
  | cons p rest ih =>
    obtain ⟨k', b⟩ := p
    unfold erase at ih ⊢
    by_cases h : k' = k
    · subst h; simpa [List.filter_cons] using ih
    · have hne : (k' != k) = true := by simpa using h
      rw [List.filter_cons]
      simp only [hne, ↓reduceIte]
      rw [get_cons]
      have : ¬ k = k' := fun e => h e.symm
      simp only [this, ↓reduceIte]
      exact ih

theorem get_erase_ne (s : GState) {k k' : Key} (h : k' ≠ k) : get (erase s k) k' = get s k' := by
  induction s with
  | nil => rfl
  | cons p rest ih =>
    obtain ⟨k0, b⟩ := p
    unfold erase at ih ⊢
    by_cases h0 : k0 = k
    · subst h0
      rw [List.filter_cons]
      simp only [bne_self_eq_false, Bool.false_eq_true, ↓reduceIte]
      rw [get_cons]
      simp only [h, ↓reduceIte]
      exact ih
    · have hne : (k0 != k) = true := by simpa using h0
      rw [List.filter_cons]
      simp only [hne, ↓reduceIte]
      rw [get_cons, get_cons, ih]

theorem get_set_self (s : GState) (k : Key) (b : Buf) : get (set s k b) k = some b := by
  unfold set; rw [get_cons]; simp

theorem get_set_ne (s : GState) {k k' : Key} (b : Buf) (h : k' ≠ k) : get (set s k b) k' = get s k' := by
  unfold set; rw [get_cons]; simp only [h, ↓reduceIte]; exact get_erase_ne s h

/-! ## agreement on a key set -/

def AgreeOn (K : List Key) (s1 s2 : GState) : Prop := ∀ k ∈ K, get s1 k = get s2 k

theorem AgreeOn.refl (K : List Key) (s : GState) : AgreeOn K s s := fun _ _ => rfl

theorem AgreeOn.set {K : List Key} {s1 s2 : GState} (h : AgreeOn K s1 s2) (k : Key) (b : Buf) :
    AgreeOn K (set s1 k b) (set s2 k b) := by
  intro k' hk'
  by_cases e : k' = k
  · subst e; rw [get_set_self, get_set_self]
  · rw [get_set_ne _ _ e, get_set_ne _ _ e]; exact h k' hk'

theorem AgreeOn.erase {K : List Key} {s1 s2 : GState} (h : AgreeOn K s1 s2) (k : Key) :
    AgreeOn K (erase s1 k) (erase s2 k) := by
  intro k' hk'
  by_cases e : k' = k
  · subst e; rw [get_erase_self, get_erase_self]
  · rw [get_erase_ne _ e, get_erase_ne _ e]; exact h k' hk'

/-- two results of a sink write: the same exception, or stores that still agree -/
def RelW (K : List Key) : Except Err GState → Except Err GState → Prop
  | .error e1, .error e2 => e1 = e2
  | .ok a, .ok b => AgreeOn K a b
  | _, _ => False

theorem pushSparse_agree {K : List Key} {s1 s2 : GState} (h : AgreeOn K s1 s2) {key : Key} (hk : key ∈ K)
    (cyc : Nat) (v : Int) : RelW K (pushSparse s1 key cyc v) (pushSparse s2 key cyc v) := by
  unfold pushSparse
  rw [h key hk]
  cases hg : get s2 key with
  | none => exact h.set _ _
  | some b =>
    cases b with
    | sparse xs => exact h.set _ _
    | any xs => rfl
    | dense xs => rfl

theorem pushDense_agree {K : List Key} {s1 s2 : GState} (h : AgreeOn K s1 s2) {key : Key} (hk : key ∈ K)
    (cyc : Nat) (v : Int) : RelW K (pushDense s1 key cyc v) (pushDense s2 key cyc v) := by
  unfold pushDense
  rw [h key hk]
  cases hb : (get s2 key).getD (.dense []) with
  | dense xs =>
    simp only
    by_cases h1 : xs.length > cyc
    · simp only [h1, ↓reduceIte]; rfl
    · simp only [h1, ↓reduceIte]
      by_cases h2 : cyc - xs.length > maxDenseCycles
      · simp only [h2, ↓reduceIte]; rfl
      · simp only [h2, ↓reduceIte]; exact h.set _ _
  | any xs => rfl
  | sparse xs => rfl

theorem recordTick_agree {K : List Key} {s1 s2 : GState} (h : AgreeOn K s1 s2) (lay : Layout) (sk : Sink)
    (hk : sk.key ∈ K) (cyc : Nat) (v : Int) : RelW K (recordTick lay sk s1 cyc v) (recordTick lay sk s2 cyc v) := by
  unfold recordTick
  by_cases c : (sk.persist || lay == Layout.sparse) = true
  · simp only [c, ↓reduceIte]; exact pushSparse_agree h hk cyc v
  · simp only [c]; exact pushDense_agree h hk cyc v

def keysOf (sks : List (Sink × Int)) : List Key := sks.map (fun p => p.1.key)

/-- a tick advances node states only: the sinks themselves stay -/
theorem sinksTick_sinks (lay : Layout) (cyc : Nat) (v : Int) (sks : List (Sink × Int)) (gs : GState) :
    (sinksTick lay cyc v sks gs).2.1.map (·.1) = sks.map (·.1) := by
  induction sks generalizing gs with
  | nil => rfl
  | cons p rest ih =>
    obtain ⟨sk, st⟩ := p
    unfold sinksTick
    simp only
    cases h1 : recordTick lay sk gs cyc (sk.node.step st v).2 with
    | error e => simp
    | ok a => simp [ih a]

theorem sinksTick_keys {K : List Key} (lay : Layout) (cyc : Nat) (v : Int) (sks : List (Sink × Int)) (gs : GState)
    (hK : ∀ p ∈ sks, p.1.key ∈ K) : ∀ p ∈ (sinksTick lay cyc v sks gs).2.1, p.1.key ∈ K := by
  intro p hp
  have hm : p.1 ∈ (sinksTick lay cyc v sks gs).2.1.map (·.1) := List.mem_map.mpr ⟨p, hp, rfl⟩
  rw [sinksTick_sinks] at hm
  obtain ⟨q, hq, e⟩ := List.mem_map.mp hm
  rw [← e]; exact hK q hq

theorem sinksTick_agree {K : List Key} (lay : Layout) (cyc : Nat) (v : Int) (sks : List (Sink × Int))
    (hK : ∀ p ∈ sks, p.1.key ∈ K) {s1 s2 : GState} (h : AgreeOn K s1 s2) :
    AgreeOn K (sinksTick lay cyc v sks s1).1 (sinksTick lay cyc v sks s2).1 ∧
      (sinksTick lay cyc v sks s1).2 = (sinksTick lay cyc v sks s2).2 := by
  induction sks generalizing s1 s2 with
  | nil => exact ⟨h, rfl⟩
  | cons p rest ih =>
    obtain ⟨sk, st⟩ := p
    have hk : sk.key ∈ K := hK (sk, st) (by simp)
    have hrest : ∀ p ∈ rest, p.1.key ∈ K := fun p hp => hK p (by simp [hp])
    have hr := recordTick_agree h lay sk hk cyc (sk.node.step st v).2
    unfold sinksTick
    simp only
    cases h1 : recordTick lay sk s1 cyc (sk.node.step st v).2 with
    | error e1 =>
      cases h2 : recordTick lay sk s2 cyc (sk.node.step st v).2 with
      | error e2 =>
        rw [h1, h2] at hr
        have : e1 = e2 := hr
        subst this
        exact ⟨h, rfl⟩
      | ok b => rw [h1, h2] at hr; exact hr.elim
    | ok a =>
      cases h2 : recordTick lay sk s2 cyc (sk.node.step st v).2 with
      | error e2 => rw [h1, h2] at hr; exact hr.elim
      | ok b =>
        rw [h1, h2] at hr
        have hab : AgreeOn K a b := hr
        have := ih hrest hab
        refine ⟨this.1, ?_⟩
        simp only [this.2]

theorem cycles_agree {K : List Key} (lay : Layout) (inKey : Key) (hin : inKey ∈ K) (fuel : Nat) :
    ∀ (i : Nat) (sks : List (Sink × Int)), (∀ p ∈ sks, p.1.key ∈ K) → ∀ {s1 s2 : GState}, AgreeOn K s1 s2 →
      AgreeOn K (cycles lay inKey fuel i sks s1).1 (cycles lay inKey fuel i sks s2).1 ∧
        (cycles lay inKey fuel i sks s1).2 = (cycles lay inKey fuel i sks s2).2 := by
  induction fuel with
  | zero => intro i sks _ s1 s2 h; exact ⟨h, rfl⟩
  | succ f ih =>
    intro i sks hK s1 s2 h
    unfold cycles
    rw [h inKey hin]
    cases hg : get s2 inKey with
    | none => exact ⟨h, rfl⟩
    | some buf =>
      simp only
      cases ht : (if i < bufLen buf then entryAt buf i else none) with
      | none =>
        simp only
        by_cases hlt : i + 1 < bufLen buf
        · simp only [hlt, ↓reduceIte]; exact ih (i + 1) sks hK h
        · simp only [hlt, ↓reduceIte]; exact ⟨h, trivial⟩
      | some v =>
        simp only
        have hs := sinksTick_agree lay i v sks hK h
        rw [hs.2]
        cases he : (sinksTick lay i v sks s2).2.2 with
        | some e => exact ⟨hs.1, rfl⟩
        | none =>
          simp only
          have hK' : ∀ p ∈ (sinksTick lay i v sks s2).2.1, p.1.key ∈ K := by
            intro p hp
            exact sinksTick_keys lay i v sks s2 hK p hp
          by_cases hlt : i + 1 < bufLen buf
          · simp only [hlt, ↓reduceIte]; exact ih (i + 1) _ hK' hs.1
          · simp only [hlt, ↓reduceIte]; exact ⟨hs.1, trivial⟩

end HgVerif.GState
