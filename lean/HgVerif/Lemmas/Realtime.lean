import HgVerif.Model.Realtime
/-! Helper lemmas for the real-time loop model (C17). -/
namespace HgVerif.Realtime

/-! ### the shared state under environment events -/

theorem mark_wall (s : Sh) : (mark s).wall = s.wall := by unfold mark; split <;> rfl
theorem mark_stopReq (s : Sh) : (mark s).stopReq = s.stopReq := by unfold mark; split <;> rfl
theorem mark_flag_of_not_stop (s : Sh) (h : s.stopReq = false) : (mark s).flag = true := by
  unfold mark; simp [h]

theorem trySend_wall (v : Nat) (s : Sh) : (trySend v s).1.wall = s.wall := by
  unfold trySend; split
  · rfl
  · split
    · rfl
    · simp only; split <;> simp [mark_wall]

theorem trySend_stopReq (v : Nat) (s : Sh) : (trySend v s).1.stopReq = s.stopReq := by
  unfold trySend; split
  · rfl
  · split
    · rfl
    · simp only; split <;> simp [mark_stopReq]

/-- nothing is accepted once stop is requested -/
theorem trySend_refused_of_stop (v : Nat) (s : Sh) (h : s.stopReq = true) : (trySend v s).2 = false := by
  unfold trySend; simp [h]

theorem playEnv_wall_ge (e : EnvEv) (s : Sh) : s.wall ≤ (playEnv e s).1.wall := by
  cases e <;> simp [playEnv, trySend_wall, reqStop]

theorem playEnv_stopReq_mono (e : EnvEv) (s : Sh) (h : s.stopReq = true) : (playEnv e s).1.stopReq = true := by
  cases e <;> simp [playEnv, trySend_stopReq, reqStop, h]

/-- a logged stop token means the stop flag is set -/
theorem playEnv_stopped (e : EnvEv) (s : Sh) (w : Nat) (h : (playEnv e s).2 = .stopped w) :
    (playEnv e s).1.stopReq = true := by
  cases e <;> simp [playEnv, reqStop] at h ⊢

theorem hasStopTok_append (a b : List Tok) : hasStopTok (a ++ b) = (hasStopTok a || hasStopTok b) := by
  simp [hasStopTok]

theorem playEnv_tok_stop (e : EnvEv) (s : Sh) (h : hasStopTok [(playEnv e s).2] = true) :
    (playEnv e s).1.stopReq = true := by
  cases e <;> simp [playEnv, reqStop, hasStopTok] at h ⊢

theorem playEnvs_stopReq_mono (l : List EnvEv) (s : Sh) (toks : List Tok) (h : s.stopReq = true) :
    (playEnvs l s toks).1.stopReq = true := by
  induction l generalizing s toks with
  | nil => simpa [playEnvs] using h
  | cons e rest ih => simp only [playEnvs]; exact ih _ _ (playEnv_stopReq_mono e s h)

theorem playEnvs_wall_ge (l : List EnvEv) (s : Sh) (toks : List Tok) : s.wall ≤ (playEnvs l s toks).1.wall := by
  induction l generalizing s toks with
  | nil => simp [playEnvs]
  | cons e rest ih => simp only [playEnvs]; exact Nat.le_trans (playEnv_wall_ge e s) (ih _ _)

/-- a stop token in the produced log means the stop flag is set afterwards -/
theorem playEnvs_tok_stop (l : List EnvEv) (s : Sh) (toks : List Tok)
    (h : hasStopTok (playEnvs l s toks).2 = true) :
    hasStopTok toks = true ∨ (playEnvs l s toks).1.stopReq = true := by
  induction l generalizing s toks with
  | nil => simp only [playEnvs] at h; exact Or.inl h
  | cons e rest ih =>
    simp only [playEnvs] at h ⊢
    rcases ih _ _ h with h2 | h2
    · rw [hasStopTok_append] at h2
      simp only [Bool.or_eq_true] at h2
      rcases h2 with h2 | h2
      · exact Or.inl h2
      · exact Or.inr (playEnvs_stopReq_mono _ _ _ (playEnv_tok_stop e s h2))
    · exact Or.inr h2

/-! ### the wait -/

theorem wevStep_wall_ge (r : Nat) (e : WEv) (s : Sh) : s.wall ≤ (wevStep r e s).sh.wall := by
  unfold wevStep
  split <;> simp
  exact playEnv_wall_ge _ _

theorem wevStep_stopReq_mono (r : Nat) (e : WEv) (s : Sh) (h : s.stopReq = true) :
    (wevStep r e s).sh.stopReq = true := by
  unfold wevStep
  split <;> simp [h]
  exact playEnv_stopReq_mono _ _ h

theorem wevStep_tok_stop (r : Nat) (e : WEv) (s : Sh) (h : hasStopTok [(wevStep r e s).tok] = true) :
    (wevStep r e s).sh.stopReq = true := by
  unfold wevStep at h ⊢
  split at h <;> simp [hasStopTok] at h ⊢
  exact playEnv_tok_stop _ _ (by simpa [hasStopTok] using h)

/-- a time-out means the clock moved by at least the requested duration -/
theorem wevStep_timeout (r : Nat) (e : WEv) (s : Sh) (h : (wevStep r e s).timedOut = true) :
    s.wall + r ≤ (wevStep r e s).sh.wall := by
  unfold wevStep at h ⊢
  split at h <;> simp at h ⊢
  omega

theorem wevStep_remaining (r : Nat) (e : WEv) (s : Sh) (h : (wevStep r e s).timedOut = false) :
    s.wall + r ≤ (wevStep r e s).sh.wall + (wevStep r e s).remaining := by
  unfold wevStep at h ⊢
  split at h <;> simp at h ⊢
  · omega
  · exact playEnv_wall_ge _ _

theorem waitOnce_wall_ge (r : Nat) (evs : List WEv) (s : Sh) (toks : List Tok) :
    s.wall ≤ (waitOnce r evs s toks).sh.wall := by
  induction evs generalizing r s toks with
  | nil => simp [waitOnce]
  | cons e rest ih =>
    simp only [waitOnce]
    have := wevStep_wall_ge r e s
    split
    · exact this
    · split
      · exact this
      · exact Nat.le_trans this (ih _ _ _)

theorem waitOnce_stopReq_mono (r : Nat) (evs : List WEv) (s : Sh) (toks : List Tok) (h : s.stopReq = true) :
    (waitOnce r evs s toks).sh.stopReq = true := by
  induction evs generalizing r s toks with
  | nil => simp [waitOnce, h]
  | cons e rest ih =>
    simp only [waitOnce]
    have := wevStep_stopReq_mono r e s h
    split
    · exact this
    · split
      · exact this
      · exact ih _ _ _ this

/-- `wait_for` returns the value of the predicate -/
theorem waitOnce_woken (r : Nat) (evs : List WEv) (s : Sh) (toks : List Tok) :
    (waitOnce r evs s toks).woken = wakeRequested (waitOnce r evs s toks).sh := by
  induction evs generalizing r s toks with
  | nil => simp [waitOnce]
  | cons e rest ih =>
    simp only [waitOnce]
    split
    · rename_i h; simp [h]
    · rename_i h
      split
      · simp [h]
      · exact ih _ _ _

/-- a wait that timed out moved the clock by at least the requested duration -/
theorem waitOnce_timeout (r : Nat) (evs : List WEv) (s : Sh) (toks : List Tok)
    (h : (waitOnce r evs s toks).woken = false) : s.wall + r ≤ (waitOnce r evs s toks).sh.wall := by
  induction evs generalizing r s toks with
  | nil => simp [waitOnce]
  | cons e rest ih =>
    simp only [waitOnce] at h ⊢
    split at h
    · simp at h
    · split at h
      · rename_i h1 h2
        simp only [h1, h2, Bool.false_eq_true, if_false, if_true]
        exact wevStep_timeout r e s h2
      · rename_i h1 h2
        simp only [h1, h2, Bool.false_eq_true, if_false]
        have := ih _ _ _ h
        have h3 := wevStep_remaining r e s (by simpa using h2)
        omega

theorem waitOnce_tok_stop (r : Nat) (evs : List WEv) (s : Sh) (toks : List Tok)
    (h : hasStopTok (waitOnce r evs s toks).toks = true) :
    hasStopTok toks = true ∨ (waitOnce r evs s toks).sh.stopReq = true := by
  induction evs generalizing r s toks with
  | nil => simp only [waitOnce] at h; exact Or.inl h
  | cons e rest ih =>
    simp only [waitOnce] at h ⊢
    have key : hasStopTok (toks ++ [(wevStep r e s).tok]) = true →
        hasStopTok toks = true ∨ (wevStep r e s).sh.stopReq = true := by
      intro h2
      rw [hasStopTok_append] at h2
      simp only [Bool.or_eq_true] at h2
      rcases h2 with h2 | h2
      · exact Or.inl h2
      · exact Or.inr (wevStep_tok_stop r e s h2)
    split at h
    · rename_i h1; simp only [h1, if_true]; exact key h
    · split at h
      · rename_i h1 h2; simp only [h1, h2, Bool.false_eq_true, if_false, if_true]; exact key h
      · rename_i h1 h2
        simp only [h1, h2, Bool.false_eq_true, if_false]
        rcases ih _ _ _ h with h3 | h3
        · rcases key h3 with h4 | h4
          · exact Or.inl h4
          · exact Or.inr (waitOnce_stopReq_mono _ _ _ _ h4)
        · exact Or.inr h3

theorem waitLoop_spec (target slice : Nat) (fuel wn : Nat) (evs : List WEv) (s : Sh) (log : List Entry)
    (hwn : wn = s.wall) :
    (waitLoop target slice fuel wn evs s log).wallNow = (waitLoop target slice fuel wn evs s log).sh.wall ∧
    s.wall ≤ (waitLoop target slice fuel wn evs s log).sh.wall ∧
    (s.stopReq = true → (waitLoop target slice fuel wn evs s log).sh.stopReq = true) ∧
    ∃ ws, (waitLoop target slice fuel wn evs s log).log = log ++ ws ∧
      ∀ e ∈ ws, (∃ toks, e = .waited toks) ∧
        (entryHasStop e = true → (waitLoop target slice fuel wn evs s log).sh.stopReq = true) := by
  induction fuel generalizing wn evs s log with
  | zero => simp [waitLoop, hwn]
  | succ fuel ih =>
    simp only [waitLoop]
    split
    · -- the loop waits
      generalize hr : waitOnce (min (target - wn) slice) evs s [] = r
      have hwall : s.wall ≤ r.sh.wall := by rw [← hr]; exact waitOnce_wall_ge _ _ _ _
      have hstop : s.stopReq = true → r.sh.stopReq = true := by
        intro h; rw [← hr]; exact waitOnce_stopReq_mono _ _ _ _ h
      have htok : hasStopTok r.toks = true → r.sh.stopReq = true := by
        intro h
        have := waitOnce_tok_stop (min (target - wn) slice) evs s [] (by rw [hr]; exact h)
        rw [hr] at this
        simpa [hasStopTok] using this
      split
      · -- woken
        refine ⟨rfl, hwall, hstop, ?_⟩
        by_cases hemp : r.toks.isEmpty
        · exact ⟨[], by simp [hemp], by simp⟩
        · refine ⟨[.waited r.toks], by simp [hemp], ?_⟩
          intro e he
          simp at he
          subst he
          exact ⟨⟨_, rfl⟩, by simpa [entryHasStop] using htok⟩
      · -- timed out: loop again
        by_cases hemp : r.toks.isEmpty
        · simp only [hemp, if_true]
          obtain ⟨h1, h2, h3, ws, h4, h5⟩ := ih r.sh.wall r.evs r.sh log rfl
          exact ⟨h1, Nat.le_trans hwall h2, fun h => h3 (hstop h), ws, h4, h5⟩
        · simp only [hemp, Bool.false_eq_true, if_false]
          obtain ⟨h1, h2, h3, ws, h4, h5⟩ := ih r.sh.wall r.evs r.sh (log ++ [.waited r.toks]) rfl
          refine ⟨h1, Nat.le_trans hwall h2, fun h => h3 (hstop h), .waited r.toks :: ws, by simp [h4], ?_⟩
          intro e he
          simp at he
          rcases he with rfl | he
          · exact ⟨⟨_, rfl⟩, fun h => h3 (htok (by simpa [entryHasStop] using h))⟩
          · exact h5 e he
    · simp [hwn]

/-- the wait loop is left only when the target is due or a wake was requested
    (given enough fuel: each time-out moves the clock by at least a microsecond) -/
theorem waitLoop_exit (target slice : Nat) (fuel wn : Nat) (evs : List WEv) (s : Sh) (log : List Entry)
    (hwn : wn = s.wall) (hs : 1 ≤ slice) (hf : target - wn ≤ fuel) :
    target ≤ (waitLoop target slice fuel wn evs s log).wallNow ∨
    wakeRequested (waitLoop target slice fuel wn evs s log).sh = true := by
  induction fuel generalizing wn evs s log with
  | zero => left; simp only [waitLoop]; omega
  | succ fuel ih =>
    simp only [waitLoop]
    split
    · rename_i hc
      simp only [Bool.and_eq_true, decide_eq_true_eq, Bool.not_eq_true'] at hc
      generalize hr : waitOnce (min (target - wn) slice) evs s [] = r
      split
      · rename_i hw
        right
        have := waitOnce_woken (min (target - wn) slice) evs s []
        rw [hr] at this
        simpa [hw] using this.symm
      · rename_i hw
        have hto := waitOnce_timeout (min (target - wn) slice) evs s [] (by rw [hr]; simpa using hw)
        rw [hr] at hto
        apply ih _ _ _ _ rfl
        have : 1 ≤ min (target - wn) slice := by omega
        omega
    · rename_i hc
      simp only [Bool.and_eq_true, decide_eq_true_eq, Bool.not_eq_true', not_and, Bool.not_eq_false] at hc
      by_cases h : wn < target
      · right; exact hc h
      · left; simp only; omega

theorem effSlice_pos (slice : Nat) : 1 ≤ effSlice slice := by
  unfold effSlice; split <;> omega

/-- everything the loop needs to know about one call of `advance_realtime` -/
theorem advance_spec (endT slice nxt prev consec : Nat) (evs : List WEv) (s : Sh) (log : List Entry) :
    let a := advance endT slice nxt prev consec evs s log
    let target := min nxt endT
    a.wallNow = a.sh.wall ∧ s.wall ≤ a.sh.wall ∧ (s.stopReq = true → a.sh.stopReq = true) ∧
    (∃ ws, a.log = log ++ ws ∧ ∀ e ∈ ws, (∃ toks, e = .waited toks) ∧ (entryHasStop e = true → a.sh.stopReq = true)) ∧
    a.t ≤ endT ∧ min target (prev + 1) ≤ a.t ∧
    (a.t < endT → a.t = min target (max a.wallNow (prev + 1)) ∧ a.cut = false) ∧
    (a.cut = true → endT ≤ a.wallNow ∧ drainLimit ≤ consec ∧ a.t = endT) ∧
    (a.cut = false → endT ≤ a.t → endT ≤ nxt) ∧
    (target ≤ a.wallNow ∨ wakeRequested a.sh = true) := by
  intro a target
  obtain ⟨h1, h2, h3, h4⟩ := waitLoop_spec target (effSlice slice) (target - s.wall) s.wall evs s log rfl
  have h5 := waitLoop_exit target (effSlice slice) (target - s.wall) s.wall evs s log rfl (effSlice_pos _)
    (Nat.le_refl _)
  generalize hr : waitLoop target (effSlice slice) (target - s.wall) s.wall evs s log = r at h1 h2 h3 h4 h5
  have ha : a = (if r.wallNow ≥ endT && min target (max r.wallNow (prev + 1)) ≤ prev + 1 && consec ≥ drainLimit then
      { t := endT, cut := decide (min target (max r.wallNow (prev + 1)) < endT), wallNow := r.wallNow, evs := r.evs,
        sh := r.sh, log := r.log }
    else { t := min target (max r.wallNow (prev + 1)), cut := false, wallNow := r.wallNow, evs := r.evs, sh := r.sh,
           log := r.log } : AdvRes) := by
    show advance endT slice nxt prev consec evs s log = _
    unfold advance
    simp only [hr, target]
  rw [ha]
  split
  · rename_i hc
    simp only [Bool.and_eq_true, decide_eq_true_eq, ge_iff_le] at hc
    refine ⟨h1, h2, h3, h4, Nat.le_refl _, ?_, ?_, ?_, ?_, h5⟩
    · simp only [target]; omega
    · intro h; simp only at h; omega
    · intro _; exact ⟨hc.1.1, hc.2, rfl⟩
    · intro hcut _
      simp only [decide_eq_false_iff_not, Nat.not_lt] at hcut
      simp only [target] at hcut; omega
  · rename_i hc
    refine ⟨h1, h2, h3, h4, ?_, ?_, ?_, ?_, ?_, h5⟩
    · simp only [target]; omega
    · simp only [target]; omega
    · intro _; exact ⟨rfl, rfl⟩
    · intro h; simp at h
    · intro _ h; simp only [target] at h; omega

/-! ### node scripts and the scripted graph -/

theorem hasStopTok_cons (t : Tok) (l : List Tok) : hasStopTok (t :: l) = (hasStopTok [t] || hasStopTok l) := by
  simp [hasStopTok]

theorem runOps_spec (now : Nat) (started : Bool) (ops : List ROp) (s : Sh) :
    s.wall ≤ (runOps now started ops s).sh.wall ∧
    (s.stopReq = true → (runOps now started ops s).sh.stopReq = true) ∧
    (hasStopTok (runOps now started ops s).toks = true → (runOps now started ops s).sh.stopReq = true) := by
  induction ops generalizing s with
  | nil => simp [runOps, hasStopTok]
  | cons o rest ih =>
    cases o with
    | rel d =>
      simp only [runOps]; obtain ⟨h1, h2, h3⟩ := ih s
      refine ⟨h1, h2, fun h => h3 ?_⟩
      rw [hasStopTok_cons] at h; simpa [hasStopTok] using h
    | abs t =>
      simp only [runOps]; obtain ⟨h1, h2, h3⟩ := ih s
      refine ⟨h1, h2, fun h => h3 ?_⟩
      rw [hasStopTok_cons] at h; simpa [hasStopTok] using h
    | wallRel d =>
      simp only [runOps]; obtain ⟨h1, h2, h3⟩ := ih s
      refine ⟨h1, h2, fun h => h3 ?_⟩
      rw [hasStopTok_cons] at h; simpa [hasStopTok] using h
    | wallAbs t =>
      simp only [runOps]; obtain ⟨h1, h2, h3⟩ := ih s
      refine ⟨h1, h2, fun h => h3 ?_⟩
      rw [hasStopTok_cons] at h; simpa [hasStopTok] using h
    | env e =>
      simp only [runOps]; obtain ⟨h1, h2, h3⟩ := ih (playEnv e s).1
      refine ⟨Nat.le_trans (playEnv_wall_ge e s) h1, fun h => h2 (playEnv_stopReq_mono e s h), fun h => ?_⟩
      rw [hasStopTok_cons] at h
      simp only [Bool.or_eq_true] at h
      rcases h with h | h
      · exact h2 (playEnv_tok_stop e s h)
      · exact h3 h
    | loop => simp only [runOps]; exact ih s

theorem evalNodes_spec (t : Nat) (scs : List (List (List ROp))) (ns : List RNode) (id : Nat) (s : Sh) :
    s.wall ≤ (evalNodes t scs ns id s).sh.wall ∧
    (s.stopReq = true → (evalNodes t scs ns id s).sh.stopReq = true) ∧
    (∀ r ∈ (evalNodes t scs ns id s).recs, hasStopTok r.2.2 = true → (evalNodes t scs ns id s).sh.stopReq = true) ∧
    (evalNodes t scs ns id s).nodes.length = ns.length ∧
    (∀ (j : Nat) (n : RNode), ns[j]? = some n → n.st.slot ≠ t → (evalNodes t scs ns id s).nodes[j]? = some n) ∧
    (ns.length ≤ scs.length → ∀ (j : Nat) (n : RNode), ns[j]? = some n → n.st.slot = t →
      ∃ toks, (id + j, n.k, toks) ∈ (evalNodes t scs ns id s).recs) ∧
    (∀ r ∈ (evalNodes t scs ns id s).recs, ∃ (j : Nat) (n : RNode), ns[j]? = some n ∧ n.st.slot = t ∧ r.1 = id + j) := by
  induction ns generalizing scs id s with
  | nil =>
    cases scs <;> simp [evalNodes]
  | cons n ns ih =>
    cases scs with
    | nil => simp [evalNodes]; intro j m h _; exact h
    | cons sc scs =>
      simp only [evalNodes]
      split
      · rename_i hslot
        obtain ⟨r1, r2, r3⟩ := runOps_spec t true (scriptEntry sc n.k) s
        obtain ⟨h1, h2, h3, h4, h5, h6, h7⟩ := ih scs (id + 1) (runOps t true (scriptEntry sc n.k) s).sh
        refine ⟨Nat.le_trans r1 h1, fun h => h2 (r2 h), ?_, by simp [h4], ?_, ?_, ?_⟩
        · intro r hr hs
          simp only [List.mem_cons] at hr
          rcases hr with rfl | hr
          · exact h2 (r3 hs)
          · exact h3 r hr hs
        · intro j m hj hne
          cases j with
          | zero => simp at hj; subst hj; exact absurd hslot hne
          | succ j => simp at hj ⊢; exact h5 j m hj hne
        · intro hlen j m hj heq
          cases j with
          | zero => simp at hj; subst hj; exact ⟨(runOps t true (scriptEntry sc n.k) s).toks, by simp⟩
          | succ j =>
            simp at hj hlen
            obtain ⟨toks, ht⟩ := h6 (by omega) j m hj heq
            exact ⟨toks, by simp only [List.mem_cons]; right; rw [show id + (j + 1) = id + 1 + j by omega]; exact ht⟩
        · intro r hr
          simp only [List.mem_cons] at hr
          rcases hr with rfl | hr
          · exact ⟨0, n, by simp, hslot, by simp⟩
          · obtain ⟨j, m, hj, hm, hid⟩ := h7 r hr
            exact ⟨j + 1, m, by simpa using hj, hm, by omega⟩
      · rename_i hslot
        obtain ⟨h1, h2, h3, h4, h5, h6, h7⟩ := ih scs (id + 1) s
        refine ⟨h1, h2, h3, by simp [h4], ?_, ?_, ?_⟩
        · intro j m hj hne
          cases j with
          | zero => simp at hj ⊢; exact hj
          | succ j => simp at hj ⊢; exact h5 j m hj hne
        · intro hlen j m hj heq
          cases j with
          | zero => simp at hj; subst hj; exact absurd heq hslot
          | succ j =>
            simp at hj hlen
            obtain ⟨toks, ht⟩ := h6 (by omega) j m hj heq
            exact ⟨toks, by rw [show id + (j + 1) = id + 1 + j by omega]; exact ht⟩
        · intro r hr
          obtain ⟨j, m, hj, hm, hid⟩ := h7 r hr
          exact ⟨j + 1, m, by simpa using hj, hm, by omega⟩

theorem minStep_some (p : Nat → Bool) (acc : Option Nat) (n : RNode) (m : Nat) (h : minStep p acc n = some m) :
    (acc = some m ∨ (n.st.slot = m ∧ p m = true)) ∧ (∀ a, acc = some a → m ≤ a) ∧
    (p n.st.slot = true → m ≤ n.st.slot) := by
  unfold minStep at h
  cases acc with
  | none =>
    by_cases hp : p n.st.slot = true
    · simp [hp] at h; subst h; simp [hp]
    · simp [hp] at h
  | some a =>
    by_cases hp : p n.st.slot = true
    · simp only [hp, if_true] at h
      by_cases hlt : n.st.slot < a
      · simp [hlt] at h; subst h; simp [hp]; exact Nat.le_of_lt hlt
      · simp [hlt] at h; subst h; simp; intro _; exact Nat.le_of_not_lt hlt
    · simp [hp] at h; subst h; simp [hp]

theorem minStep_none (p : Nat → Bool) (acc : Option Nat) (n : RNode) (h : minStep p acc n = none) :
    acc = none ∧ p n.st.slot = false := by
  unfold minStep at h
  cases acc with
  | none =>
    by_cases hp : p n.st.slot = true
    · simp [hp] at h
    · simp at hp; simp [hp]
  | some a =>
    by_cases hp : p n.st.slot = true
    · simp only [hp, if_true] at h
      by_cases hlt : n.st.slot < a <;> simp [hlt] at h
    · simp [hp] at h

theorem minSlot_fold (p : Nat → Bool) (nodes : List RNode) (acc : Option Nat) :
    (∀ m, nodes.foldl (minStep p) acc = some m →
        (acc = some m ∨ ∃ n ∈ nodes, n.st.slot = m ∧ p m = true) ∧
        (∀ a, acc = some a → m ≤ a) ∧ (∀ n ∈ nodes, p n.st.slot = true → m ≤ n.st.slot)) ∧
    (nodes.foldl (minStep p) acc = none → acc = none ∧ ∀ n ∈ nodes, p n.st.slot = false) := by
  induction nodes generalizing acc with
  | nil =>
    simp only [List.foldl_nil, List.not_mem_nil, false_and, exists_false, or_false, false_implies, implies_true,
      and_true]
    exact ⟨fun m h => ⟨h, fun a ha => by rw [h] at ha; injection ha with ha; omega⟩, fun h => h⟩
  | cons n ns ih =>
    simp only [List.foldl_cons]
    obtain ⟨ih1, ih2⟩ := ih (minStep p acc n)
    constructor
    · intro m hm
      obtain ⟨a1, a2, a3⟩ := ih1 m hm
      refine ⟨?_, ?_, ?_⟩
      · rcases a1 with a1 | ⟨x, hx, hs, hp⟩
        · rcases (minStep_some p acc n m a1).1 with h | ⟨h1, h2⟩
          · left; exact h
          · right; exact ⟨n, by simp, h1, h2⟩
        · right; exact ⟨x, by simp [hx], hs, hp⟩
      · intro a ha
        cases hst : minStep p acc n with
        | none => have := (minStep_none p acc n hst).1; rw [this] at ha; simp at ha
        | some b =>
          have h1 := a2 b hst
          have h2 := (minStep_some p acc n b hst).2.1 a ha
          omega
      · intro x hx hpx
        simp only [List.mem_cons] at hx
        rcases hx with rfl | hx
        · cases hst : minStep p acc x with
          | none => have := (minStep_none p acc x hst).2; rw [this] at hpx; simp at hpx
          | some b =>
            have h1 := a2 b hst
            have h2 := (minStep_some p acc x b hst).2.2 hpx
            omega
        · exact a3 x hx hpx
    · intro hnone
      obtain ⟨b1, b2⟩ := ih2 hnone
      obtain ⟨c1, c2⟩ := minStep_none p acc n b1
      refine ⟨c1, ?_⟩
      intro x hx
      simp only [List.mem_cons] at hx
      rcases hx with rfl | hx
      · exact c2
      · exact b2 x hx

/-- `minSlot` is the least slot satisfying `p`, if any -/
theorem minSlot_some (p : Nat → Bool) (nodes : List RNode) (m : Nat) (h : minSlot p nodes = some m) :
    p m = true ∧ (∃ n ∈ nodes, n.st.slot = m) ∧ ∀ n ∈ nodes, p n.st.slot = true → m ≤ n.st.slot := by
  obtain ⟨h1, _⟩ := minSlot_fold p nodes none
  obtain ⟨a1, _, a3⟩ := h1 m h
  rcases a1 with a1 | ⟨x, hx, hs, hp⟩
  · simp at a1
  · exact ⟨hp, ⟨x, hx, hs⟩, a3⟩

theorem minSlot_none (p : Nat → Bool) (nodes : List RNode) (h : minSlot p nodes = none) :
    ∀ n ∈ nodes, p n.st.slot = false :=
  ((minSlot_fold p nodes none).2 h).2

theorem obsPhase_spec (evs : List (Nat × List EnvEv)) (k : Nat) (s : Sh) :
    s.wall ≤ (obsPhase evs k s).1.wall ∧ (s.stopReq = true → (obsPhase evs k s).1.stopReq = true) ∧
    (∀ l, (obsPhase evs k s).2 = some l → hasStopTok l = true → (obsPhase evs k s).1.stopReq = true) := by
  unfold obsPhase
  split
  · rename_i l _
    refine ⟨playEnvs_wall_ge l s [], playEnvs_stopReq_mono l s [], ?_⟩
    intro l' hl hs
    simp only [Option.some.injEq] at hl
    subst hl
    simpa [hasStopTok] using playEnvs_tok_stop l s [] hs
  · simp

theorem pushPhase_spec (s : Sh) : (pushPhase s).1.wall = s.wall ∧ (pushPhase s).1.stopReq = s.stopReq := by
  unfold pushPhase resetFlag
  simp only
  split
  · split
    · simp
    · simp only
      split <;> simp [mark_wall, mark_stopReq]
  · simp

theorem evalGraph_spec (cfg : Cfg) (k t : Nat) (g : Gr) (s : Sh) :
    (evalGraph cfg k t g s).crec.t = t ∧ (evalGraph cfg k t g s).crec.wall = s.wall ∧
    s.wall ≤ (evalGraph cfg k t g s).sh.wall ∧
    (s.stopReq = true → (evalGraph cfg k t g s).sh.stopReq = true) ∧
    (entryHasStop (.cycle (evalGraph cfg k t g s).crec) = true → (evalGraph cfg k t g s).sh.stopReq = true) ∧
    (evalGraph cfg k t g s).g.next = minSlot (fun x => decide (x > t)) (evalGraph cfg k t g s).g.nodes ∧
    (evalGraph cfg k t g s).g.nodes.length = g.nodes.length ∧
    (∀ (j : Nat) (n : RNode), g.nodes[j]? = some n → n.st.slot ≠ t → (evalGraph cfg k t g s).g.nodes[j]? = some n) ∧
    (g.nodes.length ≤ cfg.scripts.length → ∀ (j : Nat) (n : RNode), g.nodes[j]? = some n → n.st.slot = t →
      ∃ toks, (j + 1, n.k, toks) ∈ (evalGraph cfg k t g s).crec.nodes) ∧
    (∀ r ∈ (evalGraph cfg k t g s).crec.nodes, ∃ (j : Nat) (n : RNode), g.nodes[j]? = some n ∧ n.st.slot = t ∧ r.1 = j + 1) := by
  obtain ⟨b1, b2, b3⟩ := obsPhase_spec cfg.before k s
  obtain ⟨p1, p2⟩ := pushPhase_spec (obsPhase cfg.before k s).1
  obtain ⟨n1, n2, n3, n4, n5, n6, n7⟩ :=
    evalNodes_spec t cfg.scripts g.nodes 1 (pushPhase (obsPhase cfg.before k s).1).1
  generalize hnr : evalNodes t cfg.scripts g.nodes 1 (pushPhase (obsPhase cfg.before k s).1).1 = nr at *
  obtain ⟨a1, a2, a3⟩ := obsPhase_spec cfg.after k { nr.sh with wall := nr.sh.wall + cfg.cost }
  have hev : evalGraph cfg k t g s =
      { g := { nodes := nr.nodes, next := minSlot (fun x => decide (x > t)) nr.nodes },
        sh := (obsPhase cfg.after k { nr.sh with wall := nr.sh.wall + cfg.cost }).1,
        crec := { t := t, wall := s.wall, before := (obsPhase cfg.before k s).2, nodes := nr.recs,
                  delivered := (pushPhase (obsPhase cfg.before k s).1).2,
                  next := minSlot (fun x => decide (x > t)) nr.nodes,
                  after := (obsPhase cfg.after k { nr.sh with wall := nr.sh.wall + cfg.cost }).2 } } := by
    unfold evalGraph
    simp only [hnr]
  rw [hev]
  simp only at a1 a2
  refine ⟨rfl, rfl, by simp only; omega, ?_, ?_, rfl, n4, n5, ?_, ?_⟩
  · intro h
    exact a2 (n2 (by rw [p2]; exact b2 h))
  · intro h
    simp only [entryHasStop, Bool.or_eq_true, List.any_eq_true] at h
    rcases h with (h | ⟨r, hr, hs⟩) | h
    · split at h
      · rename_i l hl
        exact a2 (n2 (by rw [p2]; exact b3 l hl h))
      · simp at h
    · exact a2 (n3 r hr hs)
    · split at h
      · rename_i l hl
        exact a3 l hl h
      · simp at h
  · intro hlen j n hj hs
    obtain ⟨toks, ht⟩ := n6 hlen j n hj hs
    refine ⟨toks, ?_⟩
    rw [Nat.add_comm] at ht
    exact ht
  · intro r hr
    obtain ⟨j, n, hj, hs, hid⟩ := n7 r hr
    exact ⟨j, n, hj, hs, by omega⟩

/-! ### the loop invariant and the step lemmas -/

structure Inv (cfg : Cfg) (st : LoopSt) : Prop where
  next_eq : st.g.next = minSlot (armedP cfg st) st.g.nodes
  first : st.k = 0 → st.evalTime = cfg.start
  lt_end : st.evalTime < cfg.endT
  ge_start : cfg.start ≤ st.evalTime
  len : st.g.nodes.length = cfg.scripts.length

def isWaited : Entry → Bool
  | .waited _ => true
  | _ => false

theorem loopNext_le (endT : Nat) (o : Option Nat) : loopNext endT o ≤ endT := by
  unfold loopNext; split
  · exact Nat.le_refl _
  · split <;> omega

/-- an armed wake-up bounds what the loop passes to `advance` -/
theorem armed_ge_loopNext {cfg : Cfg} {st : LoopSt} (hinv : Inv cfg st) {j T : Nat} (h : Armed cfg st j T) :
    min (loopNext cfg.endT st.g.next) cfg.endT ≤ T := by
  obtain ⟨n, hn, hs, hp⟩ := h
  have hmem : n ∈ st.g.nodes := List.mem_of_getElem? hn
  rw [hinv.next_eq]
  cases hm : minSlot (armedP cfg st) st.g.nodes with
  | none =>
    have := minSlot_none _ _ hm n hmem
    rw [hs, hp] at this; simp at this
  | some m =>
    have := (minSlot_some _ _ m hm).2.2 n hmem (by rw [hs]; exact hp)
    rw [hs] at this
    unfold loopNext
    simp only
    split <;> omega

/-- the loop's target lies strictly after the previous cycle (or at/after `start` for the first) -/
theorem target_gt {cfg : Cfg} {st : LoopSt} (hinv : Inv cfg st) :
    (st.k = 0 → st.evalTime ≤ min (loopNext cfg.endT st.g.next) cfg.endT) ∧
    (st.k ≠ 0 → st.evalTime < min (loopNext cfg.endT st.g.next) cfg.endT) := by
  have hlt := hinv.lt_end
  rw [hinv.next_eq]
  cases hm : minSlot (armedP cfg st) st.g.nodes with
  | none => simp only [loopNext]; constructor <;> intro _ <;> omega
  | some m =>
    have hp := (minSlot_some _ _ m hm).1
    unfold armedP at hp
    simp only [loopNext]
    constructor
    · intro hk
      simp only [hk, if_true, decide_eq_true_eq] at hp
      have := hinv.first hk
      split <;> omega
    · intro hk
      simp only [hk, if_false, decide_eq_true_eq] at hp
      split <;> omega

/-- what one continuing iteration of the loop does -/
theorem iter_cont {cfg : Cfg} {st st' : LoopSt} {ents : List Entry} (hinv : Inv cfg st)
    (h : iter cfg st = .cont st' ents) :
    ∃ ws c, ents = ws ++ [.cycle c] ∧ (∀ e ∈ ws, isWaited e = true ∧ entryHasStop e = false) ∧
      st.sh.stopReq = false ∧
      st'.evalTime = c.t ∧ st'.k = st.k + 1 ∧ c.t < cfg.endT ∧
      (st.k = 0 → st.evalTime ≤ c.t) ∧ (st.k ≠ 0 → st.evalTime < c.t) ∧
      c.t ≤ max c.wall (st.evalTime + 1) ∧
      c.t ≤ min (loopNext cfg.endT st.g.next) cfg.endT ∧
      st.sh.wall ≤ c.wall ∧ c.wall ≤ st'.sh.wall ∧
      (entryHasStop (.cycle c) = true → st'.sh.stopReq = true) ∧
      st'.consec = (if c.t = st.evalTime + 1 then st.consec + 1 else 0) ∧
      Inv cfg st' ∧
      (∀ j T, Armed cfg st j T →
        c.t ≤ T ∧ (T = c.t → ∃ k toks, (j + 1, k, toks) ∈ c.nodes) ∧ (c.t < T → Armed cfg st' j T)) ∧
      (∀ r ∈ c.nodes, ∃ j, r.1 = j + 1 ∧ Armed cfg st j c.t) := by
  unfold iter at h
  split at h
  · simp at h
  · rename_i hstop
    simp only [Bool.not_eq_true] at hstop
    obtain ⟨a1, a2, a3, ⟨ws, a4, a5⟩, a6, a7, a8, a9, a10, a11⟩ :=
      advance_spec cfg.endT cfg.slice (loopNext cfg.endT st.g.next) st.evalTime st.consec st.evs st.sh []
    generalize ha : advance cfg.endT cfg.slice (loopNext cfg.endT st.g.next) st.evalTime st.consec st.evs st.sh [] = a
      at h a1 a2 a3 a4 a5 a6 a7 a8 a9 a10 a11
    simp only at h
    split at h
    · simp at h
    · rename_i hastop
      simp only [Bool.not_eq_true] at hastop
      split at h
      · simp at h
      · rename_i hlt
        simp only [ge_iff_le, Nat.not_le] at hlt
        obtain ⟨e1, e2, e3, e4, e5, e6, e7, e8, e9, e10⟩ := evalGraph_spec cfg st.k a.t st.g a.sh
        generalize he : evalGraph cfg st.k a.t st.g a.sh = e at h e1 e2 e3 e4 e5 e6 e7 e8 e9 e10
        simp only [Iter.cont.injEq] at h
        obtain ⟨hst, hents⟩ := h
        obtain ⟨t1, t2⟩ := target_gt hinv
        obtain ⟨a8a, a8b⟩ := a8 hlt
        simp only [List.nil_append] at a4
        have hk' : st'.k = st.k + 1 := by rw [← hst]
        have hinv' : Inv cfg st' := by
          rw [← hst]
          refine ⟨?_, ?_, ?_, ?_, ?_⟩
          · simp only
            rw [e6]
            congr 1
          · intro hk; simp at hk
          · simpa using hlt
          · simp only
            have := hinv.ge_start
            by_cases hk : st.k = 0
            · have := t1 hk; omega
            · have := t2 hk; omega
          · simp only; rw [e7]; exact hinv.len
        refine ⟨ws, e.crec, ?_, ?_, hstop, ?_, hk', ?_, ?_, ?_, ?_, ?_, ?_, ?_, ?_, ?_, hinv', ?_, ?_⟩
        · rw [← hents, a4]
        · intro x hx
          obtain ⟨⟨toks, hw⟩, hs⟩ := a5 x hx
          refine ⟨by rw [hw]; rfl, ?_⟩
          cases hh : entryHasStop x with
          | false => rfl
          | true => have := hs hh; rw [hastop] at this; simp at this
        · rw [← hst, e1]
        · rw [e1]; exact hlt
        · intro hk; rw [e1]; have := t1 hk; omega
        · intro hk; rw [e1]; have := t2 hk; omega
        · rw [e1, e2, ← a1, a8a]; omega
        · rw [e1, a8a]; omega
        · rw [e2]; exact a2
        · rw [e2, ← hst]; exact e3
        · intro hs; rw [← hst]; exact e5 hs
        · rw [← hst, e1]
        · intro j T harm
          have hge := armed_ge_loopNext hinv harm
          have hle : a.t ≤ T := by rw [a8a]; omega
          obtain ⟨n, hn, hs, hp⟩ := harm
          refine ⟨by rw [e1]; exact hle, ?_, ?_⟩
          · intro hT
            rw [e1] at hT
            obtain ⟨toks, ht⟩ := e9 (by rw [hinv.len]; exact Nat.le_refl _) j n hn (by rw [hs, hT])
            exact ⟨n.k, toks, ht⟩
          · intro hT
            rw [e1] at hT
            refine ⟨n, ?_, hs, ?_⟩
            · rw [← hst]; exact e8 j n hn (by rw [hs]; exact Nat.ne_of_gt hT)
            · unfold armedP; rw [← hst]; simp; exact hT
        · intro r hr
          obtain ⟨j, n, hn, hs, hid⟩ := e10 r hr
          refine ⟨j, hid, n, hn, by rw [hs, e1], ?_⟩
          rw [e1]
          unfold armedP
          by_cases hk : st.k = 0
          · simp only [hk, if_true, decide_eq_true_eq]
            have := t1 hk; have := hinv.first hk; omega
          · simp only [hk, if_false, decide_eq_true_eq]
            have := t2 hk; omega

/-- what a terminating iteration of the loop does -/
theorem iter_done {cfg : Cfg} {st st' : LoopSt} {r : Reason} {ents : List Entry} (hinv : Inv cfg st)
    (h : iter cfg st = .done r st' ents) :
    (∀ e ∈ ents, isWaited e = true) ∧ r ≠ .fuel ∧
    (st.sh.stopReq = true → ents = []) ∧
    (r = .stop ↔ st'.sh.stopReq = true) ∧
    (∀ e ∈ ents, entryHasStop e = true → r = .stop) ∧
    (r = .endReached → ∀ j T, Armed cfg st j T → cfg.endT ≤ T) ∧
    (r = .endReached → cfg.endT ≤ st'.sh.wall ∨ st'.sh.flag = true) ∧
    (r = .cutoff → cfg.endT ≤ st'.sh.wall ∧ drainLimit ≤ st.consec) := by
  unfold iter at h
  split at h
  · rename_i hstop
    simp only [Iter.done.injEq] at h
    obtain ⟨rfl, rfl, rfl⟩ := h
    simp [hstop]
  · rename_i hstop
    simp only [Bool.not_eq_true] at hstop
    obtain ⟨a1, a2, a3, ⟨ws, a4, a5⟩, a6, a7, a8, a9, a10, a11⟩ :=
      advance_spec cfg.endT cfg.slice (loopNext cfg.endT st.g.next) st.evalTime st.consec st.evs st.sh []
    generalize ha : advance cfg.endT cfg.slice (loopNext cfg.endT st.g.next) st.evalTime st.consec st.evs st.sh [] = a
      at h a1 a2 a3 a4 a5 a6 a7 a8 a9 a10 a11
    simp only [List.nil_append] at a4
    simp only at h
    have hw : ∀ e ∈ a.log, isWaited e = true := by
      intro e he; rw [a4] at he
      obtain ⟨⟨toks, hw⟩, _⟩ := a5 e he
      rw [hw]; rfl
    split at h
    · rename_i hastop
      simp only [Iter.done.injEq] at h
      obtain ⟨rfl, rfl, rfl⟩ := h
      refine ⟨hw, by simp, fun h => by rw [hstop] at h; simp at h, by simp [hastop], by simp, by simp, by simp, by simp⟩
    · rename_i hastop
      simp only [Bool.not_eq_true] at hastop
      split at h
      · rename_i hge
        simp only [Iter.done.injEq] at h
        obtain ⟨rfl, rfl, rfl⟩ := h
        have hnostop : ∀ e ∈ a.log, entryHasStop e = true → False := by
          intro e he hs; rw [a4] at he
          have := (a5 e he).2 hs
          rw [hastop] at this; simp at this
        refine ⟨hw, by split <;> simp, fun h => by rw [hstop] at h; simp at h, ?_, ?_, ?_, ?_, ?_⟩
        · simp only [hastop]; split <;> simp
        · intro e he hs; exact absurd hs (fun hs => hnostop e he hs)
        · intro hr j T harm
          have hcut : a.cut = false := by
            cases hc : a.cut with
            | false => rfl
            | true => simp [hc] at hr
          have h1 := a10 hcut hge
          have h2 := armed_ge_loopNext hinv harm
          omega
        · intro hr
          have hcut : a.cut = false := by
            cases hc : a.cut with
            | false => rfl
            | true => simp [hc] at hr
          have h1 := a10 hcut hge
          simp only
          rcases a11 with h | h
          · left; rw [← a1]; omega
          · right
            unfold wakeRequested at h
            simpa [hastop] using h
        · intro hr
          have hcut : a.cut = true := by
            cases hc : a.cut with
            | false => simp [hc] at hr
            | true => rfl
          obtain ⟨c1, c2, _⟩ := a9 hcut
          simp only
          exact ⟨by rw [← a1]; exact c1, c2⟩
      · simp at h

/-! ### the start of the run -/

theorem startNodes_spec (start : Nat) (scs : List (List (List ROp))) (id : Nat) (s : Sh) :
    (startNodes start scs id s).nodes.length = scs.length ∧
    s.wall ≤ (startNodes start scs id s).sh.wall ∧
    (s.stopReq = true → (startNodes start scs id s).sh.stopReq = true) ∧
    (∀ r ∈ (startNodes start scs id s).recs, hasStopTok r.2.2 = true → (startNodes start scs id s).sh.stopReq = true) := by
  induction scs generalizing id s with
  | nil => simp [startNodes]
  | cons sc rest ih =>
    simp only [startNodes]
    obtain ⟨r1, r2, r3⟩ := runOps_spec start false (scriptEntry sc 0) s
    obtain ⟨h1, h2, h3, h4⟩ := ih (id + 1) (runOps start false (scriptEntry sc 0) s).sh
    refine ⟨by simp [h1], Nat.le_trans r1 h2, fun h => h3 (r2 h), ?_⟩
    intro r hr hs
    simp only [List.mem_cons] at hr
    rcases hr with rfl | hr
    · exact h3 (r3 hs)
    · exact h4 r hr hs

theorem cycles_append (a b : List Entry) : cycles (a ++ b) = cycles a ++ cycles b := by
  induction a with
  | nil => rfl
  | cons e rest ih => cases e <;> simp [cycles, ih]

theorem cycles_waited (l : List Entry) (h : ∀ e ∈ l, isWaited e = true) : cycles l = [] := by
  induction l with
  | nil => rfl
  | cons e rest ih =>
    have := h e (by simp)
    cases e <;> simp [isWaited] at this
    simp only [cycles]
    exact ih (fun e he => h e (by simp [he]))

/-- the state the loop starts in satisfies the invariant; a stop token logged by a start hook
    means the stop flag is set -/
theorem init_spec (cfg : Cfg) (evs : List WEv) (hse : cfg.start < cfg.endT) :
    Inv cfg (initSt cfg evs).1 ∧ (initSt cfg evs).1.k = 0 ∧ (initSt cfg evs).1.evalTime = cfg.start ∧
    cycles (initSt cfg evs).2 = [] ∧ cfg.wall0 ≤ (initSt cfg evs).1.sh.wall ∧
    (∀ e ∈ (initSt cfg evs).2, entryHasStop e = true → (initSt cfg evs).1.sh.stopReq = true) := by
  obtain ⟨h1, h2, h3, h4⟩ := startNodes_spec cfg.start cfg.scripts 1 { wall := cfg.wall0, accepting := true }
  unfold initSt startGraph
  simp only
  refine ⟨⟨?_, fun _ => rfl, hse, Nat.le_refl _, h1⟩, trivial, trivial, ?_, h2, ?_⟩
  · simp only
    congr 1
  · simp only [List.singleton_append, cycles]
    generalize (startNodes cfg.start cfg.scripts 1 { wall := cfg.wall0, accepting := true }).recs = recs
    induction recs with
    | nil => rfl
    | cons r rest ih => simp [cycles, ih]
  · intro e he hs
    simp only [List.singleton_append, List.mem_cons, List.mem_map] at he
    rcases he with rfl | ⟨r, hr, rfl⟩
    · simp [entryHasStop] at hs
    · exact h4 r hr (by simpa [entryHasStop] using hs)

end HgVerif.Realtime
