import HgVerif.Lemmas.Slots
/-!
Helper lemmas for C05, TSS part: the invariant tying the `added_/removed_` bits of
`TSSSlotStorage` to the value at the start of the current delta window, and its preservation by
every operation of `TSSDataMutationView`.
-/
namespace HgVerif.Slots
local notation "Time" => Nat

/-- per-slot relation between state, delta bits and the value `V0` at the start of the delta window -/
def SetSlotOK (V0 : List Key) (s : Slot) : Prop :=
  (s.st = .free → s.added = false ∧ s.removed = false) ∧
  (s.added = true → s.st = .live ∧ s.key ∉ V0) ∧
  (s.removed = true → s.st = .pending ∧ s.key ∈ V0) ∧
  (s.st = .live → s.added = false → s.key ∈ V0) ∧
  (s.st = .pending → s.removed = false → s.key ∉ V0)

theorem ok_ins_resurrect {V : List Key} {s : Slot} (h : SetSlotOK V s) (hp : s.st = .pending) :
    SetSlotOK V (insBits { s with st := .live }) := by
  unfold SetSlotOK insBits at *
  grind

theorem ok_ins_fresh {V : List Key} {s : Slot} {k : Key} (h : SetSlotOK V s) (hp : s.st = .free) (hk : k ∉ V) :
    SetSlotOK V (insBits { s with st := .live, key := k, cval := 0, clmt := 0 }) := by
  unfold SetSlotOK insBits at *
  grind

theorem ok_rem {V : List Key} {s : Slot} (h : SetSlotOK V s) (hp : s.st = .live) :
    SetSlotOK V (remBits { s with st := .pending }) := by
  unfold SetSlotOK remBits at *
  grind

theorem ok_clear {V' : List Key} {s : Slot} (hv : s.st = .live → s.key ∈ V') :
    SetSlotOK V' (clearSetBits (if s.st = .pending then { s with st := .free } else s)) := by
  unfold SetSlotOK clearSetBits at *
  grind

theorem insBits_sk (s : Slot) : (insBits s).st = s.st ∧ (insBits s).key = s.key := by
  unfold insBits; split <;> exact ⟨rfl, rfl⟩

theorem remBits_sk (s : Slot) : (remBits s).st = s.st ∧ (remBits s).key = s.key := by
  unfold remBits; split <;> exact ⟨rfl, rfl⟩

structure TSS.Inv (x : TSS) (V0 : List Key) : Prop where
  wf : x.keys.WF
  slot : ∀ i, SetSlotOK V0 (sget x.keys.slots i)
  /-- every key of the window-start value is still stored (live, or pending erase) -/
  cover : ∀ k ∈ V0, ∃ i, (sget x.keys.slots i).st ≠ .free ∧ (sget x.keys.slots i).key = k

theorem TSS.Inv_empty : TSS.Inv {} [] := by
  refine ⟨Store.WF_empty, ?_, by simp⟩
  intro i
  simp [SetSlotOK, sget]

/-- the invariant only looks at the key store -/
theorem TSS.Inv_congr {x y : TSS} {V : List Key} (h : x.Inv V) (e : y.keys = x.keys) : y.Inv V := by
  refine ⟨?_, ?_, ?_⟩
  · rw [e]; exact h.wf
  · rw [e]; exact h.slot
  · rw [e]; exact h.cover

/-- replace slot `i` by `s'` -/
theorem TSS.Inv_update {x : TSS} {V : List Key} (h : x.Inv V) {y : TSS} {i : Nat} {s' : Slot}
    (hwf : y.keys.WF) (hget : ∀ j, sget y.keys.slots j = if j = i then s' else sget x.keys.slots j)
    (hs' : SetSlotOK V s')
    (hst : (sget x.keys.slots i).st ≠ .free → s'.st ≠ .free ∧ s'.key = (sget x.keys.slots i).key) :
    y.Inv V := by
  refine ⟨hwf, ?_, ?_⟩
  · intro j
    rw [hget j]
    split
    · exact hs'
    · exact h.slot j
  · intro k hk
    obtain ⟨j, hs, hkj⟩ := h.cover k hk
    refine ⟨j, ?_, ?_⟩
    · rw [hget j]; split
      · rename_i e; subst e; exact (hst hs).1
      · exact hs
    · rw [hget j]; split
      · rename_i e; subst e; rw [(hst hs).2]; exact hkj
      · exact hkj

/-- the ghost: value at the start of the delta window after an operation at time `t` -/
def TSS.ghost (x : TSS) (V0 : List Key) (t : Time) : List Key :=
  if t ≤ x.deltaTime then V0 else x.value

theorem TSS.ghost_of_le {x : TSS} {V0 : List Key} {t : Time} (h : t ≤ x.deltaTime) : x.ghost V0 t = V0 := by
  simp [TSS.ghost, h]

theorem TSS.prepareDelta_of_le {x : TSS} {t : Time} (h : t ≤ x.deltaTime) : x.prepareDelta t = x := by
  simp [TSS.prepareDelta, h]

theorem TSS.deltaTime_prepare (x : TSS) (t : Time) : (x.prepareDelta t).deltaTime = max x.deltaTime t := by
  unfold TSS.prepareDelta
  by_cases h : t ≤ x.deltaTime
  · simp only [h, ↓reduceIte]; omega
  · simp only [h, ↓reduceIte]; omega

theorem TSS.lmt_prepare (x : TSS) (t : Time) : (x.prepareDelta t).lmt = x.lmt := by
  unfold TSS.prepareDelta; split <;> rfl

theorem TSS.prepare_inv {x : TSS} {V0 : List Key} (h : x.Inv V0) (t : Time) :
    (x.prepareDelta t).Inv (x.ghost V0 t) := by
  unfold TSS.prepareDelta TSS.ghost
  by_cases ht : t ≤ x.deltaTime
  · simpa [ht] using h
  · simp only [ht, ↓reduceIte]
    obtain ⟨hwf, hsl⟩ := Store.erasePending_spec h.wf
    have hget : ∀ j, sget (x.keys.erasePending.mapSlots clearSetBits).slots j =
        clearSetBits (if (sget x.keys.slots j).st = .pending then { sget x.keys.slots j with st := .free }
          else sget x.keys.slots j) := by
      intro j
      simp only [Store.mapSlots]
      rw [sget_map _ _ (by rfl), hsl j]
    refine ⟨Store.WF_mapSlots hwf _ (by rfl) (fun _ => ⟨rfl, rfl⟩), ?_, ?_⟩
    · intro j
      rw [hget j]
      apply ok_clear
      intro hl
      exact mem_liveKeys.mpr ⟨j, hl, rfl⟩
    · intro k hk
      obtain ⟨i, hl, hki⟩ := mem_liveKeys.mp hk
      have hnp : (sget x.keys.slots i).st ≠ .pending := by rw [hl]; decide
      refine ⟨i, ?_, ?_⟩
      · rw [hget i, if_neg hnp]; simp only [clearSetBits, hl]; decide
      · rw [hget i, if_neg hnp]; simp only [clearSetBits, hki]

theorem TSS.insertKey_inv {x : TSS} {V0 : List Key} (h : x.Inv V0) (t : Time) (k : Key) :
    (x.insertKey t k).1.Inv (x.ghost V0 t) ∧ (x.insertKey t k).1.deltaTime = max x.deltaTime t ∧
    (x.insertKey t k).1.lmt = x.lmt := by
  have h1 := TSS.prepare_inv h t
  have hd := TSS.deltaTime_prepare x t
  have hl := TSS.lmt_prepare x t
  generalize x.ghost V0 t = V at h1
  unfold TSS.insertKey
  generalize x.prepareDelta t = x1 at h1 hd hl
  obtain ⟨hwf, hlt, hcase⟩ := Store.insert_spec h1.wf k
  simp only
  cases hcase with
  | present hi1 hi2 hi3 hi4 =>
    simp only [hi1, Bool.false_eq_true, ↓reduceIte]
    exact ⟨TSS.Inv_congr h1 hi2, hd, hl⟩
  | resurrect hi1 hi2 hi3 hi4 hi5 =>
    simp only [hi1, ↓reduceIte]
    refine ⟨?_, hd, hl⟩
    apply TSS.Inv_update h1 (i := (x1.keys.insert k).2.slot)
      (s' := insBits { sget x1.keys.slots (x1.keys.insert k).2.slot with st := .live })
    · exact Store.WF_modifySlot hwf _ _ insBits_sk
    · intro j
      simp only [Store.modifySlot, sget_modify, hi5]
      by_cases hj : j = (x1.keys.insert k).2.slot
      · subst hj; simp [hlt]
      · have : ¬ ((x1.keys.insert k).2.slot = j ∧ j < (x1.keys.insert k).1.slots.length) := fun e => hj e.1.symm
        simp [this, hj]
    · exact ok_ins_resurrect (h1.slot _) hi3
    · intro _
      have := insBits_sk { sget x1.keys.slots (x1.keys.insert k).2.slot with st := .live }
      rw [this.1, this.2]
      exact ⟨by simp, rfl⟩
  | fresh hi1 hi2 hi3 hi4 hi5 =>
    simp only [hi1, ↓reduceIte]
    refine ⟨?_, hd, hl⟩
    have hkV : k ∉ V := by
      intro hk
      obtain ⟨i, hs, hki⟩ := h1.cover k hk
      exact hi3 i hs hki
    apply TSS.Inv_update h1 (i := (x1.keys.insert k).2.slot)
      (s' := insBits { sget x1.keys.slots (x1.keys.insert k).2.slot with st := .live, key := k, cval := 0, clmt := 0 })
    · exact Store.WF_modifySlot hwf _ _ insBits_sk
    · intro j
      simp only [Store.modifySlot, sget_modify, hi5]
      by_cases hj : j = (x1.keys.insert k).2.slot
      · subst hj; simp [hlt]
      · have : ¬ ((x1.keys.insert k).2.slot = j ∧ j < (x1.keys.insert k).1.slots.length) := fun e => hj e.1.symm
        simp [this, hj]
    · exact ok_ins_fresh (h1.slot _) hi4 hkV
    · intro hne; exact absurd hi4 hne

theorem findLive_some {l : List Slot} {k : Key} {i : Nat} (h : findLive l k = some i) :
    (sget l i).st = .live ∧ (sget l i).key = k := by
  unfold findLive at h
  cases hf : findStored l k with
  | none => simp [hf] at h
  | some j =>
    simp only [hf] at h
    by_cases hl : (sget l j).st = .live
    · simp only [hl, beq_self_eq_true, ↓reduceIte, Option.some.injEq] at h
      subst h
      exact ⟨hl, (findStored_some hf).2.2⟩
    · have : ((sget l j).st == St.live) = false := by simpa using hl
      simp [this] at h

theorem TSS.removeKey_inv {x : TSS} {V0 : List Key} (h : x.Inv V0) (t : Time) (k : Key) :
    (x.removeKey t k).1.Inv (x.ghost V0 t) ∧ (x.removeKey t k).1.deltaTime = max x.deltaTime t ∧
    (x.removeKey t k).1.lmt = x.lmt := by
  have h1 := TSS.prepare_inv h t
  have hd := TSS.deltaTime_prepare x t
  have hl := TSS.lmt_prepare x t
  generalize x.ghost V0 t = V at h1
  unfold TSS.removeKey
  generalize x.prepareDelta t = x1 at h1 hd hl
  simp only
  cases hf : findLive x1.keys.slots k with
  | none => exact ⟨h1, hd, hl⟩
  | some i =>
    simp only
    obtain ⟨hlive, hki⟩ := findLive_some hf
    obtain ⟨hr, hwf, hget⟩ := Store.removeSlot_spec h1.wf hlive
    have hilt : i < x1.keys.slots.length := lt_of_st_ne_free (by rw [hlive]; decide)
    simp only [hr, ↓reduceIte]
    refine ⟨?_, hd, hl⟩
    apply TSS.Inv_update h1 (i := i) (s' := remBits { sget x1.keys.slots i with st := .pending })
    · exact Store.WF_modifySlot hwf _ _ remBits_sk
    · intro j
      simp only [Store.modifySlot, sget_modify, hget]
      have hlen : (x1.keys.removeSlot i).1.slots.length = x1.keys.slots.length := by
        unfold Store.removeSlot; simp [hlive]
      by_cases hj : j = i
      · subst hj; simp [hlen, hilt]
      · have : ¬ (i = j ∧ j < (x1.keys.removeSlot i).1.slots.length) := fun e => hj e.1.symm
        simp [this, hj]
    · exact ok_rem (h1.slot _) hlive
    · intro _
      have := remBits_sk { sget x1.keys.slots i with st := .pending }
      rw [this.1, this.2]
      exact ⟨by simp, rfl⟩


theorem recMod_eq_max (lmt t : Time) : recMod lmt t = max lmt t := by
  unfold recMod; split <;> omega

/-- the common tail of `add` / `remove` -/
theorem TSS.afterMut_inv {y : TSS} {V : List Key} {t : Time} {c : Bool} (h : y.Inv V) (hd : t ≤ y.deltaTime) :
    (TSS.afterMut (y, c) t).1.Inv V ∧ (TSS.afterMut (y, c) t).1.deltaTime = y.deltaTime ∧
    (TSS.afterMut (y, c) t).1.lmt = max y.lmt t ∧ (TSS.afterMut (y, c) t).2 = c := by
  unfold TSS.afterMut TSS.markModified TSS.touch
  rw [TSS.prepareDelta_of_le hd]
  cases c with
  | true =>
    refine ⟨?_, ?_, ?_, ?_⟩
    · simp only [↓reduceIte]; exact TSS.Inv_congr h rfl
    · simp
    · simp [recMod_eq_max]
    · simp
  | false =>
    by_cases e : y.lmt = t
    · have : (y.lmt != t) = false := by simp [e]
      refine ⟨?_, ?_, ?_, ?_⟩
      · simp only [Bool.false_eq_true, ↓reduceIte, this]; exact h
      · simp [this]
      · simp only [Bool.false_eq_true, ↓reduceIte, this]; omega
      · simp
    · have : (y.lmt != t) = true := by simp [e]
      refine ⟨?_, ?_, ?_, ?_⟩
      · simp only [Bool.false_eq_true, ↓reduceIte, this]; exact TSS.Inv_congr h rfl
      · simp [this]
      · simp [this, recMod_eq_max]
      · simp

theorem TSS.add_inv {x : TSS} {V0 : List Key} (h : x.Inv V0) (t : Time) (k : Key) :
    (x.add t k).1.Inv (x.ghost V0 t) ∧ (x.add t k).1.deltaTime = max x.deltaTime t ∧
    (x.add t k).1.lmt = max x.lmt t := by
  obtain ⟨h1, h2, h3⟩ := TSS.insertKey_inv h t k
  unfold TSS.add
  have := TSS.afterMut_inv (c := (x.insertKey t k).2) (t := t) h1 (by rw [h2]; omega)
  refine ⟨this.1, by rw [this.2.1, h2], by rw [this.2.2.1, h3]⟩

theorem TSS.remove_inv {x : TSS} {V0 : List Key} (h : x.Inv V0) (t : Time) (k : Key) :
    (x.remove t k).1.Inv (x.ghost V0 t) ∧ (x.remove t k).1.deltaTime = max x.deltaTime t ∧
    (x.remove t k).1.lmt = max x.lmt t := by
  obtain ⟨h1, h2, h3⟩ := TSS.removeKey_inv h t k
  unfold TSS.remove
  have := TSS.afterMut_inv (c := (x.removeKey t k).2) (t := t) h1 (by rw [h2]; omega)
  refine ⟨this.1, by rw [this.2.1, h2], by rw [this.2.2.1, h3]⟩

theorem TSS.touchOp_inv {x : TSS} {V0 : List Key} (h : x.Inv V0) (t : Time) :
    (x.touchOp t).Inv (x.ghost V0 t) ∧ (x.touchOp t).deltaTime = max x.deltaTime t ∧
    (x.touchOp t).lmt = max x.lmt t := by
  have h1 := TSS.prepare_inv h t
  have hd := TSS.deltaTime_prepare x t
  have hl := TSS.lmt_prepare x t
  unfold TSS.touchOp TSS.touch TSS.markModified
  simp only
  by_cases e : (x.prepareDelta t).lmt = t
  · have : ((x.prepareDelta t).lmt != t) = false := by simp [e]
    simp only [this, Bool.false_eq_true, ↓reduceIte]
    exact ⟨h1, hd, by rw [hl] at e ⊢; omega⟩
  · have : ((x.prepareDelta t).lmt != t) = true := by simp [e]
    simp only [this, ↓reduceIte]
    exact ⟨TSS.Inv_congr h1 rfl, hd, by rw [recMod_eq_max, hl]⟩

/-- the removal loop of `clear` inside one delta window -/
theorem TSS.removeAll_inv (ks : List Key) {t : Time} {V : List Key} : ∀ {y : TSS}, y.Inv V → t ≤ y.deltaTime →
    (ks.foldl (fun y k => (y.remove t k).1) y).Inv V ∧
    (ks.foldl (fun y k => (y.remove t k).1) y).deltaTime = y.deltaTime ∧
    (ks.foldl (fun y k => (y.remove t k).1) y).lmt = (if ks = [] then y.lmt else max y.lmt t) := by
  induction ks with
  | nil => intro y h _; exact ⟨h, rfl, rfl⟩
  | cons k rest ih =>
    intro y h hd
    obtain ⟨h1, h2, h3⟩ := TSS.remove_inv h t k
    rw [TSS.ghost_of_le hd] at h1
    have hd' : t ≤ (y.remove t k).1.deltaTime := by rw [h2]; omega
    obtain ⟨i1, i2, i3⟩ := ih h1 hd'
    simp only [List.foldl_cons]
    refine ⟨i1, by rw [i2, h2]; omega, ?_⟩
    rw [i3, h3]
    simp only [reduceCtorEq, ↓reduceIte]
    split <;> omega

theorem TSS.clear_inv {x : TSS} {V0 : List Key} (h : x.Inv V0) (t : Time) :
    (x.clear t).Inv (x.ghost V0 t) ∧ (x.clear t).deltaTime = max x.deltaTime t ∧
    (x.clear t).lmt = max x.lmt t := by
  have h1 := TSS.prepare_inv h t
  have hd := TSS.deltaTime_prepare x t
  have hl := TSS.lmt_prepare x t
  unfold TSS.clear TSS.touch TSS.markModified
  simp only
  obtain ⟨i1, i2, i3⟩ := TSS.removeAll_inv (liveKeys x.keys.slots) (t := t) h1 (by rw [hd]; omega)
  by_cases e : (x.prepareDelta t).lmt = t
  · have : ((x.prepareDelta t).lmt != t) = false := by simp [e]
    simp only [this, Bool.false_eq_true, ↓reduceIte]
    refine ⟨i1, by rw [i2, hd], ?_⟩
    rw [i3]; rw [hl] at e ⊢
    split <;> omega
  · have : ((x.prepareDelta t).lmt != t) = true := by simp [e]
    simp only [this, ↓reduceIte]
    refine ⟨TSS.Inv_congr i1 rfl, by rw [i2, hd], ?_⟩
    rw [recMod_eq_max, i3, hl]
    split <;> omega

theorem TSS.step_inv {x : TSS} {V0 : List Key} (h : x.Inv V0) (o : SetOp) :
    (x.step o).Inv (x.ghost V0 o.time) ∧ (x.step o).deltaTime = max x.deltaTime o.time ∧
    (x.step o).lmt = max x.lmt o.time := by
  unfold TSS.step
  by_cases h0 : o.time = 0
  · simp only [h0, beq_self_eq_true, ↓reduceIte]
    exact ⟨by rw [TSS.ghost_of_le (Nat.zero_le _)]; exact h, by omega, by omega⟩
  · have : (o.time == 0) = false := by simpa using h0
    simp only [this, Bool.false_eq_true, ↓reduceIte]
    cases o with
    | add t k => exact TSS.add_inv h t k
    | rem t k => exact TSS.remove_inv h t k
    | clear t => exact TSS.clear_inv h t
    | touch t => exact TSS.touchOp_inv h t


/-! ### what the operations do to the value (refinement to a set of keys) -/

theorem TSS.value_prepare (x : TSS) (h : x.keys.WF) (t : Time) (k' : Key) :
    k' ∈ (x.prepareDelta t).value ↔ k' ∈ x.value := by
  unfold TSS.prepareDelta
  by_cases ht : t ≤ x.deltaTime
  · simp [ht]
  · simp only [ht, ↓reduceIte, TSS.value]
    obtain ⟨_, hsl⟩ := Store.erasePending_spec h
    have hget : ∀ j, sget (x.keys.erasePending.mapSlots clearSetBits).slots j =
        clearSetBits (if (sget x.keys.slots j).st = .pending then { sget x.keys.slots j with st := .free }
          else sget x.keys.slots j) := by
      intro j
      simp only [Store.mapSlots]
      rw [sget_map _ _ (by rfl), hsl j]
    rw [mem_liveKeys, mem_liveKeys]
    constructor
    · rintro ⟨i, hl, hk⟩
      rw [hget i] at hl hk
      by_cases hp : (sget x.keys.slots i).st = .pending
      · rw [if_pos hp] at hl; simp [clearSetBits] at hl
      · rw [if_neg hp] at hl hk
        exact ⟨i, by simpa [clearSetBits] using hl, by simpa [clearSetBits] using hk⟩
    · rintro ⟨i, hl, hk⟩
      have hp : (sget x.keys.slots i).st ≠ .pending := by rw [hl]; decide
      refine ⟨i, ?_, ?_⟩
      · rw [hget i, if_neg hp]; simpa [clearSetBits] using hl
      · rw [hget i, if_neg hp]; simpa [clearSetBits] using hk

theorem TSS.value_insertKey {x : TSS} {V0 : List Key} (h : x.Inv V0) (t : Time) (k k' : Key) :
    k' ∈ (x.insertKey t k).1.value ↔ k' = k ∨ k' ∈ x.value := by
  rw [← TSS.value_prepare x h.wf t k']
  have h1 := TSS.prepare_inv h t
  generalize x.ghost V0 t = V at h1
  unfold TSS.insertKey
  generalize x.prepareDelta t = x1 at h1
  obtain ⟨hwf, hlt, hcase⟩ := Store.insert_spec h1.wf k
  simp only [TSS.value]
  cases hcase with
  | present hi1 hi2 hi3 hi4 =>
    simp only [hi1, Bool.false_eq_true, ↓reduceIte, hi2]
    constructor
    · exact Or.inr
    · rintro (rfl | hk)
      · exact mem_liveKeys.mpr ⟨_, hi3, hi4⟩
      · exact hk
  | resurrect hi1 hi2 hi3 hi4 hi5 =>
    simp only [hi1, ↓reduceIte]
    have hget : ∀ j, sget ((x1.keys.insert k).1.modifySlot (x1.keys.insert k).2.slot insBits).slots j =
        if j = (x1.keys.insert k).2.slot then insBits { sget x1.keys.slots j with st := .live }
        else sget x1.keys.slots j := by
      intro j
      simp only [Store.modifySlot, sget_modify, hi5]
      by_cases hj : j = (x1.keys.insert k).2.slot
      · subst hj; simp [hlt]
      · have : ¬ ((x1.keys.insert k).2.slot = j ∧ j < (x1.keys.insert k).1.slots.length) := fun e => hj e.1.symm
        simp [this, hj]
    rw [mem_liveKeys, mem_liveKeys]
    constructor
    · rintro ⟨j, hl, hk⟩
      rw [hget j] at hl hk
      by_cases hj : j = (x1.keys.insert k).2.slot
      · rw [if_pos hj] at hk
        rw [(insBits_sk _).2] at hk
        left; rw [← hk]; subst hj; exact hi4
      · rw [if_neg hj] at hl hk
        exact Or.inr ⟨j, hl, hk⟩
    · rintro (rfl | ⟨j, hl, hk⟩)
      · refine ⟨(x1.keys.insert k').2.slot, ?_, ?_⟩
        · rw [hget, if_pos rfl, (insBits_sk _).1]
        · rw [hget, if_pos rfl, (insBits_sk _).2]; exact hi4
      · have hj : j ≠ (x1.keys.insert k).2.slot := by
          intro e; rw [e, hi3] at hl; cases hl
        exact ⟨j, by rw [hget j, if_neg hj]; exact hl, by rw [hget j, if_neg hj]; exact hk⟩
  | fresh hi1 hi2 hi3 hi4 hi5 =>
    simp only [hi1, ↓reduceIte]
    have hget : ∀ j, sget ((x1.keys.insert k).1.modifySlot (x1.keys.insert k).2.slot insBits).slots j =
        if j = (x1.keys.insert k).2.slot then
          insBits { sget x1.keys.slots j with st := .live, key := k, cval := 0, clmt := 0 }
        else sget x1.keys.slots j := by
      intro j
      simp only [Store.modifySlot, sget_modify, hi5]
      by_cases hj : j = (x1.keys.insert k).2.slot
      · subst hj; simp [hlt]
      · have : ¬ ((x1.keys.insert k).2.slot = j ∧ j < (x1.keys.insert k).1.slots.length) := fun e => hj e.1.symm
        simp [this, hj]
    rw [mem_liveKeys, mem_liveKeys]
    constructor
    · rintro ⟨j, hl, hk⟩
      rw [hget j] at hl hk
      by_cases hj : j = (x1.keys.insert k).2.slot
      · rw [if_pos hj] at hk
        rw [(insBits_sk _).2] at hk
        left; exact hk.symm
      · rw [if_neg hj] at hl hk
        exact Or.inr ⟨j, hl, hk⟩
    · rintro (rfl | ⟨j, hl, hk⟩)
      · refine ⟨(x1.keys.insert k').2.slot, ?_, ?_⟩
        · rw [hget, if_pos rfl, (insBits_sk _).1]
        · rw [hget, if_pos rfl, (insBits_sk _).2]
      · have hj : j ≠ (x1.keys.insert k).2.slot := by
          intro e; rw [e, hi4] at hl; cases hl
        exact ⟨j, by rw [hget j, if_neg hj]; exact hl, by rw [hget j, if_neg hj]; exact hk⟩

theorem findLive_none {l : List Slot} {k : Key} (h : findLive l k = none)
    (huniq : ∀ i j, (sget l i).st ≠ .free → (sget l j).st ≠ .free → (sget l i).key = (sget l j).key → i = j)
    (j : Nat) (hl : (sget l j).st = .live) : (sget l j).key ≠ k := by
  unfold findLive at h
  cases hf : findStored l k with
  | none => exact findStored_none hf j (by rw [hl]; decide)
  | some i =>
    simp only [hf] at h
    obtain ⟨_, hs, hk⟩ := findStored_some hf
    intro hkj
    have : i = j := huniq i j hs (by rw [hl]; decide) (by rw [hk, hkj])
    subst this
    simp [hl] at h

theorem TSS.value_removeKey {x : TSS} {V0 : List Key} (h : x.Inv V0) (t : Time) (k k' : Key) :
    k' ∈ (x.removeKey t k).1.value ↔ k' ≠ k ∧ k' ∈ x.value := by
  rw [← TSS.value_prepare x h.wf t k']
  have h1 := TSS.prepare_inv h t
  generalize x.ghost V0 t = V at h1
  unfold TSS.removeKey
  generalize x.prepareDelta t = x1 at h1
  simp only
  cases hf : findLive x1.keys.slots k with
  | none =>
    simp only [TSS.value]
    rw [mem_liveKeys]
    constructor
    · rintro ⟨j, hl, hk⟩
      refine ⟨?_, j, hl, hk⟩
      rw [← hk]; exact findLive_none hf h1.wf.uniq j hl
    · exact fun hh => hh.2
  | some i =>
    simp only
    obtain ⟨hlive, hki⟩ := findLive_some hf
    obtain ⟨hr, hwf, hget0⟩ := Store.removeSlot_spec h1.wf hlive
    have hilt : i < x1.keys.slots.length := lt_of_st_ne_free (by rw [hlive]; decide)
    simp only [hr, ↓reduceIte, TSS.value]
    have hget : ∀ j, sget ((x1.keys.removeSlot i).1.modifySlot i remBits).slots j =
        if j = i then remBits { sget x1.keys.slots i with st := .pending } else sget x1.keys.slots j := by
      intro j
      simp only [Store.modifySlot, sget_modify, hget0]
      have hlen : (x1.keys.removeSlot i).1.slots.length = x1.keys.slots.length := by
        unfold Store.removeSlot; simp [hlive]
      by_cases hj : j = i
      · subst hj; simp [hlen, hilt]
      · have : ¬ (i = j ∧ j < (x1.keys.removeSlot i).1.slots.length) := fun e => hj e.1.symm
        simp [this, hj]
    rw [mem_liveKeys, mem_liveKeys]
    constructor
    · rintro ⟨j, hl, hk⟩
      rw [hget j] at hl hk
      by_cases hj : j = i
      · rw [if_pos hj, (remBits_sk _).1] at hl; cases hl
      · rw [if_neg hj] at hl hk
        refine ⟨?_, j, hl, hk⟩
        intro e
        apply hj
        exact h1.wf.uniq j i (by rw [hl]; decide) (by rw [hlive]; decide) (by rw [hk, e, hki])
    · rintro ⟨hne, j, hl, hk⟩
      have hj : j ≠ i := by
        intro e; subst e; exact hne (by rw [← hk, hki])
      exact ⟨j, by rw [hget j, if_neg hj]; exact hl, by rw [hget j, if_neg hj]; exact hk⟩

/-- `markModified`, `touch` inside the window and the `afterMut` tail do not change the key store -/
theorem TSS.afterMut_keys {y : TSS} {t : Time} {c : Bool} (hd : t ≤ y.deltaTime) :
    (TSS.afterMut (y, c) t).1.keys = y.keys := by
  unfold TSS.afterMut TSS.markModified TSS.touch
  rw [TSS.prepareDelta_of_le hd]
  cases c <;> simp only [Bool.false_eq_true, ↓reduceIte]
  split <;> rfl

theorem TSS.value_add {x : TSS} {V0 : List Key} (h : x.Inv V0) (t : Time) (k k' : Key) :
    k' ∈ (x.add t k).1.value ↔ k' = k ∨ k' ∈ x.value := by
  rw [← TSS.value_insertKey h t k k']
  unfold TSS.add
  have hd := (TSS.insertKey_inv h t k).2.1
  have : (TSS.afterMut (x.insertKey t k) t).1.keys = (x.insertKey t k).1.keys :=
    TSS.afterMut_keys (y := (x.insertKey t k).1) (c := (x.insertKey t k).2) (by rw [hd]; omega)
  simp only [TSS.value, this]

theorem TSS.value_remove {x : TSS} {V0 : List Key} (h : x.Inv V0) (t : Time) (k k' : Key) :
    k' ∈ (x.remove t k).1.value ↔ k' ≠ k ∧ k' ∈ x.value := by
  rw [← TSS.value_removeKey h t k k']
  unfold TSS.remove
  have hd := (TSS.removeKey_inv h t k).2.1
  have : (TSS.afterMut (x.removeKey t k) t).1.keys = (x.removeKey t k).1.keys :=
    TSS.afterMut_keys (y := (x.removeKey t k).1) (c := (x.removeKey t k).2) (by rw [hd]; omega)
  simp only [TSS.value, this]

end HgVerif.Slots
