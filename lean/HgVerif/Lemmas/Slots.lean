import HgVerif.Model.Slots
/-!
Helper lemmas for C05: list plumbing for the slot array, the specification of each `KeySlotStore`
operation in terms of `sget`, and the representation invariant `Store.WF`.
-/
namespace HgVerif.Slots
local notation "Time" => Nat

/-! ### `sget` -/

@[simp] theorem sget_nil (i : Nat) : sget [] i = {} := by simp [sget]

theorem sget_eq_getElem {l : List Slot} {i : Nat} (h : i < l.length) : sget l i = l[i] := by
  simp [sget, List.getD, h]

theorem sget_of_le {l : List Slot} {i : Nat} (h : l.length ≤ i) : sget l i = {} := by
  simp [sget, List.getD, List.getElem?_eq_none h]

theorem lt_of_st_ne_free {l : List Slot} {i : Nat} (h : (sget l i).st ≠ .free) : i < l.length := by
  by_cases hi : i < l.length
  · exact hi
  · rw [sget_of_le (Nat.le_of_not_lt hi)] at h; exact absurd rfl h

theorem sget_mem {l : List Slot} {i : Nat} (h : i < l.length) : sget l i ∈ l := by
  rw [sget_eq_getElem h]; exact List.getElem_mem h

theorem exists_sget_of_mem {l : List Slot} {a : Slot} (h : a ∈ l) : ∃ i, i < l.length ∧ sget l i = a := by
  obtain ⟨i, hi, rfl⟩ := List.getElem_of_mem h
  exact ⟨i, hi, sget_eq_getElem hi⟩

theorem sget_modify (l : List Slot) (i j : Nat) (f : Slot → Slot) :
    sget (l.modify i f) j = if i = j ∧ j < l.length then f (sget l j) else sget l j := by
  unfold sget
  simp only [List.getD_eq_getElem?_getD, List.getElem?_modify]
  by_cases hj : j < l.length
  · simp only [List.getElem?_eq_getElem hj, Option.map_eq_map, Option.map_some, Option.getD_some, hj, and_true]
  · simp [hj]

theorem sget_modify_self {l : List Slot} {i : Nat} (f : Slot → Slot) (h : i < l.length) :
    sget (l.modify i f) i = f (sget l i) := by simp [sget_modify, h]

theorem sget_modify_ne {l : List Slot} {i j : Nat} (f : Slot → Slot) (h : i ≠ j) :
    sget (l.modify i f) j = sget l j := by simp [sget_modify, h]

theorem sget_map (l : List Slot) (f : Slot → Slot) (hf : f ({} : Slot) = ({} : Slot)) (i : Nat) :
    sget (l.map f) i = f (sget l i) := by
  unfold sget
  simp only [List.getD_eq_getElem?_getD, List.getElem?_map]
  cases l[i]? <;> simp [hf]

theorem sget_append_replicate (l : List Slot) (n i : Nat) :
    sget (l ++ List.replicate n ({} : Slot)) i = sget l i := by
  by_cases h : i < l.length
  · unfold sget; simp [List.getD_eq_getElem?_getD, List.getElem?_append_left h]
  · rw [sget_of_le (Nat.le_of_not_lt h)]
    unfold sget
    simp only [List.getD_eq_getElem?_getD, List.getElem?_append_right (Nat.le_of_not_lt h)]
    by_cases h2 : i - l.length < n
    · simp [h2]
    · simp [h2]

/-- membership in a "keys of the slots satisfying `p`" list, for predicates false on the default slot -/
theorem mem_filter_map_key {p : Slot → Bool} (hp : p ({} : Slot) = false) {l : List Slot} {k : Key} :
    k ∈ (l.filter p).map (·.key) ↔ ∃ i, p (sget l i) = true ∧ (sget l i).key = k := by
  simp only [List.mem_map, List.mem_filter]
  constructor
  · rintro ⟨a, ⟨ha, hpa⟩, rfl⟩
    obtain ⟨i, _, rfl⟩ := exists_sget_of_mem ha
    exact ⟨i, hpa, rfl⟩
  · rintro ⟨i, hpi, rfl⟩
    have hi : i < l.length := by
      by_cases hi : i < l.length
      · exact hi
      · rw [sget_of_le (Nat.le_of_not_lt hi), hp] at hpi; cases hpi
    exact ⟨sget l i, ⟨sget_mem hi, hpi⟩, rfl⟩

theorem mem_liveKeys {l : List Slot} {k : Key} :
    k ∈ liveKeys l ↔ ∃ i, (sget l i).st = .live ∧ (sget l i).key = k := by
  unfold liveKeys
  rw [mem_filter_map_key (by rfl)]
  simp

theorem mem_addedKeysRaw {l : List Slot} {k : Key} :
    k ∈ addedKeysRaw l ↔ ∃ i, (sget l i).added = true ∧ (sget l i).key = k := by
  unfold addedKeysRaw
  rw [mem_filter_map_key (by rfl)]

theorem mem_removedKeysRaw {l : List Slot} {k : Key} :
    k ∈ removedKeysRaw l ↔ ∃ i, (sget l i).removed = true ∧ (sget l i).key = k := by
  unfold removedKeysRaw
  rw [mem_filter_map_key (by rfl)]

/-! ### counting slots -/

@[simp] theorem sget_cons_zero (a : Slot) (t : List Slot) : sget (a :: t) 0 = a := rfl
@[simp] theorem sget_cons_succ (a : Slot) (t : List Slot) (n : Nat) : sget (a :: t) (n + 1) = sget t n := rfl

theorem countP_modify (p : Slot → Bool) (l : List Slot) (i : Nat) (f : Slot → Slot) (h : i < l.length) :
    (l.modify i f).countP p + (if p (sget l i) then 1 else 0) = l.countP p + (if p (f (sget l i)) then 1 else 0) := by
  induction l generalizing i with
  | nil => simp at h
  | cons a t ih =>
    cases i with
    | zero =>
      simp only [List.modify_cons, ↓reduceIte, List.countP_cons, sget_cons_zero]
      by_cases h1 : p a = true <;> by_cases h2 : p (f a) = true <;> simp [h1, h2] <;> omega
    | succ n =>
      have h' : n < t.length := by simpa using h
      have := ih n h'
      simp only [List.modify_succ_cons, List.countP_cons, sget_cons_succ]
      by_cases h1 : p (sget t n) = true <;> by_cases h2 : p (f (sget t n)) = true <;> by_cases h3 : p a = true <;>
        simp [h1, h2, h3] at this ⊢ <;> omega

theorem countP_modify_same (p : Slot → Bool) (l : List Slot) (i : Nat) (f : Slot → Slot)
    (hf : ∀ x, p (f x) = p x) : (l.modify i f).countP p = l.countP p := by
  by_cases h : i < l.length
  · have := countP_modify p l i f h
    rw [hf] at this; omega
  · rw [List.modify_eq_self (Nat.le_of_not_lt h)]

theorem countP_eq_zero_sget {p : Slot → Bool} {l : List Slot} (hp : p ({} : Slot) = false) :
    l.countP p = 0 ↔ ∀ i, p (sget l i) = false := by
  rw [List.countP_eq_zero]
  constructor
  · intro h i
    by_cases hi : i < l.length
    · have := h _ (sget_mem hi); simpa using this
    · rw [sget_of_le (Nat.le_of_not_lt hi), hp]
  · intro h a ha
    obtain ⟨i, _, rfl⟩ := exists_sget_of_mem ha
    simp [h i]

theorem countP_congr_sget {p : Slot → Bool} : ∀ {l l' : List Slot}, l.length = l'.length →
    (∀ i, p (sget l i) = p (sget l' i)) → l.countP p = l'.countP p
  | [], [], _, _ => rfl
  | [], _ :: _, h, _ => by simp at h
  | _ :: _, [], h, _ => by simp at h
  | a :: t, b :: t', h, hp => by
    have h0 := hp 0
    simp only [sget_cons_zero] at h0
    have ht : t.countP p = t'.countP p := by
      apply countP_congr_sget (by simpa using h)
      intro i
      have := hp (i + 1)
      simpa using this
    simp only [List.countP_cons, h0, ht]

theorem countP_pos_of_sget {p : Slot → Bool} {l : List Slot} {i : Nat} (hp : p ({} : Slot) = false)
    (h : p (sget l i) = true) : 0 < l.countP p := by
  apply Nat.pos_of_ne_zero
  intro h0
  have := (countP_eq_zero_sget hp).mp h0 i
  rw [h] at this; cases this

def isPending (s : Slot) : Bool := s.st == .pending
def isLive (s : Slot) : Bool := s.st == .live
def npend (l : List Slot) : Nat := l.countP isPending
def nlive (l : List Slot) : Nat := l.countP isLive

/-! ### `findStored` -/

theorem findStored_some {l : List Slot} {k : Key} {i : Nat} (h : findStored l k = some i) :
    i < l.length ∧ (sget l i).st ≠ .free ∧ (sget l i).key = k := by
  unfold findStored at h
  rw [List.findIdx?_eq_some_iff_getElem] at h
  obtain ⟨hi, hp, _⟩ := h
  refine ⟨hi, ?_, ?_⟩
  · rw [sget_eq_getElem hi]; intro hf; simp [hf] at hp
  · rw [sget_eq_getElem hi]; simp at hp; exact hp.2

theorem findStored_none {l : List Slot} {k : Key} (h : findStored l k = none) (j : Nat)
    (hs : (sget l j).st ≠ .free) : (sget l j).key ≠ k := by
  unfold findStored at h
  rw [List.findIdx?_eq_none_iff] at h
  have hj := lt_of_st_ne_free hs
  have := h _ (sget_mem hj)
  intro hk
  simp [hs, hk] at this

/-! ### representation invariant of `KeySlotStore` -/

structure Store.WF (s : Store) : Prop where
  /-- no two constructed slots hold equal keys (the hash index is a set) -/
  uniq : ∀ i j, (sget s.slots i).st ≠ .free → (sget s.slots j).st ≠ .free →
    (sget s.slots i).key = (sget s.slots j).key → i = j
  /-- the free list only holds free slots, each once: a live or pending-erase slot is never handed out -/
  free_ok : ∀ i ∈ s.free, i < s.slots.length ∧ (sget s.slots i).st = .free
  free_nodup : s.free.Nodup
  /-- every pending-erase slot is in the pending list (stale extra entries are allowed) -/
  pend_mem : ∀ i, (sget s.slots i).st = .pending → i ∈ s.pend
  pend_cnt : npend s.slots ≤ s.pendCount
  size_eq : s.size = nlive s.slots

theorem Store.WF_empty : Store.WF {} := by
  refine ⟨?_, ?_, ?_, ?_, ?_, ?_⟩ <;> simp [npend, nlive]

/-- updating slot payload (bits, child) without touching state or key keeps the store well formed -/
theorem Store.WF_of_same_sk {s : Store} (h : s.WF) (l' : List Slot) (hl : l'.length = s.slots.length)
    (hsk : ∀ i, (sget l' i).st = (sget s.slots i).st ∧ (sget l' i).key = (sget s.slots i).key) :
    Store.WF { s with slots := l' } := by
  refine ⟨?_, ?_, h.free_nodup, ?_, ?_, ?_⟩
  · intro i j hi hj hk
    simp only [(hsk i).1, (hsk j).1, (hsk i).2, (hsk j).2] at hi hj hk
    exact h.uniq i j hi hj hk
  · intro i hi
    have := h.free_ok i hi
    simp only [hl, (hsk i).1]; exact this
  · intro i hi
    simp only [(hsk i).1] at hi
    exact h.pend_mem i hi
  · have : npend l' = npend s.slots := by
      apply countP_congr_sget hl
      intro i; simp [isPending, (hsk i).1]
    simp only [this]; exact h.pend_cnt
  · have : nlive l' = nlive s.slots := by
      apply countP_congr_sget hl
      intro i; simp [isLive, (hsk i).1]
    simp only [this]; exact h.size_eq

theorem Store.WF_modifySlot {s : Store} (h : s.WF) (i : Nat) (f : Slot → Slot)
    (hf : ∀ x, (f x).st = x.st ∧ (f x).key = x.key) : (s.modifySlot i f).WF := by
  apply Store.WF_of_same_sk h _ (by simp)
  intro j
  rw [sget_modify]
  split
  · exact hf _
  · exact ⟨rfl, rfl⟩

theorem Store.WF_mapSlots {s : Store} (h : s.WF) (f : Slot → Slot) (hd : f ({} : Slot) = ({} : Slot))
    (hf : ∀ x, (f x).st = x.st ∧ (f x).key = x.key) : (s.mapSlots f).WF := by
  apply Store.WF_of_same_sk h _ (by simp)
  intro j
  rw [sget_map _ _ hd]
  exact hf _


/-! ### specifications of the `KeySlotStore` operations -/

theorem npend_append_replicate (l : List Slot) (n : Nat) : npend (l ++ List.replicate n ({} : Slot)) = npend l := by
  simp [npend, List.countP_append, List.countP_replicate, isPending]

theorem nlive_append_replicate (l : List Slot) (n : Nat) : nlive (l ++ List.replicate n ({} : Slot)) = nlive l := by
  simp [nlive, List.countP_append, List.countP_replicate, isLive]

theorem Store.reserveTo_spec {s : Store} (h : s.WF) (cap : Nat) :
    (s.reserveTo cap).WF ∧ (∀ j, sget (s.reserveTo cap).slots j = sget s.slots j) ∧
    (s.slots.length < cap → (s.reserveTo cap).free ≠ []) ∧
    (s.reserveTo cap).pend = s.pend ∧ (s.reserveTo cap).pendCount = s.pendCount ∧
    (s.reserveTo cap).size = s.size := by
  unfold Store.reserveTo
  by_cases hc : cap ≤ s.slots.length
  · simp only [hc, ↓reduceIte, implies_true, true_and, and_self, and_true]
    exact ⟨h, fun hlt => absurd hc (Nat.not_le_of_lt hlt)⟩
  · simp only [hc, ↓reduceIte, and_self, and_true]
    have hlt : s.slots.length < cap := Nat.lt_of_not_le hc
    refine ⟨⟨?_, ?_, ?_, ?_, ?_, ?_⟩, ?_, ?_⟩
    · intro i j hi hj hk
      simp only [sget_append_replicate] at hi hj hk
      exact h.uniq i j hi hj hk
    · intro i hi
      simp only [List.mem_append, List.mem_range'_1] at hi
      simp only [List.length_append, List.length_replicate, sget_append_replicate]
      rcases hi with ⟨h1, h2⟩ | hi
      · refine ⟨by omega, ?_⟩
        rw [sget_of_le h1]
      · have := h.free_ok i hi
        exact ⟨by omega, this.2⟩
    · simp only
      rw [List.nodup_append]
      refine ⟨List.nodup_range', h.free_nodup, ?_⟩
      intro a ha b hb hab
      simp only [List.mem_range'_1] at ha
      have := (h.free_ok b hb).1
      omega
    · intro i hi
      simp only [sget_append_replicate] at hi
      exact h.pend_mem i hi
    · simp only [npend_append_replicate]; exact h.pend_cnt
    · simp only [nlive_append_replicate]; exact h.size_eq
    · intro j; simp only [sget_append_replicate]
    · intro _ hnil
      have : (List.range' s.slots.length (cap - s.slots.length) ++ s.free).length = 0 := by rw [hnil]; rfl
      simp at this; omega

theorem Store.popFree_spec {s1 : Store} (h1 : s1.WF) (hne : s1.free ≠ []) :
    s1.popFree.1.WF ∧ s1.popFree.2 < s1.popFree.1.slots.length ∧ (sget s1.popFree.1.slots s1.popFree.2).st = .free ∧
    s1.popFree.2 ∉ s1.popFree.1.free ∧ s1.popFree.1.slots = s1.slots ∧
    s1.popFree.1.pend = s1.pend ∧ s1.popFree.1.pendCount = s1.pendCount ∧ s1.popFree.1.size = s1.size := by
  unfold Store.popFree
  cases hf : s1.free with
  | nil => exact absurd hf hne
  | cons i rest =>
    simp only
    have hi := h1.free_ok i (by rw [hf]; exact List.mem_cons_self)
    have hnd := h1.free_nodup
    rw [hf] at hnd
    refine ⟨⟨h1.uniq, ?_, ?_, h1.pend_mem, h1.pend_cnt, h1.size_eq⟩, hi.1, hi.2, ?_, by simp⟩
    · intro j hj; exact h1.free_ok j (by rw [hf]; exact List.mem_cons_of_mem _ hj)
    · exact (List.nodup_cons.mp hnd).2
    · exact (List.nodup_cons.mp hnd).1

theorem Store.acquireFree_spec {s : Store} (h : s.WF) :
    s.acquireFree.1.WF ∧ s.acquireFree.2 < s.acquireFree.1.slots.length ∧
    (sget s.acquireFree.1.slots s.acquireFree.2).st = .free ∧ s.acquireFree.2 ∉ s.acquireFree.1.free ∧
    (∀ j, sget s.acquireFree.1.slots j = sget s.slots j) ∧
    s.acquireFree.1.pend = s.pend ∧ s.acquireFree.1.pendCount = s.pendCount ∧ s.acquireFree.1.size = s.size := by
  unfold Store.acquireFree
  by_cases he : s.free.isEmpty = true
  · simp only [he, ↓reduceIte]
    have hs := Store.reserveTo_spec h (max (s.size + 1) (max 8 (s.slots.length * 2)))
    have hp := Store.popFree_spec hs.1 (hs.2.2.1 (by omega))
    refine ⟨hp.1, hp.2.1, hp.2.2.1, hp.2.2.2.1, ?_, ?_, ?_, ?_⟩
    · intro j; rw [hp.2.2.2.2.1]; exact hs.2.1 j
    · rw [hp.2.2.2.2.2.1]; exact hs.2.2.2.1
    · rw [hp.2.2.2.2.2.2.1]; exact hs.2.2.2.2.1
    · rw [hp.2.2.2.2.2.2.2]; exact hs.2.2.2.2.2
  · simp only [he, Bool.false_eq_true, ↓reduceIte]
    have hp := Store.popFree_spec h (by intro hn; simp [hn] at he)
    refine ⟨hp.1, hp.2.1, hp.2.2.1, hp.2.2.2.1, ?_, hp.2.2.2.2.2.1, hp.2.2.2.2.2.2.1, hp.2.2.2.2.2.2.2⟩
    intro j; rw [hp.2.2.2.2.1]

theorem countP_modify_tf {p : Slot → Bool} {l : List Slot} {i : Nat} {f : Slot → Slot} (h : i < l.length)
    (h1 : p (sget l i) = true) (h2 : p (f (sget l i)) = false) : (l.modify i f).countP p + 1 = l.countP p := by
  have := countP_modify p l i f h
  simpa [h1, h2] using this

theorem countP_modify_ft {p : Slot → Bool} {l : List Slot} {i : Nat} {f : Slot → Slot} (h : i < l.length)
    (h1 : p (sget l i) = false) (h2 : p (f (sget l i)) = true) : (l.modify i f).countP p = l.countP p + 1 := by
  have := countP_modify p l i f h
  simpa [h1, h2] using this

theorem countP_modify_eq {p : Slot → Bool} {l : List Slot} {i : Nat} {f : Slot → Slot}
    (h1 : p (f (sget l i)) = p (sget l i)) : (l.modify i f).countP p = l.countP p := by
  by_cases h : i < l.length
  · have := countP_modify p l i f h
    rw [h1] at this; omega
  · rw [List.modify_eq_self (Nat.le_of_not_lt h)]

/-- what `insert` does, case by case -/
inductive InsertCase (s : Store) (k : Key) (r : Store × InsRes) : Prop where
  /-- the key is live already: nothing changes -/
  | present (h1 : r.2.inserted = false) (h2 : r.1 = s) (h3 : (sget s.slots r.2.slot).st = .live)
      (h4 : (sget s.slots r.2.slot).key = k)
  /-- a pending-erase slot holding the key is resurrected -/
  | resurrect (h1 : r.2.inserted = true) (h2 : r.2.constructed = false)
      (h3 : (sget s.slots r.2.slot).st = .pending) (h4 : (sget s.slots r.2.slot).key = k)
      (h5 : ∀ j, sget r.1.slots j = if j = r.2.slot then { sget s.slots j with st := .live } else sget s.slots j)
  /-- the key is not stored: a free slot is constructed -/
  | fresh (h1 : r.2.inserted = true) (h2 : r.2.constructed = true)
      (h3 : ∀ j, (sget s.slots j).st ≠ .free → (sget s.slots j).key ≠ k)
      (h4 : (sget s.slots r.2.slot).st = .free)
      (h5 : ∀ j, sget r.1.slots j =
        if j = r.2.slot then { sget s.slots j with st := .live, key := k, cval := 0, clmt := 0 } else sget s.slots j)

theorem Store.insert_spec {s : Store} (h : s.WF) (k : Key) :
    (s.insert k).1.WF ∧ (s.insert k).2.slot < (s.insert k).1.slots.length ∧ InsertCase s k (s.insert k) := by
  unfold Store.insert
  cases hf : findStored s.slots k with
  | some i =>
    obtain ⟨hi, hst, hk⟩ := findStored_some hf
    simp only
    by_cases hp : (sget s.slots i).st = .pending
    · simp only [hp, beq_self_eq_true, ↓reduceIte, List.length_modify]
      have hcp : (s.slots.modify i (fun x => { x with st := .live })).countP isPending + 1 = s.slots.countP isPending :=
        countP_modify_tf hi (by simp [isPending, hp]) (by simp [isPending])
      have hcl : (s.slots.modify i (fun x => { x with st := .live })).countP isLive = s.slots.countP isLive + 1 :=
        countP_modify_ft hi (by simp [isLive, hp]) (by simp [isLive])
      refine ⟨⟨?_, ?_, h.free_nodup, ?_, ?_, ?_⟩, hi, ?_⟩
      · have hkey : ∀ j, (sget (s.slots.modify i (fun x => { x with st := .live })) j).key = (sget s.slots j).key := by
          intro j; rw [sget_modify]; split <;> rfl
        have hstj : ∀ j, (sget (s.slots.modify i (fun x => { x with st := .live })) j).st ≠ .free →
            (sget s.slots j).st ≠ .free := by
          intro j; rw [sget_modify]
          by_cases e : i = j ∧ j < s.slots.length
          · intro _; rw [← e.1, hp]; decide
          · simp [e]
        intro a b ha hb hab
        rw [hkey, hkey] at hab
        exact h.uniq a b (hstj a ha) (hstj b hb) hab
      · intro a ha
        have := h.free_ok a ha
        simp only [List.length_modify, sget_modify]
        refine ⟨this.1, ?_⟩
        by_cases e : i = a ∧ a < s.slots.length
        · rw [← e.1, hp] at this; exact absurd this.2 (by decide)
        · simpa [e] using this.2
      · intro a ha
        simp only [sget_modify] at ha
        by_cases e : i = a ∧ a < s.slots.length
        · simp [e] at ha
        · simp only [e, ↓reduceIte] at ha
          have hm := h.pend_mem a ha
          by_cases hz : (s.pendCount - 1 == 0) = true
          · exfalso
            have hz' : s.pendCount - 1 = 0 := by simpa using hz
            have hc := h.pend_cnt
            have hai : i ≠ a := fun e' => e ⟨e', by rw [← e']; exact hi⟩
            have hpos : 0 < (s.slots.modify i (fun x => { x with st := .live })).countP isPending := by
              apply countP_pos_of_sget (i := a) (by rfl)
              rw [sget_modify_ne _ hai]; simp [isPending, ha]
            simp only [npend] at hc
            omega
          · simp only [hz]; exact hm
      · have hc := h.pend_cnt
        simp only [npend] at hc ⊢
        omega
      · have hc := h.size_eq
        simp only [nlive] at hc ⊢
        omega
      · refine InsertCase.resurrect rfl rfl hp hk ?_
        intro j
        simp only [sget_modify]
        by_cases hj : j = i
        · subst hj; simp [hi]
        · have : ¬ (i = j ∧ j < s.slots.length) := fun hh => hj hh.1.symm
          simp [this, hj]
    · have hl : (sget s.slots i).st = .live := by
        cases hst' : (sget s.slots i).st with
        | free => exact absurd hst' hst
        | live => rfl
        | pending => exact absurd hst' hp
      have : ((sget s.slots i).st == St.pending) = false := by simp [hl]
      simp only [this, Bool.false_eq_true, ↓reduceIte]
      exact ⟨h, hi, InsertCase.present rfl rfl hl hk⟩
  | none =>
    simp only
    obtain ⟨hwf, hlt, hfree, hnot, hsame, hpd, hpc, hsz⟩ := Store.acquireFree_spec h
    generalize s.acquireFree = r at hwf hlt hfree hnot hsame hpd hpc hsz
    obtain ⟨s1, i⟩ := r
    simp only at hwf hlt hfree hnot hsame hpd hpc hsz ⊢
    have hnone := findStored_none hf
    have hcp : (s1.slots.modify i (fun x => { x with st := .live, key := k, cval := 0, clmt := 0 })).countP isPending
        = s1.slots.countP isPending :=
      countP_modify_eq (by simp only [isPending, hfree]; rfl)
    have hcl : (s1.slots.modify i (fun x => { x with st := .live, key := k, cval := 0, clmt := 0 })).countP isLive
        = s1.slots.countP isLive + 1 :=
      countP_modify_ft hlt (by simp [isLive, hfree]) (by simp [isLive])
    refine ⟨⟨?_, ?_, hwf.free_nodup, ?_, ?_, ?_⟩, by simpa using hlt, ?_⟩
    · intro a b ha hb hab
      simp only [sget_modify] at ha hb hab
      by_cases hai : i = a <;> by_cases hbi : i = b
      · omega
      · subst hai
        simp only [hlt, and_self, ↓reduceIte, hbi, false_and] at hab hb
        rw [hsame] at hab hb
        exact absurd hab.symm (hnone b hb)
      · subst hbi
        simp only [hlt, and_self, ↓reduceIte, hai, false_and] at hab ha
        rw [hsame] at hab ha
        exact absurd hab (hnone a ha)
      · simp only [hai, hbi, false_and, ↓reduceIte] at ha hb hab
        exact hwf.uniq a b ha hb hab
    · intro a ha
      have := hwf.free_ok a ha
      simp only [List.length_modify, sget_modify]
      refine ⟨this.1, ?_⟩
      have hai : i ≠ a := fun e => hnot (e ▸ ha)
      simp [hai, this.2]
    · intro a ha
      simp only [sget_modify] at ha
      by_cases e : i = a ∧ a < s1.slots.length
      · simp [e] at ha
      · simp only [e, ↓reduceIte] at ha
        exact hwf.pend_mem a ha
    · have hc := hwf.pend_cnt
      simp only [npend] at hc ⊢
      omega
    · have hc := hwf.size_eq
      simp only [nlive] at hc ⊢
      omega
    · refine InsertCase.fresh rfl rfl hnone (by rw [← hsame]; exact hfree) ?_
      intro j
      simp only [sget_modify]
      by_cases hj : j = i
      · subst hj; simp [hlt, hsame]
      · have : ¬ (i = j ∧ j < s1.slots.length) := fun hh => hj hh.1.symm
        simp [this, hj, hsame]

theorem Store.removeSlot_not_live {s : Store} {i : Nat} (hl : (sget s.slots i).st ≠ .live) :
    s.removeSlot i = (s, false) := by
  unfold Store.removeSlot
  have : ((sget s.slots i).st == St.live) = false := by simpa using hl
  simp [this]

theorem Store.removeSlot_spec {s : Store} (h : s.WF) {i : Nat} (hl : (sget s.slots i).st = .live) :
    (s.removeSlot i).2 = true ∧ (s.removeSlot i).1.WF ∧
    (∀ j, sget (s.removeSlot i).1.slots j = if j = i then { sget s.slots j with st := .pending } else sget s.slots j) := by
  have hi : i < s.slots.length := lt_of_st_ne_free (by rw [hl]; decide)
  unfold Store.removeSlot
  simp only [hl, beq_self_eq_true, ↓reduceIte, true_and]
  have hcp : (s.slots.modify i (fun x => { x with st := .pending })).countP isPending = s.slots.countP isPending + 1 :=
    countP_modify_ft hi (by simp [isPending, hl]) (by simp [isPending])
  have hcl : (s.slots.modify i (fun x => { x with st := .pending })).countP isLive + 1 = s.slots.countP isLive :=
    countP_modify_tf hi (by simp [isLive, hl]) (by simp [isLive])
  have hkey : ∀ j, (sget (s.slots.modify i (fun x => { x with st := .pending })) j).key = (sget s.slots j).key := by
    intro j; rw [sget_modify]; split <;> rfl
  have hstj : ∀ j, (sget (s.slots.modify i (fun x => { x with st := .pending })) j).st ≠ .free →
      (sget s.slots j).st ≠ .free := by
    intro j; rw [sget_modify]
    by_cases e : i = j ∧ j < s.slots.length
    · intro _; rw [← e.1, hl]; decide
    · simp [e]
  refine ⟨⟨?_, ?_, h.free_nodup, ?_, ?_, ?_⟩, ?_⟩
  · intro a b ha hb hab
    rw [hkey, hkey] at hab
    exact h.uniq a b (hstj a ha) (hstj b hb) hab
  · intro a ha
    have := h.free_ok a ha
    simp only [List.length_modify, sget_modify]
    refine ⟨this.1, ?_⟩
    by_cases e : i = a ∧ a < s.slots.length
    · rw [← e.1, hl] at this; exact absurd this.2 (by decide)
    · simpa [e] using this.2
  · intro a ha
    simp only [sget_modify] at ha
    simp only [List.mem_append, List.mem_singleton]
    by_cases e : i = a ∧ a < s.slots.length
    · exact Or.inr e.1.symm
    · simp only [e, ↓reduceIte] at ha
      exact Or.inl (h.pend_mem a ha)
  · have hc := h.pend_cnt
    simp only [npend] at hc ⊢
    omega
  · have hc := h.size_eq
    simp only [nlive] at hc ⊢
    omega
  · intro j
    simp only [sget_modify]
    by_cases hj : j = i
    · subst hj; simp [hi]
    · have : ¬ (i = j ∧ j < s.slots.length) := fun hh => hj hh.1.symm
      simp [this, hj]

/-- the erase loop frees exactly the listed slots that are pending, each pushed once -/
theorem eraseLoop_spec (pend : List Nat) : ∀ (sl : List Slot) (fr : List Nat),
    (eraseLoop pend sl fr).1.length = sl.length ∧
    (∀ j, sget (eraseLoop pend sl fr).1 j =
      if j ∈ pend ∧ (sget sl j).st = .pending then { sget sl j with st := .free } else sget sl j) ∧
    (∀ j, j ∈ (eraseLoop pend sl fr).2 ↔ j ∈ fr ∨ (j ∈ pend ∧ (sget sl j).st = .pending)) ∧
    (fr.Nodup → (∀ j ∈ fr, (sget sl j).st ≠ .pending) → (eraseLoop pend sl fr).2.Nodup) := by
  induction pend with
  | nil => intro sl fr; simp only [eraseLoop]; refine ⟨trivial, by simp, by simp, fun h _ => h⟩
  | cons i rest ih =>
    intro sl fr
    unfold eraseLoop
    by_cases hp : (sget sl i).st = .pending
    · simp only [hp, beq_self_eq_true, ↓reduceIte]
      have hi : i < sl.length := lt_of_st_ne_free (by rw [hp]; decide)
      obtain ⟨h1, h2, h3, h4⟩ := ih (sl.modify i (fun x => { x with st := .free })) (i :: fr)
      refine ⟨by rw [h1, List.length_modify], ?_, ?_, ?_⟩
      · intro j
        rw [h2 j, sget_modify]
        by_cases hji : i = j
        · subst hji
          simp [hi, hp]
        · have e : ¬ (i = j ∧ j < sl.length) := fun hh => hji hh.1
          have e2 : ¬ j = i := fun hh => hji hh.symm
          simp [e, e2]
      · intro j
        rw [h3 j, sget_modify]
        by_cases hji : i = j
        · subst hji
          simp [hi, hp]
        · have e : ¬ (i = j ∧ j < sl.length) := fun hh => hji hh.1
          have e2 : ¬ j = i := fun hh => hji hh.symm
          simp [e, e2]
      · intro hnd hfr
        apply h4
        · rw [List.nodup_cons]
          refine ⟨?_, hnd⟩
          intro hmem
          exact hfr i hmem hp
        · intro j hj
          rw [sget_modify]
          rcases List.mem_cons.mp hj with rfl | hj
          · simp [hi]
          · by_cases e : i = j ∧ j < sl.length
            · simp [e]
            · simp only [e, ↓reduceIte]; exact hfr j hj
    · have hb : ((sget sl i).st == St.pending) = false := by simpa using hp
      simp only [hb, Bool.false_eq_true, ↓reduceIte]
      obtain ⟨h1, h2, h3, h4⟩ := ih sl fr
      refine ⟨h1, ?_, ?_, h4⟩
      · intro j
        rw [h2 j]
        by_cases hji : j = i
        · subst hji; simp [hp]
        · simp [hji]
      · intro j
        rw [h3 j]
        by_cases hji : j = i
        · subst hji; simp [hp]
        · simp [hji]

theorem Store.erasePending_spec {s : Store} (h : s.WF) :
    s.erasePending.WF ∧
    (∀ j, sget s.erasePending.slots j =
      if (sget s.slots j).st = .pending then { sget s.slots j with st := .free } else sget s.slots j) := by
  unfold Store.erasePending
  by_cases hz : s.pendCount = 0
  · simp only [hz, beq_self_eq_true, ↓reduceIte]
    refine ⟨h, ?_⟩
    intro j
    have hc := h.pend_cnt
    rw [hz] at hc
    have h0 : npend s.slots = 0 := Nat.le_zero.mp hc
    have := (countP_eq_zero_sget (p := isPending) (by rfl)).mp h0 j
    have hne : (sget s.slots j).st ≠ .pending := by
      intro e; simp [isPending, e] at this
    simp [hne]
  · have hb : (s.pendCount == 0) = false := by simpa using hz
    simp only [hb, Bool.false_eq_true, ↓reduceIte]
    obtain ⟨h1, h2, h3, h4⟩ := eraseLoop_spec s.pend s.slots s.free
    have hsl : ∀ j, sget (eraseLoop s.pend s.slots s.free).1 j =
        if (sget s.slots j).st = .pending then { sget s.slots j with st := .free } else sget s.slots j := by
      intro j
      rw [h2 j]
      by_cases hp : (sget s.slots j).st = .pending
      · simp [hp, h.pend_mem j hp]
      · simp [hp]
    have hnp : ∀ j, (sget (eraseLoop s.pend s.slots s.free).1 j).st ≠ .pending := by
      intro j; rw [hsl j]; split
      · simp
      · assumption
    refine ⟨⟨?_, ?_, ?_, ?_, ?_, ?_⟩, hsl⟩
    · intro a b ha hb' hab
      simp only [hsl] at ha hb' hab
      have ha' : (sget s.slots a).st ≠ .free := by
        by_cases e : (sget s.slots a).st = .pending
        · simp [e] at ha
        · simpa [e] using ha
      have hb'' : (sget s.slots b).st ≠ .free := by
        by_cases e : (sget s.slots b).st = .pending
        · simp [e] at hb'
        · simpa [e] using hb'
      apply h.uniq a b ha' hb''
      by_cases e : (sget s.slots a).st = .pending <;> by_cases e' : (sget s.slots b).st = .pending <;>
        simpa [e, e'] using hab
    · intro a ha
      simp only at ha
      rw [h3 a] at ha
      simp only [h1, hsl]
      rcases ha with ha | ⟨_, hp⟩
      · have := h.free_ok a ha
        refine ⟨this.1, ?_⟩
        have : (sget s.slots a).st ≠ .pending := by rw [this.2]; decide
        simp [(h.free_ok a ha).2]
      · exact ⟨lt_of_st_ne_free (by rw [hp]; decide), by simp [hp]⟩
    · apply h4 h.free_nodup
      intro j hj
      rw [(h.free_ok j hj).2]; decide
    · intro a ha
      exact absurd ha (hnp a)
    · have : npend (eraseLoop s.pend s.slots s.free).1 = 0 := by
        apply (countP_eq_zero_sget (p := isPending) (by rfl)).mpr
        intro j
        have := hnp j
        simp [isPending, this]
      simp only [this]; exact Nat.le_refl 0
    · have : nlive (eraseLoop s.pend s.slots s.free).1 = nlive s.slots := by
        apply countP_congr_sget h1
        intro j
        rw [hsl j]
        by_cases e : (sget s.slots j).st = .pending
        · simp only [isLive, e, ↓reduceIte]; rfl
        · simp [e]
      simp only [this]; exact h.size_eq

end HgVerif.Slots
