import HgVerif.Model.DispatchVar
import HgVerif.Lemmas.Dispatch
import HgVerif.Lemmas.DispatchRank
/-!
Helper lemmas for `Props/C19Var.lean` (variadic candidates of operator overload resolution):

* the decision step on an ARBITRARY survivor list (`resolveL`): the characterisations that `Props/C19.lean`
  proves for `survivors os args`, restated for any list so that they serve `survivorsVG` as well;
* the argument loop: the rank adjustment is additive in its start value (`matchArgs_adj_shift`), splits over
  `++` (`matchArgs_append`), and is left alone by time-series parameters (`matchArgs_inputs_adj`);
* the tail loop `matchTail`;
* the rank accumulator is sub-additive over `++` (`operatorRank_append_le`): de-duplication only ever lowers.
-/
namespace HgVerif.Dispatch

/-! ## the decision step on any survivor list -/

/-- `OperatorRegistry::resolve` after the candidate loop, on any list of survivors -/
def resolveL (L : List Survivor) : Outcome := decide_ (stableSort L)

theorem resolveL_noMatch_iff (L : List Survivor) : resolveL L = .noMatch ↔ L = [] := by
  constructor
  · intro h
    have hnil : stableSort L = [] := decide_noMatch h
    have hp := perm_stableSort L
    rw [hnil] at hp
    exact hp.symm.eq_nil
  · intro h
    simp [resolveL, h, stableSort, decide_]

theorem resolveL_winner_spec {L : List Survivor} {s : Survivor} {o : Option CT}
    (h : resolveL L = .winner s o) : o = outputOf s ∧ UniqueMin L s := by
  have := decide_winner (sorted_stableSort _) h
  exact ⟨this.1, uniqueMin_perm (perm_stableSort _) this.2⟩

theorem resolveL_ambiguous_spec {L : List Survivor} {tied : List Survivor}
    (h : resolveL L = .ambiguous tied) :
    ∃ r, SharedMin L r ∧ tied.Perm (L.filter (fun t => decide (t.rank = r))) := by
  obtain ⟨r, hr, ht⟩ := decide_ambiguous (sorted_stableSort _) h
  exact ⟨r, sharedMin_perm (perm_stableSort _) hr, by rw [ht]; exact (perm_stableSort _).filter _⟩

theorem resolveL_total (L : List Survivor) :
    (resolveL L = .noMatch ∧ L = []) ∨
    (∃ s, resolveL L = .winner s (outputOf s) ∧ UniqueMin L s) ∨
    (∃ tied r, resolveL L = .ambiguous tied ∧ SharedMin L r) := by
  cases h : resolveL L with
  | noMatch => exact Or.inl ⟨rfl, (resolveL_noMatch_iff L).mp h⟩
  | winner s o =>
    have := resolveL_winner_spec h
    exact Or.inr (Or.inl ⟨s, by rw [this.1], this.2⟩)
  | ambiguous tied =>
    obtain ⟨r, hr, _⟩ := resolveL_ambiguous_spec h
    exact Or.inr (Or.inr ⟨tied, r, rfl, hr⟩)

theorem resolveL_winner_iff (L : List Survivor) (s : Survivor) (o : Option CT) :
    resolveL L = .winner s o ↔ o = outputOf s ∧ UniqueMin L s := by
  constructor
  · exact resolveL_winner_spec
  · rintro ⟨rfl, hu⟩
    rcases resolveL_total L with ⟨_, h0⟩ | ⟨s', hs', hu'⟩ | ⟨tied, r, _, hr⟩
    · have := uniqueMin_mem hu
      rw [h0] at this
      cases this
    · rw [uniqueMin_unique hu hu']
      exact hs'
    · exact (uniqueMin_not_shared hu hr).elim

theorem resolveL_ambiguous_iff (L : List Survivor) :
    (∃ tied, resolveL L = .ambiguous tied) ↔ ∃ r, SharedMin L r := by
  constructor
  · rintro ⟨tied, h⟩
    obtain ⟨r, hr, _⟩ := resolveL_ambiguous_spec h
    exact ⟨r, hr⟩
  · rintro ⟨r, hr⟩
    rcases resolveL_total L with ⟨_, h0⟩ | ⟨s', _, hu'⟩ | ⟨tied, _, ht, _⟩
    · have := hr.2
      rw [h0] at this
      simp at this
    · exact (uniqueMin_not_shared hu' hr).elim
    · exact ⟨tied, ht⟩

/-- same winner (candidate, bindings, rank, output) / same error class (tied sets up to order); a copy of
    `Outcome.Same` of `Props/C19.lean`, which this file does not import -/
def Outcome.SameV : Outcome → Outcome → Prop
  | .noMatch, .noMatch => True
  | .winner s o, .winner s' o' => s = s' ∧ o = o'
  | .ambiguous t, .ambiguous t' => t.Perm t'
  | _, _ => False

/-- the decision only depends on the survivor list up to order -/
theorem resolveL_perm {L L' : List Survivor} (hL : L.Perm L') : (resolveL L).SameV (resolveL L') := by
  rcases resolveL_total L with ⟨h, h0⟩ | ⟨s, h, hu⟩ | ⟨tied, r, h, hr⟩
  · have h0' : L' = [] := by
      have := hL.symm
      rw [h0] at this
      exact this.eq_nil
    rw [h, (resolveL_noMatch_iff L').mpr h0']
    trivial
  · have hu' := uniqueMin_perm hL hu
    rw [h, (resolveL_winner_iff L' s (outputOf s)).mpr ⟨rfl, hu'⟩]
    exact ⟨rfl, rfl⟩
  · have hr' := sharedMin_perm hL hr
    obtain ⟨tied', ht'⟩ := (resolveL_ambiguous_iff L').mpr ⟨r, hr'⟩
    obtain ⟨r1, hr1, hp1⟩ := resolveL_ambiguous_spec h
    obtain ⟨r2, hr2, hp2⟩ := resolveL_ambiguous_spec ht'
    rw [sharedMin_unique hr1 hr] at hp1
    rw [sharedMin_unique hr2 hr'] at hp2
    rw [h, ht']
    exact hp1.trans ((hL.filter _).trans hp2.symm)

/-! ## the argument loop -/

/-- the rank adjustment only ever has constants added to it: starting `b` higher ends `b` higher -/
theorem matchArgs_adj_shift (b : Nat) : ∀ (ps : List Param) (as : List Arg) (m : RMap) (a : Nat),
    matchArgs ps as m (a + b) = ((matchArgs ps as m a).1, (matchArgs ps as m a).2 + b)
  | [], [], m, a => by simp [matchArgs]
  | .input p :: ps, .ts c :: as, m, a => by
    simp only [matchArgs]
    split
    · exact matchArgs_adj_shift b ps as _ a
    · rfl
  | .input _ :: _, .sc _ :: _, _, a => by simp [matchArgs]; omega
  | .scalar _ :: _, .ts _ :: _, _, a => by simp [matchArgs]
  | .scalar (.conc s) :: ps, .sc x :: as, m, a => by
    simp only [matchArgs]
    split
    · exact matchArgs_adj_shift b ps as m a
    · split
      · have := matchArgs_adj_shift b ps as m (a + 1)
        rw [show a + b + 1 = a + 1 + b by omega]
        exact this
      · rfl
  | .scalar (.var n cs) :: ps, .sc x :: as, m, a => by
    simp only [matchArgs]
    split
    · exact matchArgs_adj_shift b ps as _ a
    · rfl
  | [], _ :: _, _, a => by simp [matchArgs]
  | _ :: _, [], _, a => by simp [matchArgs]

/-- the loop over `ps ++ qs` is the loop over `ps` followed by the loop over `qs` -/
theorem matchArgs_append (qs : List Param) (bs : List Arg) : ∀ (ps : List Param) (as : List Arg) (m : RMap) (a : Nat),
    ps.length = as.length →
    matchArgs (ps ++ qs) (as ++ bs) m a =
      (match matchArgs ps as m a with
       | (some m1, a1) => matchArgs qs bs m1 a1
       | (none, a1) => (none, a1))
  | [], [], m, a, _ => by simp [matchArgs]
  | .input p :: ps, .ts c :: as, m, a, h => by
    simp only [List.cons_append, matchArgs]
    split
    · exact matchArgs_append qs bs ps as _ a (by simpa using h)
    · rfl
  | .input _ :: _, .sc _ :: _, _, a, _ => by simp [matchArgs]
  | .scalar _ :: _, .ts _ :: _, _, a, _ => by simp [matchArgs]
  | .scalar (.conc s) :: ps, .sc x :: as, m, a, h => by
    simp only [List.cons_append, matchArgs]
    split
    · exact matchArgs_append qs bs ps as m a (by simpa using h)
    · split
      · exact matchArgs_append qs bs ps as m (a + 1) (by simpa using h)
      · rfl
  | .scalar (.var n cs) :: ps, .sc x :: as, m, a, h => by
    simp only [List.cons_append, matchArgs]
    split
    · exact matchArgs_append qs bs ps as _ a (by simpa using h)
    · rfl
  | [], _ :: _, _, _, h => by simp at h
  | _ :: _, [], _, _, h => by simp at h

/-- `k` time-series parameters never touch the rank adjustment of a candidate they accept -/
theorem matchArgs_inputs_adj (tp : TP) : ∀ (k : Nat) (bs : List Arg) (m : RMap) (a : Nat) (m' : RMap) (a' : Nat),
    matchArgs (List.replicate k (.input tp)) bs m a = (some m', a') → a' = a
  | 0, [], m, a, m', a', h => by
    simp only [List.replicate, matchArgs, Prod.mk.injEq] at h
    exact h.2.symm
  | 0, _ :: _, m, a, m', a', h => by simp [List.replicate, matchArgs] at h
  | k + 1, [], m, a, m', a', h => by simp [List.replicate, matchArgs] at h
  | k + 1, .ts c :: bs, m, a, m', a', h => by
    simp only [List.replicate, matchArgs] at h
    split at h
    · exact matchArgs_inputs_adj tp k bs _ a m' a' h
    · cases h
  | k + 1, .sc _ :: bs, m, a, m', a', h => by simp [List.replicate, matchArgs] at h

/-! ## the tail loop -/

/-- what the tail arguments add to the rank adjustment of a variadic candidate that accepts them: the adaptation
    rank of every port and one point per promoted plain value -/
def tailAdj (p : TP) : List Arg → Nat
  | [] => 0
  | .ts c :: as => inputAdaptationRank p c + tailAdj p as
  | .sc _ :: as => 1 + tailAdj p as

theorem matchTail_true {p : TP} : ∀ {as : List Arg} {m : RMap} {adj adj' : Nat},
    matchTail p as m adj = (true, adj') →
    adj' = adj + tailAdj p as ∧
      (∀ c, Arg.ts c ∈ as → ∃ ma, inMatch p c m = some ma) ∧
      (∀ v, Arg.sc v ∈ as → ∃ ma, scPromote p v m = some ma)
  | [], m, adj, adj', h => by
    simp only [matchTail, Prod.mk.injEq, true_and] at h
    subst h
    exact ⟨by simp [tailAdj], by simp, by simp⟩
  | .ts c :: as, m, adj, adj', h => by
    simp only [matchTail] at h
    split at h
    · rename_i ma hma
      obtain ⟨h1, h2, h3⟩ := matchTail_true h
      refine ⟨by simp only [tailAdj]; omega, ?_, ?_⟩
      · intro c' hc'
        rcases List.mem_cons.mp hc' with heq | hmem
        · cases heq; exact ⟨ma, hma⟩
        · exact h2 c' hmem
      · intro v hv
        rcases List.mem_cons.mp hv with heq | hmem
        · cases heq
        · exact h3 v hmem
    · simp at h
  | .sc v :: as, m, adj, adj', h => by
    simp only [matchTail] at h
    split at h
    · rename_i ma hma
      obtain ⟨h1, h2, h3⟩ := matchTail_true h
      refine ⟨by simp only [tailAdj]; omega, ?_, ?_⟩
      · intro c hc
        rcases List.mem_cons.mp hc with heq | hmem
        · cases heq
        · exact h2 c hmem
      · intro v' hv'
        rcases List.mem_cons.mp hv' with heq | hmem
        · cases heq; exact ⟨ma, hma⟩
        · exact h3 v' hmem
    · simp at h

/-- the tail loop only reads the scope it is given: it returns no map -/
theorem matchTail_mono {p : TP} : ∀ {as : List Arg} {m : RMap} {adj : Nat} {b : Bool} {adj' : Nat},
    matchTail p as m adj = (b, adj') → adj ≤ adj'
  | [], m, adj, b, adj', h => by
    simp only [matchTail, Prod.mk.injEq] at h
    omega
  | .ts c :: as, m, adj, b, adj', h => by
    simp only [matchTail] at h
    split at h
    · have := matchTail_mono h
      omega
    · simp only [Prod.mk.injEq] at h
      omega
  | .sc v :: as, m, adj, b, adj', h => by
    simp only [matchTail] at h
    split at h
    · have := matchTail_mono h
      omega
    · simp only [Prod.mk.injEq] at h
      omega

/-- a promoted plain value only ever EXTENDS the scope it is tested in -/
theorem scPromote_mapLe : ∀ (p : TP) (v : Sc) (m m' : RMap), scPromote p v m = some m' → MapLe m m'
  | .ref t, v, m, m', h => by
    simp only [scPromote] at h
    exact scPromote_mapLe t v m m' h
  | .var n cs, v, m, m', h => by
    simp only [scPromote] at h
    split at h
    · split at h
      · cases h; exact MapLe.refl _
      · cases h
    · exact (varMatch_sound h).1
  | .conc pc, v, m, m', h => by
    simp only [scPromote] at h
    split at h
    · cases h; exact MapLe.refl _
    · cases h
  | .ts s, v, m, m', h => by
    simp only [scPromote] at h
    exact (scalarMatch_sound h).1
  | .signal, v, m, m', h => by
    simp only [scPromote] at h
    split at h
    · cases h; exact MapLe.refl _
    · cases h
  | .tss _, _, _, _, h => by simp [scPromote] at h
  | .tsl _ _, _, _, _, h => by simp [scPromote] at h
  | .tsd _ _, _, _, _, h => by simp [scPromote] at h
  | .tsw _ _, _, _, _, h => by simp [scPromote] at h
  | .tsb _ _, _, _, _, h => by simp [scPromote] at h
  | .tsbVar _, _, _, _, h => by simp [scPromote] at h

/-! ## the rank accumulator is sub-additive -/

theorem keyRankParams_append (k : Key) : ∀ ps qs : List Param,
    keyRankParams k (ps ++ qs) = optMin (keyRankParams k ps) (keyRankParams k qs)
  | [], qs => by simp [keyRankParams]
  | p :: ps, qs => by
    simp only [List.cons_append, keyRankParams, keyRankParams_append k ps qs, optMin_assoc]

theorem structParams_append : ∀ ps qs : List Param, structParams (ps ++ qs) = structParams ps + structParams qs
  | [], qs => by simp [structParams]
  | p :: ps, qs => by
    simp only [List.cons_append, structParams, structParams_append ps qs]
    omega

theorem optMin_some_cases {a b : Option Nat} {m : Nat} (h : optMin a b = some m) : a = some m ∨ b = some m := by
  cases a with
  | none => simp only [optMin_none_left] at h; exact Or.inr h
  | some x =>
    cases b with
    | none => simp only [optMin_none_right] at h; exact Or.inl h
    | some y =>
      simp only [optMin, Option.some.injEq] at h
      by_cases hxy : x ≤ y
      · left; congr 1; omega
      · right; congr 1; omega

/-- **one accumulator across two parameter lists never costs more than two accumulators**: a variable that
    occurs in both is charged once (its minimum) instead of twice -/
theorem operatorRank_append_le (ps qs : List Param) :
    operatorRank (ps ++ qs) ≤ operatorRank ps + operatorRank qs := by
  rw [operatorRank_eq, operatorRank_eq, operatorRank_eq, structParams_append]
  have hcov := sumVals_le_of_cover (rankAcc (ps ++ qs)).vars (rankAcc ps).vars (rankAcc qs).vars
    (rankAcc_spec (ps ++ qs)).1 (by
      intro k v hk
      rw [(rankAcc_spec (ps ++ qs)).2.2 k, keyRankParams_append] at hk
      rw [(rankAcc_spec ps).2.2 k, (rankAcc_spec qs).2.2 k]
      exact optMin_some_cases hk)
  omega

/-- the rank of the one-parameter list `[p]` is `param_pattern_rank(p)`: a fixed parameter and a variadic tail
    are ranked on the SAME scale -/
theorem tailRank_eq_param_rank (tp : TP) : tailRank tp = operatorRank [.input tp] := rfl

/-- `k` copies of one pattern as fixed parameters cost at most `k` times the pattern -/
theorem operatorRank_replicate_le (tp : TP) : ∀ k : Nat,
    operatorRank (List.replicate k (.input tp)) ≤ k * tailRank tp
  | 0 => by simp [operatorRank, RankAcc.total, sumVals]
  | k + 1 => by
    have h1 := operatorRank_append_le [.input tp] (List.replicate k (.input tp))
    have h2 := operatorRank_replicate_le tp k
    rw [tailRank_eq_param_rank] at *
    simp only [List.replicate_succ]
    simp only [List.singleton_append] at h1
    rw [Nat.succ_mul]
    omega

end HgVerif.Dispatch
