import HgVerif.Model.RefLink
/-!
Helper lemmas for C13 (`Props/C13.lean`): frame lemmas of the three transitions of the link model
(`tickTarget`, `retargetOne`, `select`) and their folds, and the key-set algebra of `applyDelta`.
-/
namespace HgVerif.RefLink

/-- everything of a target except its subscriber list -/
def Target.data (t : Target) : Bool × List (Int × Int) × Nat × List Int × List Int × List (Int × Int) :=
  (t.valid, t.items, t.lmt, t.added, t.removed, t.modKV)

theorem Target.data_eq {a b : Target} (h : a.data = b.data) :
    a.valid = b.valid ∧ a.items = b.items ∧ a.lmt = b.lmt ∧ a.added = b.added ∧ a.removed = b.removed ∧
      a.modKV = b.modKV := by
  simp only [Target.data, Prod.mk.injEq] at h
  exact h

/-! ### `applyDelta` -/

theorem applyDelta_subs (sh : Shape) (t : Target) (now : Nat) (d : Delta) :
    (applyDelta sh t now d).1.subs = t.subs := by
  cases sh with
  | ts => simp only [applyDelta, applyTs]; split <;> rfl
  | tss => rfl
  | tsd => simp only [applyDelta, applyTsd]; split <;> rfl

theorem applyDelta_not_ticked (sh : Shape) (t : Target) (now : Nat) (d : Delta)
    (h : (applyDelta sh t now d).2 = false) : (applyDelta sh t now d).1 = t := by
  cases sh with
  | ts => simp only [applyDelta, applyTs] at h ⊢; split <;> simp_all
  | tss => simp [applyDelta, applyTss] at h
  | tsd => simp only [applyDelta, applyTsd] at h ⊢; split <;> simp_all

theorem applyDelta_ticked (sh : Shape) (t : Target) (now : Nat) (d : Delta)
    (h : (applyDelta sh t now d).2 = true) :
    (applyDelta sh t now d).1.lmt = now ∧ (applyDelta sh t now d).1.valid = true := by
  cases sh with
  | ts => simp only [applyDelta, applyTs] at h ⊢; split <;> simp_all
  | tss => simp [applyDelta, applyTss]
  | tsd => simp only [applyDelta, applyTsd] at h ⊢; split <;> simp_all

theorem applyDelta_valid_mono (sh : Shape) (t : Target) (now : Nat) (d : Delta) (h : t.valid = true) :
    (applyDelta sh t now d).1.valid = true := by
  cases hb : (applyDelta sh t now d).2
  · rw [applyDelta_not_ticked sh t now d hb]; exact h
  · exact (applyDelta_ticked sh t now d hb).2

/-! ### `upd` -/

@[simp] theorem upd_same {α : Type} (f : Nat → α) (i : Nat) (v : α) : upd f i v i = v := by simp [upd]

theorem upd_other {α : Type} (f : Nat → α) {i j : Nat} (v : α) (h : j ≠ i) : upd f i v j = f j := by
  simp [upd, h]

/-! ### `tickTarget` -/

@[simp] theorem tickTarget_shape (s : State) (t : Nat) (d : Delta) : (tickTarget s t d).shape = s.shape := by
  unfold tickTarget; simp only; split <;> rfl
@[simp] theorem tickTarget_nC (s : State) (t : Nat) (d : Delta) : (tickTarget s t d).nC = s.nC := by
  unfold tickTarget; simp only; split <;> rfl
@[simp] theorem tickTarget_nT (s : State) (t : Nat) (d : Delta) : (tickTarget s t d).nT = s.nT := by
  unfold tickTarget; simp only; split <;> rfl
@[simp] theorem tickTarget_now (s : State) (t : Nat) (d : Delta) : (tickTarget s t d).now = s.now := by
  unfold tickTarget; simp only; split <;> rfl
@[simp] theorem tickTarget_ref (s : State) (t : Nat) (d : Delta) : (tickTarget s t d).ref = s.ref := by
  unfold tickTarget; simp only; split <;> rfl
@[simp] theorem tickTarget_refLmt (s : State) (t : Nat) (d : Delta) : (tickTarget s t d).refLmt = s.refLmt := by
  unfold tickTarget; simp only; split <;> rfl

theorem tickTarget_link (s : State) (t : Nat) (d : Delta) (c : Nat) :
    ((tickTarget s t d).links c).bound = (s.links c).bound ∧
    ((tickTarget s t d).links c).prev = (s.links c).prev ∧
    ((tickTarget s t d).links c).transAt = (s.links c).transAt ∧
    ((tickTarget s t d).links c).checked = (s.links c).checked := by
  unfold tickTarget; simp only
  split
  · simp only; split <;> simp
  · simp

theorem tickTarget_target_other (s : State) (t : Nat) (d : Delta) {u : Nat} (h : u ≠ t) :
    (tickTarget s t d).targets u = s.targets u := by
  unfold tickTarget; simp only
  split
  · simp [upd, h]
  · rfl

theorem tickTarget_target_self (s : State) (t : Nat) (d : Delta) :
    (tickTarget s t d).targets t = (applyDelta s.shape (s.targets t) s.now d).1 := by
  unfold tickTarget; simp only
  split
  · simp
  · rename_i h
    have h' : (applyDelta s.shape (s.targets t) s.now d).2 = false := by simpa using h
    rw [applyDelta_not_ticked _ _ _ _ h']

theorem tickTarget_subs (s : State) (t : Nat) (d : Delta) (u : Nat) :
    ((tickTarget s t d).targets u).subs = (s.targets u).subs := by
  by_cases h : u = t
  · subst h; rw [tickTarget_target_self, applyDelta_subs]
  · rw [tickTarget_target_other s t d h]

theorem tickTarget_sched (s : State) (t : Nat) (d : Delta) (c : Nat) :
    c ∈ (tickTarget s t d).sched ↔
      c ∈ s.sched ∨ ((applyDelta s.shape (s.targets t) s.now d).2 = true ∧ c ∈ (s.targets t).subs) := by
  unfold tickTarget; simp only
  split
  · rename_i h; simp [h]
  · rename_i h; simp [h]

theorem tickTarget_valid_mono (s : State) (t : Nat) (d : Delta) (u : Nat) (h : (s.targets u).valid = true) :
    ((tickTarget s t d).targets u).valid = true := by
  by_cases hu : u = t
  · subst hu; rw [tickTarget_target_self]; exact applyDelta_valid_mono _ _ _ _ h
  · rw [tickTarget_target_other s t d hu]; exact h

/-! ### `tickAll` -/

theorem tickAll_nil (s : State) (ticks : Nat → Option Delta) : tickAll s ticks [] = s := rfl

theorem tickAll_cons (s : State) (ticks : Nat → Option Delta) (t : Nat) (ts : List Nat) :
    tickAll s ticks (t :: ts) =
      tickAll (match ticks t with
        | some d => tickTarget s t d
        | none => s) ticks ts := rfl

/-- one step of the target fold -/
def tickStep (s : State) (ticks : Nat → Option Delta) (t : Nat) : State :=
  match ticks t with
  | some d => tickTarget s t d
  | none => s

theorem tickAll_cons' (s : State) (ticks : Nat → Option Delta) (t : Nat) (ts : List Nat) :
    tickAll s ticks (t :: ts) = tickAll (tickStep s ticks t) ticks ts := rfl

theorem tickStep_frame (s : State) (ticks : Nat → Option Delta) (t : Nat) :
    (tickStep s ticks t).shape = s.shape ∧ (tickStep s ticks t).nC = s.nC ∧ (tickStep s ticks t).nT = s.nT ∧
    (tickStep s ticks t).now = s.now ∧ (tickStep s ticks t).ref = s.ref ∧
    (tickStep s ticks t).refLmt = s.refLmt := by
  unfold tickStep; split <;> simp

theorem tickStep_link (s : State) (ticks : Nat → Option Delta) (t c : Nat) :
    ((tickStep s ticks t).links c).bound = (s.links c).bound ∧
    ((tickStep s ticks t).links c).prev = (s.links c).prev ∧
    ((tickStep s ticks t).links c).transAt = (s.links c).transAt ∧
    ((tickStep s ticks t).links c).checked = (s.links c).checked := by
  unfold tickStep; split
  · exact tickTarget_link _ _ _ _
  · simp

theorem tickStep_subs (s : State) (ticks : Nat → Option Delta) (t u : Nat) :
    ((tickStep s ticks t).targets u).subs = (s.targets u).subs := by
  unfold tickStep; split
  · exact tickTarget_subs _ _ _ _
  · rfl

theorem tickStep_target_other (s : State) (ticks : Nat → Option Delta) {t u : Nat} (h : u ≠ t) :
    (tickStep s ticks t).targets u = s.targets u := by
  unfold tickStep; split
  · exact tickTarget_target_other _ _ _ h
  · rfl

/-- what one replayed delta does to a target (identity when it does not tick) -/
def tickedTarget (sh : Shape) (tg : Target) (now : Nat) (od : Option Delta) : Target :=
  match od with
  | some d => (applyDelta sh tg now d).1
  | none => tg

theorem tickStep_target_self (s : State) (ticks : Nat → Option Delta) (t : Nat) :
    (tickStep s ticks t).targets t = tickedTarget s.shape (s.targets t) s.now (ticks t) := by
  unfold tickStep tickedTarget; split
  · rename_i d h; simp [tickTarget_target_self]
  · rfl

theorem tickAll_frame (ticks : Nat → Option Delta) (ts : List Nat) (s : State) :
    (tickAll s ticks ts).shape = s.shape ∧ (tickAll s ticks ts).nC = s.nC ∧ (tickAll s ticks ts).nT = s.nT ∧
    (tickAll s ticks ts).now = s.now ∧ (tickAll s ticks ts).ref = s.ref ∧
    (tickAll s ticks ts).refLmt = s.refLmt := by
  induction ts generalizing s with
  | nil => simp [tickAll_nil]
  | cons t ts ih =>
    rw [tickAll_cons']
    have a := ih (tickStep s ticks t)
    have b := tickStep_frame s ticks t
    grind

theorem tickAll_link (ticks : Nat → Option Delta) (ts : List Nat) (s : State) (c : Nat) :
    ((tickAll s ticks ts).links c).bound = (s.links c).bound ∧
    ((tickAll s ticks ts).links c).prev = (s.links c).prev ∧
    ((tickAll s ticks ts).links c).transAt = (s.links c).transAt ∧
    ((tickAll s ticks ts).links c).checked = (s.links c).checked := by
  induction ts generalizing s with
  | nil => simp [tickAll_nil]
  | cons t ts ih =>
    rw [tickAll_cons']
    have a := ih (tickStep s ticks t)
    have b := tickStep_link s ticks t c
    grind

theorem tickAll_subs (ticks : Nat → Option Delta) (ts : List Nat) (s : State) (u : Nat) :
    ((tickAll s ticks ts).targets u).subs = (s.targets u).subs := by
  induction ts generalizing s with
  | nil => simp [tickAll_nil]
  | cons t ts ih =>
    rw [tickAll_cons', ih, tickStep_subs]

theorem tickAll_target_notin (ticks : Nat → Option Delta) (ts : List Nat) (s : State) {u : Nat}
    (h : u ∉ ts) : (tickAll s ticks ts).targets u = s.targets u := by
  induction ts generalizing s with
  | nil => simp [tickAll_nil]
  | cons t ts ih =>
    rw [tickAll_cons', ih _ (by grind), tickStep_target_other s ticks (by grind)]

theorem tickAll_target_in (ticks : Nat → Option Delta) (ts : List Nat) (s : State) {u : Nat}
    (hn : ts.Nodup) (h : u ∈ ts) :
    (tickAll s ticks ts).targets u = tickedTarget s.shape (s.targets u) s.now (ticks u) := by
  induction ts generalizing s with
  | nil => simp at h
  | cons t ts ih =>
    rw [tickAll_cons']
    have hn' := List.nodup_cons.mp hn
    by_cases hu : u = t
    · subst hu
      rw [tickAll_target_notin _ _ _ hn'.1, tickStep_target_self]
    · have hm : u ∈ ts := by grind
      have f := tickStep_frame s ticks t
      rw [ih _ hn'.2 hm, tickStep_target_other s ticks hu, f.1, f.2.2.2.1]

theorem tickAll_sched_mono (ticks : Nat → Option Delta) (ts : List Nat) (s : State) {c : Nat}
    (h : c ∈ s.sched) : c ∈ (tickAll s ticks ts).sched := by
  induction ts generalizing s with
  | nil => simpa [tickAll_nil] using h
  | cons t ts ih =>
    rw [tickAll_cons']
    apply ih
    unfold tickStep; split
    · exact (tickTarget_sched _ _ _ _).mpr (Or.inl h)
    · exact h

/-- a consumer is only ever scheduled by a target it is subscribed to -/
theorem tickAll_sched_cause (ticks : Nat → Option Delta) (ts : List Nat) (s : State) {c : Nat}
    (h : c ∈ (tickAll s ticks ts).sched) :
    c ∈ s.sched ∨ ∃ t ∈ ts, ∃ d, ticks t = some d ∧ c ∈ (s.targets t).subs := by
  induction ts generalizing s with
  | nil => exact Or.inl (by simpa [tickAll_nil] using h)
  | cons t ts ih =>
    rw [tickAll_cons'] at h
    rcases ih _ h with h1 | ⟨u, hu, d, hd, hc⟩
    · unfold tickStep at h1
      split at h1
      · rename_i d hd
        rcases (tickTarget_sched _ _ _ _).mp h1 with h2 | ⟨_, h2⟩
        · exact Or.inl h2
        · exact Or.inr ⟨t, by simp, d, hd, h2⟩
      · exact Or.inl h1
    · rw [tickStep_subs] at hc
      exact Or.inr ⟨u, by simp [hu], d, hd, hc⟩

/-- a target that ticks schedules every consumer subscribed to it -/
theorem tickAll_sched_of_tick (ticks : Nat → Option Delta) (ts : List Nat) (s : State) {t c : Nat} {d : Delta}
    (hn : ts.Nodup) (ht : t ∈ ts) (hd : ticks t = some d)
    (hb : (applyDelta s.shape (s.targets t) s.now d).2 = true) (hc : c ∈ (s.targets t).subs) :
    c ∈ (tickAll s ticks ts).sched := by
  induction ts generalizing s with
  | nil => simp at ht
  | cons u ts ih =>
    rw [tickAll_cons']
    have hn' := List.nodup_cons.mp hn
    by_cases hu : t = u
    · subst hu
      apply tickAll_sched_mono
      unfold tickStep; rw [hd]
      exact (tickTarget_sched _ _ _ _).mpr (Or.inr ⟨hb, hc⟩)
    · have hm : t ∈ ts := by grind
      have f := tickStep_frame s ticks u
      apply ih _ hn'.2 hm
      · rw [f.1, f.2.2.2.1, tickStep_target_other s ticks hu]; exact hb
      · rw [tickStep_subs]; exact hc

/-! ### `retargetOne` -/

theorem retargetOne_frame (s : State) (c i : Nat) :
    (retargetOne s c i).shape = s.shape ∧ (retargetOne s c i).nC = s.nC ∧ (retargetOne s c i).nT = s.nT ∧
    (retargetOne s c i).now = s.now ∧ (retargetOne s c i).ref = s.ref ∧
    (retargetOne s c i).refLmt = s.refLmt := by
  unfold retargetOne; simp only; split <;> simp

theorem retargetOne_link_other (s : State) {c c' : Nat} (i : Nat) (h : c' ≠ c) :
    (retargetOne s c i).links c' = s.links c' := by
  unfold retargetOne; simp only; split
  · rfl
  · simp [upd, h]

theorem retargetOne_data (s : State) (c i t : Nat) :
    ((retargetOne s c i).targets t).data = (s.targets t).data := by
  unfold retargetOne; simp only; split
  · rfl
  · cases hb : (s.links c).bound with
    | none => simp only [upd]; split <;> simp_all [Target.data]
    | some o => simp only [upd]; repeat' split <;> simp_all [Target.data]

theorem retargetOne_bound_self (s : State) (c i : Nat) : ((retargetOne s c i).links c).bound = some i := by
  unfold retargetOne; simp only; split
  · assumption
  · simp

theorem retargetOne_checked (s : State) (c i c' : Nat) :
    ((retargetOne s c i).links c').checked = (s.links c').checked := by
  unfold retargetOne; simp only; split
  · rfl
  · simp only [upd]; split
    · subst_vars; rfl
    · rfl

/-- membership of another consumer in any subscriber list is untouched -/
theorem retargetOne_subs_other (s : State) {c c' : Nat} (i t : Nat) (h : c' ≠ c) :
    c' ∈ ((retargetOne s c i).targets t).subs ↔ c' ∈ (s.targets t).subs := by
  unfold retargetOne; simp only; split
  · rfl
  · cases hb : (s.links c).bound with
    | none =>
      simp only [upd]; split
      · subst_vars; simp [h]
      · rfl
    | some o =>
      simp only [upd]
      by_cases h1 : t = i <;> by_cases h2 : t = o <;> by_cases h3 : i = o <;> simp_all [List.mem_filter]

/-- `c` is subscribed exactly where its link is bound -/
def Good (s : State) (c : Nat) : Prop := ∀ t, c ∈ (s.targets t).subs ↔ (s.links c).bound = some t

theorem retargetOne_good_self (s : State) (c i : Nat) (h : Good s c) : Good (retargetOne s c i) c := by
  intro t
  rw [retargetOne_bound_self]
  unfold retargetOne; simp only; split
  · rename_i hb; rw [h t, hb]
  · rename_i hne
    cases hb : (s.links c).bound with
    | none =>
      have hno : ∀ u, c ∉ (s.targets u).subs := fun u hu => by simpa [hb] using (h u).mp hu
      simp only [upd]
      by_cases h1 : t = i
      · simp [h1]
      · have := hno t; simp [h1, this]; exact fun e => h1 e.symm
    | some o =>
      have hsub : ∀ u, c ∈ (s.targets u).subs ↔ o = u := fun u => by rw [h u, hb]; simp
      have hio : i ≠ o := by intro e; apply hne; rw [hb, e]
      simp only [upd]
      by_cases h1 : t = i
      · simp [h1]
      · by_cases h2 : t = o
        · subst h2; simp [h1, List.mem_filter]; exact fun e => h1 e.symm
        · have : c ∉ (s.targets t).subs := fun hm => h2 ((hsub t).mp hm).symm
          simp [h1, h2, this]; exact fun e => h1 e.symm

theorem retargetOne_good_other (s : State) {c c' : Nat} (i : Nat) (hne : c' ≠ c) (h : Good s c') :
    Good (retargetOne s c i) c' := by
  intro t
  rw [retargetOne_subs_other s i t hne, retargetOne_link_other s i hne]
  exact h t

theorem retargetOne_good (s : State) (c i : Nat) (h : ∀ c', Good s c') : ∀ c', Good (retargetOne s c i) c' := by
  intro c'
  by_cases hc : c' = c
  · subst hc; exact retargetOne_good_self s c' i (h c')
  · exact retargetOne_good_other s i hc (h c')

theorem retargetOne_sched (s : State) (c i c' : Nat) :
    c' ∈ (retargetOne s c i).sched ↔
      c' ∈ s.sched ∨ (c' = c ∧ (s.links c).bound ≠ some i ∧ publishes s c i = true) := by
  unfold retargetOne; simp only; split
  · rename_i h; simp [h]
  · rename_i h
    cases hp : publishes s c i <;> simp [h]

theorem retargetOne_sched_mono (s : State) (c i : Nat) {c' : Nat} (h : c' ∈ s.sched) :
    c' ∈ (retargetOne s c i).sched := (retargetOne_sched s c i c').mpr (Or.inl h)

theorem retargetOne_sched_cause (s : State) (c i : Nat) {c' : Nat} (h : c' ∈ (retargetOne s c i).sched) :
    c' ∈ s.sched ∨ c' = c := by
  rcases (retargetOne_sched s c i c').mp h with h | h
  · exact Or.inl h
  · exact Or.inr h.1

/-! ### the consumer fold of `select` -/

def retargetAll (s : State) (i : Nat) (cs : List Nat) : State := cs.foldl (fun st c => retargetOne st c i) s

theorem retargetAll_cons (s : State) (i c : Nat) (cs : List Nat) :
    retargetAll s i (c :: cs) = retargetAll (retargetOne s c i) i cs := rfl

theorem select_eq (s : State) (sel : Option Nat) :
    select s sel = match sel with
      | none => s
      | some i => if s.ref = some i then s
                  else retargetAll { s with ref := some i, refLmt := s.now, sched := s.sched ++ s.resample } i
                    (List.range s.nC) := rfl

theorem retargetAll_frame (i : Nat) (cs : List Nat) (s : State) :
    (retargetAll s i cs).shape = s.shape ∧ (retargetAll s i cs).nC = s.nC ∧ (retargetAll s i cs).nT = s.nT ∧
    (retargetAll s i cs).now = s.now ∧ (retargetAll s i cs).ref = s.ref ∧
    (retargetAll s i cs).refLmt = s.refLmt := by
  induction cs generalizing s with
  | nil => simp [retargetAll]
  | cons c cs ih =>
    rw [retargetAll_cons]
    have a := ih (retargetOne s c i)
    have b := retargetOne_frame s c i
    grind

theorem retargetAll_data (i : Nat) (cs : List Nat) (s : State) (t : Nat) :
    ((retargetAll s i cs).targets t).data = (s.targets t).data := by
  induction cs generalizing s with
  | nil => simp [retargetAll]
  | cons c cs ih => rw [retargetAll_cons, ih, retargetOne_data]

theorem retargetAll_good (i : Nat) (cs : List Nat) (s : State) (h : ∀ c, Good s c) :
    ∀ c, Good (retargetAll s i cs) c := by
  induction cs generalizing s with
  | nil => simpa [retargetAll] using h
  | cons c cs ih => rw [retargetAll_cons]; exact ih _ (retargetOne_good s c i h)

theorem retargetAll_link_notin (i : Nat) (cs : List Nat) (s : State) {c : Nat} (h : c ∉ cs) :
    (retargetAll s i cs).links c = s.links c := by
  induction cs generalizing s with
  | nil => simp [retargetAll]
  | cons c' cs ih =>
    rw [retargetAll_cons, ih _ (by grind), retargetOne_link_other s i (by grind)]

theorem retargetAll_bound_stable (i : Nat) (cs : List Nat) (s : State) {c : Nat}
    (h : (s.links c).bound = some i) : ((retargetAll s i cs).links c).bound = some i := by
  induction cs generalizing s with
  | nil => simpa [retargetAll] using h
  | cons c' cs ih =>
    rw [retargetAll_cons]
    apply ih
    by_cases hc : c = c'
    · subst hc; exact retargetOne_bound_self s c i
    · rw [retargetOne_link_other s i hc]; exact h

theorem retargetAll_bound_in (i : Nat) (cs : List Nat) (s : State) {c : Nat} (h : c ∈ cs) :
    ((retargetAll s i cs).links c).bound = some i := by
  induction cs generalizing s with
  | nil => simp at h
  | cons c' cs ih =>
    rw [retargetAll_cons]
    by_cases hc : c = c'
    · subst hc; exact retargetAll_bound_stable i cs _ (retargetOne_bound_self s c i)
    · exact ih _ (by grind)

theorem retargetAll_checked (i : Nat) (cs : List Nat) (s : State) (c : Nat) :
    ((retargetAll s i cs).links c).checked = (s.links c).checked := by
  induction cs generalizing s with
  | nil => simp [retargetAll]
  | cons c' cs ih => rw [retargetAll_cons, ih, retargetOne_checked]

theorem retargetAll_sched_mono (i : Nat) (cs : List Nat) (s : State) {c : Nat} (h : c ∈ s.sched) :
    c ∈ (retargetAll s i cs).sched := by
  induction cs generalizing s with
  | nil => simpa [retargetAll] using h
  | cons c' cs ih => rw [retargetAll_cons]; exact ih _ (retargetOne_sched_mono s c' i h)

theorem retargetAll_sched_cause (i : Nat) (cs : List Nat) (s : State) {c : Nat}
    (h : c ∈ (retargetAll s i cs).sched) : c ∈ s.sched ∨ c ∈ cs := by
  induction cs generalizing s with
  | nil => exact Or.inl (by simpa [retargetAll] using h)
  | cons c' cs ih =>
    rw [retargetAll_cons] at h
    rcases ih _ h with h1 | h1
    · rcases retargetOne_sched_cause s c' i h1 with h2 | h2
      · exact Or.inl h2
      · exact Or.inr (by simp [h2])
    · exact Or.inr (by simp [h1])

theorem publishes_congr {s s' : State} (c i : Nat) (hl : s.links c = s'.links c) (hs : s.shape = s'.shape)
    (hd : ∀ t, (s.targets t).data = (s'.targets t).data) : publishes s c i = publishes s' c i := by
  have hv : ∀ t, (s.targets t).valid = (s'.targets t).valid := fun t => (Target.data_eq (hd t)).1
  unfold publishes
  simp only [hl, hs, hv]

theorem retargetOne_link_congr {s s' : State} (c i : Nat) (hl : s.links c = s'.links c) (hs : s.shape = s'.shape)
    (hn : s.now = s'.now) (hd : ∀ t, (s.targets t).data = (s'.targets t).data) :
    (retargetOne s c i).links c = (retargetOne s' c i).links c := by
  have hp := publishes_congr c i hl hs hd
  unfold retargetOne
  simp only [hl, hs, hn, hp]
  split <;> simp [hl]

/-- the link of a consumer after the fold is what its own re-bind step made of it -/
theorem retargetAll_link_in (i : Nat) (cs : List Nat) (s : State) {c : Nat} (hn : cs.Nodup) (h : c ∈ cs) :
    (retargetAll s i cs).links c = (retargetOne s c i).links c := by
  induction cs generalizing s with
  | nil => simp at h
  | cons c' cs ih =>
    rw [retargetAll_cons]
    have hn' := List.nodup_cons.mp hn
    by_cases hc : c = c'
    · subst hc
      rw [retargetAll_link_notin i cs _ hn'.1]
    · have hm : c ∈ cs := by grind
      rw [ih _ hn'.2 hm]
      have f := retargetOne_frame s c' i
      exact retargetOne_link_congr c i (retargetOne_link_other s i hc) f.1 f.2.2.2.1
        (fun t => retargetOne_data s c' i t)

/-- a re-bind that publishes schedules the consumer -/
theorem retargetAll_sched_in (i : Nat) (cs : List Nat) (s : State) {c : Nat} (hn : cs.Nodup) (h : c ∈ cs)
    (hb : (s.links c).bound ≠ some i) (hp : publishes s c i = true) : c ∈ (retargetAll s i cs).sched := by
  induction cs generalizing s with
  | nil => simp at h
  | cons c' cs ih =>
    rw [retargetAll_cons]
    have hn' := List.nodup_cons.mp hn
    by_cases hc : c = c'
    · subst hc
      exact retargetAll_sched_mono i cs _ ((retargetOne_sched s c i c).mpr (Or.inr ⟨rfl, hb, hp⟩))
    · have hm : c ∈ cs := by grind
      have f := retargetOne_frame s c' i
      apply ih _ hn'.2 hm
      · rw [retargetOne_link_other s i hc]; exact hb
      · rw [publishes_congr c i (retargetOne_link_other s i hc) f.1 (fun t => retargetOne_data s c' i t)]
        exact hp

/-! ### key-set algebra of one tick (what the sampled-transition accessors rely on) -/

theorem mem_keys {m : List (Int × Int)} {k : Int} : k ∈ keys m ↔ ∃ v, (k, v) ∈ m := by
  simp [keys]

theorem hasKey_iff {m : List (Int × Int)} {k : Int} : hasKey m k = true ↔ k ∈ keys m := by
  simp [hasKey]

theorem keys_addKey (m : List (Int × Int)) (a k : Int) : k ∈ keys (addKey m a) ↔ k ∈ keys m ∨ k = a := by
  unfold addKey
  split
  · rename_i h
    have := hasKey_iff.mp h
    constructor
    · exact Or.inl
    · rintro (h1 | h1)
      · exact h1
      · subst h1; exact this
  · simp [keys]

theorem keys_map_overwrite (m : List (Int × Int)) (a v : Int) :
    keys (m.map (fun p => if p.1 == a then (a, v) else p)) = keys m := by
  simp only [keys, List.map_map]
  apply List.map_congr_left
  intro p _
  by_cases h : p.1 = a <;> simp [h]

theorem keys_setKey (m : List (Int × Int)) (a v k : Int) : k ∈ keys (setKey m a v) ↔ k ∈ keys m ∨ k = a := by
  unfold setKey
  split
  · rename_i h
    have ha := hasKey_iff.mp h
    rw [keys_map_overwrite]
    constructor
    · exact Or.inl
    · rintro (h1 | h1)
      · exact h1
      · subst h1; exact ha
  · simp [keys]

theorem keys_foldl_addKey (ks : List Int) (m : List (Int × Int)) (k : Int) :
    k ∈ keys (ks.foldl addKey m) ↔ k ∈ keys m ∨ k ∈ ks := by
  induction ks generalizing m with
  | nil => simp
  | cons a ks ih => rw [List.foldl_cons, ih, keys_addKey]; simp; grind

theorem keys_foldl_setKey (ps : List (Int × Int)) (m : List (Int × Int)) (k : Int) :
    k ∈ keys (ps.foldl (fun m p => setKey m p.1 p.2) m) ↔ k ∈ keys m ∨ k ∈ keys ps := by
  induction ps generalizing m with
  | nil => simp [keys]
  | cons a ps ih => rw [List.foldl_cons, ih, keys_setKey]; simp [keys]; grind

theorem mem_goneKeys (t : Target) (d : Delta) (k : Int) : k ∈ goneKeys t d ↔ k ∈ keys t.items ∧ k ∈ d.dels := by
  simp [goneKeys, List.mem_filter]

theorem mem_keys_kept (t : Target) (d : Delta) (k : Int) :
    k ∈ keys (keptItems t d) ↔ k ∈ keys t.items ∧ k ∉ d.dels := by
  simp only [keptItems, keys, List.mem_map, List.mem_filter]
  constructor
  · rintro ⟨p, ⟨hp, hd⟩, rfl⟩
    exact ⟨⟨p, hp, rfl⟩, by simpa using hd⟩
  · rintro ⟨⟨p, hp, rfl⟩, hd⟩
    exact ⟨p, ⟨hp, by simpa using hd⟩, rfl⟩

theorem hasKey_false_iff {m : List (Int × Int)} {k : Int} : hasKey m k = false ↔ k ∉ keys m := by
  simp [hasKey]

theorem mem_pubR (old : Target) (now : Nat) (k : Int) :
    k ∈ pubR old now ↔
      (k ∈ keys old.items ∨ (old.lmt = now ∧ k ∈ old.removed)) ∧ ¬(old.lmt = now ∧ k ∈ old.added) := by
  by_cases h : old.lmt = now <;> simp [pubR, List.mem_filter, h] <;> grind

/-- the published-key test as it was BEFORE the fix of finding C13-B: every pending-erase slot of the
    previous target counted, whatever the cycle of the removal -/
def pubRPreFix (old : Target) (now : Nat) : List Int :=
  (keys old.items ++ old.removed).filter (fun k => !(old.lmt == now && old.added.contains k))

/-- why the fix was needed: a target that removed a key in an EARLIER cycle (`lmt ≠ now`) still had that
    key in the pre-fix published set, so a retarget away from it reported the key as removed again
    although it is not among the target's keys; the fixed `pubR` is exactly the live key set there -/
theorem pubRPreFix_reports_stale (old : Target) (now : Nat) (k : Int) (hl : old.lmt ≠ now)
    (hr : k ∈ old.removed) : k ∈ pubRPreFix old now ∧ (k ∈ pubR old now ↔ k ∈ keys old.items) := by
  constructor
  · simp [pubRPreFix, List.mem_filter, hl, hr]
  · rw [mem_pubR]; simp [hl]

/-- the implementation replay of C13-B (`cfg tss .. / c sel=a a=+1,+2 / c a=-2 / c b=+5 / c sel=b`): the old
    target holds `{1}` with the pending-erase slot `2` of cycle 2; in cycle 4 the pre-fix test publishes
    `2`, the fixed one does not -/
example : (2 : Int) ∈ pubRPreFix { valid := true, items := [(1, 0)], lmt := 2, removed := [2] } 4 ∧
    (2 : Int) ∉ pubR { valid := true, items := [(1, 0)], lmt := 2, removed := [2] } 4 := by decide

theorem pubA_iff (old : Target) (now : Nat) (k : Int) :
    pubA old now k = true ↔
      (k ∈ keys old.items ∧ ¬(old.lmt = now ∧ k ∈ old.added)) ∨ (old.lmt = now ∧ k ∈ old.removed) := by
  simp [pubA, hasKey_iff]
  grind

/-- the key accessors of a keyed view in the cycle of its sampled transition -/
theorem view_trans {s : State} {c t : Nat} (hb : (s.links c).bound = some t) (hk : s.shape ≠ .ts)
    (ht : (s.links c).transAt = s.now) :
    let old : Target := prevTarget s (s.links c).prev
    (view s c).trans = true ∧
    (view s c).added = (keys (s.targets t).items).filter (fun k => !pubA old s.now k) ∧
    (view s c).removed = (pubR old s.now).filter (fun k => !hasKey (s.targets t).items k) ∧
    (view s c).modk = (s.targets t).items := by
  have hk' : (s.shape != Shape.ts) = true := by simpa using hk
  simp [view, hb, hk', ht]

/-- a replayed delta never names a key in both parts (generator discipline, see ASSUMPTIONS) -/
def Delta.wf (d : Delta) : Prop := ∀ k, k ∈ d.dels → k ∉ keys d.sets

end HgVerif.RefLink
