import HgVerif.Lemmas.GState
/-!
The invariant of the evaluation loop for well-keyed graphs (sink keys pairwise distinct and different from the
replay key): every sink's buffer has the shape its own writes give it, a dense buffer is never longer than the
current cycle (so `offset - size` never wraps), no write throws, and the read-back grows by exactly one entry
per tick of the replay source.
-/
namespace HgVerif.GState

def isSp (lay : Layout) (sk : Sink) : Bool := sk.persist || lay == Layout.sparse

def readBuf (sp : Bool) (ob : Option Buf) : Except Err Trace := if sp then readSparse ob else readDense ob

theorem readBack_eq (lay : Layout) (sk : Sink) (gs : GState) :
    readBack lay sk gs = readBuf (isSp lay sk) (get gs sk.key) := by
  unfold readBack readBuf isSp; rfl

/-- a buffer in the shape the sink itself produces, not longer than cycle `i` when dense -/
def Good (sp : Bool) (i : Nat) (ob : Option Buf) : Prop :=
  ob = none ∨ (if sp then ∃ xs, ob = some (.sparse xs) else ∃ xs, ob = some (.dense xs) ∧ xs.length ≤ i)

theorem Good.mono {sp : Bool} {i : Nat} {ob : Option Buf} (h : Good sp i ob) : Good sp (i + 1) ob := by
  unfold Good at *
  rcases h with h | h
  · exact Or.inl h
  · refine Or.inr ?_
    cases sp with
    | true => simpa using h
    | false =>
      simp only [Bool.false_eq_true, ↓reduceIte] at h ⊢
      obtain ⟨xs, e, hl⟩ := h
      exact ⟨xs, e, by omega⟩

theorem enumSome_append (off : Nat) (a b : List (Option Int)) :
    enumSome off (a ++ b) = enumSome off a ++ enumSome (off + a.length) b := by
  induction a generalizing off with
  | nil => simp [enumSome]
  | cons x a ih =>
    cases x with
    | none =>
      simp only [List.cons_append, enumSome, List.length_cons]
      rw [ih]; congr 2; omega
    | some v =>
      simp only [List.cons_append, enumSome, List.length_cons]
      rw [ih]; congr 3; omega

theorem enumSome_replicate_none (off n : Nat) : enumSome off (List.replicate n none) = [] := by
  induction n generalizing off with
  | zero => rfl
  | succ n ih => simp only [List.replicate_succ, enumSome]; exact ih _

theorem enumSome_pad (xs : List (Option Int)) (i : Nat) (v : Int) (h : xs.length ≤ i) :
    enumSome 0 (xs ++ List.replicate (i - xs.length) none ++ [some v]) = enumSome 0 xs ++ [(i, v)] := by
  rw [enumSome_append, enumSome_append, enumSome_replicate_none]
  simp only [Nat.zero_add, List.append_nil, List.length_append, List.length_replicate, enumSome]
  congr 3; omega

/-- one write of a sink whose buffer is `Good`: it succeeds, stays `Good`, appends one entry to the read-back -/
theorem recordTick_good (lay : Layout) (sk : Sink) (gs : GState) (i : Nat) (v : Int)
    (hg : Good (isSp lay sk) i (get gs sk.key)) (hi : i ≤ maxDenseCycles) :
    ∃ gs', recordTick lay sk gs i v = .ok gs' ∧ Good (isSp lay sk) (i + 1) (get gs' sk.key) ∧
      ∀ tr, readBuf (isSp lay sk) (get gs sk.key) = .ok tr →
        readBuf (isSp lay sk) (get gs' sk.key) = .ok (tr ++ [(i, v)]) := by
  unfold recordTick
  have e : (sk.persist || lay == Layout.sparse) = isSp lay sk := rfl
  rw [e]
  cases hsp : isSp lay sk with
  | true =>
    rw [hsp] at hg
    simp only [↓reduceIte]
    unfold pushSparse
    unfold Good at hg
    rcases hg with hg | hg
    · rw [hg]
      refine ⟨_, rfl, ?_, ?_⟩
      · rw [get_set_self]; exact Or.inr ⟨_, rfl⟩
      · intro tr htr
        rw [get_set_self]
        simp only [readBuf, ↓reduceIte, readSparse] at htr ⊢
        cases htr; rfl
    · simp only [↓reduceIte] at hg
      obtain ⟨xs, hx⟩ := hg
      rw [hx]
      refine ⟨_, rfl, ?_, ?_⟩
      · rw [get_set_self]; exact Or.inr ⟨_, rfl⟩
      · intro tr htr
        rw [get_set_self]
        simp only [readBuf, ↓reduceIte, readSparse] at htr ⊢
        cases htr; rfl
  | false =>
    rw [hsp] at hg
    simp only [Bool.false_eq_true, ↓reduceIte]
    unfold pushDense
    unfold Good at hg
    rcases hg with hg | hg
    · rw [hg]
      have h1 : ¬ (([] : List (Option Int)).length > i) := by simp
      have h2 : ¬ (i - ([] : List (Option Int)).length > maxDenseCycles) := by simp; omega
      simp only [Option.getD_none, h1, h2, ↓reduceIte]
      refine ⟨_, rfl, ?_, ?_⟩
      · rw [get_set_self]
        refine Or.inr ?_
        simp only [Bool.false_eq_true, ↓reduceIte]
        exact ⟨_, rfl, by simp⟩
      · intro tr htr
        rw [get_set_self]
        simp only [readBuf, Bool.false_eq_true, ↓reduceIte, readDense] at htr ⊢
        cases htr
        rw [enumSome_pad [] i v (by simp)]
        rfl
    · simp only [Bool.false_eq_true, ↓reduceIte] at hg
      obtain ⟨xs, hx, hl⟩ := hg
      rw [hx]
      have h1 : ¬ (xs.length > i) := by omega
      have h2 : ¬ (i - xs.length > maxDenseCycles) := by omega
      simp only [Option.getD_some, h1, h2, ↓reduceIte]
      refine ⟨_, rfl, ?_, ?_⟩
      · rw [get_set_self]
        refine Or.inr ?_
        simp only [Bool.false_eq_true, ↓reduceIte]
        exact ⟨_, rfl, by simp; omega⟩
      · intro tr htr
        rw [get_set_self]
        simp only [readBuf, Bool.false_eq_true, ↓reduceIte, readDense] at htr ⊢
        cases htr
        rw [enumSome_pad xs i v hl]

/-- the node states after a tick `v` -/
def advance (v : Int) (sks : List (Sink × Int)) : List (Sink × Int) :=
  sks.map (fun p => (p.1, (p.1.node.step p.2 v).1))

theorem keysOf_advance (v : Int) (sks : List (Sink × Int)) : keysOf (advance v sks) = keysOf sks := by
  unfold keysOf advance; rw [List.map_map]; rfl

/-- one ticking cycle over sinks with pairwise distinct keys and `Good` buffers -/
theorem sinksTick_good (lay : Layout) (i : Nat) (v : Int) (hi : i ≤ maxDenseCycles) (sks : List (Sink × Int)) :
    ∀ (gs : GState), (keysOf sks).Nodup → (∀ p ∈ sks, Good (isSp lay p.1) i (get gs p.1.key)) →
      (sinksTick lay i v sks gs).2.2 = none ∧ (sinksTick lay i v sks gs).2.1 = advance v sks ∧
      ∀ p ∈ sks, Good (isSp lay p.1) (i + 1) (get (sinksTick lay i v sks gs).1 p.1.key) ∧
        ∀ tr, readBuf (isSp lay p.1) (get gs p.1.key) = .ok tr →
          readBuf (isSp lay p.1) (get (sinksTick lay i v sks gs).1 p.1.key)
            = .ok (tr ++ [(i, (p.1.node.step p.2 v).2)]) := by
  induction sks with
  | nil => intro gs _ _; exact ⟨rfl, rfl, fun p hp => by cases hp⟩
  | cons q rest ih =>
    intro gs hnd hgood
    obtain ⟨sk, st⟩ := q
    have hnd' : sk.key ∉ keysOf rest ∧ (keysOf rest).Nodup := by
      simpa [keysOf] using hnd
    obtain ⟨gs', hrt, hg', hrd'⟩ := recordTick_good lay sk gs i (sk.node.step st v).2 (hgood (sk, st) (by simp)) hi
    have hother : ∀ k, k ≠ sk.key → get gs' k = get gs k := fun k hk => recordTick_other hrt hk
    have hrestkey : ∀ p ∈ rest, p.1.key ≠ sk.key := by
      intro p hp e
      exact hnd'.1 (by unfold keysOf; exact List.mem_map.mpr ⟨p, hp, e⟩)
    have hgood' : ∀ p ∈ rest, Good (isSp lay p.1) i (get gs' p.1.key) := by
      intro p hp
      rw [hother _ (hrestkey p hp)]
      exact hgood p (by simp [hp])
    obtain ⟨ie, ia, ip⟩ := ih gs' hnd'.2 hgood'
    have hunf : sinksTick lay i v ((sk, st) :: rest) gs =
        ((sinksTick lay i v rest gs').1, (sk, (sk.node.step st v).1) :: (sinksTick lay i v rest gs').2.1,
          (sinksTick lay i v rest gs').2.2) := by
      rw [sinksTick]; simp only [hrt]
    rw [hunf]
    refine ⟨ie, ?_, ?_⟩
    · simp only [ia, advance, List.map_cons]
    · intro p hp
      rcases List.mem_cons.mp hp with e | e
      · subst e
        simp only
        rw [sinksTick_other lay i v rest gs' hnd'.1]
        exact ⟨hg', hrd'⟩
      · have := ip p e
        simp only
        refine ⟨this.1, ?_⟩
        intro tr htr
        apply this.2
        rw [hother _ (hrestkey p e)]
        exact htr

/-! ## unfolding the loop -/

theorem cycles_none (lay : Layout) (inKey : Key) (f i : Nat) (sks : List (Sink × Int)) (gs : GState)
    (h : get gs inKey = none) : cycles lay inKey (f + 1) i sks gs = (gs, none) := by
  rw [cycles]; simp only [h]

theorem cycles_notick (lay : Layout) (inKey : Key) (f i : Nat) (sks : List (Sink × Int)) (gs : GState) (buf : Buf)
    (h : get gs inKey = some buf) (hno : (if i < bufLen buf then entryAt buf i else none) = none) :
    cycles lay inKey (f + 1) i sks gs =
      if i + 1 < bufLen buf then cycles lay inKey f (i + 1) sks gs else (gs, none) := by
  rw [cycles]; simp only [h, hno]

theorem cycles_tick (lay : Layout) (inKey : Key) (f i : Nat) (sks : List (Sink × Int)) (gs : GState) (buf : Buf) (v : Int)
    (h : get gs inKey = some buf) (hv : (if i < bufLen buf then entryAt buf i else none) = some v)
    (hok : (sinksTick lay i v sks gs).2.2 = none) :
    cycles lay inKey (f + 1) i sks gs =
      if i + 1 < bufLen buf then cycles lay inKey f (i + 1) (sinksTick lay i v sks gs).2.1 (sinksTick lay i v sks gs).1
      else ((sinksTick lay i v sks gs).1, none) := by
  rw [cycles]; simp only [h, hv, hok]

theorem cycles_tick_err (lay : Layout) (inKey : Key) (f i : Nat) (sks : List (Sink × Int)) (gs : GState) (buf : Buf)
    (v : Int) (e : Err)
    (h : get gs inKey = some buf) (hv : (if i < bufLen buf then entryAt buf i else none) = some v)
    (herr : (sinksTick lay i v sks gs).2.2 = some e) :
    cycles lay inKey (f + 1) i sks gs = ((sinksTick lay i v sks gs).1, some e) := by
  rw [cycles]; simp only [h, hv, herr]

theorem entry_any (inp : List (Option Int)) (i : Nat) (hi : i < inp.length) :
    (if i < bufLen (Buf.any inp) then entryAt (Buf.any inp) i else none) = inp[i] := by
  simp [bufLen, entryAt, hi]

theorem specTrace_drop (node : Node) (st : Int) (inp : List (Option Int)) (i : Nat) (hi : i < inp.length) :
    specTrace node st i (inp.drop i) =
      match inp[i] with
      | none => specTrace node st (i + 1) (inp.drop (i + 1))
      | some v => (i, (node.step st v).2) :: specTrace node (node.step st v).1 (i + 1) (inp.drop (i + 1)) := by
  rw [List.drop_eq_getElem_cons hi]
  cases inp[i] with
  | none => simp [specTrace]
  | some v => simp [specTrace]

/-- **The loop invariant.**  From cycle `i` on, with the replay buffer `inp` under a key no sink writes, sinks
    with pairwise distinct keys and `Good` buffers: nothing throws, the replay buffer is kept, and every sink's
    read-back grows by the fold of its node over the remaining ticking cycles. -/
theorem cycles_spec (lay : Layout) (inKey : Key) (inp : List (Option Int)) (hlen : inp.length ≤ maxDenseCycles)
    (f : Nat) :
    ∀ (i : Nat) (sks : List (Sink × Int)) (gs : GState), 1 ≤ f → inp.length ≤ f + i →
      get gs inKey = some (.any inp) → inKey ∉ keysOf sks → (keysOf sks).Nodup →
      (∀ p ∈ sks, Good (isSp lay p.1) i (get gs p.1.key)) →
      (cycles lay inKey f i sks gs).2 = none ∧ get (cycles lay inKey f i sks gs).1 inKey = some (.any inp) ∧
      ∀ p ∈ sks, ∀ tr, readBuf (isSp lay p.1) (get gs p.1.key) = .ok tr →
        readBuf (isSp lay p.1) (get (cycles lay inKey f i sks gs).1 p.1.key)
          = .ok (tr ++ specTrace p.1.node p.2 i (inp.drop i)) := by
  induction f with
  | zero => intro i sks gs h1; omega
  | succ f ih =>
    intro i sks gs _ hfuel hin hnotin hnd hgood
    have hsize : bufLen (Buf.any inp) = inp.length := rfl
    by_cases hi : i < inp.length
    · have hentry := entry_any inp i hi
      cases hx : inp[i] with
      | none =>
        rw [hx] at hentry
        rw [cycles_notick lay inKey f i sks gs _ hin hentry, hsize]
        by_cases hnext : i + 1 < inp.length
        · simp only [hnext, ↓reduceIte]
          have := ih (i + 1) sks gs (by omega) (by omega) hin hnotin hnd (fun p hp => (hgood p hp).mono)
          refine ⟨this.1, this.2.1, ?_⟩
          intro p hp tr htr
          rw [this.2.2 p hp tr htr, specTrace_drop p.1.node p.2 inp i hi, hx]
        · simp only [hnext, ↓reduceIte]
          refine ⟨trivial, hin, ?_⟩
          intro p hp tr htr
          rw [specTrace_drop p.1.node p.2 inp i hi, hx]
          simp only
          rw [List.drop_eq_nil_of_le (by omega)]
          simp [specTrace, htr]
      | some v =>
        rw [hx] at hentry
        have hiM : i ≤ maxDenseCycles := by omega
        obtain ⟨hok, hadv, hper⟩ := sinksTick_good lay i v hiM sks gs hnd hgood
        rw [cycles_tick lay inKey f i sks gs _ v hin hentry hok, hsize, hadv]
        have hin' : get (sinksTick lay i v sks gs).1 inKey = some (.any inp) := by
          rw [sinksTick_other lay i v sks gs hnotin]; exact hin
        by_cases hnext : i + 1 < inp.length
        · simp only [hnext, ↓reduceIte]
          have hgood' : ∀ p ∈ advance v sks,
              Good (isSp lay p.1) (i + 1) (get (sinksTick lay i v sks gs).1 p.1.key) := by
            intro p hp
            obtain ⟨q, hq, e⟩ := List.mem_map.mp hp
            subst e
            exact (hper q hq).1
          have := ih (i + 1) (advance v sks) (sinksTick lay i v sks gs).1 (by omega) (by omega) hin'
            (by rw [keysOf_advance]; exact hnotin) (by rw [keysOf_advance]; exact hnd) hgood'
          refine ⟨this.1, this.2.1, ?_⟩
          intro p hp tr htr
          have hp' : (p.1, (p.1.node.step p.2 v).1) ∈ advance v sks := List.mem_map.mpr ⟨p, hp, rfl⟩
          have h2 := this.2.2 _ hp' _ ((hper p hp).2 tr htr)
          simp only at h2
          rw [h2, specTrace_drop p.1.node p.2 inp i hi, hx]
          simp
        · simp only [hnext, ↓reduceIte]
          refine ⟨trivial, hin', ?_⟩
          intro p hp tr htr
          rw [(hper p hp).2 tr htr, specTrace_drop p.1.node p.2 inp i hi, hx]
          simp only
          rw [List.drop_eq_nil_of_le (by omega)]
          simp [specTrace]
    · have hno : (if i < bufLen (Buf.any inp) then entryAt (Buf.any inp) i else none) = none := by
        simp [bufLen, hi]
      rw [cycles_notick lay inKey f i sks gs _ hin hno, hsize]
      have hnext : ¬ (i + 1 < inp.length) := by omega
      simp only [hnext, ↓reduceIte]
      refine ⟨trivial, hin, ?_⟩
      intro p hp tr htr
      rw [List.drop_eq_nil_of_le (by omega)]
      simp [specTrace, htr]

end HgVerif.GState
