import HgVerif.Model.SvcCtx
/-!
Helper lemmas for `Props/C07Svc.lean` (timing of the two hand-off modes): the simple SPEC of a client's publications
(`changesFrom`: the effective key changes of a script; `pubOf delay`: the tick each one causes), the state of a
Direct / deferred client between cycles (`dState`, `fState`, `Hand`), one cycle of the scan on such a state as coded
(`direct_cycle`, `deferred_cycle`, `deferred_cycle_last`) and the run loop by induction on the remaining script
(`direct_loop`, `deferred_loop`).
-/
set_option linter.unusedSimpArgs false
set_option linter.unusedVariables false

namespace HgVerif.SvcCtx

/-- the effective key changes of a script: (cycle index, key before, new key) -/
def changesFrom (cur : Option Nat) (i : Nat) : List (Option Nat) → List (Nat × Option Nat × Nat)
  | [] => []
  | none :: rest => changesFrom cur (i + 1) rest
  | some k :: rest => if cur = some k then changesFrom cur (i + 1) rest else (i, cur, k) :: changesFrom (some k) (i + 1) rest

def pubOf (delay : Nat) (c : Nat × Option Nat × Nat) : Pub := ⟨MIN_ST + c.1 + delay, c.2.1.toList, [c.2.2], [c.2.2]⟩

def countsOf : Option Nat → List (Nat × Nat)
  | none => []
  | some k => [(k, 1)]

/-- the state of a Direct client (capture ranked first) at the start of the cycle at time `t` (script position `i`) -/
def dState (t i : Nat) (cur : Option Nat) (sc ss so : Nat) (dl : Option (List Nat × List Nat)) (cycles : List Nat) (pubs : List Pub) : RS :=
  { sScript := t, sCap := sc, sSrc := ss, sObs := so, step := i, key := cur, prev := cur, counts := countsOf cur,
    pending := [], members := cur.toList, delta := dl, cycles := cycles, pubs := pubs }

def tokKey (cur : Option Nat) : Option (Option Nat) → Option Nat
  | some (some k) => some k
  | _ => cur

def tokPub (delay i : Nat) (cur : Option Nat) : Option (Option Nat) → List Pub
  | some (some k) => if cur = some k then [] else [pubOf delay (i, cur, k)]
  | _ => []

/-- one cycle of a Direct client: the script's slot is re-armed iff tokens remain -/
theorem direct_cycle (script : List (Option Nat)) (t i : Nat) (hi : i < script.length) (cur : Option Nat) (sc ss so : Nat)
    (hsc : sc < t) (hss : ss < t) (hso : so < t) (dl) (cycles pubs) :
    ∃ sc' ss' so' dl', sc' < t + 1 ∧ ss' < t + 1 ∧ so' < t + 1 ∧
      cycle true true script t (dState t i cur sc ss so dl cycles pubs) =
        { dState (t + 1) (i + 1) (tokKey cur script[i]?) sc' ss' so' dl' (cycles ++ [t])
            (pubs ++ (tokPub 0 i cur script[i]?).map (fun p => { p with time := t })) with
          sScript := if i + 1 < script.length then t + 1 else t } := by
  have h1 : sc ≠ t := by omega
  have h2 : ss ≠ t := by omega
  have h3 : so ≠ t := by omega
  have h4 : sc ≤ t := by omega
  have h5 : ss ≤ t := by omega
  have h6 : so ≤ t := by omega
  rcases hs : script[i]? with _ | tok
  · rw [List.getElem?_eq_none_iff] at hs; omega
  · cases tok with
    | none =>
      refine ⟨sc, ss, so, none, by omega, by omega, by omega, ?_⟩
      by_cases hm : i + 1 < script.length <;>
        simp [cycle, dState, evalScript, hs, hm, MIN_TD, sched, h1, h2, h3, tokKey, tokPub]
    | some k =>
      by_cases hk : cur = some k
      · refine ⟨t, ss, so, none, by omega, by omega, by omega, ?_⟩
        subst hk
        by_cases hm : i + 1 < script.length <;>
          simp [cycle, dState, evalScript, evalCapture, hs, hm, MIN_TD, sched, h1, h2, h3, h4, tokKey, tokPub, countsOf]
      · cases cur with
        | none =>
          refine ⟨t, t, t, some ([], [k]), by omega, by omega, by omega, ?_⟩
          by_cases hm : i + 1 < script.length <;>
            simp [cycle, dState, evalScript, evalCapture, evalSource, evalObserver, enqueue, applyChange, countOf, setCount, hs, hm,
              MIN_TD, sched, h1, h2, h3, h4, h5, h6, tokKey, tokPub, countsOf, pubOf]
        | some p =>
          have hpk : p ≠ k := fun h => hk (by rw [h])
          refine ⟨t, t, t, some ([p], [k]), by omega, by omega, by omega, ?_⟩
          by_cases hm : i + 1 < script.length <;>
            simp [cycle, dState, evalScript, evalCapture, evalSource, evalObserver, enqueue, applyChange, countOf, setCount, hs, hm,
              MIN_TD, sched, h1, h2, h3, h4, h5, h6, tokKey, tokPub, countsOf, pubOf, hk, hpk]

theorem nextTime_script_only (s : RS) (t : Nat) (h1 : s.sCap ≤ t) (h2 : s.sSrc ≤ t) (h3 : s.sObs ≤ t) :
    nextTime s t = if s.sScript > t then some s.sScript else none := by
  have a1 : ¬ s.sCap > t := by omega
  have a2 : ¬ s.sSrc > t := by omega
  have a3 : ¬ s.sObs > t := by omega
  by_cases h : s.sScript > t <;> simp [nextTime, minOpt, h, a1, a2, a3]

theorem changes_step (d : Nat) (cur : Option Nat) (i : Nat) (script : List (Option Nat)) (x : Option Nat)
    (h : script[i]? = some x) :
    (changesFrom cur i (script.drop i)).map (pubOf d) =
      tokPub d i cur (some x) ++ (changesFrom (tokKey cur (some x)) (i + 1) (script.drop (i + 1))).map (pubOf d) := by
  have hlt : i < script.length := by
    rcases Nat.lt_or_ge i script.length with hl | hg
    · exact hl
    · rw [List.getElem?_eq_none hg] at h; cases h
  have hx : script[i] = x := by
    rw [List.getElem?_eq_getElem hlt] at h; exact Option.some.inj h
  rw [List.drop_eq_getElem_cons hlt, hx]
  cases x with
  | none => simp [changesFrom, tokPub, tokKey]
  | some k =>
    by_cases hk : cur = some k <;> simp [changesFrom, tokPub, tokKey, hk]

theorem range_shift (t m : Nat) : (List.range (m + 1)).map (t + ·) = t :: (List.range m).map (t + 1 + ·) := by
  rw [List.range_succ_eq_map]
  simp only [List.map_cons, List.map_map, Nat.add_zero, List.cons.injEq, true_and]
  apply List.map_congr_left
  intro a _
  simp only [Function.comp_apply]
  omega

/-- the loop of a Direct client from script position `i` (time `MIN_ST + i`) with `m` more tokens after this one -/
theorem direct_loop (script : List (Option Nat)) (end_ : Nat) : ∀ (m t i fuel : Nat) (cur : Option Nat) (sc ss so : Nat)
    (dl : Option (List Nat × List Nat)) (cycles : List Nat) (pubs : List Pub),
    i + m + 1 = script.length → m + 1 ≤ fuel → t + m < end_ → t = MIN_ST + i → sc < t → ss < t → so < t →
    (loop true true script end_ fuel t (dState t i cur sc ss so dl cycles pubs)).cycles =
        cycles ++ (List.range (m + 1)).map (t + ·) ∧
    (loop true true script end_ fuel t (dState t i cur sc ss so dl cycles pubs)).pubs =
        pubs ++ (changesFrom cur i (script.drop i)).map (pubOf 0)
  | m, t, i, 0, _, _, _, _, _, _, _, _, hf, _, _, _, _, _ => by omega
  | m, t, i, fuel + 1, cur, sc, ss, so, dl, cycles, pubs, hlen, hf, hend, ht, hsc, hss, hso => by
    have hi : i < script.length := by omega
    obtain ⟨sc', ss', so', dl', hsc', hss', hso', hc⟩ := direct_cycle script t i hi cur sc ss so hsc hss hso dl cycles pubs
    obtain ⟨x, hx⟩ : ∃ x, script[i]? = some x := ⟨script[i], List.getElem?_eq_getElem hi⟩
    have hpub : (tokPub 0 i cur script[i]?).map (fun p => { p with time := t }) = tokPub 0 i cur (some x) := by
      rw [hx]
      cases x with
      | none => simp [tokPub]
      | some k => by_cases hk : cur = some k <;> simp [tokPub, hk, pubOf, ht]
    unfold loop
    simp only [hc]
    rw [nextTime_script_only _ t (by simp [dState]; omega) (by simp [dState]; omega) (by simp [dState]; omega)]
    cases m with
    | zero =>
      have hm : ¬ (i + 1 < script.length) := by omega
      simp [hm, dState, hpub, changes_step 0 cur i script x hx, show script.drop (i + 1) = [] from List.drop_eq_nil_of_le (by omega),
        changesFrom]
    | succ m =>
      have hm : i + 1 < script.length := by omega
      have hlt : t + 1 < end_ := by omega
      have ih := direct_loop script end_ m (t + 1) (i + 1) fuel (tokKey cur script[i]?) sc' ss' so' dl' (cycles ++ [t])
        (pubs ++ (tokPub 0 i cur script[i]?).map (fun p => { p with time := t })) (by omega) (by omega) (by omega)
        (by simp [MIN_ST] at ht ⊢; omega) hsc' hss' hso'
      have hst : ({ dState (t + 1) (i + 1) (tokKey cur script[i]?) sc' ss' so' dl' (cycles ++ [t])
            (pubs ++ (tokPub 0 i cur script[i]?).map (fun p => { p with time := t })) with
          sScript := if i + 1 < script.length then t + 1 else t } : RS) =
          dState (t + 1) (i + 1) (tokKey cur script[i]?) sc' ss' so' dl' (cycles ++ [t])
            (pubs ++ (tokPub 0 i cur script[i]?).map (fun p => { p with time := t })) := by
        simp [hm, dState]
      rw [hst]
      have hgt : (dState (t + 1) (i + 1) (tokKey cur script[i]?) sc' ss' so' dl' (cycles ++ [t])
            (pubs ++ (tokPub 0 i cur script[i]?).map (fun p => { p with time := t }))).sScript > t := by simp [dState]
      simp only [hgt, if_true]
      have hs2 : (dState (t + 1) (i + 1) (tokKey cur script[i]?) sc' ss' so' dl' (cycles ++ [t])
            (pubs ++ (tokPub 0 i cur script[i]?).map (fun p => { p with time := t }))).sScript = t + 1 := rfl
      rw [hs2]
      simp only [hlt, if_true]
      refine ⟨?_, ?_⟩
      · rw [ih.1, range_shift t (m + 1), List.append_assoc]; rfl
      · rw [ih.2, hpub, changes_step 0 cur i script x hx, hx, List.append_assoc]

/-! ### deferred, source ranked first -/

/-- the hand-off of a key change `pc -> k` observed at `ob` -/
def batch (pc : Option Nat) (k ob : Nat) : List Change :=
  match pc with
  | some p => [⟨p, ob, false⟩, ⟨k, ob, true⟩]
  | none => [⟨k, ob, true⟩]

/-- a deferred client (source ranked first) at the start of the cycle at `t`: the capture node holds `cur`, the source
    has published `pc` and holds the hand-off `pd` -/
def fState (sS i : Nat) (cur pc : Option Nat) (pd : List Change) (sc ss so : Nat) (dl : Option (List Nat × List Nat))
    (cycles : List Nat) (pubs : List Pub) : RS :=
  { sScript := sS, sCap := sc, sSrc := ss, sObs := so, step := i, key := cur, prev := cur, counts := countsOf pc,
    pending := pd, members := pc.toList, delta := dl, cycles := cycles, pubs := pubs }

def tokBatch (t : Nat) (cur : Option Nat) : Option (Option Nat) → List Change
  | some (some k) => if cur = some k then [] else batch cur k t
  | _ => []

/-- script due, nothing pending: nothing is published; an effective change leaves its hand-off for `t + 1` -/
theorem deferred_cycle_idle (script : List (Option Nat)) (t i : Nat) (hi : i < script.length) (cur : Option Nat) (sc ss so : Nat)
    (hsc : sc < t) (hss : ss < t) (hso : so < t) (dl) (cycles pubs) :
    ∃ sc' so' dl', sc' < t + 1 ∧ so' < t + 1 ∧
      cycle false false script t (fState t i cur cur [] sc ss so dl cycles pubs) =
        fState (if i + 1 < script.length then t + 1 else t) (i + 1) (tokKey cur script[i]?) cur (tokBatch t cur script[i]?) sc'
          (if tokBatch t cur script[i]? = [] then ss else t + 1) so' dl' (cycles ++ [t]) pubs := by
  have h1 : sc ≠ t := by omega
  have h2 : ss ≠ t := by omega
  have h3 : so ≠ t := by omega
  have h4 : sc ≤ t := by omega
  have h5 : ss ≤ t := by omega
  rcases hs : script[i]? with _ | tok
  · rw [List.getElem?_eq_none_iff] at hs; omega
  · cases tok with
    | none =>
      refine ⟨sc, so, none, by omega, by omega, ?_⟩
      by_cases hm : i + 1 < script.length <;>
        simp [cycle, fState, evalScript, hs, hm, MIN_TD, sched, h1, h2, h3, tokKey, tokBatch]
    | some k =>
      by_cases hk : cur = some k
      · refine ⟨t, so, none, by omega, by omega, ?_⟩
        subst hk
        by_cases hm : i + 1 < script.length <;>
          simp [cycle, fState, evalScript, evalCapture, hs, hm, MIN_TD, sched, h1, h2, h3, h4, tokKey, tokBatch, countsOf]
      · cases cur with
        | none =>
          refine ⟨t, so, none, by omega, by omega, ?_⟩
          by_cases hm : i + 1 < script.length <;>
            simp [cycle, fState, evalScript, evalCapture, enqueue, hs, hm, MIN_TD, sched, h1, h2, h3, h4, h5, tokKey, tokBatch,
              countsOf, batch]
        | some p =>
          refine ⟨t, so, none, by omega, by omega, ?_⟩
          by_cases hm : i + 1 < script.length <;>
            simp [cycle, fState, evalScript, evalCapture, enqueue, hs, hm, MIN_TD, sched, h1, h2, h3, h4, h5, tokKey, tokBatch,
              countsOf, batch, hk]


/-- script due, a hand-off pending: it is published now (`t`); an effective change leaves the next one for `t + 1` -/
theorem deferred_cycle_pending (script : List (Option Nat)) (t i : Nat) (hi : i < script.length) (k : Nat) (pc : Option Nat)
    (hpc : pc ≠ some k) (ob : Nat) (sc so : Nat) (hsc : sc < t) (hso : so < t) (dl) (cycles pubs) :
    ∃ sc' ss' dl', sc' < t + 1 ∧ (tokBatch t (some k) script[i]? = [] → ss' < t + 1) ∧
      (tokBatch t (some k) script[i]? ≠ [] → ss' = t + 1) ∧
      cycle false false script t (fState t i (some k) pc (batch pc k ob) sc t so dl cycles pubs) =
        fState (if i + 1 < script.length then t + 1 else t) (i + 1) (tokKey (some k) script[i]?) (some k)
          (tokBatch t (some k) script[i]?) sc' ss' t dl' (cycles ++ [t]) (pubs ++ [⟨t, pc.toList, [k], [k]⟩]) := by
  have h1 : sc ≠ t := by omega
  have h3 : so ≠ t := by omega
  have h4 : sc ≤ t := by omega
  have h6 : so ≤ t := by omega
  rcases hs : script[i]? with _ | tok
  · rw [List.getElem?_eq_none_iff] at hs; omega
  · cases tok with
    | none =>
      refine ⟨sc, t, some (pc.toList, [k]), by omega, by intro _; omega, by intro h; simp [tokBatch] at h, ?_⟩
      cases pc with
      | none =>
        by_cases hm : i + 1 < script.length <;>
          simp [cycle, fState, evalScript, evalSource, evalObserver, applyChange, countOf, setCount, hs, hm, MIN_TD, sched, h1, h3,
            h6, tokKey, tokBatch, batch, countsOf]
      | some p =>
        have hpk : p ≠ k := fun h => hpc (by rw [h])
        by_cases hm : i + 1 < script.length <;>
          simp [cycle, fState, evalScript, evalSource, evalObserver, applyChange, countOf, setCount, hs, hm, MIN_TD, sched, h1, h3,
            h6, tokKey, tokBatch, batch, countsOf, hpk]
    | some k' =>
      by_cases hk : k = k'
      · subst hk
        refine ⟨t, t, some (pc.toList, [k]), by omega, by intro _; omega, by intro h; simp [tokBatch] at h, ?_⟩
        cases pc with
        | none =>
          by_cases hm : i + 1 < script.length <;>
            simp [cycle, fState, evalScript, evalSource, evalCapture, evalObserver, applyChange, countOf, setCount, hs, hm, MIN_TD,
              sched, h1, h3, h4, h6, tokKey, tokBatch, batch, countsOf]
        | some p =>
          have hpk : p ≠ k := fun h => hpc (by rw [h])
          by_cases hm : i + 1 < script.length <;>
            simp [cycle, fState, evalScript, evalSource, evalCapture, evalObserver, applyChange, countOf, setCount, hs, hm, MIN_TD,
              sched, h1, h3, h4, h6, tokKey, tokBatch, batch, countsOf, hpk]
      · have hk' : ¬ (some k = some k') := fun h => hk (Option.some.inj h)
        refine ⟨t, t + 1, some (pc.toList, [k]), by omega, by intro h; simp [tokBatch, hk', batch] at h, by intro _; rfl, ?_⟩
        cases pc with
        | none =>
          by_cases hm : i + 1 < script.length <;>
            simp [cycle, fState, evalScript, evalSource, evalCapture, evalObserver, enqueue, applyChange, countOf, setCount, hs, hm,
              MIN_TD, sched, h1, h3, h4, h6, tokKey, tokBatch, batch, countsOf, hk, hk']
        | some p =>
          have hpk : p ≠ k := fun h => hpc (by rw [h])
          by_cases hm : i + 1 < script.length <;>
            simp [cycle, fState, evalScript, evalSource, evalCapture, evalObserver, enqueue, applyChange, countOf, setCount, hs, hm,
              MIN_TD, sched, h1, h3, h4, h6, tokKey, tokBatch, batch, countsOf, hk, hk', hpk]

/-- script exhausted, a hand-off pending: it is published now and nothing is scheduled any more -/
theorem deferred_cycle_last (script : List (Option Nat)) (t sS i : Nat) (hsS : sS < t) (k : Nat) (pc : Option Nat)
    (hpc : pc ≠ some k) (ob : Nat) (sc so : Nat) (hsc : sc < t) (hso : so < t) (dl) (cycles pubs) :
    ∃ dl', cycle false false script t (fState sS i (some k) pc (batch pc k ob) sc t so dl cycles pubs) =
        fState sS i (some k) (some k) [] sc t t dl' (cycles ++ [t]) (pubs ++ [⟨t, pc.toList, [k], [k]⟩]) := by
  have h0 : sS ≠ t := by omega
  have h1 : sc ≠ t := by omega
  have h3 : so ≠ t := by omega
  have h6 : so ≤ t := by omega
  refine ⟨some (pc.toList, [k]), ?_⟩
  cases pc with
  | none =>
    simp [cycle, fState, evalSource, evalObserver, applyChange, countOf, setCount, sched, h0, h1, h3, h6, batch, countsOf]
  | some p =>
    have hpk : p ≠ k := fun h => hpc (by rw [h])
    simp [cycle, fState, evalSource, evalObserver, applyChange, countOf, setCount, sched, h0, h1, h3, h6, batch, countsOf, hpk]


/-- where the hand-off stands at the start of the cycle at `t` -/
inductive Hand (t : Nat) (cur pc : Option Nat) (pd : List Change) (ss : Nat) : Prop where
  | idle : pd = [] → pc = cur → ss < t → Hand t cur pc pd ss
  | pending (k ob : Nat) : cur = some k → pc ≠ some k → pd = batch pc k ob → ss = t → Hand t cur pc pd ss

/-- what the source publishes at `t` -/
def handPub (t : Nat) (cur pc : Option Nat) : List Change → List Pub
  | [] => []
  | _ :: _ => match cur with
    | some k => [⟨t, pc.toList, [k], [k]⟩]
    | none => []

theorem batch_ne_nil (pc : Option Nat) (k ob : Nat) : batch pc k ob ≠ [] := by
  cases pc <;> simp [batch]

theorem hand_next (t : Nat) (cur : Option Nat) (tok : Option (Option Nat)) (ss' : Nat)
    (h1 : tokBatch t cur tok = [] → ss' < t + 1) (h2 : tokBatch t cur tok ≠ [] → ss' = t + 1) :
    Hand (t + 1) (tokKey cur tok) cur (tokBatch t cur tok) ss' := by
  rcases tok with _ | _ | k
  · exact .idle rfl rfl (h1 rfl)
  · exact .idle rfl rfl (h1 rfl)
  · by_cases hk : cur = some k
    · have : tokBatch t cur (some (some k)) = [] := by simp [tokBatch, hk]
      exact .idle this (by simp [tokKey, hk]) (h1 this)
    · have hb : tokBatch t cur (some (some k)) = batch cur k t := by simp [tokBatch, hk]
      exact .pending k t rfl hk hb (h2 (by rw [hb]; exact batch_ne_nil _ _ _))

theorem handPub_next (t i : Nat) (ht : t = MIN_ST + i) (cur : Option Nat) (tok : Option (Option Nat)) :
    handPub (t + 1) (tokKey cur tok) cur (tokBatch t cur tok) = tokPub 1 i cur tok := by
  rcases tok with _ | _ | k
  · rfl
  · rfl
  · by_cases hk : cur = some k
    · simp [tokBatch, tokPub, hk, handPub]
    · cases cur <;> simp_all [tokBatch, tokPub, handPub, batch, tokKey, pubOf]

/-- one cycle of a deferred client while the script runs: the pending hand-off (if any) is published now, an effective
    change leaves its hand-off for the next cycle -/
theorem deferred_cycle (script : List (Option Nat)) (t i : Nat) (hi : i < script.length) (cur pc : Option Nat) (pd : List Change)
    (sc ss so : Nat) (hsc : sc < t) (hso : so < t) (hh : Hand t cur pc pd ss) (dl) (cycles pubs) :
    ∃ sc' ss' so' dl', sc' < t + 1 ∧ so' < t + 1 ∧ Hand (t + 1) (tokKey cur script[i]?) cur (tokBatch t cur script[i]?) ss' ∧
      cycle false false script t (fState t i cur pc pd sc ss so dl cycles pubs) =
        fState (if i + 1 < script.length then t + 1 else t) (i + 1) (tokKey cur script[i]?) cur (tokBatch t cur script[i]?)
          sc' ss' so' dl' (cycles ++ [t]) (pubs ++ handPub t cur pc pd) := by
  cases hh with
  | idle h1 h2 h3 =>
    subst h1; subst h2
    obtain ⟨sc', so', dl', a, b, c⟩ := deferred_cycle_idle script t i hi pc sc ss so hsc h3 hso dl cycles pubs
    refine ⟨sc', (if tokBatch t pc script[i]? = [] then ss else t + 1), so', dl', a, b, hand_next t pc _ _ ?_ ?_, ?_⟩
    · intro h; simp only [h, if_true]; omega
    · intro h; simp only [h, if_false]
    · rw [c]; simp [handPub]
  | pending k ob h1 h2 h3 h4 =>
    rw [h1, h3, h4]
    obtain ⟨sc', ss', dl', a, b1, b2, c⟩ := deferred_cycle_pending script t i hi k pc h2 ob sc so hsc hso dl cycles pubs
    refine ⟨sc', ss', t, dl', a, by omega, hand_next t (some k) _ _ b1 b2, ?_⟩
    rw [c]
    have : handPub t (some k) pc (batch pc k ob) = [⟨t, pc.toList, [k], [k]⟩] := by cases pc <;> simp [batch, handPub]
    rw [this]

theorem nextTime_fState (t sS i : Nat) (cur pc : Option Nat) (pd : List Change) (sc ss so : Nat) (dl) (cycles pubs)
    (h0 : sS ≤ t + 1) (h1 : sc ≤ t) (h2 : ss ≤ t + 1) (h3 : so ≤ t) :
    nextTime (fState sS i cur pc pd sc ss so dl cycles pubs) t = if sS = t + 1 ∨ ss = t + 1 then some (t + 1) else none := by
  have a1 : ¬ sc > t := by omega
  have a3 : ¬ so > t := by omega
  by_cases b0 : sS = t + 1 <;> by_cases b2 : ss = t + 1
  · simp [nextTime, minOpt, fState, b0, b2, a1, a3]
  · have : ¬ ss > t := by omega
    simp [nextTime, minOpt, fState, b0, b2, a1, a3, this]
  · have : ¬ sS > t := by omega
    simp [nextTime, minOpt, fState, b0, b2, a1, a3, this]
  · have : ¬ sS > t := by omega
    have : ¬ ss > t := by omega
    simp [nextTime, minOpt, fState, b0, b2, a1, a3, *]


theorem tokBatch_nil_iff (t i : Nat) (cur : Option Nat) (tok : Option (Option Nat)) :
    tokBatch t cur tok = [] ↔ tokPub 1 i cur tok = [] := by
  rcases tok with _ | _ | k
  · simp [tokBatch, tokPub]
  · simp [tokBatch, tokPub]
  · by_cases hk : cur = some k
    · simp [tokBatch, tokPub, hk]
    · simp [tokBatch, tokPub, hk, batch_ne_nil]

/-- the loop of a deferred client (source ranked first) from script position `i` with `m` more tokens after this one -/
theorem deferred_loop (script : List (Option Nat)) (end_ : Nat) : ∀ (m t i fuel : Nat) (cur pc : Option Nat) (pd : List Change)
    (sc ss so : Nat) (dl : Option (List Nat × List Nat)) (cycles : List Nat) (pubs : List Pub),
    i + m + 1 = script.length → m + 2 ≤ fuel → t + m + 1 < end_ → t = MIN_ST + i → sc < t → so < t → Hand t cur pc pd ss →
    (loop false false script end_ fuel t (fState t i cur pc pd sc ss so dl cycles pubs)).pubs =
        pubs ++ handPub t cur pc pd ++ (changesFrom cur i (script.drop i)).map (pubOf 1)
  | m, t, i, 0, _, _, _, _, _, _, _, _, _, _, hf, _, _, _, _, _ => by omega
  | m, t, i, fuel + 1, cur, pc, pd, sc, ss, so, dl, cycles, pubs, hlen, hf, hend, ht, hsc, hso, hh => by
    have hi : i < script.length := by omega
    obtain ⟨sc', ss', so', dl', hsc', hso', hh', hc⟩ := deferred_cycle script t i hi cur pc pd sc ss so hsc hso hh dl cycles pubs
    obtain ⟨x, hx⟩ : ∃ x, script[i]? = some x := ⟨script[i], List.getElem?_eq_getElem hi⟩
    have hss' : ss' ≤ t + 1 := by
      cases hh' with
      | idle _ _ h => omega
      | pending _ _ _ _ _ h => omega
    unfold loop
    simp only [hc]
    rw [nextTime_fState t _ _ _ _ _ _ _ _ _ _ _ (by split <;> omega) (by omega) hss' (by omega)]
    cases m with
    | zero =>
      have hm : ¬ (i + 1 < script.length) := by omega
      have hdrop : script.drop (i + 1) = [] := List.drop_eq_nil_of_le (by omega)
      have hspec : (changesFrom cur i (script.drop i)).map (pubOf 1) = tokPub 1 i cur (some x) := by
        rw [changes_step 1 cur i script x hx, hdrop]; simp [changesFrom]
      simp only [hm, if_false]
      have hne : t ≠ t + 1 := by omega
      simp only [hne, false_or]
      by_cases hb : tokBatch t cur script[i]? = []
      · -- nothing handed off by the last token: the run ends here
        have hlt : ss' < t + 1 := by
          cases hh' with
          | idle _ _ h => exact h
          | pending k ob _ _ h3 _ => exact absurd (h3 ▸ hb) (batch_ne_nil _ _ _)
        have : ss' ≠ t + 1 := by omega
        simp only [this, if_false]
        rw [hspec, ← hx, (tokBatch_nil_iff t i cur script[i]?).mp hb]
        simp [fState]
      · -- the last token's hand-off: one more cycle
        obtain ⟨k, ob, hk1, hk2, hk3, hk4⟩ : ∃ k ob, tokKey cur script[i]? = some k ∧ cur ≠ some k ∧
            tokBatch t cur script[i]? = batch cur k ob ∧ ss' = t + 1 := by
          cases hh' with
          | idle h _ _ => exact absurd h hb
          | pending k ob a b c d => exact ⟨k, ob, a, b, c, d⟩
        simp only [hk4, if_true]
        have hlt : t + 1 < end_ := by omega
        simp only [hlt, if_true]
        obtain ⟨fuel', rfl⟩ : ∃ f, fuel = f + 1 := ⟨fuel - 1, by omega⟩
        unfold loop
        rw [hk1, hk3]
        obtain ⟨dl2, hc2⟩ := deferred_cycle_last script (t + 1) t (i + 1) (by omega) k cur hk2 ob sc' so' hsc' hso' dl'
          (cycles ++ [t]) (pubs ++ handPub t cur pc pd)
        simp only [hc2]
        rw [nextTime_fState (t + 1) _ _ _ _ _ _ _ _ _ _ _ (by omega) (by omega) (by omega) (by omega)]
        have e1 : t ≠ t + 1 + 1 := by omega
        have e2 : t + 1 ≠ t + 1 + 1 := by omega
        simp only [e1, e2, or_self, if_false]
        rw [hspec, ← hx, ← handPub_next t i ht cur script[i]?, hk1, hk3]
        have : handPub (t + 1) (some k) cur (batch cur k ob) = [⟨t + 1, cur.toList, [k], [k]⟩] := by
          cases cur <;> simp [batch, handPub]
        rw [this]
        simp [fState]
    | succ m =>
      have hm : i + 1 < script.length := by omega
      have hlt : t + 1 < end_ := by omega
      simp only [hm, if_true, true_or, hlt]
      have ih := deferred_loop script end_ m (t + 1) (i + 1) fuel (tokKey cur script[i]?) cur (tokBatch t cur script[i]?) sc' ss' so'
        dl' (cycles ++ [t]) (pubs ++ handPub t cur pc pd) (by omega) (by omega) (by omega) (by simp [MIN_ST] at ht ⊢; omega)
        hsc' hso' hh'
      rw [ih, handPub_next t i ht, hx, changes_step 1 cur i script x hx]
      simp [List.append_assoc]

end HgVerif.SvcCtx
