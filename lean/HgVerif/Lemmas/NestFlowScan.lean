import HgVerif.Props.C06Run
/-! Generic facts about the scan of `Model/Sched.lean` used by the nested/inlined comparison
(`Props/C09Flow.lean`): splitting a scan, running two scans in lockstep, scans in which nothing is due,
the effect of a list of same-cycle requests, uniqueness of the cached next time. -/
namespace HgVerif.Sched

theorem cycle_fresh {σ : Type} (fx : Bool) (β : Beh σ) (n : Nat) (t : Time) (g : G) (u : σ) (hc : g.cursor = 0) :
    cycle fx β n t g u =
      scanFrom β t n 0 { g with now := t, failed := false, next := none, cursor := 0 } u [] := by
  cases fx <;> simp [cycle, resuming, hc]

/-- the scan never reads the cursor it is handed -/
theorem scanFrom_cursor_irrel {σ : Type} (β : Beh σ) (t : Time) (fuel i : Nat) (g : G) (u : σ) (ev : List Nat) (c : Nat) :
    scanFrom β t fuel i { g with cursor := c } u ev = scanFrom β t fuel i g u ev := by
  cases fuel with
  | zero => rfl
  | succ fuel => unfold scanFrom; rfl

theorem scanFrom_eval_fail_eq {σ : Type} (β : Beh σ) (t : Time) (fuel i : Nat) (g : G) (u : σ) (ev : List Nat)
    (hs : slotOf g i = t) (hok : (β.eval i t u).ok = false) :
    scanFrom β t (fuel + 1) i g u ev =
      { g := keepUnvisited t i { ((β.eval i t u).reqs.foldl scheduleNode { g with cursor := i }) with failed := true },
        st := (β.eval i t u).st, evaluated := ev ++ [i], ok := false } := by
  have hs' : g.slots.getD i 0 = t := hs
  rw [scanFrom]; simp only [hs', ↓reduceIte, hok]; rfl

/-- a scan of `a + b` positions is a scan of `a` positions followed by a scan of `b` positions -/
theorem scanFrom_add {σ : Type} (β : Beh σ) (t : Time) (a b i : Nat) (g : G) (u : σ) (ev : List Nat) :
    scanFrom β t (a + b) i g u ev =
      if (scanFrom β t a i g u ev).ok then
        scanFrom β t b (i + a) (scanFrom β t a i g u ev).g (scanFrom β t a i g u ev).st (scanFrom β t a i g u ev).evaluated
      else scanFrom β t a i g u ev := by
  induction a generalizing i g u ev with
  | zero =>
    rw [Nat.zero_add, scanFrom_zero]
    simp only [↓reduceIte, Nat.add_zero]
    exact (scanFrom_cursor_irrel β t b i g u ev 0).symm
  | succ a ih =>
    have e : a + 1 + b = (a + b) + 1 := by omega
    have e2 : i + (a + 1) = i + 1 + a := by omega
    rw [e, e2]
    rcases Nat.lt_trichotomy (slotOf g i) t with hs | hs | hs
    · rw [scanFrom_skip β t (a + b) i g u ev hs, scanFrom_skip β t a i g u ev hs]; exact ih _ _ _ _
    · cases hrok : (β.eval i t u).ok with
      | true =>
        rw [scanFrom_eval_ok β t (a + b) i g u ev hs hrok, scanFrom_eval_ok β t a i g u ev hs hrok]; exact ih _ _ _ _
      | false =>
        rw [scanFrom_eval_fail_eq β t (a + b) i g u ev hs hrok, scanFrom_eval_fail_eq β t a i g u ev hs hrok]
        simp
    · rw [scanFrom_fold β t (a + b) i g u ev hs, scanFrom_fold β t a i g u ev hs]; exact ih _ _ _ _

/-- two scans in lockstep: positions `a0 + j` of one and `b0 + j` of the other carry the same slot and a
    relation `R` is kept by every kind of step -/
theorem scan_lockstep {α β : Type} (βA : Beh α) (βB : Beh β) (t : Time) (a0 b0 N : Nat)
    (R : Nat → G → α → List Nat → G → β → List Nat → Prop)
    (hslot : ∀ j gA uA eA gB uB eB, j < N → R j gA uA eA gB uB eB → slotOf gA (a0 + j) = slotOf gB (b0 + j))
    (hskip : ∀ j gA uA eA gB uB eB, j < N → R j gA uA eA gB uB eB → slotOf gA (a0 + j) < t →
        R (j + 1) { gA with cursor := a0 + j } uA eA { gB with cursor := b0 + j } uB eB)
    (hfold : ∀ j gA uA eA gB uB eB, j < N → R j gA uA eA gB uB eB → t < slotOf gA (a0 + j) →
        R (j + 1) { gA with next := omin gA.next (slotOf gA (a0 + j)), cursor := a0 + j } uA eA
                  { gB with next := omin gB.next (slotOf gB (b0 + j)), cursor := b0 + j } uB eB)
    (heval : ∀ j gA uA eA gB uB eB, j < N → R j gA uA eA gB uB eB → slotOf gA (a0 + j) = t →
        (βA.eval (a0 + j) t uA).ok = true ∧ (βB.eval (b0 + j) t uB).ok = true ∧
        R (j + 1) ((βA.eval (a0 + j) t uA).reqs.foldl scheduleNode { gA with cursor := a0 + j })
                  (βA.eval (a0 + j) t uA).st (eA ++ [a0 + j])
                  ((βB.eval (b0 + j) t uB).reqs.foldl scheduleNode { gB with cursor := b0 + j })
                  (βB.eval (b0 + j) t uB).st (eB ++ [b0 + j]))
    (hzero : ∀ gA uA eA gB uB eB, R N gA uA eA gB uB eB → R N { gA with cursor := 0 } uA eA { gB with cursor := 0 } uB eB)
    (fuel j : Nat) (hj : j + fuel = N) (gA : G) (uA : α) (eA : List Nat) (gB : G) (uB : β) (eB : List Nat)
    (hR : R j gA uA eA gB uB eB) :
    (scanFrom βA t fuel (a0 + j) gA uA eA).ok = true ∧ (scanFrom βB t fuel (b0 + j) gB uB eB).ok = true ∧
    R N (scanFrom βA t fuel (a0 + j) gA uA eA).g (scanFrom βA t fuel (a0 + j) gA uA eA).st
        (scanFrom βA t fuel (a0 + j) gA uA eA).evaluated
        (scanFrom βB t fuel (b0 + j) gB uB eB).g (scanFrom βB t fuel (b0 + j) gB uB eB).st
        (scanFrom βB t fuel (b0 + j) gB uB eB).evaluated := by
  induction fuel generalizing j gA uA eA gB uB eB with
  | zero =>
    have : j = N := by omega
    subst this
    rw [scanFrom_zero, scanFrom_zero]
    exact ⟨rfl, rfl, hzero _ _ _ _ _ _ hR⟩
  | succ fuel ih =>
    have hjN : j < N := by omega
    have hsl := hslot j gA uA eA gB uB eB hjN hR
    rcases Nat.lt_trichotomy (slotOf gA (a0 + j)) t with hs | hs | hs
    · rw [scanFrom_skip βA t fuel (a0 + j) gA uA eA hs, scanFrom_skip βB t fuel (b0 + j) gB uB eB (by rw [← hsl]; exact hs)]
      exact ih (j + 1) (by omega) _ _ _ _ _ _ (hskip j gA uA eA gB uB eB hjN hR hs)
    · obtain ⟨okA, okB, hR'⟩ := heval j gA uA eA gB uB eB hjN hR hs
      rw [scanFrom_eval_ok βA t fuel (a0 + j) gA uA eA hs okA,
        scanFrom_eval_ok βB t fuel (b0 + j) gB uB eB (by rw [← hsl]; exact hs) okB]
      exact ih (j + 1) (by omega) _ _ _ _ _ _ hR'
    · rw [scanFrom_fold βA t fuel (a0 + j) gA uA eA hs, scanFrom_fold βB t fuel (b0 + j) gB uB eB (by rw [← hsl]; exact hs)]
      exact ih (j + 1) (by omega) _ _ _ _ _ _ (hfold j gA uA eA gB uB eB hjN hR hs)

/-- an invariant of one scan -/
theorem scan_inv {α : Type} (βA : Beh α) (t : Time) (a0 N : Nat)
    (P : Nat → G → α → List Nat → Prop)
    (hskip : ∀ j gA uA eA, j < N → P j gA uA eA → slotOf gA (a0 + j) < t → P (j + 1) { gA with cursor := a0 + j } uA eA)
    (hfold : ∀ j gA uA eA, j < N → P j gA uA eA → t < slotOf gA (a0 + j) →
        P (j + 1) { gA with next := omin gA.next (slotOf gA (a0 + j)), cursor := a0 + j } uA eA)
    (heval : ∀ j gA uA eA, j < N → P j gA uA eA → slotOf gA (a0 + j) = t →
        (βA.eval (a0 + j) t uA).ok = true ∧
        P (j + 1) ((βA.eval (a0 + j) t uA).reqs.foldl scheduleNode { gA with cursor := a0 + j })
                  (βA.eval (a0 + j) t uA).st (eA ++ [a0 + j]))
    (hzero : ∀ gA uA eA, P N gA uA eA → P N { gA with cursor := 0 } uA eA)
    (fuel j : Nat) (hj : j + fuel = N) (gA : G) (uA : α) (eA : List Nat) (hP : P j gA uA eA) :
    (scanFrom βA t fuel (a0 + j) gA uA eA).ok = true ∧
    P N (scanFrom βA t fuel (a0 + j) gA uA eA).g (scanFrom βA t fuel (a0 + j) gA uA eA).st
        (scanFrom βA t fuel (a0 + j) gA uA eA).evaluated := by
  induction fuel generalizing j gA uA eA with
  | zero =>
    have : j = N := by omega
    subst this
    rw [scanFrom_zero]
    exact ⟨rfl, hzero _ _ _ hP⟩
  | succ fuel ih =>
    have hjN : j < N := by omega
    rcases Nat.lt_trichotomy (slotOf gA (a0 + j)) t with hs | hs | hs
    · rw [scanFrom_skip βA t fuel (a0 + j) gA uA eA hs]
      exact ih (j + 1) (by omega) _ _ _ (hskip j gA uA eA hjN hP hs)
    · obtain ⟨okA, hP'⟩ := heval j gA uA eA hjN hP hs
      rw [scanFrom_eval_ok βA t fuel (a0 + j) gA uA eA hs okA]
      exact ih (j + 1) (by omega) _ _ _ hP'
    · rw [scanFrom_fold βA t fuel (a0 + j) gA uA eA hs]
      exact ih (j + 1) (by omega) _ _ _ (hfold j gA uA eA hjN hP hs)

/-- a scan over positions none of which is due changes neither a slot nor the node states -/
theorem scan_idle {α : Type} (βA : Beh α) (t : Time) (a0 fuel : Nat) (g : G) (u : α) (ev : List Nat)
    (h : ∀ j, j < fuel → slotOf g (a0 + j) ≠ t) :
    (scanFrom βA t fuel a0 g u ev).ok = true ∧ (scanFrom βA t fuel a0 g u ev).g.slots = g.slots ∧
    (scanFrom βA t fuel a0 g u ev).g.now = g.now ∧ (scanFrom βA t fuel a0 g u ev).st = u ∧
    (scanFrom βA t fuel a0 g u ev).evaluated = ev := by
  have := scan_inv βA t a0 fuel (fun _ g' u' e' => g'.slots = g.slots ∧ g'.now = g.now ∧ u' = u ∧ e' = ev)
    (fun j gA uA eA _ hP _ => hP)
    (fun j gA uA eA _ hP _ => hP)
    (fun j gA uA eA hj hP hs => by
      exfalso; apply h j hj
      have : slotOf gA (a0 + j) = slotOf g (a0 + j) := by unfold slotOf; rw [hP.1]
      rw [← this]; exact hs)
    (fun gA uA eA hP => hP)
    fuel 0 (by omega) g u ev ⟨rfl, rfl, rfl, rfl⟩
  simpa using this

/-! ### requests -/

/-- requests for the current time, made while the graph evaluates at that time, are always accepted:
    exactly the targeted slots become `t` -/
theorem foldl_now_reqs (g : G) (reqs : List Req) (t : Time) (hnow : g.now = t)
    (h : ∀ r ∈ reqs, r.time = t ∧ r.node < g.slots.length) (x : Nat) :
    slotOf (reqs.foldl scheduleNode g) x = if x ∈ reqs.map (·.node) then t else slotOf g x := by
  induction reqs generalizing g with
  | nil => simp
  | cons r rest ih =>
    have hr := h r (by simp)
    rw [List.foldl_cons, ih (scheduleNode g r) (by rw [scheduleNode_now]; exact hnow)
      (fun r' hr' => by rw [scheduleNode_length]; exact h r' (by simp [hr']))]
    rw [scheduleNode_slots g r x hr.2]
    have hacc : accepts g r := by unfold accepts; rw [hnow, hr.1]; omega
    by_cases hx : x ∈ rest.map (·.node)
    · have : x ∈ (r :: rest).map (·.node) := by simp only [List.map_cons, List.mem_cons]; exact Or.inr hx
      rw [if_pos hx, if_pos this]
    · rw [if_neg hx]
      by_cases hxr : x = r.node
      · rw [if_pos ⟨hxr, hacc⟩, if_pos (by simp [hxr]), hr.1]
      · rw [if_neg (fun hc => hxr hc.1), if_neg (by
          simp only [List.map_cons, List.mem_cons, not_or]; exact ⟨hxr, hx⟩)]

theorem foldl_now_reqs_next (g : G) (reqs : List Req) (t : Time) (hnow : g.now = t)
    (h : ∀ r ∈ reqs, r.time = t) : (reqs.foldl scheduleNode g).next = g.next := by
  induction reqs generalizing g with
  | nil => rfl
  | cons r rest ih =>
    rw [List.foldl_cons, ih (scheduleNode g r) (by rw [scheduleNode_now]; exact hnow) (fun r' hr' => h r' (by simp [hr']))]
    rw [scheduleNode_next]
    have : ¬ (accepts g r ∧ g.now < r.time ∧ olt r.time g.next = true) := by
      intro hc; have := h r (by simp); omega
    rw [if_neg this]

/-- the slot of the evaluated position after its own re-arm requests depends only on the requested times -/
theorem self_reqs_slot (g : G) (q : Nat) (t : Time) (Ts : List Time) (hq : q < g.slots.length) (hnow : g.now = t)
    (hs : slotOf g q = t) (x : Nat) :
    slotOf ((Ts.map (fun T => (⟨q, T⟩ : Req))).foldl scheduleNode g) x =
      if x = q then HgVerif.Flow.selfSlot t Ts else slotOf g x := by
  by_cases hx : x = q
  · subst hx
    rw [if_pos rfl, HgVerif.Flow.foldl_self_slot g x t Ts hq hnow t hs]; rfl
  · rw [if_neg hx]
    exact HgVerif.Flow.foldl_other_slot g _ x (by
      intro r hr; obtain ⟨T, _, rfl⟩ := List.mem_map.mp hr; exact fun e => hx e.symm)

/-! ### schedules with given slots -/

def mkG (sz : Nat) (f : Nat → Time) (now : Time) (next : Option Time) : G :=
  { slots := (List.range sz).map f, now := now, next := next }

theorem mkG_len (sz : Nat) (f : Nat → Time) (now : Time) (next : Option Time) : (mkG sz f now next).slots.length = sz := by
  simp [mkG]

theorem mkG_slot (sz : Nat) (f : Nat → Time) (now : Time) (next : Option Time) (p : Nat) (hp : p < sz) :
    slotOf (mkG sz f now next) p = f p := by
  simp [slotOf, mkG, List.getD_eq_getElem?_getD, hp]

theorem slots_ext (g g' : G) (n : Nat) (h : g.slots.length = n) (h' : g'.slots.length = n)
    (hs : ∀ p, p < n → slotOf g p = slotOf g' p) : g.slots = g'.slots := by
  apply List.ext_getElem (by omega)
  intro p h1 h2
  have := hs p (by omega)
  simp only [slotOf, List.getD_eq_getElem?_getD, List.getElem?_eq_getElem h1, List.getElem?_eq_getElem h2,
    Option.getD_some] at this
  exact this

/-- the cached next time is determined by the slots -/
theorem cinv_next_unique (t : Time) (n : Nat) (g₁ g₂ : G) (h₁ : CInv t n g₁) (h₂ : CInv t n g₂)
    (hs : ∀ j, j < n → slotOf g₁ j = slotOf g₂ j) : g₁.next = g₂.next := by
  have key : ∀ (ga gb : G), CInv t n ga → CInv t n gb → (∀ j, j < n → slotOf ga j = slotOf gb j) →
      ∀ a, ga.next = some a → ∃ b, gb.next = some b ∧ b ≤ a := by
    intro ga gb ha hb hv a hna
    obtain ⟨hta, j, hj, hsj⟩ := ha.isSlot a hna
    obtain ⟨b, hb1, hb2⟩ := hb.lower j hj (by rw [← hv j hj, hsj]; exact hta)
    exact ⟨b, hb1, by rw [← hv j hj, hsj] at hb2; exact hb2⟩
  cases hn1 : g₁.next with
  | none =>
    cases hn2 : g₂.next with
    | none => rfl
    | some b =>
      obtain ⟨a, ha, _⟩ := key g₂ g₁ h₂ h₁ (fun j hj => (hs j hj).symm) b hn2
      rw [hn1] at ha; cases ha
  | some a =>
    obtain ⟨b, hb, hba⟩ := key g₁ g₂ h₁ h₂ hs a hn1
    obtain ⟨a', ha', hab⟩ := key g₂ g₁ h₂ h₁ (fun j hj => (hs j hj).symm) b hb
    rw [hn1] at ha'; injection ha' with ha'; subst ha'
    rw [hb]; congr 1; omega

end HgVerif.Sched
