import HgVerif.Lemmas.ReduceInc
/-!
Helper lemmas for the GENERIC (combiner child graph) path of the incremental reduce model
(`cycleG` of `Model/ReduceInc.lean`): the evaluation pass over linked inputs and pending schedules.
-/
set_option linter.unusedVariables false
set_option linter.unusedSectionVars false
set_option linter.unusedSimpArgs false

namespace HgVerif.ReduceInc
open HgVerif.Reduce

/-! ## schedules and links: list facts -/

section Sched
variable {κ : Type} [DecidableEq κ]

/-- a link pair mentions a source -/
def mentionsB (b : Src κ × Src κ) (x : Src κ) : Bool := decide (b.1 = x) || decide (b.2 = x)

theorem notify_length (live : Nat → Bool) (bind : List (Src κ × Src κ)) (sched : List Bool) (x : Src κ) :
    (notify live bind sched x).length = sched.length := by
  unfold notify; simp

theorem schedAt_notify (live : Nat → Bool) (bind : List (Src κ × Src κ)) (sched : List Bool) (x : Src κ) (q : Nat)
    (hq : q < sched.length) :
    schedAt (notify live bind sched x) q = (schedAt sched q || (live q && mentionsB (bindAt bind q) x)) := by
  unfold notify schedAt mentionsB
  simp [hq]

theorem schedAt_notify_ge (live : Nat → Bool) (bind : List (Src κ × Src κ)) (sched : List Bool) (x : Src κ) (q : Nat)
    (hq : sched.length ≤ q) : schedAt (notify live bind sched x) q = false := by
  unfold schedAt
  rw [List.getElem?_eq_none (by rw [notify_length]; exact hq)]
  rfl

theorem schedAt_ge (sched : List Bool) (q : Nat) (hq : sched.length ≤ q) : schedAt sched q = false := by
  unfold schedAt; rw [List.getElem?_eq_none hq]; rfl

theorem schedAt_set (sched : List Bool) (p q : Nat) (b : Bool) :
    schedAt (sched.set p b) q = if p = q ∧ p < sched.length then b else schedAt sched q := by
  unfold schedAt
  rw [List.getElem?_set]
  by_cases h : p = q
  · subst h
    by_cases hl : p < sched.length
    · simp [hl]
    · simp [hl]
  · simp [h]

theorem bindAt_set (bind : List (Src κ × Src κ)) (p q : Nat) (b : Src κ × Src κ) :
    bindAt (bind.set p b) q = if p = q ∧ p < bind.length then b else bindAt bind q := by
  unfold bindAt
  rw [List.getElem?_set]
  by_cases h : p = q
  · subst h
    by_cases hl : p < bind.length
    · simp [hl]
    · simp [hl]
  · simp [h]

end Sched

/-! ## the generic evaluation pass, abstractly -/

section PassG
variable {κ α : Type} [DecidableEq κ]

/-- a combiner is consistent with its linked inputs: whenever both have a value, its output is their
    combination -/
def LocalOK (f : α → α → α) (c : List (Option α)) (z : Option α) (src : κ → Option α)
    (bind : List (Src κ × Src κ)) (q : Nat) : Prop :=
  ∀ a b, readSrc c z src (bindAt bind q).1 = some a → readSrc c z src (bindAt bind q).2 = some b →
    c[q]? = some (some (f a b))

theorem readSrc_set (c : List (Option α)) (z : Option α) (src : κ → Option α) (p : Nat) (v : Option α)
    (x : Src κ) (h : x ≠ .comb p) : readSrc (c.set p v) z src x = readSrc c z src x := by
  cases x with
  | zero => rfl
  | elem k => rfl
  | comb q =>
    have : p ≠ q := fun hc => h (by rw [hc])
    simp only [readSrc]
    rw [List.getElem?_set_ne this]

theorem evalG_lengths (f : α → α → α) (z : Option α) (src : κ → Option α) (live : Nat → Bool)
    (bind : List (Src κ × Src κ)) (s : GPass κ α) (p : Nat) :
    (evalG f z src live bind s p).cache.length = s.cache.length ∧
    (evalG f z src live bind s p).sched.length = s.sched.length := by
  unfold evalG
  split
  · dsimp only
    split
    · simp [notify_length]
    · simp
  · exact ⟨rfl, rfl⟩

/-- the state of the generic pass with `rest` still to be processed: every live position that is not
    waiting holds its target and has no pending schedule; every waiting live position without a
    schedule is consistent with its linked inputs -/
structure PInv (f : α → α → α) (z : Option α) (src : κ → Option α) (live : Nat → Bool) (size : Nat)
    (bind : List (Src κ × Src κ)) (good : Nat → Option α) (rest : List Nat) (s : GPass κ α) : Prop where
  len_c : s.cache.length = size
  len_s : s.sched.length = size
  fin : ∀ q, live q = true → q ∉ rest → s.cache[q]? = some (good q) ∧ schedAt s.sched q = false
  loc : ∀ q, live q = true → q ∈ rest → schedAt s.sched q = false → LocalOK f s.cache z src bind q

/-- THE GENERIC PASS.  `Hr`: a live combiner whose live descendants hold their targets reads two valid
    operands whose combination is its target; `Hm`: a combiner is linked only to combiners at larger
    heap positions; `H1`: the candidate list is closed under "is linked to a candidate".  Then from any
    start in which the scheduled combiners are candidates, the unscheduled ones are consistent and the
    non-candidates hold their targets, the pass ends with every live combiner holding its target and no
    schedule pending. -/
theorem passG (f : α → α → α) (z : Option α) (src : κ → Option α) (live : Nat → Bool) (size : Nat)
    (hlive : ∀ q, live q = true → q < size) (bind : List (Src κ × Src κ)) (good : Nat → Option α)
    (Hr : ∀ p, live p = true → ∀ c : List (Option α), (∀ q, q > p → live q = true → c[q]? = some (good q)) →
      ∃ a b, readSrc c z src (bindAt bind p).1 = some a ∧ readSrc c z src (bindAt bind p).2 = some b ∧
        good p = some (f a b))
    (Hm : ∀ p q, live q = true → mentionsB (bindAt bind q) (.comb p) = true → q < p)
    (cands : List Nat)
    (H1 : ∀ p ∈ cands, ∀ q, live q = true → mentionsB (bindAt bind q) (.comb p) = true → q ∈ cands) :
    ∀ (rest : List Nat), rest.Pairwise (· > ·) → (∀ r ∈ rest, r ∈ cands) →
      (∀ q ∈ cands, q ∉ rest → ∀ r ∈ rest, q > r) →
      ∀ s : GPass κ α, PInv f z src live size bind good rest s →
        PInv f z src live size bind good [] (rest.foldl (evalG f z src live bind) s) := by
  intro rest
  induction rest with
  | nil => intro _ _ _ s h; exact h
  | cons p rest' ih =>
    intro hdesc hsub hdone s hinv
    rw [List.pairwise_cons] at hdesc
    obtain ⟨hp, hrest⟩ := hdesc
    rw [List.foldl_cons]
    have hpc : p ∈ cands := hsub p List.mem_cons_self
    apply ih hrest (fun r hr => hsub r (List.mem_cons_of_mem _ hr))
    · intro q hq hnr r hr
      by_cases hqp : q = p
      · subst hqp; exact hp r hr
      · exact hdone q hq (fun hc => by
          rcases List.mem_cons.mp hc with h | h
          · exact hqp h
          · exact hnr h) r (List.mem_cons_of_mem _ hr)
    · -- the invariant after processing `p`
      have hupper : ∀ q, q > p → live q = true → s.cache[q]? = some (good q) := by
        intro q hgt hl
        apply (hinv.fin q hl ?_).1
        intro hc
        rcases List.mem_cons.mp hc with h | h
        · omega
        · have := hp q h; omega
      by_cases hlp : live p = true
      · obtain ⟨a, b, ha, hb, hgood⟩ := Hr p hlp s.cache hupper
        have hpsize := hlive p hlp
        by_cases hsp : schedAt s.sched p = true
        · -- scheduled: the node runs
          have hev : evalG f z src live bind s p =
              { cache := s.cache.set p (some (f a b))
                sched := notify live bind (s.sched.set p false) (.comb p)
                evaluated := s.evaluated ++ [p]
                evals := s.evals ++ [(a, b)] } := by
            unfold evalG
            simp only [hlp, hsp, Bool.and_self, ↓reduceIte, ha, hb]
          rw [hev]
          refine ⟨by simp [hinv.len_c], by simp [notify_length, hinv.len_s], ?_, ?_⟩
          · intro q hl hnr
            simp only
            have hqs := hlive q hl
            by_cases hqp : q = p
            · subst hqp
              refine ⟨by rw [List.getElem?_set_self (by rw [hinv.len_c]; exact hpsize), hgood], ?_⟩
              rw [schedAt_notify _ _ _ _ _ (by simp [hinv.len_s]; exact hpsize), schedAt_set]
              simp only [true_and]
              rw [if_pos (by rw [hinv.len_s]; exact hpsize)]
              simp only [Bool.false_or, Bool.and_eq_false_imp]
              intro _
              cases hm : mentionsB (bindAt bind q) (Src.comb q) with
              | false => rfl
              | true => have := Hm q q hl hm; omega
            · have hnr' : q ∉ p :: rest' := fun hc => by
                rcases List.mem_cons.mp hc with h | h
                · exact hqp h
                · exact hnr h
              obtain ⟨hc, hs⟩ := hinv.fin q hl hnr'
              refine ⟨by rw [List.getElem?_set_ne (fun h => hqp h.symm)]; exact hc, ?_⟩
              rw [schedAt_notify _ _ _ _ _ (by simp [hinv.len_s]; exact hqs), schedAt_set]
              have hne : ¬ (p = q ∧ p < s.sched.length) := fun h => hqp h.1.symm
              rw [if_neg hne, hs]
              simp only [Bool.false_or, Bool.and_eq_false_imp]
              intro _
              cases hm : mentionsB (bindAt bind q) (Src.comb p) with
              | false => rfl
              | true =>
                have hqc := H1 p hpc q hl hm
                have hgt := hdone q hqc hnr' p List.mem_cons_self
                have := Hm p q hl hm
                omega
          · intro q hl hr hs
            simp only at hs ⊢
            have hqs := hlive q hl
            have hqp : q ≠ p := fun h => by
              subst h; have := hp q hr; omega
            rw [schedAt_notify _ _ _ _ _ (by simp [hinv.len_s]; exact hqs), schedAt_set] at hs
            have hne : ¬ (p = q ∧ p < s.sched.length) := fun h => hqp h.1.symm
            rw [if_neg hne] at hs
            simp only [Bool.or_eq_false_iff, hl, Bool.true_and] at hs
            obtain ⟨hs1, hs2⟩ := hs
            have hloc := hinv.loc q hl (List.mem_cons_of_mem _ hr) hs1
            have hm1 : (bindAt bind q).1 ≠ .comb p := by
              intro hc; unfold mentionsB at hs2; simp [hc] at hs2
            have hm2 : (bindAt bind q).2 ≠ .comb p := by
              intro hc; unfold mentionsB at hs2; simp [hc] at hs2
            intro a' b' ha' hb'
            rw [readSrc_set _ _ _ _ _ _ hm1] at ha'
            rw [readSrc_set _ _ _ _ _ _ hm2] at hb'
            rw [List.getElem?_set_ne (fun h => hqp h.symm)]
            exact hloc a' b' ha' hb'
        · -- not scheduled: skipped, and already consistent
          have hsp' : schedAt s.sched p = false := by simpa using hsp
          have hev : evalG f z src live bind s p = s := by
            unfold evalG
            simp [hsp']
          rw [hev]
          refine ⟨hinv.len_c, hinv.len_s, ?_, ?_⟩
          · intro q hl hnr
            by_cases hqp : q = p
            · subst hqp
              have := hinv.loc q hl List.mem_cons_self hsp' a b ha hb
              exact ⟨by rw [this, hgood], hsp'⟩
            · exact hinv.fin q hl (fun hc => by
                rcases List.mem_cons.mp hc with h | h
                · exact hqp h
                · exact hnr h)
          · intro q hl hr hs
            exact hinv.loc q hl (List.mem_cons_of_mem _ hr) hs
      · -- no combiner at `p`
        have hlp' : live p = false := by simpa using hlp
        have hev : evalG f z src live bind s p = s := by
          unfold evalG
          simp [hlp']
        rw [hev]
        refine ⟨hinv.len_c, hinv.len_s, ?_, ?_⟩
        · intro q hl hnr
          apply hinv.fin q hl
          intro hc
          rcases List.mem_cons.mp hc with h | h
          · subst h; rw [hl] at hlp'; cases hlp'
          · exact hnr h
        · intro q hl hr hs
          exact hinv.loc q hl (List.mem_cons_of_mem _ hr) hs

end PassG

/-! ## what a linked combiner reads -/

section Reads
variable {κ α : Type} [DecidableEq κ]

theorem resolve_leaf_lt (cap n p i : Nat) (h : resolveClosed cap n p = .leaf i) : i < n := by
  unfold resolveClosed at h
  simp only at h
  split at h
  · split at h
    · next hlt => injection h with h; omega
    · cases h
  · split at h
    · cases h
    · next hnf =>
      split at h
      · injection h with h; omega
      · cases h

/-- a `Node` aggregate resolved below a position is reached from it by left descents only -/
theorem descend_shift (lis c span : Nat) : ∃ s, descend lis c span + 1 = (c + 1) * 2 ^ s := by
  fun_induction descend lis c span with
  | case1 c span h ih =>
    obtain ⟨s, hs⟩ := ih
    refine ⟨s + 1, ?_⟩
    rw [hs, Nat.pow_succ]
    have : 2 * c + 1 + 1 = (c + 1) * 2 := by omega
    rw [this, Nat.mul_assoc, Nat.mul_comm 2 (2 ^ s)]
  | case2 c span h => exact ⟨0, by simp⟩

theorem resolve_node_shift (cap n c p : Nat) (h : resolveClosed cap n c = .node p) :
    ∃ s, p + 1 = (c + 1) * 2 ^ s := by
  unfold resolveClosed at h
  simp only at h
  split at h
  · split at h <;> cases h
  · split at h
    · cases h
    · split at h
      · cases h
      · injection h with h
        rw [← h]
        exact descend_shift _ _ _

/-- the links of a combiner go to combiners at larger heap positions only -/
theorem want_mentions_lt (cap : Nat) (keys : List κ) (q p : Nat)
    (h : mentionsB (wantBind cap keys q) (.comb p) = true) : q < p := by
  unfold mentionsB wantBind at h
  simp only [Bool.or_eq_true, decide_eq_true_eq] at h
  have key : ∀ c, (c = 2 * q + 1 ∨ c = 2 * q + 2) → srcOf keys (resolveClosed cap keys.length c) = .comb p → q < p := by
    intro c hc hs
    cases hr : resolveClosed cap keys.length c with
    | empty => rw [hr] at hs; cases hs
    | leaf i => rw [hr] at hs; simp only [srcOf] at hs; split at hs <;> cases hs
    | node p' =>
      rw [hr] at hs
      simp only [srcOf, Src.comb.injEq] at hs
      subst hs
      obtain ⟨s, hs⟩ := resolve_node_shift _ _ _ _ hr
      have := two_pow_pos' s
      have : (c + 1) * 1 ≤ (c + 1) * 2 ^ s := Nat.mul_le_mul_left _ this
      omega
  rcases h with h | h
  · exact key _ (Or.inl rfl) h
  · exact key _ (Or.inr rfl) h

/-- a combiner linked to the combiner `p` is a heap ancestor of everything `p` is a heap ancestor of -/
theorem want_mentions_anc (cap : Nat) (keys : List κ) (size q p L : Nat) (hq : q < size)
    (h : mentionsB (wantBind cap keys q) (.comb p) = true) (hp : p ∈ pathFrom size L) :
    q ∈ pathFrom size L := by
  unfold mentionsB wantBind at h
  simp only [Bool.or_eq_true, decide_eq_true_eq] at h
  obtain ⟨t, ht, he, _⟩ := pathFrom_elem size L p hp
  have key : ∀ c, (c = 2 * q + 1 ∨ c = 2 * q + 2) → srcOf keys (resolveClosed cap keys.length c) = .comb p →
      q ∈ pathFrom size L := by
    intro c hc hs
    cases hr : resolveClosed cap keys.length c with
    | empty => rw [hr] at hs; cases hs
    | leaf i => rw [hr] at hs; simp only [srcOf] at hs; split at hs <;> cases hs
    | node p' =>
      rw [hr] at hs
      simp only [srcOf, Src.comb.injEq] at hs
      subst hs
      obtain ⟨s, hs⟩ := resolve_node_shift _ _ _ _ hr
      have hsp := two_pow_pos' s
      -- (c+1) = (L+1) / 2^(t+s), q+1 = (c+1) / 2
      have hc1 : c + 1 = (L + 1) / 2 ^ (t + s) := by
        rw [Nat.pow_add, ← Nat.div_div_eq_div_mul, ← he, hs, Nat.mul_div_cancel _ hsp]
      have hq1 : q + 1 = (c + 1) / 2 := by omega
      have hq2 : q + 1 = (L + 1) / 2 ^ (t + s + 1) := by
        rw [hq1, hc1, Nat.pow_succ, Nat.div_div_eq_div_mul]
      have := mem_pathFrom size (t + s + 1) (L + 1) (by omega) (by rw [← hq2]; omega) (by rw [← hq2]; omega)
      rw [← hq2] at this
      simpa using this
  rcases h with h | h
  · exact key _ (Or.inl rfl) h
  · exact key _ (Or.inr rfl) h

/-- reading the links `bind_combiner_inputs` makes gives what `aggregate_output` of the child aggregates
    gives -/
theorem readSrc_srcOf (c : List (Option α)) (z : Option α) (src : κ → Option α) (keys : List κ)
    (cap pos : Nat) :
    readSrc c z src (srcOf keys (resolveClosed cap keys.length pos)) =
      aggVal c z (leafVal src keys) (resolveClosed cap keys.length pos) := by
  cases hr : resolveClosed cap keys.length pos with
  | empty => rfl
  | node q => rfl
  | leaf i =>
    have hi := resolve_leaf_lt _ _ _ _ hr
    simp only [srcOf, aggVal, leafVal]
    rw [List.getElem?_eq_getElem hi]
    rfl

/-- A needed combiner whose needed descendants hold their targets reads two valid operands, and their
    combination is the fold over its interval. -/
theorem reads_inner (f : α → α → α) (hf : ∀ a b c, f (f a b) c = f a (f b c)) (zero : Option α) (k : Nat)
    (lv : Nat → Option α) (vs : List α) (hlv : ∀ i, lv i = vs[i]?) (c : List (Option α))
    (d j : Nat) (hd : d < k) (hj : j < 2 ^ d) (hneed : (2 * j + 1) * 2 ^ (k - (d + 1)) < vs.length)
    (hgood : ∀ d' j', d' < k → j' < 2 ^ d' → 2 ^ d + j - 1 < 2 ^ d' + j' - 1 →
      (2 * j' + 1) * 2 ^ (k - (d' + 1)) < vs.length →
      c[2 ^ d' + j' - 1]? = some (foldOpt f (slice k d' j' vs))) :
    ∃ a b, aggVal c zero lv (resolveClosed (2 ^ k) vs.length (2 * (2 ^ d + j - 1) + 1)) = some a ∧
      aggVal c zero lv (resolveClosed (2 ^ k) vs.length (2 * (2 ^ d + j - 1) + 2)) = some b ∧
      foldOpt f (slice k d j vs) = some (f a b) := by
  have hdp := two_pow_pos' d
  have hpow : 2 ^ (d + 1) = 2 * 2 ^ d := by rw [Nat.pow_succ]; omega
  have hj2 : 2 * j < 2 ^ (d + 1) := by omega
  have hj3 : 2 * j + 1 < 2 ^ (d + 1) := by omega
  have hlt2 : 2 ^ (d + 1) ≤ 2 ^ k := Nat.pow_le_pow_right (by omega) (by omega)
  have hsp := two_pow_pos' (k - (d + 1))
  have hfr : (2 * j + 1) * 2 ^ (k - (d + 1)) = 2 * j * 2 ^ (k - (d + 1)) + 2 ^ (k - (d + 1)) := by
    rw [Nat.add_mul]; simp
  have hgood' : ∀ d' j', d' < k → j' < 2 ^ d' → 2 ^ d + j - 1 + 1 ≤ 2 ^ d' + j' - 1 →
      (2 * j' + 1) * 2 ^ (k - (d' + 1)) < vs.length →
      c[2 ^ d' + j' - 1]? = some (foldOpt f (slice k d' j' vs)) :=
    fun d' j' h1 h2 h3 h4 => hgood d' j' h1 h2 (by omega) h4
  have hL := aggVal_interval f zero k lv vs c (2 ^ d + j - 1 + 1) hlv hgood' (k - (d + 1)) (d + 1) (2 * j)
    (by omega) hj2 (by omega) (by omega)
  have hR := aggVal_interval f zero k lv vs c (2 ^ d + j - 1 + 1) hlv hgood' (k - (d + 1)) (d + 1) (2 * j + 1)
    (by omega) hj3 (by omega) (by omega)
  rw [← child_left] at hL
  rw [← child_right] at hR
  have hne1 : slice k (d + 1) (2 * j) vs ≠ [] := by
    intro hc; have := congrArg List.length hc
    simp [slice] at this; omega
  have hne2 : slice k (d + 1) (2 * j + 1) vs ≠ [] := by
    intro hc; have := congrArg List.length hc
    simp [slice] at this; omega
  obtain ⟨a, ha⟩ := foldOpt_isSome f _ hne1
  obtain ⟨b, hb⟩ := foldOpt_isSome f _ hne2
  refine ⟨a, b, by rw [hL, ha], by rw [hR, hb], ?_⟩
  rw [slice_split k d j hd vs]
  exact foldOpt_append f hf _ _ a b ha hb

end Reads

/-! ## locality: a position's resolution and links depend only on the leaves of its interval -/

section Local
variable {κ : Type} [DecidableEq κ]

theorem spec_local (first span n0 n p : Nat) (hs : 0 < span)
    (h : ∀ i, first ≤ i → i < first + span → (i < n0 ↔ i < n)) : spec first span n0 p = spec first span n p := by
  unfold spec
  have h1 := h first (Nat.le_refl _) (by omega)
  by_cases hf : first ≥ n0
  · have : first ≥ n := by omega
    simp [hf, this]
  · have hf' : ¬ first ≥ n := by omega
    simp only [hf, hf', ↓reduceIte]
    have hmin : min span (n0 - first) = min span (n - first) := by
      by_cases a : n0 < first + span
      · have ha := h n0 (by omega) a
        by_cases b : n < first + span
        · have hb := h n (by omega) b
          omega
        · omega
      · by_cases b : n < first + span
        · have hb := h n (by omega) b
          omega
        · omega
    rw [hmin]

theorem spec_leaf_first (first span n p i : Nat) (h : spec first span n p = .leaf i) : i = first := by
  unfold spec at h
  split at h
  · cases h
  · simp only at h
    split at h
    · injection h with h; exact h.symm
    · cases h

theorem resolve_local (k d j n0 n : Nat) (hd : d ≤ k) (hj : j < 2 ^ d)
    (h : ∀ i, j * 2 ^ (k - d) ≤ i → i < (j + 1) * 2 ^ (k - d) → (i < n0 ↔ i < n)) :
    resolveClosed (2 ^ k) n0 (2 ^ d + j - 1) = resolveClosed (2 ^ k) n (2 ^ d + j - 1) := by
  rw [resolveClosed_eq_spec k d j n0 hd hj, resolveClosed_eq_spec k d j n hd hj]
  apply spec_local _ _ _ _ _ (two_pow_pos' _)
  intro i h1 h2
  apply h i h1
  rw [Nat.add_mul, Nat.one_mul]; exact h2

/-- the links wanted at `(d, j)` depend only on the keys of the dense leaves of its interval -/
theorem wantBind_local (k d j : Nat) (hd : d < k) (hj : j < 2 ^ d) (keys0 keys' : List κ)
    (h : ∀ i, j * 2 ^ (k - d) ≤ i → i < (j + 1) * 2 ^ (k - d) → keys0[i]? = keys'[i]?) :
    wantBind (2 ^ k) keys0 (2 ^ d + j - 1) = wantBind (2 ^ k) keys' (2 ^ d + j - 1) := by
  have hdp := two_pow_pos' d
  have hpow : 2 ^ (d + 1) = 2 * 2 ^ d := by rw [Nat.pow_succ]; omega
  have hsp := two_pow_pos' (k - (d + 1))
  have hspan : 2 ^ (k - d) = 2 * 2 ^ (k - (d + 1)) := by
    have : k - d = (k - (d + 1)) + 1 := by omega
    rw [this, Nat.pow_succ]; omega
  have hlen : ∀ i, j * 2 ^ (k - d) ≤ i → i < (j + 1) * 2 ^ (k - d) → (i < keys0.length ↔ i < keys'.length) := by
    intro i h1 h2
    have := h i h1 h2
    constructor
    · intro hl
      apply Classical.byContradiction; intro hc
      rw [List.getElem?_eq_getElem hl, List.getElem?_eq_none (by omega)] at this; cases this
    · intro hl
      apply Classical.byContradiction; intro hc
      rw [List.getElem?_eq_getElem hl, List.getElem?_eq_none (by omega)] at this; cases this
  have key : ∀ j', (j' = 2 * j ∨ j' = 2 * j + 1) →
      srcOf keys0 (resolveClosed (2 ^ k) keys0.length (2 ^ (d + 1) + j' - 1)) =
        srcOf keys' (resolveClosed (2 ^ k) keys'.length (2 ^ (d + 1) + j' - 1)) := by
    intro j' hj'
    have hj'lt : j' < 2 ^ (d + 1) := by omega
    have hsub : ∀ i, j' * 2 ^ (k - (d + 1)) ≤ i → i < (j' + 1) * 2 ^ (k - (d + 1)) →
        j * 2 ^ (k - d) ≤ i ∧ i < (j + 1) * 2 ^ (k - d) := by
      intro i h1 h2
      rw [hspan]
      rcases hj' with rfl | rfl
      · have e1 : 2 * j * 2 ^ (k - (d + 1)) = j * (2 * 2 ^ (k - (d + 1))) := by
          rw [Nat.mul_assoc, Nat.mul_left_comm]
        have e2 : (2 * j + 1) * 2 ^ (k - (d + 1)) = j * (2 * 2 ^ (k - (d + 1))) + 2 ^ (k - (d + 1)) := by
          rw [Nat.add_mul, Nat.one_mul, e1]
        have e3 : (j + 1) * (2 * 2 ^ (k - (d + 1))) = j * (2 * 2 ^ (k - (d + 1))) + 2 * 2 ^ (k - (d + 1)) := by
          rw [Nat.add_mul, Nat.one_mul]
        omega
      · have e1 : 2 * j * 2 ^ (k - (d + 1)) = j * (2 * 2 ^ (k - (d + 1))) := by
          rw [Nat.mul_assoc, Nat.mul_left_comm]
        have e2 : (2 * j + 1) * 2 ^ (k - (d + 1)) = j * (2 * 2 ^ (k - (d + 1))) + 2 ^ (k - (d + 1)) := by
          rw [Nat.add_mul, Nat.one_mul, e1]
        have e4 : (2 * j + 1 + 1) * 2 ^ (k - (d + 1)) = j * (2 * 2 ^ (k - (d + 1))) + 2 * 2 ^ (k - (d + 1)) := by
          have : 2 * j + 1 + 1 = 2 * (j + 1) := by omega
          rw [this, Nat.mul_assoc, Nat.mul_left_comm, Nat.add_mul, Nat.one_mul]
        have e3 : (j + 1) * (2 * 2 ^ (k - (d + 1))) = j * (2 * 2 ^ (k - (d + 1))) + 2 * 2 ^ (k - (d + 1)) := by
          rw [Nat.add_mul, Nat.one_mul]
        omega
    have hres := resolve_local k (d + 1) j' keys0.length keys'.length (by omega) hj'lt
      (fun i h1 h2 => hlen i (hsub i h1 h2).1 (hsub i h1 h2).2)
    rw [hres]
    cases hr : resolveClosed (2 ^ k) keys'.length (2 ^ (d + 1) + j' - 1) with
    | empty => rfl
    | node q => rfl
    | leaf i =>
      simp only [srcOf]
      rw [resolveClosed_eq_spec k (d + 1) j' _ (by omega) hj'lt] at hr
      have hi := spec_leaf_first _ _ _ _ _ hr
      have hin := hsub i (by rw [hi]; exact Nat.le_refl _) (by rw [hi, Nat.add_mul, Nat.one_mul]; omega)
      rw [h i hin.1 hin.2]
  unfold wantBind
  rw [child_left, child_right, key (2 * j) (Or.inl rfl), key (2 * j + 1) (Or.inr rfl)]

end Local

/-! ## phase 2 and the start of created combiners, position by position -/

section Phase2
variable {κ α : Type} [DecidableEq κ]

theorem phase2Step_at (cap : Nat) (keys : List κ) (live : Nat → Bool) (created : List Nat)
    (bs : List (Src κ × Src κ) × List Bool) (p : Nat) :
    (phase2Step cap keys live created bs p).1.length = bs.1.length ∧
    (phase2Step cap keys live created bs p).2.length = bs.2.length ∧
    (∀ q, q ≠ p → bindAt (phase2Step cap keys live created bs p).1 q = bindAt bs.1 q ∧
      schedAt (phase2Step cap keys live created bs p).2 q = schedAt bs.2 q) ∧
    (live p = false → phase2Step cap keys live created bs p = bs) ∧
    (live p = true → p < bs.1.length → p < bs.2.length →
      bindAt (phase2Step cap keys live created bs p).1 p = wantBind cap keys p ∧
      schedAt (phase2Step cap keys live created bs p).2 p =
        if created.contains p then schedAt bs.2 p
        else (schedAt bs.2 p || decide (wantBind cap keys p ≠ bindAt bs.1 p))) := by
  cases hl : live p with
  | false =>
    have hstep : phase2Step cap keys live created bs p = bs := by unfold phase2Step; simp [hl]
    rw [hstep]
    exact ⟨rfl, rfl, fun q _ => ⟨rfl, rfl⟩, fun _ => rfl, (fun h => by cases h)⟩
  | true =>
    by_cases hc : created.contains p = true
    · have hstep : phase2Step cap keys live created bs p = (bs.1.set p (wantBind cap keys p), bs.2) := by
        unfold phase2Step; simp only [hl, ↓reduceIte, hc]
      rw [hstep]
      refine ⟨by simp, rfl, ?_, (fun h => by cases h), ?_⟩
      · intro q hq
        refine ⟨?_, rfl⟩
        simp only
        rw [bindAt_set]
        have : ¬ (p = q ∧ p < bs.1.length) := fun h => hq h.1.symm
        rw [if_neg this]
      · intro _ h1 _
        simp only [hc, ↓reduceIte, and_true]
        rw [bindAt_set]
        rw [if_pos ⟨rfl, h1⟩]
    · have hc' : created.contains p = false := by simpa using hc
      by_cases he : wantBind cap keys p = bindAt bs.1 p
      · have hstep : phase2Step cap keys live created bs p = bs := by
          unfold phase2Step; simp only [hl, ↓reduceIte, hc', Bool.false_eq_true, he, decide_true, decide_false]
        rw [hstep]
        refine ⟨rfl, rfl, fun q _ => ⟨rfl, rfl⟩, (fun h => by cases h), ?_⟩
        intro _ _ _
        simp [hc', he]
      · have hstep : phase2Step cap keys live created bs p =
            (bs.1.set p (wantBind cap keys p), bs.2.set p true) := by
          unfold phase2Step; simp only [hl, ↓reduceIte, hc', Bool.false_eq_true, he, decide_true, decide_false]
        rw [hstep]
        refine ⟨by simp, by simp, ?_, (fun h => by cases h), ?_⟩
        · intro q hq
          simp only
          rw [bindAt_set, schedAt_set]
          have h1 : ¬ (p = q ∧ p < bs.1.length) := fun h => hq h.1.symm
          have h2 : ¬ (p = q ∧ p < bs.2.length) := fun h => hq h.1.symm
          rw [if_neg h1, if_neg h2]
          exact ⟨rfl, rfl⟩
        · intro _ h1 h2
          simp only [hc', Bool.false_eq_true, ↓reduceIte]
          rw [bindAt_set, schedAt_set, if_pos ⟨rfl, h1⟩, if_pos ⟨rfl, h2⟩]
          simp [he]

/-- phase 2 over a duplicate-free list of positions -/
theorem phase2_fold (cap : Nat) (keys : List κ) (live : Nat → Bool) (created : List Nat) (ps : List Nat)
    (hnd : ps.Nodup) (bs : List (Src κ × Src κ) × List Bool) :
    (ps.foldl (phase2Step cap keys live created) bs).1.length = bs.1.length ∧
    (ps.foldl (phase2Step cap keys live created) bs).2.length = bs.2.length ∧
    (∀ q, (q ∉ ps ∨ live q = false) →
      bindAt (ps.foldl (phase2Step cap keys live created) bs).1 q = bindAt bs.1 q ∧
      schedAt (ps.foldl (phase2Step cap keys live created) bs).2 q = schedAt bs.2 q) ∧
    (∀ q ∈ ps, live q = true → q < bs.1.length → q < bs.2.length →
      bindAt (ps.foldl (phase2Step cap keys live created) bs).1 q = wantBind cap keys q ∧
      schedAt (ps.foldl (phase2Step cap keys live created) bs).2 q =
        if created.contains q then schedAt bs.2 q
        else (schedAt bs.2 q || decide (wantBind cap keys q ≠ bindAt bs.1 q))) := by
  induction ps generalizing bs with
  | nil => exact ⟨rfl, rfl, fun q _ => ⟨rfl, rfl⟩, fun q hq => by simp at hq⟩
  | cons p ps ih =>
    rw [List.nodup_cons] at hnd
    obtain ⟨hp, hnd'⟩ := hnd
    rw [List.foldl_cons]
    obtain ⟨s1, s2, s3, s4, s5⟩ := phase2Step_at cap keys live created bs p
    obtain ⟨i1, i2, i3, i4⟩ := ih hnd' (phase2Step cap keys live created bs p)
    refine ⟨by rw [i1, s1], by rw [i2, s2], ?_, ?_⟩
    · intro q hq
      by_cases hqp : q = p
      · subst hqp
        have hlq : live q = false := by
          rcases hq with h | h
          · exact absurd List.mem_cons_self h
          · exact h
        obtain ⟨a, b⟩ := i3 q (Or.inr hlq)
        rw [a, b, s4 hlq]
        exact ⟨rfl, rfl⟩
      · have hq' : q ∉ ps ∨ live q = false := by
          rcases hq with h | h
          · exact Or.inl (fun hc => h (List.mem_cons_of_mem _ hc))
          · exact Or.inr h
        obtain ⟨a, b⟩ := i3 q hq'
        obtain ⟨c, d⟩ := s3 q hqp
        rw [a, b, c, d]
        exact ⟨rfl, rfl⟩
    · intro q hq hl h1 h2
      rcases List.mem_cons.mp hq with rfl | hq'
      · obtain ⟨a, b⟩ := i3 q (Or.inl hp)
        obtain ⟨c, d⟩ := s5 hl h1 h2
        rw [a, b, c, d]
        exact ⟨rfl, rfl⟩
      · have hqp : q ≠ p := fun h => hp (h ▸ hq')
        obtain ⟨a, b⟩ := i4 q hq' hl (by rw [s1]; exact h1) (by rw [s2]; exact h2)
        obtain ⟨c, d⟩ := s3 q hqp
        rw [a, b, c, d]
        exact ⟨rfl, rfl⟩

/-- starting the created combiners -/
theorem start_fold (cache : List (Option α)) (z : Option α) (src : κ → Option α) (bind : List (Src κ × Src κ))
    (ps : List Nat) (hnd : ps.Nodup) (sched : List Bool) :
    (ps.foldl (startStep cache z src bind) sched).length = sched.length ∧
    (∀ q, q ∉ ps → schedAt (ps.foldl (startStep cache z src bind) sched) q = schedAt sched q) ∧
    (∀ q ∈ ps, q < sched.length → schedAt (ps.foldl (startStep cache z src bind) sched) q =
      ((readSrc cache z src (bindAt bind q).1).isSome || (readSrc cache z src (bindAt bind q).2).isSome)) := by
  induction ps generalizing sched with
  | nil => exact ⟨rfl, fun q _ => rfl, fun q hq => by simp at hq⟩
  | cons p ps ih =>
    rw [List.nodup_cons] at hnd
    obtain ⟨hp, hnd'⟩ := hnd
    rw [List.foldl_cons]
    obtain ⟨i1, i2, i3⟩ := ih hnd' (startStep cache z src bind sched p)
    have hl : (startStep cache z src bind sched p).length = sched.length := by unfold startStep; simp
    refine ⟨by rw [i1, hl], ?_, ?_⟩
    · intro q hq
      rw [i2 q (fun hc => hq (List.mem_cons_of_mem _ hc))]
      unfold startStep
      simp only
      rw [schedAt_set]
      have : ¬ (p = q ∧ p < sched.length) := fun h => hq (by rw [h.1]; exact List.mem_cons_self)
      simp [this]
    · intro q hq hlt
      rcases List.mem_cons.mp hq with rfl | hq'
      · rw [i2 q hp]
        unfold startStep
        simp only
        rw [schedAt_set]
        simp [hlt]
      · exact i3 q hq' (by rw [hl]; exact hlt)

/-- clearing schedules at a list of positions -/
theorem clearSched_fold (ps : List Nat) (sched : List Bool) :
    (ps.foldl (fun sc p => sc.set p false) sched).length = sched.length ∧
    (∀ q, schedAt (ps.foldl (fun sc p => sc.set p false) sched) q = (decide (q ∉ ps) && schedAt sched q)) := by
  induction ps generalizing sched with
  | nil => exact ⟨rfl, fun q => by simp⟩
  | cons p ps ih =>
    rw [List.foldl_cons]
    obtain ⟨i1, i2⟩ := ih (sched.set p false)
    refine ⟨by rw [i1]; simp, ?_⟩
    intro q
    rw [i2 q, schedAt_set]
    by_cases hqp : p = q
    · subst hqp
      by_cases hl : p < sched.length
      · simp [hl]
      · simp [hl, schedAt_ge sched p (by omega)]
    · have : ¬ (p = q ∧ p < sched.length) := fun h => hqp h.1
      have hne : q ≠ p := fun h => hqp h.symm
      simp [this, hne]

/-- the tick notifications of one cycle -/
theorem notify_fold (live : Nat → Bool) (bind : List (Src κ × Src κ)) (ticked : List κ) (sched : List Bool) :
    (ticked.foldl (fun sc k => notify live bind sc (.elem k)) sched).length = sched.length ∧
    (∀ q, q < sched.length → schedAt (ticked.foldl (fun sc k => notify live bind sc (.elem k)) sched) q =
      (schedAt sched q || (live q && ticked.any (fun k => mentionsB (bindAt bind q) (.elem k))))) := by
  induction ticked generalizing sched with
  | nil => exact ⟨rfl, fun q _ => by simp⟩
  | cons k ks ih =>
    rw [List.foldl_cons]
    obtain ⟨i1, i2⟩ := ih (notify live bind sched (.elem k))
    refine ⟨by rw [i1, notify_length], ?_⟩
    intro q hq
    rw [i2 q (by rw [notify_length]; exact hq), schedAt_notify _ _ _ _ _ hq]
    simp only [List.any_cons]
    cases schedAt sched q <;> cases live q <;> simp

end Phase2

/-! ## what the links of a combiner point at -/

section Links
variable {κ : Type} [DecidableEq κ]

/-- a `Node` aggregate is a needed combine point (both halves of its interval hold a live leaf) -/
theorem resolve_node_needed (hz : Bool) (k n q : Nat) : ∀ h d j, d + h = k → j < 2 ^ d →
    resolveClosed (2 ^ k) n (2 ^ d + j - 1) = .node q → q < 2 ^ k - 1 ∧ neededAt hz (2 ^ k) n q = true := by
  intro h
  induction h with
  | zero =>
    intro d j hd hj hr
    have hdk : d = k := by omega
    subst hdk
    rw [resolveClosed_eq_spec d d j _ (Nat.le_refl _) hj] at hr
    simp only [Nat.sub_self, Nat.pow_zero, Nat.mul_one] at hr
    unfold spec at hr
    split at hr
    · cases hr
    · next hf =>
      have : min 1 (n - j) = 1 := by omega
      simp [this] at hr
  | succ h ih =>
    intro d j hd hj hr
    have hhp := two_pow_pos' h
    have hspan : 2 ^ (h + 1) = 2 * 2 ^ h := by rw [Nat.pow_succ]; omega
    have hkd : k - d = h + 1 := by omega
    have hkd1 : k - (d + 1) = h := by omega
    have hj2 : 2 * j < 2 ^ (d + 1) := by rw [Nat.pow_succ]; omega
    have hfirst : j * (2 * 2 ^ h) = 2 * j * 2 ^ h := by rw [← Nat.mul_assoc, Nat.mul_comm j 2]
    rw [resolveClosed_eq_spec k d j _ (by omega) hj, hkd, hspan, spec_step _ _ _ _ hhp, hfirst] at hr
    split at hr
    · cases hr
    · split at hr
      · have hL := resolveClosed_eq_spec k (d + 1) (2 * j) n (by omega) hj2
        rw [hkd1, ← child_left] at hL
        rw [← hL, child_left] at hr
        exact ih (d + 1) (2 * j) (by omega) hj2 hr
      · next hnf hm =>
        injection hr with hr
        subst hr
        refine ⟨pos_lt k d j (by omega) hj, ?_⟩
        rw [neededAt_level hz k d j n (by omega) hj, hkd1]
        have : (2 * j + 1) * 2 ^ h = 2 * j * 2 ^ h + 2 ^ h := by rw [Nat.add_mul]; simp
        have hlt : (2 * j + 1) * 2 ^ h < n := by omega
        simp [hlt]

/-- the combiners a live combiner is linked to are live -/
theorem want_comb_live (hz : Bool) (t : Tree κ) (hs : Shape hz t) (k : Nat) (hk : t.cap = 2 ^ k) (q p : Nat)
    (hq : q < 2 ^ k - 1) (h : mentionsB (wantBind t.cap t.keys q) (.comb p) = true) :
    p < 2 ^ k - 1 ∧ combLive t.combiners p = true := by
  obtain ⟨d, j, hj, he⟩ := exists_level q
  have hd := level_depth_le k d j q hq he
  subst he
  have hdp := two_pow_pos' d
  have hpow : 2 ^ (d + 1) = 2 * 2 ^ d := by rw [Nat.pow_succ]; omega
  unfold mentionsB wantBind at h
  simp only [Bool.or_eq_true, decide_eq_true_eq] at h
  have key : ∀ j', j' < 2 ^ (d + 1) → srcOf t.keys (resolveClosed t.cap t.keys.length (2 ^ (d + 1) + j' - 1)) = .comb p →
      p < 2 ^ k - 1 ∧ combLive t.combiners p = true := by
    intro j' hj' hsrc
    cases hr : resolveClosed t.cap t.keys.length (2 ^ (d + 1) + j' - 1) with
    | empty => rw [hr] at hsrc; cases hsrc
    | leaf i => rw [hr] at hsrc; simp only [srcOf] at hsrc; split at hsrc <;> cases hsrc
    | node p' =>
      rw [hr] at hsrc
      simp only [srcOf, Src.comb.injEq] at hsrc
      subst hsrc
      rw [hk] at hr
      obtain ⟨h1, h2⟩ := resolve_node_needed hz k t.keys.length p' (k - (d + 1)) (d + 1) j' (by omega) hj' hr
      exact ⟨h1, by rw [shape_live_eq hs k hk p' h1]; exact h2⟩
  rcases h with h | h
  · rw [child_left] at h; exact key (2 * j) (by omega) h
  · rw [child_right] at h; exact key (2 * j + 1) (by omega) h

/-- an element a live combiner is linked to is the key of a dense leaf below it -/
theorem want_elem_anc (k : Nat) (keys : List κ) (hnd : keys.Nodup) (q : Nat) (hq : q < 2 ^ k - 1) (key : κ)
    (h : mentionsB (wantBind (2 ^ k) keys q) (.elem key) = true) :
    key ∈ keys ∧ ∃ i, leafOf keys key = some i ∧ q ∈ pathFrom (2 ^ k - 1) (internalCount (2 ^ k) + i) := by
  obtain ⟨d, j, hj, he⟩ := exists_level q
  have hd := level_depth_le k d j q hq he
  subst he
  have hdp := two_pow_pos' d
  have hpow : 2 ^ (d + 1) = 2 * 2 ^ d := by rw [Nat.pow_succ]; omega
  have hsp := two_pow_pos' (k - (d + 1))
  have hspan : 2 ^ (k - d) = 2 * 2 ^ (k - (d + 1)) := by
    have : k - d = (k - (d + 1)) + 1 := by omega
    rw [this, Nat.pow_succ]; omega
  unfold mentionsB wantBind at h
  simp only [Bool.or_eq_true, decide_eq_true_eq] at h
  have key' : ∀ j', (j' = 2 * j ∨ j' = 2 * j + 1) →
      srcOf keys (resolveClosed (2 ^ k) keys.length (2 ^ (d + 1) + j' - 1)) = .elem key →
      key ∈ keys ∧ ∃ i, leafOf keys key = some i ∧
        2 ^ d + j - 1 ∈ pathFrom (2 ^ k - 1) (internalCount (2 ^ k) + i) := by
    intro j' hj' hsrc
    have hj'lt : j' < 2 ^ (d + 1) := by omega
    cases hr : resolveClosed (2 ^ k) keys.length (2 ^ (d + 1) + j' - 1) with
    | empty => rw [hr] at hsrc; cases hsrc
    | node p' => rw [hr] at hsrc; cases hsrc
    | leaf i =>
      rw [hr] at hsrc
      simp only [srcOf] at hsrc
      cases hki : keys[i]? with
      | none => rw [hki] at hsrc; cases hsrc
      | some k' =>
        rw [hki] at hsrc
        simp only [Src.elem.injEq] at hsrc
        subst hsrc
        rw [resolveClosed_eq_spec k (d + 1) j' _ (by omega) hj'lt] at hr
        have hi := spec_leaf_first _ _ _ _ _ hr
        refine ⟨List.mem_of_getElem? hki, i, leafOf_getElem hnd i k' hki, ?_⟩
        have hkd : k = d + (k - d) := by omega
        have hlo : j * 2 ^ (k - d) ≤ i ∧ i < (j + 1) * 2 ^ (k - d) := by
          rw [hspan, hi]
          have e1 : 2 * j * 2 ^ (k - (d + 1)) = j * (2 * 2 ^ (k - (d + 1))) := by
            rw [Nat.mul_assoc, Nat.mul_left_comm]
          have e2 : (2 * j + 1) * 2 ^ (k - (d + 1)) = j * (2 * 2 ^ (k - (d + 1))) + 2 ^ (k - (d + 1)) := by
            rw [Nat.add_mul, Nat.one_mul, e1]
          have e3 : (j + 1) * (2 * 2 ^ (k - (d + 1))) = j * (2 * 2 ^ (k - (d + 1))) + 2 * 2 ^ (k - (d + 1)) := by
            rw [Nat.add_mul, Nat.one_mul]
          rcases hj' with rfl | rfl <;> omega
        have := ancestor_mem (2 ^ k - 1) d (k - d) j i (by omega) hj hlo.1 hlo.2 (pos_lt k d j hd hj)
        rw [← hkd] at this
        exact this
  rcases h with h | h
  · rw [child_left] at h; exact key' (2 * j) (Or.inl rfl) h
  · rw [child_right] at h; exact key' (2 * j + 1) (Or.inr rfl) h

/-- a link to the zero input means an empty child aggregate -/
theorem want_zero_empty (cap : Nat) (keys : List κ) (q : Nat)
    (h : mentionsB (wantBind cap keys q) (.zero) = true) :
    (resolveClosed cap keys.length (2 * q + 1)).isEmpty = true ∨ (resolveClosed cap keys.length (2 * q + 2)).isEmpty = true := by
  unfold mentionsB wantBind at h
  simp only [Bool.or_eq_true, decide_eq_true_eq] at h
  have key : ∀ c, srcOf keys (resolveClosed cap keys.length c) = .zero → (resolveClosed cap keys.length c).isEmpty = true := by
    intro c hs
    cases hr : resolveClosed cap keys.length c with
    | empty => rfl
    | node p => rw [hr] at hs; cases hs
    | leaf i =>
      have hi := resolve_leaf_lt _ _ _ _ hr
      rw [hr] at hs
      simp only [srcOf] at hs
      rw [List.getElem?_eq_getElem hi] at hs
      cases hs
  rcases h with h | h
  · exact Or.inl (key _ h)
  · exact Or.inr (key _ h)

end Links

/-! ## phase 1, position by position -/

section Phase1Iff

theorem phase1Step_other (hz : Bool) (cap live : Nat) (s : Phase1) (p q : Nat) (h : q ≠ p) :
    (phase1Step hz cap live s p).comb[q]? = s.comb[q]? := by
  rw [(phase1Step_comb hz cap live s p).2 q]
  have : ¬ (q = p ∧ p < s.comb.length) := fun hc => h hc.1
  rw [if_neg this]

theorem phase1Step_created_iff (hz : Bool) (cap live : Nat) (s : Phase1) (p q : Nat) :
    q ∈ (phase1Step hz cap live s p).created ↔
      q ∈ s.created ∨ (q = p ∧ s.comb[p]? = some false ∧ neededAt hz cap live p = true) := by
  unfold phase1Step
  simp only
  cases hc : s.comb[p]? with
  | none => simp
  | some b =>
    cases b with
    | false =>
      simp only
      cases hn : neededAt hz cap live p with
      | false => simp
      | true => simp
    | true =>
      simp only
      cases hn : neededAt hz cap live p with
      | false => simp
      | true => simp

theorem phase1Step_retired_iff (hz : Bool) (cap live : Nat) (s : Phase1) (p q : Nat) :
    q ∈ (phase1Step hz cap live s p).retired ↔
      q ∈ s.retired ∨ (q = p ∧ s.comb[p]? = some true ∧ neededAt hz cap live p = false) := by
  unfold phase1Step
  simp only
  cases hc : s.comb[p]? with
  | none => simp
  | some b =>
    cases b with
    | false =>
      simp only
      cases hn : neededAt hz cap live p with
      | false => simp
      | true => simp
    | true =>
      simp only
      cases hn : neededAt hz cap live p with
      | false => simp
      | true => simp

/-- over a duplicate-free list of positions, phase 1 creates a combiner exactly where none existed and
    one is needed, and sets one aside exactly where one existed and none is needed -/
theorem phase1_fold_iff (hz : Bool) (cap live : Nat) (ps : List Nat) (hnd : ps.Nodup) (s : Phase1) (q : Nat) :
    (q ∈ (ps.foldl (phase1Step hz cap live) s).created ↔
      q ∈ s.created ∨ (q ∈ ps ∧ s.comb[q]? = some false ∧ neededAt hz cap live q = true)) ∧
    (q ∈ (ps.foldl (phase1Step hz cap live) s).retired ↔
      q ∈ s.retired ∨ (q ∈ ps ∧ s.comb[q]? = some true ∧ neededAt hz cap live q = false)) := by
  induction ps generalizing s with
  | nil => simp
  | cons p ps ih =>
    rw [List.nodup_cons] at hnd
    obtain ⟨hp, hnd'⟩ := hnd
    rw [List.foldl_cons]
    obtain ⟨i1, i2⟩ := ih hnd' (phase1Step hz cap live s p)
    rw [i1, i2, phase1Step_created_iff, phase1Step_retired_iff]
    constructor
    · constructor
      · rintro ((h | ⟨rfl, h1, h2⟩) | ⟨h1, h2, h3⟩)
        · exact Or.inl h
        · exact Or.inr ⟨List.mem_cons_self, h1, h2⟩
        · have hqp : q ≠ p := fun h => hp (h ▸ h1)
          rw [phase1Step_other hz cap live s p q hqp] at h2
          exact Or.inr ⟨List.mem_cons_of_mem _ h1, h2, h3⟩
      · rintro (h | ⟨h1, h2, h3⟩)
        · exact Or.inl (Or.inl h)
        · rcases List.mem_cons.mp h1 with rfl | h1'
          · exact Or.inl (Or.inr ⟨rfl, h2, h3⟩)
          · have hqp : q ≠ p := fun h => hp (h ▸ h1')
            right
            rw [phase1Step_other hz cap live s p q hqp]
            exact ⟨h1', h2, h3⟩
    · constructor
      · rintro ((h | ⟨rfl, h1, h2⟩) | ⟨h1, h2, h3⟩)
        · exact Or.inl h
        · exact Or.inr ⟨List.mem_cons_self, h1, h2⟩
        · have hqp : q ≠ p := fun h => hp (h ▸ h1)
          rw [phase1Step_other hz cap live s p q hqp] at h2
          exact Or.inr ⟨List.mem_cons_of_mem _ h1, h2, h3⟩
      · rintro (h | ⟨h1, h2, h3⟩)
        · exact Or.inl (Or.inl h)
        · rcases List.mem_cons.mp h1 with rfl | h1'
          · exact Or.inl (Or.inr ⟨rfl, h2, h3⟩)
          · have hqp : q ≠ p := fun h => hp (h ▸ h1')
            right
            rw [phase1Step_other hz cap live s p q hqp]
            exact ⟨h1', h2, h3⟩

theorem pairwise_gt_nodup (l : List Nat) (h : l.Pairwise (· > ·)) : l.Nodup := by
  unfold List.Nodup
  exact h.imp (fun hab => by omega)

theorem reverse_nodup_of_gt (l : List Nat) (h : l.Pairwise (· > ·)) : l.reverse.Nodup := by
  unfold List.Nodup
  rw [List.pairwise_reverse]
  exact h.imp (fun hab => by omega)

theorem structuralPositions_pairwise (cap size : Nat) (sl : List Nat) :
    (structuralPositions cap size sl).Pairwise (· > ·) := by
  unfold structuralPositions
  exact descSet_pairwise _

end Phase1Iff

section RebuildFacts
variable {κ : Type} [DecidableEq κ]

theorem rebuildPositions_pairwise (hz : Bool) (t1 : Tree κ) (full : Bool) :
    (rebuildPositions hz t1 full).Pairwise (· > ·) := by
  unfold rebuildPositions
  simp only
  split
  · exact allPositionsDesc_pairwise _
  · exact structuralPositions_pairwise _ _ _

/-- what `rebuild_structure` does, position by position: the combiners after it, which were created
    (none before, needed now) and which were set aside (one before, not needed now) -/
theorem rebuildInfo_pointwise (hz : Bool) (now : Nat) (t1 : Tree κ) (full : Bool) :
    (rebuildInfo hz now t1 full).positions.Pairwise (· > ·) ∧
    (rebuildInfo hz now t1 full).tree.combiners.length = (rebuildComb0 hz t1).length ∧
    (∀ q, q < (rebuildComb0 hz t1).length → (rebuildInfo hz now t1 full).tree.combiners[q]? =
      if q ∈ (rebuildInfo hz now t1 full).positions
      then some (neededAt hz (rebuildInfo hz now t1 full).tree.cap t1.keys.length q)
      else (rebuildComb0 hz t1)[q]?) ∧
    (∀ q, q ∈ (rebuildInfo hz now t1 full).created ↔
      q ∈ (rebuildInfo hz now t1 full).positions ∧ (rebuildComb0 hz t1)[q]? = some false ∧
        neededAt hz (rebuildInfo hz now t1 full).tree.cap t1.keys.length q = true) ∧
    (∀ q, q ∈ (rebuildInfo hz now t1 full).retired ↔
      q ∈ (rebuildInfo hz now t1 full).positions ∧ (rebuildComb0 hz t1)[q]? = some true ∧
        neededAt hz (rebuildInfo hz now t1 full).tree.cap t1.keys.length q = false) := by
  have hP : (rebuildInfo hz now t1 full).positions = rebuildPositions hz t1 full := rfl
  have hcap : (rebuildInfo hz now t1 full).tree.cap = newCapacity hz t1.cap t1.keys.length := rfl
  obtain ⟨hfl, hfq⟩ := phase1_fold_comb hz (newCapacity hz t1.cap t1.keys.length) t1.keys.length
    (rebuildPositions hz t1 full) { comb := rebuildComb0 hz t1 }
  have hpw := rebuildPositions_pairwise hz t1 full
  have hiff := phase1_fold_iff hz (newCapacity hz t1.cap t1.keys.length) t1.keys.length
    (rebuildPositions hz t1 full) (pairwise_gt_nodup _ hpw) { comb := rebuildComb0 hz t1 }
  refine ⟨by rw [hP]; exact hpw, hfl, ?_, ?_, ?_⟩
  · intro q hq
    rw [hP, hcap]
    exact hfq q hq
  · intro q
    rw [hP, hcap]
    have := (hiff q).1
    simp only [List.not_mem_nil, false_or] at this
    exact this
  · intro q
    rw [hP, hcap]
    have := (hiff q).2
    simp only [List.not_mem_nil, false_or] at this
    exact this

end RebuildFacts

/-! ## the invariant of the generic path -/

section GenInvDef
variable {κ α : Type} [DecidableEq κ]

/-- the effective zero operand: the zero input's value, nothing when there is no zero input -/
def effZero (hz : Bool) (zero : Option α) : Option α := if hz then zero else none

/-- the links of every live combiner are what `bind_combiner_inputs` would make now -/
def Bound (t : Tree κ) (bind : List (Src κ × Src κ)) : Prop :=
  ∀ q, combLive t.combiners q = true → bindAt bind q = wantBind t.cap t.keys q

/-- the invariant of the generic path: the cache invariant, every live combiner is linked to the
    outputs its child aggregates resolve to NOW, and no child graph holds a pending schedule -/
structure GenInv (f : α → α → α) (hz : Bool) (zero : Option α) (src : κ → Option α) (s : GSt κ α) : Prop where
  cache : CacheInv f hz zero src s.toL
  bindLen : s.bind.length = s.tree.combiners.length
  schedLen : s.sched.length = s.tree.combiners.length
  bound : Bound s.tree s.bind
  idle : ∀ q, combLive s.tree.combiners q = true → schedAt s.sched q = false

/-- a live combiner with an empty child aggregate is the singleton root of a reduction with a zero -/
theorem needed_empty_child (hz : Bool) (cap n q : Nat) (h : neededAt hz cap n q = true)
    (he : (resolveClosed cap n (2 * q + 1)).isEmpty = true ∨ (resolveClosed cap n (2 * q + 2)).isEmpty = true) :
    q = 0 ∧ hz = true ∧ n = 1 := by
  unfold neededAt at h
  simp only [Bool.or_eq_true, Bool.and_eq_true, beq_iff_eq, Bool.not_eq_true'] at h
  rcases h with ⟨⟨h1, h2⟩, h3⟩ | ⟨h1, h2⟩
  · exact ⟨h1, h2, h3⟩
  · rcases he with he | he
    · rw [he] at h1; cases h1
    · rw [he] at h2; cases h2

/-- in a consistent state every live combiner is consistent with its linked inputs -/
theorem good_localOK (f : α → α → α) (hf : ∀ a b c, f (f a b) c = f a (f b c)) (hz : Bool) (zero : Option α)
    (src : κ → Option α) (t : Tree κ) (cache : List (Option α)) (bind : List (Src κ × Src κ))
    (hs : Shape hz t) (hvalid : ∀ key ∈ t.keys, (src key).isSome) (hg : Good f hz zero src t cache)
    (hb : Bound t bind) (q : Nat) (hl : combLive t.combiners q = true) :
    LocalOK f cache (effZero hz zero) src bind q := by
  have hq : q < internalCount t.cap := by
    rw [← hs.comb_len]
    rw [combLive_iff] at hl
    apply Classical.byContradiction; intro hc
    rw [List.getElem?_eq_none (by omega)] at hl; cases hl
  rcases hs.cap_pow with h0 | ⟨k, hk⟩
  · rw [h0] at hq; simp [internalCount] at hq
  rw [hk, internalCount_pow] at hq
  intro a b ha hb'
  rw [hb q hl] at ha hb'
  unfold wantBind at ha hb'
  simp only at ha hb'
  rw [readSrc_srcOf] at ha hb'
  by_cases hone : hz = true ∧ t.keys.length = 1
  · obtain ⟨hzt, hn⟩ := hone
    subst hzt
    obtain ⟨key, hkk⟩ : ∃ key, t.keys = [key] := by
      match hkk : t.keys, hn with
      | [key], _ => exact ⟨key, rfl⟩
    have hq0 : q = 0 := by
      apply needed_single true k q hq
      rw [← hn, ← shape_live_eq hs k hk q hq]; exact hl
    subst hq0
    obtain ⟨e, he, hc, _⟩ := shape_single_cap hs hn
    obtain ⟨hL, hR⟩ := resolve_single e he
    rw [hc, hn, hL] at ha
    rw [hc, hn, hR] at hb'
    simp only [aggVal, leafVal, hkk, List.getElem?_cons_zero] at ha
    simp only [aggVal, effZero, ↓reduceIte] at hb'
    exact hg.single rfl key a b hkk ha hb'
  · obtain ⟨d, j, hj, he⟩ := exists_level q
    have hd := level_depth_le k d j q hq he
    subst he
    have hvl := vals_length src t.keys hvalid
    have hneed : (2 * j + 1) * 2 ^ (k - (d + 1)) < (t.keys.filterMap src).length := by
      have := shape_live_eq hs k hk _ hq
      rw [hl, needed_inner hz k d j _ hd hj hone] at this
      rw [hvl]; simpa using this.symm
    obtain ⟨a', b', ha', hb'', hfold⟩ := reads_inner f hf (effZero hz zero) k (leafVal src t.keys)
      (t.keys.filterMap src) (leafVal_vals src t.keys hvalid) cache d j hd hj hneed
      (by
        intro d' j' hd' hj' _ hneed'
        have hq' := pos_lt k d' j' hd' hj'
        have hl' : combLive t.combiners (2 ^ d' + j' - 1) = true := by
          rw [shape_live_eq hs k hk _ hq', needed_inner hz k d' j' _ hd' hj' hone]
          rw [hvl] at hneed'; simpa using hneed'
        rw [hg.inner hone k hk _ hq' hl', sliceAt_pos k d' j' hj'])
    rw [hk, ← hvl] at ha hb'
    rw [ha'] at ha
    rw [hb''] at hb'
    injection ha with ha
    injection hb' with hb'
    subst ha; subst hb'
    rw [hg.inner hone k hk _ hq hl, sliceAt_pos k d j hj, hfold]

end GenInvDef

/-! ## the state handed to the generic evaluation pass -/

section PrePass
variable {κ α : Type} [DecidableEq κ]

/-- the schedules after the upstream ticks of the cycle -/
def sched2Of (hz : Bool) (s : GSt κ α) (i : CycleIn κ α) : List Bool :=
  let live0 := combLive s.tree.combiners
  let sched1 := i.ticked.foldl (fun sc k => notify live0 s.bind sc (.elem k)) s.sched
  if hz && i.zeroEvent then notify live0 s.bind sched1 .zero else sched1

/-- the links and schedules after `rebuild_structure` (phase 2, start of the created combiners) -/
def bsOf (hz : Bool) (s : GSt κ α) (i : CycleIn κ α) : List (Src κ × Src κ) × List Bool :=
  let pl := plan hz s.tree i
  let t' := pl.tree
  let live' := combLive t'.combiners
  let z := if hz then i.zero else none
  let cache0 := cache0Of s.cache pl.rb
  match pl.rb with
  | some r =>
    let size := t'.combiners.length
    let b0 := if r.bankChanged then List.replicate size (Src.zero, Src.zero) else s.bind
    let s0 := if r.bankChanged then List.replicate size false
              else r.created.foldl (fun sc p => sc.set p false) (r.retired.foldl (fun sc p => sc.set p false) (sched2Of hz s i))
    let ph2 := r.positions.reverse.foldl (phase2Step t'.cap t'.keys live' r.created) (b0, s0)
    (ph2.1, r.created.reverse.foldl (startStep cache0 z i.src ph2.1) ph2.2)
  | none => (s.bind, sched2Of hz s i)

theorem cycleG_st (f : α → α → α) (hz : Bool) (s : GSt κ α) (i : CycleIn κ α) :
    (cycleG f hz s i).st =
      { tree := (plan hz s.tree i).tree
        cache := ((plan hz s.tree i).cands.foldl
          (evalG f (effZero hz i.zero) i.src (combLive (plan hz s.tree i).tree.combiners) (bsOf hz s i).1)
          { cache := cache0Of s.cache (plan hz s.tree i).rb, sched := (bsOf hz s i).2 }).cache
        bind := (bsOf hz s i).1
        sched := ((plan hz s.tree i).cands.foldl
          (evalG f (effZero hz i.zero) i.src (combLive (plan hz s.tree i).tree.combiners) (bsOf hz s i).1)
          { cache := cache0Of s.cache (plan hz s.tree i).rb, sched := (bsOf hz s i).2 }).sched } := rfl

theorem sched2Of_length (hz : Bool) (s : GSt κ α) (i : CycleIn κ α) : (sched2Of hz s i).length = s.sched.length := by
  unfold sched2Of
  simp only
  split
  · rw [notify_length, (notify_fold _ _ _ _).1]
  · rw [(notify_fold _ _ _ _).1]

theorem sched2Of_at (hz : Bool) (s : GSt κ α) (i : CycleIn κ α) (q : Nat) (hq : q < s.sched.length) :
    schedAt (sched2Of hz s i) q =
      (schedAt s.sched q || (combLive s.tree.combiners q &&
        (i.ticked.any (fun k => mentionsB (bindAt s.bind q) (.elem k)) ||
          (hz && i.zeroEvent && mentionsB (bindAt s.bind q) .zero)))) := by
  unfold sched2Of
  simp only
  obtain ⟨h1, h2⟩ := notify_fold (combLive s.tree.combiners) s.bind i.ticked s.sched
  split
  · next hc =>
    rw [schedAt_notify _ _ _ _ _ (by rw [h1]; exact hq), h2 q hq, hc]
    cases schedAt s.sched q <;> cases combLive s.tree.combiners q <;> simp
  · next hc =>
    have hc' : (hz && i.zeroEvent) = false := by simpa using hc
    rw [h2 q hq, hc']
    simp

theorem plan_rb_none (hz : Bool) (told : Tree κ) (i : CycleIn κ α) (hs : Shape hz told)
    (h : (plan hz told i).rb = none) :
    (plan hz told i).tree.keys = told.keys ∧ (plan hz told i).tree.cap = told.cap ∧
    (plan hz told i).tree.combiners = told.combiners := by
  obtain ⟨e1, e2, e3, _, _⟩ := destroyPrev_fields i.now told
  have hs0 : Shape hz ({ destroyPrevBefore i.now told with structLeaves := [] } : Tree κ) := hs.of_eq e1 e2 e3
  have hcases := rebuildCall_cases hz _ hs0 i.available i.collEvent i.removed i.present
  rcases hcall : rebuildCall hz { destroyPrevBefore i.now told with structLeaves := [] } i.available
    i.collEvent i.removed i.present with ⟨t1, call⟩
  rw [hcall] at hcases
  simp only at hcases
  cases call with
  | none =>
    rw [plan_none hz told i t1 hcall]
    rcases hcases with ⟨_, hk, hc, hm⟩ | ⟨hx, _⟩ | ⟨hx, _⟩
    · exact ⟨by rw [hk, e1], by rw [hc, e2], by rw [hm, e3]⟩
    · cases hx
    · cases hx
  | some full =>
    rw [plan_some hz told i t1 full hcall] at h
    cases h

theorem plan_rb_some (hz : Bool) (told : Tree κ) (i : CycleIn κ α) (hs : Shape hz told) (r : Rebuilt κ)
    (h : (plan hz told i).rb = some r) :
    ∃ t1 full, r = rebuildInfo hz i.now t1 full ∧ t1.combiners = told.combiners ∧ t1.cap = told.cap ∧
      (plan hz told i).tree = r.tree := by
  obtain ⟨e1, e2, e3, _, _⟩ := destroyPrev_fields i.now told
  have hs0 : Shape hz ({ destroyPrevBefore i.now told with structLeaves := [] } : Tree κ) := hs.of_eq e1 e2 e3
  have hcases := rebuildCall_cases hz _ hs0 i.available i.collEvent i.removed i.present
  rcases hcall : rebuildCall hz { destroyPrevBefore i.now told with structLeaves := [] } i.available
    i.collEvent i.removed i.present with ⟨t1, call⟩
  rw [hcall] at hcases
  simp only at hcases
  cases call with
  | none =>
    rw [plan_none hz told i t1 hcall] at h
    cases h
  | some full =>
    rw [plan_some hz told i t1 full hcall] at h ⊢
    simp only [Option.some.injEq] at h
    refine ⟨t1, full, h.symm, ?_, ?_, by rw [h]⟩
    · rcases hcases with ⟨hx, _⟩ | ⟨_, _, hm, _⟩ | ⟨_, hinv, _⟩
      · cases hx
      · rw [hm, e3]
      · rw [hinv.combiners, e3]
    · rcases hcases with ⟨hx, _⟩ | ⟨_, hc, _, _⟩ | ⟨_, hinv, _⟩
      · cases hx
      · rw [hc, e2]
      · rw [hinv.cap, e2]

theorem readSrc_same (cOld cNew : List (Option α)) (zOld zNew : Option α) (srcOld srcNew : κ → Option α) (x : Src κ)
    (he : ∀ k, x = .elem k → srcNew k = srcOld k) (hz : x = .zero → zNew = zOld)
    (hc : ∀ p, x = .comb p → cNew[p]? = cOld[p]?) :
    readSrc cNew zNew srcNew x = readSrc cOld zOld srcOld x := by
  cases x with
  | zero => exact hz rfl
  | elem k => exact he k rfl
  | comb p => simp only [readSrc]; rw [hc p rfl]

theorem mentionsB_fst (b : Src κ × Src κ) : mentionsB b b.1 = true := by unfold mentionsB; simp
theorem mentionsB_snd (b : Src κ × Src κ) : mentionsB b b.2 = true := by unfold mentionsB; simp

theorem size_lt_of_live (l : List Bool) (q : Nat) (h : combLive l q = true) : q < l.length := by
  rw [combLive_iff] at h
  apply Classical.byContradiction; intro hc
  rw [List.getElem?_eq_none (by omega)] at h; cases h

/-- A combiner that existed before the cycle, kept its links, received no tick through them, and whose
    own and linked combiners' outputs were not touched by the rebuild is consistent with its inputs
    under the new values as it was under the old ones. -/
theorem kept_localOK (f : α → α → α) (hf : ∀ a b c, f (f a b) c = f a (f b c)) (hz : Bool) (s : GSt κ α)
    (i : CycleIn κ α) (src0 : κ → Option α) (zero0 : Option α) (h : GenInv f hz zero0 src0 s)
    (t' : Tree κ) (hs' : Shape hz t')
    (hsrc : ∀ key ∈ t'.keys, key ∉ i.ticked → i.src key = src0 key)
    (hzero : i.zeroEvent = false → i.zero = zero0)
    (k : Nat) (hk : t'.cap = 2 ^ k) (hkO : s.tree.cap = 2 ^ k)
    (c0 : List (Option α)) (bind' : List (Src κ × Src κ)) (q : Nat)
    (hlO : combLive s.tree.combiners q = true) (hl' : combLive t'.combiners q = true)
    (hb : bindAt bind' q = bindAt s.bind q) (hw : bindAt bind' q = wantBind t'.cap t'.keys q)
    (hs2 : schedAt (sched2Of hz s i) q = false)
    (hcc : ∀ p, combLive t'.combiners p = true → combLive s.tree.combiners p = true → c0[p]? = s.cache[p]?) :
    LocalOK f c0 (effZero hz i.zero) i.src bind' q := by
  have hsO : Shape hz s.tree := h.cache.shape
  have hold := good_localOK f hf hz zero0 src0 s.tree s.cache s.bind hsO h.cache.valid h.cache.good h.bound q hlO
  have hqO : q < s.tree.combiners.length := size_lt_of_live _ _ hlO
  have hsizeO : s.tree.combiners.length = 2 ^ k - 1 := by
    have := hsO.comb_len; rw [hkO, internalCount_pow] at this; exact this
  have hq' : q < 2 ^ k - 1 := by omega
  have hs2' := sched2Of_at hz s i q (by rw [h.schedLen]; exact hqO)
  rw [hs2, hlO] at hs2'
  simp only [Bool.true_and] at hs2'
  have hs2'' : (i.ticked.any (fun k => mentionsB (bindAt s.bind q) (.elem k)) ||
      (hz && i.zeroEvent && mentionsB (bindAt s.bind q) .zero)) = false := by
    cases hx : (i.ticked.any (fun k => mentionsB (bindAt s.bind q) (.elem k)) ||
      (hz && i.zeroEvent && mentionsB (bindAt s.bind q) .zero)) with
    | false => rfl
    | true => rw [hx] at hs2'; simp at hs2'
  simp only [Bool.or_eq_false_iff] at hs2''
  obtain ⟨hnt, hnz⟩ := hs2''
  have hwO : bindAt s.bind q = wantBind s.tree.cap s.tree.keys q := h.bound q hlO
  have key : ∀ x, mentionsB (bindAt bind' q) x = true →
      readSrc c0 (effZero hz i.zero) i.src x = readSrc s.cache (effZero hz zero0) src0 x := by
    intro x hx
    apply readSrc_same
    · intro key hxe
      subst hxe
      rw [hw, hk] at hx
      have hmem := (want_elem_anc k t'.keys hs'.nodup q hq' key hx).1
      apply hsrc key hmem
      intro hkt
      rw [List.any_eq_false] at hnt
      have := hnt key hkt
      rw [← hb, hw, hk, hx] at this
      exact this rfl
    · intro hxz
      subst hxz
      cases hz with
      | false => rfl
      | true =>
        simp only [effZero, ↓reduceIte]
        apply hzero
        cases hze : i.zeroEvent with
        | false => rfl
        | true =>
          rw [hze, ← hb, hx] at hnz
          simp at hnz
    · intro p hxp
      subst hxp
      have h1 := want_comb_live hz t' hs' k hk q p hq' (by rw [← hw]; exact hx)
      have h2 := want_comb_live hz s.tree hsO k hkO q p hq' (by rw [← hwO, ← hb]; exact hx)
      exact hcc p h1.2 h2.2
  intro a b ha hb'
  rw [key _ (mentionsB_fst _)] at ha
  rw [key _ (mentionsB_snd _)] at hb'
  rw [hb] at ha hb'
  rw [hcc q hl' hlO]
  exact hold a b ha hb'

/-- a pending schedule delivered by an upstream tick belongs to a candidate -/
theorem sched2_cand (hz : Bool) (s : GSt κ α) (i : CycleIn κ α) (t' : Tree κ) (hs' : Shape hz t')
    (hidle : ∀ q, combLive s.tree.combiners q = true → schedAt s.sched q = false)
    (hslen : s.sched.length = s.tree.combiners.length)
    (cands sl : List Nat) (hin : Incr hz s.tree t' cands i.ticked i.zeroEvent sl)
    (k : Nat) (hk : t'.cap = 2 ^ k) (q : Nat)
    (hlO : combLive s.tree.combiners q = true) (hl' : combLive t'.combiners q = true)
    (hw : bindAt s.bind q = wantBind t'.cap t'.keys q)
    (hs2 : schedAt (sched2Of hz s i) q = true) : q ∈ cands := by
  have hqO : q < s.tree.combiners.length := size_lt_of_live _ _ hlO
  have hq'' : q < t'.combiners.length := size_lt_of_live _ _ hl'
  have hsize : t'.combiners.length = 2 ^ k - 1 := by
    have := hs'.comb_len; rw [hk, internalCount_pow] at this; exact this
  have hs2' := sched2Of_at hz s i q (by rw [hslen]; exact hqO)
  rw [hs2, hidle q hlO, hlO] at hs2'
  simp only [Bool.false_or, Bool.true_and] at hs2'
  have hs2'' := hs2'.symm
  simp only [Bool.or_eq_true, List.any_eq_true, Bool.and_eq_true] at hs2''
  rcases hs2'' with ⟨key, hkt, hm⟩ | ⟨⟨hzt, hze⟩, hm⟩
  · rw [hw, hk] at hm
    obtain ⟨_, li, hli, hp⟩ := want_elem_anc k t'.keys hs'.nodup q (by omega) key hm
    apply hin.cT key hkt li hli q _ hl'
    rw [hsize, hk]; exact hp
  · rw [hw] at hm
    have hempty := want_zero_empty _ _ _ hm
    have hneeded : neededAt hz t'.cap t'.keys.length q = true := by
      rw [hk, ← shape_live_eq hs' k hk q (by omega)]; exact hl'
    obtain ⟨hq0, _, hn⟩ := needed_empty_child hz _ _ _ hneeded hempty
    rw [hq0]
    exact hin.cZ hzt hze hn

theorem bsOf_none (hz : Bool) (s : GSt κ α) (i : CycleIn κ α) (h : (plan hz s.tree i).rb = none) :
    bsOf hz s i = (s.bind, sched2Of hz s i) := by
  unfold bsOf
  simp only [h]

theorem bsOf_some (hz : Bool) (s : GSt κ α) (i : CycleIn κ α) (r : Rebuilt κ) (h : (plan hz s.tree i).rb = some r) :
    bsOf hz s i =
      ((r.positions.reverse.foldl
          (phase2Step (plan hz s.tree i).tree.cap (plan hz s.tree i).tree.keys
            (combLive (plan hz s.tree i).tree.combiners) r.created)
          (if r.bankChanged then List.replicate (plan hz s.tree i).tree.combiners.length (Src.zero, Src.zero) else s.bind,
           if r.bankChanged then List.replicate (plan hz s.tree i).tree.combiners.length false
           else r.created.foldl (fun sc p => sc.set p false)
             (r.retired.foldl (fun sc p => sc.set p false) (sched2Of hz s i)))).1,
       r.created.reverse.foldl
         (startStep (cacheAfterRebuild s.cache r) (effZero hz i.zero) i.src
           (r.positions.reverse.foldl
            (phase2Step (plan hz s.tree i).tree.cap (plan hz s.tree i).tree.keys
              (combLive (plan hz s.tree i).tree.combiners) r.created)
            (if r.bankChanged then List.replicate (plan hz s.tree i).tree.combiners.length (Src.zero, Src.zero) else s.bind,
             if r.bankChanged then List.replicate (plan hz s.tree i).tree.combiners.length false
             else r.created.foldl (fun sc p => sc.set p false)
               (r.retired.foldl (fun sc p => sc.set p false) (sched2Of hz s i)))).1)
         (r.positions.reverse.foldl
          (phase2Step (plan hz s.tree i).tree.cap (plan hz s.tree i).tree.keys
            (combLive (plan hz s.tree i).tree.combiners) r.created)
          (if r.bankChanged then List.replicate (plan hz s.tree i).tree.combiners.length (Src.zero, Src.zero) else s.bind,
           if r.bankChanged then List.replicate (plan hz s.tree i).tree.combiners.length false
           else r.created.foldl (fun sc p => sc.set p false)
             (r.retired.foldl (fun sc p => sc.set p false) (sched2Of hz s i)))).2) := by
  unfold bsOf
  simp only [h, cache0Of, effZero]

/-- starting the created combiners (no distinctness needed: the value written does not depend on the
    schedules) -/
theorem start_fold' (cache : List (Option α)) (z : Option α) (src : κ → Option α) (bind : List (Src κ × Src κ))
    (ps : List Nat) (sched : List Bool) :
    (ps.foldl (startStep cache z src bind) sched).length = sched.length ∧
    (∀ q, q ∉ ps → schedAt (ps.foldl (startStep cache z src bind) sched) q = schedAt sched q) ∧
    (∀ q ∈ ps, q < sched.length → schedAt (ps.foldl (startStep cache z src bind) sched) q =
      ((readSrc cache z src (bindAt bind q).1).isSome || (readSrc cache z src (bindAt bind q).2).isSome)) := by
  induction ps generalizing sched with
  | nil => exact ⟨rfl, fun q _ => rfl, fun q hq => by simp at hq⟩
  | cons p ps ih =>
    rw [List.foldl_cons]
    obtain ⟨i1, i2, i3⟩ := ih (startStep cache z src bind sched p)
    have hl : (startStep cache z src bind sched p).length = sched.length := by unfold startStep; simp
    refine ⟨by rw [i1, hl], ?_, ?_⟩
    · intro q hq
      rw [i2 q (fun hc => hq (List.mem_cons_of_mem _ hc))]
      unfold startStep
      simp only
      rw [schedAt_set]
      have : ¬ (p = q ∧ p < sched.length) := fun h => hq (by rw [h.1]; exact List.mem_cons_self)
      simp [this]
    · intro q hq hlt
      by_cases hmem : q ∈ ps
      · exact i3 q hmem (by rw [hl]; exact hlt)
      · have hqp : q = p := by
          rcases List.mem_cons.mp hq with h | h
          · exact h
          · exact absurd h hmem
        subst hqp
        rw [i2 q hmem]
        unfold startStep
        simp only
        rw [schedAt_set]
        simp [hlt]

theorem bindAt_replicate (n q : Nat) (b : Src κ × Src κ) (hq : q < n) : bindAt (List.replicate n b) q = b := by
  unfold bindAt
  simp [hq]

theorem schedAt_replicate (n q : Nat) : schedAt (List.replicate n false) q = false := by
  unfold schedAt
  by_cases hq : q < n
  · simp [hq]
  · rw [List.getElem?_eq_none (by simp; omega)]; rfl

/-- WHAT THE EVALUATION PASS OF THE GENERIC PATH STARTS FROM: after the upstream ticks, the rebuild, phase 2
    and the start of the created combiners, every live combiner is linked to what its child aggregates
    resolve to now; every live combiner holding a schedule is an evaluation candidate; every live
    combiner without a schedule is consistent with its linked inputs. -/
theorem gen_pre (f : α → α → α) (hf : ∀ a b c, f (f a b) c = f a (f b c)) (hz : Bool) (s : GSt κ α)
    (i : CycleIn κ α) (src0 : κ → Option α) (zero0 : Option α) (h : GenInv f hz zero0 src0 s)
    (hsrc : ∀ key ∈ (plan hz s.tree i).tree.keys, key ∉ i.ticked → i.src key = src0 key)
    (hzero : i.zeroEvent = false → i.zero = zero0)
    (hev : i.ticked ≠ [] → i.collEvent = true ∧ i.available = true) :
    (bsOf hz s i).1.length = (plan hz s.tree i).tree.combiners.length ∧
    (bsOf hz s i).2.length = (plan hz s.tree i).tree.combiners.length ∧
    Bound (plan hz s.tree i).tree (bsOf hz s i).1 ∧
    (∀ q, combLive (plan hz s.tree i).tree.combiners q = true → schedAt (bsOf hz s i).2 q = true →
      q ∈ (plan hz s.tree i).cands) ∧
    (∀ q, combLive (plan hz s.tree i).tree.combiners q = true → schedAt (bsOf hz s i).2 q = false →
      LocalOK f (cache0Of s.cache (plan hz s.tree i).rb) (effZero hz i.zero) i.src (bsOf hz s i).1 q) := by
  have hsO : Shape hz s.tree := h.cache.shape
  have hshape' := plan_shape hz s.tree i hsO
  have kinds := plan_kinds hz s.tree i hsO hev
  -- capacity `2^k` whenever a combiner is live
  have hcapk : ∀ q, combLive (plan hz s.tree i).tree.combiners q = true →
      ∃ k, (plan hz s.tree i).tree.cap = 2 ^ k ∧ q < 2 ^ k - 1 ∧ (plan hz s.tree i).tree.combiners.length = 2 ^ k - 1 := by
    intro q hl
    have hq := size_lt_of_live _ _ hl
    rcases hshape'.cap_pow with h0 | ⟨k, hk⟩
    · rw [hshape'.comb_len, h0] at hq; simp [internalCount] at hq
    · have hsz : (plan hz s.tree i).tree.combiners.length = 2 ^ k - 1 := by
        rw [hshape'.comb_len, hk, internalCount_pow]
      exact ⟨k, hk, by omega, hsz⟩
  cases hrb : (plan hz s.tree i).rb with
  | none =>
    obtain ⟨ek, ec, em⟩ := plan_rb_none hz s.tree i hsO hrb
    rw [bsOf_none hz s i hrb]
    have hbound : Bound (plan hz s.tree i).tree s.bind := by
      intro q hl
      rw [ek, ec]
      exact h.bound q (by rw [← em]; exact hl)
    refine ⟨by rw [h.bindLen, em], by rw [sched2Of_length, h.schedLen, em], hbound, ?_, ?_⟩
    · intro q hl hs2
      rcases kinds with ⟨hall, _⟩ | ⟨sl, hin, _, _⟩
      · exact hall q (size_lt_of_live _ _ hl) hl
      · obtain ⟨k, hk, _, _⟩ := hcapk q hl
        exact sched2_cand hz s i _ hshape' h.idle h.schedLen _ sl hin k hk q (by rw [← em]; exact hl) hl
          (hbound q hl) hs2
    · intro q hl hs2
      obtain ⟨k, hk, _, _⟩ := hcapk q hl
      simp only [cache0Of]
      exact kept_localOK f hf hz s i src0 zero0 h _ hshape' hsrc hzero k hk (by rw [← ec, hk]) s.cache s.bind q
        (by rw [← em]; exact hl) hl rfl (hbound q hl) hs2 (fun p _ _ => rfl)
  | some r =>
    obtain ⟨t1, full, hr, hcomb1, hcap1, htree⟩ := plan_rb_some hz s.tree i hsO r hrb
    obtain ⟨pw, plen, pcomb, pcreated, pretired⟩ := rebuildInfo_pointwise hz i.now t1 full
    rw [← hr] at pw plen pcomb pcreated pretired
    rw [bsOf_some hz s i r hrb]
    simp only [cache0Of]
    have hnd : r.positions.reverse.Nodup := reverse_nodup_of_gt _ pw
    -- the size of the new tree
    have hsize' : (plan hz s.tree i).tree.combiners.length = (rebuildComb0 hz t1).length := by rw [htree, plen]
    have hbcdef : r.bankChanged = (newCapacity hz t1.cap t1.keys.length != t1.cap) := by rw [hr]; rfl
    have hcapr : r.tree.cap = newCapacity hz t1.cap t1.keys.length := by rw [hr]; rfl
    have hkeysr : r.tree.keys = t1.keys := by rw [hr]; rfl
    -- liveness after the rebuild, position by position
    have hlive' : ∀ q, combLive (plan hz s.tree i).tree.combiners q = true →
        q < (rebuildComb0 hz t1).length ∧
        (if q ∈ r.positions then neededAt hz r.tree.cap t1.keys.length q = true
         else (rebuildComb0 hz t1)[q]? = some true) := by
      intro q hl
      have hq := size_lt_of_live _ _ hl
      rw [hsize'] at hq
      refine ⟨hq, ?_⟩
      rw [combLive_iff, htree, pcomb q hq] at hl
      split
      · next hm => rw [if_pos hm] at hl; injection hl
      · next hm => rw [if_neg hm] at hl; exact hl
    cases hbc : r.bankChanged with
    | true =>
      -- capacity growth: every combiner is a fresh one in the other bank
      simp only [↓reduceIte]
      have hne : newCapacity hz t1.cap t1.keys.length ≠ t1.cap := by
        rw [hbcdef] at hbc; simpa using hbc
      have hc0 : rebuildComb0 hz t1 = List.replicate (if newCapacity hz t1.cap t1.keys.length > 1 then newCapacity hz t1.cap t1.keys.length - 1 else 0) false := by
        unfold rebuildComb0; simp [hne]
      have hposall : r.positions = allPositionsDesc r.tree.combiners.length := by
        rw [hr]; exact rebuildInfo_full hz i.now t1 full (Or.inr hne)
      have hcreated : ∀ q, combLive (plan hz s.tree i).tree.combiners q = true → q ∈ r.created := by
        intro q hl
        obtain ⟨hq, hn⟩ := hlive' q hl
        have hmem : q ∈ r.positions := by
          rw [hposall, mem_allPositionsDesc, ← htree, hsize']; exact hq
        rw [if_pos hmem] at hn
        rw [pcreated q]
        refine ⟨hmem, ?_, hn⟩
        rw [hc0] at hq ⊢
        simp only [List.length_replicate] at hq
        simp [hq]
      obtain ⟨f1, f2, f3, f4⟩ := phase2_fold (plan hz s.tree i).tree.cap (plan hz s.tree i).tree.keys
        (combLive (plan hz s.tree i).tree.combiners) r.created r.positions.reverse hnd
        (List.replicate (plan hz s.tree i).tree.combiners.length (Src.zero, Src.zero),
         List.replicate (plan hz s.tree i).tree.combiners.length false)
      simp only [List.length_replicate] at f1 f2 f4
      obtain ⟨g1, g2, g3⟩ := start_fold' (cacheAfterRebuild s.cache r) (effZero hz i.zero) i.src
        (r.positions.reverse.foldl
          (phase2Step (plan hz s.tree i).tree.cap (plan hz s.tree i).tree.keys
            (combLive (plan hz s.tree i).tree.combiners) r.created)
          (List.replicate (plan hz s.tree i).tree.combiners.length (Src.zero, Src.zero),
           List.replicate (plan hz s.tree i).tree.combiners.length false)).1
        r.created.reverse
        (r.positions.reverse.foldl
          (phase2Step (plan hz s.tree i).tree.cap (plan hz s.tree i).tree.keys
            (combLive (plan hz s.tree i).tree.combiners) r.created)
          (List.replicate (plan hz s.tree i).tree.combiners.length (Src.zero, Src.zero),
           List.replicate (plan hz s.tree i).tree.combiners.length false)).2
      have hat : ∀ q, combLive (plan hz s.tree i).tree.combiners q = true →
          q ∈ r.positions.reverse ∧ q < (plan hz s.tree i).tree.combiners.length := by
        intro q hl
        have hq := size_lt_of_live _ _ hl
        refine ⟨?_, hq⟩
        rw [List.mem_reverse, hposall, mem_allPositionsDesc, ← htree]; exact hq
      refine ⟨f1, by rw [g1, f2], ?_, ?_, ?_⟩
      · intro q hl
        obtain ⟨hm, hq⟩ := hat q hl
        exact (f4 q hm hl hq hq).1
      · intro q hl _
        rcases kinds with ⟨hall, _⟩ | ⟨sl, _, hrbi, _⟩
        · exact hall q (size_lt_of_live _ _ hl) hl
        · rw [hrb] at hrbi
          have := hrbi.1
          rw [hbc] at this; cases this
      · intro q hl hs0
        obtain ⟨hm, hq⟩ := hat q hl
        rw [g3 q (List.mem_reverse.mpr (hcreated q hl)) (by rw [f2]; exact hq)] at hs0
        simp only [Bool.or_eq_false_iff] at hs0
        intro a b ha _
        rw [ha] at hs0
        simp at hs0
    | false =>
      -- rebuild inside the bank
      simp only [Bool.false_eq_true, ↓reduceIte]
      have heq : newCapacity hz t1.cap t1.keys.length = t1.cap := by
        rw [hbcdef] at hbc; simpa using hbc
      have hc0 : rebuildComb0 hz t1 = s.tree.combiners := by
        unfold rebuildComb0; simp [heq, hcomb1]
      rw [hc0] at hsize' hlive' pcreated pretired pcomb
      have hcapsame : (plan hz s.tree i).tree.cap = s.tree.cap := by rw [htree, hcapr, heq, hcap1]
      obtain ⟨c1, c2⟩ := clearSched_fold r.retired (sched2Of hz s i)
      obtain ⟨d1, d2⟩ := clearSched_fold r.created (r.retired.foldl (fun sc p => sc.set p false) (sched2Of hz s i))
      have hs0len : (r.created.foldl (fun sc p => sc.set p false)
          (r.retired.foldl (fun sc p => sc.set p false) (sched2Of hz s i))).length = s.tree.combiners.length := by
        rw [d1, c1, sched2Of_length, h.schedLen]
      have hs0at : ∀ q, q ∉ r.created → q ∉ r.retired → schedAt (r.created.foldl (fun sc p => sc.set p false)
          (r.retired.foldl (fun sc p => sc.set p false) (sched2Of hz s i))) q = schedAt (sched2Of hz s i) q := by
        intro q hnc hnr
        rw [d2 q, c2 q]
        simp [hnc, hnr]
      generalize hS0 : r.created.foldl (fun sc p => sc.set p false)
          (r.retired.foldl (fun sc p => sc.set p false) (sched2Of hz s i)) = S0 at hs0len hs0at ⊢
      obtain ⟨f1, f2, f3, f4⟩ := phase2_fold (plan hz s.tree i).tree.cap (plan hz s.tree i).tree.keys
        (combLive (plan hz s.tree i).tree.combiners) r.created r.positions.reverse hnd (s.bind, S0)
      simp only at f1 f2 f3 f4
      generalize hPH : r.positions.reverse.foldl
          (phase2Step (plan hz s.tree i).tree.cap (plan hz s.tree i).tree.keys
            (combLive (plan hz s.tree i).tree.combiners) r.created) (s.bind, S0) = PH at f1 f2 f3 f4 ⊢
      obtain ⟨g1, g2, g3⟩ := start_fold' (cacheAfterRebuild s.cache r) (effZero hz i.zero) i.src PH.1
        r.created.reverse PH.2
      -- a live combiner that was not created now existed before and was not set aside
      have hkept : ∀ q, combLive (plan hz s.tree i).tree.combiners q = true → q ∉ r.created →
          combLive s.tree.combiners q = true ∧ q ∉ r.retired := by
        intro q hl hnc
        obtain ⟨hq, hn⟩ := hlive' q hl
        by_cases hm : q ∈ r.positions
        · rw [if_pos hm] at hn
          have hold : s.tree.combiners[q]? = some true := by
            cases hb : s.tree.combiners[q] with
            | true => rw [List.getElem?_eq_getElem hq, hb]
            | false =>
              exfalso; apply hnc
              rw [pcreated q]
              exact ⟨hm, by rw [List.getElem?_eq_getElem hq, hb], hn⟩
          refine ⟨(combLive_iff _ _).mpr hold, ?_⟩
          intro hret
          rw [pretired q] at hret
          rw [hn] at hret; cases hret.2.2
        · rw [if_neg hm] at hn
          refine ⟨(combLive_iff _ _).mpr hn, ?_⟩
          intro hret
          rw [pretired q] at hret
          exact hm hret.1
      -- the rebuild left the outputs of the combiners that stayed untouched
      have hcc : ∀ p, combLive (plan hz s.tree i).tree.combiners p = true → combLive s.tree.combiners p = true →
          (cacheAfterRebuild s.cache r)[p]? = s.cache[p]? := by
        intro p hl hlO
        have hnc : p ∉ r.created := by
          intro hc
          rw [pcreated p] at hc
          rw [combLive_iff] at hlO
          rw [hlO] at hc; cases hc.2.1
        have hnr := (hkept p hl hnc).2
        unfold cacheAfterRebuild
        rw [hbc]
        simp only [Bool.false_eq_true, ↓reduceIte]
        rw [clearAt_getElem? _ _ p hnc, clearAt_getElem? _ _ p hnr]
      -- the links after phase 2 are the wanted ones, also off the visited positions
      have hbound : ∀ q, combLive (plan hz s.tree i).tree.combiners q = true →
          bindAt PH.1 q = wantBind (plan hz s.tree i).tree.cap (plan hz s.tree i).tree.keys q := by
        intro q hl
        obtain ⟨hq, hn⟩ := hlive' q hl
        by_cases hm : q ∈ r.positions
        · exact (f4 q (List.mem_reverse.mpr hm) hl (by rw [h.bindLen]; exact hq) (by rw [hs0len]; exact hq)).1
        · rw [(f3 q (Or.inl (fun hc => hm (List.mem_reverse.mp hc)))).1]
          have hlO := (hkept q hl (fun hc => hm ((pcreated q).mp hc).1)).1
          rw [h.bound q hlO]
          rcases kinds with ⟨_, hall⟩ | ⟨sl, hin, hrbi, _⟩
          · rw [hrb] at hall
            exfalso; apply hm
            have : r.positions = allPositionsDesc (plan hz s.tree i).tree.combiners.length := hall
            rw [this, mem_allPositionsDesc, hsize']; exact hq
          · rw [hrb] at hrbi
            obtain ⟨k, hk, hqk, hsz⟩ := hcapk q hl
            obtain ⟨d, j, hj, he⟩ := exists_level q
            have hd := level_depth_le k d j q hqk he
            subst he
            rw [← hcapsame, hk]
            apply wantBind_local k d j hd hj
            intro m hlo hhi
            apply Classical.byContradiction
            intro hne
            apply hm
            rw [hrbi.2.1, mem_structuralPositions, hk, hsz]
            have hkd : k = d + (k - d) := by omega
            have := ancestor_mem (2 ^ k - 1) d (k - d) j m (by omega) hj hlo hhi hqk
            rw [← hkd] at this
            exact ⟨m, hin.moved m hne, this⟩
      -- the schedules after phase 2 and start
      have hsched : ∀ q, combLive (plan hz s.tree i).tree.combiners q = true → q ∉ r.created →
          schedAt (r.created.reverse.foldl
            (startStep (cacheAfterRebuild s.cache r) (effZero hz i.zero) i.src PH.1) PH.2) q =
            (schedAt (sched2Of hz s i) q ||
              (decide (q ∈ r.positions) && decide (wantBind (plan hz s.tree i).tree.cap (plan hz s.tree i).tree.keys q ≠ bindAt s.bind q))) := by
        intro q hl hnc
        obtain ⟨hq, hn⟩ := hlive' q hl
        obtain ⟨_, hnr⟩ := hkept q hl hnc
        rw [g2 q (fun hc => hnc (List.mem_reverse.mp hc))]
        by_cases hm : q ∈ r.positions
        · rw [(f4 q (List.mem_reverse.mpr hm) hl (by rw [h.bindLen]; exact hq) (by rw [hs0len]; exact hq)).2]
          have : r.created.contains q = false := by simpa using hnc
          rw [this, hs0at q hnc hnr]
          simp [hm]
        · rw [(f3 q (Or.inl (fun hc => hm (List.mem_reverse.mp hc)))).2, hs0at q hnc hnr]
          simp [hm]
      refine ⟨by rw [f1, h.bindLen, hsize'], by rw [g1, f2, hs0len, hsize'], hbound, ?_, ?_⟩
      · -- a scheduled live combiner is a candidate
        intro q hl hs0
        rcases kinds with ⟨hall, _⟩ | ⟨sl, hin, hrbi, _⟩
        · exact hall q (size_lt_of_live _ _ hl) hl
        · rw [hrb] at hrbi
          obtain ⟨k, hk, hqk, hsz⟩ := hcapk q hl
          by_cases hm : q ∈ r.positions
          · exact hin.cP q (by rw [← hrbi.2.1]; exact hm) (size_lt_of_live _ _ hl) hl
          · have hnc : q ∉ r.created := fun hc => hm ((pcreated q).mp hc).1
            rw [hsched q hl hnc] at hs0
            simp only [hm, decide_false, Bool.false_and, Bool.or_false] at hs0
            obtain ⟨hlO, _⟩ := hkept q hl hnc
            have hw := hbound q hl
            rw [(f3 q (Or.inl (fun hc => hm (List.mem_reverse.mp hc)))).1] at hw
            exact sched2_cand hz s i _ hshape' h.idle h.schedLen _ sl hin k hk q hlO hl hw hs0
      · -- an unscheduled live combiner is consistent with its inputs
        intro q hl hs0
        by_cases hc : q ∈ r.created
        · obtain ⟨hq, _⟩ := hlive' q hl
          rw [g3 q (List.mem_reverse.mpr hc) (by rw [f2, hs0len]; exact hq)] at hs0
          simp only [Bool.or_eq_false_iff] at hs0
          intro a b ha _
          rw [ha] at hs0
          simp at hs0
        · obtain ⟨hlO, _⟩ := hkept q hl hc
          obtain ⟨k, hk, hqk, hsz⟩ := hcapk q hl
          rw [hsched q hl hc] at hs0
          simp only [Bool.or_eq_false_iff] at hs0
          obtain ⟨hs2, hsame⟩ := hs0
          have hw := hbound q hl
          have hb : bindAt PH.1 q = bindAt s.bind q := by
            by_cases hm : q ∈ r.positions
            · rw [hw]
              simp only [hm, decide_true, Bool.true_and, decide_eq_false_iff_not, ne_eq, Decidable.not_not] at hsame
              exact hsame
            · exact (f3 q (Or.inl (fun hc => hm (List.mem_reverse.mp hc)))).1
          exact kept_localOK f hf hz s i src0 zero0 h _ hshape' hsrc hzero k hk (by rw [← hcapsame, hk])
            (cacheAfterRebuild s.cache r) _ q hlO hl hb hw hs2 hcc

/-- the generic evaluation pass of one cycle, for any target values `good` that (`Hr`) an evaluation
    produces from right descendants and (`H4`) the non-candidates already hold -/
theorem gen_pass (f : α → α → α) (hf : ∀ a b c, f (f a b) c = f a (f b c)) (hz : Bool) (s : GSt κ α)
    (i : CycleIn κ α) (src0 : κ → Option α) (zero0 : Option α) (h : GenInv f hz zero0 src0 s)
    (hsrc : ∀ key ∈ (plan hz s.tree i).tree.keys, key ∉ i.ticked → i.src key = src0 key)
    (hzero : i.zeroEvent = false → i.zero = zero0)
    (hev : i.ticked ≠ [] → i.collEvent = true ∧ i.available = true)
    (good : Nat → Option α)
    (Hr : ∀ p, combLive (plan hz s.tree i).tree.combiners p = true → ∀ c : List (Option α),
      (∀ q, q > p → combLive (plan hz s.tree i).tree.combiners q = true → c[q]? = some (good q)) →
      ∃ a b, readSrc c (effZero hz i.zero) i.src (bindAt (bsOf hz s i).1 p).1 = some a ∧
        readSrc c (effZero hz i.zero) i.src (bindAt (bsOf hz s i).1 p).2 = some b ∧ good p = some (f a b))
    (H4 : ∀ q, combLive (plan hz s.tree i).tree.combiners q = true → q ∉ (plan hz s.tree i).cands →
      (cache0Of s.cache (plan hz s.tree i).rb)[q]? = some (good q)) :
    PInv f (effZero hz i.zero) i.src (combLive (plan hz s.tree i).tree.combiners)
      (plan hz s.tree i).tree.combiners.length (bsOf hz s i).1 good []
      ((plan hz s.tree i).cands.foldl
        (evalG f (effZero hz i.zero) i.src (combLive (plan hz s.tree i).tree.combiners) (bsOf hz s i).1)
        { cache := cache0Of s.cache (plan hz s.tree i).rb, sched := (bsOf hz s i).2 }) := by
  have hsO : Shape hz s.tree := h.cache.shape
  have hshape' := plan_shape hz s.tree i hsO
  obtain ⟨p1, p2, pbound, pH2, pH3⟩ := gen_pre f hf hz s i src0 zero0 h hsrc hzero hev
  have kinds := plan_kinds hz s.tree i hsO hev
  have hlen0 := cache0Of_length hz s.tree i hsO s.cache h.cache.good.len
  have Hm : ∀ p q, combLive (plan hz s.tree i).tree.combiners q = true →
      mentionsB (bindAt (bsOf hz s i).1 q) (.comb p) = true → q < p := by
    intro p q hl hm
    rw [pbound q hl] at hm
    exact want_mentions_lt _ _ _ _ hm
  have H1 : ∀ p ∈ (plan hz s.tree i).cands, ∀ q, combLive (plan hz s.tree i).tree.combiners q = true →
      mentionsB (bindAt (bsOf hz s i).1 q) (.comb p) = true → q ∈ (plan hz s.tree i).cands := by
    intro p hp q hl hm
    have hqs := size_lt_of_live _ _ hl
    rcases kinds with ⟨hall, _⟩ | ⟨sl, hin, _, _⟩
    · exact hall q hqs hl
    · have hm' := hm
      rw [pbound q hl] at hm'
      rcases hin.only p hp with hsp | ⟨key, hkt, li, hli, hpath⟩ | h0
      · rw [mem_structuralPositions] at hsp
        obtain ⟨leaf, hleaf, hpath⟩ := hsp
        apply hin.cP q _ hqs hl
        rw [mem_structuralPositions]
        exact ⟨leaf, hleaf, want_mentions_anc _ _ _ q p _ hqs hm' hpath⟩
      · exact hin.cT key hkt li hli q (want_mentions_anc _ _ _ q p _ hqs hm' hpath) hl
      · have := Hm p q hl hm
        omega
  apply passG f (effZero hz i.zero) i.src (combLive (plan hz s.tree i).tree.combiners)
    (plan hz s.tree i).tree.combiners.length (fun q hl => size_lt_of_live _ _ hl) (bsOf hz s i).1 good Hr Hm
    (plan hz s.tree i).cands H1 (plan hz s.tree i).cands (plan_cands_pairwise hz s.tree i) (fun r hr => hr)
    (fun q hq hnq => absurd hq hnq)
  refine ⟨hlen0, p2, ?_, ?_⟩
  · intro q hl hnc
    refine ⟨H4 q hl hnc, ?_⟩
    cases hs : schedAt (bsOf hz s i).2 q with
    | false => rfl
    | true => exact absurd (pH2 q hl hs) hnc
  · intro q hl _ hs
    exact pH3 q hl hs

theorem genInv_of (f : α → α → α) (hz : Bool) (zero : Option α) (src : κ → Option α) (t : Tree κ)
    (c : List (Option α)) (b : List (Src κ × Src κ)) (sc : List Bool)
    (h1 : Shape hz t) (h2 : ∀ key ∈ t.keys, (src key).isSome) (h3 : Good f hz zero src t c)
    (h4 : b.length = t.combiners.length) (h5 : sc.length = t.combiners.length) (h6 : Bound t b)
    (h7 : ∀ q, combLive t.combiners q = true → schedAt sc q = false) :
    GenInv f hz zero src { tree := t, cache := c, bind := b, sched := sc } :=
  ⟨⟨h1, h2, h3⟩, h4, h5, h6, h7⟩

/-- ONE CYCLE PRESERVES THE INVARIANT OF THE GENERIC PATH. -/
theorem genInv_step' (f : α → α → α) (hf : ∀ a b c, f (f a b) c = f a (f b c)) (hz : Bool) (s : GSt κ α)
    (i : CycleIn κ α) (src0 : κ → Option α) (zero0 : Option α) (h : GenInv f hz zero0 src0 s)
    (hsrc : ∀ key ∈ (cycleG f hz s i).st.tree.keys, key ∉ i.ticked → i.src key = src0 key)
    (hzero : i.zeroEvent = false → i.zero = zero0)
    (hvalid : ∀ key ∈ (cycleG f hz s i).st.tree.keys, (i.src key).isSome)
    (hev : i.ticked ≠ [] → i.collEvent = true ∧ i.available = true)
    (hzv : hz = true → (cycleG f hz s i).st.tree.keys.length = 1 → i.zero.isSome) :
    GenInv f hz i.zero i.src (cycleG f hz s i).st := by
  rw [cycleG_st] at hsrc hvalid hzv ⊢
  have hsO : Shape hz s.tree := h.cache.shape
  have hshape' := plan_shape hz s.tree i hsO
  obtain ⟨p1, p2, pbound, _, _⟩ := gen_pre f hf hz s i src0 zero0 h hsrc hzero hev
  have kinds := plan_kinds hz s.tree i hsO hev
  have hlen0 := cache0Of_length hz s.tree i hsO s.cache h.cache.good.len
  -- the non-candidates hold their targets (incremental cycles), in both target forms
  have hclean := fun (sl : List Nat) (hin : Incr hz s.tree (plan hz s.tree i).tree (plan hz s.tree i).cands
      i.ticked i.zeroEvent sl) (hrbi : RbIncr (plan hz s.tree i).rb (plan hz s.tree i).tree sl) =>
    clean_core f hz src0 i.src zero0 i.zero s.tree (plan hz s.tree i).tree s.cache
      (cache0Of s.cache (plan hz s.tree i).rb) (plan hz s.tree i).cands sl i.ticked i.zeroEvent
      hsO h.cache.valid h.cache.good hshape' hvalid hin (cache0Of_incr s.cache _ _ sl hrbi) hsrc hzero
  by_cases hone : hz = true ∧ (plan hz s.tree i).tree.keys.length = 1
  · -- a singleton with a zero: the root holds `f value zero`
    obtain ⟨hzt, hn⟩ := hone
    subst hzt
    obtain ⟨key, hkk⟩ : ∃ key, (plan true s.tree i).tree.keys = [key] := by
      match hkk : (plan true s.tree i).tree.keys, hn with
      | [key], _ => exact ⟨key, rfl⟩
    obtain ⟨v, hv⟩ := Option.isSome_iff_exists.mp (hvalid key (by rw [hkk]; simp))
    obtain ⟨z, hzs⟩ := Option.isSome_iff_exists.mp (hzv rfl hn)
    obtain ⟨e, he, hc, hlive0⟩ := shape_single_cap hshape' hn
    have h2 : 2 ≤ 2 ^ e := by
      have : e = (e - 1) + 1 := by omega
      rw [this, Nat.pow_succ]; have := two_pow_pos' (e - 1); omega
    have honly : ∀ q, combLive (plan true s.tree i).tree.combiners q = true → q = 0 := by
      intro q hl
      have hq := size_lt_of_live _ _ hl
      rw [hshape'.comb_len, hc, internalCount_pow] at hq
      apply needed_single true e q hq
      rw [← hn, ← shape_live_eq hshape' e hc q hq]; exact hl
    have hfin := gen_pass f hf true s i src0 zero0 h hsrc hzero hev (fun _ => some (f v z))
      (by
        intro p hl c _
        have hp0 := honly p hl
        subst hp0
        obtain ⟨hL, hR⟩ := resolve_single e he
        refine ⟨v, z, ?_, ?_, rfl⟩
        · rw [pbound 0 hl]
          unfold wantBind
          simp only
          rw [readSrc_srcOf, hc, hn, hL]
          simp [aggVal, leafVal, hkk, hv]
        · rw [pbound 0 hl]
          unfold wantBind
          simp only
          rw [readSrc_srcOf, hc, hn, hR]
          simp [aggVal, effZero, hzs])
      (by
        intro q hl hnc
        have hq0 := honly q hl
        subst hq0
        rcases kinds with ⟨hall, _⟩ | ⟨sl, hin, hrbi, _⟩
        · exact absurd (hall 0 (size_lt_of_live _ _ hl) hl) hnc
        · exact (hclean sl hin hrbi).2 rfl key v z hkk hv hzs hnc)
    refine genInv_of f true i.zero i.src _ _ _ _ hshape' hvalid ⟨hfin.len_c, ?_, ?_⟩ p1 hfin.len_s pbound ?_
    · intro hcontra
      exact absurd ⟨rfl, hn⟩ hcontra
    · intro _ key' v' z' hk' hv' hz'
      rw [hkk] at hk'
      simp only [List.cons.injEq, and_true] at hk'
      subst hk'
      rw [hv] at hv'; rw [hzs] at hz'
      injection hv' with hv'; injection hz' with hz'
      subst hv'; subst hz'
      exact (hfin.fin 0 hlive0 (by simp)).1
    · intro q hl
      exact (hfin.fin q hl (by simp)).2
  · rcases hshape'.cap_pow with h0 | ⟨k, hk⟩
    · -- capacity 0: no combiner at all
      have hnone : ∀ q, combLive (plan hz s.tree i).tree.combiners q = true → False := by
        intro q hl
        have hq := size_lt_of_live _ _ hl
        rw [hshape'.comb_len, h0] at hq
        simp [internalCount] at hq
      have hfin := gen_pass f hf hz s i src0 zero0 h hsrc hzero hev (fun _ => none)
        (fun p hl => absurd hl (fun hc => hnone p hc)) (fun q hl => absurd hl (fun hc => hnone q hc))
      refine genInv_of f hz i.zero i.src _ _ _ _ hshape' hvalid ⟨hfin.len_c, ?_, ?_⟩ p1 hfin.len_s pbound ?_
      · intro _ k hk q hq hl
        exact absurd hl (fun hc => hnone q hc)
      · intro hzt key v z hkk _ _
        exact absurd ⟨hzt, by rw [hkk]; rfl⟩ hone
      · intro q hl
        exact absurd hl (fun hc => hnone q hc)
    · -- two or more leaves, or no zero: every live combiner holds the fold over its interval
      have hvl := vals_length i.src (plan hz s.tree i).tree.keys hvalid
      have hsize : (plan hz s.tree i).tree.combiners.length = 2 ^ k - 1 := by
        rw [hshape'.comb_len, hk, internalCount_pow]
      have hfin := gen_pass f hf hz s i src0 zero0 h hsrc hzero hev
        (fun q => foldOpt f (sliceAt k q ((plan hz s.tree i).tree.keys.filterMap i.src)))
        (by
          intro p hl c hup
          have hp := size_lt_of_live _ _ hl
          rw [hsize] at hp
          obtain ⟨d, j, hj, he⟩ := exists_level p
          have hd := level_depth_le k d j p hp he
          subst he
          have hneed : (2 * j + 1) * 2 ^ (k - (d + 1)) < ((plan hz s.tree i).tree.keys.filterMap i.src).length := by
            have := shape_live_eq hshape' k hk _ hp
            rw [hl, needed_inner hz k d j _ hd hj hone] at this
            rw [hvl]; simpa using this.symm
          obtain ⟨a, b, ha, hb, hfold⟩ := reads_inner f hf (effZero hz i.zero) k
            (leafVal i.src (plan hz s.tree i).tree.keys) ((plan hz s.tree i).tree.keys.filterMap i.src)
            (leafVal_vals i.src _ hvalid) c d j hd hj hneed
            (by
              intro d' j' hd' hj' hgt hneed'
              have hq' := pos_lt k d' j' hd' hj'
              have hl' : combLive (plan hz s.tree i).tree.combiners (2 ^ d' + j' - 1) = true := by
                rw [shape_live_eq hshape' k hk _ hq', needed_inner hz k d' j' _ hd' hj' hone]
                rw [hvl] at hneed'; simpa using hneed'
              rw [hup _ hgt hl', sliceAt_pos k d' j' hj'])
          refine ⟨a, b, ?_, ?_, ?_⟩
          · rw [pbound _ hl]
            unfold wantBind
            simp only
            rw [readSrc_srcOf, hk, ← hvl]; exact ha
          · rw [pbound _ hl]
            unfold wantBind
            simp only
            rw [readSrc_srcOf, hk, ← hvl]; exact hb
          · rw [sliceAt_pos k d j hj]; exact hfold)
        (by
          intro q hl hnc
          have hq := size_lt_of_live _ _ hl
          rcases kinds with ⟨hall, _⟩ | ⟨sl, hin, hrbi, _⟩
          · exact absurd (hall q hq hl) hnc
          · exact (hclean sl hin hrbi).1 hone k hk q (by omega) hl hnc)
      refine genInv_of f hz i.zero i.src _ _ _ _ hshape' hvalid ⟨hfin.len_c, ?_, ?_⟩ p1 hfin.len_s pbound ?_
      · intro _ k' hk' q hq hl
        have hkk : k' = k := by
          have : 2 ^ k' = 2 ^ k := by rw [← hk', ← hk]
          apply Classical.byContradiction
          intro hne
          rcases Nat.lt_or_gt_of_ne hne with hlt | hgt
          · have := (Nat.pow_lt_pow_iff_right (a := 2) (by omega)).mpr hlt; omega
          · have := (Nat.pow_lt_pow_iff_right (a := 2) (by omega)).mpr hgt; omega
        subst hkk
        exact (hfin.fin q hl (by simp)).1
      · intro hzt key v z hkk _ _
        exact absurd ⟨hzt, by rw [hkk]; rfl⟩ hone
      · intro q hl
        exact (hfin.fin q hl (by simp)).2

end PrePass

end HgVerif.ReduceInc
