import HgVerif.Model.PushQueueN
import HgVerif.Lemmas.PushQueue
/-! Helper lemmas for the multi-source push-queue transition system (C16, several push sources
    sharing one executor flag): the per-source invariant `SInv`, the global inductive invariant
    `Inv` (shared-flag wake-up invariant, cycle times), frame facts for the liveness argument. -/
namespace HgVerif.PushQueueN
open HgVerif.PushQueue (Policy Cfg SendKind Outcome PPc upd flat flat_append flat_single upd_same upd_other)

/-- some producer of this source sits between admission and its mark, with a mark due -/
def Src.markDue (x : Src) : Prop := ∃ i k v, x.pcs i = .admitted k v true

/-- some producer of some source owes a mark -/
def MarkDue (s : St) : Prop := ∃ k, (s.src k).markDue

/-- the push phase in progress has not evaluated source `k` yet -/
def Ahead (c : CPc) (k : Nat) : Prop :=
  match c with
  | .idle => False
  | .at j => j ≤ k
  | .popped j _ => j < k

/-- the evaluation thread is between a pop that saw more pending and the re-arm it owes -/
def Owes (c : CPc) : Prop := ∃ j, c = .popped j true

/-! ### the per-source invariant (independent of the shared flag) -/

structure SInv (cfg : Cfg) (x : Src) : Prop where
  /-- accepted = delivered ++ pending (++ what a stop dropped) -/
  pre : cfg.policy ≠ .conflating →
    ∃ dropped, x.accepted = flat x.delivered ++ x.deque ++ dropped ∧ (x.accepting = true → dropped = [])
  cap : cfg.policy ≠ .conflating → cfg.cap ≠ 0 → x.deque.length ≤ cfg.cap
  life : (x.accepting = true → x.started = true) ∧ (x.closing = true → x.started = true) ∧
    (x.started = false → x.deque = [] ∧ x.accepted = [] ∧ x.delivered = [])
  blk : ∀ r ∈ x.results, r.2.1 = .blocking → r.2.2.2 ≠ .refusedFull
  /-- conflating: at most one merged state pending, the latest accepted; deliveries are a subsequence -/
  confl : cfg.policy = .conflating → isDict cfg = false →
    (x.deque = [] ∨ ∃ y, x.deque = [y] ∧ x.accepted.getLast? = some y) ∧
    (flat x.delivered ++ x.deque).Sublist x.accepted

theorem sinv_init (cfg : Cfg) : SInv cfg {} :=
  ⟨fun _ => ⟨[], by simp [flat], fun _ => rfl⟩, fun _ _ => by simp, by simp, by simp,
   fun _ _ => ⟨Or.inl rfl, by simp [flat]⟩⟩

theorem sinv_repoint {cfg : Cfg} {x : Src} (h : SInv cfg x) (i : Nat) (pc : PPc)
    (res : List (Nat × SendKind × Nat × Outcome))
    (hres : ∀ r ∈ res, r.2.1 = .blocking → r.2.2.2 ≠ .refusedFull) :
    SInv cfg { x with pcs := upd x.pcs i pc, results := x.results ++ res } := by
  refine ⟨h.pre, h.cap, h.life, ?_, h.confl⟩
  intro r hr
  simp only [List.mem_append] at hr
  rcases hr with hr | hr
  · exact h.blk r hr
  · exact hres r hr

theorem sinv_setpc {cfg : Cfg} {x : Src} (h : SInv cfg x) (i : Nat) (pc : PPc) :
    SInv cfg { x with pcs := upd x.pcs i pc } := by
  have := sinv_repoint h i pc [] (by simp)
  simpa using this

theorem sinv_refuse {cfg : Cfg} {x : Src} (h : SInv cfg x) (i : Nat) (k : SendKind) (v : Nat) (o : Outcome)
    (ho : k = .blocking → o ≠ .refusedFull) : SInv cfg (x.refuse i k v o) := by
  unfold Src.refuse
  apply sinv_repoint h i .idle [(i, k, v, o)]
  intro r hr hk
  simp only [List.mem_singleton] at hr
  subst hr
  exact ho hk

theorem full_false_len {cfg : Cfg} {x : Src} (hp : cfg.policy ≠ .conflating) (hc : cfg.cap ≠ 0)
    (hf : x.full cfg = false) : x.deque.length < cfg.cap := by
  unfold Src.full at hf
  cases hpol : cfg.policy with
  | conflating => exact absurd hpol hp
  | queue => simp [hpol, hc] at hf; exact hf
  | burst => simp [hpol, hc] at hf; exact hf

theorem sinv_accept {cfg : Cfg} {x : Src} (h : SInv cfg x) (i : Nat) (k : SendKind) (v : Nat)
    (hacc : x.accepting = true) (hfull : x.full cfg = false) : SInv cfg (x.accept cfg i k v) := by
  unfold Src.accept
  refine ⟨?_, ?_, ?_, h.blk, ?_⟩
  · intro hp
    obtain ⟨dr, h1, h2⟩ := h.pre hp
    have hdr := h2 hacc
    subst hdr
    refine ⟨[], ?_, fun _ => rfl⟩
    cases hpol : cfg.policy with
    | conflating => exact absurd hpol hp
    | queue => simp [h1]
    | burst => simp [h1]
  · intro hp hc
    have := full_false_len hp hc hfull
    cases hpol : cfg.policy with
    | conflating => exact absurd hpol hp
    | queue => simp; omega
    | burst => simp; omega
  · obtain ⟨l1, l2, l3⟩ := h.life
    refine ⟨l1, l2, ?_⟩
    intro hs
    have := l1 hacc
    rw [hs] at this; simp at this
  · intro hp hnd
    simp only [hp]
    refine ⟨Or.inr ⟨(i, v), rfl, by simp⟩, ?_⟩
    have : (flat x.delivered).Sublist x.accepted :=
      List.Sublist.trans (List.sublist_append_left _ _) (h.confl hp hnd).2
    exact List.Sublist.append this (List.Sublist.refl _)

theorem isDict_conflating {cfg : Cfg} (h : isDict cfg = true) : cfg.policy = .conflating := by
  unfold isDict at h
  split at h
  · assumption
  · simp at h

/-- the collection-conflating admission keeps the (scalar) per-source invariant: it only touches
    the pending marker, of a source that is accepting -/
theorem sinv_acceptD {cfg : Cfg} {x : Src} (h : SInv cfg x) (i : Nat) (k : SendKind)
    (hacc : x.accepting = true) (hd : isDict cfg = true) : SInv cfg (x.acceptD i k) := by
  have hp := isDict_conflating hd
  unfold Src.acceptD
  refine ⟨fun hn => absurd hp hn, fun hn => absurd hp hn, ?_, h.blk, ?_⟩
  · obtain ⟨l1, l2, l3⟩ := h.life
    refine ⟨l1, l2, ?_⟩
    intro hs
    have := l1 hacc
    rw [hs] at this; simp at this
  · intro _ hnd; rw [hd] at hnd; simp at hnd

/-- split a local step hypothesis into its branches, with the results substituted -/
macro "lstep_cases " hs:ident : tactic => `(tactic| (
  simp only [lstep] at $hs:ident
  repeat' (split at $hs:ident)
  all_goals (first
    | (simp only [Option.some.injEq, Prod.mk.injEq] at $hs:ident; obtain ⟨hx_, hm_⟩ := $hs:ident; subst hx_; subst hm_)
    | (simp at $hs:ident; done)
    | skip)))

/-- the per-source invariant is preserved by every source-local step -/
theorem lstep_sinv {cfg : Cfg} {sr : Bool} {x x' : Src} {m : Bool} {l : SLabel} (h : SInv cfg x)
    (hs : lstep cfg sr x l = some (x', m)) : SInv cfg x' := by
  have hpay : ∀ (i : Nat) (pc : PPc) (f : Nat → Delta), SInv cfg { x with pcs := upd x.pcs i pc, pay := f } := by
    intro i pc f
    have := sinv_setpc h i pc
    exact ⟨this.pre, this.cap, this.life, this.blk, this.confl⟩
  cases l with
  | start =>
    lstep_cases hs
    rename_i hst
    simp only [Bool.not_eq_true] at hst
    obtain ⟨d1, d2, d3⟩ := h.life.2.2 hst
    exact ⟨fun _ => ⟨[], by simp [d2, d3, flat], fun _ => rfl⟩, fun _ _ => by simp, by simp, h.blk,
      fun _ _ => ⟨Or.inl rfl, by simp [d2, d3, flat]⟩⟩
  | enter i k v =>
    lstep_cases hs
    · exact sinv_refuse h i k v _ (by simp)
    · exact sinv_setpc h i _
  | enterD i k d =>
    lstep_cases hs
    · exact sinv_refuse h i k 0 _ (by simp)
    · exact hpay i _ _
  | check i =>
    lstep_cases hs
    · exact sinv_refuse h i _ _ _ (by simp)
    · exact sinv_setpc h i _
  | admitQ i =>
    lstep_cases hs <;> first
      | exact sinv_refuse h i _ _ _ (by simp)
      | exact sinv_setpc h i _
      | exact sinv_acceptD h i _ (by simp_all) (by simp_all)
      | exact sinv_accept h i _ _ (by simp_all) (by simp_all)
  | wake i =>
    lstep_cases hs <;> first
      | exact sinv_refuse h i _ _ _ (by simp)
      | exact h
      | exact sinv_acceptD h i _ (by simp_all) (by simp_all)
      | exact sinv_accept h i _ _ (by simp_all) (by simp_all)
  | mark i =>
    lstep_cases hs
    exact sinv_repoint h i .idle _ (by simp)
  | closeBegin =>
    lstep_cases hs
    rename_i hcond
    simp only [Bool.and_eq_true, Bool.not_eq_true'] at hcond
    obtain ⟨l1, l2, l3⟩ := h.life
    exact ⟨h.pre, h.cap, ⟨l1, fun _ => hcond.1, l3⟩, h.blk, h.confl⟩
  | queueStop =>
    lstep_cases hs
    rename_i hcond
    simp only [Bool.and_eq_true] at hcond
    obtain ⟨l1, l2, l3⟩ := h.life
    refine ⟨?_, fun _ _ => by simp, ⟨by simp, l2, ?_⟩, h.blk, ?_⟩
    · intro hp
      obtain ⟨dr, h1, _⟩ := h.pre hp
      exact ⟨x.deque ++ dr, by simp [h1], by simp⟩
    · intro hst
      have := l1 hcond.2
      rw [hst] at this; simp at this
    · intro hp hnd
      refine ⟨Or.inl rfl, ?_⟩
      simp only [List.append_nil]
      exact List.Sublist.trans (List.sublist_append_left _ _) (h.confl hp hnd).2

/-- what a source-local step never touches, and how it moves the ghost history -/
theorem lstep_frame {cfg : Cfg} {sr : Bool} {x x' : Src} {m : Bool} {l : SLabel}
    (hs : lstep cfg sr x l = some (x', m)) :
    x'.delivered = x.delivered ∧ (∃ t, x'.accepted = x.accepted ++ t) := by
  cases l <;> lstep_cases hs <;> simp [Src.refuse, Src.accept, Src.acceptD]

/-- the wake-up bookkeeping of a source-local step: a due mark disappears only by being performed
    (`m = true`), and a queue that becomes non-empty leaves a due mark behind -/
theorem lstep_wake {cfg : Cfg} {sr : Bool} {x x' : Src} {m : Bool} {l : SLabel}
    (hs : lstep cfg sr x l = some (x', m)) :
    (m = true ∨ (x.markDue → x'.markDue)) ∧ (x'.deque ≠ [] → x.deque ≠ [] ∨ x'.markDue) := by
  have repoint : ∀ (i : Nat) (pc : PPc), (∀ k v, x.pcs i ≠ .admitted k v true) →
      x.markDue → ∃ j k v, upd x.pcs i pc j = .admitted k v true := by
    intro i pc hold ⟨j, k, v, hj⟩
    have hne : j ≠ i := by rintro rfl; exact hold k v hj
    exact ⟨j, k, v, by rw [upd_other _ _ _ _ hne]; exact hj⟩
  have acc : ∀ (i : Nat) (k : SendKind) (v : Nat), (∀ k v, x.pcs i ≠ .admitted k v true) →
      ((x.markDue → (x.accept cfg i k v).markDue) ∧
       ((x.accept cfg i k v).deque ≠ [] → x.deque ≠ [] ∨ (x.accept cfg i k v).markDue)) := by
    intro i k v hold
    refine ⟨fun hmd => ?_, fun _ => ?_⟩
    · exact repoint i _ hold hmd
    · by_cases he : x.deque = []
      · right; exact ⟨i, k, v, by simp [Src.accept, upd_same, he]⟩
      · exact Or.inl he
  have accD : ∀ (i : Nat) (k : SendKind), (∀ k v, x.pcs i ≠ .admitted k v true) →
      ((x.markDue → (x.acceptD i k).markDue) ∧
       ((x.acceptD i k).deque ≠ [] → x.deque ≠ [] ∨ (x.acceptD i k).markDue)) := by
    intro i k hold
    refine ⟨fun hmd => ?_, fun hne => ?_⟩
    · exact repoint i _ hold hmd
    · by_cases he : x.deque = []
      · right
        refine ⟨i, k, 0, ?_⟩
        simp only [Src.acceptD, he, List.isEmpty_nil, Bool.not_true, Bool.false_eq_true, if_false] at hne ⊢
        cases hr : (applyDelta x.acc (x.pay i)).2 with
        | true => simp [upd_same]
        | false => simp [hr] at hne
      · exact Or.inl he
  cases l with
  | start => lstep_cases hs; exact ⟨Or.inr id, by simp⟩
  | enter i k v =>
    lstep_cases hs <;>
      exact ⟨Or.inr (repoint i _ (by intro k v hh; simp_all)), fun h => Or.inl h⟩
  | enterD i k d =>
    lstep_cases hs <;>
      exact ⟨Or.inr (repoint i _ (by intro k v hh; simp_all)), fun h => Or.inl h⟩
  | check i =>
    lstep_cases hs <;>
      exact ⟨Or.inr (repoint i _ (by intro k v hh; simp_all)), fun h => Or.inl h⟩
  | admitQ i =>
    lstep_cases hs <;>
      first
      | exact ⟨Or.inr (repoint i _ (by intro k v hh; simp_all)), fun h => Or.inl h⟩
      | exact ⟨Or.inr (acc i _ _ (by intro k v hh; simp_all)).1, (acc i _ _ (by intro k v hh; simp_all)).2⟩
      | exact ⟨Or.inr (accD i _ (by intro k v hh; simp_all)).1, (accD i _ (by intro k v hh; simp_all)).2⟩
  | wake i =>
    lstep_cases hs <;>
      first
      | exact ⟨Or.inr id, fun h => Or.inl h⟩
      | exact ⟨Or.inr (repoint i _ (by intro k v hh; simp_all)), fun h => Or.inl h⟩
      | exact ⟨Or.inr (acc i _ _ (by intro k v hh; simp_all)).1, (acc i _ _ (by intro k v hh; simp_all)).2⟩
      | exact ⟨Or.inr (accD i _ (by intro k v hh; simp_all)).1, (accD i _ (by intro k v hh; simp_all)).2⟩
  | mark i =>
    lstep_cases hs
    rename_i k v wk hpc
    cases wk with
    | true => exact ⟨Or.inl rfl, fun h => Or.inl h⟩
    | false => exact ⟨Or.inr (repoint i _ (by intro k v hh; simp_all)), fun h => Or.inl h⟩
  | closeBegin => lstep_cases hs; exact ⟨Or.inr id, fun h => Or.inl h⟩
  | queueStop => lstep_cases hs; exact ⟨Or.inr id, by simp⟩

/-! ### `emit_next` -/

theorem popL_frame (cfg : Cfg) (t : Nat) (x : Src) :
    (popL cfg t x).1.started = x.started ∧ (popL cfg t x).1.accepting = x.accepting ∧
    (popL cfg t x).1.closing = x.closing ∧ (popL cfg t x).1.pcs = x.pcs ∧
    (popL cfg t x).1.accepted = x.accepted ∧ (popL cfg t x).1.results = x.results ∧
    (popL cfg t x).1.caccepted = x.caccepted ∧ (popL cfg t x).1.pay = x.pay := by
  unfold popL
  split <;> (try split) <;> simp

/-- the shape of a pop: nothing (empty queue), or one entry stamped `t` appended to `delivered` -/
theorem popL_delivered (cfg : Cfg) (t : Nat) (x : Src) :
    ((popL cfg t x).1.delivered = x.delivered ∧ x.deque = [] ∧ (popL cfg t x).1.deque = []) ∨
    (∃ vs, vs ≠ [] ∧ (popL cfg t x).1.delivered = x.delivered ++ [(t, vs)] ∧
      x.deque = vs ++ (popL cfg t x).1.deque ∧ (cfg.policy = .queue → ∃ y, vs = [y])) := by
  unfold popL
  split
  · rename_i hd; left; exact ⟨rfl, hd, hd⟩
  · rename_i v rest _ hd
    right; exact ⟨[v], by simp, rfl, by simp [hd], fun _ => ⟨v, rfl⟩⟩
  · rename_i v rest hd hnq
    right
    split <;>
    · refine ⟨v :: rest, by simp, rfl, by simp [hd], ?_⟩
      intro hq
      exact absurd hq (by intro hq; exact hnq hq)

/-- `more_pending` is reported whenever values remain -/
theorem popL_more (cfg : Cfg) (t : Nat) (x : Src) : (popL cfg t x).1.deque ≠ [] → (popL cfg t x).2 = true := by
  unfold popL
  split
  · rename_i hd; intro h; exact absurd hd h
  · rename_i v rest _ hd
    intro h
    cases rest with
    | nil => exact absurd rfl h
    | cons _ _ => simp
  · split <;> (intro h; exact absurd rfl h)

theorem popL_sinv {cfg : Cfg} {x : Src} (t : Nat) (h : SInv cfg x) : SInv cfg (popL cfg t x).1 := by
  unfold popL
  split
  · exact h
  · rename_i v rest hpol hd
    refine ⟨?_, ?_, ?_, h.blk, ?_⟩
    · intro hp
      obtain ⟨dr, h1, h2⟩ := h.pre hp
      refine ⟨dr, ?_, h2⟩
      simp only [flat_append, flat_single]
      rw [h1, hd]; simp
    · intro hp hcap
      have := h.cap hp hcap
      rw [hd] at this; simp at this ⊢; omega
    · obtain ⟨l1, l2, l3⟩ := h.life
      refine ⟨l1, l2, ?_⟩
      intro hst
      have := (l3 hst).1
      rw [hd] at this; simp at this
    · intro hp; rw [hpol] at hp; simp at hp
  · rename_i v rest hd hnq
    split
    · -- the collection accumulator is taken
      rename_i hdict
      have hp := isDict_conflating hdict
      refine ⟨fun hn => absurd hp hn, fun _ _ => by simp, ?_, h.blk, ?_⟩
      · obtain ⟨l1, l2, l3⟩ := h.life
        refine ⟨l1, l2, ?_⟩
        intro hst
        have := (l3 hst).1
        rw [hd] at this; simp at this
      · intro _ hnd; rw [hdict] at hnd; simp at hnd
    · rename_i hnd'
      refine ⟨?_, fun _ _ => by simp, ?_, h.blk, ?_⟩
      · intro hp
        obtain ⟨dr, h1, h2⟩ := h.pre hp
        refine ⟨dr, ?_, h2⟩
        simp only [flat_append, flat_single]
        rw [h1, hd]; simp
      · obtain ⟨l1, l2, l3⟩ := h.life
        refine ⟨l1, l2, ?_⟩
        intro hst
        have := (l3 hst).1
        rw [hd] at this; simp at this
      · intro hp hnd
        refine ⟨Or.inl rfl, ?_⟩
        simp only [flat_append, flat_single, List.append_nil]
        have := (h.confl hp hnd).2
        rw [hd] at this; exact this

/-! ### the global invariant -/

structure Inv (sys : Sys) (s : St) : Prop where
  src : ∀ k, SInv (sys.cfg k) (s.src k)
  bound : (∀ k, (s.src k).started = true → k < sys.n) ∧ (∀ j, s.cpc = .at j → j < sys.n) ∧
    (∀ j m, s.cpc = .popped j m → j < sys.n)
  /-- per source: strictly increasing cycle times, none in the future, and none in the current
      cycle while the push phase has not reached the source yet -/
  times : ∀ k, List.Pairwise (fun a b => a < b) ((s.src k).delivered.map (·.1)) ∧
    (∀ d ∈ (s.src k).delivered, d.1 ≤ s.time) ∧
    (Ahead s.cpc k → ∀ d ∈ (s.src k).delivered, d.1 < s.time)
  /-- the shared-flag wake-up invariant -/
  wake : ∀ k, (s.src k).deque ≠ [] →
    s.flag = true ∨ MarkDue s ∨ Ahead s.cpc k ∨ Owes s.cpc ∨ s.stopReq = true

theorem inv_init (sys : Sys) : Inv sys {} :=
  ⟨fun k => sinv_init _, ⟨by simp, by simp, by simp⟩, fun _ => by simp [Ahead], fun _ => by simp⟩

theorem setSrc_same (s : St) (k : Nat) (x : Src) : (setSrc s k x).src k = x := by simp [setSrc]
theorem setSrc_other (s : St) (k j : Nat) (x : Src) (h : j ≠ k) : (setSrc s k x).src j = s.src j := by simp [setSrc, h]

theorem markFlag_fields (s : St) :
    (markFlag s).src = s.src ∧ (markFlag s).cpc = s.cpc ∧ (markFlag s).time = s.time ∧
    (markFlag s).stopReq = s.stopReq ∧ ((markFlag s).flag = true ∨ s.stopReq = true) ∧
    (s.flag = true → (markFlag s).flag = true) ∧ (s.stopReq = false → (markFlag s).flag = true) := by
  unfold markFlag
  split <;> simp_all

/-- a step of source `k`'s own code, seen from the whole system -/
theorem step_src {sys : Sys} {s s' : St} {k : Nat} {l : SLabel} (hs : step sys s (.src k l) = some s') :
    ∃ x m, lstep (sys.cfg k) s.stopReq (s.src k) l = some (x, m) ∧ k < sys.n ∧
      (l = .closeBegin → s.cpc = .idle) ∧
      s'.src k = x ∧ (∀ j, j ≠ k → s'.src j = s.src j) ∧ s'.cpc = s.cpc ∧ s'.time = s.time ∧
      s'.stopReq = s.stopReq ∧ (s.flag = true → s'.flag = true) ∧
      (m = true → s'.flag = true ∨ s.stopReq = true) ∧ (m = true → s.stopReq = false → s'.flag = true) ∧
      (m = false → s'.flag = s.flag) := by
  simp only [step] at hs
  split at hs
  · rename_i hk
    split at hs
    · simp at hs
    · rename_i hcb
      split at hs
      · rename_i x m hl
        simp only [Option.some.injEq] at hs
        subst hs
        obtain ⟨f1, f2, f3, f4, f5, f6, f7⟩ := markFlag_fields (setSrc s k x)
        have g1 : (if m = true then markFlag (setSrc s k x) else setSrc s k x).src = (setSrc s k x).src := by
          cases m <;> simp [f1]
        have g2 : (if m = true then markFlag (setSrc s k x) else setSrc s k x).cpc = s.cpc := by
          cases m <;> simp [f2] <;> rfl
        have g3 : (if m = true then markFlag (setSrc s k x) else setSrc s k x).time = s.time := by
          cases m <;> simp [f3] <;> rfl
        have g4 : (if m = true then markFlag (setSrc s k x) else setSrc s k x).stopReq = s.stopReq := by
          cases m <;> simp [f4] <;> rfl
        have e0 : (setSrc s k x).flag = s.flag := rfl
        have e1 : (setSrc s k x).stopReq = s.stopReq := rfl
        refine ⟨x, m, hl, hk, ?_, ?_, ?_, g2, g3, g4, ?_, ?_, ?_, ?_⟩
        · intro hl'
          apply Classical.byContradiction
          intro hc
          exact hcb ⟨hl', hc⟩
        · rw [g1]; exact setSrc_same s k x
        · intro j hj; rw [g1]; exact setSrc_other s k j x hj
        · intro hf; cases m
          · simpa [e0] using hf
          · simp only [if_true]; exact f6 (by rw [e0]; exact hf)
        · intro hm; subst hm; simp only [if_true]
          rcases f5 with h | h
          · exact Or.inl h
          · exact Or.inr (by rw [e1] at h; exact h)
        · intro hm hsr; subst hm; simp only [if_true]
          exact f7 (by rw [e1]; exact hsr)
        · intro hm; subst hm; simp [e0]
      · simp at hs
  · simp at hs

/-- the invariant is preserved by every atomic step -/
theorem inv_step {sys : Sys} {s s' : St} {l : Label} (h : Inv sys s) (hs : step sys s l = some s') : Inv sys s' := by
  cases l with
  | src k l =>
    obtain ⟨x, m, hl, hk, _, e1, e2, e3, e4, e5, e6, e7, _, _⟩ := step_src hs
    have hsrc : ∀ j, j ≠ k → s'.src j = s.src j := e2
    refine ⟨?_, ⟨?_, ?_, ?_⟩, ?_, ?_⟩
    · intro j
      by_cases hj : j = k
      · subst hj; rw [e1]; exact lstep_sinv (h.src j) hl
      · rw [hsrc j hj]; exact h.src j
    · intro j hst
      by_cases hj : j = k
      · subst hj; exact hk
      · rw [hsrc j hj] at hst; exact h.bound.1 j hst
    · intro j hc; rw [e3] at hc; exact h.bound.2.1 j hc
    · intro j mm hc; rw [e3] at hc; exact h.bound.2.2 j mm hc
    · intro j
      have hd : (s'.src j).delivered = (s.src j).delivered := by
        by_cases hj : j = k
        · subst hj; rw [e1]; exact (lstep_frame hl).1
        · rw [hsrc j hj]
      rw [hd, e3, e4]; exact h.times j
    · intro j hne
      rw [e3, e5]
      obtain ⟨w1, w2⟩ := lstep_wake hl
      -- every wake-up reason of the old state carries over
      have carry : (s.flag = true ∨ MarkDue s ∨ Ahead s.cpc j ∨ Owes s.cpc ∨ s.stopReq = true) →
          (s'.flag = true ∨ MarkDue s' ∨ Ahead s.cpc j ∨ Owes s.cpc ∨ s.stopReq = true) := by
        intro hw
        rcases hw with hw | ⟨k', hw⟩ | hw
        · exact Or.inl (e6 hw)
        · by_cases hk' : k' = k
          · subst hk'
            rcases w1 with hm | hpres
            · rcases e7 hm with hf | hf
              · exact Or.inl hf
              · exact Or.inr (Or.inr (Or.inr (Or.inr hf)))
            · exact Or.inr (Or.inl ⟨k', by rw [e1]; exact hpres hw⟩)
          · exact Or.inr (Or.inl ⟨k', by rw [hsrc k' hk']; exact hw⟩)
        · exact Or.inr (Or.inr hw)
      by_cases hj : j = k
      · subst hj
        rw [e1] at hne
        rcases w2 hne with hold | hmd
        · exact carry (h.wake j hold)
        · exact Or.inr (Or.inl ⟨j, by rw [e1]; exact hmd⟩)
      · rw [hsrc j hj] at hne
        exact carry (h.wake j hne)
  | beginCycle dt =>
    simp only [step] at hs
    split at hs
    · rename_i hc
      split at hs
      · simp at hs
      · split at hs
        · -- no push source: only the time moves
          simp only [Option.some.injEq] at hs; subst hs
          refine ⟨h.src, h.bound, ?_, h.wake⟩
          intro k
          obtain ⟨t1, t2, t3⟩ := h.times k
          refine ⟨t1, ?_, ?_⟩
          · intro d hd; have := t2 d hd; simp only; omega
          · intro _ d hd; have := t2 d hd; simp only; omega
        · rename_i hn
          simp only [Option.some.injEq] at hs; subst hs
          refine ⟨h.src, ⟨h.bound.1, ?_, ?_⟩, ?_, ?_⟩
          · intro j hj
            simp only at hj
            split at hj
            · simp only [CPc.at.injEq] at hj; omega
            · simp at hj
          · intro j m hj
            simp only at hj
            split at hj <;> simp at hj
          · intro k
            obtain ⟨t1, t2, t3⟩ := h.times k
            refine ⟨t1, ?_, ?_⟩
            · intro d hd; have := t2 d hd; simp only; omega
            · intro _ d hd; have := t2 d hd; simp only; omega
          · intro k hd
            simp only at hd ⊢
            rcases h.wake k hd with h1 | h1 | h1 | h1 | h1
            · right; right; left; simp [h1, Ahead]
            · exact Or.inr (Or.inl h1)
            · rw [hc] at h1; simp [Ahead] at h1
            · rw [hc] at h1; simp [Owes] at h1
            · exact Or.inr (Or.inr (Or.inr (Or.inr h1)))
    · simp at hs
  | pop =>
    simp only [step] at hs
    split at hs
    · rename_i j hc
      simp only [Option.some.injEq] at hs; subst hs
      obtain ⟨p1, p2, p3, p4, p5, p6⟩ := popL_frame (sys.cfg j) s.time (s.src j)
      refine ⟨?_, ⟨?_, ?_, ?_⟩, ?_, ?_⟩
      · intro k
        by_cases hk : k = j
        · subst hk; simp only [setSrc_same]; exact popL_sinv _ (h.src k)
        · simp only [setSrc_other _ _ _ _ hk]; exact h.src k
      · intro k hst
        by_cases hk : k = j
        · subst hk; exact h.bound.2.1 k hc
        · simp only [setSrc_other _ _ _ _ hk] at hst; exact h.bound.1 k hst
      · intro j' hj; simp at hj
      · intro j' m hj
        simp only [CPc.popped.injEq] at hj
        rw [← hj.1]; exact h.bound.2.1 j hc
      · intro k
        obtain ⟨t1, t2, t3⟩ := h.times k
        by_cases hk : k = j
        · subst hk
          simp only [setSrc_same]
          have t3' := t3 (by rw [hc]; simp [Ahead])
          rcases popL_delivered (sys.cfg k) s.time (s.src k) with ⟨hd, _, _⟩ | ⟨vs, _, hd, _, _⟩
          · rw [hd]; exact ⟨t1, t2, by simp [Ahead]⟩
          · rw [hd]
            refine ⟨?_, ?_, by simp [Ahead]⟩
            · simp only [List.map_append, List.map_cons, List.map_nil]
              rw [List.pairwise_append]
              refine ⟨t1, by simp, ?_⟩
              intro a ha b hb
              simp only [List.mem_map] at ha
              obtain ⟨d, hd1, rfl⟩ := ha
              simp only [List.mem_singleton] at hb
              subst hb
              exact t3' d hd1
            · intro d hd1
              simp only [List.mem_append, List.mem_singleton] at hd1
              rcases hd1 with hd1 | rfl
              · exact t2 d hd1
              · exact Nat.le_refl _
        · simp only [setSrc_other _ _ _ _ hk]
          refine ⟨t1, t2, ?_⟩
          intro ha
          apply t3
          rw [hc]
          simp only [Ahead] at ha ⊢
          omega
      · intro k hd
        simp only
        by_cases hk : k = j
        · subst hk
          simp only [setSrc_same] at hd
          right; right; right; left
          exact ⟨k, by rw [popL_more _ _ _ hd]⟩
        · simp only [setSrc_other _ _ _ _ hk] at hd
          rcases h.wake k hd with h1 | ⟨k', h1⟩ | h1 | h1 | h1
          · exact Or.inl h1
          · refine Or.inr (Or.inl ⟨k', ?_⟩)
            by_cases hk' : k' = j
            · subst hk'; simp only [setSrc_same]; unfold Src.markDue; rw [p4]; exact h1
            · simp only [setSrc_other _ _ _ _ hk']; exact h1
          · rw [hc] at h1
            simp only [Ahead] at h1
            right; right; left
            simp only [Ahead]; omega
          · rw [hc] at h1; simp [Owes] at h1
          · exact Or.inr (Or.inr (Or.inr (Or.inr h1)))
    · simp at hs
  | rearm =>
    simp only [step] at hs
    split at hs
    · rename_i j more hc
      simp only [Option.some.injEq] at hs; subst hs
      obtain ⟨f1, f2, f3, f4, f5, f6, f7⟩ := markFlag_fields s
      have hsrc : (if more = true then markFlag s else s).src = s.src := by split <;> simp [f1]
      have htime : (if more = true then markFlag s else s).time = s.time := by split <;> simp [f3]
      have hstop : (if more = true then markFlag s else s).stopReq = s.stopReq := by split <;> simp [f4]
      refine ⟨?_, ⟨?_, ?_, ?_⟩, ?_, ?_⟩
      · intro k; simp only [hsrc]; exact h.src k
      · intro k; simp only [hsrc]; exact h.bound.1 k
      · intro j' hj
        simp only [nextPc] at hj
        split at hj
        · simp only [CPc.at.injEq] at hj; omega
        · simp at hj
      · intro j' m hj
        simp only [nextPc] at hj
        split at hj <;> simp at hj
      · intro k
        obtain ⟨t1, t2, t3⟩ := h.times k
        simp only [hsrc, htime]
        refine ⟨t1, t2, ?_⟩
        intro ha
        apply t3
        rw [hc]
        simp only [nextPc] at ha
        split at ha
        · simp only [Ahead] at ha ⊢; omega
        · simp [Ahead] at ha
      · intro k hd
        simp only [hsrc] at hd
        simp only [hstop]
        cases more with
        | true =>
          simp only [if_true]
          rcases f5 with hf | hf
          · exact Or.inl hf
          · exact Or.inr (Or.inr (Or.inr (Or.inr hf)))
        | false =>
          simp only [Bool.false_eq_true, if_false]
          rcases h.wake k hd with h1 | h1 | h1 | h1 | h1
          · exact Or.inl h1
          · exact Or.inr (Or.inl h1)
          · rw [hc] at h1
            simp only [Ahead] at h1
            have hkn : k < sys.n := by
              apply h.bound.1 k
              cases hst : (s.src k).started with
              | true => rfl
              | false => exact absurd ((h.src k).life.2.2 hst).1 hd
            right; right; left
            simp only [nextPc, show j + 1 < sys.n by omega, if_true, Ahead]
            omega
          · rw [hc] at h1; simp [Owes] at h1
          · exact Or.inr (Or.inr (Or.inr (Or.inr h1)))
    · simp at hs
  | reqStop =>
    simp only [step, Option.some.injEq] at hs
    subst hs
    exact ⟨h.src, h.bound, h.times, fun _ _ => Or.inr (Or.inr (Or.inr (Or.inr rfl)))⟩

theorem inv_reach {sys : Sys} {s : St} (h : Reach sys s) : Inv sys s := by
  induction h with
  | init => exact inv_init sys
  | step l _ hs ih => exact inv_step ih hs

/-! ### frame facts of the steps (used by the liveness argument) -/

def isStopSLabel : SLabel → Bool
  | .closeBegin | .queueStop => true
  | _ => false

def isStopLabel : Label → Bool
  | .reqStop => true
  | .src _ l => isStopSLabel l
  | _ => false

/-- number of values of a source handed to the graph so far -/
def dcount (x : Src) : Nat := (flat x.delivered).length

theorem lstep_keeps {cfg : Cfg} {sr : Bool} {x x' : Src} {m : Bool} {l : SLabel}
    (hs : lstep cfg sr x l = some (x', m)) (hl : isStopSLabel l = false) :
    x'.closing = x.closing ∧ (x.started = true → x'.started = true) ∧
    (x.started = true → x'.accepting = x.accepting) ∧
    (x.started = true → x.deque ≠ [] → x'.deque ≠ []) := by
  cases l <;> simp [isStopSLabel] at hl <;> lstep_cases hs <;>
    simp [Src.refuse, Src.accept, Src.acceptD] <;> (try split) <;> simp_all

theorem lstep_pcs_admitted {cfg : Cfg} {sr : Bool} {x x' : Src} {m : Bool} {l : SLabel}
    (hs : lstep cfg sr x l = some (x', m)) (i : Nat) (k : SendKind) (v : Nat) (w : Bool)
    (hl : l ≠ .mark i) (hp : x.pcs i = .admitted k v w) : x'.pcs i = .admitted k v w := by
  cases l <;> lstep_cases hs <;>
    (try simp [Src.refuse, Src.accept, Src.acceptD, upd]) <;> (try split) <;> (try simp_all) <;>
    (try (intro h; subst h; simp_all)) <;> (try assumption) <;> (try split) <;> (try simp_all)

theorem lstep_mark {cfg : Cfg} {sr : Bool} {x x' : Src} {m : Bool} {i : Nat} {k : SendKind} {v : Nat}
    (hs : lstep cfg sr x (.mark i) = some (x', m)) (hp : x.pcs i = .admitted k v true) :
    m = true ∧ x'.deque = x.deque ∧ x'.delivered = x.delivered := by
  lstep_cases hs
  simp_all

theorem lstep_running {cfg : Cfg} {sr : Bool} {x x' : Src} {m : Bool} {l : SLabel}
    (hs : lstep cfg sr x l = some (x', m))
    (h : x.started = true → x.closing = false → x.accepting = true) :
    x'.started = true → x'.closing = false → x'.accepting = true := by
  cases l <;> lstep_cases hs <;>
    (try simp [Src.refuse, Src.accept, Src.acceptD]) <;> (try split) <;> (try simp_all)

/-- once a source's policy stopped, no source-local step accepts anything -/
theorem lstep_after_stop {cfg : Cfg} {sr : Bool} {x x' : Src} {m : Bool} {l : SLabel}
    (hs : lstep cfg sr x l = some (x', m)) (hst : x.started = true) (hna : x.accepting = false) :
    x'.accepted = x.accepted ∧ x'.started = true ∧ x'.accepting = false := by
  cases l <;> lstep_cases hs <;> simp_all [Src.refuse, Src.acceptD]

/-- what each step does to the delivered history of source `k` -/
theorem step_delivered {sys : Sys} {s s' : St} {l : Label} (hs : step sys s l = some s') (k : Nat) :
    (s'.src k).delivered = (s.src k).delivered ∨
    (l = .pop ∧ s.cpc = .at k ∧ ∃ vs, vs ≠ [] ∧ (s'.src k).delivered = (s.src k).delivered ++ [(s.time, vs)] ∧
      (s.src k).deque = vs ++ (s'.src k).deque ∧ ((sys.cfg k).policy = .queue → ∃ y, vs = [y])) := by
  cases l with
  | src j l =>
    obtain ⟨x, m, hl, _, _, e1, e2, _⟩ := step_src hs
    left
    by_cases hj : k = j
    · subst hj; rw [e1]; exact (lstep_frame hl).1
    · rw [e2 k hj]
  | beginCycle dt =>
    simp only [step] at hs
    repeat' (split at hs)
    all_goals (first | (simp only [Option.some.injEq] at hs; subst hs; exact Or.inl rfl) | (simp at hs))
  | pop =>
    simp only [step] at hs
    split at hs
    · rename_i j hc
      simp only [Option.some.injEq] at hs; subst hs
      by_cases hj : k = j
      · subst hj
        simp only [setSrc_same]
        rcases popL_delivered (sys.cfg k) s.time (s.src k) with ⟨hd, _, _⟩ | ⟨vs, h1, h2, h3, h4⟩
        · exact Or.inl hd
        · exact Or.inr ⟨by simp, hc, vs, h1, h2, h3, h4⟩
      · left; simp only [setSrc_other _ _ _ _ hj]
    · simp at hs
  | rearm =>
    simp only [step] at hs
    split at hs
    · simp only [Option.some.injEq] at hs; subst hs
      left; simp only; split <;> simp [(markFlag_fields s).1]
    · simp at hs
  | reqStop => simp only [step, Option.some.injEq] at hs; subst hs; exact Or.inl rfl

theorem step_dcount {sys : Sys} {s s' : St} {l : Label} (hs : step sys s l = some s') (k : Nat) :
    dcount (s.src k) ≤ dcount (s'.src k) := by
  rcases step_delivered hs k with h | ⟨_, _, vs, _, h, _⟩
  · simp [dcount, h]
  · simp [dcount, h, flat_append]

/-- the pop of source `k` with values pending hands at least one value to the graph -/
theorem step_pop_delivers {sys : Sys} {s s' : St} (hs : step sys s .pop = some s') {k : Nat}
    (hc : s.cpc = .at k) (hd : (s.src k).deque ≠ []) : dcount (s.src k) < dcount (s'.src k) := by
  simp only [step, hc] at hs
  simp only [Option.some.injEq] at hs; subst hs
  simp only [setSrc_same]
  rcases popL_delivered (sys.cfg k) s.time (s.src k) with ⟨_, h0, _⟩ | ⟨vs, h1, h2, _, _⟩
  · exact absurd h0 hd
  · simp only [dcount, h2, flat_append, flat_single, List.length_append]
    have : vs.length ≠ 0 := by intro h; exact h1 (List.eq_nil_of_length_eq_zero h)
    omega

theorem step_accepted_mono {sys : Sys} {s s' : St} {l : Label} (hs : step sys s l = some s') (k : Nat) :
    ∃ t, (s'.src k).accepted = (s.src k).accepted ++ t := by
  cases l with
  | src j l =>
    obtain ⟨x, m, hl, _, _, e1, e2, _⟩ := step_src hs
    by_cases hj : k = j
    · subst hj; rw [e1]; exact (lstep_frame hl).2
    · rw [e2 k hj]; exact ⟨[], by simp⟩
  | beginCycle dt =>
    simp only [step] at hs
    repeat' (split at hs)
    all_goals (first | (simp only [Option.some.injEq] at hs; subst hs; exact ⟨[], by simp⟩) | (simp at hs))
  | pop =>
    simp only [step] at hs
    split at hs
    · rename_i j hc
      simp only [Option.some.injEq] at hs; subst hs
      by_cases hj : k = j
      · subst hj
        simp only [setSrc_same]
        exact ⟨[], by simp [(popL_frame (sys.cfg k) s.time (s.src k)).2.2.2.2.1]⟩
      · simp only [setSrc_other _ _ _ _ hj]; exact ⟨[], by simp⟩
    · simp at hs
  | rearm =>
    simp only [step] at hs
    split at hs
    · simp only [Option.some.injEq] at hs; subst hs
      refine ⟨[], ?_⟩; simp only; split <;> simp [(markFlag_fields s).1]
    · simp at hs
  | reqStop => simp only [step, Option.some.injEq] at hs; subst hs; exact ⟨[], by simp⟩

/-- the consumer's program counter moves only by its own steps, which need the matching counter -/
theorem step_cpc {sys : Sys} {s s' : St} {l : Label} (hs : step sys s l = some s') :
    ((∀ dt, l ≠ .beginCycle dt) → l ≠ .pop → l ≠ .rearm → s'.cpc = s.cpc) ∧
    (l = .pop → ∃ j b, s.cpc = .at j ∧ s'.cpc = .popped j b ∧ s'.flag = s.flag ∧ ∀ k, k ≠ j → s'.src k = s.src k) ∧
    (l = .rearm → ∃ j b, s.cpc = .popped j b ∧ s'.cpc = nextPc sys j ∧ s'.src = s.src ∧
      (s.flag = true → s'.flag = true) ∧ (s.stopReq = false → b = true → s'.flag = true)) ∧
    ((∃ dt, l = .beginCycle dt) → s.cpc = .idle ∧ s'.src = s.src ∧
      (sys.n ≠ 0 → s.flag = true → s'.cpc = .at 0)) := by
  cases l with
  | src j l =>
    obtain ⟨_, _, _, _, _, _, _, e3, _⟩ := step_src hs
    exact ⟨fun _ _ _ => e3, by simp, by simp, by simp⟩
  | beginCycle dt =>
    simp only [step] at hs
    split at hs
    · rename_i hc
      repeat' (split at hs)
      all_goals (first | (simp only [Option.some.injEq] at hs; subst hs) | (simp at hs; done))
      all_goals (refine ⟨by simp, by simp, by simp, fun _ => ⟨hc, rfl, ?_⟩⟩; intro hn hf; simp_all)
    · simp at hs
  | pop =>
    simp only [step] at hs
    split at hs
    · rename_i j hc
      simp only [Option.some.injEq] at hs; subst hs
      refine ⟨by simp, fun _ => ⟨j, _, hc, rfl, rfl, fun k hk => setSrc_other _ _ _ _ hk⟩, by simp, by simp⟩
    · simp at hs
  | rearm =>
    simp only [step] at hs
    split at hs
    · rename_i j b hc
      simp only [Option.some.injEq] at hs; subst hs
      obtain ⟨f1, f2, f3, f4, f5, f6, f7⟩ := markFlag_fields s
      refine ⟨by simp, by simp, fun _ => ⟨j, b, hc, rfl, ?_, ?_, ?_⟩, by simp⟩
      · simp only; split <;> simp [f1]
      · intro hf; simp only; split
        · exact f6 hf
        · exact hf
      · intro hsr hb; subst hb; simp only [if_true]; exact f7 hsr
    · simp at hs
  | reqStop =>
    simp only [step, Option.some.injEq] at hs; subst hs
    exact ⟨fun _ _ _ => rfl, by simp, by simp, by simp⟩

/-- the flag is cleared only by `beginCycle` -/
theorem step_flag {sys : Sys} {s s' : St} {l : Label} (hs : step sys s l = some s')
    (hl : ∀ dt, l ≠ .beginCycle dt) (hf : s.flag = true) : s'.flag = true := by
  cases l with
  | src j l =>
    obtain ⟨_, _, _, _, _, _, _, _, _, _, e6, _⟩ := step_src hs
    exact e6 hf
  | beginCycle dt => exact absurd rfl (hl dt)
  | pop =>
    obtain ⟨j, b, _, _, h, _⟩ := (step_cpc hs).2.1 rfl
    rw [h]; exact hf
  | rearm =>
    obtain ⟨j, b, _, _, _, h, _⟩ := (step_cpc hs).2.2.1 rfl
    exact h hf
  | reqStop => simp only [step, Option.some.injEq] at hs; subst hs; exact hf

theorem step_keeps_stop {sys : Sys} {s s' : St} {l : Label} (hs : step sys s l = some s') (hl : isStopLabel l = false) :
    s'.stopReq = s.stopReq ∧ (∀ k, (s'.src k).closing = (s.src k).closing) ∧
    (∀ k, (s.src k).started = true → (s'.src k).started = true) ∧
    (∀ k, (s.src k).started = true → (s'.src k).accepting = (s.src k).accepting) := by
  cases l with
  | src j l =>
    obtain ⟨x, m, hls, _, _, e1, e2, _, _, e5, _⟩ := step_src hs
    simp only [isStopLabel] at hl
    obtain ⟨k1, k2, k3, _⟩ := lstep_keeps hls hl
    refine ⟨e5, ?_, ?_, ?_⟩ <;> intro k <;> by_cases hk : k = j
    · subst hk; rw [e1]; exact k1
    · rw [e2 k hk]
    · subst hk; rw [e1]; exact k2
    · rw [e2 k hk]; exact id
    · subst hk; rw [e1]; exact k3
    · rw [e2 k hk]; exact fun _ => rfl
  | beginCycle dt =>
    obtain ⟨_, h, _⟩ := (step_cpc hs).2.2.2 ⟨dt, rfl⟩
    simp only [step] at hs
    repeat' (split at hs)
    all_goals (first | (simp only [Option.some.injEq] at hs; subst hs; simp) | (simp at hs))
  | pop =>
    simp only [step] at hs
    split at hs
    · rename_i j hc
      simp only [Option.some.injEq] at hs; subst hs
      obtain ⟨p1, p2, p3, _⟩ := popL_frame (sys.cfg j) s.time (s.src j)
      refine ⟨rfl, ?_, ?_, ?_⟩ <;> intro k <;> by_cases hk : k = j
      · subst hk; simp only [setSrc_same]; exact p3
      · simp only [setSrc_other _ _ _ _ hk]
      · subst hk; simp only [setSrc_same]; rw [p1]; exact id
      · simp only [setSrc_other _ _ _ _ hk]; exact id
      · subst hk; simp only [setSrc_same]; exact fun _ => p2
      · simp only [setSrc_other _ _ _ _ hk]; simp
    · simp at hs
  | rearm =>
    obtain ⟨j, b, _, _, h, _⟩ := (step_cpc hs).2.2.1 rfl
    simp only [step] at hs
    split at hs
    · simp only [Option.some.injEq] at hs; subst hs
      refine ⟨?_, fun k => by rw [h], fun k => by rw [h]; exact id, fun k => by rw [h]; exact fun _ => rfl⟩
      simp only; split <;> simp [(markFlag_fields s).2.2.2.1]
    · simp at hs
  | reqStop => simp [isStopLabel] at hl

/-- the queue of source `k` shrinks only by the pop of source `k` (and by its stop) -/
theorem step_deque_ne {sys : Sys} {s s' : St} {l : Label} (hs : step sys s l = some s') (hl : isStopLabel l = false)
    (k : Nat) (hp : l = .pop → s.cpc ≠ .at k) (hst : (s.src k).started = true) (hd : (s.src k).deque ≠ []) :
    (s'.src k).deque ≠ [] := by
  cases l with
  | src j l =>
    obtain ⟨x, m, hls, _, _, e1, e2, _⟩ := step_src hs
    simp only [isStopLabel] at hl
    by_cases hk : k = j
    · subst hk; rw [e1]; exact (lstep_keeps hls hl).2.2.2 hst hd
    · rw [e2 k hk]; exact hd
  | beginCycle dt =>
    obtain ⟨_, h, _⟩ := (step_cpc hs).2.2.2 ⟨dt, rfl⟩
    rw [h]; exact hd
  | pop =>
    obtain ⟨j, b, hc, _, _, h⟩ := (step_cpc hs).2.1 rfl
    have hk : k ≠ j := by
      intro hkj; subst hkj; exact hp rfl hc
    rw [h k hk]; exact hd
  | rearm =>
    obtain ⟨j, b, _, _, h, _⟩ := (step_cpc hs).2.2.1 rfl
    rw [h]; exact hd
  | reqStop => simp [isStopLabel] at hl

/-- a producer between admission and mark stays there until its own `mark` -/
theorem step_pcs_admitted {sys : Sys} {s s' : St} {l : Label} (hs : step sys s l = some s')
    (k i : Nat) (kd : SendKind) (v : Nat) (w : Bool) (hl : l ≠ .src k (.mark i))
    (hp : (s.src k).pcs i = .admitted kd v w) : (s'.src k).pcs i = .admitted kd v w := by
  cases l with
  | src j l =>
    obtain ⟨x, m, hls, _, _, e1, e2, _⟩ := step_src hs
    by_cases hk : k = j
    · subst hk; rw [e1]
      exact lstep_pcs_admitted hls i kd v w (by intro h; subst h; exact hl rfl) hp
    · rw [e2 k hk]; exact hp
  | beginCycle dt =>
    obtain ⟨_, h, _⟩ := (step_cpc hs).2.2.2 ⟨dt, rfl⟩
    rw [h]; exact hp
  | pop =>
    simp only [step] at hs
    split at hs
    · rename_i j hc
      simp only [Option.some.injEq] at hs; subst hs
      by_cases hk : k = j
      · subst hk; simp only [setSrc_same]
        rw [(popL_frame (sys.cfg k) s.time (s.src k)).2.2.2.1]; exact hp
      · simp only [setSrc_other _ _ _ _ hk]; exact hp
    · simp at hs
  | rearm =>
    obtain ⟨j, b, _, _, h, _⟩ := (step_cpc hs).2.2.1 rfl
    rw [h]; exact hp
  | reqStop => simp only [step, Option.some.injEq] at hs; subst hs; exact hp

/-- the mark a producer owes raises the shared flag -/
theorem step_mark {sys : Sys} {s s' : St} {k i : Nat} {kd : SendKind} {v : Nat}
    (hs : step sys s (.src k (.mark i)) = some s')
    (hp : (s.src k).pcs i = .admitted kd v true) (hst : s.stopReq = false) : s'.flag = true := by
  obtain ⟨x, m, hls, _, _, _, _, _, _, _, _, _, e8, _⟩ := step_src hs
  exact e8 (lstep_mark hls hp).1 hst

/-- a started source that is not closing is accepting -/
theorem running_accepting {sys : Sys} {s : St} (h : Reach sys s) (k : Nat) :
    (s.src k).started = true → (s.src k).closing = false → (s.src k).accepting = true := by
  induction h with
  | init => simp
  | step l _ hs ih =>
    rename_i s0 s1
    cases l with
    | src j l =>
      obtain ⟨x, m, hls, _, _, e1, e2, _⟩ := step_src hs
      by_cases hk : k = j
      · subst hk; rw [e1]; exact lstep_running hls ih
      · rw [e2 k hk]; exact ih
    | beginCycle dt =>
      obtain ⟨_, h, _⟩ := (step_cpc hs).2.2.2 ⟨dt, rfl⟩
      rw [h]; exact ih
    | pop =>
      simp only [step] at hs
      split at hs
      · rename_i j hc
        simp only [Option.some.injEq] at hs; subst hs
        by_cases hk : k = j
        · subst hk; simp only [setSrc_same]
          obtain ⟨p1, p2, p3, _⟩ := popL_frame (sys.cfg k) _ (_ : Src)
          rw [p1, p2, p3]; exact ih
        · simp only [setSrc_other _ _ _ _ hk]; exact ih
      · simp at hs
    | rearm =>
      obtain ⟨j, b, _, _, h, _⟩ := (step_cpc hs).2.2.1 rfl
      rw [h]; exact ih
    | reqStop => simp only [step, Option.some.injEq] at hs; subst hs; exact ih

/-! ### the collection-conflating invariant -/

theorem foldWindow_nil : foldWindow [] = (none, false) := rfl

theorem foldWindow_snoc (w : List Delta) (d : Delta) :
    foldWindow (w ++ [d]) =
      ((applyDelta (foldWindow w).1 d).1, (foldWindow w).2 || (applyDelta (foldWindow w).1 d).2) := by
  simp [foldWindow, List.foldl_append]

/-- invariant of a collection-conflating source (`isDict`): the accumulator is the fold of the
    window's accepted deltas, `pending` (the marker deque) holds exactly when one of them had effect,
    every delivered value is the fold of its window, and the accepted deltas are exactly those of the
    delivered windows followed by the current window (plus what a stop dropped) -/
structure DInv (x : Src) : Prop where
  acc : x.acc = (foldWindow x.window).1
  pend : x.deque ≠ [] ↔ (foldWindow x.window).2 = true
  hist : ∀ e ∈ x.cdelivered, e.2.2 = (foldWindow e.2.1).1.getD [] ∧ (foldWindow e.2.1).2 = true
  cons : ∃ dropped, x.caccepted.map (·.2) = (x.cdelivered.map (·.2.1)).flatten ++ x.window ++ dropped ∧
    (x.accepting = true → dropped = [])
  count : x.delivered.length = x.cdelivered.length
  fresh : x.started = false → x.window = [] ∧ x.caccepted = [] ∧ x.cdelivered = [] ∧ x.acc = none ∧ x.delivered = []

theorem dinv_init : DInv {} :=
  ⟨rfl, by simp [foldWindow], by simp, ⟨[], by simp, fun _ => rfl⟩, rfl, fun _ => ⟨rfl, rfl, rfl, rfl, rfl⟩⟩

/-- fields a step may change without touching the collection state -/
theorem dinv_same {x y : Src} (h : DInv x) (e1 : y.acc = x.acc) (e2 : y.window = x.window) (e3 : y.deque = x.deque)
    (e4 : y.cdelivered = x.cdelivered) (e5 : y.caccepted = x.caccepted) (e6 : y.accepting = x.accepting)
    (e7 : y.delivered = x.delivered) (e8 : y.started = x.started) : DInv y := by
  refine ⟨?_, ?_, ?_, ?_, ?_, ?_⟩
  · rw [e1, e2]; exact h.acc
  · rw [e2, e3]; exact h.pend
  · rw [e4]; exact h.hist
  · rw [e4, e5, e2, e6]; exact h.cons
  · rw [e7, e4]; exact h.count
  · rw [e8, e2, e5, e4, e1, e7]; exact h.fresh

theorem dinv_acceptD {x : Src} (h : DInv x) (i : Nat) (k : SendKind) (hacc : x.accepting = true)
    (hst : x.started = true) : DInv (x.acceptD i k) := by
  unfold Src.acceptD
  refine ⟨?_, ?_, h.hist, ?_, h.count, ?_⟩
  · simp only [foldWindow_snoc]; rw [h.acc]
  · simp only [foldWindow_snoc]
    rw [← h.acc]
    by_cases hd : x.deque = []
    · have hf : (foldWindow x.window).2 = false := by
        cases hfw : (foldWindow x.window).2 with
        | false => rfl
        | true => exact absurd hd (h.pend.mpr hfw)
      simp only [hd, List.isEmpty_nil, Bool.not_true, Bool.false_eq_true, if_false, hf, Bool.false_or]
      cases (applyDelta x.acc (x.pay i)).2 <;> simp
    · have hf : (foldWindow x.window).2 = true := h.pend.mp hd
      have he : x.deque.isEmpty = false := by
        cases hx : x.deque with
        | nil => exact absurd hx hd
        | cons _ _ => rfl
      simp only [he, Bool.not_false, if_true, hf, Bool.true_or]
      exact ⟨fun _ => trivial, fun _ => hd⟩
  · obtain ⟨dr, h1, h2⟩ := h.cons
    have := h2 hacc
    subst this
    refine ⟨[], ?_, fun _ => rfl⟩
    simp only [List.map_append, List.map_cons, List.map_nil, h1, List.append_nil, List.append_assoc]
  · intro hs; rw [hst] at hs; simp at hs

/-- the collection-conflating invariant is preserved by every source-local step of an `isDict` source -/
theorem lstep_dinv {cfg : Cfg} {sr : Bool} {x x' : Src} {m : Bool} {l : SLabel} (hd : isDict cfg = true)
    (hsi : SInv cfg x) (h : DInv x) (hs : lstep cfg sr x l = some (x', m)) : DInv x' := by
  have hnd : ¬ (isDict cfg = false) := by rw [hd]; simp
  cases l with
  | start =>
    lstep_cases hs
    rename_i hst
    simp only [Bool.not_eq_true] at hst
    obtain ⟨f1, f2, f3, f4, f5⟩ := h.fresh hst
    exact ⟨rfl, by simp [foldWindow], by simp [f3], ⟨[], by simp [f2, f3], fun _ => rfl⟩, by simp [f3, f5],
      fun hh => by simp at hh⟩
  | enter i k v =>
    lstep_cases hs <;> simp_all
  | enterD i k d =>
    lstep_cases hs <;> exact dinv_same h rfl rfl rfl rfl rfl rfl rfl rfl
  | check i =>
    lstep_cases hs <;> exact dinv_same h rfl rfl rfl rfl rfl rfl rfl rfl
  | admitQ i =>
    lstep_cases hs <;> first
      | exact dinv_same h rfl rfl rfl rfl rfl rfl rfl rfl
      | exact dinv_acceptD h i _ (by simp_all) (hsi.life.1 (by simp_all))
      | (exfalso; simp_all)
  | wake i =>
    lstep_cases hs <;> first
      | exact dinv_same h rfl rfl rfl rfl rfl rfl rfl rfl
      | exact dinv_acceptD h i _ (by simp_all) (hsi.life.1 (by simp_all))
      | (exfalso; simp_all)
  | mark i =>
    lstep_cases hs; exact dinv_same h rfl rfl rfl rfl rfl rfl rfl rfl
  | closeBegin =>
    lstep_cases hs; exact dinv_same h rfl rfl rfl rfl rfl rfl rfl rfl
  | queueStop =>
    lstep_cases hs
    rename_i hcond
    simp only [Bool.and_eq_true] at hcond
    refine ⟨rfl, by simp [foldWindow], h.hist, ?_, h.count, ?_⟩
    · obtain ⟨dr, h1, _⟩ := h.cons
      exact ⟨x.window ++ dr, by simp [h1], by simp⟩
    · intro hst
      have := hsi.life.1 hcond.2
      simp only at hst
      rw [hst] at this; simp at this

theorem popL_dinv {cfg : Cfg} {x : Src} (t : Nat) (hd : isDict cfg = true) (h : DInv x) :
    DInv (popL cfg t x).1 := by
  have hp := isDict_conflating hd
  unfold popL
  split
  · exact h
  · rename_i hpol _; rw [hpol] at hp; simp at hp
  · rename_i v rest hdq _
    simp only [hd, if_true]
    refine ⟨rfl, by simp [foldWindow], ?_, ?_, ?_, ?_⟩
    · intro e he
      simp only [List.mem_append, List.mem_singleton] at he
      rcases he with he | rfl
      · exact h.hist e he
      · exact ⟨by simp only; rw [h.acc], h.pend.mp (by rw [hdq]; simp)⟩
    · obtain ⟨dr, h1, h2⟩ := h.cons
      exact ⟨dr, by simp [h1], h2⟩
    · simp [h.count]
    · intro hst
      have := (h.fresh hst).2.2.2.2
      simp only at hst
      exfalso
      -- a source that is not started has delivered nothing and holds nothing pending
      have hw := (h.fresh hst).1
      have := h.pend.mp (by rw [hdq]; simp)
      rw [hw] at this; simp [foldWindow] at this

/-- what a pop of a pending collection-conflating source hands to the graph: the fold of its window -/
theorem popL_dict_delivers {cfg : Cfg} {x : Src} (t : Nat) (hd : isDict cfg = true) (h : DInv x)
    (hp : x.deque ≠ []) :
    (popL cfg t x).1.cdelivered = x.cdelivered ++ [(t, x.window, (foldWindow x.window).1.getD [])] ∧
    (popL cfg t x).1.window = [] ∧ (popL cfg t x).1.deque = [] ∧ (popL cfg t x).1.acc = none := by
  have hpol := isDict_conflating hd
  unfold popL
  split
  · rename_i he; exact absurd he hp
  · rename_i hq _; rw [hq] at hpol; simp at hpol
  · simp only [hd, if_true]
    exact ⟨by rw [h.acc], trivial, trivial, trivial⟩

/-- … and a pop that finds nothing pending hands nothing over and keeps the window -/
theorem popL_dict_idle {cfg : Cfg} {x : Src} (t : Nat) (hp : x.deque = []) :
    (popL cfg t x).1 = x := by
  unfold popL
  split
  · rfl
  · rename_i hq; rw [hp] at hq; simp at hq
  · rename_i hq _; rw [hp] at hq; simp at hq

/-! ### a producer that never enters a send stays idle (used for concrete witnesses) -/

/-- the label is producer `i` entering a send -/
def SLabel.entersBy (i : Nat) : SLabel → Bool
  | .enter i' _ _ => i' == i
  | .enterD i' _ _ => i' == i
  | _ => false

/-- the label is producer `i` of source `k` entering a send -/
def Label.entersBy (k i : Nat) : Label → Bool
  | .src k' l => k' == k && l.entersBy i
  | _ => false

theorem lstep_pcs_idle {cfg : Cfg} {sr : Bool} {x x' : Src} {m : Bool} {l : SLabel}
    (hs : lstep cfg sr x l = some (x', m)) (i : Nat) (hl : l.entersBy i = false)
    (hp : x.pcs i = .idle) : x'.pcs i = .idle := by
  cases l <;> simp [SLabel.entersBy] at hl <;> lstep_cases hs <;>
    (try simp [Src.refuse, Src.accept, Src.acceptD, upd]) <;> (try split) <;> (try simp_all) <;>
    (try (intro h; subst h; simp_all)) <;> (try assumption) <;> (try split) <;> (try simp_all)

theorem lstepS51_pcs_idle {cfg : Cfg} {sr : Bool} {x x' : Src} {m : Bool} {l : SLabel}
    (hs : lstepS51 cfg sr x l = some (x', m)) (i : Nat) (hl : l.entersBy i = false)
    (hp : x.pcs i = .idle) : x'.pcs i = .idle := by
  cases l with
  | admitQ j =>
    simp only [lstepS51] at hs
    split at hs
    · rename_i kd v hpc
      split at hs
      · simp only [Option.some.injEq, Prod.mk.injEq] at hs
        obtain ⟨rfl, _⟩ := hs
        by_cases hij : i = j
        · subst hij; rw [hp] at hpc; simp at hpc
        · simp [Src.acceptDSeeded, upd, hij]; exact hp
      · exact lstep_pcs_idle hs i hl hp
    · simp at hs
  | start => exact lstep_pcs_idle (cfg := cfg) (sr := sr) (l := .start) hs i hl hp
  | enter j kd v => exact lstep_pcs_idle (cfg := cfg) (sr := sr) (l := .enter j kd v) hs i hl hp
  | enterD j kd d => exact lstep_pcs_idle (cfg := cfg) (sr := sr) (l := .enterD j kd d) hs i hl hp
  | check j => exact lstep_pcs_idle (cfg := cfg) (sr := sr) (l := .check j) hs i hl hp
  | wake j => exact lstep_pcs_idle (cfg := cfg) (sr := sr) (l := .wake j) hs i hl hp
  | mark j => exact lstep_pcs_idle (cfg := cfg) (sr := sr) (l := .mark j) hs i hl hp
  | closeBegin => exact lstep_pcs_idle (cfg := cfg) (sr := sr) (l := .closeBegin) hs i hl hp
  | queueStop => exact lstep_pcs_idle (cfg := cfg) (sr := sr) (l := .queueStop) hs i hl hp

theorem step_pcs_idle {sys : Sys} {s s' : St} {l : Label} (hs : step sys s l = some s')
    (k i : Nat) (hl : l.entersBy k i = false)
    (hp : (s.src k).pcs i = .idle) : (s'.src k).pcs i = .idle := by
  cases l with
  | src j l =>
    obtain ⟨x, m, hls, _, _, e1, e2, _⟩ := step_src hs
    by_cases hk : k = j
    · subst hk; rw [e1]
      exact lstep_pcs_idle hls i (by simpa [Label.entersBy] using hl) hp
    · rw [e2 k hk]; exact hp
  | beginCycle dt =>
    obtain ⟨_, h, _⟩ := (step_cpc hs).2.2.2 ⟨dt, rfl⟩
    rw [h]; exact hp
  | pop =>
    simp only [step] at hs
    split at hs
    · rename_i j hc
      simp only [Option.some.injEq] at hs; subst hs
      by_cases hk : k = j
      · subst hk; simp only [setSrc_same]
        rw [(popL_frame (sys.cfg k) s.time (s.src k)).2.2.2.1]; exact hp
      · simp only [setSrc_other _ _ _ _ hk]; exact hp
    · simp at hs
  | rearm =>
    obtain ⟨j, b, _, _, h, _⟩ := (step_cpc hs).2.2.1 rfl
    rw [h]; exact hp
  | reqStop => simp only [step, Option.some.injEq] at hs; subst hs; exact hp

theorem stepPerSource_pcs_idle {sys : Sys} {s s' : St} {l : Label} (hs : stepPerSource sys s l = some s')
    (k i : Nat) (hl : l.entersBy k i = false)
    (hp : (s.src k).pcs i = .idle) : (s'.src k).pcs i = .idle := by
  cases l with
  | pop =>
    simp only [stepPerSource] at hs
    split at hs
    · split at hs
      · exact step_pcs_idle hs k i hl hp
      · exact step_pcs_idle hs k i hl hp
    · simp at hs
  | src j l => exact step_pcs_idle (l := .src j l) hs k i hl hp
  | beginCycle dt => exact step_pcs_idle (l := .beginCycle dt) hs k i hl hp
  | rearm => exact step_pcs_idle (l := .rearm) hs k i hl hp
  | reqStop => exact step_pcs_idle (sys := sys) (l := .reqStop) hs k i hl hp

theorem stepS51_pcs_idle {sys : Sys} {s s' : St} {l : Label} (hs : stepS51 sys s l = some s')
    (k i : Nat) (hl : l.entersBy k i = false)
    (hp : (s.src k).pcs i = .idle) : (s'.src k).pcs i = .idle := by
  cases l with
  | src j l =>
    simp only [stepS51] at hs
    split at hs
    · split at hs
      · simp at hs
      · split at hs
        · rename_i x m hl'
          simp only [Option.some.injEq] at hs; subst hs
          have hsrc : (if m = true then markFlag (setSrc s j x) else setSrc s j x).src = (setSrc s j x).src := by
            cases m <;> simp [(markFlag_fields (setSrc s j x)).1]
          rw [hsrc]
          by_cases hk : k = j
          · subst hk; rw [setSrc_same]
            exact lstepS51_pcs_idle hl' i (by simpa [Label.entersBy] using hl) hp
          · rw [setSrc_other _ _ _ _ hk]; exact hp
        · simp at hs
    · simp at hs
  | beginCycle dt => exact step_pcs_idle (l := .beginCycle dt) hs k i hl hp
  | pop => exact step_pcs_idle (sys := sys) (l := .pop) hs k i hl hp
  | rearm => exact step_pcs_idle (sys := sys) (l := .rearm) hs k i hl hp
  | reqStop => exact step_pcs_idle (sys := sys) (l := .reqStop) hs k i hl hp

theorem run_pcs_idle (sys : Sys) (k i : Nat) (ls : List Label) (hl : ∀ l ∈ ls, l.entersBy k i = false)
    (s : St) (hp : (s.src k).pcs i = .idle) : ((runLabels sys s ls).src k).pcs i = .idle := by
  induction ls generalizing s with
  | nil => exact hp
  | cons l ls ih =>
    simp only [runLabels]
    cases hs : step sys s l with
    | none => exact ih (fun l' hl' => hl l' (List.mem_cons_of_mem _ hl')) s hp
    | some s' =>
      exact ih (fun l' hl' => hl l' (List.mem_cons_of_mem _ hl')) s'
        (step_pcs_idle hs k i (hl l (List.mem_cons_self ..)) hp)

theorem runPerSource_pcs_idle (sys : Sys) (k i : Nat) (ls : List Label)
    (hl : ∀ l ∈ ls, l.entersBy k i = false)
    (s : St) (hp : (s.src k).pcs i = .idle) : ((runPerSource sys s ls).src k).pcs i = .idle := by
  induction ls generalizing s with
  | nil => exact hp
  | cons l ls ih =>
    simp only [runPerSource]
    cases hs : stepPerSource sys s l with
    | none => exact ih (fun l' hl' => hl l' (List.mem_cons_of_mem _ hl')) s hp
    | some s' =>
      exact ih (fun l' hl' => hl l' (List.mem_cons_of_mem _ hl')) s'
        (stepPerSource_pcs_idle hs k i (hl l (List.mem_cons_self ..)) hp)

theorem runS51_pcs_idle (sys : Sys) (k i : Nat) (ls : List Label)
    (hl : ∀ l ∈ ls, l.entersBy k i = false)
    (s : St) (hp : (s.src k).pcs i = .idle) : ((runS51 sys s ls).src k).pcs i = .idle := by
  induction ls generalizing s with
  | nil => exact hp
  | cons l ls ih =>
    simp only [runS51]
    cases hs : stepS51 sys s l with
    | none => exact ih (fun l' hl' => hl l' (List.mem_cons_of_mem _ hl')) s hp
    | some s' =>
      exact ih (fun l' hl' => hl l' (List.mem_cons_of_mem _ hl')) s'
        (stepS51_pcs_idle hs k i (hl l (List.mem_cons_self ..)) hp)

end HgVerif.PushQueueN
