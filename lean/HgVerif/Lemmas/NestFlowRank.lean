import HgVerif.Model.NestFlow
import HgVerif.Lemmas.NestFlowScan
/-! Rank bookkeeping for `Model/NestFlow.lean`: validity of the raw ranks, the composed rank `flatRk`,
what a topological composed rank says level by level, and the per-node slot view of a nesting. -/
namespace HgVerif.NestFlow
open HgVerif.Sched HgVerif.Flow

def RkOK (n : Nat) (rk : Rk) : Prop :=
  (∀ k, k < n → rk.posOf (rk.node k) = k ∧ rk.node k < n) ∧ (∀ i, i < n → rk.node (rk.posOf i) = i ∧ rk.posOf i < n)

def Rk.toRank (rk : Rk) (n : Nat) (h : RkOK n rk) : Rank n := ⟨rk.node, rk.posOf, h.1, h.2⟩

theorem rkOK_ofRank {n : Nat} (ρ : Rank n) : RkOK n (Rk.ofRank ρ) := ⟨ρ.left, ρ.right⟩

/-- every level has a valid rank of its own positions (ordinary nodes and, if any, the nested node) -/
def Tree.WF (n : Nat) : Tree → Nat → Prop
  | .leaf rk, lo => lo ≤ n ∧ RkOK (n - lo) rk
  | .node hi rk ch, lo => lo ≤ hi ∧ hi ≤ n ∧ RkOK (hi - lo + 1) rk ∧ Tree.WF n ch hi

theorem rk_inj {n : Nat} {rk : Rk} (h : RkOK n rk) {i j : Nat} (hi : i < n) (hj : j < n) (e : rk.posOf i = rk.posOf j) : i = j := by
  rw [← (h.2 i hi).1, ← (h.2 j hj).1, e]

/-- facts about one nested level: `k` is the position of the nested node -/
theorem level_facts {nO : Nat} {rk : Rk} (h : RkOK (nO + 1) rk) :
    rk.posOf nO < nO + 1 ∧ (∀ i, i < nO → rk.posOf i ≠ rk.posOf nO ∧ rk.posOf i < nO + 1) ∧
    (∀ q, q < nO + 1 → q ≠ rk.posOf nO → rk.node q < nO) := by
  refine ⟨(h.2 nO (by omega)).2, ?_, ?_⟩
  · intro i hi
    refine ⟨fun e => ?_, (h.2 i (by omega)).2⟩
    have := rk_inj h (by omega) (by omega) e; omega
  · intro q hq hne
    have h1 := h.1 q hq
    rcases Nat.lt_or_ge (rk.node q) nO with hlt | hge
    · exact hlt
    · exfalso; apply hne
      have : rk.node q = nO := by omega
      rw [← this]; exact h1.1.symm

/-! ### the composed rank -/

theorem star_pos_outer (n hi lo : Nat) (rk : Rk) (ch : Tree) (i : Nat) (hi' : i < hi - lo) :
    (flatRk n (.node hi rk ch) lo).posOf i =
      if rk.posOf i < rk.posOf (hi - lo) then rk.posOf i else rk.posOf i + (n - hi) - 1 := by
  simp only [flatRk, hi', ↓reduceIte]

theorem star_pos_deep (n hi lo : Nat) (rk : Rk) (ch : Tree) (i : Nat) (hi' : hi - lo ≤ i) :
    (flatRk n (.node hi rk ch) lo).posOf i = rk.posOf (hi - lo) + (flatRk n ch hi).posOf (i - (hi - lo)) := by
  have : ¬ i < hi - lo := by omega
  simp only [flatRk, this, ↓reduceIte]

theorem star_node_lt (n hi lo : Nat) (rk : Rk) (ch : Tree) (q : Nat) (hq : q < rk.posOf (hi - lo)) :
    (flatRk n (.node hi rk ch) lo).node q = rk.node q := by
  simp only [flatRk, hq, ↓reduceIte]

theorem star_node_block (n hi lo : Nat) (rk : Rk) (ch : Tree) (c : Nat) (hc : c < n - hi) :
    (flatRk n (.node hi rk ch) lo).node (rk.posOf (hi - lo) + c) = (hi - lo) + (flatRk n ch hi).node c := by
  have h1 : ¬ rk.posOf (hi - lo) + c < rk.posOf (hi - lo) := by omega
  have h2 : rk.posOf (hi - lo) + c < rk.posOf (hi - lo) + (n - hi) := by omega
  simp only [flatRk, h1, h2, ↓reduceIte, Nat.add_sub_cancel_left]

theorem star_node_gt (n hi lo : Nat) (rk : Rk) (ch : Tree) (q : Nat) (hq : rk.posOf (hi - lo) < q) :
    (flatRk n (.node hi rk ch) lo).node (q + (n - hi) - 1) = rk.node q := by
  have h1 : ¬ q + (n - hi) - 1 < rk.posOf (hi - lo) := by omega
  have h2 : ¬ q + (n - hi) - 1 < rk.posOf (hi - lo) + (n - hi) := by omega
  have h3 : q + (n - hi) - 1 + 1 - (n - hi) = q := by omega
  simp only [flatRk, h1, h2, ↓reduceIte, h3]

theorem flatRk_ok (n : Nat) (T : Tree) (lo : Nat) (h : T.WF n lo) : RkOK (n - lo) (flatRk n T lo) := by
  induction T generalizing lo with
  | leaf rk => exact h.2
  | node hi rk ch ih =>
    obtain ⟨hlo, hhi, hrk, hch⟩ := h
    have ihc := ih hi hch
    obtain ⟨hk, hout, hnode⟩ := level_facts hrk
    have hsz : n - lo = (hi - lo) + (n - hi) := by omega
    refine ⟨?_, ?_⟩
    · intro q hq
      rcases Nat.lt_or_ge q (rk.posOf (hi - lo)) with h1 | h1
      · rw [star_node_lt n hi lo rk ch q h1]
        have hq' : q < hi - lo + 1 := by omega
        have hn := hnode q hq' (by omega)
        rw [star_pos_outer n hi lo rk ch _ hn, (hrk.1 q hq').1, if_pos h1]
        exact ⟨rfl, by omega⟩
      · rcases Nat.lt_or_ge q (rk.posOf (hi - lo) + (n - hi)) with h2 | h2
        · have hc : q - rk.posOf (hi - lo) < n - hi := by omega
          have e : q = rk.posOf (hi - lo) + (q - rk.posOf (hi - lo)) := by omega
          rw [e, star_node_block n hi lo rk ch _ hc, star_pos_deep n hi lo rk ch _ (by omega),
            Nat.add_sub_cancel_left, (ihc.1 _ hc).1]
          exact ⟨rfl, by have := (ihc.1 _ hc).2; omega⟩
        · have hq' : q + 1 - (n - hi) < hi - lo + 1 := by omega
          have hgt : rk.posOf (hi - lo) < q + 1 - (n - hi) := by omega
          have e : q = (q + 1 - (n - hi)) + (n - hi) - 1 := by omega
          have hn := hnode _ hq' (by omega)
          rw [e, star_node_gt n hi lo rk ch _ hgt, star_pos_outer n hi lo rk ch _ hn, (hrk.1 _ hq').1,
            if_neg (by omega)]
          exact ⟨rfl, by omega⟩
    · intro i hi'
      rcases Nat.lt_or_ge i (hi - lo) with h1 | h1
      · obtain ⟨hne, hlt⟩ := hout i h1
        rw [star_pos_outer n hi lo rk ch i h1]
        by_cases h2 : rk.posOf i < rk.posOf (hi - lo)
        · rw [if_pos h2, star_node_lt n hi lo rk ch _ h2, (hrk.2 i (by omega)).1]
          exact ⟨rfl, by omega⟩
        · rw [if_neg h2, star_node_gt n hi lo rk ch _ (by omega), (hrk.2 i (by omega)).1]
          exact ⟨rfl, by omega⟩
      · have hj : i - (hi - lo) < n - hi := by omega
        rw [star_pos_deep n hi lo rk ch i h1, star_node_block n hi lo rk ch _ (ihc.2 _ hj).2, (ihc.2 _ hj).1]
        exact ⟨by omega, by have := (ihc.2 _ hj).2; omega⟩

/-! ### topological order, level by level -/

/-- the composed rank of the graph at `lo` is topological for the edges among its own nodes -/
def TopoT {S : Type} (F : Flow S) (T : Tree) (lo : Nat) : Prop :=
  ∀ c, lo ≤ c → c < F.n → ∀ p ∈ F.prods c, p < F.n ∧
    (lo ≤ p → (flatRk F.n T lo).posOf (p - lo) < (flatRk F.n T lo).posOf (c - lo))

theorem topoT_child {S : Type} (F : Flow S) (hi lo : Nat) (rk : Rk) (ch : Tree) (hlo : lo ≤ hi)
    (h : TopoT F (.node hi rk ch) lo) : TopoT F ch hi := by
  intro c hc hcn p hp
  obtain ⟨h1, h2⟩ := h c (by omega) hcn p hp
  refine ⟨h1, fun hpl => ?_⟩
  have := h2 (by omega)
  rw [star_pos_deep F.n hi lo rk ch _ (by omega), star_pos_deep F.n hi lo rk ch _ (by omega)] at this
  have e1 : p - lo - (hi - lo) = p - hi := by omega
  have e2 : c - lo - (hi - lo) = c - hi := by omega
  rw [e1, e2] at this
  omega

theorem topoT_no_self {S : Type} (F : Flow S) (T : Tree) (lo : Nat) (h : TopoT F T lo) (i : Nat) (hi : lo ≤ i) (hn : i < F.n) :
    i ∉ F.prods i := by
  intro hm; have := (h i hi hn i hm).2 hi; omega

/-- what the order says at one nested level, in the level's own positions -/
theorem topoT_level {S : Type} (F : Flow S) (hi lo : Nat) (rk : Rk) (ch : Tree)
    (hwf : Tree.WF F.n (.node hi rk ch) lo) (h : TopoT F (.node hi rk ch) lo)
    (c : Nat) (hc : lo ≤ c) (hcn : c < F.n) (p : Nat) (hp : p ∈ F.prods c) (hpl : lo ≤ p) :
    (p < hi → c < hi → rk.posOf (p - lo) < rk.posOf (c - lo)) ∧
    (p < hi → hi ≤ c → rk.posOf (p - lo) < rk.posOf (hi - lo)) ∧
    (hi ≤ p → c < hi → rk.posOf (hi - lo) < rk.posOf (c - lo)) := by
  obtain ⟨hlo, hhi, hrk, hch⟩ := hwf
  obtain ⟨hk, hout, _⟩ := level_facts hrk
  have hrc := flatRk_ok F.n ch hi hch
  obtain ⟨hpn, hlt⟩ := h c hc hcn p hp
  have hlt := hlt hpl
  refine ⟨?_, ?_, ?_⟩
  · intro h1 h2
    rw [star_pos_outer F.n hi lo rk ch _ (by omega), star_pos_outer F.n hi lo rk ch _ (by omega)] at hlt
    have a := hout (p - lo) (by omega); have b := hout (c - lo) (by omega)
    split at hlt <;> split at hlt <;> omega
  · intro h1 h2
    rw [star_pos_outer F.n hi lo rk ch _ (by omega), star_pos_deep F.n hi lo rk ch _ (by omega)] at hlt
    have a := hout (p - lo) (by omega)
    have b := (hrc.2 (c - lo - (hi - lo)) (by omega)).2
    split at hlt <;> omega
  · intro h1 h2
    rw [star_pos_deep F.n hi lo rk ch _ (by omega), star_pos_outer F.n hi lo rk ch _ (by omega)] at hlt
    have b := hout (c - lo) (by omega)
    split at hlt <;> omega

/-! ### the slot a node sees, wherever its graph is -/

def viewT : Tree → Nat → G × List G → Nat → Time
  | .leaf rk, lo, x, i => slotOf x.1 (rk.posOf (i - lo))
  | .node hi rk ch, lo, x, i => if i < hi then slotOf x.1 (rk.posOf (i - lo)) else viewT ch hi (sub x.2) i

/-- the flat schedule `gF` (arranged by the composed rank) shows every node the slot it has in the nesting -/
def ViewEq (n : Nat) (T : Tree) (lo : Nat) (x : G × List G) (gF : G) : Prop :=
  ∀ i, lo ≤ i → i < n → viewT T lo x i = slotOf gF ((flatRk n T lo).posOf (i - lo))

theorem sub_cons (g : G) (gs : List G) : sub (g :: gs) = (g, gs) := rfl

end HgVerif.NestFlow
