import HgVerif.Model.NodeSched
/-! Helper lemmas for the node-scheduler model (C18). -/
namespace HgVerif.NodeSched

/-- strict sortedness of the `std::set` representation -/
def Sorted : List Ev → Prop
  | [] => True
  | [_] => True
  | a :: b :: rest => evLt a b = true ∧ Sorted (b :: rest)

theorem evLt_trans {a b c : Ev} (h1 : evLt a b = true) (h2 : evLt b c = true) : evLt a c = true := by
  unfold evLt at *; grind

theorem evLt_irrefl (a : Ev) : evLt a a = false := by
  unfold evLt; grind

theorem evLt_total {a b : Ev} (h1 : evLt a b = false) (h2 : a ≠ b) : evLt b a = true := by
  obtain ⟨a1, a2⟩ := a; obtain ⟨b1, b2⟩ := b
  unfold evLt at *; simp at *; grind

theorem Sorted.tail {a : Ev} {l : List Ev} (h : Sorted (a :: l)) : Sorted l := by
  cases l with
  | nil => trivial
  | cons b rest => exact h.2

theorem Sorted.head_lt {a : Ev} {l : List Ev} (h : Sorted (a :: l)) : ∀ x ∈ l, evLt a x = true := by
  induction l generalizing a with
  | nil => simp
  | cons b rest ih =>
    intro x hx
    simp at hx
    rcases hx with rfl | hx
    · exact h.1
    · exact evLt_trans h.1 (ih h.2 x hx)

theorem Sorted.cons {a : Ev} {l : List Ev} (hs : Sorted l) (h : ∀ x ∈ l, evLt a x = true) : Sorted (a :: l) := by
  cases l with
  | nil => trivial
  | cons b rest => exact ⟨h b (by simp), hs⟩

theorem mem_insertEv (e x : Ev) (l : List Ev) : x ∈ insertEv e l ↔ x = e ∨ x ∈ l := by
  induction l with
  | nil => simp [insertEv]
  | cons y ys ih =>
    unfold insertEv
    split
    · simp
    · split
      · rename_i h; subst h; simp
      · simp [ih]; grind

theorem sorted_insertEv (e : Ev) (l : List Ev) (h : Sorted l) : Sorted (insertEv e l) := by
  induction l with
  | nil => simp [insertEv, Sorted]
  | cons y ys ih =>
    unfold insertEv
    split
    · rename_i hlt; exact ⟨hlt, h⟩
    · rename_i hnlt
      split
      · exact h
      · rename_i hne
        have hye : evLt y e = true := evLt_total (by simpa using hnlt) hne
        apply Sorted.cons (ih h.tail)
        intro x hx
        rw [mem_insertEv] at hx
        rcases hx with rfl | hx
        · exact hye
        · exact h.head_lt x hx

theorem mem_eraseEv (e x : Ev) (l : List Ev) : x ∈ eraseEv e l ↔ x ∈ l ∧ x ≠ e := by
  simp [eraseEv]

theorem sorted_filter (p : Ev → Bool) (l : List Ev) (h : Sorted l) : Sorted (l.filter p) := by
  induction l with
  | nil => simp [Sorted]
  | cons y ys ih =>
    simp only [List.filter]
    split
    · apply Sorted.cons (ih h.tail)
      intro x hx
      exact h.head_lt x (List.mem_filter.mp hx).1
    · exact ih h.tail

theorem sorted_eraseEv (e : Ev) (l : List Ev) (h : Sorted l) : Sorted (eraseEv e l) :=
  sorted_filter _ l h

/-- in a sorted list the head is the minimum time -/
theorem Sorted.head_le {a : Ev} {l : List Ev} (h : Sorted (a :: l)) : ∀ x ∈ a :: l, a.1 ≤ x.1 := by
  intro x hx
  simp at hx
  rcases hx with rfl | hx
  · exact Nat.le_refl _
  · have := h.head_lt x hx
    unfold evLt at this; grind

theorem tagFind_tagErase (tags : List (Tag × Time)) (t u : Tag) :
    tagFind (tagErase t tags) u = if u = t then none else tagFind tags u := by
  induction tags with
  | nil => simp [tagFind, tagErase]
  | cons p ps ih =>
    obtain ⟨k, v⟩ := p
    simp only [tagFind, tagErase]
    split <;> grind [tagFind]

theorem tagFind_tagSet (tags : List (Tag × Time)) (t u : Tag) (w : Time) :
    tagFind (tagSet t w tags) u = if u = t then some w else tagFind tags u := by
  simp only [tagSet, tagFind, tagFind_tagErase]; grind

end HgVerif.NodeSched
