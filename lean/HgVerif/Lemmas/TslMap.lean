import HgVerif.Model.TslMap
/-!
Helper lemmas for the dynamic-list half of C10 (`Props/C10Tsl.lean`): the per-index effect of every phase of
`TslMap.cycle` (upstream notifications, creation loop, re-binding, evaluation loop with the re-arm of the map node),
the inductive invariant `Inv`, and the per-index machine `soloStep`.  Core Lean only.
-/
set_option linter.unusedSimpArgs false
set_option linter.unusedVariables false

namespace HgVerif.TslMap

open HgVerif.MapNode (StepRes Beh MAX_DT schedNode clampFuture clampStart setEnt)

local notation "Time" => Nat

variable {σ ι ο ε : Type}

/-! ## small facts -/

theorem setEnt_same' {α : Type} (f : Nat → Option α) (s : Nat) (v : Option α) : setEnt f s v s = v := by
  simp [setEnt]

theorem setEnt_other' {α : Type} (f : Nat → Option α) (s i : Nat) (v : Option α) (h : i ≠ s) :
    setEnt f s v i = f i := by
  simp [setEnt, h]

theorem schedNode_now' (ps now : Time) : schedNode ps now now = now := by
  unfold schedNode; split <;> omega

/-- arming for a future time `n`: the slot ends in the future, not later than `n`, and not later than a future
    slot that was there -/
theorem schedNode_future {ps now n : Time} (hn : now < n) :
    now < schedNode ps now n ∧ schedNode ps now n ≤ n ∧ (now < ps → schedNode ps now n ≤ ps) := by
  unfold schedNode; split <;> omega

theorem schedNode_idem {ps now n : Time} (h1 : now < ps) (h2 : ps ≤ n) : schedNode ps now n = ps := by
  unfold schedNode; split <;> omega

theorem clampFuture_gt {now n : Time} (h : now < MAX_DT) : now < clampFuture now n := by
  unfold clampFuture; split <;> omega

theorem clampStart_ge {now n : Time} (h : now < MAX_DT) : now ≤ clampStart now n := by
  unfold clampStart; split <;> omega

/-! ## notification of one entry -/

/-- what `nested_schedule_node_impl` does to the entry of a child: nothing unless it is started -/
def nudge (now : Time) (e : Entry σ ο) : Entry σ ο := if e.started then notifyE now e else e

theorem nudge_started (now : Time) (e : Entry σ ο) : (nudge now e).started = e.started := by
  unfold nudge notifyE; split <;> rfl

theorem nudge_outv (now : Time) (e : Entry σ ο) : (nudge now e).outv = e.outv := by
  unfold nudge notifyE; split <;> rfl

theorem nudge_st (now : Time) (e : Entry σ ο) : (nudge now e).st = e.st := by
  unfold nudge notifyE; split <;> rfl

theorem nudge_idem (now : Time) (e : Entry σ ο) : nudge now (nudge now e) = nudge now e := by
  unfold nudge notifyE
  by_cases hs : e.started = true
  · simp only [hs, if_true]
    by_cases h : now < e.next
    · simp [h]
    · simp [h]
  · simp [hs]

/-- a notified started entry that is not late is due now -/
theorem nudge_next {now : Time} {e : Entry σ ο} (hs : e.started = true) (h : now ≤ e.next) :
    (nudge now e).next = now := by
  unfold nudge notifyE
  simp only [hs, if_true]
  split <;> omega

theorem nudge_next_ge {now : Time} {e : Entry σ ο} (h : now ≤ e.next) : now ≤ (nudge now e).next := by
  unfold nudge notifyE
  split
  · simp only; split <;> omega
  · exact h

theorem notify_ent (now : Time) (m : M σ ο) (j i : Nat) :
    (notify now m j).ent i = if i = j then (m.ent i).map (nudge now) else m.ent i := by
  unfold notify
  by_cases hij : i = j
  · subst hij
    cases he : m.ent i with
    | none => simp [he]
    | some e =>
      by_cases hs : e.started = true
      · simp [hs, nudge, setEnt]
      · have hs' : e.started = false := by simpa using hs
        simp [hs', nudge, he]
  · cases he : m.ent j with
    | none => simp [hij]
    | some e =>
      by_cases hs : e.started = true
      · simp [hs, hij, setEnt]
      · have hs' : e.started = false := by simpa using hs
        simp [hs', hij]

theorem notify_live (now : Time) (m : M σ ο) (j : Nat) : (notify now m j).live = m.live := by
  unfold notify; split
  · rfl
  · split <;> rfl

theorem notify_cap (now : Time) (m : M σ ο) (j : Nat) : (notify now m j).cap = m.cap := by
  unfold notify; split
  · rfl
  · split <;> rfl

theorem notify_sizes (now : Time) (m : M σ ο) (j : Nat) : (notify now m j).sizes = m.sizes := by
  unfold notify; split
  · rfl
  · split <;> rfl

/-- the map node's slot after a notification: unchanged, or the current time (when a started child was hit) -/
theorem notify_ps (now : Time) (m : M σ ο) (j : Nat) :
    ((notify now m j).ps = m.ps ∧ ∀ e, m.ent j = some e → e.started = false) ∨
    ((notify now m j).ps = now ∧ ∃ e, m.ent j = some e ∧ e.started = true) := by
  unfold notify
  cases he : m.ent j with
  | none => left; simp
  | some e =>
    by_cases hs : e.started = true
    · right; simp [hs, schedNode_now']
    · have hs' : e.started = false := by simpa using hs
      left; simp [hs']

/-- a guarded fold of notifications: per-index effect -/
theorem foldl_notify_ent (now : Time) (p : Nat → Bool) (l : List Nat) (m : M σ ο) (i : Nat) :
    (l.foldl (fun m j => if p j then notify now m j else m) m).ent i =
      if i ∈ l ∧ p i = true then (m.ent i).map (nudge now) else m.ent i := by
  induction l generalizing m with
  | nil => simp
  | cons a as ih =>
    simp only [List.foldl_cons]
    rw [ih]
    by_cases hpa : p a = true
    · simp only [hpa, if_true]
      rw [notify_ent]
      by_cases hia : i = a
      · subst hia
        by_cases hin : i ∈ as
        · simp [hin, hpa, Option.map_map, Function.comp_def, nudge_idem]
        · simp [hin, hpa]
      · simp [hia]
    · have hpa' : p a = false := by simpa using hpa
      simp only [hpa']
      by_cases hia : i = a
      · subst hia
        simp [hpa']
      · simp [hia]

theorem foldl_notify_live (now : Time) (p : Nat → Bool) (l : List Nat) (m : M σ ο) :
    (l.foldl (fun m j => if p j then notify now m j else m) m).live = m.live ∧
    (l.foldl (fun m j => if p j then notify now m j else m) m).cap = m.cap ∧
    (l.foldl (fun m j => if p j then notify now m j else m) m).sizes = m.sizes := by
  induction l generalizing m with
  | nil => simp
  | cons a as ih =>
    simp only [List.foldl_cons]
    obtain ⟨h1, h2, h3⟩ := ih (m := if p a then notify now m a else m)
    refine ⟨?_, ?_, ?_⟩
    · rw [h1]; split
      · exact notify_live _ _ _
      · rfl
    · rw [h2]; split
      · exact notify_cap _ _ _
      · rfl
    · rw [h3]; split
      · exact notify_sizes _ _ _
      · rfl

/-- the slot after a guarded fold of notifications: unchanged when no started child was hit, else `now` -/
theorem foldl_notify_ps (now : Time) (p : Nat → Bool) (l : List Nat) (m : M σ ο) :
    ((l.foldl (fun m j => if p j then notify now m j else m) m).ps = m.ps ∧
      ∀ j ∈ l, p j = true → ∀ e, m.ent j = some e → e.started = false) ∨
    (l.foldl (fun m j => if p j then notify now m j else m) m).ps = now := by
  induction l generalizing m with
  | nil => left; simp
  | cons a as ih =>
    simp only [List.foldl_cons]
    by_cases hpa : p a = true
    · simp only [hpa, if_true]
      rcases notify_ps now m a with ⟨hps, hns⟩ | ⟨hps, e, he, hs⟩
      · rcases ih (m := notify now m a) with ⟨h1, h2⟩ | h1
        · left
          refine ⟨by rw [h1, hps], ?_⟩
          intro j hj hpj e he
          rcases List.mem_cons.mp hj with rfl | hj
          · exact hns e he
          · have := h2 j hj hpj
            rw [notify_ent] at this
            by_cases hja : j = a
            · subst hja; exact hns e he
            · simp only [hja, if_false] at this; exact this e he
        · right; exact h1
      · rcases ih (m := notify now m a) with ⟨h1, _⟩ | h1
        · right; rw [h1, hps]
        · right; exact h1
    · have hpa' : p a = false := by simpa using hpa
      simp only [hpa']
      rcases ih (m := m) with ⟨h1, h2⟩ | h1
      · left
        refine ⟨h1, ?_⟩
        intro j hj hpj e he
        rcases List.mem_cons.mp hj with rfl | hj
        · simp [hpa'] at hpj
        · exact h2 j hj hpj e he
      · right; exact h1

/-! ## invariants -/

structure EnvOk (t : Time) (m : M σ ο) (I : CycleIn ι) : Prop where
  /-- time advances -/
  adv : t < I.now
  lt_max : I.now < MAX_DT
  /-- the engine evaluates the map node at the time its slot in the parent schedule names (C02) -/
  noskip : t < m.ps → I.now ≤ m.ps

/-- what holds between cycles (`t`: the time of the last cycle) -/
structure Inv (t : Time) (m : M σ ο) : Prop where
  dom_lt : ∀ i, i < m.live → ∃ e, m.ent i = some e ∧ e.started = true
  dom_ge : ∀ i, m.live ≤ i → m.ent i = none
  /-- a pending wake-up has the map node armed not later than it -/
  cov : ∀ i e, m.ent i = some e → e.next < MAX_DT → t < m.ps ∧ m.ps ≤ e.next
  fut : ∀ i e, m.ent i = some e → t < e.next
  capOk : m.live ≤ m.cap

/-- what holds inside a cycle, before the map node's own evaluation -/
structure Mid (now : Time) (m : M σ ο) : Prop where
  dom_lt : ∀ i, i < m.live → ∃ e, m.ent i = some e ∧ e.started = true
  dom_ge : ∀ i, m.live ≤ i → m.ent i = none
  ge : ∀ i e, m.ent i = some e → now ≤ e.next
  cov : ∀ i e, m.ent i = some e → e.next < MAX_DT → now ≤ m.ps ∧ m.ps ≤ e.next
  capOk : m.live ≤ m.cap

theorem inv_mid {t : Time} {m : M σ ο} {I : CycleIn ι} (h : Inv t m) (henv : EnvOk t m I) : Mid I.now m := by
  have hlt := henv.lt_max
  refine ⟨h.dom_lt, h.dom_ge, ?_, ?_, h.capOk⟩
  · intro i e he
    by_cases hn : e.next < MAX_DT
    · obtain ⟨h1, h2⟩ := h.cov i e he hn
      have := henv.noskip h1; omega
    · omega
  · intro i e he hn
    obtain ⟨h1, h2⟩ := h.cov i e he hn
    have := henv.noskip h1; omega

/-- a guarded fold of notifications keeps `Mid` -/
theorem mid_foldl_notify {now : Time} (p : Nat → Bool) (l : List Nat) {m : M σ ο} (h : Mid now m) :
    Mid now (l.foldl (fun m j => if p j then notify now m j else m) m) := by
  obtain ⟨hl, hc, _⟩ := foldl_notify_live now p l m
  have hent := foldl_notify_ent now p l m
  refine ⟨?_, ?_, ?_, ?_, ?_⟩
  · intro i hi
    rw [hl] at hi
    obtain ⟨e, he, hs⟩ := h.dom_lt i hi
    rw [hent, he]
    split
    · exact ⟨nudge now e, rfl, by rw [nudge_started]; exact hs⟩
    · exact ⟨e, rfl, hs⟩
  · intro i hi
    rw [hl] at hi
    rw [hent, h.dom_ge i hi]; simp
  · intro i e he
    rw [hent] at he
    split at he
    · cases h0 : m.ent i with
      | none => simp [h0] at he
      | some e0 =>
        simp only [h0, Option.map_some, Option.some.injEq] at he
        subst he
        exact nudge_next_ge (h.ge i e0 h0)
    · exact h.ge i e he
  · intro i e he hn
    -- every entry is not late; the slot is either the old one (then this entry is an old, unchanged one or a
    -- stopped one) or `now`
    have hge : now ≤ e.next := by
      rw [hent] at he
      split at he
      · cases h0 : m.ent i with
        | none => simp [h0] at he
        | some e0 =>
          simp only [h0, Option.map_some, Option.some.injEq] at he
          subst he
          exact nudge_next_ge (h.ge i e0 h0)
      · exact h.ge i e he
    rcases foldl_notify_ps now p l m with ⟨hps, hns⟩ | hps
    · rw [hps]
      rw [hent] at he
      split at he
      · rename_i hc2
        cases h0 : m.ent i with
        | none => simp [h0] at he
        | some e0 =>
          simp only [h0, Option.map_some, Option.some.injEq] at he
          have hst := hns i hc2.1 hc2.2 e0 h0
          have : nudge now e0 = e0 := by unfold nudge; simp [hst]
          rw [this] at he
          subst he
          exact h.cov i e0 h0 hn
      · exact h.cov i e he hn
    · rw [hps]; omega
  · rw [hl, hc]; exact h.capOk

/-! ## upstream -/

theorem upstream_ent (m : M σ ο) (I : CycleIn ι) (i : Nat) :
    (upstream m I).ent i = if i ∈ I.notified then (m.ent i).map (nudge I.now) else m.ent i := by
  have h := foldl_notify_ent I.now (fun _ => true) I.notified m i
  simp only [if_true, and_true] at h
  unfold upstream
  simp only
  split <;> exact h

theorem upstream_live (m : M σ ο) (I : CycleIn ι) :
    (upstream m I).live = m.live ∧ (upstream m I).cap = m.cap ∧ (upstream m I).sizes = m.sizes := by
  have h := foldl_notify_live I.now (fun _ => true) I.notified m
  simp only [if_true] at h
  unfold upstream
  simp only
  split <;> exact h

theorem upstream_mid {t : Time} {m : M σ ο} {I : CycleIn ι} (h : Inv t m) (henv : EnvOk t m I) :
    Mid I.now (upstream m I) := by
  have h1 := mid_foldl_notify (fun _ => true) I.notified (inv_mid h henv)
  simp only [if_true] at h1
  unfold upstream
  simp only
  split
  · refine ⟨h1.dom_lt, h1.dom_ge, h1.ge, ?_, h1.capOk⟩
    intro i e he hn
    simp only [schedNode_now']
    have := h1.ge i e he
    omega
  · exact h1

/-- when the map node does not run in a cycle, nothing happened upstream: no input tick, no started child notified -/
theorem upstream_quiet {t : Time} {m : M σ ο} {I : CycleIn ι} (h : Inv t m) (hne : (upstream m I).ps ≠ I.now) :
    I.inputTick = false ∧ (∀ i ∈ I.notified, m.ent i = none) ∧ (upstream m I).ps = m.ps := by
  have hps := foldl_notify_ps I.now (fun _ => true) I.notified m
  simp only [if_true] at hps
  unfold upstream at hne ⊢
  simp only at hne ⊢
  by_cases hit : I.inputTick = true
  · simp [hit, schedNode_now'] at hne
  · have hit' : I.inputTick = false := by simpa using hit
    simp only [hit'] at hne ⊢
    rcases hps with ⟨h1, h2⟩ | h1
    · refine ⟨trivial, ?_, by simpa using h1⟩
      intro i hi
      cases he : m.ent i with
      | none => rfl
      | some e =>
        have hst := h2 i hi trivial e he
        -- every entry of a reachable state is started
        have hlive : i < m.live := by
          by_cases hlt : i < m.live
          · exact hlt
          · have := h.dom_ge i (by omega); rw [he] at this; cases this
        obtain ⟨e', he', hs'⟩ := h.dom_lt i hlive
        rw [he] at he'; cases he'
        rw [hst] at hs'; cases hs'
    · exact absurd (by simpa using h1) hne

/-! ## the creation loop -/

theorem createEntry_spec (B : Beh Nat σ ι ο ε) (I : CycleIn ι) (r : Rec σ ο) (i : Nat)
    (hok : r.out.ok = true) (hnone : r.m.ent i = none) (hps : r.m.ps = I.now) :
    let r' := createEntry B I r i
    r'.out.ok = true ∧ r'.m.live = r.m.live + 1 ∧ r'.m.ps = I.now ∧ r'.m.cap = r.m.cap ∧ r'.m.sizes = r.m.sizes ∧
    r'.m.ent = setEnt r.m.ent i (some (freshE B I i)) ∧
    r'.out.startedK = r.out.startedK ++ [i] ∧ r'.out.runs = r.out.runs ∧ r'.out.modified = r.out.modified ∧
    r'.out.evaluated = r.out.evaluated := by
  unfold createEntry
  simp only [hok, hnone, Bool.not_true, Option.isSome_none]
  by_cases hn : (freshE B I i).next = I.now
  · simp [hn, hps, schedNode_now']
  · simp [hn, hps]

theorem create_loop (B : Beh Nat σ ι ο ε) (I : CycleIn ι) (k : Nat) (r : Rec σ ο)
    (hok : r.out.ok = true) (hps : r.m.ps = I.now) (hnone : ∀ j, r.m.live ≤ j → r.m.ent j = none) :
    let r' := (List.range' r.m.live k).foldl (createEntry B I) r
    r'.out.ok = true ∧ r'.m.live = r.m.live + k ∧ r'.m.ps = I.now ∧ r'.m.cap = r.m.cap ∧ r'.m.sizes = r.m.sizes ∧
    (∀ j, r'.m.ent j = if r.m.live ≤ j ∧ j < r.m.live + k then some (freshE B I j) else r.m.ent j) ∧
    r'.out.startedK = r.out.startedK ++ List.range' r.m.live k ∧ r'.out.runs = r.out.runs ∧
    r'.out.modified = r.out.modified ∧ r'.out.evaluated = r.out.evaluated := by
  induction k generalizing r with
  | zero =>
    refine ⟨hok, rfl, hps, rfl, rfl, ?_, (List.append_nil _).symm, rfl, rfl, rfl⟩
    intro j; split
    · omega
    · rfl
  | succ k ih =>
    simp only [List.range'_succ, List.foldl_cons]
    obtain ⟨c1, c2, c3, c4, c5, c6, c7, c8, c9, c10⟩ :=
      createEntry_spec B I r r.m.live hok (hnone _ (Nat.le_refl _)) hps
    have hnone' : ∀ j, (createEntry B I r r.m.live).m.live ≤ j → (createEntry B I r r.m.live).m.ent j = none := by
      intro j hj
      rw [c6, setEnt_other' _ _ _ _ (by omega)]
      exact hnone j (by omega)
    have := ih (createEntry B I r r.m.live) c1 c3 hnone'
    simp only [c2] at this
    obtain ⟨d1, d2, d3, d4, d5, d6, d7, d8, d9, d10⟩ := this
    refine ⟨d1, by rw [d2]; omega, d3, by rw [d4, c4], by rw [d5, c5], ?_, ?_, by rw [d8, c8], by rw [d9, c9],
      by rw [d10, c10]⟩
    · intro j
      rw [d6 j, c6]
      by_cases hj : j = r.m.live
      · subst hj
        simp [setEnt]
      · rw [setEnt_other' _ _ _ _ hj]
        by_cases h1 : r.m.live + 1 ≤ j ∧ j < r.m.live + 1 + k
        · have h2 : r.m.live ≤ j ∧ j < r.m.live + (k + 1) := by omega
          simp [h1, h2]
        · have h2 : ¬ (r.m.live ≤ j ∧ j < r.m.live + (k + 1)) := by omega
          simp [h1, h2]
    · rw [d7, c7, List.append_assoc]; rfl

/-! ## the evaluation loop -/

/-- one started child's evaluation (the no-exception branch) -/
def soloEvalE (B : Beh Nat σ ι ο ε) (I : CycleIn ι) (i : Nat) (e : Entry σ ο) : Entry σ ο :=
  if e.started = true ∧ e.next ≤ I.now then
    let sr := B.step i I.now (I.input i) e.st
    { e with st := sr.st, next := clampFuture I.now sr.next, outv := mergeOut sr.out e.outv }
  else e

/-- the child of index `i` is evaluated in this cycle -/
def dueB (I : CycleIn ι) (o : Option (Entry σ ο)) : Bool :=
  match o with
  | some e => e.started && decide (e.next ≤ I.now)
  | none => false

/-- the value tick of index `i` in this cycle -/
def tickOf (B : Beh Nat σ ι ο ε) (I : CycleIn ι) (i : Nat) (o : Option (Entry σ ο)) : Option (Nat × ο) :=
  match o with
  | some e => if e.started = true ∧ e.next ≤ I.now then (B.step i I.now (I.input i) e.st).out.map (fun v => (i, v)) else none
  | none => none

theorem soloEvalE_started (B : Beh Nat σ ι ο ε) (I : CycleIn ι) (i : Nat) (e : Entry σ ο) :
    (soloEvalE B I i e).started = e.started := by
  unfold soloEvalE; split <;> rfl

theorem evalIndex_ok_mono (B : Beh Nat σ ι ο ε) (I : CycleIn ι) (r : Rec σ ο) (i : Nat)
    (h : (evalIndex B I r i).out.ok = true) : r.out.ok = true := by
  unfold evalIndex at h
  by_cases hok : r.out.ok = true
  · exact hok
  · have : r.out.ok = false := by simpa using hok
    simp [this] at h

theorem foldl_evalIndex_ok_mono (B : Beh Nat σ ι ο ε) (I : CycleIn ι) (l : List Nat) (r : Rec σ ο)
    (h : (l.foldl (evalIndex B I) r).out.ok = true) : r.out.ok = true := by
  induction l generalizing r with
  | nil => exact h
  | cons a as ih => exact evalIndex_ok_mono B I r a (ih _ h)

/-- the state of the evaluation loop after the indices below `k` -/
structure LoopInv (B : Beh Nat σ ι ο ε) (I : CycleIn ι) (r0 : Rec σ ο) (k : Nat) (r : Rec σ ο) : Prop where
  live : r.m.live = r0.m.live
  cap : r.m.cap = r0.m.cap
  sizes : r.m.sizes = r0.m.sizes
  ent : ∀ j, r.m.ent j = if j < k then (r0.m.ent j).map (soloEvalE B I j) else r0.m.ent j
  fut : ∀ j e, j < k → r.m.ent j = some e → I.now < e.next ∧ (e.next < MAX_DT → I.now < r.m.ps ∧ r.m.ps ≤ e.next)
  ps : r.m.ps = I.now ∨ I.now < r.m.ps
  runs : r.out.runs = r0.out.runs ++ (List.range k).filter (fun j => dueB I (r0.m.ent j))
  modified : r.out.modified = r0.out.modified ++ (List.range k).filterMap (fun j => tickOf B I j (r0.m.ent j))
  startedK : r.out.startedK = r0.out.startedK
  evaluated : r.out.evaluated = r0.out.evaluated

theorem rearm_spec {now ps n : Time} (hlt : now < MAX_DT) (hps : ps = now ∨ now < ps) (hn : now < n) :
    let ps' := rearm now (if n < MAX_DT then schedNode ps now n else ps) n
    (ps' = now ∨ now < ps') ∧ (n < MAX_DT → now < ps' ∧ ps' ≤ n) ∧ (now < ps → now < ps' ∧ ps' ≤ ps) := by
  unfold rearm schedNode
  simp only
  split <;> split <;> (try split) <;> (try split) <;> omega

theorem rearm_spec2 {now ps n : Time} (hlt : now < MAX_DT) (hps : ps = now ∨ now < ps) (hn : now < n) :
    let ps' := rearm now ps n
    (ps' = now ∨ now < ps') ∧ (n < MAX_DT → now < ps' ∧ ps' ≤ n) ∧ (now < ps → now < ps' ∧ ps' ≤ ps) := by
  unfold rearm schedNode
  simp only
  split <;> (try split) <;> omega

theorem eval_loop_step (B : Beh Nat σ ι ο ε) (I : CycleIn ι) (r0 : Rec σ ο) (k : Nat) (r : Rec σ ο)
    (hlt : I.now < MAX_DT) (hge : ∀ j e, r0.m.ent j = some e → I.now ≤ e.next)
    (hst : ∀ j e, r0.m.ent j = some e → e.started = true)
    (h : LoopInv B I r0 k r) (hok : (evalIndex B I r k).out.ok = true) :
    LoopInv B I r0 (k + 1) (evalIndex B I r k) := by
  have hok0 := evalIndex_ok_mono B I r k hok
  have hk : r.m.ent k = r0.m.ent k := by rw [h.ent k]; simp
  -- the entries other than `k`
  have hent_other : ∀ (f : Nat → Option (Entry σ ο)) (v : Option (Entry σ ο)) (j : Nat),
      v = (r0.m.ent k).map (soloEvalE B I k) →
      setEnt r.m.ent k v j = if j < k + 1 then (r0.m.ent j).map (soloEvalE B I j) else r0.m.ent j := by
    intro f v j hv
    by_cases hjk : j = k
    · subst hjk; simp [setEnt, hv]
    · rw [setEnt_other' _ _ _ _ hjk, h.ent j]
      by_cases h1 : j < k
      · have : j < k + 1 := by omega
        simp [h1, this]
      · have : ¬ j < k + 1 := by omega
        simp [h1, this]
  have hrange : List.range (k + 1) = List.range k ++ [k] := List.range_succ
  unfold evalIndex at hok ⊢
  simp only [hok0, Bool.not_true, Bool.false_eq_true, ↓reduceIte] at hok ⊢
  cases he : r0.m.ent k with
  | none =>
    rw [hk, he]
    simp only
    refine ⟨h.live, h.cap, h.sizes, ?_, ?_, h.ps, ?_, ?_, h.startedK, h.evaluated⟩
    · intro j
      rw [h.ent j]
      by_cases hjk : j = k
      · subst hjk; simp [he]
      · by_cases h1 : j < k
        · have : j < k + 1 := by omega
          simp [h1, this]
        · have : ¬ j < k + 1 := by omega
          simp [h1, this]
    · intro j e hj hje
      by_cases hjk : j = k
      · subst hjk; rw [hk, he] at hje; cases hje
      · exact h.fut j e (by omega) hje
    · rw [h.runs, hrange, List.filter_append]; simp [dueB, he]
    · rw [h.modified, hrange, List.filterMap_append]; simp [tickOf, he]
  | some e =>
    rw [hk, he] at hok ⊢
    simp only at hok ⊢
    by_cases hs : e.started = true
    · simp only [hs, Bool.not_true, Bool.false_eq_true, ↓reduceIte] at hok ⊢
      have hnow := hge k e he
      by_cases hdue : e.next ≤ I.now
      · simp only [hdue, if_true] at hok ⊢
        cases herr : (B.step k I.now (I.input k) e.st).err with
        | some x => simp [herr] at hok
        | none =>
          simp only [herr] at hok ⊢
          have hsolo : soloEvalE B I k e =
              { e with st := (B.step k I.now (I.input k) e.st).st,
                       next := clampFuture I.now (B.step k I.now (I.input k) e.st).next,
                       outv := mergeOut (B.step k I.now (I.input k) e.st).out e.outv } := by
            unfold soloEvalE; simp [hs, hdue]
          have hcf := clampFuture_gt (n := (B.step k I.now (I.input k) e.st).next) hlt
          have hps := rearm_spec (ps := r.m.ps) (n := clampFuture I.now (B.step k I.now (I.input k) e.st).next)
            hlt h.ps hcf
          simp only at hps
          obtain ⟨p1, p2, p3⟩ := hps
          refine ⟨h.live, h.cap, h.sizes, ?_, ?_, p1, ?_, ?_, h.startedK, h.evaluated⟩
          · intro j
            exact hent_other r.m.ent _ j (by rw [he]; simp [hsolo, hs])
          · intro j e' hj hje
            dsimp only at hje ⊢
            by_cases hjk : j = k
            · subst hjk
              rw [setEnt_same'] at hje
              cases hje
              exact ⟨hcf, p2⟩
            · rw [setEnt_other' _ _ _ _ hjk] at hje
              obtain ⟨f1, f2⟩ := h.fut j e' (by omega) hje
              refine ⟨f1, fun hn => ?_⟩
              obtain ⟨g1, g2⟩ := f2 hn
              obtain ⟨q1, q2⟩ := p3 g1
              exact ⟨q1, by omega⟩
          · dsimp only
            rw [h.runs, hrange, List.filter_append, List.append_assoc]
            simp [dueB, he, hs, hdue]
          · dsimp only
            cases hout : (B.step k I.now (I.input k) e.st).out with
            | none => simp [h.modified, hrange, List.filterMap_append, tickOf, he, hs, hdue, hout]
            | some v => simp [h.modified, hrange, List.filterMap_append, tickOf, he, hs, hdue, hout]
      · simp only [hdue, if_false] at hok ⊢
        have hsolo : soloEvalE B I k e = e := by unfold soloEvalE; simp [hs, hdue]
        have hps := rearm_spec2 (ps := r.m.ps) (n := e.next) hlt h.ps (by omega)
        simp only at hps
        obtain ⟨p1, p2, p3⟩ := hps
        refine ⟨h.live, h.cap, h.sizes, ?_, ?_, p1, ?_, ?_, h.startedK, h.evaluated⟩
        · intro j
          rw [h.ent j]
          by_cases hjk : j = k
          · subst hjk; simp [he, hsolo]
          · by_cases h1 : j < k
            · have : j < k + 1 := by omega
              simp [h1, this]
            · have : ¬ j < k + 1 := by omega
              simp [h1, this]
        · intro j e' hj hje
          dsimp only at hje ⊢
          by_cases hjk : j = k
          · subst hjk
            rw [hk, he] at hje
            cases hje
            exact ⟨by omega, p2⟩
          · obtain ⟨f1, f2⟩ := h.fut j e' (by omega) hje
            refine ⟨f1, fun hn => ?_⟩
            obtain ⟨g1, g2⟩ := f2 hn
            obtain ⟨q1, q2⟩ := p3 g1
            exact ⟨q1, by omega⟩
        · rw [h.runs, hrange, List.filter_append]
          simp [dueB, he, hs, hdue]
        · rw [h.modified, hrange, List.filterMap_append]
          simp [tickOf, he, hs, hdue]
    · exact absurd (hst k e he) hs

theorem eval_loop (B : Beh Nat σ ι ο ε) (I : CycleIn ι) (r0 : Rec σ ο)
    (hlt : I.now < MAX_DT) (hge : ∀ j e, r0.m.ent j = some e → I.now ≤ e.next)
    (hst : ∀ j e, r0.m.ent j = some e → e.started = true) (hps0 : r0.m.ps = I.now) (k : Nat)
    (hok : ((List.range k).foldl (evalIndex B I) r0).out.ok = true) :
    LoopInv B I r0 k ((List.range k).foldl (evalIndex B I) r0) := by
  induction k with
  | zero =>
    refine ⟨rfl, rfl, rfl, ?_, ?_, Or.inl hps0, ?_, ?_, rfl, rfl⟩
    · intro j; simp
    · intro j e hj; omega
    · simp
    · simp
  | succ k ih =>
    rw [List.range_succ, List.foldl_append] at hok ⊢
    simp only [List.foldl_cons, List.foldl_nil] at hok ⊢
    exact eval_loop_step B I r0 k _ hlt hge hst (ih (evalIndex_ok_mono B I _ k hok)) hok

/-! ## the per-index machine -/

/-- upstream notification of index `i` -/
def soloPre (I : CycleIn ι) (i : Nat) (o : Option (Entry σ ο)) : Option (Entry σ ο) :=
  if i ∈ I.notified then o.map (nudge I.now) else o

/-- the creation loop seen from index `i`: a child appears in the cycle the longest list grows past `i` -/
def soloCreate (B : Beh Nat σ ι ο ε) (I : CycleIn ι) (i : Nat) (o : Option (Entry σ ο)) : Option (Entry σ ο) :=
  match o with
  | none => if i < runtimeSize I then some (freshE B I i) else none
  | some e => some e

/-- the re-binding seen from index `i` (`c`: the bindings changed) -/
def soloReboundC (c : Bool) (I : CycleIn ι) (i : Nat) (o : Option (Entry σ ο)) : Option (Entry σ ο) :=
  if c = true ∧ i ∈ I.rebound then o.map (nudge I.now) else o

def soloRebound (I : CycleIn ι) (i : Nat) (o : Option (Entry σ ο)) : Option (Entry σ ο) :=
  if i ∈ I.rebound then o.map (nudge I.now) else o

/-- the entry of index `i` when the evaluation loop reaches it -/
def soloPrep (B : Beh Nat σ ι ο ε) (I : CycleIn ι) (i : Nat) (o : Option (Entry σ ο)) : Option (Entry σ ο) :=
  soloRebound I i (soloCreate B I i (soloPre I i o))

/-- one cycle of index `i`'s own machine: reads its own entry, whether it was notified / re-bound, whether the
    longest list reaches it, and its own input -/
def soloStep (B : Beh Nat σ ι ο ε) (I : CycleIn ι) (i : Nat) (o : Option (Entry σ ο)) : Option (Entry σ ο) :=
  (soloPrep B I i o).map (soloEvalE B I i)

/-! ## `tsl_map_evaluate_impl` -/

theorem runtimeSize_def (I : CycleIn ι) : runtimeSize I = I.sizes.foldl max 0 := rfl

theorem evaluate_spec (B : Beh Nat σ ι ο ε) (m1 : M σ ο) (I : CycleIn ι) (hmid : Mid I.now m1)
    (hps : m1.ps = I.now) (hlt : I.now < MAX_DT) (hok : (evaluate B m1 I).out.ok = true) :
    Inv I.now (evaluate B m1 I).m ∧
    (evaluate B m1 I).m.live = m1.live + (runtimeSize I - m1.live) ∧
    (∀ i, (evaluate B m1 I).m.ent i =
      (soloReboundC (bindingsChanged m1 I) I i (soloCreate B I i (m1.ent i))).map (soloEvalE B I i)) ∧
    (evaluate B m1 I).out.runs = (List.range (evaluate B m1 I).m.live).filter
      (fun j => dueB I (soloReboundC (bindingsChanged m1 I) I j (soloCreate B I j (m1.ent j)))) ∧
    (evaluate B m1 I).out.modified = (List.range (evaluate B m1 I).m.live).filterMap
      (fun j => tickOf B I j (soloReboundC (bindingsChanged m1 I) I j (soloCreate B I j (m1.ent j)))) ∧
    (evaluate B m1 I).out.startedK = List.range' m1.live (runtimeSize I - m1.live) := by
  -- the creation loop
  let m0 : M σ ο := { m1 with sizes := I.sizes, cap := max m1.cap (runtimeSize I) }
  let rc : Rec σ ο := { m := m0, out := { evaluated := true } }
  have hc := create_loop B I (runtimeSize I - m1.live) rc rfl hps (fun j hj => hmid.dom_ge j hj)
  obtain ⟨c1, c2, c3, c4, c5, c6, c7, c8, c9, c10⟩ := hc
  let r1 := (List.range' m1.live (runtimeSize I - m1.live)).foldl (createEntry B I) rc
  have c1 : r1.out.ok = true := c1
  have c2 : r1.m.live = m1.live + (runtimeSize I - m1.live) := c2
  have c3 : r1.m.ps = I.now := c3
  have c4 : r1.m.cap = max m1.cap (runtimeSize I) := c4
  have c6 : ∀ j, r1.m.ent j = soloCreate B I j (m1.ent j) := by
    intro j
    have := c6 j
    rw [show r1.m.ent j = _ from this]
    show (if m1.live ≤ j ∧ j < m1.live + (runtimeSize I - m1.live) then some (freshE B I j) else m1.ent j) = _
    unfold soloCreate
    by_cases hj : j < m1.live
    · obtain ⟨e, he, _⟩ := hmid.dom_lt j hj
      have : ¬ (m1.live ≤ j ∧ j < m1.live + (runtimeSize I - m1.live)) := by omega
      simp [this, he]
    · have hn := hmid.dom_ge j (by omega)
      rw [hn]
      by_cases h2 : j < runtimeSize I
      · have : m1.live ≤ j ∧ j < m1.live + (runtimeSize I - m1.live) := by omega
        simp [this, h2]
      · have : ¬ (m1.live ≤ j ∧ j < m1.live + (runtimeSize I - m1.live)) := by omega
        simp [this, h2]
  have c7 : r1.out.startedK = List.range' m1.live (runtimeSize I - m1.live) := by
    have : r1.out.startedK = ([] : List Nat) ++ List.range' m1.live (runtimeSize I - m1.live) := c7
    simpa using this
  have c8 : r1.out.runs = [] := c8
  have c9 : r1.out.modified = [] := c9
  -- the re-binding
  let r2 : Rec σ ο := if bindingsChanged m1 I && r1.out.ok then { r1 with m := refresh I r1.m } else r1
  have hev : evaluate B m1 I = (List.range r2.m.live).foldl (evalIndex B I) r2 := rfl
  have hr2out : r2.out = r1.out := by
    show (if bindingsChanged m1 I && r1.out.ok then ({ r1 with m := refresh I r1.m } : Rec σ ο) else r1).out = _
    split <;> rfl
  have hfl := foldl_notify_live I.now (fun i => I.rebound.contains i) (List.range r1.m.live) r1.m
  have hfe := foldl_notify_ent I.now (fun i => I.rebound.contains i) (List.range r1.m.live) r1.m
  have hfp := foldl_notify_ps I.now (fun i => I.rebound.contains i) (List.range r1.m.live) r1.m
  have d_live : r2.m.live = m1.live + (runtimeSize I - m1.live) := by
    show (if bindingsChanged m1 I && r1.out.ok then ({ r1 with m := refresh I r1.m } : Rec σ ο) else r1).m.live = _
    split
    · show (refresh I r1.m).live = _
      unfold refresh; rw [hfl.1]; exact c2
    · exact c2
  have d_cap : r2.m.cap = max m1.cap (runtimeSize I) := by
    show (if bindingsChanged m1 I && r1.out.ok then ({ r1 with m := refresh I r1.m } : Rec σ ο) else r1).m.cap = _
    split
    · show (refresh I r1.m).cap = _
      unfold refresh; rw [hfl.2.1]; exact c4
    · exact c4
  have d_ps : r2.m.ps = I.now := by
    show (if bindingsChanged m1 I && r1.out.ok then ({ r1 with m := refresh I r1.m } : Rec σ ο) else r1).m.ps = _
    split
    · show (refresh I r1.m).ps = _
      unfold refresh
      rcases hfp with ⟨h1, _⟩ | h1
      · rw [h1]; exact c3
      · exact h1
    · exact c3
  have d_ent : ∀ j, r2.m.ent j = soloReboundC (bindingsChanged m1 I) I j (soloCreate B I j (m1.ent j)) := by
    intro j
    show (if bindingsChanged m1 I && r1.out.ok then ({ r1 with m := refresh I r1.m } : Rec σ ο) else r1).m.ent j = _
    unfold soloReboundC
    by_cases hch : bindingsChanged m1 I = true
    · simp only [hch, c1, Bool.and_self, if_true, true_and]
      show (refresh I r1.m).ent j = _
      unfold refresh
      rw [hfe j, c6 j]
      by_cases hj : j < r1.m.live
      · have : j ∈ List.range r1.m.live := List.mem_range.mpr hj
        simp [this]
      · have hnone : soloCreate B I j (m1.ent j) = none := by
          rw [← c6 j, c6 j]
          unfold soloCreate
          rw [hmid.dom_ge j (by omega)]
          have : ¬ j < runtimeSize I := by omega
          simp [this]
        have : j ∉ List.range r1.m.live := fun h => hj (List.mem_range.mp h)
        simp [this, hnone]
    · have hch' : bindingsChanged m1 I = false := by simpa using hch
      simp [hch', c6 j]
  -- every entry before the loop: started and not late
  have hst2 : ∀ j e, r2.m.ent j = some e → e.started = true := by
    intro j e he
    rw [d_ent j] at he
    have hcs : ∀ e', soloCreate B I j (m1.ent j) = some e' → e'.started = true := by
      intro e' he'
      cases h0 : m1.ent j with
      | none =>
        simp only [soloCreate, h0] at he'
        split at he'
        · simp only [Option.some.injEq] at he'; subst he'; rfl
        · cases he'
      | some e0 =>
        simp only [soloCreate, h0, Option.some.injEq] at he'
        subst he'
        by_cases hj : j < m1.live
        · obtain ⟨e1, he1, hs1⟩ := hmid.dom_lt j hj
          rw [h0] at he1; cases he1; exact hs1
        · have := hmid.dom_ge j (by omega); rw [h0] at this; cases this
    unfold soloReboundC at he
    split at he
    · cases h0 : soloCreate B I j (m1.ent j) with
      | none => rw [h0] at he; cases he
      | some e0 =>
        rw [h0] at he
        simp only [Option.map_some, Option.some.injEq] at he
        subst he
        rw [nudge_started]; exact hcs e0 h0
    · exact hcs e he
  have hge2 : ∀ j e, r2.m.ent j = some e → I.now ≤ e.next := by
    intro j e he
    rw [d_ent j] at he
    have hcs : ∀ e', soloCreate B I j (m1.ent j) = some e' → I.now ≤ e'.next := by
      intro e' he'
      cases h0 : m1.ent j with
      | none =>
        simp only [soloCreate, h0] at he'
        split at he'
        · simp only [Option.some.injEq] at he'; subst he'; exact clampStart_ge hlt
        · cases he'
      | some e0 =>
        simp only [soloCreate, h0, Option.some.injEq] at he'
        subst he'
        exact hmid.ge j e0 h0
    unfold soloReboundC at he
    split at he
    · cases h0 : soloCreate B I j (m1.ent j) with
      | none => rw [h0] at he; cases he
      | some e0 =>
        rw [h0] at he
        simp only [Option.map_some, Option.some.injEq] at he
        subst he
        exact nudge_next_ge (hcs e0 h0)
    · exact hcs e he
  -- the loop
  rw [hev] at hok ⊢
  have hl := eval_loop B I r2 hlt hge2 hst2 d_ps r2.m.live hok
  have hdom : ∀ j, j < m1.live + (runtimeSize I - m1.live) → ∃ e, r2.m.ent j = some e := by
    intro j hj
    rw [d_ent j]
    have hcs : ∃ e, soloCreate B I j (m1.ent j) = some e := by
      unfold soloCreate
      by_cases hj1 : j < m1.live
      · obtain ⟨e, he, _⟩ := hmid.dom_lt j hj1
        exact ⟨e, by rw [he]⟩
      · rw [hmid.dom_ge j (by omega)]
        have : j < runtimeSize I := by omega
        exact ⟨freshE B I j, by simp [this]⟩
    obtain ⟨e, he⟩ := hcs
    unfold soloReboundC
    split
    · exact ⟨nudge I.now e, by rw [he]; rfl⟩
    · exact ⟨e, he⟩
  have hnone : ∀ j, m1.live + (runtimeSize I - m1.live) ≤ j → r2.m.ent j = none := by
    intro j hj
    rw [d_ent j]
    have : soloCreate B I j (m1.ent j) = none := by
      unfold soloCreate
      rw [hmid.dom_ge j (by omega)]
      have : ¬ j < runtimeSize I := by omega
      simp [this]
    unfold soloReboundC
    rw [this]; simp
  refine ⟨⟨?_, ?_, ?_, ?_, ?_⟩, ?_, ?_, ?_, ?_, ?_⟩
  · intro i hi
    rw [hl.live, d_live] at hi
    obtain ⟨e, he⟩ := hdom i hi
    refine ⟨soloEvalE B I i e, ?_, ?_⟩
    · rw [hl.ent i, he]; simp [d_live, hi]
    · rw [soloEvalE_started]; exact hst2 i e he
  · intro i hi
    rw [hl.live, d_live] at hi
    rw [hl.ent i, hnone i hi]; simp
  · intro i e he hn
    by_cases hi : i < r2.m.live
    · exact (hl.fut i e hi he).2 hn
    · rw [hl.ent i, hnone i (by rw [d_live] at hi; omega)] at he
      simp at he
  · intro i e he
    by_cases hi : i < r2.m.live
    · exact (hl.fut i e hi he).1
    · rw [hl.ent i, hnone i (by rw [d_live] at hi; omega)] at he
      simp at he
  · rw [hl.live, hl.cap, d_live, d_cap]
    have := hmid.capOk
    omega
  · rw [hl.live, d_live]
  · intro i
    rw [hl.ent i, ← d_ent i]
    by_cases hi : i < r2.m.live
    · simp [hi]
    · rw [hnone i (by rw [d_live] at hi; omega)]; simp
  · rw [hl.runs, hr2out, c8, hl.live]
    simp only [List.nil_append]
    congr 1
    funext j
    rw [d_ent j]
  · rw [hl.modified, hr2out, c9, hl.live]
    simp only [List.nil_append]
    congr 1
    funext j
    rw [d_ent j]
  · rw [hl.startedK, hr2out, c7]

/-! ## one cycle -/

/-- the contract of the list sources (what the TSL inputs and the node's own wiring guarantee in the harness graph):
    a list that grows past the constructed children ticks the map node; the re-binding only schedules children in
    a cycle in which the stored list sizes changed (and a size change is a tick of that list) -/
structure SrcOk (m : M σ ο) (I : CycleIn ι) : Prop where
  growth : m.live < runtimeSize I → I.inputTick = true
  rebound : ∀ i, i ∈ I.rebound → bindingsChanged m I = true ∧ I.inputTick = true

theorem bindingsChanged_upstream (m : M σ ο) (I : CycleIn ι) :
    bindingsChanged (upstream m I) I = bindingsChanged m I := by
  unfold bindingsChanged sizesInit
  rw [(upstream_live m I).2.2]

theorem cycle_inv (B : Beh Nat σ ι ο ε) {t : Time} {m : M σ ο} {I : CycleIn ι} (h : Inv t m) (henv : EnvOk t m I)
    (hok : (cycle B m I).out.ok = true) : Inv I.now (cycle B m I).m := by
  have hmid := upstream_mid h henv
  have hlt := henv.lt_max
  unfold cycle at hok ⊢
  simp only at hok ⊢
  by_cases hps : (upstream m I).ps = I.now
  · simp only [hps, if_true] at hok ⊢
    exact (evaluate_spec B _ I hmid hps hlt hok).1
  · simp only [hps, if_false]
    refine ⟨hmid.dom_lt, hmid.dom_ge, ?_, ?_, hmid.capOk⟩
    · intro i e he hn
      obtain ⟨h1, h2⟩ := hmid.cov i e he hn
      omega
    · intro i e he
      by_cases hn : e.next < MAX_DT
      · obtain ⟨h1, h2⟩ := hmid.cov i e he hn
        omega
      · omega

/-- the children started in a cycle are the indices between the old and the new `live_count` -/
theorem cycle_started (B : Beh Nat σ ι ο ε) {t : Time} {m : M σ ο} {I : CycleIn ι} (h : Inv t m)
    (henv : EnvOk t m I) (hok : (cycle B m I).out.ok = true) :
    (cycle B m I).out.startedK = List.range' m.live ((cycle B m I).m.live - m.live) ∧
    m.live ≤ (cycle B m I).m.live := by
  have hmid := upstream_mid h henv
  have hlt := henv.lt_max
  have hl := (upstream_live m I).1
  unfold cycle at hok ⊢
  simp only at hok ⊢
  by_cases hps : (upstream m I).ps = I.now
  · simp only [hps, if_true] at hok ⊢
    obtain ⟨_, e2, _, _, _, e6⟩ := evaluate_spec B _ I hmid hps hlt hok
    rw [e6, e2, hl]
    constructor
    · congr 1; omega
    · omega
  · simp only [hps, if_false, hl]
    simp

/-- the cycle of a quiet map node (it does not run): every index's own machine idles too -/
theorem quiet_prep (B : Beh Nat σ ι ο ε) {t : Time} {m : M σ ο} {I : CycleIn ι} (h : Inv t m) (henv : EnvOk t m I)
    (hsrc : SrcOk m I) (hne : (upstream m I).ps ≠ I.now) (j : Nat) :
    soloPrep B I j (m.ent j) = m.ent j ∧ dueB I (m.ent j) = false ∧ (upstream m I).ent j = m.ent j := by
  obtain ⟨q1, q2, q3⟩ := upstream_quiet h hne
  have hmid := inv_mid h henv
  have hlt := henv.lt_max
  have hpre : soloPre I j (m.ent j) = m.ent j := by
    unfold soloPre
    split
    · rename_i hin; rw [q2 j hin]; rfl
    · rfl
  have hcr : soloCreate B I j (m.ent j) = m.ent j := by
    unfold soloCreate
    cases he : m.ent j with
    | none =>
      simp only
      split
      · rename_i hlt2
        have hlive : m.live ≤ j := by
          by_cases hj : j < m.live
          · obtain ⟨e, he', _⟩ := h.dom_lt j hj; rw [he] at he'; cases he'
          · omega
        have := hsrc.growth (by omega)
        rw [q1] at this; cases this
      · rfl
    | some e => rfl
  have hrb : soloRebound I j (m.ent j) = m.ent j := by
    unfold soloRebound
    split
    · rename_i hin
      have := (hsrc.rebound j hin).2
      rw [q1] at this; cases this
    · rfl
  refine ⟨by unfold soloPrep; rw [hpre, hcr, hrb], ?_, ?_⟩
  · unfold dueB
    cases he : m.ent j with
    | none => rfl
    | some e =>
      simp only
      have hps : m.ps ≠ I.now := by rw [← q3]; exact hne
      by_cases hn : e.next < MAX_DT
      · obtain ⟨h1, h2⟩ := hmid.cov j e he hn
        have : ¬ e.next ≤ I.now := by omega
        simp [this]
      · have : ¬ e.next ≤ I.now := by omega
        simp [this]
  · rw [upstream_ent]
    split
    · rename_i hin; rw [q2 j hin]; rfl
    · rfl

theorem tickOf_of_not_due (B : Beh Nat σ ι ο ε) (I : CycleIn ι) (j : Nat) (o : Option (Entry σ ο))
    (h : dueB I o = false) : tickOf B I j o = none := by
  unfold tickOf
  cases o with
  | none => rfl
  | some e =>
    simp only [dueB, Bool.and_eq_false_iff, decide_eq_false_iff_not] at h
    simp only
    split
    · rename_i hc
      rcases h with h | h
      · rw [hc.1] at h; cases h
      · exact absurd hc.2 h
    · rfl

/-- every index evolves as its own machine; the evaluated children and the value ticks of the cycle are those of
    the individual machines; the number of children follows the longest list -/
theorem cycle_solo (B : Beh Nat σ ι ο ε) {t : Time} {m : M σ ο} {I : CycleIn ι} (h : Inv t m) (henv : EnvOk t m I)
    (hsrc : SrcOk m I) (hok : (cycle B m I).out.ok = true) :
    (∀ i, (cycle B m I).m.ent i = soloStep B I i (m.ent i)) ∧
    (cycle B m I).out.runs =
      (List.range (cycle B m I).m.live).filter (fun j => dueB I (soloPrep B I j (m.ent j))) ∧
    (cycle B m I).out.modified =
      (List.range (cycle B m I).m.live).filterMap (fun j => tickOf B I j (soloPrep B I j (m.ent j))) ∧
    (cycle B m I).m.live = max m.live (runtimeSize I) := by
  have hmid := upstream_mid h henv
  have hlt := henv.lt_max
  have hl := (upstream_live m I).1
  unfold cycle at hok ⊢
  simp only at hok ⊢
  by_cases hps : (upstream m I).ps = I.now
  · simp only [hps, if_true] at hok ⊢
    obtain ⟨_, e2, e3, e4, e5, _⟩ := evaluate_spec B _ I hmid hps hlt hok
    have hprep : ∀ j, soloReboundC (bindingsChanged (upstream m I) I) I j (soloCreate B I j ((upstream m I).ent j)) =
        soloPrep B I j (m.ent j) := by
      intro j
      unfold soloPrep soloReboundC soloRebound
      rw [upstream_ent, bindingsChanged_upstream]
      unfold soloPre
      by_cases hin : j ∈ I.rebound
      · simp [hin, (hsrc.rebound j hin).1]
      · simp [hin]
    refine ⟨?_, ?_, ?_, ?_⟩
    · intro i
      rw [e3 i, hprep i]; rfl
    · rw [e4]; congr 1; funext j; rw [hprep j]
    · rw [e5]; congr 1; funext j; rw [hprep j]
    · rw [e2, hl]; omega
  · simp only [hps, if_false]
    have hq := quiet_prep B h henv hsrc hps
    refine ⟨?_, ?_, ?_, ?_⟩
    · intro i
      obtain ⟨q1, q2, q3⟩ := hq i
      unfold soloStep
      rw [q3, q1]
      cases he : m.ent i with
      | none => rfl
      | some e =>
        simp only [Option.map_some, Option.some.injEq]
        rw [he] at q2
        unfold soloEvalE
        simp only [dueB, Bool.and_eq_false_iff, decide_eq_false_iff_not] at q2
        split
        · rename_i hc
          rcases q2 with q2 | q2
          · rw [hc.1] at q2; cases q2
          · exact absurd hc.2 q2
        · rfl
    · symm
      apply List.filter_eq_nil_iff.mpr
      intro j _
      rw [(hq j).1, (hq j).2.1]; simp
    · symm
      apply List.filterMap_eq_nil_iff.mpr
      intro j _
      rw [(hq j).1]
      exact tickOf_of_not_due B I j _ (hq j).2.1
    · rw [hl]
      obtain ⟨q1, _, _⟩ := upstream_quiet h hps
      by_cases hg : m.live < runtimeSize I
      · have := hsrc.growth hg; rw [q1] at this; cases this
      · omega

end HgVerif.TslMap
