import HgVerif.Lemmas.NestFlowRank
/-! Invariants of the schedules of a nesting (`Model/NestFlow.lean`):
`QI` — a consistent idle state between cycles (every graph's cached next time is the minimum of its pending
slots, and the slot of every nested node equals its child's cached next time);
`W`  — what holds when a graph is about to be evaluated at `t`, possibly after notifications for `t` have been
pushed into it.  The push lemma, the quiet-child lemma and the flat reading of `QI`. -/
namespace HgVerif.NestFlow
open HgVerif.Sched HgVerif.Flow

/-- a graph that can be evaluated at `t`: no pending slot lies strictly between its clock and `t` -/
def Own (sz : Nat) (t : Time) (g : G) : Prop :=
  g.slots.length = sz ∧ g.cursor = 0 ∧ g.now < t ∧ ∀ j, j < sz → slotOf g j ≤ g.now ∨ t ≤ slotOf g j

/-- the nested node's slot `sk` in a graph whose clock is `gnow`, against the child's cached next time -/
def Kinv (sk : Time) (gnow : Time) (gc : G) : Prop :=
  (∀ nx, gc.next = some nx → sk = nx ∧ gnow < nx) ∧ (gc.next = none → sk ≤ gnow)

def QI (n : Nat) : Tree → Nat → G × List G → Prop
  | .leaf _, lo, x => x.1.slots.length = n - lo ∧ x.1.cursor = 0 ∧ CInv x.1.now (n - lo) x.1
  | .node hi rk ch, lo, x =>
    x.1.slots.length = hi - lo + 1 ∧ x.1.cursor = 0 ∧ CInv x.1.now (hi - lo + 1) x.1 ∧
    (sub x.2).1.now ≤ x.1.now ∧ Kinv (slotOf x.1 (rk.posOf (hi - lo))) x.1.now (sub x.2).1 ∧ QI n ch hi (sub x.2)

def W (n : Nat) (t : Time) : Tree → Nat → G × List G → Prop
  | .leaf _, lo, x => Own (n - lo) t x.1
  | .node hi rk ch, lo, x =>
    Own (hi - lo + 1) t x.1 ∧ (sub x.2).1.now ≤ x.1.now ∧ W n t ch hi (sub x.2) ∧
    (slotOf x.1 (rk.posOf (hi - lo)) = t ∨
      (QI n ch hi (sub x.2) ∧ Kinv (slotOf x.1 (rk.posOf (hi - lo))) x.1.now (sub x.2).1))

theorem QI_len (n : Nat) (T : Tree) (lo : Nat) (x : G × List G) (h : QI n T lo x) :
    x.1.slots.length = T.size n lo ∧ x.1.cursor = 0 ∧ CInv x.1.now (T.size n lo) x.1 := by
  cases T with
  | leaf rk => exact h
  | node hi rk ch => exact ⟨h.1, h.2.1, h.2.2.1⟩

theorem W_own (n : Nat) (t : Time) (T : Tree) (lo : Nat) (x : G × List G) (h : W n t T lo x) : Own (T.size n lo) t x.1 := by
  cases T with
  | leaf rk => exact h
  | node hi rk ch => exact h.1

/-- a consistent idle state is ready for a cycle at any time after its clock that does not pass its cached next time -/
theorem ready_of_QI (n : Nat) (T : Tree) (lo : Nat) (x : G × List G) (t : Time) (hQ : QI n T lo x) (hnow : x.1.now < t)
    (hnx : ∀ nx, x.1.next = some nx → t ≤ nx) : W n t T lo x := by
  induction T generalizing lo x with
  | leaf rk =>
    obtain ⟨hlen, hc, hci⟩ := hQ
    refine ⟨hlen, hc, hnow, fun j hj => ?_⟩
    rcases Nat.lt_or_ge x.1.now (slotOf x.1 j) with h | h
    · obtain ⟨nx, h1, h2⟩ := hci.lower j hj h
      exact Or.inr (Nat.le_trans (hnx nx h1) h2)
    · exact Or.inl h
  | node hi rk ch ih =>
    obtain ⟨hlen, hc, hci, hcn, hK, hQc⟩ := hQ
    have hown : ∀ j, j < hi - lo + 1 → slotOf x.1 j ≤ x.1.now ∨ t ≤ slotOf x.1 j := by
      intro j hj
      rcases Nat.lt_or_ge x.1.now (slotOf x.1 j) with h | h
      · obtain ⟨nx, h1, h2⟩ := hci.lower j hj h
        exact Or.inr (Nat.le_trans (hnx nx h1) h2)
      · exact Or.inl h
    refine ⟨⟨hlen, hc, hnow, hown⟩, hcn, ?_, Or.inr ⟨hQc, hK⟩⟩
    apply ih hi (sub x.2) hQc (by omega)
    intro nx' h'
    obtain ⟨e, hgt⟩ := hK.1 nx' h'
    have hk : rk.posOf (hi - lo) < hi - lo + 1 := by
      -- the slot is a real one: otherwise it reads 0
      rcases Nat.lt_or_ge (rk.posOf (hi - lo)) (hi - lo + 1) with h | h
      · exact h
      · exfalso
        have : slotOf x.1 (rk.posOf (hi - lo)) = 0 := by
          unfold slotOf; rw [List.getD_eq_getElem?_getD, List.getElem?_eq_none (by omega)]; rfl
        omega
    rcases hown _ hk with h | h
    · omega
    · omega

/-! ### pushes -/

theorem scheduleNode_cursor (g : G) (r : Req) : (scheduleNode g r).cursor = g.cursor := by
  unfold scheduleNode; simp only; split <;> rfl

theorem pushC_props (pnow t : Time) (g : G) (j : Nat) (hp : pnow ≤ t) (hj : j < g.slots.length)
    (hr : slotOf g j ≤ g.now ∨ t ≤ slotOf g j) :
    (∀ x, slotOf (pushC pnow g j t) x = if x = j then t else slotOf g x) ∧
    (pushC pnow g j t).slots.length = g.slots.length ∧ (pushC pnow g j t).now = g.now ∧
    (pushC pnow g j t).cursor = g.cursor := by
  have hmax : max t pnow = t := Nat.max_eq_left hp
  have hslots : ∀ x, slotOf (pushC pnow g j t) x = slotOf (scheduleNode g ⟨j, t⟩) x := by
    intro x; unfold pushC; simp only [hmax]; split <;> rfl
  refine ⟨?_, ?_, ?_, ?_⟩
  · intro x
    rw [hslots, scheduleNode_slots g ⟨j, t⟩ x hj]
    by_cases hx : x = j
    · subst hx
      rw [if_pos rfl]
      by_cases hacc : accepts g ⟨x, t⟩
      · rw [if_pos ⟨rfl, hacc⟩]
      · rw [if_neg (fun h => hacc h.2)]
        unfold accepts at hacc
        simp only at hacc
        omega
    · rw [if_neg hx, if_neg (fun h => hx h.1)]
  · unfold pushC; simp only [hmax]; split <;> simp [scheduleNode_length]
  · unfold pushC; simp only [hmax]; split <;> simp [scheduleNode_now]
  · unfold pushC; simp only [hmax]; split <;> simp [scheduleNode_cursor]

theorem own_pushC (sz : Nat) (pnow t : Time) (g : G) (j : Nat) (hp : pnow ≤ t) (hj : j < sz) (h : Own sz t g) :
    Own sz t (pushC pnow g j t) := by
  obtain ⟨hlen, hc, hnow, hr⟩ := h
  obtain ⟨a, b, c, d⟩ := pushC_props pnow t g j hp (by omega) (hr j hj)
  refine ⟨by omega, by rw [d]; exact hc, by rw [c]; exact hnow, fun x hx => ?_⟩
  rw [a x, c]
  by_cases hxj : x = j
  · rw [if_pos hxj]; exact Or.inr (Nat.le_refl _)
  · rw [if_neg hxj]; exact hr x hx

/-- **the push lemma**: a notification for `t` pushed into an idle, ready graph sets exactly the slot of the
    notified node (wherever it lives), keeps the graph ready, and marks every nested node on the way as due -/
theorem pushT_props (n : Nat) (T : Tree) (lo : Nat) (hwf : T.WF n lo) (t pnow : Time) (hp : pnow ≤ t) (x : G × List G)
    (hW : W n t T lo x) (i : Nat) (hi : lo ≤ i) (hin : i < n) :
    W n t T lo (pushT T lo pnow x i t) ∧
    (∀ j, lo ≤ j → j < n → viewT T lo (pushT T lo pnow x i t) j = if j = i then t else viewT T lo x j) ∧
    (pushT T lo pnow x i t).1.now = x.1.now := by
  induction T generalizing lo pnow x with
  | leaf rk =>
    obtain ⟨hlo, hrk⟩ := hwf
    have hpos : rk.posOf (i - lo) < n - lo := (hrk.2 _ (by omega)).2
    have hW' : Own (n - lo) t x.1 := hW
    obtain ⟨a, b, c, d⟩ := pushC_props pnow t x.1 _ hp (by rw [hW'.1]; exact hpos) (hW'.2.2.2 _ hpos)
    refine ⟨own_pushC _ pnow t x.1 _ hp hpos hW', ?_, c⟩
    intro j hj hjn
    show slotOf (pushC pnow x.1 (rk.posOf (i - lo)) t) (rk.posOf (j - lo)) = _
    rw [a]
    by_cases hji : j = i
    · subst hji; simp
    · rw [if_neg hji, if_neg]
      · rfl
      · intro e; apply hji
        have := rk_inj hrk (by omega) (by omega) e; omega
  | node hi' rk ch ih =>
    obtain ⟨hlo, hhi, hrk, hch⟩ := hwf
    obtain ⟨hk, hout, _⟩ := level_facts hrk
    obtain ⟨hown, hcn, hWc, hlink⟩ := hW
    by_cases hih : i < hi'
    · -- the notified node is one of this graph's own nodes
      have hpos := hout (i - lo) (by omega)
      have e : pushT (.node hi' rk ch) lo pnow x i t = (pushC pnow x.1 (rk.posOf (i - lo)) t, x.2) := by
        simp only [pushT, hih, ↓reduceIte]
      rw [e]
      obtain ⟨a, b, c, d⟩ := pushC_props pnow t x.1 _ hp (by rw [hown.1]; exact hpos.2) (hown.2.2.2 _ hpos.2)
      refine ⟨⟨own_pushC _ pnow t x.1 _ hp hpos.2 hown, by rw [c]; exact hcn, hWc, ?_⟩, ?_, c⟩
      · show slotOf (pushC pnow x.1 (rk.posOf (i - lo)) t) (rk.posOf (hi' - lo)) = t ∨ _
        rw [a, if_neg (fun e => hpos.1 e.symm), c]; exact hlink
      · intro j hj hjn
        show (if j < hi' then slotOf (pushC pnow x.1 (rk.posOf (i - lo)) t) (rk.posOf (j - lo)) else viewT ch hi' (sub x.2) j) = _
        by_cases hjh : j < hi'
        · rw [if_pos hjh, a]
          by_cases hji : j = i
          · subst hji; simp
          · rw [if_neg hji, if_neg]
            · show _ = if j < hi' then _ else _
              rw [if_pos hjh]
            · intro e; apply hji
              have := rk_inj hrk (i := j - lo) (j := i - lo) (by omega) (by omega) e; omega
        · rw [if_neg hjh, if_neg (by omega)]
          show _ = if j < hi' then _ else _
          rw [if_neg hjh]
    · -- it lives in the child graph (or deeper)
      have hnow : x.1.now < t := hown.2.2.1
      have hmax : max t x.1.now = t := Nat.max_eq_left (by omega)
      have e : pushT (.node hi' rk ch) lo pnow x i t =
          (pushC pnow x.1 (rk.posOf (hi' - lo)) t,
            (pushT ch hi' x.1.now (sub x.2) i t).1 :: (pushT ch hi' x.1.now (sub x.2) i t).2) := by
        simp only [pushT, hih, ↓reduceIte, hmax]
      rw [e]
      obtain ⟨ihW, ihV, ihN⟩ := ih hi' hch x.1.now (by omega) (sub x.2) hWc (by omega)
      obtain ⟨a, b, c, d⟩ := pushC_props pnow t x.1 _ hp (by rw [hown.1]; exact hk) (hown.2.2.2 _ hk)
      refine ⟨⟨own_pushC _ pnow t x.1 _ hp hk hown, ?_, ?_, Or.inl ?_⟩, ?_, c⟩
      · show (sub (_ :: _)).1.now ≤ _
        rw [sub_cons, c, ihN]; exact hcn
      · show W n t ch hi' (sub (_ :: _))
        rw [sub_cons]; exact ihW
      · show slotOf (pushC pnow x.1 (rk.posOf (hi' - lo)) t) (rk.posOf (hi' - lo)) = t
        rw [a, if_pos rfl]
      · intro j hj hjn
        show (if j < hi' then slotOf (pushC pnow x.1 (rk.posOf (hi' - lo)) t) (rk.posOf (j - lo))
              else viewT ch hi' (sub (_ :: _)) j) = _
        by_cases hjh : j < hi'
        · rw [if_pos hjh, a, if_neg (fun e => (hout (j - lo) (by omega)).1 e), if_neg (by omega)]
          show _ = if j < hi' then _ else _
          rw [if_pos hjh]
        · rw [if_neg hjh, sub_cons, ihV j (by omega) hjn]
          show _ = if j = i then t else if j < hi' then _ else _
          rw [if_neg hjh]

/-- pushing a list of notifications -/
theorem pushT_list (n : Nat) (T : Tree) (lo : Nat) (hwf : T.WF n lo) (t pnow : Time) (hp : pnow ≤ t) (L : List Nat)
    (x : G × List G) (hW : W n t T lo x) (hL : ∀ c ∈ L, lo ≤ c ∧ c < n) :
    W n t T lo (L.foldl (fun x c => pushT T lo pnow x c t) x) ∧
    (∀ j, lo ≤ j → j < n →
      viewT T lo (L.foldl (fun x c => pushT T lo pnow x c t) x) j = if j ∈ L then t else viewT T lo x j) ∧
    (L.foldl (fun x c => pushT T lo pnow x c t) x).1.now = x.1.now := by
  induction L generalizing x with
  | nil => exact ⟨hW, fun j _ _ => by simp, rfl⟩
  | cons c rest ih =>
    obtain ⟨hc1, hc2⟩ := hL c (by simp)
    obtain ⟨a1, a2, a3⟩ := pushT_props n T lo hwf t pnow hp x hW c hc1 hc2
    obtain ⟨b1, b2, b3⟩ := ih (pushT T lo pnow x c t) a1 (fun c' hc' => hL c' (by simp [hc']))
    rw [List.foldl_cons]
    refine ⟨b1, ?_, by rw [b3, a3]⟩
    intro j hj hjn
    rw [b2 j hj hjn, a2 j hj hjn]
    by_cases h1 : j ∈ rest
    · rw [if_pos h1, if_pos (by simp [h1])]
    · rw [if_neg h1]
      by_cases h2 : j = c
      · rw [if_pos h2, if_pos (by simp [h2])]
      · rw [if_neg h2, if_neg (by simp [h1, h2])]

/-! ### a child that is not due -/

theorem own_slot_quiet (sz : Nat) (t : Time) (g : G) (h : Own sz t g) (hci : CInv g.now sz g)
    (hnx : ∀ nx, g.next = some nx → t < nx) (p : Nat) (hp : p < sz) :
    slotOf g p ≠ t ∧ (g.now < slotOf g p → t < slotOf g p) := by
  obtain ⟨_, _, hnow, hr⟩ := h
  rcases Nat.lt_or_ge g.now (slotOf g p) with h1 | h1
  · obtain ⟨nx, a, b⟩ := hci.lower p hp h1
    have := hnx nx a
    exact ⟨by omega, fun _ => by omega⟩
  · exact ⟨by omega, fun h => by omega⟩

/-- a consistent, ready graph whose cached next time lies after `t` has no node due at `t`, at any depth -/
theorem quiet_views (n : Nat) (T : Tree) (lo : Nat) (hwf : T.WF n lo) (t : Time) (x : G × List G)
    (hQ : QI n T lo x) (hW : W n t T lo x) (hnx : ∀ nx, x.1.next = some nx → t < nx) :
    ∀ j, lo ≤ j → j < n → viewT T lo x j ≠ t := by
  induction T generalizing lo x with
  | leaf rk =>
    intro j hj hjn
    obtain ⟨hlo, hrk⟩ := hwf
    exact (own_slot_quiet _ t x.1 hW hQ.2.2 hnx _ (hrk.2 (j - lo) (by omega)).2).1
  | node hi rk ch ih =>
    intro j hj hjn
    obtain ⟨hlo, hhi, hrk, hch⟩ := hwf
    obtain ⟨hk, hout, _⟩ := level_facts hrk
    obtain ⟨hlen, hc, hci, hcn, hK, hQc⟩ := hQ
    obtain ⟨hown, _, hWc, _⟩ := hW
    show (if j < hi then slotOf x.1 (rk.posOf (j - lo)) else viewT ch hi (sub x.2) j) ≠ t
    by_cases hjh : j < hi
    · rw [if_pos hjh]
      exact (own_slot_quiet _ t x.1 hown hci hnx _ (hout (j - lo) (by omega)).2).1
    · rw [if_neg hjh]
      apply ih hi hch (sub x.2) hQc hWc _ j (by omega) hjn
      intro nx' h'
      obtain ⟨e, hgt⟩ := hK.1 nx' h'
      have := (own_slot_quiet _ t x.1 hown hci hnx _ hk).2 (by omega)
      omega

/-! ### the flat reading of a consistent idle state -/

theorem flat_lower (n : Nat) (T : Tree) (lo : Nat) (hwf : T.WF n lo) (x : G × List G) (hQ : QI n T lo x) :
    ∀ j, lo ≤ j → j < n → x.1.now < viewT T lo x j → ∃ nx, x.1.next = some nx ∧ nx ≤ viewT T lo x j := by
  induction T generalizing lo x with
  | leaf rk =>
    intro j hj hjn hlt
    obtain ⟨hlo, hrk⟩ := hwf
    exact hQ.2.2.lower _ (hrk.2 (j - lo) (by omega)).2 hlt
  | node hi rk ch ih =>
    intro j hj hjn
    obtain ⟨hlo, hhi, hrk, hch⟩ := hwf
    obtain ⟨hk, hout, _⟩ := level_facts hrk
    obtain ⟨hlen, hc, hci, hcn, hK, hQc⟩ := hQ
    show x.1.now < (if j < hi then slotOf x.1 (rk.posOf (j - lo)) else viewT ch hi (sub x.2) j) →
      ∃ nx, x.1.next = some nx ∧ nx ≤ (if j < hi then slotOf x.1 (rk.posOf (j - lo)) else viewT ch hi (sub x.2) j)
    by_cases hjh : j < hi
    · rw [if_pos hjh]
      exact hci.lower _ (hout (j - lo) (by omega)).2
    · rw [if_neg hjh]
      intro hlt
      obtain ⟨nx', h1, h2⟩ := ih hi hch (sub x.2) hQc j (by omega) hjn (by omega)
      obtain ⟨e, hgt⟩ := hK.1 nx' h1
      obtain ⟨nx, h3, h4⟩ := hci.lower _ hk (by omega)
      exact ⟨nx, h3, by omega⟩

theorem flat_isSlot (n : Nat) (T : Tree) (lo : Nat) (hwf : T.WF n lo) (x : G × List G) (hQ : QI n T lo x) :
    ∀ nx, x.1.next = some nx → x.1.now < nx ∧ ∃ j, lo ≤ j ∧ j < n ∧ viewT T lo x j = nx := by
  induction T generalizing lo x with
  | leaf rk =>
    intro nx hnx
    obtain ⟨hlo, hrk⟩ := hwf
    obtain ⟨h1, p, hp, hs⟩ := hQ.2.2.isSlot nx hnx
    refine ⟨h1, lo + rk.node p, by omega, by have := (hrk.1 p hp).2; omega, ?_⟩
    show slotOf x.1 (rk.posOf (lo + rk.node p - lo)) = nx
    rw [Nat.add_sub_cancel_left, (hrk.1 p hp).1]; exact hs
  | node hi rk ch ih =>
    intro nx hnx
    obtain ⟨hlo, hhi, hrk, hch⟩ := hwf
    obtain ⟨hk, hout, hnode⟩ := level_facts hrk
    obtain ⟨hlen, hc, hci, hcn, hK, hQc⟩ := hQ
    obtain ⟨h1, p, hp, hs⟩ := hci.isSlot nx hnx
    refine ⟨h1, ?_⟩
    by_cases hpk : p = rk.posOf (hi - lo)
    · subst hpk
      cases hcnx : (sub x.2).1.next with
      | none => have := hK.2 hcnx; omega
      | some nx' =>
        obtain ⟨e, _⟩ := hK.1 nx' hcnx
        obtain ⟨_, j, hj, hjn, hv⟩ := ih hi hch (sub x.2) hQc nx' hcnx
        refine ⟨j, by omega, hjn, ?_⟩
        show (if j < hi then _ else viewT ch hi (sub x.2) j) = nx
        rw [if_neg (by omega), hv, ← e, hs]
    · have hn := hnode p hp hpk
      refine ⟨lo + rk.node p, by omega, by omega, ?_⟩
      show (if lo + rk.node p < hi then slotOf x.1 (rk.posOf (lo + rk.node p - lo)) else _) = nx
      rw [if_pos (by omega), Nat.add_sub_cancel_left, (hrk.1 p hp).1]; exact hs

/-- **the flat reading**: arranged by the composed rank, the slots of a consistent idle nesting together with the
    ROOT's cached next time satisfy the invariant of a flat graph — the root's next time is the minimum over all
    pending slots of all graphs -/
theorem flat_cinv (n : Nat) (T : Tree) (lo : Nat) (hwf : T.WF n lo) (x : G × List G) (hQ : QI n T lo x) (gF : G)
    (hV : ViewEq n T lo x gF) (hnow : gF.now = x.1.now) (hnext : gF.next = x.1.next) :
    CInv x.1.now (n - lo) gF := by
  have hrk := flatRk_ok n T lo hwf
  refine ⟨hnow, ?_, ?_⟩
  · intro p hp hlt
    have hnd := hrk.1 p hp
    have hv := hV (lo + (flatRk n T lo).node p) (by omega) (by omega)
    rw [Nat.add_sub_cancel_left, hnd.1] at hv
    rw [← hv] at hlt ⊢
    rw [hnext]
    exact flat_lower n T lo hwf x hQ _ (by omega) (by omega) hlt
  · intro nx hnx
    rw [hnext] at hnx
    obtain ⟨h1, j, hj, hjn, hv⟩ := flat_isSlot n T lo hwf x hQ nx hnx
    refine ⟨h1, (flatRk n T lo).posOf (j - lo), (hrk.2 (j - lo) (by omega)).2, ?_⟩
    rw [← hV j hj hjn]; exact hv

end HgVerif.NestFlow
