import HgVerif.Model.MapNode
/-!
Helper lemmas for C10 (`Props/C10.lean`): the child-schedule heap as a sorted list, the two drain
loops, the per-slot effect of every phase of `MapNode.cycle`, and the inductive invariant `Inv`.
Core Lean only.
-/
set_option linter.unusedSimpArgs false
set_option linter.unusedVariables false

namespace HgVerif.MapNode

local notation "Time" => Nat

variable {κ σ ι ο ε : Type}

/-! ## `setEnt` -/

@[simp] theorem setEnt_same {α : Type} (f : Nat → Option α) (s : Nat) (v : Option α) : setEnt f s v s = v := by
  simp [setEnt]

theorem setEnt_other {α : Type} (f : Nat → Option α) (s i : Nat) (v : Option α) (h : i ≠ s) :
    setEnt f s v i = f i := by
  simp [setEnt, h]

/-! ## the heap: sorted by `when` -/

/-- weakly increasing `when` -/
def HSorted (l : List HE) : Prop := l.Pairwise (fun a b => a.when ≤ b.when)

theorem HE.gt_when {a b : HE} (h : a.gt b = true) : b.when ≤ a.when := by
  unfold HE.gt at h
  split at h
  · simp at h; omega
  · rename_i hw; simp at hw; omega

theorem HE.not_gt_when {a b : HE} (h : a.gt b = false) : a.when ≤ b.when := by
  unfold HE.gt at h
  split at h
  · simp at h; omega
  · rename_i hw; simp at hw; omega

theorem mem_heapPush {l : List HE} {e x : HE} : x ∈ heapPush l e ↔ x = e ∨ x ∈ l := by
  induction l with
  | nil => simp [heapPush]
  | cons y ys ih =>
    unfold heapPush
    split
    · simp
    · simp [ih]; constructor
      · rintro (h | h | h) <;> simp [h]
      · rintro (h | h | h) <;> simp [h]

theorem heapPush_sorted {l : List HE} (e : HE) (h : HSorted l) : HSorted (heapPush l e) := by
  induction l with
  | nil => simp [heapPush, HSorted]
  | cons y ys ih =>
    unfold heapPush
    have hy : ∀ b ∈ ys, y.when ≤ b.when := (List.pairwise_cons.mp h).1
    have hys : HSorted ys := (List.pairwise_cons.mp h).2
    split
    · rename_i hg
      have := HE.gt_when hg
      refine List.pairwise_cons.mpr ⟨?_, h⟩
      intro b hb
      rcases List.mem_cons.mp hb with rfl | hb
      · exact this
      · have := hy b hb; omega
    · rename_i hg
      have hg' : y.gt e = false := by simpa using hg
      have := HE.not_gt_when hg'
      refine List.pairwise_cons.mpr ⟨?_, ih hys⟩
      intro b hb
      rcases mem_heapPush.mp hb with rfl | hb
      · exact this
      · exact hy b hb

theorem HSorted.tail {x : HE} {xs : List HE} (h : HSorted (x :: xs)) : HSorted xs :=
  (List.pairwise_cons.mp h).2

theorem HSorted.head_le {x : HE} {xs : List HE} (h : HSorted (x :: xs)) : ∀ b ∈ xs, x.when ≤ b.when :=
  (List.pairwise_cons.mp h).1

/-! ## entries up to `pulled_when` -/

/-- an entry without its scheduling bookkeeping -/
def strip (e : Entry κ σ ο ε) : Entry κ σ ο ε := { e with pulledWhen := 0 }

@[simp] theorem strip_strip (e : Entry κ σ ο ε) : strip (strip e) = strip e := rfl
@[simp] theorem strip_pw (e : Entry κ σ ο ε) (w : Time) : strip { e with pulledWhen := w } = strip e := rfl
@[simp] theorem strip_started (e : Entry κ σ ο ε) : (strip e).started = e.started := rfl
@[simp] theorem strip_next (e : Entry κ σ ο ε) : (strip e).next = e.next := rfl
@[simp] theorem strip_key (e : Entry κ σ ο ε) : (strip e).key = e.key := rfl
@[simp] theorem strip_st (e : Entry κ σ ο ε) : (strip e).st = e.st := rfl
@[simp] theorem strip_outv (e : Entry κ σ ο ε) : (strip e).outv = e.outv := rfl
@[simp] theorem strip_errv (e : Entry κ σ ο ε) : (strip e).errv = e.errv := rfl

/-- a heap entry that makes its slot a candidate when it is popped -/
def ValidFor (e : Entry κ σ ο ε) (x : HE) : Prop := x.pulled = false ∨ e.pulledWhen = x.when

/-- every started child with a pending wake-up is in `P` or owns a valid heap entry in `[lo, next]` -/
def CovOr (P : Nat → Prop) (lo : Time) (ent : Nat → Option (Entry κ σ ο ε)) (heap : List HE) : Prop :=
  ∀ s e, ent s = some e → e.started = true → e.next < MAX_DT →
    P s ∨ ∃ x ∈ heap, x.slot = s ∧ lo ≤ x.when ∧ x.when ≤ e.next ∧ ValidFor e x

/-- the entry `pulled_when` names is in the heap -/
def PW (ent : Nat → Option (Entry κ σ ο ε)) (heap : List HE) : Prop :=
  ∀ s e, ent s = some e → e.pulledWhen ≠ MAX_DT → (⟨e.pulledWhen, s, true⟩ : HE) ∈ heap

def CapOk (ent : Nat → Option (Entry κ σ ο ε)) (cap : Nat) : Prop := ∀ s e, ent s = some e → s < cap

theorem CovOr.mono {P Q : Nat → Prop} {lo : Time} {ent : Nat → Option (Entry κ σ ο ε)} {heap heap' : List HE}
    (h : CovOr P lo ent heap) (hpq : ∀ s, P s → Q s) (hh : ∀ x ∈ heap, x ∈ heap') : CovOr Q lo ent heap' := by
  intro s e he hs hn
  rcases h s e he hs hn with hp | ⟨x, hx, r⟩
  · exact Or.inl (hpq s hp)
  · exact Or.inr ⟨x, hh x hx, r⟩

/-! ## the first drain -/

theorem drainDue_heap_sub (now : Time) (l : List HE) (ent : Nat → Option (Entry κ σ ο ε)) (cand : List Nat) :
    ∀ x ∈ (drainDue now l ent cand).heap, x ∈ l := by
  induction l generalizing ent cand with
  | nil => simp [drainDue]
  | cons y ys ih =>
    intro x hx
    unfold drainDue at hx
    split at hx
    · split at hx
      · exact List.mem_cons_of_mem _ (ih _ _ x hx)
      · split at hx
        · split at hx
          · exact List.mem_cons_of_mem _ (ih _ _ x hx)
          · exact List.mem_cons_of_mem _ (ih _ _ x hx)
        · exact List.mem_cons_of_mem _ (ih _ _ x hx)
    · exact hx

theorem drainDue_sorted (now : Time) (l : List HE) (ent : Nat → Option (Entry κ σ ο ε)) (cand : List Nat)
    (h : HSorted l) : HSorted (drainDue now l ent cand).heap := by
  induction l generalizing ent cand with
  | nil => simp [drainDue, HSorted]
  | cons y ys ih =>
    unfold drainDue
    split
    · split
      · exact ih _ _ h.tail
      · split
        · split
          · exact ih _ _ h.tail
          · exact ih _ _ h.tail
        · exact ih _ _ h.tail
    · exact h

/-- entries that are not due stay -/
theorem drainDue_keeps (now : Time) (l : List HE) (ent : Nat → Option (Entry κ σ ο ε)) (cand : List Nat) :
    ∀ x ∈ l, now < x.when → x ∈ (drainDue now l ent cand).heap := by
  induction l generalizing ent cand with
  | nil => simp
  | cons y ys ih =>
    intro x hx hw
    unfold drainDue
    split
    · rename_i hy
      have hne : x ≠ y := by rintro rfl; omega
      have hx' : x ∈ ys := by
        rcases List.mem_cons.mp hx with h | h
        · exact absurd h hne
        · exact h
      split
      · exact ih _ _ x hx' hw
      · split
        · split
          · exact ih _ _ x hx' hw
          · exact ih _ _ x hx' hw
        · exact ih _ _ x hx' hw
    · exact hx

/-- with a sorted heap, everything that is left is in the future -/
theorem drainDue_future (now : Time) (l : List HE) (ent : Nat → Option (Entry κ σ ο ε)) (cand : List Nat)
    (h : HSorted l) : ∀ x ∈ (drainDue now l ent cand).heap, now < x.when := by
  induction l generalizing ent cand with
  | nil => simp [drainDue]
  | cons y ys ih =>
    unfold drainDue
    split
    · split
      · exact ih _ _ h.tail
      · split
        · split
          · exact ih _ _ h.tail
          · exact ih _ _ h.tail
        · exact ih _ _ h.tail
    · rename_i hy
      intro x hx
      rcases List.mem_cons.mp hx with rfl | hx
      · omega
      · have := h.head_le x hx; omega

theorem drainDue_cand_mono (now : Time) (l : List HE) (ent : Nat → Option (Entry κ σ ο ε)) (cand : List Nat) :
    ∀ s ∈ cand, s ∈ (drainDue now l ent cand).cand := by
  induction l generalizing ent cand with
  | nil => simp [drainDue]
  | cons y ys ih =>
    intro s hs
    unfold drainDue
    split
    · split
      · exact ih _ _ s hs
      · split
        · split
          · exact ih _ _ s hs
          · exact ih _ _ s (List.mem_cons_of_mem _ hs)
        · exact ih _ _ s (List.mem_cons_of_mem _ hs)
    · exact hs

/-- the drain changes an entry only by resetting `pulled_when`, and then the slot is a candidate -/
theorem drainDue_ent (now : Time) (l : List HE) (ent : Nat → Option (Entry κ σ ο ε)) (cand : List Nat) (s : Nat) :
    (drainDue now l ent cand).ent s = ent s ∨
    (s ∈ (drainDue now l ent cand).cand ∧ ∃ e, ent s = some e ∧
      (drainDue now l ent cand).ent s = some { e with pulledWhen := MAX_DT }) := by
  induction l generalizing ent cand with
  | nil => simp [drainDue]
  | cons y ys ih =>
    unfold drainDue
    split
    · split
      · exact ih _ _
      · rename_i e he
        split
        · split
          · exact ih _ _
          · -- reset of slot y.slot
            rcases ih (setEnt ent y.slot (some { e with pulledWhen := MAX_DT })) (y.slot :: cand) with h | ⟨hc, e', he', h⟩
            · by_cases hs : s = y.slot
              · subst hs
                right
                refine ⟨drainDue_cand_mono _ _ _ _ _ List.mem_cons_self, e, he, ?_⟩
                rw [h]; simp
              · left; rw [h, setEnt_other _ _ _ _ hs]
            · by_cases hs : s = y.slot
              · subst hs
                simp at he'
                right
                refine ⟨hc, e, he, ?_⟩
                rw [h, ← he']
              · right
                rw [setEnt_other _ _ _ _ hs] at he'
                exact ⟨hc, e', he', h⟩
        · exact ih _ _
    · left; rfl

theorem drainDue_pw (now : Time) (l : List HE) (ent : Nat → Option (Entry κ σ ο ε)) (cand : List Nat)
    (h : PW ent l) : PW (drainDue now l ent cand).ent (drainDue now l ent cand).heap := by
  induction l generalizing ent cand with
  | nil => simpa [drainDue] using h
  | cons y ys ih =>
    unfold drainDue
    split
    · split
      · rename_i hnone
        apply ih
        intro s e he hp
        rcases List.mem_cons.mp (h s e he hp) with heq | hm
        · exfalso
          have : y.slot = s := by rw [← heq]
          rw [this, he] at hnone; cases hnone
        · exact hm
      · rename_i e0 he0
        split
        · rename_i hpull
          split
          · rename_i hne
            apply ih
            intro s e he hp
            rcases List.mem_cons.mp (h s e he hp) with heq | hm
            · exfalso
              have h1 : y.slot = s := by rw [← heq]
              have h2 : y.when = e.pulledWhen := by rw [← heq]
              rw [h1, he] at he0
              cases he0
              exact hne h2.symm
            · exact hm
          · apply ih
            intro s e he hp
            by_cases hs : s = y.slot
            · subst hs
              simp at he
              subst he
              exact absurd rfl hp
            · rw [setEnt_other _ _ _ _ hs] at he
              rcases List.mem_cons.mp (h s e he hp) with heq | hm
              · exfalso
                have h1 : y.slot = s := by rw [← heq]
                exact hs h1.symm
              · exact hm
        · rename_i hpull
          apply ih
          intro s e he hp
          rcases List.mem_cons.mp (h s e he hp) with heq | hm
          · exfalso
            have : y.pulled = true := by rw [← heq]
            exact hpull this
          · exact hm
    · exact h

/-- a due, valid heap entry makes its slot a candidate -/
theorem drainDue_pops (now : Time) (l : List HE) (ent : Nat → Option (Entry κ σ ο ε)) (cand : List Nat)
    (hs : HSorted l) (x : HE) (hx : x ∈ l) (hw : x.when ≤ now) (e : Entry κ σ ο ε)
    (he : ent x.slot = some e) (hv : ValidFor e x) : x.slot ∈ (drainDue now l ent cand).cand := by
  induction l generalizing ent cand e with
  | nil => cases hx
  | cons y ys ih =>
    unfold drainDue
    have hyw : y.when ≤ now := by
      rcases List.mem_cons.mp hx with rfl | hx'
      · exact hw
      · have := hs.head_le x hx'; omega
    rw [if_pos hyw]
    rcases List.mem_cons.mp hx with rfl | hx'
    · -- x is the head
      rw [he]
      simp only
      split
      · rename_i hp
        rcases hv with hv | hv
        · rw [hv] at hp; cases hp
        · rw [if_neg (by simpa using hv)]
          exact drainDue_cand_mono _ _ _ _ _ List.mem_cons_self
      · exact drainDue_cand_mono _ _ _ _ _ List.mem_cons_self
    · split
      · exact ih _ _ hs.tail hx' e he hv
      · rename_i e0 he0
        split
        · split
          · exact ih _ _ hs.tail hx' e he hv
          · rename_i heq
            by_cases hsl : x.slot = y.slot
            · rw [hsl]; exact drainDue_cand_mono _ _ _ _ _ List.mem_cons_self
            · exact ih _ _ hs.tail hx' e (by rw [setEnt_other _ _ _ _ hsl]; exact he) hv
        · exact ih _ _ hs.tail hx' e he hv

/-! ## the second drain -/

theorem drainFinal_ent (now : Time) (l : List HE) (ent : Nat → Option (Entry κ σ ο ε))
    (hlow : ∀ x ∈ l, x.when ≤ now → x.pulled = false) : (drainFinal now l ent).2 = ent := by
  induction l generalizing ent with
  | nil => simp [drainFinal]
  | cons y ys ih =>
    unfold drainFinal
    split
    · rename_i hy
      have hp := hlow y List.mem_cons_self hy
      simp [hp]
      exact ih _ (fun x hx => hlow x (List.mem_cons_of_mem _ hx))
    · rfl

theorem drainFinal_heap_sub (now : Time) (l : List HE) (ent : Nat → Option (Entry κ σ ο ε)) :
    ∀ x ∈ (drainFinal now l ent).1, x ∈ l := by
  induction l generalizing ent with
  | nil => simp [drainFinal]
  | cons y ys ih =>
    intro x hx
    unfold drainFinal at hx
    split at hx
    · split at hx
      · split at hx
        · split at hx
          · exact List.mem_cons_of_mem _ (ih _ x hx)
          · exact List.mem_cons_of_mem _ (ih _ x hx)
        · exact List.mem_cons_of_mem _ (ih _ x hx)
      · exact List.mem_cons_of_mem _ (ih _ x hx)
    · exact hx

theorem drainFinal_sorted (now : Time) (l : List HE) (ent : Nat → Option (Entry κ σ ο ε)) (h : HSorted l) :
    HSorted (drainFinal now l ent).1 := by
  induction l generalizing ent with
  | nil => simp [drainFinal, HSorted]
  | cons y ys ih =>
    unfold drainFinal
    split
    · split
      · split
        · split
          · exact ih _ h.tail
          · exact ih _ h.tail
        · exact ih _ h.tail
      · exact ih _ h.tail
    · exact h

theorem drainFinal_keeps (now : Time) (l : List HE) (ent : Nat → Option (Entry κ σ ο ε)) :
    ∀ x ∈ l, now < x.when → x ∈ (drainFinal now l ent).1 := by
  induction l generalizing ent with
  | nil => simp
  | cons y ys ih =>
    intro x hx hw
    unfold drainFinal
    split
    · rename_i hy
      have hne : x ≠ y := by rintro rfl; omega
      have hx' : x ∈ ys := by
        rcases List.mem_cons.mp hx with h | h
        · exact absurd h hne
        · exact h
      split
      · split
        · split
          · exact ih _ x hx' hw
          · exact ih _ x hx' hw
        · exact ih _ x hx' hw
      · exact ih _ x hx' hw
    · exact hx

theorem drainFinal_future (now : Time) (l : List HE) (ent : Nat → Option (Entry κ σ ο ε)) (h : HSorted l) :
    ∀ x ∈ (drainFinal now l ent).1, now < x.when := by
  induction l generalizing ent with
  | nil => simp [drainFinal]
  | cons y ys ih =>
    unfold drainFinal
    split
    · split
      · split
        · split
          · exact ih _ h.tail
          · exact ih _ h.tail
        · exact ih _ h.tail
      · exact ih _ h.tail
    · rename_i hy
      intro x hx
      rcases List.mem_cons.mp hx with rfl | hx
      · omega
      · have := h.head_le x hx; omega

/-! ## invariants -/

/-- mid-cycle invariant (heap entries may be due) -/
structure Mid (P : Nat → Prop) (m : M κ σ ο ε) : Prop where
  sorted : HSorted m.heap
  pw : PW m.ent m.heap
  cov : CovOr P 0 m.ent m.heap
  capOk : CapOk m.ent m.cap

/-- the map node's slot is not later than any heap entry (and not in the past) -/
def Armed (now : Time) (m : M κ σ ο ε) : Prop := ∀ x ∈ m.heap, now ≤ m.ps ∧ m.ps ≤ x.when

/-- THE invariant between cycles; `t` is the time of the last cycle. -/
structure Inv (t : Time) (m : M κ σ ο ε) : Prop where
  sorted : HSorted m.heap
  future : ∀ x ∈ m.heap, t < x.when
  pw : PW m.ent m.heap
  /-- every started child with a pending wake-up owns a valid heap entry not later than it -/
  cov : CovOr (fun _ => False) 0 m.ent m.heap
  /-- the map node is armed not later than the heap minimum, in the future -/
  armed : ∀ x ∈ m.heap, t < m.ps ∧ m.ps ≤ x.when
  capOk : CapOk m.ent m.cap

/-- what the engine guarantees about a cycle at `I.now` (C02): time advances, stays below `MAX_DT`,
    and a pending wake-up of the map node is not skipped -/
structure EnvOk (t : Time) (m : M κ σ ο ε) (I : CycleIn κ ι) : Prop where
  adv : t < I.now
  lt_max : I.now < MAX_DT
  noskip : t < m.ps → I.now ≤ m.ps

theorem schedNode_now (ps now : Time) : schedNode ps now now = now := by
  unfold schedNode; split <;> omega

/-! ### notify -/

theorem notify_cases (now : Time) (m : M κ σ ο ε) (s : Nat) :
    notify now m s = m ∨
    ∃ e, m.ent s = some e ∧ e.started = true ∧
      notify now m s = { m with ent := setEnt m.ent s (some (notifyE now e))
                                heap := heapPush m.heap ⟨now, s, false⟩
                                ps := schedNode m.ps now now } := by
  unfold notify
  cases h : m.ent s with
  | none => left; rfl
  | some e =>
    cases hs : e.started with
    | false => left; simp [hs]
    | true => right; exact ⟨e, rfl, hs, by simp [hs]⟩

theorem notify_mid {P : Nat → Prop} (now : Time) (m : M κ σ ο ε) (s : Nat) (h : Mid P m) : Mid P (notify now m s) := by
  rcases notify_cases now m s with heq | ⟨e, he, hst, heq⟩
  · rw [heq]; exact h
  · rw [heq]
    refine ⟨heapPush_sorted _ h.sorted, ?_, ?_, ?_⟩
    · intro s' e' he' hp
      simp only at he'
      apply mem_heapPush.mpr; right
      by_cases hs : s' = s
      · subst hs; simp at he'; subst he'
        exact h.pw s' e he hp
      · rw [setEnt_other _ _ _ _ hs] at he'; exact h.pw s' e' he' hp
    · intro s' e' he' hst' hn'
      simp only at he'
      by_cases hs : s' = s
      · subst hs; simp at he'; subst he'
        by_cases hlt : now < e.next
        · right
          refine ⟨⟨now, s', false⟩, mem_heapPush.mpr (Or.inl rfl), rfl, Nat.zero_le _, ?_, Or.inl rfl⟩
          simp [notifyE, hlt]
        · have hne : (notifyE now e).next = e.next := by simp [notifyE, hlt]
          rw [hne] at hn'
          rcases h.cov s' e he hst hn' with hp | ⟨x, hx, h1, h2, h3, h4⟩
          · exact Or.inl hp
          · right
            refine ⟨x, mem_heapPush.mpr (Or.inr hx), h1, h2, ?_, ?_⟩
            · rw [hne]; exact h3
            · exact h4
      · rw [setEnt_other _ _ _ _ hs] at he'
        rcases h.cov s' e' he' hst' hn' with hp | ⟨x, hx, r⟩
        · exact Or.inl hp
        · exact Or.inr ⟨x, mem_heapPush.mpr (Or.inr hx), r⟩
    · intro s' e' he'
      simp only at he'
      by_cases hs : s' = s
      · subst hs; exact h.capOk s' e he
      · rw [setEnt_other _ _ _ _ hs] at he'; exact h.capOk s' e' he'

theorem notify_armed (now : Time) (m : M κ σ ο ε) (s : Nat) (h : Armed now m) : Armed now (notify now m s) := by
  rcases notify_cases now m s with heq | ⟨e, he, hst, heq⟩
  · rw [heq]; exact h
  · rw [heq]
    intro x hx
    simp only at hx ⊢
    rw [schedNode_now]
    rcases mem_heapPush.mp hx with rfl | hx
    · exact ⟨Nat.le_refl _, Nat.le_refl _⟩
    · have := h x hx; omega

theorem foldl_notify_mid {P : Nat → Prop} (now : Time) (l : List Nat) (m : M κ σ ο ε) (h : Mid P m) :
    Mid P (l.foldl (notify now) m) := by
  induction l generalizing m with
  | nil => exact h
  | cons a as ih => exact ih _ (notify_mid now m a h)

theorem foldl_notify_armed (now : Time) (l : List Nat) (m : M κ σ ο ε) (h : Armed now m) :
    Armed now (l.foldl (notify now) m) := by
  induction l generalizing m with
  | nil => exact h
  | cons a as ih => exact ih _ (notify_armed now m a h)

/-! ### erase -/

theorem foldl_erase_ent (l : List Nat) (f : Nat → Option (Entry κ σ ο ε)) (s : Nat) :
    (l.foldl (fun f s => setEnt f s none) f) s = if s ∈ l then none else f s := by
  induction l generalizing f with
  | nil => simp
  | cons a as ih =>
    simp only [List.foldl_cons, ih, List.mem_cons]
    by_cases h1 : s ∈ as
    · simp [h1]
    · by_cases h2 : s = a
      · subst h2; simp [h1]
      · simp [h1, h2, setEnt_other _ _ _ _ h2]

theorem upstream_mid {t : Time} {m : M κ σ ο ε} {I : CycleIn κ ι} (hinv : Inv t m) (henv : EnvOk t m I) :
    Mid (fun _ => False) (upstream m I) ∧ Armed I.now (upstream m I) := by
  -- after the erases
  let m1 : M κ σ ο ε := { m with ent := I.erased.foldl (fun f s => setEnt f s none) m.ent, cap := max m.cap I.cap }
  have hsub : ∀ s e, m1.ent s = some e → m.ent s = some e := by
    intro s e he
    simp only [m1, foldl_erase_ent] at he
    split at he
    · cases he
    · exact he
  have hm1 : Mid (fun _ => False) m1 := by
    refine ⟨hinv.sorted, ?_, ?_, ?_⟩
    · intro s e he hp; exact hinv.pw s e (hsub s e he) hp
    · intro s e he hs hn; exact hinv.cov s e (hsub s e he) hs hn
    · intro s e he
      have := hinv.capOk s e (hsub s e he)
      simp only [m1]; omega
  have ha1 : Armed I.now m1 := by
    intro x hx
    have := hinv.armed x hx
    have := henv.noskip this.1
    simp only [m1]; omega
  have hm2 := foldl_notify_mid I.now I.notified m1 hm1
  have ha2 := foldl_notify_armed I.now I.notified m1 ha1
  unfold upstream
  simp only
  split
  · refine ⟨⟨hm2.sorted, hm2.pw, hm2.cov, hm2.capOk⟩, ?_⟩
    intro x hx
    simp only at hx ⊢
    rw [schedNode_now]
    have := ha2 x hx
    omega
  · exact ⟨hm2, ha2⟩

/-! ### reconcile -/

theorem removeEntry_mid {P : Nat → Prop} (r : Rec κ σ ο ε) (s : Nat) (h : Mid P r.m) : Mid P (removeEntry r s).m := by
  unfold removeEntry
  cases he : r.m.ent s with
  | none => exact h
  | some e =>
    simp only
    refine ⟨h.sorted, ?_, ?_, ?_⟩
    · intro s' e' he' hp
      simp only at he' ⊢
      by_cases hs : s' = s
      · subst hs; simp at he'; subst he'; simp [stopE] at hp
      · rw [setEnt_other _ _ _ _ hs] at he'; exact h.pw s' e' he' hp
    · intro s' e' he' hst' hn'
      simp only at he' ⊢
      by_cases hs : s' = s
      · subst hs; simp at he'; subst he'; simp [stopE] at hst'
      · rw [setEnt_other _ _ _ _ hs] at he'; exact h.cov s' e' he' hst' hn'
    · intro s' e' he'
      simp only at he' ⊢
      by_cases hs : s' = s
      · subst hs; exact h.capOk s' e he
      · rw [setEnt_other _ _ _ _ hs] at he'; exact h.capOk s' e' he'

theorem foldl_removeEntry_mid {P : Nat → Prop} (l : List Nat) (r : Rec κ σ ο ε) (h : Mid P r.m) :
    Mid P (l.foldl removeEntry r).m := by
  induction l generalizing r with
  | nil => exact h
  | cons a as ih => exact ih _ (removeEntry_mid r a h)

theorem removeEntry_ent (r : Rec κ σ ο ε) (s i : Nat) :
    (removeEntry r s).m.ent i = if i = s then (r.m.ent i).map stopE else r.m.ent i := by
  unfold removeEntry
  cases he : r.m.ent s with
  | none =>
    by_cases h : i = s
    · subst h; simp [he]
    · simp [h]
  | some e =>
    by_cases h : i = s
    · subst h; simp [he]
    · simp [h, setEnt_other _ _ _ _ h]

theorem removeEntry_cap (r : Rec κ σ ο ε) (s : Nat) : (removeEntry r s).m.cap = r.m.cap := by
  unfold removeEntry; cases r.m.ent s <;> rfl

theorem stopE_stopE (e : Entry κ σ ο ε) : stopE (stopE e) = stopE e := rfl

theorem foldl_removeEntry_ent (l : List Nat) (r : Rec κ σ ο ε) (i : Nat) :
    (l.foldl removeEntry r).m.ent i = if i ∈ l then (r.m.ent i).map stopE else r.m.ent i := by
  induction l generalizing r with
  | nil => simp
  | cons a as ih =>
    simp only [List.foldl_cons, ih, removeEntry_ent, List.mem_cons]
    by_cases h1 : i = a <;> by_cases h2 : i ∈ as <;> simp [h1, h2]
    all_goals (try (intros; cases r.m.ent a <;> simp [Function.comp, stopE_stopE]))

theorem foldl_removeEntry_cap (l : List Nat) (r : Rec κ σ ο ε) : (l.foldl removeEntry r).m.cap = r.m.cap := by
  induction l generalizing r with
  | nil => rfl
  | cons a as ih => simp only [List.foldl_cons, ih, removeEntry_cap]

/-- after `remove_all_entries` nothing is started -/
theorem removeAll_stopped (r : Rec κ σ ο ε) (hc : CapOk r.m.ent r.m.cap) :
    ∀ s e, (removeAll r).m.ent s = some e → e.started = false := by
  intro s e he
  unfold removeAll at he
  rw [foldl_removeEntry_ent] at he
  split at he
  · cases h : r.m.ent s with
    | none => rw [h] at he; cases he
    | some e0 => rw [h] at he; simp at he; subst he; rfl
  · rename_i hn
    exfalso
    have := hc s e he
    exact hn (List.mem_range.mpr this)

theorem clampStart_ge (now n : Time) : clampStart now n = MAX_DT ∨ now ≤ clampStart now n := by
  unfold clampStart; split
  · right; assumption
  · left; rfl

/-- the two outcomes of `create_entry_at_slot` -/
theorem createEntry_cases (B : Beh κ σ ι ο ε) (I : CycleIn κ ι) (r : Rec κ σ ο ε) (sk : Nat × κ) :
    ((∃ e, r.m.ent sk.1 = some e ∧ e.started = true) ∧
      createEntry B I r sk = { r with m := { r.m with cap := max r.m.cap (sk.1 + 1) } }) ∨
    ((∀ e, r.m.ent sk.1 = some e → e.started = false) ∧
      createEntry B I r sk =
        { m := if (createE B I sk.2 (r.m.ent sk.1)).next = I.now then
                 { r.m with cap := max r.m.cap (sk.1 + 1)
                            ent := setEnt r.m.ent sk.1 (some (createE B I sk.2 (r.m.ent sk.1)))
                            heap := heapPush r.m.heap ⟨I.now, sk.1, false⟩
                            ps := schedNode r.m.ps I.now I.now }
               else { r.m with cap := max r.m.cap (sk.1 + 1)
                               ent := setEnt r.m.ent sk.1 (some (createE B I sk.2 (r.m.ent sk.1))) }
          out := { r.out with startedK := r.out.startedK ++ [(createE B I sk.2 (r.m.ent sk.1)).key], touched := true } }) := by
  unfold createEntry
  cases he : r.m.ent sk.1 with
  | none => right; exact ⟨(by intro e h; cases h), (by simp [he])⟩
  | some e0 =>
    cases hs : e0.started with
    | true => left; exact ⟨⟨e0, rfl, hs⟩, by simp [he, hs]⟩
    | false => right; exact ⟨(by intro e h; cases h; exact hs), (by simp [he, hs])⟩

theorem createE_pw (B : Beh κ σ ι ο ε) (I : CycleIn κ ι) (k : κ) (o : Option (Entry κ σ ο ε))
    (h : ∀ e, o = some e → e.started = false) : (createE B I k o).pulledWhen = MAX_DT := by
  unfold createE
  cases o with
  | none => rfl
  | some e0 => simp [h e0 rfl, freshE]

theorem createE_started (B : Beh κ σ ι ο ε) (I : CycleIn κ ι) (k : κ) (o : Option (Entry κ σ ο ε)) :
    (createE B I k o).started = true := by
  unfold createE
  cases o with
  | none => rfl
  | some e0 => by_cases h : e0.started = true <;> simp [h, freshE]

theorem createEntry_mid {P : Nat → Prop} (B : Beh κ σ ι ο ε) (I : CycleIn κ ι) (r : Rec κ σ ο ε) (sk : Nat × κ)
    (h : Mid P r.m) : Mid (fun s => P s ∨ s = sk.1) (createEntry B I r sk).m := by
  have hweak : CovOr (fun s => P s ∨ s = sk.1) 0 r.m.ent r.m.heap := h.cov.mono (fun _ hp => Or.inl hp) (fun _ hx => hx)
  rcases createEntry_cases B I r sk with ⟨_, heq⟩ | ⟨hns, heq⟩
  · -- already started: only the capacity grows
    rw [heq]
    refine ⟨h.sorted, h.pw, hweak, ?_⟩
    intro s e he; have := h.capOk s e he; simp only at he ⊢; omega
  · -- a new / restarted entry
    rw [heq]
    have hcap : CapOk (setEnt r.m.ent sk.1 (some (createE B I sk.2 (r.m.ent sk.1)))) (max r.m.cap (sk.1 + 1)) := by
      intro s e he
      by_cases hs : s = sk.1
      · subst hs; omega
      · rw [setEnt_other _ _ _ _ hs] at he; have := h.capOk s e he; omega
    have hpwE := createE_pw B I sk.2 (r.m.ent sk.1) hns
    have hpw : ∀ heap', (∀ x ∈ r.m.heap, x ∈ heap') →
        PW (setEnt r.m.ent sk.1 (some (createE B I sk.2 (r.m.ent sk.1)))) heap' := by
      intro heap' hsub s e he hp
      by_cases hs : s = sk.1
      · subst hs; simp at he; subst he; exact absurd hpwE hp
      · rw [setEnt_other _ _ _ _ hs] at he; exact hsub _ (h.pw s e he hp)
    have hcov : ∀ heap', (∀ x ∈ r.m.heap, x ∈ heap') →
        CovOr (fun s => P s ∨ s = sk.1) 0 (setEnt r.m.ent sk.1 (some (createE B I sk.2 (r.m.ent sk.1)))) heap' := by
      intro heap' hsub s e he hst hn
      by_cases hs : s = sk.1
      · exact Or.inl (Or.inr hs)
      · rw [setEnt_other _ _ _ _ hs] at he
        rcases h.cov s e he hst hn with hp | ⟨x, hx, r'⟩
        · exact Or.inl (Or.inl hp)
        · exact Or.inr ⟨x, hsub x hx, r'⟩
    simp only
    split
    · exact ⟨heapPush_sorted _ h.sorted, hpw _ (fun x hx => mem_heapPush.mpr (Or.inr hx)),
             hcov _ (fun x hx => mem_heapPush.mpr (Or.inr hx)), hcap⟩
    · exact ⟨h.sorted, hpw _ (fun _ hx => hx), hcov _ (fun _ hx => hx), hcap⟩

theorem foldl_createEntry_mid {P : Nat → Prop} (B : Beh κ σ ι ο ε) (I : CycleIn κ ι) (l : List (Nat × κ))
    (r : Rec κ σ ο ε) (h : Mid P r.m) :
    Mid (fun s => P s ∨ s ∈ l.map (·.1)) (l.foldl (createEntry B I) r).m := by
  induction l generalizing r P with
  | nil =>
    simp only [List.foldl_nil, List.map_nil, List.not_mem_nil, or_false]
    exact h
  | cons a as ih =>
    have h1 := createEntry_mid B I r a h
    have h2 := ih _ h1
    refine ⟨h2.sorted, h2.pw, h2.cov.mono ?_ (fun _ hx => hx), h2.capOk⟩
    intro s hs
    simp only [List.map_cons, List.mem_cons]
    rcases hs with (hp | he) | hm
    · exact Or.inl hp
    · exact Or.inr (Or.inl he)
    · exact Or.inr (Or.inr hm)

/-- slots whose coverage `reconcile` leaves to the candidate set -/
def Prec (m : M κ σ ο ε) (I : CycleIn κ ι) (s : Nat) : Prop :=
  m.primed = false ∨ (I.keysValid = true ∧ I.keysModified = true ∧ s ∈ I.added.map (·.1))

theorem mid_of_all_stopped {P : Nat → Prop} {m : M κ σ ο ε} (hs : HSorted m.heap) (hp : PW m.ent m.heap)
    (hc : CapOk m.ent m.cap) (h : ∀ s e, m.ent s = some e → e.started = false) : Mid P m := by
  refine ⟨hs, hp, ?_, hc⟩
  intro s e he hst _
  rw [h s e he] at hst; cases hst

theorem removeAll_mid {P Q : Nat → Prop} (r : Rec κ σ ο ε) (h : Mid P r.m) : Mid Q (removeAll r).m := by
  have h1 : Mid P (removeAll r).m := foldl_removeEntry_mid _ r h
  exact mid_of_all_stopped h1.sorted h1.pw h1.capOk (removeAll_stopped r h.capOk)

theorem reconcile_mid (B : Beh κ σ ι ο ε) (I : CycleIn κ ι) (r : Rec κ σ ο ε) (h : Mid (fun _ => False) r.m) :
    Mid (Prec r.m I) (reconcile B I r).m := by
  unfold reconcile
  split
  · -- keys not valid: everything is stopped
    have h1 : Mid (Prec r.m I) (removeAll r).m := removeAll_mid r h
    exact ⟨h1.sorted, h1.pw, h1.cov, h1.capOk⟩
  · have h0 : Mid (fun _ => False) ({ r with m := { r.m with cap := max r.m.cap I.cap } } : Rec κ σ ο ε).m := by
      refine ⟨h.sorted, h.pw, h.cov, ?_⟩
      intro s e he; have := h.capOk s e he; simp only; omega
    simp only
    split
    · rename_i hpr
      have hpr' : r.m.primed = false := by simpa using hpr
      have h1 : Mid (fun _ => False) (removeAll ({ r with m := { r.m with cap := max r.m.cap I.cap } } : Rec κ σ ο ε)).m :=
        removeAll_mid _ h0
      have h2 := foldl_createEntry_mid B I I.live _ h1
      refine ⟨h2.sorted, h2.pw, h2.cov.mono (fun _ _ => Or.inl hpr') (fun _ hx => hx), h2.capOk⟩
    · split
      · rename_i hkm
        have hkv : I.keysValid = true := by
          rename_i hkv _; simpa using hkv
        have h1 := foldl_removeEntry_mid I.removed _ h0
        have h2 := foldl_createEntry_mid B I I.added _ h1
        refine ⟨h2.sorted, h2.pw, h2.cov.mono ?_ (fun _ hx => hx), h2.capOk⟩
        intro s hs
        rcases hs with hf | hm
        · exact absurd hf id
        · exact Or.inr ⟨hkv, hkm, hm⟩
      · exact ⟨h0.sorted, h0.pw, h0.cov.mono (fun _ hf => absurd hf id) (fun _ hx => hx), h0.capOk⟩

/-! ### the loop -/

/-- invariant of the evaluation loop; `todo` are the slots still to be visited -/
structure LoopInv (now : Time) (todo : List Nat) (m : M κ σ ο ε) : Prop where
  sorted : HSorted m.heap
  pw : PW m.ent m.heap
  capOk : CapOk m.ent m.cap
  /-- due entries that appear after the first drain are observed ones -/
  low : ∀ x ∈ m.heap, x.when ≤ now → x.pulled = false
  cov : CovOr (· ∈ todo) (now + 1) m.ent m.heap

theorem childEval_pw (B : Beh κ σ ι ο ε) (c : Bool) (I : CycleIn κ ι) (e : Entry κ σ ο ε) :
    (childEval B c I e).e.pulledWhen = e.pulledWhen := by
  unfold childEval
  by_cases h : e.next ≤ I.now
  · simp only [h, if_true]
    generalize B.step e.key I.now (I.input e.key) e.st = sr
    cases hs : sr.err with
    | none => rfl
    | some x => cases c <;> rfl
  · simp only [h, if_false]

theorem childEval_started (B : Beh κ σ ι ο ε) (c : Bool) (I : CycleIn κ ι) (e : Entry κ σ ο ε) :
    (childEval B c I e).e.started = e.started := by
  unfold childEval
  by_cases h : e.next ≤ I.now
  · simp only [h, if_true]
    generalize B.step e.key I.now (I.input e.key) e.st = sr
    cases hs : sr.err with
    | none => rfl
    | some x => cases c <;> rfl
  · simp only [h, if_false]

theorem childEval_key (B : Beh κ σ ι ο ε) (c : Bool) (I : CycleIn κ ι) (e : Entry κ σ ο ε) :
    (childEval B c I e).e.key = e.key := by
  unfold childEval
  by_cases h : e.next ≤ I.now
  · simp only [h, if_true]
    generalize B.step e.key I.now (I.input e.key) e.st = sr
    cases hs : sr.err with
    | none => rfl
    | some x => cases c <;> rfl
  · simp only [h, if_false]

theorem clampFuture_cases (now n : Time) : clampFuture now n = MAX_DT ∨ now < clampFuture now n := by
  unfold clampFuture; split
  · right; assumption
  · left; rfl

/-- after a (possible) evaluation that did not escape, the child's next time is in the future -/
theorem childEval_next (B : Beh κ σ ι ο ε) (c : Bool) (I : CycleIn κ ι) (e : Entry κ σ ο ε)
    (hok : (childEval B c I e).ok = true) :
    (childEval B c I e).e.next = MAX_DT ∨ I.now < (childEval B c I e).e.next := by
  unfold childEval at hok ⊢
  by_cases h : e.next ≤ I.now
  · simp only [h, if_true] at hok ⊢
    generalize B.step e.key I.now (I.input e.key) e.st = sr at hok ⊢
    cases hs : sr.err with
    | none => simp only [hs]; exact clampFuture_cases _ _
    | some x =>
      cases c with
      | false => simp [hs] at hok
      | true => simp only [hs]; exact clampFuture_cases _ _
  · simp only [h, if_false]; right; omega

theorem pushPulled_strip (heap : List HE) (e : Entry κ σ ο ε) (s : Nat) (w : Time) :
    strip (pushPulled heap e s w).1 = strip e := by
  unfold pushPulled; split <;> rfl

theorem pull_strip (now : Time) (heap : List HE) (e : Entry κ σ ο ε) (s : Nat) :
    strip (pull now heap e s).1 = strip e := by
  unfold pull; split
  · exact pushPulled_strip _ _ _ _
  · rfl

theorem pull_heap_sub (now : Time) (heap : List HE) (e : Entry κ σ ο ε) (s : Nat) :
    ∀ x ∈ heap, x ∈ (pull now heap e s).2 := by
  intro x hx
  unfold pull pushPulled
  split
  · split
    · exact hx
    · exact mem_heapPush.mpr (Or.inr hx)
  · exact hx

theorem pull_heap_new (now : Time) (heap : List HE) (e : Entry κ σ ο ε) (s : Nat) :
    ∀ x ∈ (pull now heap e s).2, x ∈ heap ∨ (x = ⟨e.next, s, true⟩ ∧ now < e.next) := by
  intro x hx
  unfold pull pushPulled at hx
  split at hx
  · rename_i h
    split at hx
    · exact Or.inl hx
    · rcases mem_heapPush.mp hx with h' | h'
      · exact Or.inr ⟨h', h.2⟩
      · exact Or.inl h'
  · exact Or.inl hx

theorem pull_sorted (now : Time) (heap : List HE) (e : Entry κ σ ο ε) (s : Nat) (h : HSorted heap) :
    HSorted (pull now heap e s).2 := by
  unfold pull pushPulled
  split
  · split
    · exact h
    · exact heapPush_sorted _ h
  · exact h

/-- after the pull the entry's own `pulled_when` names a heap entry -/
theorem pull_pw (now : Time) (heap : List HE) (e : Entry κ σ ο ε) (s : Nat)
    (h : e.pulledWhen ≠ MAX_DT → (⟨e.pulledWhen, s, true⟩ : HE) ∈ heap) :
    (pull now heap e s).1.pulledWhen ≠ MAX_DT →
      (⟨(pull now heap e s).1.pulledWhen, s, true⟩ : HE) ∈ (pull now heap e s).2 := by
  unfold pull pushPulled
  split
  · rename_i hn
    split
    · rename_i heq
      intro hp; exact h hp
    · intro _; exact mem_heapPush.mpr (Or.inl rfl)
  · intro hp; exact absurd rfl hp

/-- after the pull a pending future wake-up is covered by a valid, future heap entry -/
theorem pull_cov (now : Time) (heap : List HE) (e : Entry κ σ ο ε) (s : Nat)
    (h : e.pulledWhen ≠ MAX_DT → (⟨e.pulledWhen, s, true⟩ : HE) ∈ heap)
    (hn : e.next = MAX_DT ∨ now < e.next) (hlt : e.next < MAX_DT) :
    ∃ x ∈ (pull now heap e s).2, x.slot = s ∧ now + 1 ≤ x.when ∧ x.when ≤ (pull now heap e s).1.next ∧
      ValidFor (pull now heap e s).1 x := by
  have hfut : now < e.next := by rcases hn with h1 | h1 <;> omega
  have hne : e.next ≠ MAX_DT := by omega
  unfold pull pushPulled
  rw [if_pos ⟨hne, hfut⟩]
  split
  · rename_i heq
    refine ⟨⟨e.next, s, true⟩, ?_, rfl, by simp only; omega, Nat.le_refl _, Or.inr heq⟩
    rw [← heq]; exact h (by rw [heq]; exact hne)
  · exact ⟨⟨e.next, s, true⟩, mem_heapPush.mpr (Or.inl rfl), rfl, by simp only; omega, Nat.le_refl _, Or.inr rfl⟩

theorem evalSlot_ok_mono (B : Beh κ σ ι ο ε) (c : Bool) (I : CycleIn κ ι) (r : Rec κ σ ο ε) (s : Nat)
    (h : (evalSlot B c I r s).out.ok = true) : r.out.ok = true := by
  unfold evalSlot at h
  cases hr : r.out.ok with
  | true => rfl
  | false => simp [hr] at h

theorem foldl_evalSlot_ok_mono (B : Beh κ σ ι ο ε) (c : Bool) (I : CycleIn κ ι) (l : List Nat) (r : Rec κ σ ο ε)
    (h : (l.foldl (evalSlot B c I) r).out.ok = true) : r.out.ok = true := by
  induction l generalizing r with
  | nil => exact h
  | cons a as ih => exact evalSlot_ok_mono B c I r a (ih _ h)

/-- the state the loop body works on after the optional late notification -/
theorem late_state (now : Time) (late : Bool) (m : M κ σ ο ε) (s : Nat) (e0 : Entry κ σ ο ε)
    (he : m.ent s = some e0) (hst : e0.started = true) :
    let m0 := if late then notify now m s else m
    let e := if late then notifyE now e0 else e0
    m0.ent s = some e ∧ (∀ s', s' ≠ s → m0.ent s' = m.ent s') ∧
    (∀ x, x ∈ m0.heap ↔ x ∈ m.heap ∨ (late = true ∧ x = ⟨now, s, false⟩)) ∧
    (HSorted m.heap → HSorted m0.heap) ∧ m0.cap = m.cap ∧ e.pulledWhen = e0.pulledWhen ∧ e.started = true ∧
    strip e = (if late then notifyE now (strip e0) else strip e0) := by
  cases late with
  | false => simp [he, hst]
  | true =>
    simp only [if_true]
    rcases notify_cases now m s with heq | ⟨e, he', _, heq⟩
    · exfalso
      unfold notify at heq
      rw [he] at heq
      simp [hst] at heq
      have := congrArg (fun m => m.ent s) heq
      simp at this
      have h2 := congrArg M.heap heq
      simp at h2
      have : (⟨now, s, false⟩ : HE) ∈ heapPush m.heap ⟨now, s, false⟩ := mem_heapPush.mpr (Or.inl rfl)
      rw [h2] at this
      -- the heap would have to contain itself plus one: compare lengths
      have hl : ∀ (l : List HE) (x : HE), (heapPush l x).length = l.length + 1 := by
        intro l x; induction l with
        | nil => simp [heapPush]
        | cons y ys ih => unfold heapPush; split <;> simp [ih]
      have := congrArg List.length h2
      rw [hl] at this
      omega
    · rw [he] at he'; cases he'
      rw [heq]
      refine ⟨by simp, ?_, ?_, ?_, rfl, rfl, hst, rfl⟩
      · intro s' hs; simp [setEnt_other _ _ _ _ hs]
      · intro x; simp only; rw [mem_heapPush]; constructor
        · rintro (h | h)
          · exact Or.inr ⟨by trivial, h⟩
          · exact Or.inl h
        · rintro (h | ⟨_, h⟩)
          · exact Or.inr h
          · exact Or.inl h
      · intro h; exact heapPush_sorted _ h

theorem evalStarted_loop (B : Beh κ σ ι ο ε) (c : Bool) (I : CycleIn κ ι) (r : Rec κ σ ο ε) (s : Nat)
    (e0 : Entry κ σ ο ε) (todo : List Nat) (he : r.m.ent s = some e0) (hst : e0.started = true)
    (h : LoopInv I.now (s :: todo) r.m) (hok : (evalStarted B c I r s e0).out.ok = true) :
    LoopInv I.now todo (evalStarted B c I r s e0).m := by
  obtain ⟨hm0s, hm0o, hm0h, hm0sorted, hm0cap, hepw, hest, _⟩ := late_state I.now (I.late.contains s) r.m s e0 he hst
  unfold evalStarted at hok ⊢
  simp only at hm0s hm0o hm0h hm0sorted hm0cap hepw hest hok ⊢
  generalize hm0 : (if I.late.contains s = true then notify I.now r.m s else r.m) = m0 at *
  generalize hee : (if I.late.contains s = true then notifyE I.now e0 else e0) = e at *
  have hcok : (childEval B c I e).ok = true := by
    cases hc : (childEval B c I e).ok with
    | true => rfl
    | false => simp [hc] at hok
  simp only [hcok, Bool.not_true, Bool.false_eq_true, if_false]
  -- facts about the evaluated entry
  have hcpw := childEval_pw B c I e
  have hcst := childEval_started B c I e
  have hcn := childEval_next B c I e hcok
  generalize (childEval B c I e).e = ce at *
  have hpwe : ce.pulledWhen ≠ MAX_DT → (⟨ce.pulledWhen, s, true⟩ : HE) ∈ m0.heap := by
    intro hp
    rw [hcpw, hepw] at hp ⊢
    exact (hm0h _).mpr (Or.inl (h.pw s e0 he hp))
  refine ⟨pull_sorted _ _ _ _ (hm0sorted h.sorted), ?_, ?_, ?_, ?_⟩
  · -- PW
    intro s' e' he' hp
    simp only at he' ⊢
    by_cases hs : s' = s
    · subst hs; simp at he'; subst he'
      exact pull_pw _ _ _ _ hpwe hp
    · rw [setEnt_other _ _ _ _ hs, hm0o s' hs] at he'
      exact pull_heap_sub _ _ _ _ _ ((hm0h _).mpr (Or.inl (h.pw s' e' he' hp)))
  · -- CapOk
    intro s' e' he'
    simp only at he' ⊢
    rw [hm0cap]
    by_cases hs : s' = s
    · subst hs; exact h.capOk s' e0 he
    · rw [setEnt_other _ _ _ _ hs, hm0o s' hs] at he'; exact h.capOk s' e' he'
  · -- low
    intro x hx hw
    simp only at hx
    rcases pull_heap_new _ _ _ _ x hx with hx | ⟨_, hf⟩
    · rcases (hm0h x).mp hx with hx | ⟨_, rfl⟩
      · exact h.low x hx hw
      · rfl
    · exfalso
      rename_i heq
      rw [heq] at hw; simp only at hw; omega
  · -- coverage
    intro s' e' he' hst' hn'
    simp only at he' ⊢
    by_cases hs : s' = s
    · subst hs; simp at he'; subst he'
      right
      rw [show (pull I.now m0.heap ce s').1.next = ce.next from by
        have := congrArg Entry.next (pull_strip I.now m0.heap ce s'); simpa using this] at hn'
      exact pull_cov _ _ _ _ hpwe hcn hn'
    · rw [setEnt_other _ _ _ _ hs, hm0o s' hs] at he'
      rcases h.cov s' e' he' hst' hn' with hp | ⟨x, hx, r'⟩
      · left
        rcases List.mem_cons.mp hp with h1 | h1
        · exact absurd h1 hs
        · exact h1
      · exact Or.inr ⟨x, pull_heap_sub _ _ _ _ _ ((hm0h _).mpr (Or.inl hx)), r'⟩

theorem evalSlot_loop (B : Beh κ σ ι ο ε) (c : Bool) (I : CycleIn κ ι) (r : Rec κ σ ο ε) (s : Nat)
    (todo : List Nat) (h : LoopInv I.now (s :: todo) r.m) (hok : (evalSlot B c I r s).out.ok = true) :
    LoopInv I.now todo (evalSlot B c I r s).m := by
  have hweak : ∀ (hns : ∀ e, r.m.ent s = some e → e.started = false), LoopInv I.now todo r.m := by
    intro hns
    refine ⟨h.sorted, h.pw, h.capOk, h.low, ?_⟩
    intro s' e' he' hst' hn'
    rcases h.cov s' e' he' hst' hn' with hp | hx
    · rcases List.mem_cons.mp hp with h1 | h1
      · subst h1; rw [hns e' he'] at hst'; cases hst'
      · exact Or.inl h1
    · exact Or.inr hx
  have hrok := evalSlot_ok_mono B c I r s hok
  unfold evalSlot at hok ⊢
  simp only [hrok, Bool.not_true, Bool.false_eq_true, if_false] at hok ⊢
  cases he : r.m.ent s with
  | none => exact hweak (by intro e h'; rw [he] at h'; cases h')
  | some e0 =>
    simp only [he] at hok ⊢
    cases hst : e0.started with
    | false =>
      simp only [hst, Bool.not_false, if_true]
      exact hweak (by intro e h'; rw [he] at h'; cases h'; exact hst)
    | true =>
      simp only [hst, Bool.not_true, Bool.false_eq_true, if_false] at hok ⊢
      exact evalStarted_loop B c I r s e0 todo he hst h hok

theorem foldl_evalSlot_loop (B : Beh κ σ ι ο ε) (c : Bool) (I : CycleIn κ ι) (l : List Nat) (r : Rec κ σ ο ε)
    (h : LoopInv I.now l r.m) (hok : (l.foldl (evalSlot B c I) r).out.ok = true) :
    LoopInv I.now [] (l.foldl (evalSlot B c I) r).m := by
  induction l generalizing r with
  | nil => exact h
  | cons a as ih =>
    have hok1 := foldl_evalSlot_ok_mono B c I as _ hok
    exact ih _ (evalSlot_loop B c I r a as h hok1) hok

/-! ### candidates -/

theorem foldl_addCand_mono (ent : Nat → Option (Entry κ σ ο ε)) (l : List Nat) (c : List Nat) :
    ∀ s ∈ c, s ∈ l.foldl (addCand ent) c := by
  induction l generalizing c with
  | nil => intro s hs; exact hs
  | cons a as ih =>
    intro s hs
    simp only [List.foldl_cons]
    apply ih
    unfold addCand; split
    · exact List.mem_cons_of_mem _ hs
    · exact hs

theorem foldl_addCand_mem (ent : Nat → Option (Entry κ σ ο ε)) (l : List Nat) (c : List Nat) (s : Nat)
    (hs : s ∈ l) (he : (ent s).isSome = true) : s ∈ l.foldl (addCand ent) c := by
  induction l generalizing c with
  | nil => cases hs
  | cons a as ih =>
    simp only [List.foldl_cons]
    rcases List.mem_cons.mp hs with rfl | hs
    · apply foldl_addCand_mono
      unfold addCand; simp [he]
    · exact ih _ hs

theorem prepare_loop (m : M κ σ ο ε) (I : CycleIn κ ι) (wp : Bool)
    (h : Mid (fun s => wp = false ∨ (I.keysValid = true ∧ I.keysModified = true ∧ s ∈ I.added.map (·.1))) m) :
    LoopInv I.now (prepare m I wp).2 (prepare m I wp).1 := by
  unfold prepare
  simp only
  generalize hd : drainDue I.now m.heap m.ent (preCands m I) = d
  have hsorted : HSorted d.heap := by rw [← hd]; exact drainDue_sorted _ _ _ _ h.sorted
  have hfut : ∀ x ∈ d.heap, I.now < x.when := by rw [← hd]; exact drainDue_future _ _ _ _ h.sorted
  have hpw : PW d.ent d.heap := by rw [← hd]; exact drainDue_pw _ _ _ _ h.pw
  have hent : ∀ s, d.ent s = m.ent s ∨ (s ∈ d.cand ∧ ∃ e, m.ent s = some e ∧ d.ent s = some { e with pulledWhen := MAX_DT }) := by
    intro s; rw [← hd]; exact drainDue_ent _ _ _ _ s
  have hsome : ∀ s e', d.ent s = some e' → ∃ e, m.ent s = some e := by
    intro s e' he'
    rcases hent s with h1 | ⟨_, e, he, _⟩
    · exact ⟨e', by rw [← h1]; exact he'⟩
    · exact ⟨e, he⟩
  -- a slot in the drained candidate list that holds an entry is in the materialised list
  have hslots : ∀ s e', d.ent s = some e' → s ∈ d.cand →
      s ∈ (List.range m.cap).filter (fun s =>
        (if fullScan I wp = true then (List.range m.cap).foldl (addCand d.ent) d.cand else d.cand).contains s) := by
    intro s e' he' hc
    obtain ⟨e, he⟩ := hsome s e' he'
    have hlt := h.capOk s e he
    apply List.mem_filter.mpr
    refine ⟨List.mem_range.mpr hlt, ?_⟩
    simp only [List.contains_iff_mem]
    split
    · exact foldl_addCand_mono _ _ _ s hc
    · exact hc
  refine ⟨hsorted, hpw, ?_, ?_, ?_⟩
  · intro s e' he'
    obtain ⟨e, he⟩ := hsome s e' he'
    exact h.capOk s e he
  · intro x hx hw
    have := hfut x hx; omega
  · intro s e' he' hst' hn'
    simp only at he'
    rcases hent s with h1 | ⟨hc, e, he, h2⟩
    · -- the drain left the entry alone
      rw [h1] at he'
      rcases h.cov s e' he' hst' hn' with hp | ⟨x, hx, hsl, _, hle, hv⟩
      · left
        rcases hp with hwp | ⟨hkv, hkm, hadd⟩
        · -- not primed before: full scan
          have hlt := h.capOk s e' he'
          apply List.mem_filter.mpr
          refine ⟨List.mem_range.mpr hlt, ?_⟩
          simp only [List.contains_iff_mem]
          have hfs : fullScan I wp = true := by simp [fullScan, hwp]
          rw [if_pos hfs]
          apply foldl_addCand_mem _ _ _ _ (List.mem_range.mpr hlt)
          rw [h1, he']; rfl
        · -- an added slot
          apply hslots s e' (by rw [h1]; exact he')
          rw [← hd]
          apply drainDue_cand_mono
          unfold preCands
          simp only [hkv, hkm, Bool.and_self, if_true]
          apply foldl_addCand_mono
          exact foldl_addCand_mem _ _ _ _ hadd (by rw [he']; rfl)
      · by_cases hdue : x.when ≤ I.now
        · left
          apply hslots s e' (by rw [h1]; exact he')
          rw [← hd, ← hsl]
          exact drainDue_pops _ _ _ _ h.sorted x hx hdue e' (by rw [hsl]; exact he') hv
        · right
          refine ⟨x, ?_, hsl, by omega, hle, hv⟩
          rw [← hd]; exact drainDue_keeps _ _ _ _ x hx (by omega)
    · left
      exact hslots s e' he' hc

/-! ### the end of the evaluation and the whole cycle -/

theorem rearm_heap (now : Time) (m : M κ σ ο ε) : (rearm now m).heap = m.heap := by
  unfold rearm; split <;> rfl
theorem rearm_ent (now : Time) (m : M κ σ ο ε) : (rearm now m).ent = m.ent := by
  unfold rearm; split <;> rfl
theorem rearm_cap (now : Time) (m : M κ σ ο ε) : (rearm now m).cap = m.cap := by
  unfold rearm; split <;> rfl

theorem rearm_armed (now : Time) (m : M κ σ ο ε) (hs : HSorted m.heap) (hf : ∀ x ∈ m.heap, now < x.when) :
    ∀ x ∈ (rearm now m).heap, now < (rearm now m).ps ∧ (rearm now m).ps ≤ x.when := by
  unfold rearm
  cases hh : m.heap with
  | nil => intro x hx; simp [hh] at hx
  | cons y ys =>
    intro x hx
    simp only [hh] at hx ⊢
    have hy : now < y.when := hf y (by rw [hh]; exact List.mem_cons_self)
    have hxy : y.when ≤ x.when := by
      rcases List.mem_cons.mp hx with rfl | hx'
      · exact Nat.le_refl _
      · rw [hh] at hs; exact hs.head_le x hx'
    unfold schedNode
    split <;> omega

theorem evaluate_inv (B : Beh κ σ ι ο ε) (c : Bool) (m : M κ σ ο ε) (I : CycleIn κ ι)
    (h : Mid (fun _ => False) m) (hok : (evaluate B c m I).out.ok = true) :
    Inv I.now (evaluate B c m I).m := by
  unfold evaluate at hok ⊢
  simp only at hok ⊢
  have h1 := reconcile_mid B I { m := m, out := { evaluated := true } } h
  generalize reconcile B I { m := m, out := { evaluated := true } } = r1 at *
  have h2 := prepare_loop r1.m I m.primed (by
    refine ⟨h1.sorted, h1.pw, h1.cov.mono ?_ (fun _ hx => hx), h1.capOk⟩
    intro s hs; exact hs)
  generalize hp : prepare r1.m I m.primed = p at *
  generalize hr2 : p.2.foldl (evalSlot B c I) { r1 with m := p.1 } = r2 at *
  have hr2ok : r2.out.ok = true := by
    cases hc : r2.out.ok with
    | true => rfl
    | false => simp [hc] at hok
  simp only [hr2ok, Bool.not_true, Bool.false_eq_true, if_false]
  have h3 : LoopInv I.now [] r2.m := by
    rw [← hr2]
    exact foldl_evalSlot_loop B c I p.2 _ h2 (by rw [hr2]; exact hr2ok)
  have hent : (drainFinal I.now r2.m.heap r2.m.ent).2 = r2.m.ent := drainFinal_ent _ _ _ h3.low
  have hsub := drainFinal_heap_sub I.now r2.m.heap r2.m.ent
  have hkeep := drainFinal_keeps I.now r2.m.heap r2.m.ent
  have hfut := drainFinal_future I.now r2.m.heap r2.m.ent h3.sorted
  have hsorted := drainFinal_sorted I.now r2.m.heap r2.m.ent h3.sorted
  generalize (drainFinal I.now r2.m.heap r2.m.ent).1 = hp' at *
  refine ⟨?_, ?_, ?_, ?_, ?_, ?_⟩
  · rw [rearm_heap]; exact hsorted
  · rw [rearm_heap]; exact hfut
  · rw [rearm_heap, rearm_ent]
    simp only [hent]
    intro s e he hpw
    have hin := h3.pw s e he hpw
    apply hkeep _ hin
    -- a pulled entry in the loop heap is in the future
    by_cases hlow : e.pulledWhen ≤ I.now
    · have := h3.low _ hin hlow; simp at this
    · simp only; omega
  · rw [rearm_heap, rearm_ent]
    simp only [hent]
    intro s e he hst hn
    rcases h3.cov s e he hst hn with hp | ⟨x, hx, hsl, hlo, hle, hv⟩
    · cases hp
    · exact Or.inr ⟨x, hkeep x hx (by omega), hsl, Nat.zero_le _, hle, hv⟩
  · exact rearm_armed I.now _ hsorted hfut
  · rw [rearm_ent, rearm_cap]
    simp only [hent]
    exact h3.capOk

theorem cycle_inv (B : Beh κ σ ι ο ε) (c : Bool) {t : Time} {m : M κ σ ο ε} {I : CycleIn κ ι}
    (hinv : Inv t m) (henv : EnvOk t m I) (hok : (cycle B c m I).out.ok = true) :
    Inv I.now (cycle B c m I).m := by
  obtain ⟨hmid, harm⟩ := upstream_mid hinv henv
  unfold cycle at hok ⊢
  simp only at hok ⊢
  split
  · rename_i hps
    rw [if_pos hps] at hok
    exact evaluate_inv B c _ I hmid hok
  · rename_i hps
    refine ⟨hmid.sorted, ?_, hmid.pw, hmid.cov, ?_, hmid.capOk⟩
    · intro x hx; have := harm x hx; simp only at hx ⊢; omega
    · intro x hx; have := harm x hx; simp only at hx ⊢; omega

end HgVerif.MapNode
