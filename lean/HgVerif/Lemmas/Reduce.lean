import HgVerif.Model.Reduce
/-!
Helper lemmas for C11 (the reduction tree of `reduce_node.cpp`).

Coordinates.  In a tree of capacity `2^k` the heap position `p` at depth `d` and offset `j` in its
level is `p = 2^d + j - 1` (`j < 2^d`); its height is `h = k - d`, its leaf interval is
`[j * 2^h, (j+1) * 2^h)`.  Leaves are the positions of depth `k`.  Children of `(d, j)` are
`(d+1, 2j)` and `(d+1, 2j+1)`.
-/
namespace HgVerif.Reduce

/-! ## powers of two, `bit_floor`, `bit_width`, shift -/

theorem two_pow_pos' (k : Nat) : 0 < 2 ^ k := Nat.pos_of_ne_zero (by
  intro h; have := Nat.pow_eq_zero.mp h; omega)

theorem log2_level (d j : Nat) (hj : j < 2 ^ d) : (2 ^ d + j).log2 = d := by
  have hne : 2 ^ d + j ≠ 0 := by have := two_pow_pos' d; omega
  rw [Nat.log2_eq_iff hne]
  constructor
  · omega
  · rw [Nat.pow_succ]; omega

theorem bitFloor_level (d j : Nat) (hj : j < 2 ^ d) : bitFloor (2 ^ d + j) = 2 ^ d := by
  have hne : 2 ^ d + j ≠ 0 := by have := two_pow_pos' d; omega
  simp [bitFloor, log2_level d j hj]

theorem bitWidth_pow (d : Nat) : bitWidth (2 ^ d) - 1 = d := by
  have hne : 2 ^ d ≠ 0 := by have := two_pow_pos' d; omega
  simp [bitWidth, Nat.log2_two_pow]

theorem shift_pow (k d : Nat) (h : d ≤ k) : 2 ^ k >>> d = 2 ^ (k - d) := by
  rw [Nat.shiftRight_eq_div_pow, Nat.pow_div h (by omega)]

theorem internalCount_pow (k : Nat) : internalCount (2 ^ k) = 2 ^ k - 1 := by
  unfold internalCount
  have := two_pow_pos' k
  split <;> omega

/-! ## the interval form of `resolve_aggregate` -/

/-- `resolve_aggregate` of a position whose leaf interval is `[first, first + span)` -/
def spec (first span n p : Nat) : Agg :=
  if first ≥ n then .empty
  else
    let lis := min span (n - first)
    if lis = 1 then .leaf first else .node (descend lis p span)

theorem descend_ge (lis pos span : Nat) : pos ≤ descend lis pos span := by
  fun_induction descend lis pos span with
  | case1 pos span h ih => omega
  | case2 pos span h => omega

theorem descend_stop (lis pos span : Nat) (h : ¬ lis ≤ span / 2) : descend lis pos span = pos := by
  rw [descend]; simp [h]

theorem descend_step (lis pos span : Nat) (h : lis ≤ span / 2) (hs : 0 < span) :
    descend lis pos span = descend lis (2 * pos + 1) (span / 2) := by
  rw [descend]; simp [h, hs]

theorem spec_empty_iff (first span n p : Nat) : spec first span n p = .empty ↔ first ≥ n := by
  unfold spec
  constructor
  · intro h
    by_cases hf : first ≥ n
    · exact hf
    · simp only [hf, ↓reduceIte] at h
      split at h <;> cases h
  · intro h; simp [h]

theorem spec_node_ge (first span n p q : Nat) (h : spec first span n p = .node q) : p ≤ q := by
  unfold spec at h
  split at h
  · cases h
  · simp only at h
    split at h
    · cases h
    · injection h with h; rw [← h]; exact descend_ge _ _ _

/-- one level of the tree: a position with interval `[first, first+2s)` either is empty, or passes its
    left child's aggregate through (right interval empty), or is a combine point -/
theorem spec_step (first s n p : Nat) (hs : 0 < s) :
    spec first (2 * s) n p =
      if first ≥ n then .empty else if n ≤ first + s then spec first s n (2 * p + 1) else .node p := by
  unfold spec
  by_cases hf : first ≥ n
  · simp [hf]
  · simp only [hf, ↓reduceIte]
    by_cases hm : n ≤ first + s
    · simp only [hm, ↓reduceIte]
      have h1 : min (2 * s) (n - first) = n - first := by omega
      have h2 : min s (n - first) = n - first := by omega
      rw [h1, h2]
      by_cases hl : n - first = 1
      · simp [hl]
      · simp only [hl, ↓reduceIte]
        rw [descend_step _ _ _ (by omega) (by omega)]
        have : 2 * s / 2 = s := by omega
        rw [this]
    · simp only [hm, ↓reduceIte]
      have h1 : min (2 * s) (n - first) ≠ 1 := by omega
      simp only [h1, ↓reduceIte]
      rw [descend_stop _ _ _ (by omega)]

/-- the closed form of the code is the interval form, at every position of the tree -/
theorem resolveClosed_eq_spec (k d j n : Nat) (hd : d ≤ k) (hj : j < 2 ^ d) :
    resolveClosed (2 ^ k) n (2 ^ d + j - 1) = spec (j * 2 ^ (k - d)) (2 ^ (k - d)) n (2 ^ d + j - 1) := by
  have hk := two_pow_pos' k
  have hdp := two_pow_pos' d
  unfold resolveClosed
  simp only [internalCount_pow]
  by_cases hlt : d < k
  · -- internal position
    have hlt2 : 2 ^ (d + 1) ≤ 2 ^ k := Nat.pow_le_pow_right (by omega) (by omega)
    rw [Nat.pow_succ] at hlt2
    have hint : ¬ (2 ^ d + j - 1 ≥ 2 ^ k - 1) := by omega
    simp only [hint, ↓reduceIte]
    have hp1 : 2 ^ d + j - 1 + 1 = 2 ^ d + j := by omega
    rw [hp1, bitFloor_level d j hj, bitWidth_pow, shift_pow k d hd]
    have hj' : 2 ^ d + j - 2 ^ d = j := by omega
    rw [hj']
    rfl
  · -- leaf position
    have hdk : d = k := by omega
    subst hdk
    have hge : 2 ^ d + j - 1 ≥ 2 ^ d - 1 := by omega
    simp only [hge, ↓reduceIte, Nat.sub_self, Nat.pow_zero, Nat.mul_one]
    have hleaf : 2 ^ d + j - 1 - (2 ^ d - 1) = j := by omega
    rw [hleaf]
    unfold spec
    by_cases hjn : j < n
    · have h1 : ¬ j ≥ n := by omega
      have h2 : min 1 (n - j) = 1 := by omega
      simp [hjn, h1, h2]
    · have h1 : j ≥ n := by omega
      simp [hjn, h1]

/-! ## the recursive definition is the interval form -/

/-- children of `(d, j)` in heap indexing -/
theorem child_left (d j : Nat) : 2 * (2 ^ d + j - 1) + 1 = 2 ^ (d + 1) + 2 * j - 1 := by
  have := two_pow_pos' d
  rw [Nat.pow_succ]; omega

theorem child_right (d j : Nat) : 2 * (2 ^ d + j - 1) + 2 = 2 ^ (d + 1) + (2 * j + 1) - 1 := by
  have := two_pow_pos' d
  rw [Nat.pow_succ]; omega

theorem resolveRec_eq_spec (k n : Nat) : ∀ (h d j : Nat), d + h = k → j < 2 ^ d →
    resolveRec (2 ^ k) n (2 ^ d + j - 1) = spec (j * 2 ^ h) (2 ^ h) n (2 ^ d + j - 1) := by
  intro h
  induction h with
  | zero =>
    intro d j hd hj
    have hdk : d = k := by omega
    subst hdk
    have hdp := two_pow_pos' d
    have hint : ¬ (2 ^ d + j - 1 < internalCount (2 ^ d)) := by rw [internalCount_pow]; omega
    rw [resolveRec, dif_neg hint]
    simp only [internalCount_pow, Nat.pow_zero, Nat.mul_one]
    have hleaf : 2 ^ d + j - 1 - (2 ^ d - 1) = j := by omega
    rw [hleaf]
    unfold spec
    by_cases hjn : j < n
    · have h1 : ¬ j ≥ n := by omega
      have h2 : min 1 (n - j) = 1 := by omega
      simp [hjn, h1, h2]
    · have h1 : j ≥ n := by omega
      simp [hjn, h1]
  | succ h ih =>
    intro d j hd hj
    have hdp := two_pow_pos' d
    have hhp := two_pow_pos' h
    have hlt2 : 2 ^ (d + 1) ≤ 2 ^ k := Nat.pow_le_pow_right (by omega) (by omega)
    have hpow : 2 ^ (d + 1) = 2 * 2 ^ d := by rw [Nat.pow_succ]; omega
    have hint : 2 ^ d + j - 1 < internalCount (2 ^ k) := by rw [internalCount_pow]; omega
    rw [resolveRec]
    simp only [hint, ↓reduceDIte]
    rw [child_left, child_right]
    have hj2 : 2 * j < 2 ^ (d + 1) := by omega
    have hj3 : 2 * j + 1 < 2 ^ (d + 1) := by omega
    rw [ih (d + 1) (2 * j) (by omega) hj2, ih (d + 1) (2 * j + 1) (by omega) hj3]
    have hspan : 2 ^ (h + 1) = 2 * 2 ^ h := by rw [Nat.pow_succ]; omega
    have hfirst : j * (2 * 2 ^ h) = 2 * j * 2 ^ h := by rw [← Nat.mul_assoc, Nat.mul_comm j 2]
    have hfr : (2 * j + 1) * 2 ^ h = 2 * j * 2 ^ h + 2 ^ h := by rw [Nat.add_mul]; simp
    rw [hspan, spec_step _ _ _ _ hhp, hfirst, ← child_left, hfr]
    generalize 2 * j * 2 ^ h = first
    generalize 2 ^ h = s at *
    generalize 2 ^ (d + 1) + (2 * j + 1) - 1 = pr
    generalize 2 * (2 ^ d + j - 1) + 1 = pl
    generalize 2 ^ d + j - 1 = p
    have hle := spec_empty_iff first s n pl
    have hre := spec_empty_iff (first + s) s n pr
    by_cases hf : first ≥ n
    · have hr := hre.mpr (by omega)
      have hl := hle.mpr hf
      simp [hf, hr, hl]
    · simp only [hf, ↓reduceIte]
      by_cases hm : n ≤ first + s
      · have hr := hre.mpr (by omega)
        simp only [hm, ↓reduceIte, hr]
        cases hL : spec first s n pl <;> rfl
      · simp only [hm, ↓reduceIte]
        have hl : spec first s n pl ≠ .empty := fun hc => by have := hle.mp hc; omega
        have hr : spec (first + s) s n pr ≠ .empty := fun hc => by have := hre.mp hc; omega
        cases hL : spec first s n pl <;> cases hR : spec (first + s) s n pr <;> simp_all

/-- every heap position has level coordinates -/
theorem exists_level (p : Nat) : ∃ d j, j < 2 ^ d ∧ p = 2 ^ d + j - 1 := by
  refine ⟨(p + 1).log2, p + 1 - 2 ^ (p + 1).log2, ?_, ?_⟩
  · have h1 := Nat.log2_self_le (n := p + 1) (by omega)
    have h2 := Nat.lt_log2_self (n := p + 1)
    rw [Nat.pow_succ] at h2
    omega
  · have h1 := Nat.log2_self_le (n := p + 1) (by omega)
    omega

theorem level_depth_le (k d j p : Nat) (hp : p < 2 ^ k - 1) (he : p = 2 ^ d + j - 1) : d < k := by
  apply Classical.byContradiction
  intro hc
  have : 2 ^ k ≤ 2 ^ d := Nat.pow_le_pow_right (by omega) (by omega)
  have := two_pow_pos' d
  omega

theorem resolveClosed_eq_resolveRec_pow (k n p : Nat) : resolveClosed (2 ^ k) n p = resolveRec (2 ^ k) n p := by
  by_cases hp : p < 2 ^ k - 1
  · obtain ⟨d, j, hj, he⟩ := exists_level p
    have hd := level_depth_le k d j p hp he
    subst he
    rw [resolveClosed_eq_spec k d j n (by omega) hj, resolveRec_eq_spec k n (k - d) d j (by omega) hj]
  · rw [resolveRec, resolveClosed]
    simp only [internalCount_pow]
    have h1 : p ≥ 2 ^ k - 1 := by omega
    simp [h1, hp]

theorem resolveClosed_eq_resolveRec_zero (n p : Nat) : resolveClosed 0 n p = resolveRec 0 n p := by
  rw [resolveRec, resolveClosed]
  simp [internalCount]

/-! ## folds -/

section Fold
variable {α : Type}

theorem foldl_foldStep_some (f : α → α → α) (a : α) (l : List α) :
    l.foldl (foldStep f) (some a) = some (l.foldl f a) := by
  induction l generalizing a with
  | nil => rfl
  | cons x xs ih => simp [List.foldl, foldStep, ih]

theorem foldOpt_nil (f : α → α → α) : foldOpt f [] = none := rfl

theorem foldOpt_cons (f : α → α → α) (x : α) (l : List α) : foldOpt f (x :: l) = some (l.foldl f x) := by
  simp [foldOpt, List.foldl, foldStep, foldl_foldStep_some]

theorem foldOpt_singleton (f : α → α → α) (x : α) : foldOpt f [x] = some x := by
  simp [foldOpt_cons]

theorem foldl_assoc (f : α → α → α) (hf : ∀ a b c, f (f a b) c = f a (f b c)) (a b : α) (l : List α) :
    l.foldl f (f a b) = f a (l.foldl f b) := by
  induction l generalizing b with
  | nil => rfl
  | cons x xs ih => simp [List.foldl, hf, ih]

/-- an associative combiner: the fold of a concatenation is the combination of the folds -/
theorem foldOpt_append (f : α → α → α) (hf : ∀ a b c, f (f a b) c = f a (f b c)) (l1 l2 : List α) (a b : α)
    (h1 : foldOpt f l1 = some a) (h2 : foldOpt f l2 = some b) : foldOpt f (l1 ++ l2) = some (f a b) := by
  cases l1 with
  | nil => simp [foldOpt_nil] at h1
  | cons x xs =>
    cases l2 with
    | nil => simp [foldOpt_nil] at h2
    | cons y ys =>
      rw [foldOpt_cons] at h1 h2
      injection h1 with h1
      injection h2 with h2
      rw [List.cons_append, foldOpt_cons, List.foldl_append, List.foldl_cons, h1, foldl_assoc f hf, h2]

theorem foldOpt_isSome (f : α → α → α) (l : List α) (h : l ≠ []) : ∃ a, foldOpt f l = some a := by
  cases l with
  | nil => exact absurd rfl h
  | cons x xs => exact ⟨_, foldOpt_cons f x xs⟩

end Fold

/-! ## the value held by the tree -/

section Value
variable {α : Type} (f : α → α → α) (zero : Option α) (cap n : Nat) (live : Nat → Bool) (lv : Nat → Option α)

/-- a live combiner publishes `f left right` of its two child aggregates -/
theorem nodeOut_eq (p : Nat) (hp : p < internalCount cap) (hl : live p = true)
    (h1 : ∀ q, resolveClosed cap n (2 * p + 1) = .node q → p < q)
    (h2 : ∀ q, resolveClosed cap n (2 * p + 2) = .node q → p < q) :
    nodeOut f zero cap n live lv p =
      match aggOut f zero cap n live lv (resolveClosed cap n (2 * p + 1)),
            aggOut f zero cap n live lv (resolveClosed cap n (2 * p + 2)) with
      | some a, some b => some (f a b)
      | _, _ => none := by
  rw [nodeOut]
  simp only [hp, hl, and_self, ↓reduceDIte]
  cases hA : resolveClosed cap n (2 * p + 1) <;> cases hB : resolveClosed cap n (2 * p + 2) <;>
    simp_all [aggOut] <;> rfl

theorem nodeOut_dead (p : Nat) (h : ¬ (p < internalCount cap ∧ live p = true)) :
    nodeOut f zero cap n live lv p = none := by
  rw [nodeOut]; simp [h]

end Value

section Interval
variable {α : Type}

theorem take_one_drop (vs : List α) (j : Nat) (h : j < vs.length) : (vs.drop j).take 1 = [vs[j]] := by
  rw [List.drop_eq_getElem_cons h]; rfl

/-- The aggregate resolved at a position with a non-empty interval is the fold of the combiner over the
    live leaves of that interval, in leaf order. -/
theorem aggOut_interval (f : α → α → α) (hf : ∀ a b c, f (f a b) c = f a (f b c)) (zero : Option α)
    (k : Nat) (live : Nat → Bool) (lv : Nat → Option α) (vs : List α)
    (hlv : ∀ i, lv i = vs[i]?)
    (hlive : ∀ p, p < 2 ^ k - 1 → (resolveClosed (2 ^ k) vs.length (2 * p + 1)).isEmpty = false →
      (resolveClosed (2 ^ k) vs.length (2 * p + 2)).isEmpty = false → live p = true) :
    ∀ h d j, d + h = k → j < 2 ^ d → j * 2 ^ h < vs.length →
      aggOut f zero (2 ^ k) vs.length live lv (resolveClosed (2 ^ k) vs.length (2 ^ d + j - 1)) =
        foldOpt f ((vs.drop (j * 2 ^ h)).take (2 ^ h)) := by
  intro h
  induction h with
  | zero =>
    intro d j hd hj hn
    have hdk : d = k := by omega
    subst hdk
    simp only [Nat.pow_zero, Nat.mul_one] at hn ⊢
    rw [resolveClosed_eq_spec d d j _ (Nat.le_refl _) hj]
    simp only [Nat.sub_self, Nat.pow_zero, Nat.mul_one]
    have hs : spec j 1 vs.length (2 ^ d + j - 1) = .leaf j := by
      unfold spec
      have h1 : ¬ j ≥ vs.length := by omega
      have h2 : min 1 (vs.length - j) = 1 := by omega
      simp [h1, h2]
    rw [hs, take_one_drop vs j hn, foldOpt_singleton]
    simp [aggOut, hlv, hn]
  | succ h ih =>
    intro d j hd hj hn
    have hdp := two_pow_pos' d
    have hhp := two_pow_pos' h
    have hspan : 2 ^ (h + 1) = 2 * 2 ^ h := by rw [Nat.pow_succ]; omega
    have hkd : k - d = h + 1 := by omega
    have hkd1 : k - (d + 1) = h := by omega
    have hj2 : 2 * j < 2 ^ (d + 1) := by rw [Nat.pow_succ]; omega
    have hj3 : 2 * j + 1 < 2 ^ (d + 1) := by rw [Nat.pow_succ]; omega
    have hfirst : j * (2 * 2 ^ h) = 2 * j * 2 ^ h := by rw [← Nat.mul_assoc, Nat.mul_comm j 2]
    have hfr : (2 * j + 1) * 2 ^ h = 2 * j * 2 ^ h + 2 ^ h := by rw [Nat.add_mul]; simp
    have hlt2 : 2 ^ (d + 1) ≤ 2 ^ k := Nat.pow_le_pow_right (by omega) (by omega)
    have hpow : 2 ^ (d + 1) = 2 * 2 ^ d := by rw [Nat.pow_succ]; omega
    -- the two children, in closed form
    have hL := resolveClosed_eq_spec k (d + 1) (2 * j) vs.length (by omega) hj2
    have hR := resolveClosed_eq_spec k (d + 1) (2 * j + 1) vs.length (by omega) hj3
    rw [hkd1, ← child_left] at hL
    rw [hkd1, ← child_right, hfr] at hR
    have ihL := ih (d + 1) (2 * j) (by omega) hj2
    have ihR := ih (d + 1) (2 * j + 1) (by omega) hj3
    rw [← child_left] at ihL
    rw [← child_right, hfr] at ihR
    rw [resolveClosed_eq_spec k d j _ (by omega) hj, hkd, hspan, spec_step _ _ _ _ hhp, hfirst]
    rw [hspan, hfirst] at hn
    generalize 2 * j * 2 ^ h = first at *
    generalize 2 ^ h = s at *
    have hnf : ¬ first ≥ vs.length := by omega
    simp only [hnf, ↓reduceIte]
    by_cases hm : vs.length ≤ first + s
    · simp only [hm, ↓reduceIte]
      rw [← hL, ihL hn]
      have hlen : (vs.drop first).length ≤ s := by simp; omega
      rw [List.take_of_length_le hlen, List.take_of_length_le (by omega)]
    · simp only [hm, ↓reduceIte]
      have hp : 2 ^ d + j - 1 < 2 ^ k - 1 := by omega
      have hLne : (resolveClosed (2 ^ k) vs.length (2 * (2 ^ d + j - 1) + 1)).isEmpty = false := by
        rw [hL]
        cases hc : spec first s vs.length (2 * (2 ^ d + j - 1) + 1) with
        | empty => have := (spec_empty_iff _ _ _ _).mp hc; omega
        | leaf i => rfl
        | node q => rfl
      have hRne : (resolveClosed (2 ^ k) vs.length (2 * (2 ^ d + j - 1) + 2)).isEmpty = false := by
        rw [hR]
        cases hc : spec (first + s) s vs.length (2 * (2 ^ d + j - 1) + 2) with
        | empty => have := (spec_empty_iff _ _ _ _).mp hc; omega
        | leaf i => rfl
        | node q => rfl
      have hlp := hlive _ hp hLne hRne
      have hg1 : ∀ q, resolveClosed (2 ^ k) vs.length (2 * (2 ^ d + j - 1) + 1) = .node q → 2 ^ d + j - 1 < q := by
        intro q hq; rw [hL] at hq; have := spec_node_ge _ _ _ _ _ hq; omega
      have hg2 : ∀ q, resolveClosed (2 ^ k) vs.length (2 * (2 ^ d + j - 1) + 2) = .node q → 2 ^ d + j - 1 < q := by
        intro q hq; rw [hR] at hq; have := spec_node_ge _ _ _ _ _ hq; omega
      simp only [aggOut]
      rw [nodeOut_eq f zero (2 ^ k) vs.length live lv _ (by rw [internalCount_pow]; exact hp) hlp hg1 hg2]
      rw [ihL hn, ihR (by omega)]
      have hne1 : (vs.drop first).take s ≠ [] := by
        intro hc; have := congrArg List.length hc; simp at this; omega
      have hne2 : (vs.drop (first + s)).take s ≠ [] := by
        intro hc; have := congrArg List.length hc; simp at this; omega
      obtain ⟨a, ha⟩ := foldOpt_isSome f _ hne1
      obtain ⟨b, hb⟩ := foldOpt_isSome f _ hne2
      rw [ha, hb]
      have htwo : 2 * s = s + s := by omega
      rw [htwo, List.take_add, List.drop_drop]
      exact (foldOpt_append f hf _ _ a b ha hb).symm

theorem map_eq_map_some_filterMap {κ : Type} (src : κ → Option α) (keys : List κ)
    (h : ∀ k ∈ keys, (src k).isSome) : keys.map src = (keys.filterMap src).map some := by
  induction keys with
  | nil => rfl
  | cons k ks ih =>
    have hk := h k (List.mem_cons_self)
    have ih' := ih (fun x hx => h x (List.mem_cons_of_mem _ hx))
    cases hv : src k with
    | none => rw [hv] at hk; cases hk
    | some v => simp [hv, ih']

end Interval

/-! ## maintenance of the dense leaves -/

section Leaves
variable {κ : Type} [DecidableEq κ]

theorem leafOf_some {keys : List κ} {k : κ} {i : Nat} (h : leafOf keys k = some i) :
    ∃ hi : i < keys.length, keys[i] = k := by
  unfold leafOf at h
  simp only at h
  split at h
  · next hlt =>
    injection h with h
    subst h
    exact ⟨hlt, List.getElem_idxOf hlt⟩
  · cases h

theorem leafOf_none {keys : List κ} {k : κ} (h : leafOf keys k = none) : k ∉ keys := by
  unfold leafOf at h
  simp only at h
  split at h
  · cases h
  · next hlt => intro hm; exact hlt (List.idxOf_lt_length_of_mem hm)

/-- swap-remove removes exactly the one leaf: the old leaves are the removed key plus the new leaves -/
theorem removeLeafAt_perm' (keys : List κ) (i : Nat) (hi : i < keys.length) :
    keys.Perm (keys[i] :: removeLeafAt keys i) := by
  have hne : keys ≠ [] := by intro h; rw [h] at hi; simp at hi
  obtain ⟨init, l, rfl⟩ : ∃ init l, keys = init ++ [l] :=
    ⟨keys.dropLast, keys.getLast hne, (List.dropLast_concat_getLast hne).symm⟩
  have hlast : (init ++ [l]).length - 1 = init.length := by simp
  unfold removeLeafAt
  simp only [hlast]
  have hget : (init ++ [l])[init.length]? = some l := by simp
  rw [hget]
  simp only
  by_cases hil : i = init.length
  · subst hil
    simp only [ne_eq, not_true_eq_false, ↓reduceIte, List.dropLast_concat]
    have : (init ++ [l])[init.length] = l := by simp
    rw [this]
    exact List.perm_append_singleton l init
  · have hlt : i < init.length := by simp at hi; omega
    simp only [ne_eq, hil, not_false_eq_true, ↓reduceIte]
    rw [List.set_append_left i l hlt, List.dropLast_concat]
    have hgi : (init ++ [l])[i] = init[i] := List.getElem_append_left hlt
    rw [hgi, List.perm_iff_count]
    intro a
    simp only [List.count_append, List.count_cons, List.count_nil, List.count_set hlt]
    have := List.boole_getElem_le_count (l := init) (a := a) (h := hlt)
    generalize (if (init[i] == a) = true then 1 else 0) = x at *
    generalize (if (l == a) = true then 1 else 0) = y at *
    omega

theorem removeLeafAt_length (keys : List κ) (i : Nat) (hi : i < keys.length) :
    (removeLeafAt keys i).length = keys.length - 1 := by
  have := (removeLeafAt_perm' keys i hi).length_eq
  simp at this; omega

/-- every dense index between the leaf count at the start of the cycle (`n0`) and the current one has
    been recorded in `structural_leaves` -/
def Covers (n0 n : Nat) (sl : List Nat) : Prop :=
  ∀ m, (n0 ≤ m ∧ m < n) ∨ (n ≤ m ∧ m < n0) → m ∈ sl

/-- what the leaf maintenance of one cycle preserves, relative to the tree `t0` at the start of the
    reconcile (whose `structural_leaves` were cleared) -/
structure LeafInv (t0 t : Tree κ) : Prop where
  cap : t.cap = t0.cap
  combiners : t.combiners = t0.combiners
  published : t.published = t0.published
  nodup : t.keys.Nodup
  covers : Covers t0.keys.length t.keys.length t.structLeaves
  quiet : t.structLeaves = [] → t.keys = t0.keys

omit [DecidableEq κ] in
theorem LeafInv.refl (t0 : Tree κ) (hn : t0.keys.Nodup) : LeafInv t0 t0 :=
  ⟨rfl, rfl, rfl, hn, by intro m hm; omega, fun _ => rfl⟩

theorem LeafInv.removeKey {t0 t : Tree κ} (h : LeafInv t0 t) (k : κ) : LeafInv t0 (removeKey t k) := by
  unfold Reduce.removeKey
  cases hl : leafOf t.keys k with
  | none => exact h
  | some leaf =>
    obtain ⟨hi, _⟩ := leafOf_some hl
    have hperm := removeLeafAt_perm' t.keys leaf hi
    have hlen := removeLeafAt_length t.keys leaf hi
    refine ⟨h.cap, h.combiners, h.published, ?_, ?_, ?_⟩
    · exact (List.nodup_cons.mp (h.nodup.perm hperm)).2
    · intro m hm
      simp only [hlen] at hm
      have hc := h.covers m
      simp only [recordRemoved]
      by_cases hll : leaf = t.keys.length - 1
      · simp only [hll, ne_eq, not_true_eq_false, ↓reduceIte, List.mem_append, List.mem_singleton]
        by_cases hm2 : m = t.keys.length - 1
        · exact Or.inr hm2
        · exact Or.inl (hc (by omega))
      · simp only [ne_eq, hll, not_false_eq_true, ↓reduceIte, List.mem_append, List.mem_cons, List.not_mem_nil, or_false]
        by_cases hm2 : m = t.keys.length - 1
        · exact Or.inr (Or.inr hm2)
        · exact Or.inl (hc (by omega))
    · intro hq
      simp only [recordRemoved] at hq
      split at hq <;> simp at hq

theorem LeafInv.addKey {t0 t : Tree κ} (h : LeafInv t0 t) (k : κ) : LeafInv t0 (addKey t k) := by
  unfold Reduce.addKey
  cases hl : leafOf t.keys k with
  | some leaf => exact h
  | none =>
    have hnot := leafOf_none hl
    refine ⟨h.cap, h.combiners, h.published, ?_, ?_, ?_⟩
    · simp only
      rw [List.nodup_append]
      refine ⟨h.nodup, by simp, ?_⟩
      intro a ha b hb
      simp at hb
      subst hb
      intro hab; subst hab; exact hnot ha
    · intro m hm
      simp only [List.length_append, List.length_singleton] at hm
      by_cases hm2 : m = t.keys.length
      · simp [hm2]
      · have := h.covers m (by omega)
        simp [this]
    · intro hq
      simp at hq

theorem LeafInv.foldl_removeKey {t0 t : Tree κ} (h : LeafInv t0 t) (ks : List κ) :
    LeafInv t0 (ks.foldl Reduce.removeKey t) := by
  induction ks generalizing t with
  | nil => exact h
  | cons k ks ih => exact ih (h.removeKey k)

theorem LeafInv.foldl_addKey {t0 t : Tree κ} (h : LeafInv t0 t) (ks : List κ) :
    LeafInv t0 (ks.foldl Reduce.addKey t) := by
  induction ks generalizing t with
  | nil => exact h
  | cons k ks ih => exact ih (h.addKey k)

/-! ### membership: the leaves are exactly the currently valid elements -/

theorem mem_removeKey {t : Tree κ} (hn : t.keys.Nodup) (x k : κ) :
    k ∈ (removeKey t x).keys ↔ k ∈ t.keys ∧ k ≠ x := by
  unfold removeKey
  cases hl : leafOf t.keys x with
  | none =>
    have := leafOf_none hl
    simp only
    constructor
    · intro hk; exact ⟨hk, fun h => this (h ▸ hk)⟩
    · exact fun h => h.1
  | some leaf =>
    obtain ⟨hi, hx⟩ := leafOf_some hl
    have hperm := removeLeafAt_perm' t.keys leaf hi
    have hnd := List.nodup_cons.mp (hn.perm hperm)
    simp only
    rw [hx] at hperm hnd
    constructor
    · intro hk
      exact ⟨hperm.mem_iff.mpr (List.mem_cons_of_mem _ hk), fun h => hnd.1 (h ▸ hk)⟩
    · intro ⟨hk, hne⟩
      have := hperm.mem_iff.mp hk
      simp only [List.mem_cons] at this
      rcases this with h | h
      · exact absurd h hne
      · exact h

theorem mem_addKey (t : Tree κ) (x k : κ) : k ∈ (addKey t x).keys ↔ k ∈ t.keys ∨ k = x := by
  unfold addKey
  cases hl : leafOf t.keys x with
  | none => simp
  | some leaf =>
    obtain ⟨hi, hx⟩ := leafOf_some hl
    simp only
    constructor
    · exact Or.inl
    · rintro (h | h)
      · exact h
      · rw [h, ← hx]; exact List.getElem_mem hi

theorem nodup_removeKey {t : Tree κ} (hn : t.keys.Nodup) (x : κ) : (removeKey t x).keys.Nodup := by
  unfold removeKey
  cases hl : leafOf t.keys x with
  | none => exact hn
  | some leaf =>
    obtain ⟨hi, _⟩ := leafOf_some hl
    exact (List.nodup_cons.mp (hn.perm (removeLeafAt_perm' t.keys leaf hi))).2

theorem mem_foldl_removeKey {t : Tree κ} (hn : t.keys.Nodup) (xs : List κ) (k : κ) :
    k ∈ (xs.foldl removeKey t).keys ↔ k ∈ t.keys ∧ k ∉ xs := by
  induction xs generalizing t with
  | nil => simp
  | cons x xs ih =>
    rw [List.foldl_cons, ih (nodup_removeKey hn x), mem_removeKey hn]
    simp only [List.mem_cons, not_or]
    constructor
    · rintro ⟨⟨a, b⟩, c⟩; exact ⟨a, b, c⟩
    · rintro ⟨a, b, c⟩; exact ⟨⟨a, b⟩, c⟩

theorem mem_foldl_addKey (t : Tree κ) (xs : List κ) (k : κ) :
    k ∈ (xs.foldl addKey t).keys ↔ k ∈ t.keys ∨ k ∈ xs := by
  induction xs generalizing t with
  | nil => simp
  | cons x xs ih =>
    rw [List.foldl_cons, ih, mem_addKey]
    simp only [List.mem_cons]
    constructor
    · rintro ((a | b) | c)
      · exact Or.inl a
      · exact Or.inr (Or.inl b)
      · exact Or.inr (Or.inr c)
    · rintro (a | b | c)
      · exact Or.inl (Or.inl a)
      · exact Or.inl (Or.inr b)
      · exact Or.inr c

end Leaves

/-! ## `rebuild_structure` -/

/-! ### capacity -/

theorem le_bitCeil (n : Nat) : n ≤ bitCeil n := by
  unfold bitCeil
  split
  · omega
  · have := Nat.lt_log2_self (n := n - 1)
    omega

theorem bitCeil_pow (n : Nat) : ∃ k, bitCeil n = 2 ^ k := by
  unfold bitCeil
  split
  · exact ⟨0, rfl⟩
  · exact ⟨_, rfl⟩

def IsCap (c : Nat) : Prop := c = 0 ∨ ∃ k, c = 2 ^ k

theorem IsCap.max {a b : Nat} (ha : IsCap a) (hb : IsCap b) : IsCap (max a b) := by
  rw [Nat.max_def]; split <;> assumption

/-- the capacity rule of `rebuild_structure` -/
def newCapacity (hasZero : Bool) (cap live : Nat) : Nat :=
  max (max cap (if hasZero then 2 else 0)) (if live > 0 then bitCeil live else 0)

theorem newCapacity_isCap (hz : Bool) (cap live : Nat) (h : IsCap cap) : IsCap (newCapacity hz cap live) := by
  unfold newCapacity
  apply IsCap.max
  · apply IsCap.max h
    cases hz
    · exact Or.inl rfl
    · exact Or.inr ⟨1, rfl⟩
  · split
    · exact Or.inr (bitCeil_pow live)
    · exact Or.inl rfl

theorem newCapacity_ge (hz : Bool) (cap live : Nat) : live ≤ newCapacity hz cap live ∧ cap ≤ newCapacity hz cap live ∧
    (hz = true → 2 ≤ newCapacity hz cap live) := by
  unfold newCapacity
  have := le_bitCeil live
  refine ⟨?_, ?_, ?_⟩
  · by_cases hl : live > 0
    · simp only [hl, ↓reduceIte]; omega
    · omega
  · omega
  · intro h; subst h; simp only [↓reduceIte]; omega

/-! ### phase 1 -/

theorem phase1Step_comb (hz : Bool) (cap live : Nat) (s : Phase1) (p : Nat) :
    (phase1Step hz cap live s p).comb.length = s.comb.length ∧
    ∀ q, (phase1Step hz cap live s p).comb[q]? =
      if q = p ∧ p < s.comb.length then some (neededAt hz cap live p) else s.comb[q]? := by
  unfold phase1Step
  cases hc : s.comb[p]? with
  | none =>
    have hp : ¬ p < s.comb.length := by
      intro h; rw [List.getElem?_eq_getElem h] at hc; cases hc
    simp [hp]
  | some b =>
    have hp : p < s.comb.length := by
      apply Classical.byContradiction; intro h
      rw [List.getElem?_eq_none (by omega)] at hc; cases hc
    cases b <;> cases hn : neededAt hz cap live p
    · refine ⟨rfl, fun q => ?_⟩
      by_cases hq : q = p
      · subst hq
        rw [List.getElem?_eq_getElem hp] at hc
        injection hc with hc
        simp [hp, hc]
      · simp [hq]
    · refine ⟨by simp, fun q => ?_⟩
      by_cases hq : q = p
      · subst hq; simp [hp]
      · have : ¬ p = q := fun h => hq h.symm
        simp [hq, this]
    · refine ⟨by simp, fun q => ?_⟩
      by_cases hq : q = p
      · subst hq; simp [hp]
      · have : ¬ p = q := fun h => hq h.symm
        simp [hq, this]
    · refine ⟨rfl, fun q => ?_⟩
      by_cases hq : q = p
      · subst hq
        rw [List.getElem?_eq_getElem hp] at hc
        injection hc with hc
        simp [hp, hc]
      · simp [hq]

theorem phase1_fold_comb (hz : Bool) (cap live : Nat) (ps : List Nat) (s : Phase1) :
    (ps.foldl (phase1Step hz cap live) s).comb.length = s.comb.length ∧
    ∀ q, q < s.comb.length → (ps.foldl (phase1Step hz cap live) s).comb[q]? =
      if q ∈ ps then some (neededAt hz cap live q) else s.comb[q]? := by
  induction ps generalizing s with
  | nil => simp
  | cons p ps ih =>
    obtain ⟨hl, hq⟩ := phase1Step_comb hz cap live s p
    obtain ⟨ihl, ihq⟩ := ih (phase1Step hz cap live s p)
    rw [List.foldl_cons]
    refine ⟨by rw [ihl, hl], ?_⟩
    intro q hlt
    rw [ihq q (by rw [hl]; exact hlt), hq q]
    by_cases h1 : q ∈ ps
    · simp [h1]
    · by_cases h2 : q = p
      · subst h2; simp [h1, hlt]
      · simp [h1, h2]

theorem mem_allPositionsDesc (size q : Nat) : q ∈ allPositionsDesc size ↔ q < size := by
  simp [allPositionsDesc]

/-! ### structural positions -/

theorem mem_insertDesc (x y : Nat) (l : List Nat) : y ∈ insertDesc x l ↔ y = x ∨ y ∈ l := by
  induction l with
  | nil => simp [insertDesc]
  | cons z zs ih =>
    unfold insertDesc
    split
    · simp
    · split
      · next h => subst h; simp
      · simp [ih]
        constructor
        · rintro (h | h | h)
          · exact Or.inr (Or.inl h)
          · exact Or.inl h
          · exact Or.inr (Or.inr h)
        · rintro (h | h | h)
          · exact Or.inr (Or.inl h)
          · exact Or.inl h
          · exact Or.inr (Or.inr h)

theorem mem_foldl_insertDesc (l init : List Nat) (y : Nat) :
    y ∈ l.foldl (fun acc p => insertDesc p acc) init ↔ y ∈ init ∨ y ∈ l := by
  induction l generalizing init with
  | nil => simp
  | cons x xs ih =>
    rw [List.foldl_cons, ih, mem_insertDesc]
    simp only [List.mem_cons]
    constructor
    · rintro ((h | h) | h)
      · exact Or.inr (Or.inl h)
      · exact Or.inl h
      · exact Or.inr (Or.inr h)
    · rintro (h | h | h)
      · exact Or.inl (Or.inr h)
      · exact Or.inl (Or.inl h)
      · exact Or.inr h

theorem mem_foldl_paths (g : Nat → List Nat) (sl init : List Nat) (y : Nat) :
    y ∈ sl.foldl (fun acc leaf => acc ++ g leaf) init ↔ y ∈ init ∨ ∃ leaf ∈ sl, y ∈ g leaf := by
  induction sl generalizing init with
  | nil => simp
  | cons x xs ih =>
    rw [List.foldl_cons, ih]
    simp only [List.mem_append, List.mem_cons, exists_eq_or_imp]
    constructor
    · rintro ((h | h) | h)
      · exact Or.inl h
      · exact Or.inr (Or.inl h)
      · exact Or.inr (Or.inr h)
    · rintro (h | h | h)
      · exact Or.inl (Or.inl h)
      · exact Or.inl (Or.inr h)
      · exact Or.inr h

theorem mem_structuralPositions (cap size : Nat) (sl : List Nat) (q : Nat) :
    q ∈ structuralPositions cap size sl ↔ ∃ leaf ∈ sl, q ∈ pathFrom size (internalCount cap + leaf) := by
  unfold structuralPositions
  rw [mem_foldl_insertDesc, mem_foldl_paths]
  simp

/-- the heap ancestors: with `P = position + 1`, the ancestors are `P / 2^t - 1` -/
theorem mem_pathFrom (size : Nat) : ∀ (t P : Nat), 1 ≤ t → 1 ≤ P / 2 ^ t → P / 2 ^ t - 1 < size →
    (P / 2 ^ t - 1) ∈ pathFrom size (P - 1) := by
  intro t
  induction t with
  | zero => intro P h; omega
  | succ t ih =>
    intro P _ h1 h2
    have hP : 2 ≤ P := by
      apply Classical.byContradiction; intro hc
      have hp1 : P < 2 ^ (t + 1) := by
        have : 2 ≤ 2 ^ (t + 1) := by
          have := two_pow_pos' t
          rw [Nat.pow_succ]; omega
        omega
      rw [Nat.div_eq_of_lt hp1] at h1; omega
    rw [pathFrom]
    have hne : ¬ P - 1 = 0 := by omega
    simp only [hne, ↓reduceDIte]
    have hpar : (P - 1 - 1) / 2 = P / 2 - 1 := by omega
    rw [hpar]
    have hdiv : P / 2 ^ (t + 1) = (P / 2) / 2 ^ t := by
      rw [Nat.pow_succ, Nat.mul_comm, Nat.div_div_eq_div_mul]
    by_cases ht : t = 0
    · subst ht
      simp only [Nat.zero_add, Nat.pow_one] at h1 h2 ⊢
      simp [h2]
    · rw [hdiv] at h1 h2 ⊢
      exact List.mem_append_right _ (ih (P / 2) (by omega) h1 h2)

/-! ### where a combiner is needed, and when that changes -/

theorem spec_isEmpty (first span n p : Nat) : (spec first span n p).isEmpty = decide (first ≥ n) := by
  by_cases h : first ≥ n
  · rw [(spec_empty_iff first span n p).mpr h]; simp [Agg.isEmpty, h]
  · have hne : spec first span n p ≠ .empty := fun hc => h ((spec_empty_iff _ _ _ _).mp hc)
    cases hs : spec first span n p with
    | empty => exact absurd hs hne
    | leaf i => simp [Agg.isEmpty, h]
    | node q => simp [Agg.isEmpty, h]

/-- a combiner is needed at `(d, j)` exactly when the first leaf of its right child is live (or it is
    the root of a singleton with a zero) -/
theorem neededAt_level (hz : Bool) (k d j n : Nat) (hd : d < k) (hj : j < 2 ^ d) :
    neededAt hz (2 ^ k) n (2 ^ d + j - 1) =
      ((2 ^ d + j - 1 == 0 && hz && n == 1) || decide ((2 * j + 1) * 2 ^ (k - (d + 1)) < n)) := by
  have hpow : 2 ^ (d + 1) = 2 * 2 ^ d := by rw [Nat.pow_succ]; omega
  have hj2 : 2 * j < 2 ^ (d + 1) := by omega
  have hj3 : 2 * j + 1 < 2 ^ (d + 1) := by omega
  unfold neededAt
  rw [child_left, child_right, resolveClosed_eq_spec k (d + 1) (2 * j) n (by omega) hj2,
    resolveClosed_eq_spec k (d + 1) (2 * j + 1) n (by omega) hj3, spec_isEmpty, spec_isEmpty]
  have hle : 2 * j * 2 ^ (k - (d + 1)) ≤ (2 * j + 1) * 2 ^ (k - (d + 1)) :=
    Nat.mul_le_mul_right _ (by omega)
  generalize 2 * j * 2 ^ (k - (d + 1)) = a at *
  generalize (2 * j + 1) * 2 ^ (k - (d + 1)) = b at *
  by_cases hb : b < n
  · have h1 : ¬ a ≥ n := by omega
    have h2 : ¬ b ≥ n := by omega
    simp [h1, h2, hb]
  · have h2 : b ≥ n := by omega
    simp [h2, hb]

/-- a position is a heap ancestor of every leaf of its interval -/
theorem ancestor_mem (size d h j m : Nat) (hh : 1 ≤ h) (hj : j < 2 ^ d) (hlo : j * 2 ^ h ≤ m) (hhi : m < (j + 1) * 2 ^ h)
    (hsz : 2 ^ d + j - 1 < size) :
    (2 ^ d + j - 1) ∈ pathFrom size (internalCount (2 ^ (d + h)) + m) := by
  have hdp := two_pow_pos' d
  have hhp := two_pow_pos' h
  have hk := two_pow_pos' (d + h)
  have hdiv : (2 ^ (d + h) + m) / 2 ^ h = 2 ^ d + j := by
    rw [Nat.pow_add, Nat.mul_comm (2 ^ d) (2 ^ h), Nat.mul_add_div hhp, Nat.div_eq_of_lt_le hlo hhi]
  have := mem_pathFrom size h (2 ^ (d + h) + m) hh (by rw [hdiv]; omega) (by rw [hdiv]; exact hsz)
  rw [hdiv] at this
  rw [internalCount_pow]
  have he : 2 ^ (d + h) - 1 + m = 2 ^ (d + h) + m - 1 := by omega
  rw [he]; exact this

/-- the incremental structural update: a position whose need for a combiner changes between the live
    counts `n0` and `n` is an ancestor of a recorded structural leaf -/
theorem needed_change_covered (hz : Bool) (k n0 n : Nat) (sl : List Nat) (hc : Covers n0 n sl)
    (hn0 : n0 ≤ 2 ^ k) (hn : n ≤ 2 ^ k) (q : Nat) (hq : q < 2 ^ k - 1)
    (hne : neededAt hz (2 ^ k) n q ≠ neededAt hz (2 ^ k) n0 q) :
    q ∈ structuralPositions (2 ^ k) (2 ^ k - 1) sl := by
  obtain ⟨d, j, hj, he⟩ := exists_level q
  have hd := level_depth_le k d j q hq he
  subst he
  rw [neededAt_level hz k d j n hd hj, neededAt_level hz k d j n0 hd hj] at hne
  rw [mem_structuralPositions]
  have hdp := two_pow_pos' d
  have hkd : k = d + (k - d) := by omega
  have hspan : 2 ^ (k - d) = 2 * 2 ^ (k - (d + 1)) := by
    have : k - d = (k - (d + 1)) + 1 := by omega
    rw [this, Nat.pow_succ]; omega
  have hsp := two_pow_pos' (k - (d + 1))
  -- an index of the interval of `q` that lies between the two live counts
  have key : ∃ m, ((n0 ≤ m ∧ m < n) ∨ (n ≤ m ∧ m < n0)) ∧ j * 2 ^ (k - d) ≤ m ∧ m < (j + 1) * 2 ^ (k - d) := by
    by_cases hmid : decide ((2 * j + 1) * 2 ^ (k - (d + 1)) < n) = decide ((2 * j + 1) * 2 ^ (k - (d + 1)) < n0)
    · -- the root rule changed: `q = 0`, and the live count moved to or from one
      rw [hmid] at hne
      have hroot : (2 ^ d + j - 1 == 0) = true := by
        apply Classical.byContradiction; intro hc2
        simp only [Bool.not_eq_true] at hc2
        rw [hc2] at hne; simp at hne
      have hq0 : 2 ^ d + j - 1 = 0 := by simpa using hroot
      have hj0 : j = 0 := by omega
      have hd0 : d = 0 := by
        apply Classical.byContradiction; intro hc2
        have : 2 ≤ 2 ^ d := by
          have : d = (d - 1) + 1 := by omega
          rw [this, Nat.pow_succ]; have := two_pow_pos' (d - 1); omega
        omega
      subst hj0; subst hd0
      have hnn : n ≠ n0 := by intro h; rw [h] at hne; exact hne rfl
      refine ⟨min n n0, by omega, by simp, ?_⟩
      simp only [Nat.zero_add, Nat.one_mul, Nat.sub_zero]
      omega
    · refine ⟨(2 * j + 1) * 2 ^ (k - (d + 1)), ?_, ?_, ?_⟩
      · by_cases h1 : (2 * j + 1) * 2 ^ (k - (d + 1)) < n
        · have h2 : ¬ (2 * j + 1) * 2 ^ (k - (d + 1)) < n0 := by
            intro h2; simp [h1, h2] at hmid
          omega
        · have h2 : (2 * j + 1) * 2 ^ (k - (d + 1)) < n0 := by
            apply Classical.byContradiction; intro h2; simp [h1, h2] at hmid
          omega
      · have e1 : j * (2 * 2 ^ (k - (d + 1))) = 2 * (j * 2 ^ (k - (d + 1))) := Nat.mul_left_comm _ _ _
        have e2 : (2 * j + 1) * 2 ^ (k - (d + 1)) = 2 * (j * 2 ^ (k - (d + 1))) + 2 ^ (k - (d + 1)) := by
          rw [Nat.add_mul, Nat.one_mul, Nat.mul_assoc]
        rw [hspan, e1, e2]; omega
      · have e1 : (j + 1) * (2 * 2 ^ (k - (d + 1))) = 2 * (j * 2 ^ (k - (d + 1))) + 2 * 2 ^ (k - (d + 1)) := by
          rw [Nat.add_mul, Nat.one_mul, Nat.mul_left_comm]
        have e2 : (2 * j + 1) * 2 ^ (k - (d + 1)) = 2 * (j * 2 ^ (k - (d + 1))) + 2 ^ (k - (d + 1)) := by
          rw [Nat.add_mul, Nat.one_mul, Nat.mul_assoc]
        rw [hspan, e1, e2]; omega
  obtain ⟨m, hbetween, hlo, hhi⟩ := key
  refine ⟨m, hc m hbetween, ?_⟩
  have := ancestor_mem (2 ^ k - 1) d (k - d) j m (by omega) hj hlo hhi hq
  rw [← hkd] at this
  exact this

/-! ## the representation invariant and `rebuild_structure` -/

/-- The representation invariant of `ReduceNodeStorage` between evaluations: capacity `0` or a power
    of two, at least the live count; distinct keys; `combiners` has one slot per internal heap position
    and holds a combiner exactly where phase 1 needs one for the current live count; a supplied zero
    forces capacity `≥ 2` as soon as there is a leaf. -/
structure Shape {κ : Type} (hasZero : Bool) (t : Tree κ) : Prop where
  cap_pow : t.cap = 0 ∨ ∃ k, t.cap = 2 ^ k
  live_le : t.keys.length ≤ t.cap
  nodup : t.keys.Nodup
  comb_len : t.combiners.length = internalCount t.cap
  comb_needed : ∀ p, p < internalCount t.cap →
    t.combiners[p]? = some (neededAt hasZero t.cap t.keys.length p)
  zero_cap : hasZero = true → 0 < t.keys.length → 2 ≤ t.cap

section Rebuild
variable {κ : Type}

def rebuildComb0 (hasZero : Bool) (t : Tree κ) : List Bool :=
  let capacity := newCapacity hasZero t.cap t.keys.length
  if capacity != t.cap then List.replicate (if capacity > 1 then capacity - 1 else 0) false else t.combiners

def rebuildPositions (hasZero : Bool) (t : Tree κ) (full : Bool) : List Nat :=
  let capacity := newCapacity hasZero t.cap t.keys.length
  if full || capacity != t.cap then allPositionsDesc (rebuildComb0 hasZero t).length
  else structuralPositions capacity (rebuildComb0 hasZero t).length t.structLeaves

theorem rebuild_keys (hasZero : Bool) (now : Nat) (t : Tree κ) (full : Bool) :
    (rebuild hasZero now t full).keys = t.keys := rfl

theorem rebuild_cap (hasZero : Bool) (now : Nat) (t : Tree κ) (full : Bool) :
    (rebuild hasZero now t full).cap = newCapacity hasZero t.cap t.keys.length := rfl

theorem rebuild_combiners (hasZero : Bool) (now : Nat) (t : Tree κ) (full : Bool) :
    (rebuild hasZero now t full).combiners =
      ((rebuildPositions hasZero t full).foldl
        (phase1Step hasZero (newCapacity hasZero t.cap t.keys.length) t.keys.length)
        { comb := rebuildComb0 hasZero t }).comb := rfl

theorem internalCount_eq (c : Nat) : (if c > 1 then c - 1 else 0) = internalCount c := rfl

/-- `rebuild_structure` establishes the invariant: always after a full pass (first publication,
    capacity growth into the other bank), and after an incremental pass over the ancestors of the
    recorded structural leaves provided the tree was in shape for the live count `n0` at the start of
    the cycle and every dense index between `n0` and the new live count was recorded. -/
theorem rebuild_shape (hz : Bool) (now : Nat) (t : Tree κ) (full : Bool)
    (hcap : IsCap t.cap) (hnd : t.keys.Nodup) (hlen : t.combiners.length = internalCount t.cap)
    (hinc : full = false → ∃ n0, n0 ≤ t.cap ∧ Covers n0 t.keys.length t.structLeaves ∧
        ∀ p, p < internalCount t.cap → t.combiners[p]? = some (neededAt hz t.cap n0 p)) :
    Shape hz (rebuild hz now t full) := by
  have hge := newCapacity_ge hz t.cap t.keys.length
  have hic := newCapacity_isCap hz t.cap t.keys.length hcap
  have hc0len : (rebuildComb0 hz t).length = internalCount (newCapacity hz t.cap t.keys.length) := by
    unfold rebuildComb0
    simp only
    split
    · rw [List.length_replicate, internalCount_eq]
    · next h =>
      have : newCapacity hz t.cap t.keys.length = t.cap := by simpa using h
      rw [this, hlen]
  obtain ⟨hfl, hfq⟩ := phase1_fold_comb hz (newCapacity hz t.cap t.keys.length) t.keys.length
    (rebuildPositions hz t full) { comb := rebuildComb0 hz t }
  refine ⟨hic, ?_, hnd, ?_, ?_, ?_⟩
  · rw [rebuild_cap, rebuild_keys]; exact hge.1
  · rw [rebuild_combiners, rebuild_cap, hfl, hc0len]
  · intro p hp
    rw [rebuild_cap] at hp
    rw [rebuild_combiners, rebuild_cap, rebuild_keys, hfq p (by rw [hc0len]; exact hp)]
    by_cases hmem : p ∈ rebuildPositions hz t full
    · simp [hmem]
    · simp only [hmem, ↓reduceIte]
      -- `p` was not visited: an incremental pass without bank change
      unfold rebuildPositions at hmem
      simp only at hmem
      by_cases hfull : (full || newCapacity hz t.cap t.keys.length != t.cap) = true
      · rw [if_pos hfull, mem_allPositionsDesc, hc0len] at hmem
        exact absurd hp hmem
      · rw [if_neg hfull] at hmem
        simp only [Bool.or_eq_true, bne_iff_ne, ne_eq, not_or, Bool.not_eq_true, Decidable.not_not] at hfull
        obtain ⟨hf, hsame⟩ := hfull
        obtain ⟨n0, hn0, hcov, hold⟩ := hinc hf
        have hc0 : rebuildComb0 hz t = t.combiners := by
          unfold rebuildComb0; simp [hsame]
        rw [hc0, hlen, hsame] at hmem
        rw [hsame] at hp ⊢
        rw [hc0, hold p hp]
        rcases hcap with h0 | ⟨k, hk⟩
        · rw [h0] at hp; simp [internalCount] at hp
        · rw [hk, internalCount_pow] at hmem hp
          rw [hk] at hn0 ⊢
          have hnle : t.keys.length ≤ 2 ^ k := by rw [← hk, ← hsame]; exact hge.1
          apply Classical.byContradiction
          intro hne
          have hne' : neededAt hz (2 ^ k) t.keys.length p ≠ neededAt hz (2 ^ k) n0 p := by
            intro h; apply hne; rw [h]
          exact hmem (needed_change_covered hz k n0 t.keys.length t.structLeaves hcov hn0 hnle p hp hne')
  · intro h _
    rw [rebuild_cap]; exact hge.2.2 h

end Rebuild

/-! ## counting the combiners -/

/-- the first leaf of the right child of heap position `q` in a tree of capacity `2^k` -/
def rfirst (k q : Nat) : Nat :=
  (2 * (q + 1 - 2 ^ (q + 1).log2) + 1) * 2 ^ (k - ((q + 1).log2 + 1))

theorem rfirst_level (k d j : Nat) (hj : j < 2 ^ d) :
    rfirst k (2 ^ d + j - 1) = (2 * j + 1) * 2 ^ (k - (d + 1)) := by
  have hdp := two_pow_pos' d
  unfold rfirst
  have h1 : 2 ^ d + j - 1 + 1 = 2 ^ d + j := by omega
  rw [h1, log2_level d j hj]
  have h2 : 2 ^ d + j - 2 ^ d = j := by omega
  rw [h2]

theorem rfirst_pos (k q : Nat) : 1 ≤ rfirst k q := by
  unfold rfirst
  have := two_pow_pos' (k - ((q + 1).log2 + 1))
  exact Nat.mul_pos (by omega) this

theorem neededAt_rfirst (hz : Bool) (k n q : Nat) (hq : q < 2 ^ k - 1) :
    neededAt hz (2 ^ k) n q = ((q == 0 && hz && n == 1) || decide (rfirst k q < n)) := by
  obtain ⟨d, j, hj, he⟩ := exists_level q
  have hd := level_depth_le k d j q hq he
  subst he
  rw [neededAt_level hz k d j n hd hj, rfirst_level k d j hj]

theorem countP_odd_lt (n m : Nat) : (List.range m).countP (fun j => decide (2 * j + 1 < n)) = min m (n / 2) := by
  induction m with
  | zero => simp
  | succ m ih =>
    rw [List.range_succ, List.countP_append, ih]
    simp only [List.countP_cons, List.countP_nil]
    by_cases h : 2 * m + 1 < n
    · simp [h]; omega
    · simp [h]; omega

/-- in a tree of capacity `2^k` exactly `n - 1` internal positions have a live leaf at the start of
    their right child (each level halves the number of non-empty blocks) -/
theorem countP_rfirst (k : Nat) : ∀ n, n ≤ 2 ^ k →
    (List.range (2 ^ k - 1)).countP (fun q => decide (rfirst k q < n)) = n - 1 := by
  induction k with
  | zero => intro n hn; simp at hn ⊢; omega
  | succ k ih =>
    intro n hn
    have hkp := two_pow_pos' k
    have hpow : 2 ^ (k + 1) = 2 * 2 ^ k := by rw [Nat.pow_succ]; omega
    have hsplit : 2 ^ (k + 1) - 1 = (2 ^ k - 1) + 2 ^ k := by omega
    rw [hsplit, List.range_add, List.countP_append, List.countP_map]
    -- the levels of the smaller tree, with every interval doubled
    have h1 : (List.range (2 ^ k - 1)).countP (fun q => decide (rfirst (k + 1) q < n)) =
        (List.range (2 ^ k - 1)).countP (fun q => decide (rfirst k q < (n + 1) / 2)) := by
      apply List.countP_congr
      intro q hq
      have hq : q < 2 ^ k - 1 := by simpa using hq
      obtain ⟨d, j, hj, he⟩ := exists_level q
      have hd := level_depth_le k d j q hq he
      subst he
      rw [rfirst_level (k + 1) d j hj, rfirst_level k d j hj]
      have : k + 1 - (d + 1) = (k - (d + 1)) + 1 := by omega
      rw [this, Nat.pow_succ]
      generalize (2 * j + 1) = a
      generalize 2 ^ (k - (d + 1)) = b
      have : a * (b * 2) = 2 * (a * b) := by rw [Nat.mul_comm b 2, Nat.mul_left_comm]
      rw [this]
      simp only [decide_eq_true_eq]
      omega
    -- the new bottom level: position `2^k - 1 + j` has right-first `2j + 1`
    have h2 : (List.range (2 ^ k)).countP ((fun q => decide (rfirst (k + 1) q < n)) ∘ fun x => 2 ^ k - 1 + x) =
        (List.range (2 ^ k)).countP (fun j => decide (2 * j + 1 < n)) := by
      apply List.countP_congr
      intro j hj
      have hj : j < 2 ^ k := by simpa using hj
      have : 2 ^ k - 1 + j = 2 ^ k + j - 1 := by omega
      simp only [Function.comp, this, rfirst_level (k + 1) k j hj, Nat.sub_self, Nat.pow_zero, Nat.mul_one]
    rw [h1, h2, ih ((n + 1) / 2) (by omega), countP_odd_lt]
    omega

theorem count_true_eq (l : List Bool) (g : Nat → Bool) (h : ∀ p, p < l.length → l[p]? = some (g p)) :
    l.count true = (List.range l.length).countP g := by
  have : l = (List.range l.length).map g := by
    apply List.ext_getElem?
    intro i
    by_cases hi : i < l.length
    · rw [h i hi]; simp [hi]
    · rw [List.getElem?_eq_none (by omega), List.getElem?_eq_none (by simp; omega)]
  conv => lhs; rw [this]
  rw [List.count_eq_countP, List.countP_map]
  apply List.countP_congr
  intro x _
  simp

/-! ## the singleton root, and the invariant through one evaluation -/

/-- the singleton-with-zero root: `combine(value, zero)` -/
theorem singleton_zero_value {κ α : Type} (f : α → α → α) (zero : Option α) (src : κ → Option α) (t : Tree κ)
    (hs : Shape true t) (k : κ) (hk : t.keys = [k]) :
    rootOut f true zero src t =
      match src k, zero with
      | some v, some z => some (f v z)
      | _, _ => none := by
  have hn : t.keys.length = 1 := by rw [hk]; rfl
  have hcap := hs.zero_cap rfl (by omega)
  rcases hs.cap_pow with hc | ⟨e, hc⟩
  · omega
  · have he : 1 ≤ e := by
      apply Classical.byContradiction
      intro h
      have : e = 0 := by omega
      subst this
      simp at hc; omega
    have hcap2 : 2 ≤ 2 ^ e := by rw [← hc]; exact hcap
    have hcl : t.combiners.length = 2 ^ e - 1 := by rw [hs.comb_len, hc, internalCount_pow]
    have hcn : 0 < 2 ^ e - 1 → t.combiners[0]? = some (neededAt true (2 ^ e) 1 0) := by
      have := hs.comb_needed 0
      rw [hc, hn, internalCount_pow] at this
      exact this
    unfold rootOut
    rw [hn, hc]
    have hpos : 0 < 2 ^ e - 1 := by omega
    have hroot : rootAgg true (2 ^ e) 1 t.combiners.length = .node 0 := by
      unfold rootAgg
      have : (t.combiners.length != 0) = true := by rw [hcl]; simp; omega
      simp [this]
    rw [hroot]
    have hL : resolveClosed (2 ^ e) 1 (2 * 0 + 1) = .leaf 0 := by
      have := resolveClosed_eq_spec e 1 0 1 he (by simp)
      simp only [Nat.pow_one, Nat.add_zero, Nat.zero_mul] at this
      rw [show 2 * 0 + 1 = 2 - 1 from rfl, this]
      unfold spec
      have hp := two_pow_pos' (e - 1)
      have : min (2 ^ (e - 1)) (1 - 0) = 1 := by omega
      simp [this]
    have hR : resolveClosed (2 ^ e) 1 (2 * 0 + 2) = .empty := by
      have := resolveClosed_eq_spec e 1 1 1 he (by simp)
      simp only [Nat.pow_one, Nat.one_mul] at this
      rw [show 2 * 0 + 2 = 2 + 1 - 1 from rfl, this]
      have hp := two_pow_pos' (e - 1)
      exact (spec_empty_iff _ _ _ _).mpr (by omega)
    have hlive : combLive t.combiners 0 = true := by
      unfold combLive
      rw [hcn hpos]
      simp [neededAt]
    simp only [aggOut]
    rw [nodeOut_eq f _ (2 ^ e) 1 _ _ 0 (by rw [internalCount_pow]; exact hpos) hlive
      (by intro q hq; rw [hL] at hq; cases hq) (by intro q hq; rw [hR] at hq; cases hq)]
    rw [hL, hR]
    simp only [aggOut, leafVal, hk, List.getElem?_cons_zero, ↓reduceIte]
    all_goals try (cases src k <;> cases zero <;> rfl)


section Eval
variable {κ : Type} [DecidableEq κ]

omit [DecidableEq κ] in
theorem Shape.of_eq {hz : Bool} {a b : Tree κ} (h : Shape hz a) (hk : b.keys = a.keys) (hc : b.cap = a.cap)
    (hm : b.combiners = a.combiners) : Shape hz b := by
  refine ⟨?_, ?_, ?_, ?_, ?_, ?_⟩
  · rw [hc]; exact h.cap_pow
  · rw [hc, hk]; exact h.live_le
  · rw [hk]; exact h.nodup
  · rw [hc, hm]; exact h.comb_len
  · rw [hc, hm, hk]; exact h.comb_needed
  · rw [hc, hk]; exact h.zero_cap

omit [DecidableEq κ] in
theorem destroyPrev_fields (now : Nat) (t : Tree κ) :
    (destroyPrevBefore now t).keys = t.keys ∧ (destroyPrevBefore now t).cap = t.cap ∧
    (destroyPrevBefore now t).combiners = t.combiners ∧ (destroyPrevBefore now t).primed = t.primed ∧
    (destroyPrevBefore now t).published = t.published := by
  unfold destroyPrevBefore
  split <;> exact ⟨rfl, rfl, rfl, rfl, rfl⟩

/-- `reduce_reconcile` (leaf reconcile + structural rebuild, whichever branch is taken) preserves the
    representation invariant -/
theorem evalReconcile_shape (hz : Bool) (now : Nat) (t : Tree κ) (available modified : Bool)
    (removed present : List κ) (hs : Shape hz t) :
    Shape hz (evalReconcile hz now t available modified removed present) := by
  unfold evalReconcile
  simp only
  have hfull : ∀ x : Tree κ, x.cap = t.cap → x.combiners = t.combiners → x.keys.Nodup →
      Shape hz (rebuild hz now x true) := by
    intro x hc hm hn
    apply rebuild_shape hz now x true
    · rw [hc]; exact hs.cap_pow
    · exact hn
    · rw [hm, hc]; exact hs.comb_len
    · intro h; cases h
  by_cases hav : available = true
  · simp only [hav, ↓reduceIte]
    by_cases hpm : (!t.primed || modified) = true
    · simp only [hpm, ↓reduceIte]
      unfold reconcileLeaves
      by_cases hpr : t.primed = true
      · -- sparse reconcile of a primed tree
        simp only [hpr, Bool.not_true, Bool.false_eq_true, ↓reduceIte, Bool.or_false]
        have hinv : LeafInv t (present.foldl addKey (removed.foldl removeKey t)) :=
          ((LeafInv.refl t hs.nodup).foldl_removeKey removed).foldl_addKey present
        generalize (present.foldl addKey (removed.foldl removeKey t)) = t2 at *
        split
        · next hcond =>
          by_cases hpub : t.published = true
          · -- incremental rebuild
            simp only [hpub, Bool.not_true]
            apply rebuild_shape hz now _ false
            · show IsCap t2.cap
              rw [hinv.cap]; exact hs.cap_pow
            · exact hinv.nodup
            · show t2.combiners.length = internalCount t2.cap
              rw [hinv.combiners, hinv.cap]; exact hs.comb_len
            · intro _
              refine ⟨t.keys.length, ?_, hinv.covers, ?_⟩
              · show t.keys.length ≤ t2.cap
                rw [hinv.cap]; exact hs.live_le
              · intro p hp
                show t2.combiners[p]? = some (neededAt hz t2.cap t.keys.length p)
                rw [hinv.combiners, hinv.cap]
                exact hs.comb_needed p (by rw [← hinv.cap]; exact hp)
          · have hpf : t.published = false := by simpa using hpub
            simp only [hpf, Bool.not_false]
            exact hfull _ hinv.cap hinv.combiners hinv.nodup
        · next hcond =>
          -- nothing structural happened: the leaves are unchanged
          simp only [Bool.or_eq_true, Bool.not_eq_true', not_or, Bool.not_eq_false] at hcond
          have hsl : t2.structLeaves = [] := by
            have := hcond.1
            simpa using this
          exact hs.of_eq (hinv.quiet hsl) hinv.cap hinv.combiners
      · -- first (full) reconcile
        have hpf : t.primed = false := by simpa using hpr
        simp only [hpf, Bool.not_false, ↓reduceIte, Bool.true_or, Bool.or_true]
        have hinv : LeafInv (clearLeaves t) (present.foldl addKey (clearLeaves t)) :=
          (LeafInv.refl (clearLeaves t) (by simp [clearLeaves])).foldl_addKey present
        exact hfull _ hinv.cap hinv.combiners hinv.nodup
    · simp only [hpm, Bool.false_eq_true, ↓reduceIte]
      split
      · next hpub =>
        have hpf : t.published = false := by simpa using hpub
        simp only [hpf, Bool.not_false]
        exact hfull t rfl rfl hs.nodup
      · exact hs
  · simp only [hav, Bool.false_eq_true, ↓reduceIte]
    split
    · exact hfull _ rfl rfl (by simp [clearLeaves])
    · split
      · next hpub =>
        have hpf : t.published = false := by simpa using hpub
        simp only [hpf, Bool.not_false]
        exact hfull t rfl rfl hs.nodup
      · exact hs

/-- one evaluation of the reduce node preserves the representation invariant -/
theorem evalStructure_shape (hz : Bool) (now : Nat) (t0 : Tree κ) (available modified : Bool)
    (removed present : List κ) (hs0 : Shape hz t0) :
    Shape hz (evalStructure hz now t0 available modified removed present) := by
  obtain ⟨e1, e2, e3, _, _⟩ := destroyPrev_fields now t0
  unfold evalStructure
  apply evalReconcile_shape
  exact hs0.of_eq e1 e2 e3

omit [DecidableEq κ] in
theorem shape_init (hz : Bool) : Shape hz ({} : Tree κ) := by
  refine ⟨Or.inl rfl, by simp, by simp, by simp [internalCount], ?_, ?_⟩
  · intro p hp; simp [internalCount] at hp
  · intro _ h; simp at h

end Eval

end HgVerif.Reduce
