import HgVerif.Model.ReduceKeyed
/-!
Helper lemmas for `Props/C11Keyed.lean`: sets as lists, the per-cycle delta algebra of a `Cell` (a `TSS`
output), and what `reconcileSet` (`reconcile_set_impl`) leaves behind on a cell that starts an engine
time with an empty delta (`Outcome`).
-/
set_option linter.unusedVariables false
set_option linter.unusedSectionVars false

namespace HgVerif.ReduceKeyed

/-- two lists hold the same set -/
def SetEq {ε : Type} (a b : List ε) : Prop := ∀ x, x ∈ a ↔ x ∈ b

open HgVerif.Reduce HgVerif.ReduceInc

variable {κ ε : Type} [DecidableEq κ] [DecidableEq ε]

theorem SetEq.refl (a : List ε) : SetEq a a := fun _ => Iff.rfl
theorem SetEq.symm {a b : List ε} (h : SetEq a b) : SetEq b a := fun x => (h x).symm
theorem SetEq.trans {a b c : List ε} (h : SetEq a b) (h' : SetEq b c) : SetEq a c := fun x => (h x).trans (h' x)

@[simp] theorem mem_unionL (a b : List ε) (x : ε) : x ∈ unionL a b ↔ x ∈ a ∨ x ∈ b := by
  unfold unionL
  simp only [List.mem_append, List.mem_filter, List.contains_eq_mem]
  grind

@[simp] theorem mem_diffL (a b : List ε) (x : ε) : x ∈ diffL a b ↔ x ∈ a ∧ x ∉ b := by
  unfold diffL
  simp

/-- `unionL` is associative ON THE NOSE (first occurrences are kept in order): what `Props/C11Inc.lean`
    asks of a combiner -/
theorem unionL_assoc (a b c : List ε) : unionL (unionL a b) c = unionL a (unionL b c) := by
  unfold unionL
  simp only [List.filter_append, List.append_assoc, List.filter_filter]
  congr 2
  apply List.filter_congr
  intro x _
  by_cases ha : x ∈ a <;> by_cases hb : x ∈ b <;> simp [ha, hb]

theorem setEq_nil {a : List ε} (h : SetEq a []) : a = [] := by
  cases a with
  | nil => rfl
  | cons x xs => exact absurd ((h x).mp (by simp)) (by simp)

theorem remove_spec (c : Cell ε) (a : ε) :
    (∀ x, x ∈ (c.remove a).value ↔ x ∈ c.value ∧ x ≠ a) ∧
    (∀ x, x ∈ (c.remove a).added ↔ x ∈ c.added ∧ ¬ (x = a ∧ a ∈ c.value)) ∧
    (∀ x, x ∈ (c.remove a).removed ↔ x ∈ c.removed ∨ (x = a ∧ a ∈ c.value ∧ a ∉ c.added)) ∧
    (c.remove a).modified = true ∧ (c.remove a).hasValue = true := by
  unfold Cell.remove Cell.touch Cell.mark
  by_cases hv : a ∈ c.value <;> by_cases ha : a ∈ c.added <;> simp [hv, ha] <;> grind

theorem addIfAbsent_spec (c : Cell ε) (a : ε) (hr : a ∉ c.removed) :
    (∀ x, x ∈ (c.addIfAbsent a).value ↔ x ∈ c.value ∨ x = a) ∧
    (∀ x, x ∈ (c.addIfAbsent a).added ↔ x ∈ c.added ∨ (x = a ∧ a ∉ c.value)) ∧
    (c.addIfAbsent a).removed = c.removed ∧
    (c.addIfAbsent a).modified = (c.modified || decide (a ∉ c.value)) ∧
    (c.addIfAbsent a).hasValue = (c.hasValue || decide (a ∉ c.value)) := by
  unfold Cell.addIfAbsent Cell.add Cell.touch Cell.mark
  by_cases hv : a ∈ c.value <;> simp [hv, hr] <;> grind

theorem foldl_remove_spec (rs : List ε) (c : Cell ε) :
    (∀ x, x ∈ (rs.foldl Cell.remove c).value ↔ x ∈ c.value ∧ x ∉ rs) ∧
    (∀ x, x ∈ (rs.foldl Cell.remove c).added ↔ x ∈ c.added ∧ ¬ (x ∈ rs ∧ x ∈ c.value)) ∧
    (∀ x, x ∈ (rs.foldl Cell.remove c).removed ↔ x ∈ c.removed ∨ (x ∈ rs ∧ x ∈ c.value ∧ x ∉ c.added)) ∧
    (rs.foldl Cell.remove c).modified = (c.modified || !rs.isEmpty) ∧
    (rs.foldl Cell.remove c).hasValue = (c.hasValue || !rs.isEmpty) := by
  induction rs generalizing c with
  | nil => simp
  | cons a rs ih =>
    obtain ⟨hv, ha, hr, hm, hh⟩ := remove_spec c a
    obtain ⟨iv, ia, ir, im, ih'⟩ := ih (c.remove a)
    simp only [List.foldl_cons]
    refine ⟨fun x => ?_, fun x => ?_, fun x => ?_, ?_, ?_⟩
    · rw [iv x, hv x]; simp only [List.mem_cons]; grind
    · rw [ia x, ha x, hv x]; simp only [List.mem_cons]; grind
    · rw [ir x, hr x, hv x, ha x]; simp only [List.mem_cons]; grind
    · rw [im, hm]; simp
    · rw [ih', hh]; simp

theorem foldl_add_spec (as : List ε) (c : Cell ε) (hr : ∀ a ∈ as, a ∉ c.removed) :
    (∀ x, x ∈ (as.foldl Cell.addIfAbsent c).value ↔ x ∈ c.value ∨ x ∈ as) ∧
    (∀ x, x ∈ (as.foldl Cell.addIfAbsent c).added ↔ x ∈ c.added ∨ (x ∈ as ∧ x ∉ c.value)) ∧
    (as.foldl Cell.addIfAbsent c).removed = c.removed ∧
    ((as.foldl Cell.addIfAbsent c).modified = true ↔ (c.modified = true ∨ ∃ a ∈ as, a ∉ c.value)) ∧
    ((as.foldl Cell.addIfAbsent c).hasValue = true ↔ (c.hasValue = true ∨ ∃ a ∈ as, a ∉ c.value)) := by
  induction as generalizing c with
  | nil => simp
  | cons a as ih =>
    obtain ⟨hv, ha, hrm, hm, hh⟩ := addIfAbsent_spec c a (hr a (by simp))
    have hr' : ∀ b ∈ as, b ∉ (c.addIfAbsent a).removed := by
      intro b hb; rw [hrm]; exact hr b (by simp [hb])
    obtain ⟨iv, ia, irm, im, ih'⟩ := ih (c.addIfAbsent a) hr'
    simp only [List.foldl_cons]
    refine ⟨fun x => ?_, fun x => ?_, ?_, ?_, ?_⟩
    · rw [iv x, hv x]; simp only [List.mem_cons]; grind
    · rw [ia x, ha x, hv x]; simp only [List.mem_cons]; grind
    · rw [irm, hrm]
    · rw [im, hm]; simp only [List.mem_cons, Bool.or_eq_true, decide_eq_true_eq]
      constructor
      · rintro (h | ⟨b, hb, hbv⟩)
        · grind
        · right; exact ⟨b, Or.inr hb, fun h => hbv ((hv b).mpr (Or.inl h))⟩
      · rintro (h | ⟨b, hb, hbv⟩)
        · exact Or.inl (Or.inl h)
        · rcases hb with rfl | hb
          · exact Or.inl (Or.inr hbv)
          · by_cases hba : b = a
            · subst hba; exact Or.inl (Or.inr hbv)
            · right; exact ⟨b, hb, fun h => by rcases (hv b).mp h with h | h <;> grind⟩
    · rw [ih', hh]; simp only [List.mem_cons, Bool.or_eq_true, decide_eq_true_eq]
      constructor
      · rintro (h | ⟨b, hb, hbv⟩)
        · grind
        · right; exact ⟨b, Or.inr hb, fun h => hbv ((hv b).mpr (Or.inl h))⟩
      · rintro (h | ⟨b, hb, hbv⟩)
        · exact Or.inl (Or.inl h)
        · rcases hb with rfl | hb
          · exact Or.inl (Or.inr hbv)
          · by_cases hba : b = a
            · subst hba; exact Or.inl (Or.inr hbv)
            · right; exact ⟨b, hb, fun h => by rcases (hv b).mp h with h | h <;> grind⟩

/-- a cell at the beginning of an engine time -/
structure Clean (c : Cell ε) : Prop where
  added : c.added = []
  removed : c.removed = []
  modified : c.modified = false
  hv : c.hasValue = false → c.value = []

/-- what a reconcile leaves behind, relative to the set `prev` the cell held and the set `new` of the source -/
structure Outcome (prev new : List ε) (c' : Cell ε) : Prop where
  value : SetEq c'.value new
  added : ∀ x, x ∈ c'.added ↔ x ∈ new ∧ x ∉ prev
  removed : ∀ x, x ∈ c'.removed ↔ x ∈ prev ∧ x ∉ new
  hv : c'.hasValue = false → c'.value = []
  quiet : c'.modified = false → c'.added = [] ∧ c'.removed = []


/-- removes then guarded adds on a clean cell, membership-wise -/
theorem remove_add_spec (rs as : List ε) (c : Cell ε) (h : Clean c) (hdis : ∀ a ∈ as, ¬ (a ∈ rs ∧ a ∈ c.value)) :
    (∀ x, x ∈ (as.foldl Cell.addIfAbsent (rs.foldl Cell.remove c)).value ↔ (x ∈ c.value ∧ x ∉ rs) ∨ x ∈ as) ∧
    (∀ x, x ∈ (as.foldl Cell.addIfAbsent (rs.foldl Cell.remove c)).added ↔ x ∈ as ∧ ¬ (x ∈ c.value ∧ x ∉ rs)) ∧
    (∀ x, x ∈ (as.foldl Cell.addIfAbsent (rs.foldl Cell.remove c)).removed ↔ x ∈ rs ∧ x ∈ c.value) ∧
    ((as.foldl Cell.addIfAbsent (rs.foldl Cell.remove c)).modified = true ↔
      (rs ≠ [] ∨ ∃ a ∈ as, ¬ (a ∈ c.value ∧ a ∉ rs))) ∧
    ((as.foldl Cell.addIfAbsent (rs.foldl Cell.remove c)).hasValue = true ↔
      (c.hasValue = true ∨ rs ≠ [] ∨ ∃ a ∈ as, ¬ (a ∈ c.value ∧ a ∉ rs))) := by
  obtain ⟨rv, ra, rr, rm, rh⟩ := foldl_remove_spec rs c
  have hd : ∀ a ∈ as, a ∉ (rs.foldl Cell.remove c).removed := by
    intro a ha hc
    rw [rr a, h.removed, h.added] at hc
    simp at hc
    exact hdis a ha hc
  obtain ⟨av, aa, ar, am, ah⟩ := foldl_add_spec as _ hd
  refine ⟨fun x => ?_, fun x => ?_, fun x => ?_, ?_, ?_⟩
  · rw [av x, rv x]
  · rw [aa x, ra x, rv x, h.added]; simp
  · rw [ar, rr x, h.removed, h.added]; simp
  · rw [am, rm, h.modified]
    simp only [Bool.false_or, Bool.not_eq_eq_eq_not, Bool.not_true, List.isEmpty_eq_false_iff, ne_eq]
    constructor
    · rintro (h1 | ⟨a, ha, hav⟩)
      · exact Or.inl h1
      · exact Or.inr ⟨a, ha, fun hh => hav ((rv a).mpr hh)⟩
    · rintro (h1 | ⟨a, ha, hav⟩)
      · exact Or.inl h1
      · exact Or.inr ⟨a, ha, fun hh => hav ((rv a).mp hh)⟩
  · rw [ah, rh]
    simp only [Bool.or_eq_true, Bool.not_eq_eq_eq_not, Bool.not_true, List.isEmpty_eq_false_iff, ne_eq]
    constructor
    · rintro ((h1 | h1) | ⟨a, ha, hav⟩)
      · exact Or.inl h1
      · exact Or.inr (Or.inl h1)
      · exact Or.inr (Or.inr ⟨a, ha, fun hh => hav ((rv a).mpr hh)⟩)
    · rintro (h1 | h1 | ⟨a, ha, hav⟩)
      · exact Or.inl (Or.inl h1)
      · exact Or.inl (Or.inr h1)
      · exact Or.inr ⟨a, ha, fun hh => hav ((rv a).mp hh)⟩

theorem clear_outcome (c : Cell ε) (h : Clean c) : Outcome c.value [] c.clear ∧ c.clear.modified = true := by
  unfold Cell.clear
  obtain ⟨fv, fa, fr, fm, fh⟩ := foldl_remove_spec c.value c.touch
  have hcl : c.touch.added = [] := h.added
  have hcr : c.touch.removed = [] := h.removed
  refine ⟨⟨fun x => ?_, fun x => ?_, fun x => ?_, ?_, ?_⟩, ?_⟩
  · rw [fv x]; simp [Cell.touch, Cell.mark]
  · rw [fa x, hcl]; simp
  · rw [fr x, hcr, hcl]; simp [Cell.touch, Cell.mark]
  · rw [fh]; simp [Cell.touch, Cell.mark]
  · rw [fm]; simp [Cell.touch, Cell.mark]
  · rw [fm]; simp [Cell.touch, Cell.mark]

/-- a membership description of removes-then-adds gives an `Outcome` -/
theorem outcome_of_spec (prev new : List ε) (c c2 : Cell ε) (rs as : List ε) (h : Clean c)
    (hprev : c.value = prev)
    (hspec : (∀ x, x ∈ c2.value ↔ (x ∈ c.value ∧ x ∉ rs) ∨ x ∈ as) ∧
      (∀ x, x ∈ c2.added ↔ x ∈ as ∧ ¬ (x ∈ c.value ∧ x ∉ rs)) ∧
      (∀ x, x ∈ c2.removed ↔ x ∈ rs ∧ x ∈ c.value) ∧
      (c2.modified = true ↔ (rs ≠ [] ∨ ∃ a ∈ as, ¬ (a ∈ c.value ∧ a ∉ rs))) ∧
      (c2.hasValue = true ↔ (c.hasValue = true ∨ rs ≠ [] ∨ ∃ a ∈ as, ¬ (a ∈ c.value ∧ a ∉ rs))))
    (hnew : ∀ x, x ∈ new ↔ (x ∈ prev ∧ x ∉ rs) ∨ x ∈ as)
    (hrs : ∀ x, x ∈ rs → x ∉ as)
    (hrsub : ∀ x, x ∈ rs → x ∈ prev) :
    Outcome prev new c2 := by
  obtain ⟨sv, sa, sr, sm, sh⟩ := hspec
  subst hprev
  refine ⟨fun x => ?_, fun x => ?_, fun x => ?_, ?_, ?_⟩
  · rw [sv x, hnew x]
  · rw [sa x, hnew x]; grind
  · rw [sr x, hnew x]; grind
  · intro hh
    have hn : ¬ (c2.hasValue = true) := by simp [hh]
    rw [sh] at hn
    have h1 : c.hasValue = false := by grind
    have hcv := h.hv h1
    have hrs0 : rs = [] := by grind
    apply setEq_nil
    intro x
    rw [sv x, hcv, hrs0]
    constructor
    · rintro (h2 | h2)
      · simp at h2
      · exact absurd (Or.inr (Or.inr ⟨x, h2, by rw [hcv]; simp⟩)) hn
    · intro h2; simp at h2
  · intro hm
    have hn : ¬ (c2.modified = true) := by simp [hm]
    rw [sm] at hn
    have hrs0 : rs = [] := by grind
    constructor
    · apply setEq_nil; intro x; rw [sa x]
      constructor
      · rintro ⟨h1, h2⟩; exact absurd (Or.inr ⟨x, h1, h2⟩) hn
      · intro h2; simp at h2
    · apply setEq_nil; intro x; rw [sr x, hrs0]; simp

theorem Outcome.touch {prev new : List ε} {c : Cell ε} (h : Outcome prev new c) : Outcome prev new c.touch :=
  ⟨h.value, h.added, h.removed, by simp [Cell.touch, Cell.mark], by simp [Cell.touch, Cell.mark]⟩

theorem Outcome.congr {prev new prev' new' : List ε} {c : Cell ε} (h : Outcome prev new c)
    (hp : SetEq prev prev') (hn : SetEq new new') : Outcome prev' new' c :=
  ⟨fun x => (h.value x).trans (hn x),
   fun x => by rw [h.added x, hn x, hp x],
   fun x => by rw [h.removed x, hn x, hp x], h.hv, h.quiet⟩

/-- nothing to do: the cell already holds the set -/
theorem outcome_self (c : Cell ε) (new : List ε) (h : Clean c) (hv : SetEq c.value new) : Outcome c.value new c :=
  ⟨hv, fun x => by rw [h.added, ← hv x]; simp, fun x => by rw [h.removed, ← hv x]; simp, h.hv,
   fun _ => ⟨h.added, h.removed⟩⟩

/-- `reconcile_set_impl`, `Full` scope, on a cell with an empty delta: afterwards the cell holds the source's
    set (nothing when the source is not live) and its delta is the exact difference -/
theorem full_outcome (sa : Bool) (c : Cell ε) (s : SView ε) (h : Clean c) :
    Outcome c.value (if s.live then s.value else []) (reconcileSet true sa c s) := by
  unfold reconcileSet
  simp only [Bool.true_or, Bool.not_true, Bool.false_eq_true, if_false, if_true]
  by_cases hl : s.live = true
  · simp only [hl, Bool.not_true, Bool.false_eq_true, if_false, if_true]
    have key : Outcome c.value s.value (s.value.foldl Cell.addIfAbsent
        ((c.value.filter (fun x => !s.value.contains x)).foldl Cell.remove c)) := by
      apply outcome_of_spec c.value s.value c _ (c.value.filter (fun x => !s.value.contains x)) s.value h rfl
      · apply remove_add_spec _ _ c h
        intro a ha hc
        simp at hc
        exact hc.1.2 ha
      · intro x; simp; grind
      · intro x hx; simp at hx; exact hx.2
      · intro x hx; simp at hx; exact hx.1
    cases sa with
    | false => simpa using key
    | true => simpa using key.touch
  · simp only [hl, Bool.not_false, if_true, Bool.false_eq_true, if_false]
    by_cases hh : c.hasValue = true
    · simp only [hh, if_true]; exact (clear_outcome c h).1
    · simp only [hh, Bool.false_eq_true, if_false]
      have hcv : c.value = [] := h.hv (by simpa using hh)
      have := outcome_self c [] h (by rw [hcv]; exact SetEq.refl _)
      exact this


/-! ## coherent sources, the ghost state, the invariant of the publication -/

/-- the source output `s` evolved from the set `prev` it held at the end of the previous cycle
    (`wasLive = false`: it held nothing) by exactly the delta it reports at this time -/
structure Coh (prev : List ε) (wasLive : Bool) (s : SView ε) : Prop where
  stays : wasLive = true → s.live = true
  modLive : s.modified = true → s.live = true
  quiet : s.modified = false → s.live = wasLive ∧ (s.live = true → SetEq s.value prev) ∧ s.added = [] ∧ s.removed = []
  added : s.modified = true → ∀ x, x ∈ s.added ↔ x ∈ s.value ∧ x ∉ prev
  removed : s.modified = true → ∀ x, x ∈ s.removed ↔ x ∈ prev ∧ x ∉ s.value

theorem Coh.congr {prev prev' : List ε} {w : Bool} {s : SView ε} (h : Coh prev w s) (hp : SetEq prev prev') :
    Coh prev' w s :=
  ⟨h.stays, h.modLive,
   fun hm => ⟨(h.quiet hm).1, fun hl => ((h.quiet hm).2.1 hl).trans hp, (h.quiet hm).2.2⟩,
   fun hm x => by rw [h.added hm x, hp x],
   fun hm x => by rw [h.removed hm x, hp x]⟩

/-- `reconcile_set_impl`, `Incremental` scope, on a cell with an empty delta that holds what the source held
    before: afterwards the cell holds the source's set and its delta is the exact difference -/
theorem inc_outcome (sa : Bool) (c : Cell ε) (s : SView ε) (w : Bool) (h : Clean c) (hc : Coh c.value w s)
    (hw : w = false → c.value = []) :
    Outcome c.value (if s.live then s.value else []) (reconcileSet false sa c s) := by
  unfold reconcileSet
  by_cases hm : s.modified = true
  · have hl := hc.modLive hm
    simp only [hl, hm, Bool.and_self, Bool.or_true, Bool.not_true, Bool.false_eq_true, if_false, if_true,
      Bool.false_or]
    have key : Outcome c.value s.value (s.added.foldl Cell.addIfAbsent (s.removed.foldl Cell.remove c)) := by
      apply outcome_of_spec c.value s.value c _ s.removed s.added h rfl
      · apply remove_add_spec _ _ c h
        intro a ha hcc
        rw [hc.added hm a] at ha
        rw [hc.removed hm a] at hcc
        exact hcc.1.2 ha.1
      · intro x; rw [hc.added hm x, hc.removed hm x]; grind
      · intro x hx; rw [hc.removed hm x] at hx; rw [hc.added hm x]; grind
      · intro x hx; rw [hc.removed hm x] at hx; exact hx.1
    cases sa with
    | false => simpa using key
    | true => simpa using key.touch
  · have hm' : s.modified = false := by simpa using hm
    obtain ⟨hlw, hv, ha, hr⟩ := hc.quiet hm'
    by_cases hl : s.live = true
    · have hself := outcome_self c s.value h (hv hl).symm
      cases sa with
      | false => simp [hm', hl]; exact hself
      | true => simp [hm', hl, ha, hr]; exact hself.touch
    · have hl' : s.live = false := by simpa using hl
      have hcv : c.value = [] := hw (by rw [← hlw, hl'])
      have hself := outcome_self c [] h (by rw [hcv]; exact SetEq.refl _)
      cases sa with
      | false => simp [hm', hl']; exact hself
      | true =>
        simp only [hm', hl', Bool.false_or, Bool.true_or, Bool.not_true, Bool.false_eq_true, if_false, Bool.not_false,
          if_true, Bool.and_false, Bool.or_false]
        by_cases hh : c.hasValue = true
        · simp only [hh, if_true]
          have := (clear_outcome c h).1
          rw [hcv] at this ⊢
          exact this
        · simp only [hh, Bool.false_eq_true, if_false]; exact hself

/-! ## the publication over a history of cycles -/

/-- ghost: the identity of the root after the last cycle and the set it held (`live = false`: nothing) -/
structure Ghost (κ ε : Type) where
  root : PSrc κ := .unbound
  val : List ε := []
  live : Bool := false

structure Ghost.WF (g : Ghost κ ε) : Prop where
  dead : g.live = false → g.val = []
  unbound : g.root = .unbound → g.live = false

/-- the publication state and the set the consumer holds -/
structure PState (κ ε : Type) where
  pub : Pub κ ε := {}
  seen : List ε := []

/-- what one engine cycle presents to the publication -/
structure Step (κ ε : Type) where
  /-- the old root as `rebuild_structure` finds it -/
  pv : SView ε := {}
  /-- the outputs after the evaluation loop -/
  view : PSrc κ → SView ε := fun _ => {}
  /-- `rebuild_structure` ran: the new root and `bank_changed` -/
  ev : Option (RootEv κ) := none
  /-- the node was evaluated -/
  evaluated : Bool := false

def srcView (view : PSrc κ → SView ε) (r : PSrc κ) : SView ε := if r = .unbound then noView else view r

def nextRoot (g : Ghost κ ε) (st : Step κ ε) : PSrc κ :=
  match st.ev with
  | some e => e.src
  | none => g.root

def nextG (g : Ghost κ ε) (st : Step κ ε) : Ghost κ ε :=
  let v := srcView st.view (nextRoot g st)
  { root := nextRoot g st, val := if v.live then v.value else [], live := v.live }

/-- one engine cycle of the KEYED publication and what the consumer sees -/
def pubStep (s : PState κ ε) (st : Step κ ε) : PState κ ε × Obs ε :=
  let p' := pubCycle true st.pv st.view s.pub st.ev st.evaluated
  let o := observe st.view p' s.seen
  ({ pub := p', seen := obsSet o }, o)

structure PInv (g : Ghost κ ε) (s : PState κ ε) : Prop where
  wf : g.WF
  direct : s.pub.active = false → s.pub.target = g.root
  snap : s.pub.active = true → s.pub.pending = g.root ∧ s.pub.fullRec = false ∧ s.pub.sampleAll = false ∧
      SetEq s.pub.snap.value g.val ∧ (s.pub.snap.hasValue = false → s.pub.snap.value = [])
  seen : SetEq s.seen g.val

structure StepOK (g : Ghost κ ε) (st : Step κ ε) : Prop where
  evEval : st.ev.isSome = true → st.evaluated = true
  pvOk : g.root ≠ .unbound → Coh g.val g.live st.pv
  sameOk : nextRoot g st = g.root → g.root ≠ .unbound → Coh g.val g.live (st.view g.root)
  idle : st.evaluated = false → g.root ≠ .unbound → (st.view g.root).modified = false

/-- the cycle that creates the snapshot while the OLD root itself changed in that cycle -/
def E1 (g : Ghost κ ε) (s : PState κ ε) (st : Step κ ε) : Prop :=
  s.pub.active = false ∧ g.root ≠ .unbound ∧ st.ev.isSome = true ∧ nextRoot g st ≠ g.root ∧
    st.pv.live = true ∧ st.pv.modified = true

structure ExactDelta (prev new : List ε) (o : Obs ε) : Prop where
  added : ∀ x, x ∈ o.added ↔ x ∈ new ∧ x ∉ prev
  removed : ∀ x, x ∈ o.removed ↔ x ∈ prev ∧ x ∉ new

theorem nextG_wf (g : Ghost κ ε) (st : Step κ ε) : (nextG g st).WF := by
  constructor
  · intro h; simp only [nextG] at h ⊢; simp [h]
  · intro h; simp only [nextG] at h ⊢; simp [srcView, h, noView]

/-- the snapshot branch: a clean snapshot holding the previous set is reconciled with the new root -/
theorem active_finish (g : Ghost κ ε) (st : Step κ ε) (p1 : Pub κ ε) (seen : List ε) (hact : p1.active = true)
    (hclean : Clean p1.snap) (hval : SetEq p1.snap.value g.val) (hpend : p1.pending = nextRoot g st)
    (hgw : g.WF)
    (hcoh : p1.fullRec = true ∨ Coh g.val g.live (srcView st.view (nextRoot g st))) :
    PInv (nextG g st) { pub := finishPub st.view p1, seen := obsSet (observe st.view (finishPub st.view p1) seen) } ∧
    SetEq (obsSet (observe st.view (finishPub st.view p1) seen)) (nextG g st).val ∧
    ExactDelta g.val (nextG g st).val (observe st.view (finishPub st.view p1) seen) := by
  have hout : Outcome g.val (nextG g st).val (reconcileSet p1.fullRec p1.sampleAll p1.snap (srcView st.view (nextRoot g st))) := by
    rcases hcoh with hf | hc
    · rw [hf]
      exact (full_outcome p1.sampleAll p1.snap _ hclean).congr hval (SetEq.refl _)
    · by_cases hf : p1.fullRec = true
      · rw [hf]
        exact (full_outcome p1.sampleAll p1.snap _ hclean).congr hval (SetEq.refl _)
      · have hf' : p1.fullRec = false := by simpa using hf
        rw [hf']
        have := inc_outcome p1.sampleAll p1.snap (srcView st.view (nextRoot g st)) g.live hclean
          (hc.congr hval.symm) (fun hl => setEq_nil (by rw [← hgw.dead hl]; exact hval))
        exact this.congr hval (SetEq.refl _)
  generalize hc' : reconcileSet p1.fullRec p1.sampleAll p1.snap (srcView st.view (nextRoot g st)) = c' at hout
  have hfin : finishPub st.view p1 = { p1 with snap := c', fullRec := false, sampleAll := false } := by
    simp [finishPub, hact, srcView, hpend, ← hc']
  rw [hfin]
  have hobs : obsSet (observe st.view { p1 with snap := c', fullRec := false, sampleAll := false } seen) = c'.value := by
    simp only [observe, hact, if_true, obsSet]
    split
    · rfl
    · rename_i hh
      exact (hout.hv (by simpa using hh)).symm
  refine ⟨⟨nextG_wf g st, ?_, ?_, ?_⟩, ?_, ?_⟩
  · intro h; simp [hact] at h
  · intro _
    exact ⟨hpend, rfl, rfl, hout.value, hout.hv⟩
  · show SetEq (obsSet _) _
    rw [hobs]; exact hout.value
  · rw [hobs]; exact hout.value
  · simp only [observe, hact, if_true]
    constructor
    · intro x
      show x ∈ (if _ then _ else _) ↔ _
      split
      · exact hout.added x
      · rename_i hm
        rw [← hout.added x, (hout.quiet (by simpa using hm)).1]
    · intro x
      show x ∈ (if _ then _ else _) ↔ _
      split
      · exact hout.removed x
      · rename_i hm
        rw [← hout.removed x, (hout.quiet (by simpa using hm)).2]

theorem coh_noView (g : Ghost κ ε) (hw : g.WF) (hr : g.root = .unbound) : Coh g.val g.live (noView : SView ε) := by
  have hl := hw.unbound hr
  constructor
  · intro h; rw [hl] at h; cases h
  · intro h; simp [noView] at h
  · intro _; simp [noView, hl]
  · intro h; simp [noView] at h
  · intro h; simp [noView] at h

/-- a sampled re-point: the consumer's delta is the difference between what it held and the new target's set -/
theorem observeDirect_rebound (s : SView ε) (seen : List ε) :
    obsSet (observeDirect s true seen) = (if s.live then s.value else []) ∧
    ExactDelta seen (if s.live then s.value else []) (observeDirect s true seen) := by
  unfold observeDirect
  by_cases hl : s.live = true
  · simp only [hl, if_true, obsSet]
    exact ⟨trivial, ⟨fun x => by simp, fun x => by simp⟩⟩
  · simp only [hl, if_true, Bool.false_eq_true, if_false, obsSet]
    exact ⟨trivial, ⟨fun x => by simp, fun x => by simp⟩⟩

/-- no re-point: the consumer sees the target's own tick -/
theorem observeDirect_forward (s : SView ε) (seen prev : List ε) (w : Bool) (hc : Coh prev w s) (hw : w = false → prev = []) :
    obsSet (observeDirect s false seen) = (if s.live then s.value else []) ∧
    ExactDelta prev (if s.live then s.value else []) (observeDirect s false seen) := by
  unfold observeDirect
  by_cases hl : s.live = true
  · simp only [hl, Bool.not_true, Bool.false_eq_true, if_false, if_true, obsSet]
    refine ⟨trivial, ?_⟩
    by_cases hm : s.modified = true
    · simp only [hm, if_true]
      exact ⟨hc.added hm, hc.removed hm⟩
    · have hm' : s.modified = false := by simpa using hm
      simp only [hm', Bool.false_eq_true, if_false]
      have hq := (hc.quiet hm').2.1 hl
      exact ⟨fun x => by rw [hq x]; simp, fun x => by rw [hq x]; simp⟩
  · have hl' : s.live = false := by simpa using hl
    simp only [hl', Bool.not_false, if_true, obsSet, Bool.false_eq_true, if_false]
    have hwf : w = false := by
      cases w with
      | false => rfl
      | true => have := hc.stays rfl; rw [hl'] at this; cases this
    rw [hw hwf]
    exact ⟨trivial, ⟨fun x => by simp, fun x => by simp⟩⟩

@[simp] theorem newCycle_value (c : Cell ε) : c.newCycle.value = c.value := rfl
@[simp] theorem newCycle_added (c : Cell ε) : c.newCycle.added = [] := rfl
@[simp] theorem newCycle_removed (c : Cell ε) : c.newCycle.removed = [] := rfl
@[simp] theorem newCycle_modified (c : Cell ε) : c.newCycle.modified = false := rfl
@[simp] theorem newCycle_hasValue (c : Cell ε) : c.newCycle.hasValue = c.hasValue := rfl
@[simp] theorem touch_value (c : Cell ε) : c.touch.value = c.value := rfl
@[simp] theorem touch_added (c : Cell ε) : c.touch.added = c.added := rfl
@[simp] theorem touch_removed (c : Cell ε) : c.touch.removed = c.removed := rfl
@[simp] theorem touch_modified (c : Cell ε) : c.touch.modified = true := rfl
@[simp] theorem touch_hasValue (c : Cell ε) : c.touch.hasValue = true := rfl

/-- removes then guarded adds on a cell whose whole value sits in this cycle's delta -/
theorem filled_remove_add (rs as : List ε) (c : Cell ε) (hr : c.removed = []) (ha : ∀ x, x ∈ c.added ↔ x ∈ c.value) :
    (∀ x, x ∈ (as.foldl Cell.addIfAbsent (rs.foldl Cell.remove c)).value ↔ (x ∈ c.value ∧ x ∉ rs) ∨ x ∈ as) ∧
    (∀ x, x ∈ (as.foldl Cell.addIfAbsent (rs.foldl Cell.remove c)).added ↔ (x ∈ c.value ∧ x ∉ rs) ∨ x ∈ as) ∧
    (as.foldl Cell.addIfAbsent (rs.foldl Cell.remove c)).removed = [] ∧
    ((as.foldl Cell.addIfAbsent (rs.foldl Cell.remove c)).hasValue = true ↔
      (c.hasValue = true ∨ rs ≠ [] ∨ ∃ a ∈ as, ¬ (a ∈ c.value ∧ a ∉ rs))) := by
  obtain ⟨rv, ra, rr, rm, rh⟩ := foldl_remove_spec rs c
  have hrem : (rs.foldl Cell.remove c).removed = [] := by
    apply setEq_nil; intro x; rw [rr x, hr, ha x]; simp
  have hd : ∀ a ∈ as, a ∉ (rs.foldl Cell.remove c).removed := by
    intro a _; rw [hrem]; simp
  obtain ⟨av, aa, ar, am, ah⟩ := foldl_add_spec as _ hd
  refine ⟨fun x => ?_, fun x => ?_, ar.trans hrem, ?_⟩
  · rw [av x, rv x]
  · rw [aa x, ra x, rv x, ha x]; grind
  · rw [ah, rh]
    simp only [Bool.or_eq_true, Bool.not_eq_eq_eq_not, Bool.not_true, List.isEmpty_eq_false_iff, ne_eq]
    constructor
    · rintro ((h1 | h1) | ⟨a, ha', hav⟩)
      · exact Or.inl h1
      · exact Or.inr (Or.inl h1)
      · exact Or.inr (Or.inr ⟨a, ha', fun hh => hav ((rv a).mpr hh)⟩)
    · rintro (h1 | h1 | ⟨a, ha', hav⟩)
      · exact Or.inl (Or.inl h1)
      · exact Or.inl (Or.inr h1)
      · exact Or.inr ⟨a, ha', fun hh => hav ((rv a).mp hh)⟩

/-- the snapshot just created from an old root that was modified in this very cycle: its whole value sits in the
    delta of this cycle.  After the full reconcile the VALUE is right; the delta is the whole new value. -/
theorem filled_full (sa : Bool) (c : Cell ε) (s : SView ε) (hr : c.removed = []) (ha : ∀ x, x ∈ c.added ↔ x ∈ c.value)
    (hh : c.hasValue = false → c.value = []) :
    SetEq (reconcileSet true sa c s).value (if s.live then s.value else []) ∧
    ((reconcileSet true sa c s).hasValue = false → (reconcileSet true sa c s).value = []) ∧
    (s.live = true → (∀ x, x ∈ (reconcileSet true sa c s).added ↔ x ∈ s.value) ∧ (reconcileSet true sa c s).removed = []) := by
  unfold reconcileSet
  simp only [Bool.true_or, Bool.not_true, Bool.false_eq_true, if_false]
  by_cases hl : s.live = true
  · simp only [hl, Bool.not_true, Bool.false_eq_true, if_false, if_true]
    obtain ⟨fv, fa, fr, fh⟩ := filled_remove_add (c.value.filter (fun x => !s.value.contains x)) s.value c hr ha
    generalize s.value.foldl Cell.addIfAbsent ((c.value.filter (fun x => !s.value.contains x)).foldl Cell.remove c) = c2
      at fv fa fr fh
    have hval : SetEq c2.value s.value := by
      intro x; rw [fv x]; simp; grind
    have hadd : ∀ x, x ∈ c2.added ↔ x ∈ s.value := by
      intro x; rw [fa x]; simp; grind
    have hhv : c2.hasValue = false → c2.value = [] := by
      intro h0
      have hn : ¬ (c2.hasValue = true) := by simp [h0]
      rw [fh] at hn
      have h1 : c.hasValue = false := by
        cases hcv : c.hasValue with
        | false => rfl
        | true => exact absurd (Or.inl rfl) (by rw [hcv] at hn; exact hn)
      have hcv := hh h1
      apply setEq_nil
      intro x
      rw [hval x]
      constructor
      · intro hx
        exact absurd (Or.inr (Or.inr ⟨x, hx, by rw [hcv]; simp⟩)) hn
      · intro hx; simp at hx
    cases sa with
    | false => exact ⟨hval, hhv, fun _ => ⟨hadd, fr⟩⟩
    | true =>
      simp only [if_true, touch_value, touch_added, touch_removed, touch_hasValue]
      exact ⟨hval, fun h => by simp at h, fun _ => ⟨hadd, fr⟩⟩
  · simp only [hl, Bool.not_false, if_true, Bool.false_eq_true, if_false]
    refine ⟨?_, ?_, fun h => by simp at h⟩
    · split
      · intro x
        obtain ⟨fv, _⟩ := foldl_remove_spec c.value c.touch
        unfold Cell.clear
        rw [fv x]; simp
      · rename_i h0
        rw [hh (by simpa using h0)]; exact SetEq.refl _
    · split
      · intro h0
        obtain ⟨_, _, _, _, fh⟩ := foldl_remove_spec c.value c.touch
        unfold Cell.clear at h0
        rw [fh] at h0
        simp at h0
      · exact hh

theorem ExactDelta.congr_prev {prev prev' new : List ε} {o : Obs ε} (h : ExactDelta prev new o) (hp : SetEq prev prev') :
    ExactDelta prev' new o :=
  ⟨fun x => by rw [h.added x, hp x], fun x => by rw [h.removed x, hp x]⟩

/-- the view of the root of the last cycle is coherent with the ghost when the root stays -/
theorem coh_root (g : Ghost κ ε) (st : Step κ ε) (hw : g.WF) (ho : StepOK g st) (hnr : nextRoot g st = g.root) :
    Coh g.val g.live (srcView st.view (nextRoot g st)) := by
  rw [hnr]
  by_cases hr : g.root = .unbound
  · simp only [srcView, hr, if_true]; exact coh_noView g hw hr
  · simp only [srcView, hr, if_false]; exact ho.sameOk hnr hr

/-- forwarding (no snapshot, no re-point) -/
theorem direct_forward (g : Ghost κ ε) (st : Step κ ε) (p0 : Pub κ ε) (seen : List ε) (hw : g.WF) (ho : StepOK g st)
    (ha : p0.active = false) (hb : p0.rebound = false) (ht : p0.target = g.root) (hnr : nextRoot g st = g.root) :
    PInv (nextG g st) { pub := p0, seen := obsSet (observe st.view p0 seen) } ∧
    SetEq (obsSet (observe st.view p0 seen)) (nextG g st).val ∧
    ExactDelta g.val (nextG g st).val (observe st.view p0 seen) := by
  have hc := coh_root g st hw ho hnr
  have hobs : observe st.view p0 seen = observeDirect (srcView st.view (nextRoot g st)) false seen := by
    simp [observe, ha, hb, srcView, ht, hnr]
  obtain ⟨h1, h2⟩ := observeDirect_forward (srcView st.view (nextRoot g st)) seen g.val g.live hc hw.dead
  rw [hobs]
  have hv : (nextG g st).val = (if (srcView st.view (nextRoot g st)).live then (srcView st.view (nextRoot g st)).value else []) := rfl
  refine ⟨⟨nextG_wf g st, fun _ => by show p0.target = nextRoot g st; rw [ht, hnr], fun h => by simp [ha] at h, ?_⟩, ?_, ?_⟩
  · show SetEq (obsSet _) _
    rw [h1, hv]; exact SetEq.refl _
  · rw [h1, hv]; exact SetEq.refl _
  · rw [hv]; exact h2

/-- a sampled re-point to the new root -/
theorem direct_rebound (g : Ghost κ ε) (st : Step κ ε) (p1 : Pub κ ε) (seen : List ε) (hs : SetEq seen g.val)
    (ha : p1.active = false) (hb : p1.rebound = true) (ht : p1.target = nextRoot g st) :
    PInv (nextG g st) { pub := p1, seen := obsSet (observe st.view p1 seen) } ∧
    SetEq (obsSet (observe st.view p1 seen)) (nextG g st).val ∧
    ExactDelta g.val (nextG g st).val (observe st.view p1 seen) := by
  have hobs : observe st.view p1 seen = observeDirect (srcView st.view (nextRoot g st)) true seen := by
    simp [observe, ha, hb, srcView, ht]
  obtain ⟨h1, h2⟩ := observeDirect_rebound (srcView st.view (nextRoot g st)) seen
  rw [hobs]
  have hv : (nextG g st).val = (if (srcView st.view (nextRoot g st)).live then (srcView st.view (nextRoot g st)).value else []) := rfl
  refine ⟨⟨nextG_wf g st, fun _ => ht, fun h => by simp [ha] at h, ?_⟩, ?_, ?_⟩
  · show SetEq (obsSet _) _
    rw [h1, hv]; exact SetEq.refl _
  · rw [h1, hv]; exact SetEq.refl _
  · rw [hv]; exact h2.congr_prev hs

/-- the snapshot as `begin_keyed_reduce_publication` fills it from an old root that was NOT modified in this cycle -/
theorem fillSnapshot_clean (pv : SView ε) (hl : pv.live = true) (hm : pv.modified = false) :
    Clean (fillSnapshot pv) ∧ SetEq (fillSnapshot pv).value pv.value := by
  have hc0 : Clean ({} : Cell ε) := ⟨rfl, rfl, rfl, fun _ => rfl⟩
  have ho := full_outcome false ({} : Cell ε) pv hc0
  simp only [hl, if_true] at ho
  unfold fillSnapshot
  simp only [hm, Bool.false_eq_true, if_false]
  exact ⟨⟨rfl, rfl, rfl, ho.hv⟩, ho.value⟩

/-- ... and from an old root that WAS modified in this cycle: the whole value sits in this cycle's delta -/
theorem fillSnapshot_filled (pv : SView ε) (hl : pv.live = true) (hm : pv.modified = true) :
    (fillSnapshot pv).removed = [] ∧ (∀ x, x ∈ (fillSnapshot pv).added ↔ x ∈ (fillSnapshot pv).value) ∧
    ((fillSnapshot pv).hasValue = false → (fillSnapshot pv).value = []) := by
  have hc0 : Clean ({} : Cell ε) := ⟨rfl, rfl, rfl, fun _ => rfl⟩
  have ho := full_outcome false ({} : Cell ε) pv hc0
  simp only [hl, if_true] at ho
  unfold fillSnapshot
  simp only [hm, if_true]
  refine ⟨?_, fun x => ?_, ho.hv⟩
  · apply setEq_nil; intro x; rw [ho.removed x]; simp
  · rw [ho.added x, ho.value x]; simp

/-- the publication state when a new engine time begins -/
def pubNew (p : Pub κ ε) : Pub κ ε := { p with rebound := false, snap := p.snap.newCycle }
/-- ... after `begin` with the snapshot active -/
def pubBeginActive (p : Pub κ ε) (e : RootEv κ) : Pub κ ε :=
  { pubNew p with fullRec := p.fullRec || decide (e.src ≠ p.pending), sampleAll := p.sampleAll || e.bankChanged, pending := e.src }
/-- ... after a sampled re-point -/
def pubRebound (p : Pub κ ε) (src : PSrc κ) : Pub κ ε := { pubNew p with rebound := true, target := src }
/-- ... after the snapshot was created -/
def pubCreated (p : Pub κ ε) (pv : SView ε) (e : RootEv κ) : Pub κ ε :=
  { pubNew p with target := .unbound, active := true, snap := fillSnapshot pv, pending := e.src, fullRec := true,
                  sampleAll := e.bankChanged }


/-! ## a cell that already holds the set is not touched -/

/-- a reconcile that finds the cell already holding the source's set does not touch it (no `sample_all`) -/
theorem reconcile_quiet (full : Bool) (c : Cell ε) (s : SView ε) (w : Bool) (h : Clean c) (hl : s.live = true)
    (hc : full = true ∨ Coh c.value w s) (heq : SetEq c.value s.value) :
    (reconcileSet full false c s).modified = false := by
  cases full with
  | true =>
    unfold reconcileSet
    simp only [Bool.true_or, Bool.not_true, Bool.false_eq_true, if_false, hl, if_true]
    obtain ⟨_, _, _, sm, _⟩ := remove_add_spec (c.value.filter (fun x => !s.value.contains x)) s.value c h
      (by intro a ha hcc; simp at hcc; exact hcc.1.2 ha)
    generalize s.value.foldl Cell.addIfAbsent ((c.value.filter (fun x => !s.value.contains x)).foldl Cell.remove c) = c2 at sm
    cases hm : c2.modified with
    | false => rfl
    | true =>
      exfalso
      rcases sm.mp hm with h1 | ⟨a, ha, hna⟩
      · obtain ⟨x, hx⟩ := List.exists_mem_of_ne_nil _ h1
        simp at hx
        exact hx.2 ((heq x).mp hx.1)
      · apply hna
        refine ⟨(heq a).mpr ha, ?_⟩
        simp; intro _; exact ha
  | false =>
    rcases hc with hc | hc
    · cases hc
    · by_cases hm : s.modified = true
      · unfold reconcileSet
        simp only [hl, hm, Bool.and_self, Bool.or_true, Bool.not_true, Bool.false_eq_true, if_false]
        obtain ⟨_, _, _, sm, _⟩ := remove_add_spec s.removed s.added c h
          (by intro a ha hcc; rw [hc.added hm a] at ha; rw [hc.removed hm a] at hcc; exact hcc.1.2 ha.1)
        generalize s.added.foldl Cell.addIfAbsent (s.removed.foldl Cell.remove c) = c2 at sm
        cases hm2 : c2.modified with
        | false => rfl
        | true =>
          exfalso
          rcases sm.mp hm2 with h1 | ⟨a, ha, hna⟩
          · obtain ⟨x, hx⟩ := List.exists_mem_of_ne_nil _ h1
            rw [hc.removed hm x] at hx
            exact hx.2 ((heq x).mp hx.1)
          · rw [hc.added hm a] at ha
            exact ha.2 ((heq a).mpr ha.1)
      · have hm' : s.modified = false := by simpa using hm
        unfold reconcileSet
        simp only [hl, hm', Bool.and_false, Bool.or_false, Bool.not_false, if_true]
        exact h.modified

theorem active_finish_quiet (g : Ghost κ ε) (st : Step κ ε) (p1 : Pub κ ε) (seen : List ε) (hact : p1.active = true)
    (hclean : Clean p1.snap) (hval : SetEq p1.snap.value g.val) (hpend : p1.pending = nextRoot g st)
    (hcoh : p1.fullRec = true ∨ Coh g.val g.live (srcView st.view (nextRoot g st)))
    (hsa : p1.sampleAll = false) (hl : (nextG g st).live = true) (heq : SetEq g.val (nextG g st).val) :
    (observe st.view (finishPub st.view p1) seen).modified = false := by
  have hl' : (srcView st.view (nextRoot g st)).live = true := hl
  have hv' : (nextG g st).val = (srcView st.view (nextRoot g st)).value := by
    show (if (srcView st.view (nextRoot g st)).live then _ else _) = _
    simp [hl']
  have hq := reconcile_quiet p1.fullRec p1.snap (srcView st.view (nextRoot g st)) g.live hclean hl'
    (by rcases hcoh with h | h
        · exact Or.inl h
        · exact Or.inr (h.congr hval.symm))
    (by rw [← hv']; exact hval.trans heq)
  simp [finishPub, hact, observe, srcView, hpend, hsa] at hq ⊢
  exact hq


/-! ## the fold of set union; the views `cycleK` builds -/

theorem mem_foldl_unionL (vs : List (List ε)) (acc : Option (List ε)) (x : ε) :
    x ∈ (vs.foldl (foldStep unionL) acc).getD [] ↔ x ∈ acc.getD [] ∨ ∃ v ∈ vs, x ∈ v := by
  induction vs generalizing acc with
  | nil => simp
  | cons v vs ih =>
    simp only [List.foldl_cons]
    rw [ih]
    cases acc with
    | none => simp [foldStep]
    | some a => simp [foldStep]; grind

/-- the fold of set union over a list of sets holds exactly the members of the sets -/
theorem mem_foldOpt_unionL (vs : List (List ε)) (x : ε) :
    x ∈ (foldOpt unionL vs).getD [] ↔ ∃ v ∈ vs, x ∈ v := by
  unfold foldOpt
  rw [mem_foldl_unionL]
  simp

/-- the view of the CURRENT root after the evaluation loop is the cached root value of `Model/ReduceInc.lean` -/
theorem root_view_eq_rootVal (hz : Bool) (g g' : GSt κ (List ε)) (fresh : Nat → Bool) (i : KIn κ ε) :
    (srcView (curView hz g fresh g' i) (rootId hz g'.tree)).live = (rootVal hz i.inp.zero i.inp.src g'.toL).isSome ∧
    ((srcView (curView hz g fresh g' i) (rootId hz g'.tree)).live = true →
      (srcView (curView hz g fresh g' i) (rootId hz g'.tree)).value = (rootVal hz i.inp.zero i.inp.src g'.toL).getD []) := by
  unfold rootVal rootId
  simp only [GSt.toL]
  cases hr : rootAgg hz g'.tree.cap g'.tree.keys.length g'.tree.combiners.length with
  | empty =>
    cases hz with
    | false => simp [srcView, aggVal, noView]
    | true =>
      simp only [if_true, srcView, aggVal, curView]
      cases hzv : i.inp.zero with
      | none => simp [inputView]
      | some z => simp [inputView]
  | leaf j =>
    simp only [aggVal, leafVal]
    cases hk : g'.tree.keys[j]? with
    | none => simp [srcView, noView]
    | some k =>
      simp only [srcView, curView]
      cases hs : i.inp.src k with
      | none => simp [inputView]
      | some v => simp [inputView]
  | node q =>
    simp only [aggVal, srcView, curView]
    cases hc : (g'.cache[q]?).getD none with
    | none => simp [combView]
    | some v => simp [combView]

/-- a combiner's output view is coherent BY CONSTRUCTION: `union_tss_binary` writes the difference to its own
    previous output, and ticks when that is non-empty or the output had no value -/
theorem combView_coh (old new : Option (List ε)) (h : old.isSome = true → new.isSome = true) :
    Coh (old.getD []) old.isSome (combView old new) := by
  cases new with
  | none =>
    have ho : old = none := by
      cases old with
      | none => rfl
      | some _ => simp at h
    subst ho
    constructor <;> simp [combView]
  | some v =>
    cases old with
    | none =>
      refine ⟨fun h => by simp at h, fun _ => by simp [combView], fun h => by simp [combView] at h, ?_, ?_⟩
      · intro _ x; simp [combView]
      · intro _ x; simp [combView]
    | some o =>
      refine ⟨fun _ => by simp [combView], fun _ => by simp [combView], ?_, ?_, ?_⟩
      · intro hm
        simp only [combView, Option.getD_some, Option.isNone_some, Bool.or_false, Bool.or_eq_false_iff,
          Bool.not_eq_false', List.isEmpty_iff] at hm
        refine ⟨by simp [combView], fun _ => ?_, by simp [combView, hm.1], by simp [combView, hm.2]⟩
        intro x
        have h1 : x ∉ diffL v o := by rw [hm.1]; simp
        have h2 : x ∉ diffL o v := by rw [hm.2]; simp
        simp only [mem_diffL, not_and, Decidable.not_not] at h1 h2
        simp only [combView, Option.getD_some]
        exact ⟨h1, h2⟩
      · intro _ x; simp [combView]
      · intro _ x; simp [combView]

/-- an element / zero output replayed with the exact difference to its previous value is coherent -/
theorem inputView_coh (old new : Option (List ε)) (ticked : Bool) (d : List ε × List ε)
    (hstay : old.isSome = true → new.isSome = true)
    (hquiet : ticked = false → new = old)
    (hadd : ticked = true → ∀ x, x ∈ d.1 ↔ x ∈ new.getD [] ∧ x ∉ old.getD [])
    (hrem : ticked = true → ∀ x, x ∈ d.2 ↔ x ∈ old.getD [] ∧ x ∉ new.getD [])
    (hlive : ticked = true → new.isSome = true) :
    Coh (old.getD []) old.isSome (inputView new ticked d) := by
  cases new with
  | none =>
    have ho : old = none := by
      cases old with
      | none => rfl
      | some _ => simp at hstay
    subst ho
    have ht : ticked = false := by
      cases ticked with
      | false => rfl
      | true => simp at hlive
    subst ht
    constructor <;> simp [inputView]
  | some v =>
    cases ticked with
    | false =>
      have := hquiet rfl
      subst this
      refine ⟨fun _ => by simp [inputView], fun h => by simp [inputView] at h, fun _ => ?_, fun h => by simp [inputView] at h,
        fun h => by simp [inputView] at h⟩
      simp [inputView, SetEq]
    | true =>
      refine ⟨fun _ => by simp [inputView], fun _ => by simp [inputView], fun h => by simp [inputView] at h, ?_, ?_⟩
      · intro _ x; simpa [inputView] using hadd rfl x
      · intro _ x; simpa [inputView] using hrem rfl x

end HgVerif.ReduceKeyed
