import HgVerif.Model.Notify
/-! Helper lemmas for `Props/C07Notify.lean`: what user code and one batch do to the executor, and the drain under
a thread that holds nothing. -/
set_option linter.unusedSimpArgs false
namespace HgVerif.Notify

/-! ### queues -/

@[simp] theorem push_log (st : Exec) (cb : Cb) : (st.push cb).log = st.log := by
  unfold Exec.push; split <;> rfl

@[simp] theorem emit_log (st : Exec) (e : Ev) : (st.emit e).log = st.log ++ [e] := rfl

@[simp] theorem emit_queue (st : Exec) (e : Ev) (b : Bool) : (st.emit e).queue b = st.queue b := by
  cases b <;> rfl

@[simp] theorem setQueue_log (st : Exec) (b : Bool) (q : List Cb) : (st.setQueue b q).log = st.log := by
  cases b <;> rfl

@[simp] theorem setQueue_queue (st : Exec) (b : Bool) (q : List Cb) : (st.setQueue b q).queue b = q := by
  cases b <;> rfl

theorem setQueue_queue_other (st : Exec) (b : Bool) (q : List Cb) : (st.setQueue b q).queue (!b) = st.queue (!b) := by
  cases b <;> rfl

/-- callbacks of kind `b` among a list of callbacks -/
def ofKind (b : Bool) (cbs : List Cb) : List Cb := cbs.filter (fun cb => cb.lbl.before == b)

theorem push_queue (st : Exec) (cb : Cb) (b : Bool) :
    (st.push cb).queue b = st.queue b ++ ofKind b [cb] := by
  rcases cb with ⟨⟨k, i⟩, env⟩
  cases b <;> cases k <;> simp [Exec.push, Exec.queue, ofKind]

/-- the closures user code over table `env` creates (all of them when it does not throw) -/
def regsOf (env : Defs) : List Act → List Cb
  | [] => []
  | .reg l :: rest => ⟨l, env⟩ :: regsOf env rest
  | .throw :: _ => []

theorem ofKind_append (b : Bool) (xs ys : List Cb) : ofKind b (xs ++ ys) = ofKind b xs ++ ofKind b ys := by
  simp [ofKind]

theorem mem_ofKind {b : Bool} {cb : Cb} {l : List Cb} (h : cb ∈ ofKind b l) : cb ∈ l := by
  unfold ofKind at h; exact (List.mem_filter.mp h).1

theorem regsOf_env {env : Defs} {acts : List Act} {cb : Cb} (h : cb ∈ regsOf env acts) : cb.env = env := by
  induction acts with
  | nil => simp [regsOf] at h
  | cons a rest ih =>
    cases a with
    | reg l =>
      simp only [regsOf, List.mem_cons] at h
      rcases h with rfl | h
      · rfl
      · exact ih h
    | throw => simp [regsOf] at h

/-! ### user code -/

theorem runActs_log (env : Defs) (who : Err) (ev : Ev) (acts : List Act) (st : Exec) :
    (runActs env who ev acts st).1.log =
      st.log ++ (match (runActs env who ev acts st).2 with | none => [] | some _ => [ev]) := by
  induction acts generalizing st with
  | nil => simp [runActs]
  | cons a rest ih =>
    cases a with
    | reg l => simp only [runActs]; rw [ih]; simp
    | throw => simp [runActs]

theorem runActs_err (env : Defs) (who : Err) (ev : Ev) (acts : List Act) (st : Exec) (e : Err)
    (h : (runActs env who ev acts st).2 = some e) : e = who := by
  induction acts generalizing st with
  | nil => simp [runActs] at h
  | cons a rest ih =>
    cases a with
    | reg l => simp only [runActs] at h; exact ih _ h
    | throw => simp [runActs] at h; exact h.symm

theorem runActs_queue (env : Defs) (who : Err) (ev : Ev) (acts : List Act) (st : Exec) (b : Bool) :
    (runActs env who ev acts st).1.queue b = st.queue b ++ ofKind b (regsOf env acts) := by
  induction acts generalizing st with
  | nil => simp [runActs, regsOf, ofKind]
  | cons a rest ih =>
    cases a with
    | reg l =>
      simp only [runActs, regsOf]; rw [ih, push_queue]
      have : (⟨l, env⟩ : Cb) :: regsOf env rest = [⟨l, env⟩] ++ regsOf env rest := rfl
      rw [this, ofKind_append, List.append_assoc]
    | throw => simp [runActs, regsOf, ofKind]

/-- no `throw` among the actions -/
def ActsQuiet (acts : List Act) : Prop := Act.throw ∉ acts

theorem runActs_quiet (env : Defs) (who : Err) (ev : Ev) (acts : List Act) (st : Exec) (h : ActsQuiet acts) :
    (runActs env who ev acts st).2 = none := by
  induction acts generalizing st with
  | nil => rfl
  | cons a rest ih =>
    cases a with
    | reg l =>
      simp only [runActs]
      exact ih _ (fun hm => h (List.mem_cons_of_mem _ hm))
    | throw => exact absurd (List.mem_cons_self) h

/-! ### one callback, one batch -/

/-- the closures a callback creates when it fires -/
def kidsOf (cb : Cb) : List Cb := regsOf cb.env (actsOf cb.env cb.lbl.id)

theorem kidsOf_env {p cb : Cb} (h : cb ∈ kidsOf p) : cb.env = p.env := regsOf_env h

theorem fire_log (cb : Cb) (st : Exec) :
    (fire cb st).1.log =
      st.log ++ .fire cb.lbl :: (match (fire cb st).2 with | none => [] | some _ => [.noteThrow]) := by
  unfold fire; rw [runActs_log]; simp

theorem fire_err (cb : Cb) (st : Exec) (e : Err) (h : (fire cb st).2 = some e) : e = .note cb.lbl :=
  runActs_err _ _ _ _ _ _ h

theorem fire_queue (cb : Cb) (st : Exec) (b : Bool) :
    (fire cb st).1.queue b = st.queue b ++ ofKind b (kidsOf cb) := by
  unfold fire kidsOf; rw [runActs_queue]; simp

theorem runBatch_cons (cb : Cb) (rest : List Cb) (st : Exec) :
    runBatch (cb :: rest) st =
      (match (fire cb st).2 with
       | some e => ((fire cb st).1, some e)
       | none => runBatch rest (fire cb st).1) := by
  simp only [runBatch]
  rcases hf : fire cb st with ⟨st', _ | e⟩ <;> simp

/-- the queue after a batch that ran to its end: what it held plus the closures the callbacks created, in firing order -/
theorem runBatch_queue (order : List Cb) (st : Exec) (b : Bool) (h : (runBatch order st).2 = none) :
    (runBatch order st).1.queue b = st.queue b ++ ofKind b (order.flatMap kidsOf) := by
  induction order generalizing st with
  | nil => simp [runBatch, ofKind]
  | cons cb rest ih =>
    rw [runBatch_cons] at h ⊢
    rcases hf : (fire cb st).2 with _ | e
    · simp only [hf] at h ⊢
      rw [ih _ h, fire_queue, List.flatMap_cons, ofKind_append, List.append_assoc]
    · simp [hf] at h

theorem runBatch_fires (order : List Cb) (st : Exec) (h : (runBatch order st).2 = none) :
    (runBatch order st).1.log = st.log ++ order.map (fun cb => .fire cb.lbl) := by
  induction order generalizing st with
  | nil => simp [runBatch]
  | cons cb rest ih =>
    rw [runBatch_cons] at h ⊢
    rcases hf : (fire cb st).2 with _ | e
    · simp only [hf] at h ⊢
      have hl := fire_log cb st
      rw [hf] at hl
      rw [ih _ h, hl]; simp
    · simp [hf] at h

theorem runBatch_throws (order : List Cb) (st : Exec) (e : Err) (h : (runBatch order st).2 = some e) :
    ∃ pre cb post, order = pre ++ cb :: post ∧ e = .note cb.lbl ∧
      (runBatch order st).1.log = st.log ++ (pre ++ [cb]).map (fun cb => .fire cb.lbl) ++ [.noteThrow] ∧
      ∀ b, (runBatch order st).1.queue b = st.queue b ++ ofKind b ((pre ++ [cb]).flatMap kidsOf) := by
  induction order generalizing st with
  | nil => simp [runBatch] at h
  | cons cb rest ih =>
    rw [runBatch_cons] at h ⊢
    rcases hf : (fire cb st).2 with _ | e'
    · simp only [hf] at h ⊢
      obtain ⟨pre, c, post, ho, he, hl, hq⟩ := ih _ h
      refine ⟨cb :: pre, c, post, by rw [ho]; rfl, he, ?_, ?_⟩
      · have hl0 := fire_log cb st
        rw [hf] at hl0
        rw [hl, hl0]; simp
      · intro b
        rw [hq b, fire_queue, List.cons_append, List.flatMap_cons, ofKind_append, List.append_assoc]
    · simp only [hf] at h ⊢
      have he : e' = .note cb.lbl := fire_err cb st e' hf
      refine ⟨[], cb, rest, rfl, ?_, ?_, ?_⟩
      · simp at h; rw [← h, he]
      · have hl0 := fire_log cb st
        rw [hf] at hl0
        rw [hl0]; simp
      · intro b
        rw [fire_queue]; simp

theorem runBatch_log_extends (order : List Cb) (st : Exec) :
    ∃ suffix, (runBatch order st).1.log = st.log ++ suffix := by
  rcases h : (runBatch order st).2 with _ | e
  · exact ⟨_, runBatch_fires order st h⟩
  · obtain ⟨pre, cb, post, _, _, hl, _⟩ := runBatch_throws order st e h
    exact ⟨_, by rw [hl, List.append_assoc]⟩

theorem drain_log_extends (m : BufMode) (b : Bool) (fuel : Nat) (th : Thread) (st : Exec) :
    ∃ suffix, (drain m b fuel th st).2.1.log = st.log ++ suffix := by
  induction fuel generalizing st th with
  | zero => simp only [drain]; split <;> exact ⟨[], by simp⟩
  | succ n ih =>
    simp only [drain]
    rcases hq : st.queue b with _ | ⟨c, cs⟩
    · exact ⟨[], by simp⟩
    · simp only []
      obtain ⟨s1, h1⟩ := runBatch_log_extends (batchOrder b (c :: cs)) (st.setQueue b (pendingInit m th))
      rcases hb : runBatch (batchOrder b (c :: cs)) (st.setQueue b (pendingInit m th)) with ⟨st2, _ | e⟩
      · simp only []
        obtain ⟨s2, h2⟩ := ih (parkOnDone m th) st2
        rw [hb] at h1
        simp only [setQueue_log] at h1
        exact ⟨s1 ++ s2, by rw [h2, h1, List.append_assoc]⟩
      · rw [hb] at h1
        simp only [setQueue_log] at h1
        exact ⟨s1, h1⟩

/-! ### quiet tables: no notification throws -/

/-- a table in which no notification throws -/
def DefsQuiet (defs : Defs) : Prop := ∀ id, ActsQuiet (actsOf defs id)

/-- every callback the executor holds closes over a quiet table -/
def QuietExec (st : Exec) : Prop := ∀ b, ∀ cb ∈ st.queue b, DefsQuiet cb.env

theorem quietExec_empty (log : List Ev) : QuietExec { log := log } := by
  intro b cb h; cases b <;> simp [Exec.queue] at h

theorem quietExec_emit {st : Exec} (h : QuietExec st) (e : Ev) : QuietExec (st.emit e) := by
  intro b cb hc; rw [emit_queue] at hc; exact h b cb hc

theorem quietExec_push {st : Exec} (h : QuietExec st) (cb : Cb) (hc : DefsQuiet cb.env) : QuietExec (st.push cb) := by
  intro b c hm
  rw [push_queue, List.mem_append] at hm
  rcases hm with hm | hm
  · exact h b c hm
  · have := mem_ofKind hm
    simp at this; rw [this]; exact hc

theorem quietExec_pushAll {st : Exec} (env : Defs) (he : DefsQuiet env) (ls : List Lbl) (h : QuietExec st) :
    QuietExec (pushAll env st ls) := by
  induction ls generalizing st with
  | nil => exact h
  | cons l rest ih => exact ih (quietExec_push h ⟨l, env⟩ he)

theorem quietExec_runActs {st : Exec} (env : Defs) (he : DefsQuiet env) (who : Err) (ev : Ev) (acts : List Act)
    (h : QuietExec st) : QuietExec (runActs env who ev acts st).1 := by
  intro b c hm
  rw [runActs_queue, List.mem_append] at hm
  rcases hm with hm | hm
  · exact h b c hm
  · rw [regsOf_env (mem_ofKind hm)]; exact he

theorem quietExec_setQueue {st : Exec} (h : QuietExec st) (b : Bool) (q : List Cb) (hq : ∀ cb ∈ q, DefsQuiet cb.env) :
    QuietExec (st.setQueue b q) := by
  intro b' c hm
  by_cases hb : b' = b
  · subst hb; rw [setQueue_queue] at hm; exact hq c hm
  · have : b' = !b := by cases b <;> cases b' <;> simp_all
    subst this; rw [setQueue_queue_other] at hm; exact h _ c hm

theorem fire_quiet (cb : Cb) (st : Exec) (h : DefsQuiet cb.env) : (fire cb st).2 = none :=
  runActs_quiet _ _ _ _ _ (h cb.lbl.id)

theorem quietExec_fire {st : Exec} (cb : Cb) (hc : DefsQuiet cb.env) (h : QuietExec st) : QuietExec (fire cb st).1 :=
  quietExec_runActs _ hc _ _ _ (quietExec_emit h _)

theorem runBatch_quiet (order : List Cb) (st : Exec) (ho : ∀ cb ∈ order, DefsQuiet cb.env) (h : QuietExec st) :
    (runBatch order st).2 = none ∧ QuietExec (runBatch order st).1 := by
  induction order generalizing st with
  | nil => exact ⟨rfl, h⟩
  | cons cb rest ih =>
    rw [runBatch_cons, fire_quiet cb st (ho cb List.mem_cons_self)]
    exact ih _ (fun c hc => ho c (List.mem_cons_of_mem _ hc)) (quietExec_fire cb (ho cb List.mem_cons_self) h)

theorem batchOrder_mem {b : Bool} {q : List Cb} {cb : Cb} (h : cb ∈ batchOrder b q) : cb ∈ q := by
  unfold batchOrder at h
  split at h
  · exact h
  · exact List.mem_reverse.mp h

/-! ### the thread does not matter: as coded always; with a thread buffer as long as no notification throws -/

/-- the situations in which a drain neither reads nor leaves anything on the thread -/
def Inert (m : BufMode) (th : Thread) (st : Exec) : Prop :=
  m = .localBatch ∨ (th = { } ∧ QuietExec st)

theorem Inert.mono {m : BufMode} {th : Thread} {st st' : Exec} (h : Inert m th st) (hq : QuietExec st → QuietExec st') :
    Inert m th st' := by
  rcases h with h | ⟨h1, h2⟩
  · exact Or.inl h
  · exact Or.inr ⟨h1, hq h2⟩

theorem inert_pendingInit {m th st} (h : Inert m th st) : pendingInit m th = [] := by
  rcases h with rfl | ⟨rfl, _⟩
  · rfl
  · cases m <;> rfl

theorem inert_parkOnDone {m th st} (h : Inert m th st) : parkOnDone m th = th := by
  rcases h with rfl | ⟨rfl, _⟩
  · rfl
  · cases m <;> rfl

/-- the drain as coded, seen from the executor only -/
def drainL (b : Bool) (fuel : Nat) (st : Exec) : Exec × Option Err := (drain .localBatch b fuel { } st).2

theorem drain_inert (m : BufMode) (b : Bool) (fuel : Nat) (th : Thread) (st : Exec) (h : Inert m th st) :
    drain m b fuel th st = (th, drainL b fuel st) ∧ (QuietExec st → QuietExec (drainL b fuel st).1) := by
  unfold drainL
  induction fuel generalizing st with
  | zero => simp only [drain]; split <;> exact ⟨rfl, id⟩
  | succ n ih =>
    simp only [drain]
    rcases hq : st.queue b with _ | ⟨c, cs⟩
    · exact ⟨rfl, id⟩
    · have hl : pendingInit .localBatch ({ } : Thread) = [] := rfl
      have hd : parkOnDone .localBatch ({ } : Thread) = { } := rfl
      simp only [inert_pendingInit h, inert_parkOnDone h, hl, hd]
      have hquiet : QuietExec st → (runBatch (batchOrder b (c :: cs)) (st.setQueue b [])).2 = none ∧
          QuietExec (runBatch (batchOrder b (c :: cs)) (st.setQueue b [])).1 := fun hs =>
        runBatch_quiet _ _ (fun cb hc => hs b cb (by rw [hq]; exact batchOrder_mem hc))
          (quietExec_setQueue hs b [] (by simp))
      rcases hb : runBatch (batchOrder b (c :: cs)) (st.setQueue b []) with ⟨st2, _ | e⟩
      · have h2 : Inert m th st2 := h.mono (fun hs => by have := (hquiet hs).2; rw [hb] at this; exact this)
        simp only []
        refine ⟨(ih st2 h2).1, fun hs => (ih st2 h2).2 ?_⟩
        have := (hquiet hs).2; rw [hb] at this; exact this
      · simp only []
        refine ⟨?_, fun hs => ?_⟩
        · rcases h with rfl | ⟨_, hs⟩
          · rfl
          · have := (hquiet hs).1; rw [hb] at this; simp at this
        · have := (hquiet hs).1; rw [hb] at this; simp at this

theorem drain_local (b : Bool) (fuel : Nat) (th : Thread) (st : Exec) :
    drain .localBatch b fuel th st = (th, drainL b fuel st) :=
  (drain_inert _ _ _ _ _ (Or.inl rfl)).1

theorem drainL_quiet (b : Bool) (fuel : Nat) (st : Exec) (h : QuietExec st) : QuietExec (drainL b fuel st).1 :=
  (drain_inert .localBatch b fuel { } st (Or.inl rfl)).2 h

/-- a run neither reads nor leaves anything on the thread: as coded, or when its table is quiet and the thread and the
executor hold nothing that throws -/
def InertR (m : BufMode) (r : Recipe) (th : Thread) (st : Exec) : Prop :=
  m = .localBatch ∨ (th = { } ∧ DefsQuiet r.defs ∧ QuietExec st)

theorem InertR.inert {m r th st} (h : InertR m r th st) : Inert m th st := by
  rcases h with h | ⟨h1, _, h3⟩
  · exact Or.inl h
  · exact Or.inr ⟨h1, h3⟩

theorem InertR.mono {m r th st st'} (h : InertR m r th st) (hq : DefsQuiet r.defs → QuietExec st → QuietExec st') :
    InertR m r th st' := by
  rcases h with h | ⟨h1, h2, h3⟩
  · exact Or.inl h
  · exact Or.inr ⟨h1, h2, hq h2 h3⟩

def stopPhaseL (r : Recipe) (st : Exec) : Exec × Option Err := (stopPhase .localBatch r { } st).2

theorem stopPhase_inert (m : BufMode) (r : Recipe) (th : Thread) (st : Exec) (h : InertR m r th st) :
    stopPhase m r th st = (th, stopPhaseL r st) := by
  have h0 : InertR m r th (pushAll r.defs (st.emit .stop) r.stopRegs) :=
    h.mono (fun hd hs => quietExec_pushAll _ hd _ (quietExec_emit hs _))
  have h1 : InertR m r th (drainL false drainFuel (pushAll r.defs (st.emit .stop) r.stopRegs)).1 :=
    h0.mono (fun _ hs => drainL_quiet _ _ _ hs)
  simp only [stopPhaseL, stopPhase, (drain_inert m _ _ th _ h0.inert).1, (drain_inert m _ _ th _ h1.inert).1, drain_local]

def runCyclesL (r : Recipe) (cs : List Cycle) (st : Exec) : Exec × Option Err := (runCycles .localBatch r cs { } st).2

theorem runCycles_inert (m : BufMode) (r : Recipe) (cs : List Cycle) (th : Thread) (st : Exec) (h : InertR m r th st) :
    runCycles m r cs th st = (th, runCyclesL r cs st) ∧
      (DefsQuiet r.defs → QuietExec st → QuietExec (runCyclesL r cs st).1) := by
  induction cs generalizing st with
  | nil => exact ⟨rfl, fun _ hs => hs⟩
  | cons c rest ih =>
    simp only [runCyclesL, runCycles, (drain_inert m _ _ th _ h.inert).1, drain_local]
    have h1 : InertR m r th (drainL true drainFuel st).1 := h.mono (fun _ hs => drainL_quiet _ _ _ hs)
    have q1 : QuietExec st → QuietExec (drainL true drainFuel st).1 := drainL_quiet _ _ _
    rcases hd : drainL true drainFuel st with ⟨st1, _ | e⟩
    · rw [hd] at h1 q1
      simp only []
      rcases c.acts with _ | acts
      · simp only [(drain_inert m _ _ th _ h1.inert).1, drain_local]
        have h2 : InertR m r th (drainL false drainFuel st1).1 := h1.mono (fun _ hs => drainL_quiet _ _ _ hs)
        have q2 : QuietExec st1 → QuietExec (drainL false drainFuel st1).1 := drainL_quiet _ _ _
        rcases hd2 : drainL false drainFuel st1 with ⟨st2, _ | e2⟩
        · rw [hd2] at h2 q2
          simp only [(ih st2 h2).1]
          exact ⟨rfl, fun hq hs => (ih st2 h2).2 hq (q2 (q1 hs))⟩
        · rw [hd2] at q2
          exact ⟨rfl, fun _ hs => q2 (q1 hs)⟩
      · simp only []
        have h2 : InertR m r th (runActs r.defs (.node c.time) .nodeThrow acts (st1.emit (.eval c.time))).1 :=
          h1.mono (fun hq hs => quietExec_runActs _ hq _ _ _ (quietExec_emit hs _))
        have q2 : DefsQuiet r.defs → QuietExec st1 →
            QuietExec (runActs r.defs (.node c.time) .nodeThrow acts (st1.emit (.eval c.time))).1 :=
          fun hq hs => quietExec_runActs _ hq _ _ _ (quietExec_emit hs _)
        rcases hr : runActs r.defs (.node c.time) .nodeThrow acts (st1.emit (.eval c.time)) with ⟨st2, _ | e2⟩
        · rw [hr] at h2 q2
          have h3 : InertR m r th (st2.emit (.sink c.time (r.base + c.time))) := h2.mono (fun _ hs => quietExec_emit hs _)
          simp only [(drain_inert m _ _ th _ h3.inert).1, drain_local]
          have h4 : InertR m r th (drainL false drainFuel (st2.emit (.sink c.time (r.base + c.time)))).1 :=
            h3.mono (fun _ hs => drainL_quiet _ _ _ hs)
          have q4 : QuietExec st2 → QuietExec (drainL false drainFuel (st2.emit (.sink c.time (r.base + c.time)))).1 :=
            fun hs => drainL_quiet _ _ _ (quietExec_emit hs _)
          rcases hd3 : drainL false drainFuel (st2.emit (.sink c.time (r.base + c.time))) with ⟨st3, _ | e3⟩
          · rw [hd3] at h4 q4
            simp only [(ih st3 h4).1]
            exact ⟨rfl, fun hq hs => (ih st3 h4).2 hq (q4 (q2 hq (q1 hs)))⟩
          · rw [hd3] at q4
            exact ⟨rfl, fun hq hs => q4 (q2 hq (q1 hs))⟩
        · rw [hr] at h2 q2
          simp only [(drain_inert m _ _ th _ h2.inert).1, drain_local]
          exact ⟨trivial, fun hq hs => drainL_quiet _ _ _ (q2 hq (q1 hs))⟩
    · rw [hd] at q1
      exact ⟨rfl, fun _ hs => q1 hs⟩

theorem runExec_inert (m : BufMode) (r : Recipe) (th : Thread)
    (h : m = .localBatch ∨ (th = { } ∧ DefsQuiet r.defs)) :
    runExec m r th = (th, runAlone r) := by
  have q0 : DefsQuiet r.defs → QuietExec (pushAll r.defs (({ } : Exec).emit .start) r.startRegs) :=
    fun hq => quietExec_pushAll _ hq _ (quietExec_empty _)
  have h0 : InertR m r th (pushAll r.defs (({ } : Exec).emit .start) r.startRegs) := by
    rcases h with h | ⟨h1, h2⟩
    · exact Or.inl h
    · exact Or.inr ⟨h1, h2, q0 h2⟩
  have h1 : InertR m r th (runCyclesL r (cyclesOf r) (pushAll r.defs (({ } : Exec).emit .start) r.startRegs)).1 :=
    h0.mono (fun hq hs => (runCycles_inert .localBatch r _ { } _ (Or.inl rfl)).2 hq hs)
  simp only [runAlone, runExec, (runCycles_inert m r _ th _ h0).1, (runCycles_inert .localBatch r _ _ _ (Or.inl rfl)).1,
    stopPhase_inert m r th _ h1, stopPhase_inert .localBatch r _ _ (Or.inl rfl)]

end HgVerif.Notify
