import HgVerif.Model.Delta
/-!
Specification-side definitions and helper lemmas for C20 (`Props/C20.lean` holds the property theorems).

* `Tick s pre m` — `m` is the state of an output at the end of a cycle whose state at the end of the
  previous cycle was `pre`: the per-position marks of `m` are *coherent* with the change `pre → m`
  (what C05 establishes for the slot stores) and the tick is *replayable*, i.e. it stays away from the
  three situations in which the code's capture/apply pair is not a round trip:
    A. a `TSS`/`TSD` that ticks although it was valid and nothing changed (empty delta);
    B. a `TSB` that ticks while one of its collection fields does not tick and the empty delta of that
       field would have an effect on it (a `TSS`/`TSD` field that was never valid);
    C. a dictionary key whose child is not valid (never ticked) — such a key is invisible to `capture`.
    D. (dynamic lists) a list that grew in the cycle (`at(i)` past the end) without its new LAST child ticking:
       the delta is a map without a length, growth that no entry witnesses cannot be re-created.
  A cycle without a tick is `m = clear pre`, which `Tick` admits at every position.  A dynamic list may grow
  past its end leaving any number of never-ticked placeholders before the new last child (growth that skips
  indices), and the first tick of a list may be at any index.
* `GoodHist`, `recordHist`, `tickOf`, `trim`, `replayStates` — histories and the two operators as list functions.
-/
namespace HgVerif.Delta

/-- field-list shapes (`bnil` / `bcons`) as opposed to time-series schemas -/
def isFields : Shape → Bool
  | .bnil | .bcons _ _ => true
  | _ => false

/-- pointwise relation between two lists of equal length -/
def All2 {σ : Type} (R : σ → σ → Prop) : List σ → List σ → Prop
  | [], [] => True
  | a :: as, b :: bs => R a b ∧ All2 R as bs
  | _, _ => False

/-- well-formed shapes: the argument of `tsb` is a field list, fields and children are schemas -/
def wfShape : Shape → Bool
  | .tsd _ _ v => !isFields v && wfShape v
  | .tsl e _ => !isFields e && wfShape e
  | .tsld e => !isFields e && wfShape e
  | .tsb fs => isFields fs && wfShape fs
  | .bcons f r => !isFields f && wfShape f && isFields r && wfShape r
  | _ => true

/-- set marks are the net difference of membership before and after -/
def SetCoh : List Bool → List Bool → List Bool → List Bool → Prop
  | [], [], [], [] => True
  | p :: ps, e :: es, a :: as, r :: rs => a = (e && !p) ∧ r = (p && !e) ∧ SetCoh ps es as rs
  | _, _, _, _ => False

/-- key-wise coherence of a dictionary tick -/
def DictCoh {σ : Type} (slot : Option σ → Option σ → Bool → Prop) :
    List (Option σ) → List (Option σ) → List Bool → Prop
  | [], [], [] => True
  | p :: ps, c :: cs, r :: rs => slot p c r ∧ DictCoh slot ps cs rs
  | _, _, _ => False

/-- one key: absent stays absent / a (valid) child is removed and reported / a present child ticks or not /
    a new key appears with a ticking child.  Children that stay are valid (no ghost keys, situation C). -/
def SlotCoh {σ : Type} (T : σ → σ → Prop) (freshC : σ) (md vld : σ → Bool) : Option σ → Option σ → Bool → Prop
  | none, none, r => r = false
  | some p, none, r => r = true ∧ vld p = true
  | some p, some c, r => r = false ∧ T p c ∧ vld c = true
  | none, some c, r => r = false ∧ T freshC c ∧ md c = true

/-- the key is in `modified_items()` and its child is valid -/
def slotTicked {σ : Type} (md vld : σ → Bool) : Option σ → Bool
  | some c => md c && vld c
  | none => false

/-- situation B for the fields of a ticking bundle -/
def Inert : (s : Shape) → St s → St s → Prop
  | .bcons f r, pre, m =>
      (isCollection f = true → modified f m.1 = false → hasEffect f pre.1 (emptyDelta f) = false) ∧ Inert r pre.2 m.2
  | _, _, _ => True

/-- One cycle of a DYNAMIC list: the children that existed tick (or not) in place, the list never shrinks, and
    the children created in this cycle started from `freshC` - a skipped index is still `freshC` with no mark
    (`T freshC c` without `md c`), and the new LAST child is a ticking one (situation D excluded). -/
def DynTick {σ : Type} (T : σ → σ → Prop) (freshC : σ) (md : σ → Bool) : List σ → List σ → Prop
  | [], [] => True
  | p :: ps, c :: cs => T p c ∧ DynTick T freshC md ps cs
  | [], c :: cs => T freshC c ∧ (cs = [] → md c = true) ∧ DynTick T freshC md [] cs
  | _ :: _, [] => False

/-- replayable tick (see the header) -/
def Tick : (s : Shape) → St s → St s → Prop
  | .ts k, pre, m => (m.mod = true ∧ m.val.isSome = true) ∨ m = clear (.ts k) pre
  | .signal, pre, m => (m.mod = true ∧ m.val = true) ∨ m = clear .signal pre
  | .tsw k p, pre, m => (m.mod = true ∧ 1 ≤ p ∧ ∃ x, m.val = pushWin p pre.val x) ∨ m = clear (.tsw k p) pre
  | .tss k u, pre, m =>
      m = clear (.tss k u) pre ∨
      (m.mod = true ∧ m.valid = true ∧ SetCoh pre.elems m.elems m.added m.removed ∧
        (m.added.any id = true ∨ m.removed.any id = true ∨ pre.valid = false))
  | .tsd k u v, pre, m =>
      m = clear (.tsd k u v) pre ∨
      (m.mod = true ∧ m.valid = true ∧
        DictCoh (SlotCoh (Tick v) (fresh v) (modified v) (valid v)) pre.slots m.slots m.removed ∧
        (m.removed.any id = true ∨
         m.slots.any (slotTicked (modified v) (valid v)) = true ∨
         pre.valid = false))
  | .tsl e _, pre, m => All2 (Tick e) pre m
  | .tsld e, pre, m => DynTick (Tick e) (fresh e) (modified e) pre m
  | .tsb fs, pre, m => Tick fs pre m ∧ (modified fs m = true → Inert fs pre m)
  | .bnil, _, _ => True
  | .bcons f r, pre, m => Tick f pre.1 m.1 ∧ Tick r pre.2 m.2

/-! ### basic facts about `clear`, `modified`, gating -/

theorem any_falses (n : Nat) : (falses n).any id = false := by
  induction n with
  | zero => rfl
  | succ n ih => simp [falses, List.replicate_succ] at *

theorem modified_clear : ∀ (s : Shape) (st : St s), modified s (clear s st) = false
  | .ts _, _ => rfl
  | .signal, _ => rfl
  | .tsw _ _, _ => rfl
  | .tss _ _, _ => rfl
  | .tsd _ _ _, _ => rfl
  | .tsl e _, st => by
      simp only [modified, clear]
      induction st with
      | nil => rfl
      | cons c cs ih => simp [List.any_cons, modified_clear e c, ih]
  | .tsld e, st => by
      simp only [modified, clear]
      induction st with
      | nil => rfl
      | cons c cs ih => simp [List.any_cons, modified_clear e c, ih]
  | .tsb fs, st => modified_clear fs st
  | .bnil, _ => rfl
  | .bcons f r, st => by simp [modified, clear, modified_clear f st.1, modified_clear r st.2]

theorem listApply_none {σ δ : Type} (app : σ → δ → σ) (clr : σ → σ) (st : List σ) (d : List (Option δ))
    (h : d.any Option.isSome = false) : listApply app clr st d = st.map clr := by
  induction st generalizing d with
  | nil => simp [listApply]
  | cons c cs ih =>
    cases d with
    | nil => simp only [listApply, List.map_cons]; rw [ih [] rfl]
    | cons od ods =>
      cases od with
      | some x => simp at h
      | none =>
        simp only [List.any_cons, Option.isSome_none, Bool.false_or] at h
        simp only [listApply, List.map_cons]
        rw [ih ods h]

theorem growApply_none {σ δ : Type} (freshC : σ) (app : σ → δ → σ) (d : List (Option δ))
    (h : d.any Option.isSome = false) : growApply freshC app d = [] := by
  cases d with
  | nil => rfl
  | cons od ods => simp only [growApply, h, Bool.false_eq_true, ↓reduceIte]

theorem dynApply_none {σ δ : Type} (freshC : σ) (app : σ → δ → σ) (clr : σ → σ) (st : List σ) (d : List (Option δ))
    (h : d.any Option.isSome = false) : dynApply freshC app clr st d = st.map clr := by
  induction st generalizing d with
  | nil => simp only [dynApply, growApply_none freshC app d h, List.map_nil]
  | cons c cs ih =>
    cases d with
    | nil => simp only [dynApply, List.map_cons]; rw [ih [] rfl]
    | cons od ods =>
      cases od with
      | some x => simp at h
      | none =>
        simp only [List.any_cons, Option.isSome_none, Bool.false_or] at h
        simp only [dynApply, List.map_cons]
        rw [ih ods h]

/-- a never-ticked endpoint carries no marks -/
theorem clear_fresh : ∀ (s : Shape), clear s (fresh s) = fresh s
  | .ts _ => rfl
  | .signal => rfl
  | .tsw _ _ => rfl
  | .tss _ u => by simp [clear, fresh, falses]; rfl
  | .tsd _ u _ => by simp [clear, fresh, falses]; rfl
  | .tsl e n => by
      simp only [clear, fresh, List.map_replicate, clear_fresh e]; rfl
  | .tsld _ => rfl
  | .tsb fs => clear_fresh fs
  | .bnil => rfl
  | .bcons f r => by simp only [clear, fresh, clear_fresh f, clear_fresh r]; rfl

/-- the gate is built into `apply`: a delta without effect leaves the output untouched (no tick) -/
theorem apply_noEffect : ∀ (s : Shape) (st : St s) (d : Dl s), hasEffect s st d = false → apply s st d = clear s st
  | .ts _, _, _, h => by simp [hasEffect] at h
  | .signal, _, _, h => by simp [hasEffect] at h
  | .tsw _ _, _, _, h => by simp [hasEffect] at h
  | .tss _ _, st, d, h => by simp only [apply, h]; rfl
  | .tsd _ _ _, st, d, h => by simp only [apply, h]; rfl
  | .tsl e n, st, d, h => by
      simp only [hasEffect] at h
      simp only [apply, clear]
      exact listApply_none _ _ st d h
  | .tsld e, st, d, h => by
      simp only [hasEffect] at h
      simp only [apply, clear]
      exact dynApply_none _ _ _ st d h
  | .tsb fs, st, d, h => apply_noEffect fs st d h
  | .bnil, _, _, _ => rfl
  | .bcons f r, st, d, h => by
      simp only [hasEffect, Bool.or_eq_false_iff] at h
      simp only [apply, clear]
      rw [apply_noEffect r st.2 d.2 h.2]
      cases hd : d.1 with
      | none => rfl
      | some df =>
        rw [hd] at h
        simp only at h ⊢
        rw [apply_noEffect f st.1 df h.1]

theorem pushWin_getLast (p : Nat) (hp : 1 ≤ p) (w : List Nat) (x : Nat) : (pushWin p w x).getLast? = some x := by
  simp only [pushWin]
  rw [List.getLast?_drop]
  simp only [List.length_append, List.length_cons, List.length_nil]
  split
  · omega
  · simp

/-- a dynamic list that grew has a ticking child -/
theorem dynTick_grown_any {σ : Type} (T : σ → σ → Prop) (freshC : σ) (md : σ → Bool) :
    ∀ (c : σ) (cs : List σ), DynTick T freshC md [] (c :: cs) → (c :: cs).any md = true
  | c, [], h => by
      simp only [DynTick] at h
      simp [h.2.1 trivial]
  | c, c' :: cs, h => by
      simp only [DynTick] at h
      have := dynTick_grown_any T freshC md c' cs h.2.2
      simp only [List.any_cons, Bool.or_eq_true] at this ⊢
      exact Or.inr this

theorem dynTick_unmodified {σ : Type} (T : σ → σ → Prop) (freshC : σ) (md : σ → Bool) (clr : σ → σ)
    (hun : ∀ p c, T p c → md c = false → c = clr p) :
    ∀ (ps cs : List σ), DynTick T freshC md ps cs → cs.any md = false → cs = ps.map clr
  | [], [], _, _ => rfl
  | [], c :: cs, h, hm => by
      rw [dynTick_grown_any T freshC md c cs h] at hm; cases hm
  | p :: ps, c :: cs, h, hm => by
      simp only [DynTick] at h
      simp only [List.any_cons, Bool.or_eq_false_iff] at hm
      simp only [List.map_cons]
      rw [hun p c h.1 hm.1, ← dynTick_unmodified T freshC md clr hun ps cs h.2 hm.2]
  | _ :: _, [], h, _ => by simp [DynTick] at h

/-- every child of a dynamic list after a tick is the result of a tick (from its old state or from fresh) -/
theorem dynTick_mem {σ : Type} (T : σ → σ → Prop) (freshC : σ) (md : σ → Bool) :
    ∀ (ps cs : List σ), DynTick T freshC md ps cs → ∀ c ∈ cs, ∃ p, T p c
  | [], [], _, c, hc => by simp at hc
  | [], c' :: cs, h, c, hc => by
      simp only [DynTick] at h
      simp only [List.mem_cons] at hc
      rcases hc with rfl | hc
      · exact ⟨freshC, h.1⟩
      · exact dynTick_mem T freshC md [] cs h.2.2 c hc
  | p :: ps, c' :: cs, h, c, hc => by
      simp only [DynTick] at h
      simp only [List.mem_cons] at hc
      rcases hc with rfl | hc
      · exact ⟨p, h.1⟩
      · exact dynTick_mem T freshC md ps cs h.2 c hc
  | _ :: _, [], h, _, _ => by simp [DynTick] at h

theorem any_valid_of_any_modified {σ : Type} (md vld : σ → Bool) :
    ∀ (cs : List σ), (∀ c ∈ cs, md c = true → vld c = true) → cs.any md = true → cs.any vld = true
  | [], _, h => by simp at h
  | c :: cs, hv, h => by
      simp only [List.any_cons, Bool.or_eq_true] at h ⊢
      rcases h with h | h
      · exact Or.inl (hv c List.mem_cons_self h)
      · exact Or.inr (any_valid_of_any_modified md vld cs (fun x hx => hv x (List.mem_cons_of_mem _ hx)) h)

/-- a position that did not tick is the old one with this cycle's marks empty -/
theorem tick_unmodified : ∀ (s : Shape) (pre m : St s), Tick s pre m → modified s m = false → m = clear s pre
  | .ts _, pre, m, h, hm => by
      rcases h with ⟨h1, _⟩ | h
      · simp [modified, h1] at hm
      · exact h
  | .signal, pre, m, h, hm => by
      rcases h with ⟨h1, _⟩ | h
      · simp [modified, h1] at hm
      · exact h
  | .tsw _ _, pre, m, h, hm => by
      rcases h with ⟨h1, _⟩ | h
      · simp [modified, h1] at hm
      · exact h
  | .tss _ _, pre, m, h, hm => by
      rcases h with h | ⟨h1, _⟩
      · exact h
      · simp [modified, h1] at hm
  | .tsd _ _ _, pre, m, h, hm => by
      rcases h with h | ⟨h1, _⟩
      · exact h
      · simp [modified, h1] at hm
  | .tsl e _, pre, m, h, hm => by
      simp only [Tick] at h
      simp only [modified] at hm
      simp only [clear]
      induction pre generalizing m with
      | nil => cases m with
        | nil => rfl
        | cons _ _ => simp [All2] at h
      | cons p ps ih =>
        cases m with
        | nil => simp [All2] at h
        | cons c cs =>
          simp only [All2] at h
          simp only [List.any_cons, Bool.or_eq_false_iff] at hm
          simp only [List.map_cons]
          rw [tick_unmodified e p c h.1 hm.1, ← ih cs h.2 hm.2]
  | .tsld e, pre, m, h, hm => by
      simp only [Tick] at h
      simp only [modified] at hm
      simp only [clear]
      exact dynTick_unmodified (Tick e) (fresh e) (modified e) (clear e) (tick_unmodified e) pre m h hm
  | .tsb fs, pre, m, h, hm => tick_unmodified fs pre m h.1 hm
  | .bnil, _, _, _, _ => rfl
  | .bcons f r, pre, m, h, hm => by
      simp only [modified, Bool.or_eq_false_iff] at hm
      exact Prod.ext (tick_unmodified f pre.1 m.1 h.1 hm.1) (tick_unmodified r pre.2 m.2 h.2 hm.2)

/-- whatever ticked is valid afterwards (nothing here invalidates) -/
theorem tick_valid : ∀ (s : Shape) (pre m : St s), Tick s pre m → modified s m = true → valid s m = true
  | .ts k, pre, m, h, hm => by
      rcases h with ⟨_, h2⟩ | h
      · exact h2
      · rw [h, modified_clear] at hm; cases hm
  | .signal, pre, m, h, hm => by
      rcases h with ⟨_, h2⟩ | h
      · exact h2
      · rw [h, modified_clear] at hm; cases hm
  | .tsw k p, pre, m, h, hm => by
      rcases h with ⟨_, hp, x, hx⟩ | h
      · have := pushWin_getLast p hp pre.val x
        simp only [valid, hx]
        cases hw : pushWin p pre.val x with
        | nil => rw [hw] at this; simp at this
        | cons _ _ => rfl
      · rw [h, modified_clear] at hm; cases hm
  | .tss k u, pre, m, h, hm => by
      rcases h with h | ⟨_, h2, _⟩
      · rw [h, modified_clear] at hm; cases hm
      · exact h2
  | .tsd k u v, pre, m, h, hm => by
      rcases h with h | ⟨_, h2, _⟩
      · rw [h, modified_clear] at hm; cases hm
      · exact h2
  | .tsl e _, pre, m, h, hm => by
      simp only [Tick] at h
      simp only [modified] at hm
      simp only [valid]
      induction pre generalizing m with
      | nil => cases m with
        | nil => simp at hm
        | cons _ _ => simp [All2] at h
      | cons p ps ih =>
        cases m with
        | nil => simp [All2] at h
        | cons c cs =>
          simp only [All2] at h
          simp only [List.any_cons, Bool.or_eq_true] at hm ⊢
          rcases hm with hm | hm
          · exact Or.inl (tick_valid e p c h.1 hm)
          · exact Or.inr (ih cs h.2 hm)
  | .tsld e, pre, m, h, hm => by
      simp only [Tick] at h
      simp only [modified] at hm
      simp only [valid]
      refine any_valid_of_any_modified (modified e) (valid e) m (fun c hc hmc => ?_) hm
      obtain ⟨p, hp⟩ := dynTick_mem (Tick e) (fresh e) (modified e) pre m h c hc
      exact tick_valid e p c hp hmc
  | .tsb fs, pre, m, h, hm => tick_valid fs pre m h.1 hm
  | .bnil, _, _, _, hm => by simp [modified] at hm
  | .bcons f r, pre, m, h, hm => by
      simp only [modified, Bool.or_eq_true] at hm
      simp only [valid, Bool.or_eq_true]
      rcases hm with hm | hm
      · exact Or.inl (tick_valid f pre.1 m.1 h.1 hm)
      · exact Or.inr (tick_valid r pre.2 m.2 h.2 hm)

/-- a cycle without a tick is admitted at every position of every schema (gaps in a history) -/
theorem tick_clear : ∀ (s : Shape) (st : St s), Tick s st (clear s st)
  | .ts _, _ => Or.inr rfl
  | .signal, _ => Or.inr rfl
  | .tsw _ _, _ => Or.inr rfl
  | .tss _ _, _ => Or.inl rfl
  | .tsd _ _ _, _ => Or.inl rfl
  | .tsl e _, st => by
      have key : ∀ l : List (St e), All2 (Tick e) l (l.map (clear e)) := by
        intro l
        induction l with
        | nil => trivial
        | cons c cs ih => exact ⟨tick_clear e c, ih⟩
      exact key st
  | .tsld e, st => by
      have key : ∀ l : List (St e), DynTick (Tick e) (fresh e) (modified e) l (l.map (clear e)) := by
        intro l
        induction l with
        | nil => trivial
        | cons c cs ih => exact ⟨tick_clear e c, ih⟩
      exact key st
  | .tsb fs, st => ⟨tick_clear fs st, fun h => by
      have h0 : modified fs (clear fs st) = false := modified_clear fs st
      exact absurd (h0.symm.trans h) (by decide)⟩
  | .bnil, _ => trivial
  | .bcons f r, st => ⟨tick_clear f st.1, tick_clear r st.2⟩

/-! ### the round trip, container by container -/

theorem setApply_coh : ∀ (ps es as rs : List Bool), SetCoh ps es as rs → setApply ps as rs = (es, as, rs)
  | [], [], [], [], _ => rfl
  | p :: ps, e :: es, a :: as, r :: rs, h => by
      simp only [SetCoh] at h
      obtain ⟨ha, hr, hrest⟩ := h
      simp only [setApply, List.headD_cons, List.tail_cons, setApply_coh ps es as rs hrest]
      subst ha hr
      cases p <;> cases e <;> rfl
  | [], [], [], _ :: _, h => by simp [SetCoh] at h
  | [], [], _ :: _, _, h => by simp [SetCoh] at h
  | [], _ :: _, _, _, h => by simp [SetCoh] at h
  | _ :: _, [], _, _, h => by simp [SetCoh] at h
  | _ :: _, _ :: _, [], _, h => by simp [SetCoh] at h
  | _ :: _, _ :: _, _ :: _, [], h => by simp [SetCoh] at h

section Dict
variable {σ δ : Type} (freshC : σ) (app : σ → δ → σ) (clr : σ → σ) (vld md : σ → Bool) (cap : σ → δ)
  (T : σ → σ → Prop)

theorem dictApply_capture
    (hstep : ∀ p c, T p c → md c = true → vld c = true → app p (cap c) = c)
    (hun : ∀ p c, T p c → md c = false → c = clr p)
    (hval : ∀ p c, T p c → md c = true → vld c = true) :
    ∀ (ps cs : List (Option σ)) (rs : List Bool), DictCoh (SlotCoh T freshC md vld) ps cs rs →
      dictApply freshC app clr vld ps (dictCapture md vld cap cs rs) = (cs, rs)
  | [], [], [], _ => rfl
  | p :: ps, c :: cs, r :: rs, h => by
      simp only [DictCoh] at h
      obtain ⟨hs, hrest⟩ := h
      have ih := dictApply_capture hstep hun hval ps cs rs hrest
      cases p with
      | none =>
        cases c with
        | none =>
          simp only [SlotCoh] at hs
          subst hs
          simp [dictCapture, dictApply, ih]
        | some c =>
          simp only [SlotCoh] at hs
          obtain ⟨hr, ht, hmd⟩ := hs
          subst hr
          have hv := hval _ _ ht hmd
          simp [dictCapture, dictApply, ih, hmd, hv, hstep _ _ ht hmd hv]
      | some p =>
        cases c with
        | none =>
          simp only [SlotCoh] at hs
          obtain ⟨hr, hv⟩ := hs
          subst hr
          simp [dictCapture, dictApply, ih, hv]
        | some c =>
          simp only [SlotCoh] at hs
          obtain ⟨hr, ht, hv⟩ := hs
          subst hr
          cases hmd : md c with
          | true => simp [dictCapture, dictApply, ih, hmd, hv, hstep _ _ ht hmd hv]
          | false => simp [dictCapture, dictApply, ih, hmd, ← hun _ _ ht hmd]
  | [], [], _ :: _, h => by simp [DictCoh] at h
  | [], _ :: _, _, h => by simp [DictCoh] at h
  | _ :: _, [], _, h => by simp [DictCoh] at h
  | _ :: _, _ :: _, [], h => by simp [DictCoh] at h

/-- what the gate of `apply_delta_tsd` sees in a captured delta -/
theorem dict_effect :
    ∀ (ps cs : List (Option σ)) (rs : List Bool), DictCoh (SlotCoh T freshC md vld) ps cs rs →
      ((dictCapture md vld cap cs rs).any (fun op => op.modified.isSome) =
          cs.any (slotTicked md vld)) ∧
      ((dictCapture md vld cap cs rs).any (fun op => op.removed) = rs.any id) ∧
      (rs.any id = true → removesPresent ps (dictCapture md vld cap cs rs) = true)
  | [], [], [], _ => by simp [dictCapture, removesPresent]
  | p :: ps, c :: cs, r :: rs, h => by
      simp only [DictCoh] at h
      obtain ⟨hs, hrest⟩ := h
      obtain ⟨i1, i2, i3⟩ := dict_effect ps cs rs hrest
      refine ⟨?_, ?_, ?_⟩
      · simp only [dictCapture, List.any_cons, i1]
        cases c with
        | none => rfl
        | some c => cases hmv : (md c && vld c) <;> simp [slotTicked, hmv]
      · simp only [dictCapture, List.any_cons, i2, id]
      · intro hany
        simp only [List.any_cons, id, Bool.or_eq_true] at hany
        cases p with
        | none =>
          cases c <;> simp only [SlotCoh] at hs
          · subst hs
            simp only [dictCapture, removesPresent]
            exact i3 (by simpa using hany)
          · obtain ⟨hr, _⟩ := hs
            subst hr
            simp only [dictCapture, removesPresent]
            exact i3 (by simpa using hany)
        | some p =>
          simp only [dictCapture, removesPresent, Bool.or_eq_true]
          rcases hany with hr | hr
          · exact Or.inl hr
          · exact Or.inr (i3 hr)
  | [], [], _ :: _, h => by simp [DictCoh] at h
  | [], _ :: _, _, h => by simp [DictCoh] at h
  | _ :: _, [], _, h => by simp [DictCoh] at h
  | _ :: _, _ :: _, [], h => by simp [DictCoh] at h

theorem listApply_capture
    (hstep : ∀ p c, T p c → md c = true → vld c = true → app p (cap c) = c)
    (hun : ∀ p c, T p c → md c = false → c = clr p)
    (hval : ∀ p c, T p c → md c = true → vld c = true) :
    ∀ (ps cs : List σ), All2 T ps cs →
      listApply app clr ps (cs.map fun c => if md c && vld c then some (cap c) else none) = cs
  | [], [], _ => rfl
  | p :: ps, c :: cs, h => by
      simp only [All2] at h
      have ih := listApply_capture hstep hun hval ps cs h.2
      cases hmd : md c with
      | true =>
        have hv := hval _ _ h.1 hmd
        simp only [List.map_cons, listApply, hmd, hv, Bool.and_self, ↓reduceIte, hstep _ _ h.1 hmd hv, ih]
      | false =>
        simp only [List.map_cons, listApply, hmd, Bool.false_and, Bool.false_eq_true, ↓reduceIte, ← hun _ _ h.1 hmd, ih]
  | [], _ :: _, h => by simp [All2] at h
  | _ :: _, [], h => by simp [All2] at h

end Dict

section Dyn
variable {σ δ : Type} {freshC : σ} {app : σ → δ → σ} {clr : σ → σ} {vld md : σ → Bool} {cap : σ → δ}
  {T : σ → σ → Prop}

/-! dynamic lists: the delta is a map, trailing positions without an entry do not exist -/

theorem trimNone_any : ∀ (d : List (Option δ)), (trimNone d).any Option.isSome = d.any Option.isSome
  | [] => rfl
  | x :: r => by
      have ih := trimNone_any r
      simp only [trimNone]
      cases x with
      | some v =>
        cases ht : trimNone r <;> simp
      | none =>
        cases ht : trimNone r with
        | nil => rw [ht] at ih; simp [← ih]
        | cons y ys => rw [ht] at ih; simp [← ih]

theorem trimNone_eq_nil : ∀ (d : List (Option δ)), d.any Option.isSome = false → trimNone d = []
  | [], _ => rfl
  | x :: r, h => by
      simp only [List.any_cons, Bool.or_eq_false_iff] at h
      cases x with
      | some v => simp at h
      | none => simp only [trimNone, trimNone_eq_nil r h.2]

theorem growApply_trim : ∀ (d : List (Option δ)), growApply freshC app (trimNone d) = growApply freshC app d
  | [] => rfl
  | x :: r => by
      have ih := growApply_trim r
      cases hany : (x :: r).any Option.isSome with
      | false =>
        rw [trimNone_eq_nil (x :: r) hany, growApply_none freshC app (x :: r) hany]; rfl
      | true =>
        have hcons : trimNone (x :: r) = x :: trimNone r := by
          simp only [trimNone]
          cases x with
          | some v => cases trimNone r <;> rfl
          | none =>
            simp only [List.any_cons, Option.isSome_none, Bool.false_or] at hany
            have := trimNone_any r
            rw [hany] at this
            cases ht : trimNone r with
            | nil => rw [ht] at this; simp at this
            | cons y ys => rfl
        rw [hcons]
        have hany' : (x :: trimNone r).any Option.isSome = true := by
          simp only [List.any_cons, trimNone_any r]
          simpa using hany
        simp only [growApply, hany, hany', ↓reduceIte, ih]

theorem dynApply_trim : ∀ (ps : List σ) (d : List (Option δ)),
    dynApply freshC app clr ps (trimNone d) = dynApply freshC app clr ps d
  | [], d => by simp only [dynApply, growApply_trim]
  | p :: ps, [] => rfl
  | p :: ps, x :: r => by
      have ih := dynApply_trim ps r
      cases ht : trimNone r with
      | nil =>
        cases x with
        | some v =>
          have : trimNone (some v :: r) = some v :: trimNone r := by simp [trimNone]
          rw [this]
          simp only [dynApply, ih]
        | none =>
          have : trimNone (none :: r) = [] := by simp [trimNone, ht]
          rw [this]
          rw [ht] at ih
          simp only [dynApply, ih]
      | cons y ys =>
        have : trimNone (x :: r) = x :: trimNone r := by
          simp only [trimNone, ht]
        rw [this]
        simp only [dynApply, ih]

theorem dynTick_captured_any
    (hval : ∀ p c, T p c → md c = true → vld c = true) :
    ∀ (ps cs : List σ), DynTick T freshC md ps cs → cs.any md = true →
      (cs.map fun c => if md c && vld c then some (cap c) else none).any Option.isSome = true
  | [], [], _, h => by simp at h
  | [], c :: cs, ht, h => by
      simp only [DynTick] at ht
      simp only [List.map_cons, List.any_cons, Bool.or_eq_true]
      cases hmd : md c with
      | true => left; simp [hval _ _ ht.1 hmd]
      | false =>
        right
        cases cs with
        | nil => rw [ht.2.1 rfl] at hmd; cases hmd
        | cons c' cs' =>
          exact dynTick_captured_any hval [] (c' :: cs') ht.2.2 (dynTick_grown_any T freshC md c' cs' ht.2.2)
  | p :: ps, c :: cs, ht, h => by
      simp only [DynTick] at ht
      simp only [List.any_cons, Bool.or_eq_true] at h
      simp only [List.map_cons, List.any_cons, Bool.or_eq_true]
      rcases h with h | h
      · left; simp [h, hval _ _ ht.1 h]
      · right; exact dynTick_captured_any hval ps cs ht.2 h
  | _ :: _, [], ht, _ => by simp [DynTick] at ht

/-- the children created past the end are re-created from the entries: a skipped index stays `freshC`, the
    entry of a new child is applied to `freshC`, and the last entry is the new last child -/
theorem growApply_capture
    (hstep : ∀ p c, T p c → md c = true → vld c = true → app p (cap c) = c)
    (hun : ∀ p c, T p c → md c = false → c = clr p)
    (hval : ∀ p c, T p c → md c = true → vld c = true)
    (hcf : clr freshC = freshC) :
    ∀ (cs : List σ), DynTick T freshC md [] cs →
      growApply freshC app (cs.map fun c => if md c && vld c then some (cap c) else none) = cs
  | [], _ => rfl
  | c :: cs, h => by
      have hany := dynTick_captured_any (cap := cap) hval [] (c :: cs) h (dynTick_grown_any T freshC md c cs h)
      simp only [DynTick] at h
      have ih := growApply_capture hstep hun hval hcf cs h.2.2
      simp only [List.map_cons] at hany ⊢
      simp only [growApply, hany, ↓reduceIte, ih]
      cases hmd : md c with
      | true =>
        have hv := hval _ _ h.1 hmd
        simp only [hv, Bool.and_self, ↓reduceIte, hstep _ _ h.1 hmd hv]
      | false =>
        have := hun _ _ h.1 hmd
        simp only [Bool.false_and, Bool.false_eq_true, ↓reduceIte]
        rw [this, hcf]

theorem dynApply_capture
    (hstep : ∀ p c, T p c → md c = true → vld c = true → app p (cap c) = c)
    (hun : ∀ p c, T p c → md c = false → c = clr p)
    (hval : ∀ p c, T p c → md c = true → vld c = true)
    (hcf : clr freshC = freshC) :
    ∀ (ps cs : List σ), DynTick T freshC md ps cs →
      dynApply freshC app clr ps (trimNone (cs.map fun c => if md c && vld c then some (cap c) else none)) = cs := by
  intro ps cs h
  rw [dynApply_trim]
  induction ps generalizing cs with
  | nil =>
    simp only [dynApply]
    exact growApply_capture hstep hun hval hcf cs h
  | cons p ps ih =>
    cases cs with
    | nil => simp [DynTick] at h
    | cons c cs =>
      simp only [DynTick] at h
      have ih' := ih cs h.2
      cases hmd : md c with
      | true =>
        have hv := hval _ _ h.1 hmd
        simp only [List.map_cons, dynApply, hmd, hv, Bool.and_self, ↓reduceIte, hstep _ _ h.1 hmd hv, ih']
      | false =>
        simp only [List.map_cons, dynApply, hmd, Bool.false_and, Bool.false_eq_true, ↓reduceIte, ← hun _ _ h.1 hmd, ih']

end Dyn

/-- The gate lets every replayable tick of a `TSS`/`TSD` through. -/
theorem tss_gate (k : Bool) (u : Nat) (pre m : St (.tss k u))
    (h4 : m.added.any id = true ∨ m.removed.any id = true ∨ pre.valid = false) :
    hasEffect (.tss k u) pre (capture (.tss k u) m) = true := by
  simp only [hasEffect, capture]
  rcases h4 with h | h | h <;> simp [h]

/-- round trip with marks: a schema position needs the tick to be a tick (`modified`), a field list needs
    the non-ticking collection fields to be inert -/
theorem apply_capture_aux : ∀ (s : Shape), wfShape s = true →
    (isFields s = false → ∀ pre m : St s, Tick s pre m → modified s m = true → apply s pre (capture s m) = m) ∧
    (isFields s = true → ∀ pre m : St s, Tick s pre m → Inert s pre m → apply s pre (capture s m) = m)
  | .ts k, _ => by
      refine ⟨fun _ pre m h hm => ?_, fun hf => by cases hf⟩
      rcases h with ⟨h1, h2⟩ | h
      · obtain ⟨v, md⟩ := m
        simp only at h1 h2
        subst h1
        cases v with
        | none => cases h2
        | some x => rfl
      · rw [h, modified_clear] at hm; cases hm
  | .signal, _ => by
      refine ⟨fun _ pre m h hm => ?_, fun hf => by cases hf⟩
      rcases h with ⟨h1, h2⟩ | h
      · obtain ⟨v, md⟩ := m
        simp only at h1 h2
        subst h1 h2
        rfl
      · rw [h, modified_clear] at hm; cases hm
  | .tsw k p, _ => by
      refine ⟨fun _ pre m h hm => ?_, fun hf => by cases hf⟩
      rcases h with ⟨h1, hp, x, hx⟩ | h
      · obtain ⟨v, md⟩ := m
        simp only at h1 hx
        subst h1 hx
        have hl := pushWin_getLast p hp pre.val x
        simp only [apply, capture, hl, Option.getD_some] <;> rfl
      · rw [h, modified_clear] at hm; cases hm
  | .tss k u, _ => by
      refine ⟨fun _ pre m h hm => ?_, fun hf => by cases hf⟩
      rcases h with h | ⟨h1, h2, h3, h4⟩
      · rw [h, modified_clear] at hm; cases hm
      · have hg := tss_gate k u pre m h4
        simp only [apply, hg, ↓reduceIte]
        simp only [capture, setApply_coh _ _ _ _ h3]
        obtain ⟨vl, md, es, as, rs⟩ := m
        simp only at h1 h2
        subst h1 h2
        rfl
  | .tsd k u v, hw => by
      simp only [wfShape, Bool.and_eq_true, Bool.not_eq_true'] at hw
      have ihv := (apply_capture_aux v hw.2).1 hw.1
      refine ⟨fun _ pre m h hm => ?_, fun hf => by cases hf⟩
      rcases h with h | ⟨h1, h2, h3, h4⟩
      · rw [h, modified_clear] at hm; cases hm
      · have hda := dictApply_capture (fresh v) (apply v) (clear v) (valid v) (modified v) (capture v) (Tick v)
          (fun p c ht hmd _ => ihv p c ht hmd) (tick_unmodified v) (tick_valid v) pre.slots m.slots m.removed h3
        obtain ⟨e1, e2, e3⟩ := dict_effect (fresh v) (valid v) (modified v) (capture v) (Tick v)
          pre.slots m.slots m.removed h3
        have hg : hasEffect (.tsd k u v) pre (capture (.tsd k u v) m) = true := by
          simp only [hasEffect, capture, e1, e2]
          generalize m.slots.any (slotTicked (modified v) (valid v)) = A at h4 ⊢
          generalize m.removed.any id = B at h4 e3 ⊢
          generalize removesPresent pre.slots (dictCapture (modified v) (valid v) (capture v) m.slots m.removed) = RP at e3 ⊢
          cases A <;> cases B <;> simp_all
        simp only [apply, hg, ↓reduceIte]
        simp only [capture, hda]
        obtain ⟨vl, md, sl, rs⟩ := m
        simp only at h1 h2
        subst h1 h2
        rfl
  | .tsl e n, hw => by
      simp only [wfShape, Bool.and_eq_true, Bool.not_eq_true'] at hw
      have ihe := (apply_capture_aux e hw.2).1 hw.1
      refine ⟨fun _ pre m h hm => ?_, fun hf => by cases hf⟩
      simp only [apply, capture]
      exact listApply_capture (apply e) (clear e) (valid e) (modified e) (capture e) (Tick e)
        (fun p c ht hmd _ => ihe p c ht hmd) (tick_unmodified e) (tick_valid e) pre m h
  | .tsld e, hw => by
      simp only [wfShape, Bool.and_eq_true, Bool.not_eq_true'] at hw
      have ihe := (apply_capture_aux e hw.2).1 hw.1
      refine ⟨fun _ pre m h hm => ?_, fun hf => by cases hf⟩
      simp only [apply, capture]
      exact dynApply_capture (T := Tick e) (fun p c ht hmd _ => ihe p c ht hmd) (tick_unmodified e) (tick_valid e)
        (clear_fresh e) pre m h
  | .tsb fs, hw => by
      simp only [wfShape, Bool.and_eq_true] at hw
      have ih := (apply_capture_aux fs hw.2).2 hw.1
      refine ⟨fun _ pre m h hm => ?_, fun hf => by cases hf⟩
      exact ih pre m h.1 (h.2 hm)
  | .bnil, _ => ⟨fun hf => (by cases hf), fun _ _ _ _ _ => rfl⟩
  | .bcons f r, hw => by
      simp only [wfShape, Bool.and_eq_true, Bool.not_eq_true'] at hw
      obtain ⟨⟨⟨hff, hwf⟩, hfr⟩, hwr⟩ := hw
      have ihf := (apply_capture_aux f hwf).1 hff
      have ihr := (apply_capture_aux r hwr).2 hfr
      refine ⟨fun hf => (by cases hf), fun _ pre m h hi => ?_⟩
      simp only [Inert] at hi
      simp only [apply, capture]
      refine Prod.ext ?_ (ihr pre.2 m.2 h.2 hi.2)
      simp only
      cases hmd : modified f m.1 with
      | true =>
        have hv := tick_valid f pre.1 m.1 h.1 hmd
        simp only [hv, Bool.and_self, ↓reduceIte]
        exact ihf pre.1 m.1 h.1 hmd
      | false =>
        have hu := tick_unmodified f pre.1 m.1 h.1 hmd
        simp only [Bool.false_and, Bool.false_eq_true, ↓reduceIte]
        cases hc : isCollection f with
        | true =>
          simp only [↓reduceIte]
          rw [apply_noEffect f pre.1 (emptyDelta f) (hi.1 hc hmd), hu]
        | false =>
          simp only [Bool.false_eq_true, ↓reduceIte]
          exact hu.symm

theorem tsd_gate (k : Bool) (u : Nat) (v : Shape) (pre m : St (.tsd k u v))
    (h3 : DictCoh (SlotCoh (Tick v) (fresh v) (modified v) (valid v)) pre.slots m.slots m.removed)
    (h4 : m.removed.any id = true ∨ m.slots.any (slotTicked (modified v) (valid v)) = true ∨ pre.valid = false) :
    hasEffect (.tsd k u v) pre (capture (.tsd k u v) m) = true := by
  obtain ⟨e1, e2, e3⟩ := dict_effect (fresh v) (valid v) (modified v) (capture v) (Tick v)
    pre.slots m.slots m.removed h3
  simp only [hasEffect, capture, e1, e2]
  generalize m.slots.any (slotTicked (modified v) (valid v)) = A at h4 ⊢
  generalize m.removed.any id = B at h4 e3 ⊢
  generalize removesPresent pre.slots (dictCapture (modified v) (valid v) (capture v) m.slots m.removed) = RP at e3 ⊢
  cases A <;> cases B <;> simp_all

/-- a ticking fixed list has at least one entry in its captured map -/
theorem list_captured_any {σ δ : Type} (md vld : σ → Bool) (cap : σ → δ) (T : σ → σ → Prop)
    (hval : ∀ p c, T p c → md c = true → vld c = true) :
    ∀ (ps cs : List σ), All2 T ps cs → cs.any md = true →
      (cs.map fun c => if md c && vld c then some (cap c) else none).any Option.isSome = true
  | [], [], _, h => by simp at h
  | p :: ps, c :: cs, ht, h => by
      simp only [All2] at ht
      simp only [List.any_cons, Bool.or_eq_true] at h
      simp only [List.map_cons, List.any_cons, Bool.or_eq_true]
      rcases h with h | h
      · left; simp [h, hval _ _ ht.1 h]
      · right; exact list_captured_any md vld cap T hval ps cs ht.2 h
  | [], _ :: _, ht, _ => by simp [All2] at ht
  | _ :: _, [], ht, _ => by simp [All2] at ht

/-- every replayable tick is let through by the gate of `apply_delta` when its captured delta is replayed -/
theorem tick_hasEffect_aux : ∀ (s : Shape) (pre m : St s), Tick s pre m → modified s m = true →
    hasEffect s pre (capture s m) = true
  | .ts _, _, _, _, _ => rfl
  | .signal, _, _, _, _ => rfl
  | .tsw _ _, _, _, _, _ => rfl
  | .tss k u, pre, m, h, hm => by
      rcases h with h | ⟨_, _, _, h4⟩
      · rw [h, modified_clear] at hm; cases hm
      · exact tss_gate k u pre m h4
  | .tsd k u v, pre, m, h, hm => by
      rcases h with h | ⟨_, _, h3, h4⟩
      · rw [h, modified_clear] at hm; cases hm
      · exact tsd_gate k u v pre m h3 h4
  | .tsl e n, pre, m, h, hm => by
      simp only [hasEffect, capture]
      exact list_captured_any (modified e) (valid e) (capture e) (Tick e) (tick_valid e) pre m h hm
  | .tsld e, pre, m, h, hm => by
      simp only [hasEffect, capture, trimNone_any]
      exact dynTick_captured_any (T := Tick e) (tick_valid e) pre m h hm
  | .tsb fs, pre, m, h, hm => tick_hasEffect_aux fs pre m h.1 hm
  | .bnil, _, _, _, hm => by simp [modified] at hm
  | .bcons f r, pre, m, h, hm => by
      simp only [modified, Bool.or_eq_true] at hm
      simp only [hasEffect, capture, Bool.or_eq_true]
      cases hmd : modified f m.1 with
      | true =>
        left
        simp only [tick_valid f pre.1 m.1 h.1 hmd, Bool.and_self, ↓reduceIte]
        exact tick_hasEffect_aux f pre.1 m.1 h.1 hmd
      | false =>
        right
        rcases hm with hm | hm
        · rw [hmd] at hm; cases hm
        · exact tick_hasEffect_aux r pre.2 m.2 h.2 hm

/-- every replayable tick is recorded: `delta_is_observable` holds for its captured delta -/
theorem tick_observable_aux : ∀ (s : Shape) (pre m : St s), Tick s pre m → modified s m = true →
    observable s m (capture s m) = true
  | .ts _, pre, m, h, hm => by
      rcases h with ⟨h1, h2⟩ | h
      · simp [observable, h1, h2]
      · rw [h, modified_clear] at hm; cases hm
  | .signal, pre, m, h, hm => by
      rcases h with ⟨h1, h2⟩ | h
      · simp [observable, h1, h2]
      · rw [h, modified_clear] at hm; cases hm
  | .tsw _ _, pre, m, h, hm => hm
  | .tss k u, pre, m, h, hm => by
      rcases h with h | ⟨h1, h2, _, _⟩
      · rw [h, modified_clear] at hm; cases hm
      · simp [observable, h1, h2]
  | .tsd k u v, pre, m, h, hm => by
      rcases h with h | ⟨h1, h2, _, _⟩
      · rw [h, modified_clear] at hm; cases hm
      · simp [observable, h1, h2]
  | .tsl e n, pre, m, h, hm => by
      simp only [observable, hm, Bool.true_and, capture]
      exact list_captured_any (modified e) (valid e) (capture e) (Tick e) (tick_valid e) pre m h hm
  | .tsld e, pre, m, h, hm => by
      simp only [observable, hm, Bool.true_and, capture, trimNone_any, Bool.or_eq_true]
      right
      exact dynTick_captured_any (T := Tick e) (tick_valid e) pre m h hm
  | .tsb fs, pre, m, h, hm => tick_observable_aux fs pre m h.1 hm
  | .bnil, _, _, _, hm => by simp [modified] at hm
  | .bcons f r, pre, m, h, hm => by
      simp only [modified, Bool.or_eq_true] at hm
      simp only [observable, capture, Bool.or_eq_true]
      cases hmd : modified f m.1 with
      | true =>
        left
        simp only [tick_valid f pre.1 m.1 h.1 hmd, Bool.and_self, ↓reduceIte, Bool.true_and]
        exact tick_observable_aux f pre.1 m.1 h.1 hmd
      | false =>
        right
        rcases hm with hm | hm
        · rw [hmd] at hm; cases hm
        · exact tick_observable_aux r pre.2 m.2 h.2 hm

end HgVerif.Delta
