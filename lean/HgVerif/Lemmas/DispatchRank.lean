import HgVerif.Model.Dispatch
/-!
Per-key reading of the rank accumulator (`RankAccumulator`, `collect_scalar_rank`, `collect_ts_rank`,
`operator_rank` of include/hgraph/types/operator_dispatch.h) and the lemmas behind the ceiling
theorems of C19.

* `keyRankT k p v`  : the smallest budget at which variable key `k` occurs in `p` when `p` is
                      collected with budget `v` (`none` when it does not occur) — the value the
                      accumulator ends up storing under `k`;
* `structT p`       : the structural count `p` adds;
* `lookup_collectT` : `collectT` stores exactly `min(old, keyRankT)` under every key;
* `sumVals_le_of_submap` : an accumulator whose entries all appear in another one sums to less;
* `applyT σ`        : ground instantiation (type variables replaced by `Concrete` leaves, the form a
                      fully concrete sub-tree is lowered to) and its effect on `keyRankT` / `structT`.
-/
namespace HgVerif.Dispatch

/-! ## association-list facts -/

def keysOf (l : List (Key × Nat)) : List Key := l.map (·.1)

def optMin : Option Nat → Option Nat → Option Nat
  | none, b => b
  | some a, none => some a
  | some a, some b => some (min a b)

@[simp] theorem optMin_none_right (a : Option Nat) : optMin a none = a := by cases a <;> rfl
@[simp] theorem optMin_none_left (a : Option Nat) : optMin none a = a := rfl

theorem optMin_assoc (a b c : Option Nat) : optMin (optMin a b) c = optMin a (optMin b c) := by
  cases a <;> cases b <;> cases c <;> simp [optMin, Nat.min_assoc]

theorem lookup_eq_none_iff {l : List (Key × Nat)} {k : Key} : lookup l k = none ↔ k ∉ keysOf l := by
  induction l with
  | nil => simp [lookup, keysOf]
  | cons x xs ih =>
    obtain ⟨k', v⟩ := x
    simp only [lookup, keysOf, List.map_cons, List.mem_cons]
    by_cases h : k' = k
    · simp [h]
    · simp only [h, if_false]
      rw [ih]
      simp only [keysOf]
      constructor
      · intro hn hor
        rcases hor with hor | hor
        · exact h hor.symm
        · exact hn hor
      · intro hn hm
        exact hn (Or.inr hm)

theorem keysOf_setKey (k : Key) (r : Nat) : ∀ l : List (Key × Nat), keysOf (setKey k r l) = keysOf l
  | [] => rfl
  | (k', v) :: rest => by
    simp only [setKey]
    split
    · simp [keysOf]
    · simp only [keysOf, List.map_cons, List.cons.injEq, true_and]
      exact keysOf_setKey k r rest

theorem lookup_setKey (k : Key) (r : Nat) : ∀ (l : List (Key × Nat)) (k' : Key),
    lookup (setKey k r l) k' = if k' = k then (lookup l k).map (fun _ => r) else lookup l k'
  | [], k' => by simp [setKey, lookup]
  | (k0, v) :: rest, k' => by
    simp only [setKey]
    by_cases h0 : k0 = k
    · subst h0
      simp only [if_true, lookup]
      by_cases h1 : k0 = k'
      · subst h1; simp
      · have : ¬ k' = k0 := fun h => h1 h.symm
        simp [h1, this]
    · simp only [h0, if_false, lookup]
      by_cases h1 : k0 = k'
      · subst h1
        simp [h0]
      · simp only [h1, if_false]
        rw [lookup_setKey k r rest k']

/-- `add_var` stores the minimum under its key and touches nothing else -/
theorem lookup_addVar (a : RankAcc) (k : Key) (r : Nat) (k' : Key) :
    lookup (a.addVar k r).vars k' = if k' = k then optMin (lookup a.vars k) (some r) else lookup a.vars k' := by
  unfold RankAcc.addVar
  split
  · rename_i hn
    simp only [lookup]
    by_cases h : k = k'
    · subst h; simp [hn]
    · have : ¬ k' = k := fun h' => h h'.symm
      simp [h, this]
  · rename_i old ho
    split
    · rename_i hlt
      simp only [lookup_setKey, ho, Option.map_some]
      by_cases h : k' = k
      · simp [h, optMin, Nat.min_def]
        omega
      · simp [h]
    · rename_i hge
      by_cases h : k' = k
      · subst h
        simp [ho, optMin, Nat.min_def]
        omega
      · simp [h]

@[simp] theorem addVar_structural (a : RankAcc) (k : Key) (r : Nat) : (a.addVar k r).structural = a.structural := by
  unfold RankAcc.addVar
  split
  · rfl
  · split <;> rfl

theorem nodup_addVar {a : RankAcc} (k : Key) (r : Nat) (h : (keysOf a.vars).Nodup) :
    (keysOf (a.addVar k r).vars).Nodup := by
  unfold RankAcc.addVar
  split
  · rename_i hn
    simp only [keysOf, List.map_cons, List.nodup_cons]
    exact ⟨lookup_eq_none_iff.mp hn, h⟩
  · split
    · simp only [keysOf_setKey]; exact h
    · exact h

/-! ### sums of sub-maps -/

def eraseKey (k : Key) : List (Key × Nat) → List (Key × Nat)
  | [] => []
  | (k', v) :: rest => if k' = k then rest else (k', v) :: eraseKey k rest

theorem sumVals_erase {k : Key} {v : Nat} : ∀ {l : List (Key × Nat)}, lookup l k = some v →
    sumVals l = v + sumVals (eraseKey k l)
  | [], h => by simp [lookup] at h
  | (k', w) :: rest, h => by
    simp only [lookup] at h
    simp only [eraseKey, sumVals]
    split at h
    · rename_i hk
      cases h
      simp [hk]
    · rename_i hk
      simp only [hk, if_false, sumVals]
      have := sumVals_erase h
      omega

theorem lookup_erase_ne {k k' : Key} (hne : k' ≠ k) : ∀ l : List (Key × Nat),
    lookup (eraseKey k l) k' = lookup l k'
  | [] => rfl
  | (k0, w) :: rest => by
    simp only [eraseKey]
    split
    · rename_i h0
      subst h0
      have : ¬ k0 = k' := fun h => hne h.symm
      simp [lookup, this]
    · rename_i h0
      simp only [lookup]
      split
      · rfl
      · exact lookup_erase_ne hne rest

/-- if every entry of `l'` (unique keys) is an entry of `l`, then `l'` sums to at most `l` -/
theorem sumVals_le_of_submap : ∀ (l' l : List (Key × Nat)), (keysOf l').Nodup →
    (∀ k v, lookup l' k = some v → lookup l k = some v) → sumVals l' ≤ sumVals l
  | [], l, _, _ => by simp [sumVals]
  | (k, v) :: rest, l, hnd, hsub => by
    simp only [keysOf, List.map_cons, List.nodup_cons] at hnd
    have hk : lookup l k = some v := hsub k v (by simp [lookup])
    rw [sumVals_erase hk]
    simp only [sumVals]
    have ih := sumVals_le_of_submap rest (eraseKey k l) hnd.2 (by
      intro k' v' h'
      have hne : k' ≠ k := by
        intro he
        subst he
        have : lookup rest k' ≠ none := by rw [h']; simp
        exact this (lookup_eq_none_iff.mpr hnd.1)
      rw [lookup_erase_ne hne]
      apply hsub
      simp only [lookup]
      have : ¬ k = k' := fun h => hne h.symm
      simp [this, h'])
    omega

/-- … and strictly less when `l` has a positive entry whose key `l'` lacks -/
theorem sumVals_lt_of_submap {l' l : List (Key × Nat)} (hnd : (keysOf l').Nodup)
    (hsub : ∀ k v, lookup l' k = some v → lookup l k = some v)
    {k0 : Key} {v0 : Nat} (h0 : lookup l k0 = some v0) (hpos : 1 ≤ v0) (hmiss : lookup l' k0 = none) :
    sumVals l' < sumVals l := by
  rw [sumVals_erase h0]
  have := sumVals_le_of_submap l' (eraseKey k0 l) hnd (by
    intro k v h
    have hne : k ≠ k0 := by
      intro he; subst he; rw [hmiss] at h; cases h
    rw [lookup_erase_ne hne]
    exact hsub k v h)
  omega

/-! ## the per-key reading of `collect_*_rank` -/

def keyRankS (k : Key) (p : SP) (v : Nat) : Option Nat :=
  match p with
  | .var n cs => if k = .sc n then some (if cs.isEmpty then v else decay v) else none
  | .conc _ => none

mutual
def keyRankT (k : Key) (p : TP) (v : Nat) : Option Nat :=
  match p with
  | .var n cs => if k = .ts n then some (if cs.isEmpty then v else decay v) else none
  | .conc _ => none
  | .signal => none
  | .ts s => keyRankS k s SCALAR_VAR_RANK
  | .tss s => keyRankS k s SCALAR_VAR_RANK
  | .tsw s _ => keyRankS k s SCALAR_VAR_RANK
  | .tsl e _ => keyRankT k e (decay v)
  | .tsd s e => optMin (keyRankS k s SCALAR_VAR_RANK) (keyRankT k e (decay v))
  | .tsbVar n => if k = .ts n then some (decay v) else none
  | .tsb _ fs => keyRankFields k fs (decay v)
  | .ref t => keyRankT k t v
def keyRankFields (k : Key) (fs : PFields) (v : Nat) : Option Nat :=
  match fs with
  | .nil => none
  | .cons _ p rest => optMin (keyRankT k p v) (keyRankFields k rest v)
end

mutual
/-- the structural count of a pattern -/
def structT : TP → Nat
  | .var _ _ => 0
  | .conc _ => 0
  | .signal => 0
  | .ts _ => 1
  | .tss _ => 1
  | .tsw _ _ => 1
  | .tsl e _ => 1 + structT e
  | .tsd _ e => 1 + structT e
  | .tsbVar _ => 1
  | .tsb _ fs => 1 + structFields fs
  | .ref t => structT t
def structFields : PFields → Nat
  | .nil => 0
  | .cons _ p rest => structT p + structFields rest
end

/-- what an accumulator must satisfy: unique keys -/
def AccOk (a : RankAcc) : Prop := (keysOf a.vars).Nodup

theorem accOk_bump {a : RankAcc} (h : AccOk a) : AccOk a.bump := h
@[simp] theorem bump_structural (a : RankAcc) : a.bump.structural = a.structural + 1 := rfl
@[simp] theorem bump_vars (a : RankAcc) : a.bump.vars = a.vars := rfl

theorem collectS_spec (p : SP) (a : RankAcc) (v : Nat) (h : AccOk a) :
    AccOk (collectS p a v) ∧ (collectS p a v).structural = a.structural ∧
      ∀ k, lookup (collectS p a v).vars k = optMin (lookup a.vars k) (keyRankS k p v) := by
  cases p with
  | conc s => exact ⟨h, rfl, fun k => by simp [collectS, keyRankS]⟩
  | var n cs =>
    refine ⟨nodup_addVar _ _ h, by simp [collectS], fun k => ?_⟩
    simp only [collectS, keyRankS, lookup_addVar]
    split
    · rename_i hk; subst hk; rfl
    · simp

mutual
theorem collectT_spec : ∀ (p : TP) (a : RankAcc) (v : Nat), AccOk a →
    AccOk (collectT p a v) ∧ (collectT p a v).structural = a.structural + structT p ∧
      ∀ k, lookup (collectT p a v).vars k = optMin (lookup a.vars k) (keyRankT k p v)
  | .var n cs, a, v, h => by
    refine ⟨nodup_addVar _ _ h, by simp [collectT, structT], fun k => ?_⟩
    simp only [collectT, keyRankT, lookup_addVar]
    split
    · rename_i hk; subst hk; rfl
    · simp
  | .conc _, a, v, h => ⟨h, by simp [collectT, structT], fun k => by simp [collectT, keyRankT]⟩
  | .signal, a, v, h => ⟨h, by simp [collectT, structT], fun k => by simp [collectT, keyRankT]⟩
  | .ts s, a, v, h => by
    have := collectS_spec s a.bump SCALAR_VAR_RANK (accOk_bump h)
    exact ⟨this.1, by simp only [collectT, structT]; rw [this.2.1, bump_structural],
      fun k => by simp only [collectT, keyRankT]; rw [this.2.2 k, bump_vars]⟩
  | .tss s, a, v, h => by
    have := collectS_spec s a.bump SCALAR_VAR_RANK (accOk_bump h)
    exact ⟨this.1, by simp only [collectT, structT]; rw [this.2.1, bump_structural],
      fun k => by simp only [collectT, keyRankT]; rw [this.2.2 k, bump_vars]⟩
  | .tsw s w, a, v, h => by
    have := collectS_spec s a.bump SCALAR_VAR_RANK (accOk_bump h)
    exact ⟨this.1, by simp only [collectT, structT]; rw [this.2.1, bump_structural],
      fun k => by simp only [collectT, keyRankT]; rw [this.2.2 k, bump_vars]⟩
  | .tsl e sz, a, v, h => by
    have := collectT_spec e a.bump (decay v) (accOk_bump h)
    exact ⟨this.1, by simp only [collectT, structT]; rw [this.2.1, bump_structural]; omega,
      fun k => by simp only [collectT, keyRankT]; rw [this.2.2 k, bump_vars]⟩
  | .tsd s e, a, v, h => by
    have h1 := collectS_spec s a.bump SCALAR_VAR_RANK (accOk_bump h)
    have h2 := collectT_spec e (collectS s a.bump SCALAR_VAR_RANK) (decay v) h1.1
    exact ⟨h2.1, by simp only [collectT, structT]; rw [h2.2.1, h1.2.1, bump_structural]; omega,
      fun k => by
        simp only [collectT, keyRankT]
        rw [h2.2.2 k, h1.2.2 k, optMin_assoc, bump_vars]⟩
  | .tsbVar n, a, v, h => by
    refine ⟨nodup_addVar _ _ (accOk_bump h), by simp [collectT, structT], fun k => ?_⟩
    simp only [collectT, keyRankT, lookup_addVar]
    split
    · rename_i hk; subst hk; rfl
    · simp
  | .tsb _ fs, a, v, h => by
    have := collectFields_spec fs a.bump (decay v) (accOk_bump h)
    exact ⟨this.1, by simp only [collectT, structT]; rw [this.2.1, bump_structural]; omega,
      fun k => by simp only [collectT, keyRankT]; rw [this.2.2 k, bump_vars]⟩
  | .ref t, a, v, h => by
    have := collectT_spec t a v h
    exact ⟨this.1, by simp only [collectT, structT, this.2.1],
      fun k => by simp only [collectT, keyRankT]; exact this.2.2 k⟩
theorem collectFields_spec : ∀ (fs : PFields) (a : RankAcc) (v : Nat), AccOk a →
    AccOk (collectFields fs a v) ∧ (collectFields fs a v).structural = a.structural + structFields fs ∧
      ∀ k, lookup (collectFields fs a v).vars k = optMin (lookup a.vars k) (keyRankFields k fs v)
  | .nil, a, v, h => ⟨h, by simp [collectFields, structFields], fun k => by simp [collectFields, keyRankFields]⟩
  | .cons f p rest, a, v, h => by
    have h1 := collectT_spec p a v h
    have h2 := collectFields_spec rest (collectT p a v) v h1.1
    exact ⟨h2.1, by simp only [collectFields, structFields, h2.2.1, h1.2.1]; omega,
      fun k => by
        simp only [collectFields, keyRankFields]
        rw [h2.2.2 k, h1.2.2 k, optMin_assoc]⟩
end

/-! ### parameter lists -/

def keyRankParam (k : Key) (p : Param) : Option Nat :=
  match p with
  | .input t => keyRankT k t LARGE_RANK
  | .scalar s => keyRankS k s SCALAR_PARAM_VAR_RANK

def structParam (p : Param) : Nat :=
  match p with
  | .input t => structT t
  | .scalar _ => 0

def keyRankParams (k : Key) : List Param → Option Nat
  | [] => none
  | p :: ps => optMin (keyRankParam k p) (keyRankParams k ps)

def structParams : List Param → Nat
  | [] => 0
  | p :: ps => structParam p + structParams ps

theorem collectParam_spec (p : Param) (a : RankAcc) (h : AccOk a) :
    AccOk (collectParam a p) ∧ (collectParam a p).structural = a.structural + structParam p ∧
      ∀ k, lookup (collectParam a p).vars k = optMin (lookup a.vars k) (keyRankParam k p) := by
  cases p with
  | input t => exact collectT_spec t a LARGE_RANK h
  | scalar s =>
    have := collectS_spec s a SCALAR_PARAM_VAR_RANK h
    exact ⟨this.1, by simp [collectParam, structParam, this.2.1], this.2.2⟩

theorem foldl_collectParam_spec : ∀ (ps : List Param) (a : RankAcc), AccOk a →
    AccOk (ps.foldl collectParam a) ∧ (ps.foldl collectParam a).structural = a.structural + structParams ps ∧
      ∀ k, lookup (ps.foldl collectParam a).vars k = optMin (lookup a.vars k) (keyRankParams k ps)
  | [], a, h => ⟨h, by simp [structParams], fun k => by simp [keyRankParams]⟩
  | p :: ps, a, h => by
    have h1 := collectParam_spec p a h
    have h2 := foldl_collectParam_spec ps (collectParam a p) h1.1
    exact ⟨h2.1, by simp only [List.foldl_cons, structParams, h2.2.1, h1.2.1]; omega,
      fun k => by
        simp only [List.foldl_cons, keyRankParams]
        rw [h2.2.2 k, h1.2.2 k, optMin_assoc]⟩

/-- the accumulator `operator_rank` ends with -/
def rankAcc (ps : List Param) : RankAcc := ps.foldl collectParam {}

theorem rankAcc_spec (ps : List Param) :
    AccOk (rankAcc ps) ∧ (rankAcc ps).structural = structParams ps ∧
      ∀ k, lookup (rankAcc ps).vars k = keyRankParams k ps := by
  have := foldl_collectParam_spec ps {} (by simp [AccOk, keysOf])
  refine ⟨this.1, by simpa [rankAcc] using this.2.1, fun k => ?_⟩
  have hk := this.2.2 k
  simpa [lookup, rankAcc] using hk

theorem operatorRank_eq (ps : List Param) :
    operatorRank ps = structParams ps + sumVals (rankAcc ps).vars := by
  simp [operatorRank, RankAcc.total, rankAcc, (rankAcc_spec ps).2.1.symm]

/-! ### every stored budget is positive -/

theorem decay_pos (v : Nat) : 1 ≤ decay v := by simp [decay]; omega

theorem keyRankS_pos {k : Key} {p : SP} {v b : Nat} (hv : 1 ≤ v) (h : keyRankS k p v = some b) : 1 ≤ b := by
  cases p with
  | conc s => simp [keyRankS] at h
  | var n cs =>
    simp only [keyRankS] at h
    split at h
    · cases h
      split
      · exact hv
      · exact decay_pos v
    · cases h

theorem optMin_pos {a b : Option Nat} {r : Nat} (ha : ∀ x, a = some x → 1 ≤ x) (hb : ∀ x, b = some x → 1 ≤ x)
    (h : optMin a b = some r) : 1 ≤ r := by
  cases a with
  | none => exact hb r h
  | some x =>
    cases b with
    | none => exact ha r h
    | some y =>
      simp only [optMin, Option.some.injEq] at h
      have := ha x rfl
      have := hb y rfl
      omega

mutual
theorem keyRankT_pos {k : Key} : ∀ (p : TP) (v b : Nat), 1 ≤ v → keyRankT k p v = some b → 1 ≤ b
  | .var n cs, v, b, hv, h => by
    simp only [keyRankT] at h
    split at h
    · cases h
      split
      · exact hv
      · exact decay_pos v
    · cases h
  | .conc _, _, _, _, h => by simp [keyRankT] at h
  | .signal, _, _, _, h => by simp [keyRankT] at h
  | .ts s, v, b, _, h => by
    simp only [keyRankT] at h
    exact keyRankS_pos (v := SCALAR_VAR_RANK) (by decide) h
  | .tss s, v, b, _, h => by
    simp only [keyRankT] at h
    exact keyRankS_pos (v := SCALAR_VAR_RANK) (by decide) h
  | .tsw s _, v, b, _, h => by
    simp only [keyRankT] at h
    exact keyRankS_pos (v := SCALAR_VAR_RANK) (by decide) h
  | .tsl e _, v, b, _, h => keyRankT_pos e (decay v) b (decay_pos v) (by simpa [keyRankT] using h)
  | .tsd s e, v, b, _, h => by
    simp only [keyRankT] at h
    exact optMin_pos (fun x hx => keyRankS_pos (v := SCALAR_VAR_RANK) (by decide) hx)
      (fun x hx => keyRankT_pos e (decay v) x (decay_pos v) hx) h
  | .tsbVar n, v, b, _, h => by
    simp only [keyRankT] at h
    split at h
    · cases h; exact decay_pos v
    · cases h
  | .tsb _ fs, v, b, _, h => keyRankFields_pos fs (decay v) b (decay_pos v) (by simpa [keyRankT] using h)
  | .ref t, v, b, hv, h => keyRankT_pos t v b hv (by simpa [keyRankT] using h)
theorem keyRankFields_pos {k : Key} : ∀ (fs : PFields) (v b : Nat), 1 ≤ v → keyRankFields k fs v = some b → 1 ≤ b
  | .nil, _, _, _, h => by simp [keyRankFields] at h
  | .cons _ p rest, v, b, hv, h => by
    simp only [keyRankFields] at h
    exact optMin_pos (fun x hx => keyRankT_pos p v x hv hx) (fun x hx => keyRankFields_pos rest v x hv hx) h
end

theorem keyRankParams_pos {k : Key} : ∀ (ps : List Param) (b : Nat), keyRankParams k ps = some b → 1 ≤ b
  | [], _, h => by simp [keyRankParams] at h
  | p :: ps, b, h => by
    simp only [keyRankParams] at h
    refine optMin_pos (fun x hx => ?_) (fun x hx => keyRankParams_pos ps x hx) h
    cases p with
    | input t => exact keyRankT_pos t LARGE_RANK x (by decide) hx
    | scalar s => exact keyRankS_pos (v := SCALAR_PARAM_VAR_RANK) (by decide) hx

/-! ## ground instantiation -/

/-- a ground substitution: some time-series variables become `Concrete` leaves (the form a fully
    concrete sub-tree is lowered to), some scalar variables become concrete scalars, some size
    variables become fixed sizes -/
structure GSubst where
  ts : Name → Option CT
  sc : Name → Option Sc
  sz : Name → Option Nat

def GSubst.dom (σ : GSubst) : Key → Bool
  | .ts n => (σ.ts n).isSome
  | .sc n => (σ.sc n).isSome

def applyS (σ : GSubst) : SP → SP
  | .var n cs => match σ.sc n with
    | some s => .conc s
    | none => .var n cs
  | .conc s => .conc s

def applySz (σ : GSubst) : SizeP → SizeP
  | .var n cs => match σ.sz n with
    | some k => .fixed k
    | none => .var n cs
  | .fixed k => .fixed k

mutual
def applyT (σ : GSubst) : TP → TP
  | .var n cs => match σ.ts n with
    | some c => .conc c
    | none => .var n cs
  | .tsbVar n => match σ.ts n with
    | some c => .conc c
    | none => .tsbVar n
  | .conc c => .conc c
  | .signal => .signal
  | .ts s => .ts (applyS σ s)
  | .tss s => .tss (applyS σ s)
  | .tsw s w => .tsw (applyS σ s) w
  | .tsl e sz => .tsl (applyT σ e) (applySz σ sz)
  | .tsd k v => .tsd (applyS σ k) (applyT σ v)
  | .tsb nm fs => .tsb nm (applyFields σ fs)
  | .ref t => .ref (applyT σ t)
def applyFields (σ : GSubst) : PFields → PFields
  | .nil => .nil
  | .cons f p rest => .cons f (applyT σ p) (applyFields σ rest)
end

def applyParam (σ : GSubst) : Param → Param
  | .input t => .input (applyT σ t)
  | .scalar s => .scalar (applyS σ s)

theorem keyRankS_apply (σ : GSubst) (k : Key) (p : SP) (v : Nat) :
    keyRankS k (applyS σ p) v = if σ.dom k then none else keyRankS k p v := by
  cases p with
  | conc s => simp [applyS, keyRankS]
  | var n cs =>
    simp only [applyS]
    cases hs : σ.sc n with
    | some s =>
      simp only [keyRankS]
      by_cases hk : k = .sc n
      · subst hk; simp [GSubst.dom, hs]
      · simp [hk]
    | none =>
      simp only [keyRankS]
      by_cases hk : k = .sc n
      · subst hk; simp [GSubst.dom, hs]
      · simp [hk]

theorem optMin_ite (c : Bool) (a b : Option Nat) :
    optMin (if c then none else a) (if c then none else b) = if c then none else optMin a b := by
  cases c <;> simp

mutual
theorem keyRankT_apply (σ : GSubst) (k : Key) : ∀ (p : TP) (v : Nat),
    keyRankT k (applyT σ p) v = if σ.dom k then none else keyRankT k p v
  | .var n cs, v => by
    simp only [applyT]
    cases hs : σ.ts n with
    | some c =>
      simp only [keyRankT]
      by_cases hk : k = .ts n
      · subst hk; simp [GSubst.dom, hs]
      · simp [hk]
    | none =>
      simp only [keyRankT]
      by_cases hk : k = .ts n
      · subst hk; simp [GSubst.dom, hs]
      · simp [hk]
  | .tsbVar n, v => by
    simp only [applyT]
    cases hs : σ.ts n with
    | some c =>
      simp only [keyRankT]
      by_cases hk : k = .ts n
      · subst hk; simp [GSubst.dom, hs]
      · simp [hk]
    | none =>
      simp only [keyRankT]
      by_cases hk : k = .ts n
      · subst hk; simp [GSubst.dom, hs]
      · simp [hk]
  | .conc _, v => by simp [applyT, keyRankT]
  | .signal, v => by simp [applyT, keyRankT]
  | .ts s, v => by simp only [applyT, keyRankT]; exact keyRankS_apply σ k s _
  | .tss s, v => by simp only [applyT, keyRankT]; exact keyRankS_apply σ k s _
  | .tsw s w, v => by simp only [applyT, keyRankT]; exact keyRankS_apply σ k s _
  | .tsl e sz, v => by simp only [applyT, keyRankT]; exact keyRankT_apply σ k e _
  | .tsd s e, v => by
    simp only [applyT, keyRankT]
    rw [keyRankS_apply, keyRankT_apply σ k e, optMin_ite]
  | .tsb _ fs, v => by simp only [applyT, keyRankT]; exact keyRankFields_apply σ k fs _
  | .ref t, v => by simp only [applyT, keyRankT]; exact keyRankT_apply σ k t v
theorem keyRankFields_apply (σ : GSubst) (k : Key) : ∀ (fs : PFields) (v : Nat),
    keyRankFields k (applyFields σ fs) v = if σ.dom k then none else keyRankFields k fs v
  | .nil, v => by simp [applyFields, keyRankFields]
  | .cons f p rest, v => by
    simp only [applyFields, keyRankFields]
    rw [keyRankT_apply σ k p, keyRankFields_apply σ k rest, optMin_ite]
end

mutual
theorem structT_apply (σ : GSubst) : ∀ p : TP, structT (applyT σ p) ≤ structT p
  | .var n cs => by simp only [applyT]; split <;> simp [structT]
  | .tsbVar n => by simp only [applyT]; split <;> simp [structT]
  | .conc _ => by simp [applyT]
  | .signal => by simp [applyT]
  | .ts _ => by simp [applyT, structT]
  | .tss _ => by simp [applyT, structT]
  | .tsw _ _ => by simp [applyT, structT]
  | .tsl e _ => by simp only [applyT, structT]; have := structT_apply σ e; omega
  | .tsd _ e => by simp only [applyT, structT]; have := structT_apply σ e; omega
  | .tsb _ fs => by simp only [applyT, structT]; have := structFields_apply σ fs; omega
  | .ref t => by simp only [applyT, structT]; exact structT_apply σ t
theorem structFields_apply (σ : GSubst) : ∀ fs : PFields, structFields (applyFields σ fs) ≤ structFields fs
  | .nil => by simp [applyFields]
  | .cons _ p rest => by
    simp only [applyFields, structFields]
    have := structT_apply σ p
    have := structFields_apply σ rest
    omega
end

theorem keyRankParams_apply (σ : GSubst) (k : Key) : ∀ ps : List Param,
    keyRankParams k (ps.map (applyParam σ)) = if σ.dom k then none else keyRankParams k ps
  | [] => by simp [keyRankParams]
  | p :: ps => by
    simp only [List.map_cons, keyRankParams]
    rw [keyRankParams_apply σ k ps]
    have : keyRankParam k (applyParam σ p) = if σ.dom k then none else keyRankParam k p := by
      cases p with
      | input t => exact keyRankT_apply σ k t _
      | scalar s => exact keyRankS_apply σ k s _
    rw [this, optMin_ite]

theorem structParams_apply (σ : GSubst) : ∀ ps : List Param,
    structParams (ps.map (applyParam σ)) ≤ structParams ps
  | [] => by simp [structParams]
  | p :: ps => by
    simp only [List.map_cons, structParams]
    have := structParams_apply σ ps
    have : structParam (applyParam σ p) ≤ structParam p := by
      cases p with
      | input t => exact structT_apply σ t
      | scalar s => simp [applyParam, structParam]
    omega

/-! ## general instantiation of whole-time-series variables (for the full ceiling statement) -/

mutual
/-- replace time-series variables by arbitrary patterns -/
def instantiateT (σ : Name → Option TP) : TP → TP
  | .var n cs => match σ n with
    | some r => r
    | none => .var n cs
  | .tsl e sz => .tsl (instantiateT σ e) sz
  | .tsd k v => .tsd k (instantiateT σ v)
  | .tsb nm fs => .tsb nm (instantiateFields σ fs)
  | .ref t => .ref (instantiateT σ t)
  | .conc c => .conc c
  | .ts s => .ts s
  | .tss s => .tss s
  | .tsw s w => .tsw s w
  | .tsbVar n => .tsbVar n
  | .signal => .signal
def instantiateFields (σ : Name → Option TP) : PFields → PFields
  | .nil => .nil
  | .cons f p rest => .cons f (instantiateT σ p) (instantiateFields σ rest)
end

def instantiateParam (σ : Name → Option TP) : Param → Param
  | .input t => .input (instantiateT σ t)
  | .scalar s => .scalar s

/-! ## instantiating ONE time-series variable by a pattern with fresh variables -/

/-- the substitution `x ↦ r` -/
def single (x : Name) (r : TP) : Name → Option TP := fun n => if n = x then some r else none

mutual
/-- the key `ts:x` occurs in `p` only as the unconstrained variable `~x` -/
def plainT (x : Name) : TP → Bool
  | .var n cs => decide (n ≠ x) || cs.isEmpty
  | .tsbVar n => decide (n ≠ x)
  | .tsl e _ => plainT x e
  | .tsd _ v => plainT x v
  | .tsb _ fs => plainFields x fs
  | .ref t => plainT x t
  | .conc _ => true
  | .ts _ => true
  | .tss _ => true
  | .tsw _ _ => true
  | .signal => true
def plainFields (x : Name) : PFields → Bool
  | .nil => true
  | .cons _ p rest => plainT x p && plainFields x rest
end

mutual
/-- number of occurrences of the variable `~x` -/
def occT (x : Name) : TP → Nat
  | .var n _ => if n = x then 1 else 0
  | .tsl e _ => occT x e
  | .tsd _ v => occT x v
  | .tsb _ fs => occFields x fs
  | .ref t => occT x t
  | .tsbVar _ => 0
  | .conc _ => 0
  | .ts _ => 0
  | .tss _ => 0
  | .tsw _ _ => 0
  | .signal => 0
def occFields (x : Name) : PFields → Nat
  | .nil => 0
  | .cons _ p rest => occT x p + occFields x rest
end

def plainParam (x : Name) : Param → Bool
  | .input t => plainT x t
  | .scalar _ => true

def occParam (x : Name) : Param → Nat
  | .input t => occT x t
  | .scalar _ => 0

def occParams (x : Name) : List Param → Nat
  | [] => 0
  | p :: ps => occParam x p + occParams x ps

mutual
theorem structT_instantiate (x : Name) (r : TP) : ∀ q : TP,
    structT (instantiateT (single x r) q) = structT q + occT x q * structT r
  | .var n cs => by
    simp only [instantiateT, single, occT]
    by_cases h : n = x <;> simp [h, structT]
  | .tsl e _ => by simp only [instantiateT, structT, occT, structT_instantiate x r e]; omega
  | .tsd _ e => by simp only [instantiateT, structT, occT, structT_instantiate x r e]; omega
  | .tsb _ fs => by simp only [instantiateT, structT, occT, structFields_instantiate x r fs]; omega
  | .ref t => by simp only [instantiateT, structT, occT, structT_instantiate x r t]
  | .tsbVar _ => by simp [instantiateT, structT, occT]
  | .conc _ => by simp [instantiateT, structT, occT]
  | .ts _ => by simp [instantiateT, structT, occT]
  | .tss _ => by simp [instantiateT, structT, occT]
  | .tsw _ _ => by simp [instantiateT, structT, occT]
  | .signal => by simp [instantiateT, structT, occT]
theorem structFields_instantiate (x : Name) (r : TP) : ∀ fs : PFields,
    structFields (instantiateFields (single x r) fs) = structFields fs + occFields x fs * structT r
  | .nil => by simp [instantiateFields, structFields, occFields]
  | .cons _ p rest => by
    simp only [instantiateFields, structFields, occFields, structT_instantiate x r p,
      structFields_instantiate x r rest, Nat.add_mul]
    omega
end

theorem structParams_instantiate (x : Name) (r : TP) : ∀ ps : List Param,
    structParams (ps.map (instantiateParam (single x r))) = structParams ps + occParams x ps * structT r
  | [] => by simp [structParams, occParams]
  | p :: ps => by
    simp only [List.map_cons, structParams, occParams, structParams_instantiate x r ps, Nat.add_mul]
    cases p with
    | input t => simp only [instantiateParam, structParam, occParam, structT_instantiate x r t]; omega
    | scalar s => simp [instantiateParam, structParam, occParam]

/-! ### `optMin` algebra -/

theorem optMin_comm (a b : Option Nat) : optMin a b = optMin b a := by
  cases a <;> cases b <;> simp [optMin, Nat.min_comm]

theorem optMin_swap4 (a b c d : Option Nat) :
    optMin (optMin a b) (optMin c d) = optMin (optMin a c) (optMin b d) := by
  rw [optMin_assoc, optMin_assoc, ← optMin_assoc b c d, optMin_comm b c, optMin_assoc c b d]

theorem optMin_self (a : Option Nat) : optMin a a = a := by cases a <;> simp [optMin]

theorem optMin_distrib (s a b : Option Nat) : optMin s (optMin a b) = optMin (optMin s a) (optMin s b) := by
  rw [optMin_swap4, optMin_self]

theorem decay_min (a b : Nat) : decay (min a b) = min (decay a) (decay b) := by
  simp only [decay]
  omega

/-- a key's stored budget is a min-preserving function of the budget the pattern is collected at -/
def MinPreserving (g : Nat → Option Nat) : Prop := ∀ a b, g (min a b) = optMin (g a) (g b)

theorem keyRankS_minPreserving (k : Key) (p : SP) : MinPreserving (keyRankS k p) := by
  intro a b
  cases p with
  | conc s => simp [keyRankS]
  | var n cs =>
    simp only [keyRankS]
    split
    · split <;> simp [optMin, decay_min]
    · rfl

mutual
theorem keyRankT_minPreserving (k : Key) : ∀ p : TP, MinPreserving (keyRankT k p)
  | .var n cs => by
    intro a b
    simp only [keyRankT]
    split
    · split <;> simp [optMin, decay_min]
    · rfl
  | .conc _ => by intro a b; simp [keyRankT]
  | .signal => by intro a b; simp [keyRankT]
  | .ts s => by intro a b; simp only [keyRankT]; exact (optMin_self _).symm
  | .tss s => by intro a b; simp only [keyRankT]; exact (optMin_self _).symm
  | .tsw s _ => by intro a b; simp only [keyRankT]; exact (optMin_self _).symm
  | .tsl e _ => by
    intro a b
    simp only [keyRankT, decay_min]
    exact keyRankT_minPreserving k e _ _
  | .tsd s e => by
    intro a b
    simp only [keyRankT, decay_min]
    rw [keyRankT_minPreserving k e _ _, optMin_distrib]
  | .tsbVar n => by
    intro a b
    simp only [keyRankT]
    split
    · simp [optMin, decay_min]
    · rfl
  | .tsb _ fs => by
    intro a b
    simp only [keyRankT, decay_min]
    exact keyRankFields_minPreserving k fs _ _
  | .ref t => by
    intro a b
    simp only [keyRankT]
    exact keyRankT_minPreserving k t a b
theorem keyRankFields_minPreserving (k : Key) : ∀ fs : PFields, MinPreserving (keyRankFields k fs)
  | .nil => by intro a b; simp [keyRankFields]
  | .cons _ p rest => by
    intro a b
    simp only [keyRankFields]
    rw [keyRankT_minPreserving k p a b, keyRankFields_minPreserving k rest a b, optMin_swap4]
end

theorem bind_optMin {g : Nat → Option Nat} (hg : MinPreserving g) (a b : Option Nat) :
    (optMin a b).bind g = optMin (a.bind g) (b.bind g) := by
  cases a with
  | none => simp
  | some u =>
    cases b with
    | none => simp
    | some w => simp [optMin, hg u w]

/-- hide the key of the instantiated variable -/
def mask (x : Name) (k : Key) (a : Option Nat) : Option Nat := if k = .ts x then none else a

theorem mask_optMin (x : Name) (k : Key) (a b : Option Nat) :
    mask x k (optMin a b) = optMin (mask x k a) (mask x k b) := by
  unfold mask; split <;> simp

theorem keyRankS_ts (x : Name) (s : SP) (v : Nat) : keyRankS (.ts x) s v = none := by
  cases s <;> simp [keyRankS]

theorem mask_keyRankS (x : Name) (k : Key) (s : SP) (v : Nat) : mask x k (keyRankS k s v) = keyRankS k s v := by
  unfold mask
  split
  · rename_i h; subst h; rw [keyRankS_ts]
  · rfl

mutual
/-- what instantiating `x ↦ r` does to the stored budget of any key -/
theorem keyRankT_instantiate (x : Name) (r : TP) (k : Key) : ∀ (q : TP) (v : Nat), plainT x q = true →
    keyRankT k (instantiateT (single x r) q) v =
      optMin (mask x k (keyRankT k q v)) ((keyRankT (.ts x) q v).bind (keyRankT k r))
  | .var n cs, v, hp => by
    simp only [plainT, Bool.or_eq_true, decide_eq_true_eq] at hp
    simp only [instantiateT, single]
    by_cases h : n = x
    · subst h
      have hcs : cs.isEmpty = true := by
        rcases hp with hp | hp
        · exact absurd rfl hp
        · exact hp
      simp only [if_true, keyRankT, hcs, mask]
      by_cases hk : k = .ts n
      · subst hk; simp
      · simp [hk]
    · have hne : ¬ (Key.ts x = Key.ts n) := by
        intro he; injection he with he; exact h he.symm
      simp only [h, if_false, keyRankT, mask, hne, Option.bind_none, optMin_none_right]
      by_cases hk : k = .ts x
      · subst hk; simp [hne]
      · simp [hk]
  | .tsbVar n, v, hp => by
    simp only [plainT, decide_eq_true_eq] at hp
    have hne : ¬ (Key.ts x = Key.ts n) := by
      intro he; injection he with he; exact hp he.symm
    simp only [instantiateT, keyRankT, mask, hne, if_false, Option.bind_none, optMin_none_right]
    by_cases hk : k = .ts x
    · subst hk; simp [hne]
    · simp [hk]
  | .conc _, v, _ => by simp [instantiateT, keyRankT, mask]
  | .signal, v, _ => by simp [instantiateT, keyRankT, mask]
  | .ts s, v, _ => by simp only [instantiateT, keyRankT, keyRankS_ts, mask_keyRankS]; simp
  | .tss s, v, _ => by simp only [instantiateT, keyRankT, keyRankS_ts, mask_keyRankS]; simp
  | .tsw s _, v, _ => by simp only [instantiateT, keyRankT, keyRankS_ts, mask_keyRankS]; simp
  | .tsl e _, v, hp => by
    simp only [plainT] at hp
    simp only [instantiateT, keyRankT]
    exact keyRankT_instantiate x r k e _ hp
  | .tsd s e, v, hp => by
    simp only [plainT] at hp
    simp only [instantiateT, keyRankT, keyRankS_ts, optMin_none_left]
    rw [keyRankT_instantiate x r k e _ hp, mask_optMin, mask_keyRankS, optMin_assoc]
  | .tsb _ fs, v, hp => by
    simp only [plainT] at hp
    simp only [instantiateT, keyRankT]
    exact keyRankFields_instantiate x r k fs _ hp
  | .ref t, v, hp => by
    simp only [plainT] at hp
    simp only [instantiateT, keyRankT]
    exact keyRankT_instantiate x r k t v hp
theorem keyRankFields_instantiate (x : Name) (r : TP) (k : Key) : ∀ (fs : PFields) (v : Nat),
    plainFields x fs = true →
    keyRankFields k (instantiateFields (single x r) fs) v =
      optMin (mask x k (keyRankFields k fs v)) ((keyRankFields (.ts x) fs v).bind (keyRankT k r))
  | .nil, v, _ => by simp [instantiateFields, keyRankFields, mask]
  | .cons _ p rest, v, hp => by
    simp only [plainFields, Bool.and_eq_true] at hp
    simp only [instantiateFields, keyRankFields]
    rw [keyRankT_instantiate x r k p v hp.1, keyRankFields_instantiate x r k rest v hp.2, mask_optMin,
      bind_optMin (keyRankT_minPreserving k r), optMin_swap4]
end

def plainParams (x : Name) : List Param → Bool
  | [] => true
  | p :: ps => plainParam x p && plainParams x ps

theorem keyRankParams_instantiate (x : Name) (r : TP) (k : Key) : ∀ ps : List Param, plainParams x ps = true →
    keyRankParams k (ps.map (instantiateParam (single x r))) =
      optMin (mask x k (keyRankParams k ps)) ((keyRankParams (.ts x) ps).bind (keyRankT k r))
  | [], _ => by simp [keyRankParams, mask]
  | p :: ps, hp => by
    simp only [plainParams, Bool.and_eq_true] at hp
    simp only [List.map_cons, keyRankParams]
    rw [keyRankParams_instantiate x r k ps hp.2, mask_optMin, bind_optMin (keyRankT_minPreserving k r)]
    have : keyRankParam k (instantiateParam (single x r) p) =
        optMin (mask x k (keyRankParam k p)) ((keyRankParam (.ts x) p).bind (keyRankT k r)) := by
      cases p with
      | input t => exact keyRankT_instantiate x r k t _ hp.1
      | scalar s => simp [instantiateParam, keyRankParam, keyRankS_ts, mask_keyRankS]
    rw [this, optMin_swap4]

/-- an accumulator each of whose entries appears in one of two others sums to at most their sum -/
theorem sumVals_le_of_cover : ∀ (l' l1 l2 : List (Key × Nat)), (keysOf l').Nodup →
    (∀ k v, lookup l' k = some v → lookup l1 k = some v ∨ lookup l2 k = some v) →
    sumVals l' ≤ sumVals l1 + sumVals l2
  | [], _, _, _, _ => by simp [sumVals]
  | (k, v) :: rest, l1, l2, hnd, hc => by
    simp only [keysOf, List.map_cons, List.nodup_cons] at hnd
    have hrest : ∀ k' v', lookup rest k' = some v' → k' ≠ k ∧ lookup ((k, v) :: rest) k' = some v' := by
      intro k' v' h'
      have hne : k' ≠ k := by
        intro he
        subst he
        have : lookup rest k' ≠ none := by rw [h']; simp
        exact this (lookup_eq_none_iff.mpr hnd.1)
      refine ⟨hne, ?_⟩
      simp only [lookup]
      have : ¬ k = k' := fun h => hne h.symm
      simp [this, h']
    simp only [sumVals]
    rcases hc k v (by simp [lookup]) with h1 | h2
    · rw [sumVals_erase h1]
      have ih := sumVals_le_of_cover rest (eraseKey k l1) l2 hnd.2 (by
        intro k' v' h'
        obtain ⟨hne, hl⟩ := hrest k' v' h'
        rw [lookup_erase_ne hne]
        exact hc k' v' hl)
      omega
    · rw [sumVals_erase h2]
      have ih := sumVals_le_of_cover rest l1 (eraseKey k l2) hnd.2 (by
        intro k' v' h'
        obtain ⟨hne, hl⟩ := hrest k' v' h'
        rw [lookup_erase_ne hne]
        exact hc k' v' hl)
      omega

/-- the variable cost of a pattern collected on its own at budget `b` -/
def varCost (r : TP) (b : Nat) : Nat := sumVals (collectT r {} b).vars

theorem lookup_collect_fresh (r : TP) (b : Nat) (k : Key) :
    lookup (collectT r {} b).vars k = keyRankT k r b := by
  have := (collectT_spec r {} b (by simp [AccOk, keysOf])).2.2 k
  simpa [lookup] using this

end HgVerif.Dispatch
