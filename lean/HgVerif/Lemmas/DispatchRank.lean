import HgVerif.Model.Dispatch
/-!
Per-key reading of the rank accumulator (`RankAccumulator`, `collect_scalar_rank`, `collect_ts_rank`,
`operator_rank` of include/hgraph/types/operator_dispatch.h) and the lemmas behind the ceiling
theorems of C19.

* `keyRankT k p v`  : the smallest budget at which variable key `k` occurs in `p` when `p` is
                      collected with budget `v` (`none` when it does not occur) — the value the
                      accumulator ends up storing under `k`;
* `structT p`       : the structural count `p` adds;
* `lookup_collectT` : `collectT` stores exactly `min(old, keyRankT)` under every key;
* `sumVals_le_of_submap` : an accumulator whose entries all appear in another one sums to less;
* `applyT σ`        : ground instantiation (type variables replaced by `Concrete` leaves, the form a
                      fully concrete sub-tree is lowered to) and its effect on `keyRankT` / `structT`.
-/
namespace HgVerif.Dispatch

/-! ## association-list facts -/

def keysOf (l : List (Key × Nat)) : List Key := l.map (·.1)

def optMin : Option Nat → Option Nat → Option Nat
  | none, b => b
  | some a, none => some a
  | some a, some b => some (min a b)

@[simp] theorem optMin_none_right (a : Option Nat) : optMin a none = a := by cases a <;> rfl
@[simp] theorem optMin_none_left (a : Option Nat) : optMin none a = a := rfl

theorem optMin_assoc (a b c : Option Nat) : optMin (optMin a b) c = optMin a (optMin b c) := by
  cases a <;> cases b <;> cases c <;> simp [optMin, Nat.min_assoc]

theorem lookup_eq_none_iff {l : List (Key × Nat)} {k : Key} : lookup l k = none ↔ k ∉ keysOf l := by
  induction l with
  | nil => simp [lookup, keysOf]
  | cons x xs ih =>
    obtain ⟨k', v⟩ := x
    simp only [lookup, keysOf, List.map_cons, List.mem_cons]
    by_cases h : k' = k
    · simp [h]
    · simp only [h, if_false]
      rw [ih]
      simp only [keysOf]
      constructor
      · intro hn hor
        rcases hor with hor | hor
        · exact h hor.symm
        · exact hn hor
      · intro hn hm
        exact hn (Or.inr hm)

theorem keysOf_setKey (k : Key) (r : Nat) : ∀ l : List (Key × Nat), keysOf (setKey k r l) = keysOf l
  | [] => rfl
  | (k', v) :: rest => by
    simp only [setKey]
    split
    · simp [keysOf]
    · simp only [keysOf, List.map_cons, List.cons.injEq, true_and]
      exact keysOf_setKey k r rest

theorem lookup_setKey (k : Key) (r : Nat) : ∀ (l : List (Key × Nat)) (k' : Key),
    lookup (setKey k r l) k' = if k' = k then (lookup l k).map (fun _ => r) else lookup l k'
  | [], k' => by simp [setKey, lookup]
  | (k0, v) :: rest, k' => by
    simp only [setKey]
    by_cases h0 : k0 = k
    · subst h0
      simp only [if_true, lookup]
      by_cases h1 : k0 = k'
      · subst h1; simp
      · have : ¬ k' = k0 := fun h => h1 h.symm
        simp [h1, this]
    · simp only [h0, if_false, lookup]
      by_cases h1 : k0 = k'
      · subst h1
        simp [h0]
      · simp only [h1, if_false]
        rw [lookup_setKey k r rest k']

/-- `add_var` stores the minimum under its key and touches nothing else -/
theorem lookup_addVar (a : RankAcc) (k : Key) (r : Nat) (k' : Key) :
    lookup (a.addVar k r).vars k' = if k' = k then optMin (lookup a.vars k) (some r) else lookup a.vars k' := by
  unfold RankAcc.addVar
  split
  · rename_i hn
    simp only [lookup]
    by_cases h : k = k'
    · subst h; simp [hn]
    · have : ¬ k' = k := fun h' => h h'.symm
      simp [h, this]
  · rename_i old ho
    split
    · rename_i hlt
      simp only [lookup_setKey, ho, Option.map_some]
      by_cases h : k' = k
      · simp [h, optMin, Nat.min_def]
        omega
      · simp [h]
    · rename_i hge
      by_cases h : k' = k
      · subst h
        simp [ho, optMin, Nat.min_def]
        omega
      · simp [h]

@[simp] theorem addVar_structural (a : RankAcc) (k : Key) (r : Nat) : (a.addVar k r).structural = a.structural := by
  unfold RankAcc.addVar
  split
  · rfl
  · split <;> rfl

theorem nodup_addVar {a : RankAcc} (k : Key) (r : Nat) (h : (keysOf a.vars).Nodup) :
    (keysOf (a.addVar k r).vars).Nodup := by
  unfold RankAcc.addVar
  split
  · rename_i hn
    simp only [keysOf, List.map_cons, List.nodup_cons]
    exact ⟨lookup_eq_none_iff.mp hn, h⟩
  · split
    · simp only [keysOf_setKey]; exact h
    · exact h

/-! ### sums of sub-maps -/

def eraseKey (k : Key) : List (Key × Nat) → List (Key × Nat)
  | [] => []
  | (k', v) :: rest => if k' = k then rest else (k', v) :: eraseKey k rest

theorem sumVals_erase {k : Key} {v : Nat} : ∀ {l : List (Key × Nat)}, lookup l k = some v →
    sumVals l = v + sumVals (eraseKey k l)
  | [], h => by simp [lookup] at h
  | (k', w) :: rest, h => by
    simp only [lookup] at h
    simp only [eraseKey, sumVals]
    split at h
    · rename_i hk
      cases h
      simp [hk]
    · rename_i hk
      simp only [hk, if_false, sumVals]
      have := sumVals_erase h
      omega

theorem lookup_erase_ne {k k' : Key} (hne : k' ≠ k) : ∀ l : List (Key × Nat),
    lookup (eraseKey k l) k' = lookup l k'
  | [] => rfl
  | (k0, w) :: rest => by
    simp only [eraseKey]
    split
    · rename_i h0
      subst h0
      have : ¬ k0 = k' := fun h => hne h.symm
      simp [lookup, this]
    · rename_i h0
      simp only [lookup]
      split
      · rfl
      · exact lookup_erase_ne hne rest

/-- if every entry of `l'` (unique keys) is an entry of `l`, then `l'` sums to at most `l` -/
theorem sumVals_le_of_submap : ∀ (l' l : List (Key × Nat)), (keysOf l').Nodup →
    (∀ k v, lookup l' k = some v → lookup l k = some v) → sumVals l' ≤ sumVals l
  | [], l, _, _ => by simp [sumVals]
  | (k, v) :: rest, l, hnd, hsub => by
    simp only [keysOf, List.map_cons, List.nodup_cons] at hnd
    have hk : lookup l k = some v := hsub k v (by simp [lookup])
    rw [sumVals_erase hk]
    simp only [sumVals]
    have ih := sumVals_le_of_submap rest (eraseKey k l) hnd.2 (by
      intro k' v' h'
      have hne : k' ≠ k := by
        intro he
        subst he
        have : lookup rest k' ≠ none := by rw [h']; simp
        exact this (lookup_eq_none_iff.mpr hnd.1)
      rw [lookup_erase_ne hne]
      apply hsub
      simp only [lookup]
      have : ¬ k = k' := fun h => hne h.symm
      simp [this, h'])
    omega

/-- … and strictly less when `l` has a positive entry whose key `l'` lacks -/
theorem sumVals_lt_of_submap {l' l : List (Key × Nat)} (hnd : (keysOf l').Nodup)
    (hsub : ∀ k v, lookup l' k = some v → lookup l k = some v)
    {k0 : Key} {v0 : Nat} (h0 : lookup l k0 = some v0) (hpos : 1 ≤ v0) (hmiss : lookup l' k0 = none) :
    sumVals l' < sumVals l := by
  rw [sumVals_erase h0]
  have := sumVals_le_of_submap l' (eraseKey k0 l) hnd (by
    intro k v h
    have hne : k ≠ k0 := by
      intro he; subst he; rw [hmiss] at h; cases h
    rw [lookup_erase_ne hne]
    exact hsub k v h)
  omega

/-! ## the per-key reading of `collect_*_rank` -/

def keyRankS (k : Key) (p : SP) (v : Nat) : Option Nat :=
  match p with
  | .var n cs => if k = .sc n then some (if cs.isEmpty then v else decay v) else none
  | .conc _ => none

mutual
def keyRankT (k : Key) (p : TP) (v : Nat) : Option Nat :=
  match p with
  | .var n cs => if k = .ts n then some (if cs.isEmpty then v else decay v) else none
  | .conc _ => none
  | .signal => none
  | .ts s => keyRankS k s SCALAR_VAR_RANK
  | .tss s => keyRankS k s SCALAR_VAR_RANK
  | .tsw s _ => keyRankS k s SCALAR_VAR_RANK
  | .tsl e _ => keyRankT k e (decay v)
  | .tsd s e => optMin (keyRankS k s SCALAR_VAR_RANK) (keyRankT k e (decay v))
  | .tsbVar n => if k = .ts n then some (decay v) else none
  | .tsb fs => keyRankFields k fs (decay v)
  | .ref t => keyRankT k t v
def keyRankFields (k : Key) (fs : PFields) (v : Nat) : Option Nat :=
  match fs with
  | .nil => none
  | .cons _ p rest => optMin (keyRankT k p v) (keyRankFields k rest v)
end

mutual
/-- the structural count of a pattern -/
def structT : TP → Nat
  | .var _ _ => 0
  | .conc _ => 0
  | .signal => 0
  | .ts _ => 1
  | .tss _ => 1
  | .tsw _ _ => 1
  | .tsl e _ => 1 + structT e
  | .tsd _ e => 1 + structT e
  | .tsbVar _ => 1
  | .tsb fs => 1 + structFields fs
  | .ref t => structT t
def structFields : PFields → Nat
  | .nil => 0
  | .cons _ p rest => structT p + structFields rest
end

/-- what an accumulator must satisfy: unique keys -/
def AccOk (a : RankAcc) : Prop := (keysOf a.vars).Nodup

theorem accOk_bump {a : RankAcc} (h : AccOk a) : AccOk a.bump := h
@[simp] theorem bump_structural (a : RankAcc) : a.bump.structural = a.structural + 1 := rfl
@[simp] theorem bump_vars (a : RankAcc) : a.bump.vars = a.vars := rfl

theorem collectS_spec (p : SP) (a : RankAcc) (v : Nat) (h : AccOk a) :
    AccOk (collectS p a v) ∧ (collectS p a v).structural = a.structural ∧
      ∀ k, lookup (collectS p a v).vars k = optMin (lookup a.vars k) (keyRankS k p v) := by
  cases p with
  | conc s => exact ⟨h, rfl, fun k => by simp [collectS, keyRankS]⟩
  | var n cs =>
    refine ⟨nodup_addVar _ _ h, by simp [collectS], fun k => ?_⟩
    simp only [collectS, keyRankS, lookup_addVar]
    split
    · rename_i hk; subst hk; rfl
    · simp

mutual
theorem collectT_spec : ∀ (p : TP) (a : RankAcc) (v : Nat), AccOk a →
    AccOk (collectT p a v) ∧ (collectT p a v).structural = a.structural + structT p ∧
      ∀ k, lookup (collectT p a v).vars k = optMin (lookup a.vars k) (keyRankT k p v)
  | .var n cs, a, v, h => by
    refine ⟨nodup_addVar _ _ h, by simp [collectT, structT], fun k => ?_⟩
    simp only [collectT, keyRankT, lookup_addVar]
    split
    · rename_i hk; subst hk; rfl
    · simp
  | .conc _, a, v, h => ⟨h, by simp [collectT, structT], fun k => by simp [collectT, keyRankT]⟩
  | .signal, a, v, h => ⟨h, by simp [collectT, structT], fun k => by simp [collectT, keyRankT]⟩
  | .ts s, a, v, h => by
    have := collectS_spec s a.bump SCALAR_VAR_RANK (accOk_bump h)
    exact ⟨this.1, by simp only [collectT, structT]; rw [this.2.1, bump_structural],
      fun k => by simp only [collectT, keyRankT]; rw [this.2.2 k, bump_vars]⟩
  | .tss s, a, v, h => by
    have := collectS_spec s a.bump SCALAR_VAR_RANK (accOk_bump h)
    exact ⟨this.1, by simp only [collectT, structT]; rw [this.2.1, bump_structural],
      fun k => by simp only [collectT, keyRankT]; rw [this.2.2 k, bump_vars]⟩
  | .tsw s w, a, v, h => by
    have := collectS_spec s a.bump SCALAR_VAR_RANK (accOk_bump h)
    exact ⟨this.1, by simp only [collectT, structT]; rw [this.2.1, bump_structural],
      fun k => by simp only [collectT, keyRankT]; rw [this.2.2 k, bump_vars]⟩
  | .tsl e sz, a, v, h => by
    have := collectT_spec e a.bump (decay v) (accOk_bump h)
    exact ⟨this.1, by simp only [collectT, structT]; rw [this.2.1, bump_structural]; omega,
      fun k => by simp only [collectT, keyRankT]; rw [this.2.2 k, bump_vars]⟩
  | .tsd s e, a, v, h => by
    have h1 := collectS_spec s a.bump SCALAR_VAR_RANK (accOk_bump h)
    have h2 := collectT_spec e (collectS s a.bump SCALAR_VAR_RANK) (decay v) h1.1
    exact ⟨h2.1, by simp only [collectT, structT]; rw [h2.2.1, h1.2.1, bump_structural]; omega,
      fun k => by
        simp only [collectT, keyRankT]
        rw [h2.2.2 k, h1.2.2 k, optMin_assoc, bump_vars]⟩
  | .tsbVar n, a, v, h => by
    refine ⟨nodup_addVar _ _ (accOk_bump h), by simp [collectT, structT], fun k => ?_⟩
    simp only [collectT, keyRankT, lookup_addVar]
    split
    · rename_i hk; subst hk; rfl
    · simp
  | .tsb fs, a, v, h => by
    have := collectFields_spec fs a.bump (decay v) (accOk_bump h)
    exact ⟨this.1, by simp only [collectT, structT]; rw [this.2.1, bump_structural]; omega,
      fun k => by simp only [collectT, keyRankT]; rw [this.2.2 k, bump_vars]⟩
  | .ref t, a, v, h => by
    have := collectT_spec t a v h
    exact ⟨this.1, by simp only [collectT, structT, this.2.1],
      fun k => by simp only [collectT, keyRankT]; exact this.2.2 k⟩
theorem collectFields_spec : ∀ (fs : PFields) (a : RankAcc) (v : Nat), AccOk a →
    AccOk (collectFields fs a v) ∧ (collectFields fs a v).structural = a.structural + structFields fs ∧
      ∀ k, lookup (collectFields fs a v).vars k = optMin (lookup a.vars k) (keyRankFields k fs v)
  | .nil, a, v, h => ⟨h, by simp [collectFields, structFields], fun k => by simp [collectFields, keyRankFields]⟩
  | .cons f p rest, a, v, h => by
    have h1 := collectT_spec p a v h
    have h2 := collectFields_spec rest (collectT p a v) v h1.1
    exact ⟨h2.1, by simp only [collectFields, structFields, h2.2.1, h1.2.1]; omega,
      fun k => by
        simp only [collectFields, keyRankFields]
        rw [h2.2.2 k, h1.2.2 k, optMin_assoc]⟩
end

/-! ### parameter lists -/

def keyRankParam (k : Key) (p : Param) : Option Nat :=
  match p with
  | .input t => keyRankT k t LARGE_RANK
  | .scalar s => keyRankS k s SCALAR_PARAM_VAR_RANK

def structParam (p : Param) : Nat :=
  match p with
  | .input t => structT t
  | .scalar _ => 0

def keyRankParams (k : Key) : List Param → Option Nat
  | [] => none
  | p :: ps => optMin (keyRankParam k p) (keyRankParams k ps)

def structParams : List Param → Nat
  | [] => 0
  | p :: ps => structParam p + structParams ps

theorem collectParam_spec (p : Param) (a : RankAcc) (h : AccOk a) :
    AccOk (collectParam a p) ∧ (collectParam a p).structural = a.structural + structParam p ∧
      ∀ k, lookup (collectParam a p).vars k = optMin (lookup a.vars k) (keyRankParam k p) := by
  cases p with
  | input t => exact collectT_spec t a LARGE_RANK h
  | scalar s =>
    have := collectS_spec s a SCALAR_PARAM_VAR_RANK h
    exact ⟨this.1, by simp [collectParam, structParam, this.2.1], this.2.2⟩

theorem foldl_collectParam_spec : ∀ (ps : List Param) (a : RankAcc), AccOk a →
    AccOk (ps.foldl collectParam a) ∧ (ps.foldl collectParam a).structural = a.structural + structParams ps ∧
      ∀ k, lookup (ps.foldl collectParam a).vars k = optMin (lookup a.vars k) (keyRankParams k ps)
  | [], a, h => ⟨h, by simp [structParams], fun k => by simp [keyRankParams]⟩
  | p :: ps, a, h => by
    have h1 := collectParam_spec p a h
    have h2 := foldl_collectParam_spec ps (collectParam a p) h1.1
    exact ⟨h2.1, by simp only [List.foldl_cons, structParams, h2.2.1, h1.2.1]; omega,
      fun k => by
        simp only [List.foldl_cons, keyRankParams]
        rw [h2.2.2 k, h1.2.2 k, optMin_assoc]⟩

/-- the accumulator `operator_rank` ends with -/
def rankAcc (ps : List Param) : RankAcc := ps.foldl collectParam {}

theorem rankAcc_spec (ps : List Param) :
    AccOk (rankAcc ps) ∧ (rankAcc ps).structural = structParams ps ∧
      ∀ k, lookup (rankAcc ps).vars k = keyRankParams k ps := by
  have := foldl_collectParam_spec ps {} (by simp [AccOk, keysOf])
  refine ⟨this.1, by simpa [rankAcc] using this.2.1, fun k => ?_⟩
  have hk := this.2.2 k
  simpa [lookup, rankAcc] using hk

theorem operatorRank_eq (ps : List Param) :
    operatorRank ps = structParams ps + sumVals (rankAcc ps).vars := by
  simp [operatorRank, RankAcc.total, rankAcc, (rankAcc_spec ps).2.1.symm]

/-! ### every stored budget is positive -/

theorem decay_pos (v : Nat) : 1 ≤ decay v := by simp [decay]; omega

theorem keyRankS_pos {k : Key} {p : SP} {v b : Nat} (hv : 1 ≤ v) (h : keyRankS k p v = some b) : 1 ≤ b := by
  cases p with
  | conc s => simp [keyRankS] at h
  | var n cs =>
    simp only [keyRankS] at h
    split at h
    · cases h
      split
      · exact hv
      · exact decay_pos v
    · cases h

theorem optMin_pos {a b : Option Nat} {r : Nat} (ha : ∀ x, a = some x → 1 ≤ x) (hb : ∀ x, b = some x → 1 ≤ x)
    (h : optMin a b = some r) : 1 ≤ r := by
  cases a with
  | none => exact hb r h
  | some x =>
    cases b with
    | none => exact ha r h
    | some y =>
      simp only [optMin, Option.some.injEq] at h
      have := ha x rfl
      have := hb y rfl
      omega

mutual
theorem keyRankT_pos {k : Key} : ∀ (p : TP) (v b : Nat), 1 ≤ v → keyRankT k p v = some b → 1 ≤ b
  | .var n cs, v, b, hv, h => by
    simp only [keyRankT] at h
    split at h
    · cases h
      split
      · exact hv
      · exact decay_pos v
    · cases h
  | .conc _, _, _, _, h => by simp [keyRankT] at h
  | .signal, _, _, _, h => by simp [keyRankT] at h
  | .ts s, v, b, _, h => by
    simp only [keyRankT] at h
    exact keyRankS_pos (v := SCALAR_VAR_RANK) (by decide) h
  | .tss s, v, b, _, h => by
    simp only [keyRankT] at h
    exact keyRankS_pos (v := SCALAR_VAR_RANK) (by decide) h
  | .tsw s _, v, b, _, h => by
    simp only [keyRankT] at h
    exact keyRankS_pos (v := SCALAR_VAR_RANK) (by decide) h
  | .tsl e _, v, b, _, h => keyRankT_pos e (decay v) b (decay_pos v) (by simpa [keyRankT] using h)
  | .tsd s e, v, b, _, h => by
    simp only [keyRankT] at h
    exact optMin_pos (fun x hx => keyRankS_pos (v := SCALAR_VAR_RANK) (by decide) hx)
      (fun x hx => keyRankT_pos e (decay v) x (decay_pos v) hx) h
  | .tsbVar n, v, b, _, h => by
    simp only [keyRankT] at h
    split at h
    · cases h; exact decay_pos v
    · cases h
  | .tsb fs, v, b, _, h => keyRankFields_pos fs (decay v) b (decay_pos v) (by simpa [keyRankT] using h)
  | .ref t, v, b, hv, h => keyRankT_pos t v b hv (by simpa [keyRankT] using h)
theorem keyRankFields_pos {k : Key} : ∀ (fs : PFields) (v b : Nat), 1 ≤ v → keyRankFields k fs v = some b → 1 ≤ b
  | .nil, _, _, _, h => by simp [keyRankFields] at h
  | .cons _ p rest, v, b, hv, h => by
    simp only [keyRankFields] at h
    exact optMin_pos (fun x hx => keyRankT_pos p v x hv hx) (fun x hx => keyRankFields_pos rest v x hv hx) h
end

theorem keyRankParams_pos {k : Key} : ∀ (ps : List Param) (b : Nat), keyRankParams k ps = some b → 1 ≤ b
  | [], _, h => by simp [keyRankParams] at h
  | p :: ps, b, h => by
    simp only [keyRankParams] at h
    refine optMin_pos (fun x hx => ?_) (fun x hx => keyRankParams_pos ps x hx) h
    cases p with
    | input t => exact keyRankT_pos t LARGE_RANK x (by decide) hx
    | scalar s => exact keyRankS_pos (v := SCALAR_PARAM_VAR_RANK) (by decide) hx

/-! ## ground instantiation -/

/-- a ground substitution: some time-series variables become `Concrete` leaves (the form a fully
    concrete sub-tree is lowered to), some scalar variables become concrete scalars, some size
    variables become fixed sizes -/
structure GSubst where
  ts : Name → Option CT
  sc : Name → Option Sc
  sz : Name → Option Nat

def GSubst.dom (σ : GSubst) : Key → Bool
  | .ts n => (σ.ts n).isSome
  | .sc n => (σ.sc n).isSome

def applyS (σ : GSubst) : SP → SP
  | .var n cs => match σ.sc n with
    | some s => .conc s
    | none => .var n cs
  | .conc s => .conc s

def applySz (σ : GSubst) : SizeP → SizeP
  | .var n cs => match σ.sz n with
    | some k => .fixed k
    | none => .var n cs
  | .fixed k => .fixed k

mutual
def applyT (σ : GSubst) : TP → TP
  | .var n cs => match σ.ts n with
    | some c => .conc c
    | none => .var n cs
  | .tsbVar n => match σ.ts n with
    | some c => .conc c
    | none => .tsbVar n
  | .conc c => .conc c
  | .signal => .signal
  | .ts s => .ts (applyS σ s)
  | .tss s => .tss (applyS σ s)
  | .tsw s w => .tsw (applyS σ s) w
  | .tsl e sz => .tsl (applyT σ e) (applySz σ sz)
  | .tsd k v => .tsd (applyS σ k) (applyT σ v)
  | .tsb fs => .tsb (applyFields σ fs)
  | .ref t => .ref (applyT σ t)
def applyFields (σ : GSubst) : PFields → PFields
  | .nil => .nil
  | .cons f p rest => .cons f (applyT σ p) (applyFields σ rest)
end

def applyParam (σ : GSubst) : Param → Param
  | .input t => .input (applyT σ t)
  | .scalar s => .scalar (applyS σ s)

theorem keyRankS_apply (σ : GSubst) (k : Key) (p : SP) (v : Nat) :
    keyRankS k (applyS σ p) v = if σ.dom k then none else keyRankS k p v := by
  cases p with
  | conc s => simp [applyS, keyRankS]
  | var n cs =>
    simp only [applyS]
    cases hs : σ.sc n with
    | some s =>
      simp only [keyRankS]
      by_cases hk : k = .sc n
      · subst hk; simp [GSubst.dom, hs]
      · simp [hk]
    | none =>
      simp only [keyRankS]
      by_cases hk : k = .sc n
      · subst hk; simp [GSubst.dom, hs]
      · simp [hk]

theorem optMin_ite (c : Bool) (a b : Option Nat) :
    optMin (if c then none else a) (if c then none else b) = if c then none else optMin a b := by
  cases c <;> simp

mutual
theorem keyRankT_apply (σ : GSubst) (k : Key) : ∀ (p : TP) (v : Nat),
    keyRankT k (applyT σ p) v = if σ.dom k then none else keyRankT k p v
  | .var n cs, v => by
    simp only [applyT]
    cases hs : σ.ts n with
    | some c =>
      simp only [keyRankT]
      by_cases hk : k = .ts n
      · subst hk; simp [GSubst.dom, hs]
      · simp [hk]
    | none =>
      simp only [keyRankT]
      by_cases hk : k = .ts n
      · subst hk; simp [GSubst.dom, hs]
      · simp [hk]
  | .tsbVar n, v => by
    simp only [applyT]
    cases hs : σ.ts n with
    | some c =>
      simp only [keyRankT]
      by_cases hk : k = .ts n
      · subst hk; simp [GSubst.dom, hs]
      · simp [hk]
    | none =>
      simp only [keyRankT]
      by_cases hk : k = .ts n
      · subst hk; simp [GSubst.dom, hs]
      · simp [hk]
  | .conc _, v => by simp [applyT, keyRankT]
  | .signal, v => by simp [applyT, keyRankT]
  | .ts s, v => by simp only [applyT, keyRankT]; exact keyRankS_apply σ k s _
  | .tss s, v => by simp only [applyT, keyRankT]; exact keyRankS_apply σ k s _
  | .tsw s w, v => by simp only [applyT, keyRankT]; exact keyRankS_apply σ k s _
  | .tsl e sz, v => by simp only [applyT, keyRankT]; exact keyRankT_apply σ k e _
  | .tsd s e, v => by
    simp only [applyT, keyRankT]
    rw [keyRankS_apply, keyRankT_apply σ k e, optMin_ite]
  | .tsb fs, v => by simp only [applyT, keyRankT]; exact keyRankFields_apply σ k fs _
  | .ref t, v => by simp only [applyT, keyRankT]; exact keyRankT_apply σ k t v
theorem keyRankFields_apply (σ : GSubst) (k : Key) : ∀ (fs : PFields) (v : Nat),
    keyRankFields k (applyFields σ fs) v = if σ.dom k then none else keyRankFields k fs v
  | .nil, v => by simp [applyFields, keyRankFields]
  | .cons f p rest, v => by
    simp only [applyFields, keyRankFields]
    rw [keyRankT_apply σ k p, keyRankFields_apply σ k rest, optMin_ite]
end

mutual
theorem structT_apply (σ : GSubst) : ∀ p : TP, structT (applyT σ p) ≤ structT p
  | .var n cs => by simp only [applyT]; split <;> simp [structT]
  | .tsbVar n => by simp only [applyT]; split <;> simp [structT]
  | .conc _ => by simp [applyT]
  | .signal => by simp [applyT]
  | .ts _ => by simp [applyT, structT]
  | .tss _ => by simp [applyT, structT]
  | .tsw _ _ => by simp [applyT, structT]
  | .tsl e _ => by simp only [applyT, structT]; have := structT_apply σ e; omega
  | .tsd _ e => by simp only [applyT, structT]; have := structT_apply σ e; omega
  | .tsb fs => by simp only [applyT, structT]; have := structFields_apply σ fs; omega
  | .ref t => by simp only [applyT, structT]; exact structT_apply σ t
theorem structFields_apply (σ : GSubst) : ∀ fs : PFields, structFields (applyFields σ fs) ≤ structFields fs
  | .nil => by simp [applyFields]
  | .cons _ p rest => by
    simp only [applyFields, structFields]
    have := structT_apply σ p
    have := structFields_apply σ rest
    omega
end

theorem keyRankParams_apply (σ : GSubst) (k : Key) : ∀ ps : List Param,
    keyRankParams k (ps.map (applyParam σ)) = if σ.dom k then none else keyRankParams k ps
  | [] => by simp [keyRankParams]
  | p :: ps => by
    simp only [List.map_cons, keyRankParams]
    rw [keyRankParams_apply σ k ps]
    have : keyRankParam k (applyParam σ p) = if σ.dom k then none else keyRankParam k p := by
      cases p with
      | input t => exact keyRankT_apply σ k t _
      | scalar s => exact keyRankS_apply σ k s _
    rw [this, optMin_ite]

theorem structParams_apply (σ : GSubst) : ∀ ps : List Param,
    structParams (ps.map (applyParam σ)) ≤ structParams ps
  | [] => by simp [structParams]
  | p :: ps => by
    simp only [List.map_cons, structParams]
    have := structParams_apply σ ps
    have : structParam (applyParam σ p) ≤ structParam p := by
      cases p with
      | input t => exact structT_apply σ t
      | scalar s => simp [applyParam, structParam]
    omega

/-! ## general instantiation of whole-time-series variables (for the full ceiling statement) -/

mutual
/-- replace time-series variables by arbitrary patterns -/
def instantiateT (σ : Name → Option TP) : TP → TP
  | .var n cs => match σ n with
    | some r => r
    | none => .var n cs
  | .tsl e sz => .tsl (instantiateT σ e) sz
  | .tsd k v => .tsd k (instantiateT σ v)
  | .tsb fs => .tsb (instantiateFields σ fs)
  | .ref t => .ref (instantiateT σ t)
  | .conc c => .conc c
  | .ts s => .ts s
  | .tss s => .tss s
  | .tsw s w => .tsw s w
  | .tsbVar n => .tsbVar n
  | .signal => .signal
def instantiateFields (σ : Name → Option TP) : PFields → PFields
  | .nil => .nil
  | .cons f p rest => .cons f (instantiateT σ p) (instantiateFields σ rest)
end

def instantiateParam (σ : Name → Option TP) : Param → Param
  | .input t => .input (instantiateT σ t)
  | .scalar s => .scalar s

end HgVerif.Dispatch
