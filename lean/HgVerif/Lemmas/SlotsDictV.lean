import HgVerif.Lemmas.SlotsDict
/-!
Helper lemmas for C05, TSD value level: for histories with non-decreasing times the modified map together
with the removed set reproduces the value from the value at the previous tick (this needs the repair of
F-C05-1, `restore_modified_mark` / `dMarkBits`).
-/
namespace HgVerif.Slots
local notation "Time" => Nat

/-! ### explicit descriptions of the slot touched by each operation -/

theorem TSD.prepare_no_pending {x : TSD} (h : x.keys.WF) {t : Time} (ht : ¬ t ≤ x.deltaTime) (j : Nat) :
    (sget (x.prepareDelta t).keys.slots j).st ≠ .pending := by
  rw [(TSD.prepare_slots h ht).2 j]
  by_cases hp : (sget x.keys.slots j).st = .pending
  · rw [if_pos hp]; simp [clearDictBits]
  · rw [if_neg hp]; simpa [clearDictBits] using hp

/-- the slot `insert_key` touches, relative to the state after `prepare_delta` -/
theorem TSD.insertKey_slots {x : TSD} (h : x.keys.WF) (t : Time) (k : Key) :
    (x.insertKey t k).1.deltaTime = (x.prepareDelta t).deltaTime ∧
    ∃ s', (∀ j, sget (x.insertKey t k).1.keys.slots j =
        if j = (x.insertKey t k).2.slot then s' else sget (x.prepareDelta t).keys.slots j) ∧
      ((s' = sget (x.prepareDelta t).keys.slots (x.insertKey t k).2.slot ∧ s'.st = .live ∧ s'.key = k) ∨
       ((sget (x.prepareDelta t).keys.slots (x.insertKey t k).2.slot).st = .pending ∧
        (sget (x.prepareDelta t).keys.slots (x.insertKey t k).2.slot).key = k ∧
        s' = dInsBitsAt t { sget (x.prepareDelta t).keys.slots (x.insertKey t k).2.slot with st := .live }) ∨
       ((sget (x.prepareDelta t).keys.slots (x.insertKey t k).2.slot).st = .free ∧
        s' = dInsBitsAt t { sget (x.prepareDelta t).keys.slots (x.insertKey t k).2.slot with
          st := .live, key := k, cval := 0, clmt := 0 })) := by
  have hwf1 : (x.prepareDelta t).keys.WF := by
    by_cases ht : t ≤ x.deltaTime
    · rw [TSD.prepareDelta_of_le ht]; exact h
    · exact (TSD.prepare_slots h ht).1
  unfold TSD.insertKey
  generalize x.prepareDelta t = x1 at hwf1
  obtain ⟨hwf, hlt, hcase⟩ := Store.insert_spec hwf1 k
  simp only
  cases hcase with
  | present hi1 hi2 hi3 hi4 =>
    simp only [hi1, Bool.false_eq_true, ↓reduceIte, hi2]
    refine ⟨trivial, sget x1.keys.slots (x1.keys.insert k).2.slot, ?_, Or.inl ⟨rfl, hi3, hi4⟩⟩
    intro j; split
    · rename_i e; rw [e]
    · rfl
  | resurrect hi1 hi2 hi3 hi4 hi5 =>
    simp only [hi1, ↓reduceIte]
    refine ⟨trivial, dInsBitsAt t { sget x1.keys.slots (x1.keys.insert k).2.slot with st := .live }, ?_,
      Or.inr (Or.inl ⟨hi3, hi4, rfl⟩)⟩
    intro j
    simp only [Store.modifySlot, sget_modify, hi5]
    by_cases hj : j = (x1.keys.insert k).2.slot
    · subst hj; simp [hlt]
    · have : ¬ ((x1.keys.insert k).2.slot = j ∧ j < (x1.keys.insert k).1.slots.length) := fun e => hj e.1.symm
      simp [this, hj]
  | fresh hi1 hi2 hi3 hi4 hi5 =>
    simp only [hi1, ↓reduceIte]
    refine ⟨trivial, dInsBitsAt t { sget x1.keys.slots (x1.keys.insert k).2.slot with
      st := .live, key := k, cval := 0, clmt := 0 }, ?_, Or.inr (Or.inr ⟨hi4, rfl⟩)⟩
    intro j
    simp only [Store.modifySlot, sget_modify, hi5]
    by_cases hj : j = (x1.keys.insert k).2.slot
    · subst hj; simp [hlt]
    · have : ¬ ((x1.keys.insert k).2.slot = j ∧ j < (x1.keys.insert k).1.slots.length) := fun e => hj e.1.symm
      simp [this, hj]

/-- the slot `remove_key` touches -/
theorem TSD.removeKey_slots {x : TSD} (h : x.keys.WF) (t : Time) (k : Key) :
    (x.removeKey t k).1.deltaTime = (x.prepareDelta t).deltaTime ∧
    ((x.removeKey t k).1.keys = (x.prepareDelta t).keys ∨
     ∃ i, (sget (x.prepareDelta t).keys.slots i).st = .live ∧
       ∀ j, sget (x.removeKey t k).1.keys.slots j =
         if j = i then dRemBits { sget (x.prepareDelta t).keys.slots i with st := .pending }
         else sget (x.prepareDelta t).keys.slots j) := by
  have hwf1 : (x.prepareDelta t).keys.WF := by
    by_cases ht : t ≤ x.deltaTime
    · rw [TSD.prepareDelta_of_le ht]; exact h
    · exact (TSD.prepare_slots h ht).1
  unfold TSD.removeKey
  generalize x.prepareDelta t = x1 at hwf1
  simp only
  cases hf : findLive x1.keys.slots k with
  | none => exact ⟨rfl, Or.inl rfl⟩
  | some i =>
    simp only
    obtain ⟨hlive, hki⟩ := findLive_some hf
    obtain ⟨hr, hwf, hget0⟩ := Store.removeSlot_spec hwf1 hlive
    have hilt : i < x1.keys.slots.length := lt_of_st_ne_free (by rw [hlive]; decide)
    simp only [hr, ↓reduceIte]
    refine ⟨trivial, Or.inr ⟨i, hlive, ?_⟩⟩
    intro j
    simp only [Store.modifySlot, sget_modify, hget0]
    have hlen : (x1.keys.removeSlot i).1.slots.length = x1.keys.slots.length := by
      unfold Store.removeSlot; simp [hlive]
    by_cases hj : j = i
    · subst hj; simp [hlen, hilt]
    · have : ¬ (i = j ∧ j < (x1.keys.removeSlot i).1.slots.length) := fun e => hj e.1.symm
      simp [this, hj]

/-- the slot the child write touches (inside the window, `t = delta_time_`) -/
theorem TSD.writeChild_slots {x : TSD} {i : Nat} {t : Time} (v : Int)
    (hl : (sget x.keys.slots i).st = .live) (hd : t ≤ x.deltaTime) :
    (x.writeChild i t v).deltaTime = x.deltaTime ∧
    ∃ s', (∀ j, sget (x.writeChild i t v).keys.slots j = if j = i then s' else sget x.keys.slots j) ∧
      ((s' = { sget x.keys.slots i with cval := v } ∧ t ≤ (sget x.keys.slots i).clmt) ∨
       (s' = dChildBits { sget x.keys.slots i with cval := v, clmt := t } ∧ (sget x.keys.slots i).clmt < t)) := by
  have hilt : i < x.keys.slots.length := lt_of_st_ne_free (by rw [hl]; decide)
  have hget1 : ∀ j, sget (x.keys.modifySlot i (fun s => { s with cval := v })).slots j =
      if j = i then { sget x.keys.slots i with cval := v } else sget x.keys.slots j := by
    intro j
    simp only [Store.modifySlot, sget_modify]
    by_cases hj : j = i
    · subst hj; simp [hilt]
    · have : ¬ (i = j ∧ j < x.keys.slots.length) := fun e => hj e.1.symm
      simp [this, hj]
  unfold TSD.writeChild
  simp only
  by_cases hfirst : ((sget x.keys.slots i).clmt != t) = true
  · simp only [hfirst, ↓reduceIte]
    by_cases hle : t ≤ (sget x.keys.slots i).clmt
    · simp only [hle, ↓reduceIte]
      exact ⟨by first | rfl | trivial, _, hget1, Or.inl ⟨rfl, by first | exact hle | trivial⟩⟩
    · simp only [hle, ↓reduceIte]
      unfold TSD.recordChildModified TSD.markModified
      have hget2 : ∀ j, sget ((x.keys.modifySlot i (fun s => { s with cval := v })).modifySlot i
            (fun s => { s with clmt := t })).slots j =
          if j = i then { sget x.keys.slots i with cval := v, clmt := t } else sget x.keys.slots j := by
        intro j
        simp only [Store.modifySlot, sget_modify, List.length_modify]
        by_cases hj : j = i
        · subst hj; simp [hilt]
        · have : ¬ (i = j ∧ j < x.keys.slots.length) := fun e => hj e.1.symm
          simp [this, hj]
      have hb : ((sget ((x.keys.modifySlot i (fun s => { s with cval := v })).modifySlot i
            (fun s => { s with clmt := t })).slots i).st != St.live) = false := by
        rw [hget2, if_pos rfl]; simp [hl]
      simp only [hb, Bool.false_eq_true, ↓reduceIte]
      rw [TSD.prepareDelta_of_le (by exact hd)]
      refine ⟨by first | rfl | trivial, dChildBits { sget x.keys.slots i with cval := v, clmt := t }, ?_,
        Or.inr ⟨rfl, by omega⟩⟩
      intro j
      simp only [Store.modifySlot, sget_modify, List.length_modify]
      by_cases hj : j = i
      · subst hj; simp [hilt]
      · have : ¬ (i = j ∧ j < x.keys.slots.length) := fun e => hj e.1.symm
        simp [this, hj]
  · simp only [hfirst, Bool.false_eq_true, ↓reduceIte]
    have : (sget x.keys.slots i).clmt = t := by simpa using hfirst
    exact ⟨by first | rfl | trivial, _, hget1, Or.inl ⟨rfl, by omega⟩⟩


/-! ### the value-level invariant -/

/-- per-slot relation between child value / child time, the bits, the window-start items `W0`,
    `delta_time_` (`dt`) and the dictionary's `last_modified_time` (`lm`) -/
def VSlotOK (W0 : List (Key × Int)) (dt lm : Nat) (s : Slot) : Prop :=
  (s.published = true → s.modified = false → (s.key, s.cval) ∈ W0) ∧
  (s.removed = true → s.clmt < dt → (s.key, s.cval) ∈ W0) ∧
  (s.published = true → s.clmt = dt → s.modified = true) ∧
  (s.st ≠ .free → s.key ∉ W0.map (·.1) → s.clmt = 0 ∨ s.clmt = dt) ∧
  (s.st ≠ .free → s.clmt ≤ dt) ∧
  (s.modified = true → s.clmt = dt) ∧
  (s.st ≠ .free → s.clmt ≤ lm)

theorem vok_mono {W : List (Key × Int)} {dt lm lm' : Nat} {s : Slot} (h : VSlotOK W dt lm s) (hl : lm ≤ lm') :
    VSlotOK W dt lm' s := by
  unfold VSlotOK at *
  grind

theorem vok_ins_resurrect {W : List (Key × Int)} {dt lm : Nat} {s : Slot} (hd : DictSlotOK (W.map (·.1)) s)
    (h : VSlotOK W dt lm s) (hp : s.st = .pending) :
    VSlotOK W dt lm (dInsBitsAt dt { s with st := .live }) := by
  unfold VSlotOK DictSlotOK dInsBitsAt dMarkBits dInsBits at *
  grind

theorem vok_ins_fresh {W : List (Key × Int)} {dt lm : Nat} {s : Slot} {k : Key}
    (hd : DictSlotOK (W.map (·.1)) s) (hp : s.st = .free) (h0 : dt ≠ 0) :
    VSlotOK W dt lm (dInsBitsAt dt { s with st := .live, key := k, cval := 0, clmt := 0 }) := by
  unfold VSlotOK DictSlotOK dInsBitsAt dMarkBits dInsBits at *
  grind

theorem vok_rem {W : List (Key × Int)} {dt lm : Nat} {s : Slot} (hd : DictSlotOK (W.map (·.1)) s)
    (h : VSlotOK W dt lm s) (hp : s.st = .live) : VSlotOK W dt lm (dRemBits { s with st := .pending }) := by
  unfold VSlotOK DictSlotOK dRemBits at *
  grind

theorem vok_child {W : List (Key × Int)} {dt lm : Nat} {s : Slot} {v : Int} (hd : DictSlotOK (W.map (·.1)) s)
    (h : VSlotOK W dt lm s) (hl : s.st = .live) (h0 : dt ≠ 0) (hlm : dt ≤ lm) :
    VSlotOK W dt lm (dChildBits { s with cval := v, clmt := dt }) := by
  unfold VSlotOK DictSlotOK dChildBits at *
  grind

theorem vok_cval {W : List (Key × Int)} {dt lm : Nat} {s : Slot} {v : Int} (hd : DictSlotOK (W.map (·.1)) s)
    (h : VSlotOK W dt lm s) (hl : s.st = .live) (hc : s.clmt = dt) (h0 : dt ≠ 0) :
    VSlotOK W dt lm { s with cval := v } := by
  unfold VSlotOK DictSlotOK at *
  grind

theorem vok_clear {W W' : List (Key × Int)} {dt dt' lm : Nat} {s : Slot} (hd : DictSlotOK (W.map (·.1)) s)
    (h : VSlotOK W dt lm s) (hlt : dt < dt')
    (hm : s.st = .live → s.clmt ≠ 0 → (s.key, s.cval) ∈ W' ∧ s.key ∈ W'.map (·.1)) :
    VSlotOK W' dt' lm (clearDictBits (if s.st = .pending then { s with st := .free } else s)) := by
  by_cases hp : s.st = .pending
  · rw [if_pos hp]
    unfold VSlotOK DictSlotOK clearDictBits at *
    grind
  · rw [if_neg hp]
    have hst : s.st = .free ∨ s.st = .live := by
      cases hs : s.st with
      | free => exact Or.inl rfl
      | live => exact Or.inr rfl
      | pending => exact absurd hs hp
    unfold VSlotOK DictSlotOK clearDictBits at *
    grind

structure TSD.VInv (x : TSD) (W0 : List (Key × Int)) : Prop where
  inv : x.Inv (W0.map (·.1))
  vslot : ∀ i, VSlotOK W0 x.deltaTime x.lmt (sget x.keys.slots i)
  uniqW : ∀ p ∈ W0, ∀ q ∈ W0, p.1 = q.1 → p = q
  /-- the dictionary never ticked later than its delta window -/
  lmt_le : x.lmt ≤ x.deltaTime

theorem TSD.VInv_empty : TSD.VInv {} [] := by
  refine ⟨TSD.Inv_empty, ?_, by simp, Nat.le_refl _⟩
  intro i
  simp [VSlotOK, sget]

/-- same key store and window, `last_modified_time` not smaller -/
theorem TSD.VInv_congr {x y : TSD} {W : List (Key × Int)} (h : x.VInv W) (e : y.keys = x.keys)
    (ed : y.deltaTime = x.deltaTime) (el : x.lmt ≤ y.lmt) (el' : y.lmt ≤ y.deltaTime) : y.VInv W := by
  refine ⟨TSD.Inv_congr h.inv e, ?_, h.uniqW, el'⟩
  rw [e, ed]; exact fun i => vok_mono (h.vslot i) el

theorem TSD.VInv_update {x y : TSD} {W : List (Key × Int)} (h : x.VInv W) (hinv : y.Inv (W.map (·.1)))
    (hd : y.deltaTime = x.deltaTime) (el : x.lmt ≤ y.lmt) (el' : y.lmt ≤ y.deltaTime) {i : Nat} {s' : Slot}
    (hget : ∀ j, sget y.keys.slots j = if j = i then s' else sget x.keys.slots j)
    (hs' : VSlotOK W x.deltaTime y.lmt s') : y.VInv W := by
  refine ⟨hinv, ?_, h.uniqW, el'⟩
  intro j
  rw [hget j, hd]
  split
  · exact hs'
  · exact vok_mono (h.vslot j) el

theorem mem_validItems {x : TSD} {p : Key × Int} :
    p ∈ x.validItems ↔ ∃ i, (sget x.keys.slots i).st = .live ∧ (sget x.keys.slots i).clmt ≠ 0 ∧
      (sget x.keys.slots i).key = p.1 ∧ (sget x.keys.slots i).cval = p.2 := by
  unfold TSD.validItems
  simp only [List.mem_map, List.mem_filter]
  constructor
  · rintro ⟨s, ⟨hs, hm⟩, rfl⟩
    obtain ⟨i, _, rfl⟩ := exists_sget_of_mem hs
    simp only [Slot.member, Bool.and_eq_true, beq_iff_eq, bne_iff_ne, ne_eq] at hm
    exact ⟨i, hm.1, hm.2, rfl, rfl⟩
  · rintro ⟨i, hl, hc, hk, hv⟩
    have hi : i < x.keys.slots.length := lt_of_st_ne_free (by rw [hl]; decide)
    refine ⟨sget x.keys.slots i, ⟨sget_mem hi, ?_⟩, ?_⟩
    · simp [Slot.member, hl, hc]
    · exact Prod.ext hk hv

theorem validItems_map_fst (x : TSD) : x.validItems.map (·.1) = x.validKeys := by
  simp [TSD.validItems, TSD.validKeys, List.map_map, Function.comp_def]

/-- ghost items: valid items at the start of the delta window after an operation at `t` -/
def TSD.vghost (x : TSD) (W0 : List (Key × Int)) (t : Time) : List (Key × Int) :=
  if t ≤ x.deltaTime then W0 else x.validItems

theorem TSD.vghost_fst (x : TSD) (W0 : List (Key × Int)) (t : Time) :
    (x.vghost W0 t).map (·.1) = x.ghost (W0.map (·.1)) t := by
  unfold TSD.vghost TSD.ghost
  split
  · rfl
  · exact validItems_map_fst x

theorem TSD.vghost_of_le {x : TSD} {W0 : List (Key × Int)} {t : Time} (h : t ≤ x.deltaTime) :
    x.vghost W0 t = W0 := by simp [TSD.vghost, h]

theorem recMod_ge (lmt t : Time) : lmt ≤ recMod lmt t := by rw [recMod_eq_max]; omega
theorem le_recMod (lmt t : Time) : t ≤ recMod lmt t := by rw [recMod_eq_max]; omega
theorem recMod_le {lmt t d : Time} (h1 : lmt ≤ d) (h2 : t ≤ d) : recMod lmt t ≤ d := by rw [recMod_eq_max]; omega

theorem TSD.prepare_vinv {x : TSD} {W0 : List (Key × Int)} (h : x.VInv W0) (t : Time) :
    (x.prepareDelta t).VInv (x.vghost W0 t) := by
  by_cases ht : t ≤ x.deltaTime
  · rw [TSD.prepareDelta_of_le ht, TSD.vghost_of_le ht]; exact h
  · have hinv := TSD.prepare_inv h.inv t
    rw [← TSD.vghost_fst] at hinv
    have hg : x.vghost W0 t = x.validItems := by simp [TSD.vghost, ht]
    rw [hg] at hinv ⊢
    obtain ⟨_, hget⟩ := TSD.prepare_slots h.inv.wf ht
    have hdt : (x.prepareDelta t).deltaTime = t := by rw [TSD.deltaTime_prepare]; omega
    have hl := TSD.lmt_prepare x t
    refine ⟨hinv, ?_, ?_, by rw [hl, hdt]; have := h.lmt_le; omega⟩
    · intro j
      rw [hget j, hdt, hl]
      apply vok_clear (h.inv.slot j) (h.vslot j) (by omega)
      intro hl hc
      have hmem : (⟨(sget x.keys.slots j).key, (sget x.keys.slots j).cval⟩ : Key × Int) ∈ x.validItems :=
        mem_validItems.mpr ⟨j, hl, hc, rfl, rfl⟩
      exact ⟨hmem, List.mem_map.mpr ⟨_, hmem, rfl⟩⟩
    · intro p hp q hq hpq
      obtain ⟨i, hil, _, hik, hiv⟩ := mem_validItems.mp hp
      obtain ⟨j, hjl, _, hjk, hjv⟩ := mem_validItems.mp hq
      have : i = j := h.inv.wf.uniq i j (by rw [hil]; decide) (by rw [hjl]; decide) (by rw [hik, hjk, hpq])
      subst this
      exact Prod.ext hpq (by rw [← hiv, ← hjv])

theorem TSD.insertKey_vinv {x : TSD} {W0 : List (Key × Int)} (h : x.VInv W0) {t : Time} (h0 : t ≠ 0)
    (ht : x.deltaTime ≤ t) (k : Key) : (x.insertKey t k).1.VInv (x.vghost W0 t) := by
  have h1 := TSD.prepare_vinv h t
  obtain ⟨hinv, hdd, hlm, _⟩ := TSD.insertKey_inv h.inv t k
  rw [← TSD.vghost_fst] at hinv
  obtain ⟨hd, s', hget, hcase⟩ := TSD.insertKey_slots h.inv.wf t k
  have hdt : (x.prepareDelta t).deltaTime = t := by rw [TSD.deltaTime_prepare]; omega
  have hl1 : (x.prepareDelta t).lmt = x.lmt := TSD.lmt_prepare x t
  have hle : (x.insertKey t k).1.lmt ≤ (x.insertKey t k).1.deltaTime := by
    rw [hlm, hdd]; have := h.lmt_le; omega
  apply TSD.VInv_update h1 hinv hd (by rw [hlm, hl1]; exact Nat.le_refl _) hle hget
  rw [hlm, ← hl1]
  rcases hcase with ⟨e, _, _⟩ | ⟨hp, hk, e⟩ | ⟨hf, e⟩
  · rw [e]; exact h1.vslot _
  · rw [e, hdt]
    have := vok_ins_resurrect (h1.inv.slot _) (h1.vslot _) hp
    rw [hdt] at this
    exact this
  · rw [e, hdt]
    exact vok_ins_fresh (h1.inv.slot _) hf h0

theorem TSD.removeKey_vinv {x : TSD} {W0 : List (Key × Int)} (h : x.VInv W0) (t : Time) (k : Key) :
    (x.removeKey t k).1.VInv (x.vghost W0 t) := by
  have h1 := TSD.prepare_vinv h t
  obtain ⟨hinv, hdd, hlm⟩ := TSD.removeKey_inv h.inv t k
  rw [← TSD.vghost_fst] at hinv
  obtain ⟨hd, hcase⟩ := TSD.removeKey_slots h.inv.wf t k
  have hl1 : (x.prepareDelta t).lmt = x.lmt := TSD.lmt_prepare x t
  have hle : (x.removeKey t k).1.lmt ≤ (x.removeKey t k).1.deltaTime := by
    rw [hlm, hdd]; have := h.lmt_le; omega
  rcases hcase with e | ⟨i, hl, hget⟩
  · exact TSD.VInv_congr h1 e hd (by rw [hlm, hl1]; exact Nat.le_refl _) hle
  · apply TSD.VInv_update h1 hinv hd (by rw [hlm, hl1]; exact Nat.le_refl _) hle hget
    rw [hlm, ← hl1]
    exact vok_rem (h1.inv.slot _) (h1.vslot _) hl

theorem TSD.at_keys (x : TSD) (t : Time) (k : Key) :
    (x.at t k).1.keys = (x.insertKey t k).1.keys ∧ (x.at t k).1.deltaTime = (x.insertKey t k).1.deltaTime ∧
    (x.insertKey t k).1.lmt ≤ (x.at t k).1.lmt ∧ (x.at t k).1.lmt ≤ max (x.insertKey t k).1.lmt t := by
  unfold TSD.at TSD.markModified
  by_cases hi : (x.insertKey t k).2.inserted = true
  · simp only [hi, ↓reduceIte, recMod_eq_max]; exact ⟨trivial, trivial, by omega, by omega⟩
  · simp only [hi, Bool.false_eq_true, ↓reduceIte]; exact ⟨trivial, trivial, by omega, by omega⟩

theorem TSD.at_vinv {x : TSD} {W0 : List (Key × Int)} (h : x.VInv W0) {t : Time} (h0 : t ≠ 0)
    (ht : x.deltaTime ≤ t) (k : Key) : (x.at t k).1.VInv (x.vghost W0 t) := by
  obtain ⟨a1, a2, a3, a4⟩ := TSD.at_keys x t k
  have hi := TSD.insertKey_vinv h h0 ht k
  have hdd := (TSD.insertKey_inv h.inv t k).2.1
  refine TSD.VInv_congr hi a1 a2 a3 ?_
  have := hi.lmt_le
  rw [a2, hdd] at *
  omega

theorem TSD.writeChild_lmt (x : TSD) (i : Nat) (t : Time) (v : Int) :
    x.lmt ≤ (x.writeChild i t v).lmt ∧ (x.writeChild i t v).lmt ≤ max x.lmt t ∧
    ((sget x.keys.slots i).clmt < t → t ≤ (x.writeChild i t v).lmt) := by
  unfold TSD.writeChild
  simp only
  by_cases hfirst : ((sget x.keys.slots i).clmt != t) = true
  · simp only [hfirst, ↓reduceIte]
    by_cases hle : t ≤ (sget x.keys.slots i).clmt
    · simp only [hle, ↓reduceIte]; exact ⟨Nat.le_refl _, by omega, by omega⟩
    · simp only [hle, ↓reduceIte]
      have hr : ∀ y : TSD, (y.recordChildModified i t).lmt = y.lmt := by
        intro y
        unfold TSD.recordChildModified
        split
        · rfl
        · simp only; exact TSD.lmt_prepare y t
      simp only [TSD.markModified, hr, recMod_eq_max]
      exact ⟨by omega, by omega, by omega⟩
  · simp only [hfirst, Bool.false_eq_true, ↓reduceIte]
    have : (sget x.keys.slots i).clmt = t := by simpa using hfirst
    exact ⟨Nat.le_refl _, by omega, by omega⟩

theorem TSD.writeChild_vinv {x : TSD} {W : List (Key × Int)} (h : x.VInv W) {i : Nat} {t : Time} (v : Int)
    (hl : (sget x.keys.slots i).st = .live) (ht : t ≠ 0) (hd : t = x.deltaTime) :
    (x.writeChild i t v).VInv W := by
  have hinv := (TSD.writeChild_inv h.inv v hl ht (by omega)).1
  obtain ⟨hdt, s', hget, hcase⟩ := TSD.writeChild_slots (x := x) v hl (by omega : t ≤ x.deltaTime)
  obtain ⟨l1, l2, l3⟩ := TSD.writeChild_lmt x i t v
  have hle : (x.writeChild i t v).lmt ≤ (x.writeChild i t v).deltaTime := by
    rw [hdt]; have := h.lmt_le; omega
  apply TSD.VInv_update h hinv hdt l1 hle hget
  rcases hcase with ⟨e, hle'⟩ | ⟨e, hlt⟩
  · rw [e]
    have h5 := (h.vslot i).2.2.2.2.1 (by rw [hl]; decide)
    exact vok_mono (vok_cval (h.inv.slot i) (h.vslot i) hl (by omega) (by omega)) l1
  · rw [e]
    subst hd
    exact vok_child (h.inv.slot i) (vok_mono (h.vslot i) l1) hl ht (l3 hlt)

theorem TSD.set_vinv {x : TSD} {W0 : List (Key × Int)} (h : x.VInv W0) {t : Time} (h0 : t ≠ 0)
    (ht : x.deltaTime ≤ t) (k : Key) (v : Int) : (x.set t k v).VInv (x.vghost W0 t) := by
  have h1 := TSD.at_vinv h h0 ht k
  obtain ⟨_, h2, h3, _⟩ := TSD.at_inv h.inv t k
  unfold TSD.set
  exact TSD.writeChild_vinv h1 v h3 h0 (by rw [h2]; omega)

theorem TSD.erase_lmt (x : TSD) (t : Time) (k : Key) (hd : t ≤ (x.removeKey t k).1.deltaTime) :
    (x.removeKey t k).1.lmt ≤ (x.erase t k).1.lmt ∧ (x.erase t k).1.lmt ≤ max (x.removeKey t k).1.lmt t := by
  unfold TSD.erase
  by_cases hc : (x.removeKey t k).2 = true
  · simp only [hc, ↓reduceIte]; unfold TSD.markModified; simp only [recMod_eq_max]; omega
  · simp only [hc, Bool.false_eq_true, ↓reduceIte]
    unfold TSD.touchOp TSD.touch TSD.markModified
    simp only [TSD.prepareDelta_of_le hd]
    by_cases e : ((x.removeKey t k).1.lmt != t) = true
    · simp only [e, ↓reduceIte, recMod_eq_max]; split <;> (first | omega | (dsimp only; omega))
    · simp only [e, Bool.false_eq_true, ↓reduceIte]; split <;> (first | omega | (dsimp only; omega))

theorem TSD.erase_vinv {x : TSD} {W0 : List (Key × Int)} (h : x.VInv W0) (t : Time) (k : Key) :
    (x.erase t k).1.VInv (x.vghost W0 t) := by
  have hd := (TSD.removeKey_inv h.inv t k).2.1
  have hk := TSD.erase_keys (x := x) t k (by rw [hd]; omega)
  have hdt : (x.erase t k).1.deltaTime = (x.removeKey t k).1.deltaTime := by
    rw [(TSD.erase_inv h.inv t k).2, hd]
  have hr := TSD.removeKey_vinv h t k
  obtain ⟨l1, l2⟩ := TSD.erase_lmt x t k (by rw [hd]; omega)
  refine TSD.VInv_congr hr hk hdt l1 ?_
  have := hr.lmt_le
  rw [hdt, hd] at *
  omega

theorem TSD.eraseAll_vinv (ks : List Key) {t : Time} {W : List (Key × Int)} : ∀ {y : TSD}, y.VInv W →
    t ≤ y.deltaTime → (ks.foldl (fun y k => (y.erase t k).1) y).VInv W ∧
      y.lmt ≤ (ks.foldl (fun y k => (y.erase t k).1) y).lmt := by
  induction ks with
  | nil => intro y h _; exact ⟨h, Nat.le_refl _⟩
  | cons k rest ih =>
    intro y h hd
    have h1 := TSD.erase_vinv h t k
    rw [TSD.vghost_of_le hd] at h1
    have h2 := (TSD.erase_inv h.inv t k).2
    have hrd := (TSD.removeKey_inv h.inv t k).2
    have hl := (TSD.erase_lmt y t k (by rw [hrd.1]; omega)).1
    rw [hrd.2] at hl
    simp only [List.foldl_cons]
    obtain ⟨i1, i2⟩ := ih h1 (by rw [h2]; omega)
    exact ⟨i1, by omega⟩

theorem TSD.touchOp_vinv {x : TSD} {W0 : List (Key × Int)} (h : x.VInv W0) (t : Time) :
    (x.touchOp t).VInv (x.vghost W0 t) := by
  have h1 := TSD.prepare_vinv h t
  have hd := TSD.deltaTime_prepare x t
  have hmark : TSD.VInv { (x.prepareDelta t) with lmt := recMod (x.prepareDelta t).lmt t } (x.vghost W0 t) :=
    TSD.VInv_congr h1 rfl rfl (recMod_ge _ _) (recMod_le h1.lmt_le (by show t ≤ _; rw [hd]; omega))
  unfold TSD.touchOp TSD.touch TSD.markModified
  simp only
  by_cases e : ((x.prepareDelta t).lmt != t) = true
  · simp only [e, ↓reduceIte]
    split
    · exact TSD.VInv_congr hmark rfl rfl (Nat.le_refl _) hmark.lmt_le
    · exact hmark
  · simp only [e, Bool.false_eq_true, ↓reduceIte]
    split
    · exact TSD.VInv_congr h1 rfl rfl (Nat.le_refl _) h1.lmt_le
    · exact h1

theorem TSD.clear_vinv {x : TSD} {W0 : List (Key × Int)} (h : x.VInv W0) (t : Time) :
    (x.clear t).VInv (x.vghost W0 t) := by
  have h1 := TSD.touchOp_vinv h t
  have hd := (TSD.touchOp_inv h.inv t).2
  unfold TSD.clear
  exact (TSD.eraseAll_vinv (liveKeys x.keys.slots) (t := t) h1 (by rw [hd]; omega)).1

theorem TSD.step_vinv {x : TSD} {W0 : List (Key × Int)} (h : x.VInv W0) (o : DictOp)
    (ht : o.time ≠ 0 → x.deltaTime ≤ o.time) : (x.step o).VInv (x.vghost W0 o.time) := by
  unfold TSD.step
  by_cases h0 : o.time = 0
  · simp only [h0, beq_self_eq_true, ↓reduceIte]
    rw [TSD.vghost_of_le (Nat.zero_le _)]; exact h
  · have : (o.time == 0) = false := by simpa using h0
    simp only [this, Bool.false_eq_true, ↓reduceIte]
    have ht' := ht h0
    cases o with
    | set t k v => exact TSD.set_vinv h h0 ht' k v
    | «at» t k => exact TSD.at_vinv h h0 ht' k
    | erase t k => exact TSD.erase_vinv h t k
    | clear t => exact TSD.clear_vinv h t
    | touch t => exact TSD.touchOp_vinv h t

end HgVerif.Slots
