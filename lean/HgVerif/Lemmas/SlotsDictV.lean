import HgVerif.Lemmas.SlotsDict
/-!
Helper lemmas for C05, TSD value level: for histories with non-decreasing times in which no key is
inserted again in the cycle in which its child was written and the key erased ("clean" histories), the
modified map together with the removed set reproduces the value from the value at the previous tick.
-/
namespace HgVerif.Slots
local notation "Time" => Nat

/-! ### explicit descriptions of the slot touched by each operation -/

theorem TSD.prepare_no_pending {x : TSD} (h : x.keys.WF) {t : Time} (ht : ¬ t ≤ x.deltaTime) (j : Nat) :
    (sget (x.prepareDelta t).keys.slots j).st ≠ .pending := by
  rw [(TSD.prepare_slots h ht).2 j]
  by_cases hp : (sget x.keys.slots j).st = .pending
  · rw [if_pos hp]; simp [clearDictBits]
  · rw [if_neg hp]; simpa [clearDictBits] using hp

/-- the slot `insert_key` touches, relative to the state after `prepare_delta` -/
theorem TSD.insertKey_slots {x : TSD} (h : x.keys.WF) (t : Time) (k : Key) :
    (x.insertKey t k).1.deltaTime = (x.prepareDelta t).deltaTime ∧
    ∃ s', (∀ j, sget (x.insertKey t k).1.keys.slots j =
        if j = (x.insertKey t k).2.slot then s' else sget (x.prepareDelta t).keys.slots j) ∧
      ((s' = sget (x.prepareDelta t).keys.slots (x.insertKey t k).2.slot ∧ s'.st = .live ∧ s'.key = k) ∨
       ((sget (x.prepareDelta t).keys.slots (x.insertKey t k).2.slot).st = .pending ∧
        (sget (x.prepareDelta t).keys.slots (x.insertKey t k).2.slot).key = k ∧
        s' = dInsBits { sget (x.prepareDelta t).keys.slots (x.insertKey t k).2.slot with st := .live }) ∨
       ((sget (x.prepareDelta t).keys.slots (x.insertKey t k).2.slot).st = .free ∧
        s' = dInsBits { sget (x.prepareDelta t).keys.slots (x.insertKey t k).2.slot with
          st := .live, key := k, cval := 0, clmt := 0 })) := by
  have hwf1 : (x.prepareDelta t).keys.WF := by
    by_cases ht : t ≤ x.deltaTime
    · rw [TSD.prepareDelta_of_le ht]; exact h
    · exact (TSD.prepare_slots h ht).1
  unfold TSD.insertKey
  generalize x.prepareDelta t = x1 at hwf1
  obtain ⟨hwf, hlt, hcase⟩ := Store.insert_spec hwf1 k
  simp only
  cases hcase with
  | present hi1 hi2 hi3 hi4 =>
    simp only [hi1, Bool.false_eq_true, ↓reduceIte, hi2]
    refine ⟨trivial, sget x1.keys.slots (x1.keys.insert k).2.slot, ?_, Or.inl ⟨rfl, hi3, hi4⟩⟩
    intro j; split
    · rename_i e; rw [e]
    · rfl
  | resurrect hi1 hi2 hi3 hi4 hi5 =>
    simp only [hi1, ↓reduceIte]
    refine ⟨trivial, dInsBits { sget x1.keys.slots (x1.keys.insert k).2.slot with st := .live }, ?_,
      Or.inr (Or.inl ⟨hi3, hi4, rfl⟩)⟩
    intro j
    simp only [Store.modifySlot, sget_modify, hi5]
    by_cases hj : j = (x1.keys.insert k).2.slot
    · subst hj; simp [hlt]
    · have : ¬ ((x1.keys.insert k).2.slot = j ∧ j < (x1.keys.insert k).1.slots.length) := fun e => hj e.1.symm
      simp [this, hj]
  | fresh hi1 hi2 hi3 hi4 hi5 =>
    simp only [hi1, ↓reduceIte]
    refine ⟨trivial, dInsBits { sget x1.keys.slots (x1.keys.insert k).2.slot with
      st := .live, key := k, cval := 0, clmt := 0 }, ?_, Or.inr (Or.inr ⟨hi4, rfl⟩)⟩
    intro j
    simp only [Store.modifySlot, sget_modify, hi5]
    by_cases hj : j = (x1.keys.insert k).2.slot
    · subst hj; simp [hlt]
    · have : ¬ ((x1.keys.insert k).2.slot = j ∧ j < (x1.keys.insert k).1.slots.length) := fun e => hj e.1.symm
      simp [this, hj]

/-- the slot `remove_key` touches -/
theorem TSD.removeKey_slots {x : TSD} (h : x.keys.WF) (t : Time) (k : Key) :
    (x.removeKey t k).1.deltaTime = (x.prepareDelta t).deltaTime ∧
    ((x.removeKey t k).1.keys = (x.prepareDelta t).keys ∨
     ∃ i, (sget (x.prepareDelta t).keys.slots i).st = .live ∧
       ∀ j, sget (x.removeKey t k).1.keys.slots j =
         if j = i then dRemBits { sget (x.prepareDelta t).keys.slots i with st := .pending }
         else sget (x.prepareDelta t).keys.slots j) := by
  have hwf1 : (x.prepareDelta t).keys.WF := by
    by_cases ht : t ≤ x.deltaTime
    · rw [TSD.prepareDelta_of_le ht]; exact h
    · exact (TSD.prepare_slots h ht).1
  unfold TSD.removeKey
  generalize x.prepareDelta t = x1 at hwf1
  simp only
  cases hf : findLive x1.keys.slots k with
  | none => exact ⟨rfl, Or.inl rfl⟩
  | some i =>
    simp only
    obtain ⟨hlive, hki⟩ := findLive_some hf
    obtain ⟨hr, hwf, hget0⟩ := Store.removeSlot_spec hwf1 hlive
    have hilt : i < x1.keys.slots.length := lt_of_st_ne_free (by rw [hlive]; decide)
    simp only [hr, ↓reduceIte]
    refine ⟨trivial, Or.inr ⟨i, hlive, ?_⟩⟩
    intro j
    simp only [Store.modifySlot, sget_modify, hget0]
    have hlen : (x1.keys.removeSlot i).1.slots.length = x1.keys.slots.length := by
      unfold Store.removeSlot; simp [hlive]
    by_cases hj : j = i
    · subst hj; simp [hlen, hilt]
    · have : ¬ (i = j ∧ j < (x1.keys.removeSlot i).1.slots.length) := fun e => hj e.1.symm
      simp [this, hj]

/-- the slot the child write touches (inside the window, `t = delta_time_`) -/
theorem TSD.writeChild_slots {x : TSD} {i : Nat} {t : Time} (v : Int)
    (hl : (sget x.keys.slots i).st = .live) (hd : t ≤ x.deltaTime) :
    (x.writeChild i t v).deltaTime = x.deltaTime ∧
    ∃ s', (∀ j, sget (x.writeChild i t v).keys.slots j = if j = i then s' else sget x.keys.slots j) ∧
      ((s' = { sget x.keys.slots i with cval := v } ∧ t ≤ (sget x.keys.slots i).clmt) ∨
       (s' = dChildBits { sget x.keys.slots i with cval := v, clmt := t } ∧ (sget x.keys.slots i).clmt < t)) := by
  have hilt : i < x.keys.slots.length := lt_of_st_ne_free (by rw [hl]; decide)
  have hget1 : ∀ j, sget (x.keys.modifySlot i (fun s => { s with cval := v })).slots j =
      if j = i then { sget x.keys.slots i with cval := v } else sget x.keys.slots j := by
    intro j
    simp only [Store.modifySlot, sget_modify]
    by_cases hj : j = i
    · subst hj; simp [hilt]
    · have : ¬ (i = j ∧ j < x.keys.slots.length) := fun e => hj e.1.symm
      simp [this, hj]
  unfold TSD.writeChild
  simp only
  by_cases hfirst : ((sget x.keys.slots i).clmt != t) = true
  · simp only [hfirst, ↓reduceIte]
    by_cases hle : t ≤ (sget x.keys.slots i).clmt
    · simp only [hle, ↓reduceIte]
      exact ⟨by first | rfl | trivial, _, hget1, Or.inl ⟨rfl, by first | exact hle | trivial⟩⟩
    · simp only [hle, ↓reduceIte]
      unfold TSD.recordChildModified TSD.markModified
      have hget2 : ∀ j, sget ((x.keys.modifySlot i (fun s => { s with cval := v })).modifySlot i
            (fun s => { s with clmt := t })).slots j =
          if j = i then { sget x.keys.slots i with cval := v, clmt := t } else sget x.keys.slots j := by
        intro j
        simp only [Store.modifySlot, sget_modify, List.length_modify]
        by_cases hj : j = i
        · subst hj; simp [hilt]
        · have : ¬ (i = j ∧ j < x.keys.slots.length) := fun e => hj e.1.symm
          simp [this, hj]
      have hb : ((sget ((x.keys.modifySlot i (fun s => { s with cval := v })).modifySlot i
            (fun s => { s with clmt := t })).slots i).st != St.live) = false := by
        rw [hget2, if_pos rfl]; simp [hl]
      simp only [hb, Bool.false_eq_true, ↓reduceIte]
      rw [TSD.prepareDelta_of_le (by exact hd)]
      refine ⟨by first | rfl | trivial, dChildBits { sget x.keys.slots i with cval := v, clmt := t }, ?_,
        Or.inr ⟨rfl, by omega⟩⟩
      intro j
      simp only [Store.modifySlot, sget_modify, List.length_modify]
      by_cases hj : j = i
      · subst hj; simp [hilt]
      · have : ¬ (i = j ∧ j < x.keys.slots.length) := fun e => hj e.1.symm
        simp [this, hj]
  · simp only [hfirst, Bool.false_eq_true, ↓reduceIte]
    have : (sget x.keys.slots i).clmt = t := by simpa using hfirst
    exact ⟨by first | rfl | trivial, _, hget1, Or.inl ⟨rfl, by omega⟩⟩


/-! ### the value-level invariant -/

/-- per-slot relation between child value / child time, the bits, the window-start items `W0` and
    `delta_time_` -/
def VSlotOK (W0 : List (Key × Int)) (dt : Nat) (s : Slot) : Prop :=
  (s.published = true → s.modified = false → (s.key, s.cval) ∈ W0) ∧
  (s.removed = true → s.clmt < dt → (s.key, s.cval) ∈ W0) ∧
  (s.published = true → s.clmt = dt → s.modified = true) ∧
  (s.st ≠ .free → s.key ∉ W0.map (·.1) → s.clmt = 0 ∨ s.clmt = dt) ∧
  (s.st ≠ .free → s.clmt ≤ dt) ∧
  (s.modified = true → s.clmt = dt)

theorem vok_ins_resurrect {W : List (Key × Int)} {dt : Nat} {s : Slot} (hd : DictSlotOK (W.map (·.1)) s)
    (h : VSlotOK W dt s) (hp : s.st = .pending) (hc : s.clmt ≠ dt) :
    VSlotOK W dt (dInsBits { s with st := .live }) := by
  unfold VSlotOK DictSlotOK dInsBits at *
  grind

theorem vok_ins_fresh {W : List (Key × Int)} {dt : Nat} {s : Slot} {k : Key} (hd : DictSlotOK (W.map (·.1)) s)
    (hp : s.st = .free) :
    VSlotOK W dt (dInsBits { s with st := .live, key := k, cval := 0, clmt := 0 }) := by
  unfold VSlotOK DictSlotOK dInsBits at *
  grind

theorem vok_rem {W : List (Key × Int)} {dt : Nat} {s : Slot} (hd : DictSlotOK (W.map (·.1)) s)
    (h : VSlotOK W dt s) (hp : s.st = .live) : VSlotOK W dt (dRemBits { s with st := .pending }) := by
  unfold VSlotOK DictSlotOK dRemBits at *
  grind

theorem vok_child {W : List (Key × Int)} {dt : Nat} {s : Slot} {v : Int} (hd : DictSlotOK (W.map (·.1)) s)
    (h : VSlotOK W dt s) (hl : s.st = .live) (h0 : dt ≠ 0) :
    VSlotOK W dt (dChildBits { s with cval := v, clmt := dt }) := by
  unfold VSlotOK DictSlotOK dChildBits at *
  grind

theorem vok_cval {W : List (Key × Int)} {dt : Nat} {s : Slot} {v : Int} (hd : DictSlotOK (W.map (·.1)) s)
    (h : VSlotOK W dt s) (hl : s.st = .live) (hc : s.clmt = dt) (h0 : dt ≠ 0) :
    VSlotOK W dt { s with cval := v } := by
  unfold VSlotOK DictSlotOK at *
  grind

theorem vok_clear {W W' : List (Key × Int)} {dt dt' : Nat} {s : Slot} (hd : DictSlotOK (W.map (·.1)) s)
    (h : VSlotOK W dt s) (hlt : dt < dt')
    (hm : s.st = .live → s.clmt ≠ 0 → (s.key, s.cval) ∈ W' ∧ s.key ∈ W'.map (·.1)) :
    VSlotOK W' dt' (clearDictBits (if s.st = .pending then { s with st := .free } else s)) := by
  by_cases hp : s.st = .pending
  · rw [if_pos hp]
    unfold VSlotOK DictSlotOK clearDictBits at *
    grind
  · rw [if_neg hp]
    have hst : s.st = .free ∨ s.st = .live := by
      cases hs : s.st with
      | free => exact Or.inl rfl
      | live => exact Or.inr rfl
      | pending => exact absurd hs hp
    unfold VSlotOK DictSlotOK clearDictBits at *
    grind

structure TSD.VInv (x : TSD) (W0 : List (Key × Int)) : Prop where
  inv : x.Inv (W0.map (·.1))
  vslot : ∀ i, VSlotOK W0 x.deltaTime (sget x.keys.slots i)
  uniqW : ∀ p ∈ W0, ∀ q ∈ W0, p.1 = q.1 → p = q

theorem TSD.VInv_empty : TSD.VInv {} [] := by
  refine ⟨TSD.Inv_empty, ?_, by simp⟩
  intro i
  simp [VSlotOK, sget]

theorem TSD.VInv_congr {x y : TSD} {W : List (Key × Int)} (h : x.VInv W) (e : y.keys = x.keys)
    (ed : y.deltaTime = x.deltaTime) : y.VInv W := by
  refine ⟨TSD.Inv_congr h.inv e, ?_, h.uniqW⟩
  rw [e, ed]; exact h.vslot

theorem TSD.VInv_update {x y : TSD} {W : List (Key × Int)} (h : x.VInv W) (hinv : y.Inv (W.map (·.1)))
    (hd : y.deltaTime = x.deltaTime) {i : Nat} {s' : Slot}
    (hget : ∀ j, sget y.keys.slots j = if j = i then s' else sget x.keys.slots j)
    (hs' : VSlotOK W x.deltaTime s') : y.VInv W := by
  refine ⟨hinv, ?_, h.uniqW⟩
  intro j
  rw [hget j, hd]
  split
  · exact hs'
  · exact h.vslot j

theorem mem_validItems {x : TSD} {p : Key × Int} :
    p ∈ x.validItems ↔ ∃ i, (sget x.keys.slots i).st = .live ∧ (sget x.keys.slots i).clmt ≠ 0 ∧
      (sget x.keys.slots i).key = p.1 ∧ (sget x.keys.slots i).cval = p.2 := by
  unfold TSD.validItems
  simp only [List.mem_map, List.mem_filter]
  constructor
  · rintro ⟨s, ⟨hs, hm⟩, rfl⟩
    obtain ⟨i, _, rfl⟩ := exists_sget_of_mem hs
    simp only [Slot.member, Bool.and_eq_true, beq_iff_eq, bne_iff_ne, ne_eq] at hm
    exact ⟨i, hm.1, hm.2, rfl, rfl⟩
  · rintro ⟨i, hl, hc, hk, hv⟩
    have hi : i < x.keys.slots.length := lt_of_st_ne_free (by rw [hl]; decide)
    refine ⟨sget x.keys.slots i, ⟨sget_mem hi, ?_⟩, ?_⟩
    · simp [Slot.member, hl, hc]
    · exact Prod.ext hk hv

theorem validItems_map_fst (x : TSD) : x.validItems.map (·.1) = x.validKeys := by
  simp [TSD.validItems, TSD.validKeys, List.map_map, Function.comp_def]

/-- ghost items: valid items at the start of the delta window after an operation at `t` -/
def TSD.vghost (x : TSD) (W0 : List (Key × Int)) (t : Time) : List (Key × Int) :=
  if t ≤ x.deltaTime then W0 else x.validItems

theorem TSD.vghost_fst (x : TSD) (W0 : List (Key × Int)) (t : Time) :
    (x.vghost W0 t).map (·.1) = x.ghost (W0.map (·.1)) t := by
  unfold TSD.vghost TSD.ghost
  split
  · rfl
  · exact validItems_map_fst x

theorem TSD.vghost_of_le {x : TSD} {W0 : List (Key × Int)} {t : Time} (h : t ≤ x.deltaTime) :
    x.vghost W0 t = W0 := by simp [TSD.vghost, h]

theorem TSD.prepare_vinv {x : TSD} {W0 : List (Key × Int)} (h : x.VInv W0) (t : Time) :
    (x.prepareDelta t).VInv (x.vghost W0 t) := by
  by_cases ht : t ≤ x.deltaTime
  · rw [TSD.prepareDelta_of_le ht, TSD.vghost_of_le ht]; exact h
  · have hinv := TSD.prepare_inv h.inv t
    rw [← TSD.vghost_fst] at hinv
    have hg : x.vghost W0 t = x.validItems := by simp [TSD.vghost, ht]
    rw [hg] at hinv ⊢
    obtain ⟨_, hget⟩ := TSD.prepare_slots h.inv.wf ht
    have hdt : (x.prepareDelta t).deltaTime = t := by rw [TSD.deltaTime_prepare]; omega
    refine ⟨hinv, ?_, ?_⟩
    · intro j
      rw [hget j, hdt]
      apply vok_clear (h.inv.slot j) (h.vslot j) (by omega)
      intro hl hc
      have hmem : (⟨(sget x.keys.slots j).key, (sget x.keys.slots j).cval⟩ : Key × Int) ∈ x.validItems :=
        mem_validItems.mpr ⟨j, hl, hc, rfl, rfl⟩
      exact ⟨hmem, List.mem_map.mpr ⟨_, hmem, rfl⟩⟩
    · intro p hp q hq hpq
      obtain ⟨i, hil, _, hik, hiv⟩ := mem_validItems.mp hp
      obtain ⟨j, hjl, _, hjk, hjv⟩ := mem_validItems.mp hq
      have : i = j := h.inv.wf.uniq i j (by rw [hil]; decide) (by rw [hjl]; decide) (by rw [hik, hjk, hpq])
      subst this
      exact Prod.ext hpq (by rw [← hiv, ← hjv])

/-- the clean-history condition for inserting key `k` at time `t`: no pending-erase slot holding `k` has a
    child written at `t` (i.e. `k` was not written and then erased earlier in this very cycle) -/
def TSD.cleanFor (x : TSD) (t : Time) (k : Key) : Prop :=
  ∀ i, (sget x.keys.slots i).st = .pending → (sget x.keys.slots i).key = k → (sget x.keys.slots i).clmt ≠ t

theorem TSD.insertKey_vinv {x : TSD} {W0 : List (Key × Int)} (h : x.VInv W0) {t : Time} (ht : x.deltaTime ≤ t)
    {k : Key} (hc : x.cleanFor t k) : (x.insertKey t k).1.VInv (x.vghost W0 t) := by
  have h1 := TSD.prepare_vinv h t
  have hinv := (TSD.insertKey_inv h.inv t k).1
  rw [← TSD.vghost_fst] at hinv
  obtain ⟨hd, s', hget, hcase⟩ := TSD.insertKey_slots h.inv.wf t k
  have hdt : (x.prepareDelta t).deltaTime = t := by rw [TSD.deltaTime_prepare]; omega
  apply TSD.VInv_update h1 hinv hd hget
  rcases hcase with ⟨e, _, _⟩ | ⟨hp, hk, e⟩ | ⟨hf, e⟩
  · rw [e]; exact h1.vslot _
  · rw [e]
    apply vok_ins_resurrect (h1.inv.slot _) (h1.vslot _) hp
    -- a pending slot survives `prepare_delta` only if the window did not roll
    by_cases hle : t ≤ x.deltaTime
    · rw [TSD.prepareDelta_of_le hle] at hp hk ⊢
      have : x.deltaTime = t := by omega
      rw [this]
      exact hc _ hp hk
    · exact absurd hp (TSD.prepare_no_pending h.inv.wf hle _)
  · rw [e]; exact vok_ins_fresh (h1.inv.slot _) hf

theorem TSD.removeKey_vinv {x : TSD} {W0 : List (Key × Int)} (h : x.VInv W0) (t : Time) (k : Key) :
    (x.removeKey t k).1.VInv (x.vghost W0 t) := by
  have h1 := TSD.prepare_vinv h t
  have hinv := (TSD.removeKey_inv h.inv t k).1
  rw [← TSD.vghost_fst] at hinv
  obtain ⟨hd, hcase⟩ := TSD.removeKey_slots h.inv.wf t k
  rcases hcase with e | ⟨i, hl, hget⟩
  · exact TSD.VInv_congr h1 e hd
  · apply TSD.VInv_update h1 hinv hd hget
    exact vok_rem (h1.inv.slot _) (h1.vslot _) hl

theorem TSD.at_keys (x : TSD) (t : Time) (k : Key) :
    (x.at t k).1.keys = (x.insertKey t k).1.keys ∧ (x.at t k).1.deltaTime = (x.insertKey t k).1.deltaTime := by
  unfold TSD.at TSD.markModified
  by_cases hi : (x.insertKey t k).2.inserted = true <;> simp [hi]

theorem TSD.at_vinv {x : TSD} {W0 : List (Key × Int)} (h : x.VInv W0) {t : Time} (ht : x.deltaTime ≤ t)
    {k : Key} (hc : x.cleanFor t k) : (x.at t k).1.VInv (x.vghost W0 t) :=
  TSD.VInv_congr (TSD.insertKey_vinv h ht hc) (TSD.at_keys x t k).1 (TSD.at_keys x t k).2

theorem TSD.writeChild_vinv {x : TSD} {W : List (Key × Int)} (h : x.VInv W) {i : Nat} {t : Time} (v : Int)
    (hl : (sget x.keys.slots i).st = .live) (ht : t ≠ 0) (hd : t = x.deltaTime) :
    (x.writeChild i t v).VInv W := by
  have hinv := (TSD.writeChild_inv h.inv v hl ht (by omega)).1
  obtain ⟨hdt, s', hget, hcase⟩ := TSD.writeChild_slots (x := x) v hl (by omega : t ≤ x.deltaTime)
  apply TSD.VInv_update h hinv hdt hget
  have h5 := (h.vslot i).2.2.2.2.1 (by rw [hl]; decide)
  rcases hcase with ⟨e, hle⟩ | ⟨e, hlt⟩
  · rw [e]
    exact vok_cval (h.inv.slot i) (h.vslot i) hl (by omega) (by omega)
  · rw [e, hd]
    exact vok_child (h.inv.slot i) (h.vslot i) hl (by omega)

theorem TSD.set_vinv {x : TSD} {W0 : List (Key × Int)} (h : x.VInv W0) {t : Time} (h0 : t ≠ 0)
    (ht : x.deltaTime ≤ t) {k : Key} (v : Int) (hc : x.cleanFor t k) : (x.set t k v).VInv (x.vghost W0 t) := by
  have h1 := TSD.at_vinv h ht hc
  obtain ⟨_, h2, h3, _⟩ := TSD.at_inv h.inv t k
  unfold TSD.set
  exact TSD.writeChild_vinv h1 v h3 h0 (by rw [h2]; omega)

theorem TSD.erase_vinv {x : TSD} {W0 : List (Key × Int)} (h : x.VInv W0) (t : Time) (k : Key) :
    (x.erase t k).1.VInv (x.vghost W0 t) := by
  have hd := (TSD.removeKey_inv h.inv t k).2.1
  have hk := TSD.erase_keys (x := x) t k (by rw [hd]; omega)
  have hdt : (x.erase t k).1.deltaTime = (x.removeKey t k).1.deltaTime := by
    rw [(TSD.erase_inv h.inv t k).2, hd]
  exact TSD.VInv_congr (TSD.removeKey_vinv h t k) hk hdt

theorem TSD.eraseAll_vinv (ks : List Key) {t : Time} {W : List (Key × Int)} : ∀ {y : TSD}, y.VInv W →
    t ≤ y.deltaTime → (ks.foldl (fun y k => (y.erase t k).1) y).VInv W := by
  induction ks with
  | nil => intro y h _; exact h
  | cons k rest ih =>
    intro y h hd
    have h1 := TSD.erase_vinv h t k
    rw [TSD.vghost_of_le hd] at h1
    have h2 := (TSD.erase_inv h.inv t k).2
    simp only [List.foldl_cons]
    exact ih h1 (by rw [h2]; omega)

theorem TSD.clear_vinv {x : TSD} {W0 : List (Key × Int)} (h : x.VInv W0) (t : Time) :
    (x.clear t).VInv (x.vghost W0 t) := by
  have h1 := TSD.prepare_vinv h t
  have hd := TSD.deltaTime_prepare x t
  have hall := TSD.eraseAll_vinv (liveKeys x.keys.slots) (t := t) h1 (by rw [hd]; omega)
  unfold TSD.clear TSD.touch TSD.markModified
  simp only
  by_cases e : ((x.prepareDelta t).lmt != t) = true
  · simp only [e, ↓reduceIte]; exact TSD.VInv_congr hall rfl rfl
  · simp only [e, Bool.false_eq_true, ↓reduceIte]; exact hall

theorem TSD.touchOp_vinv {x : TSD} {W0 : List (Key × Int)} (h : x.VInv W0) (t : Time) :
    (x.touchOp t).VInv (x.vghost W0 t) := by
  have h1 := TSD.prepare_vinv h t
  unfold TSD.touchOp TSD.touch TSD.markModified
  simp only
  by_cases e : ((x.prepareDelta t).lmt != t) = true
  · simp only [e, ↓reduceIte]
    split
    · exact TSD.VInv_congr h1 rfl rfl
    · exact TSD.VInv_congr h1 rfl rfl
  · simp only [e, Bool.false_eq_true, ↓reduceIte]
    split
    · exact TSD.VInv_congr h1 rfl rfl
    · exact h1

/-- the clean-history condition for one operation (only `set` / `at` insert keys) -/
def TSD.cleanOp (x : TSD) : DictOp → Prop
  | .set t k _ => x.cleanFor t k
  | .at t k => x.cleanFor t k
  | _ => True

theorem TSD.step_vinv {x : TSD} {W0 : List (Key × Int)} (h : x.VInv W0) (o : DictOp)
    (ht : o.time ≠ 0 → x.deltaTime ≤ o.time) (hc : x.cleanOp o) : (x.step o).VInv (x.vghost W0 o.time) := by
  unfold TSD.step
  by_cases h0 : o.time = 0
  · simp only [h0, beq_self_eq_true, ↓reduceIte]
    rw [TSD.vghost_of_le (Nat.zero_le _)]; exact h
  · have : (o.time == 0) = false := by simpa using h0
    simp only [this, Bool.false_eq_true, ↓reduceIte]
    have ht' := ht h0
    cases o with
    | set t k v => exact TSD.set_vinv h h0 ht' v hc
    | «at» t k => exact TSD.at_vinv h ht' hc
    | erase t k => exact TSD.erase_vinv h t k
    | clear t => exact TSD.clear_vinv h t
    | touch t => exact TSD.touchOp_vinv h t

end HgVerif.Slots
