import HgVerif.Model.Switch
/-!
Specification-side definitions and helper lemmas for C12 (`Props/C12.lean` holds the property
theorems).

* `lifeStep` / `lifeRun` / `lifeOK` : the lifecycle monitor on event traces (`switch_old_dead`);
* `Inv`   : the representation invariant of the switch node's storage;
* `aloneFrom` / `runAlone`, `SegSpec` : "the selected branch alone, run from its start state on the
  inputs of a maximal segment of constant selection" and the concatenation over segments;
* `Timing` : the invariant tying the active child's wake-up to the parent's schedule entry.
-/
namespace HgVerif.Switch
variable {σ : Type}
local notation "Time" => Nat

/-! ## slots -/

@[simp] theorem graph_setGraph_same (s : SW σ) (b : Bool) (g : Option (Inst σ)) : (s.setGraph b g).graph b = g := by
  cases b <;> simp [SW.setGraph, SW.graph]

@[simp] theorem graph_setGraph_not (s : SW σ) (b : Bool) (g : Option (Inst σ)) : (s.setGraph b g).graph (!b) = s.graph (!b) := by
  cases b <;> simp [SW.setGraph, SW.graph]

@[simp] theorem graph_setGraph_not' (s : SW σ) (b : Bool) (g : Option (Inst σ)) : (s.setGraph (!b) g).graph b = s.graph b := by
  cases b <;> simp [SW.setGraph, SW.graph]

theorem graph_setGraph (s : SW σ) (b c : Bool) (g : Option (Inst σ)) :
    (s.setGraph b g).graph c = if c = b then g else s.graph c := by
  cases b <;> cases c <;> simp [SW.setGraph, SW.graph]

@[simp] theorem setGraph_activeSlot (s : SW σ) (b : Bool) (g : Option (Inst σ)) : (s.setGraph b g).activeSlot = s.activeSlot := by
  cases b <;> simp [SW.setGraph]
@[simp] theorem setGraph_previousSlot (s : SW σ) (b : Bool) (g : Option (Inst σ)) : (s.setGraph b g).previousSlot = s.previousSlot := by
  cases b <;> simp [SW.setGraph]
@[simp] theorem setGraph_activeKey (s : SW σ) (b : Bool) (g : Option (Inst σ)) : (s.setGraph b g).activeKey = s.activeKey := by
  cases b <;> simp [SW.setGraph]
@[simp] theorem setGraph_nodeSlot (s : SW σ) (b : Bool) (g : Option (Inst σ)) : (s.setGraph b g).nodeSlot = s.nodeSlot := by
  cases b <;> simp [SW.setGraph]
@[simp] theorem setGraph_outVal (s : SW σ) (b : Bool) (g : Option (Inst σ)) : (s.setGraph b g).outVal = s.outVal := by
  cases b <;> simp [SW.setGraph]
@[simp] theorem setGraph_nextId (s : SW σ) (b : Bool) (g : Option (Inst σ)) : (s.setGraph b g).nextId = s.nextId := by
  cases b <;> simp [SW.setGraph]

/-! ## the lifecycle monitor (`switch_old_dead`) -/

inductive SlotSt where
  | empty | built | running | stopped
deriving Repr, DecidableEq

/-- What the monitor remembers: the lifecycle status of the occupant of each of the two slots. -/
structure Life where
  s0 : SlotSt := .empty
  s1 : SlotSt := .empty
deriving Repr, DecidableEq

def Life.get (l : Life) (b : Bool) : SlotSt := if b then l.s1 else l.s0
def Life.set (l : Life) (b : Bool) (v : SlotSt) : Life := if b then { l with s1 := v } else { l with s0 := v }

@[simp] theorem Life.get_set_same (l : Life) (b : Bool) (v : SlotSt) : (l.set b v).get b = v := by
  cases b <;> simp [Life.get, Life.set]
@[simp] theorem Life.get_set_not (l : Life) (b : Bool) (v : SlotSt) : (l.set b v).get (!b) = l.get (!b) := by
  cases b <;> simp [Life.get, Life.set]
@[simp] theorem Life.get_set_not' (l : Life) (b : Bool) (v : SlotSt) : (l.set (!b) v).get b = l.get b := by
  cases b <;> simp [Life.get, Life.set]

/-- One event is acceptable iff
    * `construct`: the slot is EMPTY (whatever was there has been destroyed before the slot is reused);
    * `start`: the slot holds a constructed, not yet started child and NO child is running;
    * `stop`: the child is running;
    * `eval`, `user`: the child is RUNNING (a stopped previous child is never evaluated again);
    * `destroy`: the child has been stopped (never a running one). -/
def lifeStep (l : Life) : Event → Option Life
  | .construct _ b => if l.get b = .empty then some (l.set b .built) else none
  | .start _ b _ => if l.get b = .built ∧ l.get (!b) ≠ .running then some (l.set b .running) else none
  | .stop _ b => if l.get b = .running then some (l.set b .stopped) else none
  | .eval _ b => if l.get b = .running then some l else none
  | .user _ b => if l.get b = .running then some l else none
  | .destroy _ b => if l.get b = .stopped then some (l.set b .empty) else none

def lifeRun (l : Life) : List Event → Option Life
  | [] => some l
  | e :: es => match lifeStep l e with
    | some l' => lifeRun l' es
    | none => none

/-- The lifecycle monitor on a whole event trace, from two empty slots. -/
def lifeOK (evs : List Event) : Bool := (lifeRun {} evs).isSome

theorem lifeRun_append (l : Life) (a b : List Event) :
    lifeRun l (a ++ b) = match lifeRun l a with
      | some l' => lifeRun l' b
      | none => none := by
  induction a generalizing l with
  | nil => simp [lifeRun]
  | cons e es ih =>
    simp only [List.cons_append, lifeRun]
    cases lifeStep l e with
    | none => rfl
    | some l' => exact ih l'

theorem lifeRun_append_some {l l' l'' : Life} {a b : List Event} (h1 : lifeRun l a = some l') (h2 : lifeRun l' b = some l'') :
    lifeRun l (a ++ b) = some l'' := by
  rw [lifeRun_append, h1]; exact h2

/-- status of a slot's occupant as the storage records it -/
def instSt : Option (Inst σ) → SlotSt
  | none => .empty
  | some i => if i.running then .running else .stopped

/-- The abstraction of the storage the monitor state is compared with. -/
def absLife (s : SW σ) : Life := { s0 := instSt s.g0, s1 := instSt s.g1 }

theorem absLife_get (s : SW σ) (b : Bool) : (absLife s).get b = instSt (s.graph b) := by
  cases b <;> simp [absLife, Life.get, SW.graph]

theorem absLife_setGraph (s : SW σ) (b : Bool) (g : Option (Inst σ)) :
    absLife (s.setGraph b g) = (absLife s).set b (instSt g) := by
  cases b <;> simp [absLife, Life.set, SW.setGraph]

/-! ## the representation invariant -/

/-- The storage invariant of the switch node while its graph runs. -/
structure Inv (s : SW σ) : Prop where
  /-- a stored child is running exactly when its slot is the active one -/
  running_iff : ∀ b i, s.graph b = some i → (i.running = true ↔ s.activeSlot = some b)
  /-- the active slot holds a child -/
  active_some : ∀ a, s.activeSlot = some a → (s.graph a).isSome = true
  /-- the previous child sits in the other slot -/
  prev_other : ∀ p, s.previousSlot = some p → s.activeSlot = some (!p)
  /-- the other slot is occupied only by the previous child -/
  other_prev : ∀ a, s.activeSlot = some a → (s.graph (!a)).isSome = true → s.previousSlot = some (!a)
  /-- nothing is stored before the first activation -/
  none_empty : s.activeSlot = none → s.g0 = none ∧ s.g1 = none
  /-- `active_key` is set exactly while a child is active -/
  key_iff : s.activeSlot.isSome = s.activeKey.isSome

theorem Inv.init : Inv ({} : SW σ) := by
  constructor <;> simp [SW.graph]

theorem Inv.graph_none {s : SW σ} (h : Inv s) (hn : s.activeSlot = none) (b : Bool) : s.graph b = none := by
  have := h.none_empty hn
  cases b <;> simp [SW.graph, this.1, this.2]

/-! ## `activate_branch` -/

theorem Inv.prev_none {s : SW σ} (h : Inv s) (hn : s.activeSlot = none) : s.previousSlot = none := by
  cases hp : s.previousSlot with
  | none => rfl
  | some p => have := h.prev_other p hp; rw [hn] at this; cases this

/-- Under the invariant `activate_branch` never hits its `logic_error`. -/
theorem slotMismatch_false {s : SW σ} (h : Inv s) : slotMismatch s = false := by
  unfold slotMismatch nextSlot
  cases hp : s.previousSlot with
  | none => rfl
  | some p =>
    have := h.prev_other p hp
    rw [this]
    simp

theorem activate_eq {s : SW σ} (h : Inv s) (b : Branch σ) (k : Key) (now : Time) :
    activate s b k now = .ok (activateBody s b k now) := by
  simp [activate, slotMismatch_false h]

/-- `activate_branch` re-establishes the invariant, emits an event sequence the lifecycle monitor
    accepts, and leaves the FRESH child of the selected branch active — independently of everything
    the storage held before. -/
theorem activateBody_spec (s : SW σ) (h : Inv s) (b : Branch σ) (k : Key) (now : Time) :
    Inv (activateBody s b k now).1 ∧
      lifeRun (absLife s) (activateBody s b k now).2 = some (absLife (activateBody s b k now).1) ∧
      (activateBody s b k now).1.activeInst = some { id := s.nextId + 1, running := true, child := freshChild b now } ∧
      (activateBody s b k now).1.activeKey = some k ∧ (activateBody s b k now).1.nodeSlot = s.nodeSlot ∧
      (activateBody s b k now).1.outVal = s.outVal := by
  cases ha : s.activeSlot with
  | none =>
    have hg := h.none_empty ha
    refine ⟨?_, ?_, ?_, ?_, ?_, ?_⟩
    · constructor <;> simp [activateBody, nextSlot, SW.graph, SW.setGraph, teardown, ha, hg.1, hg.2]
    · simp [activateBody, nextSlot, absLife, hg.1, hg.2, instSt, lifeRun, lifeStep, Life.get, Life.set, SW.setGraph, teardown, ha, SW.graph]
    · simp [activateBody, nextSlot, SW.activeInst, SW.setGraph, teardown, ha, SW.graph]
    · simp [activateBody, nextSlot, SW.setGraph, teardown, ha, SW.graph]
    · simp [activateBody, nextSlot, SW.setGraph, teardown, ha, SW.graph]
    · simp [activateBody, nextSlot, SW.setGraph, teardown, ha, SW.graph]
  | some a =>
    obtain ⟨i, hi⟩ := Option.isSome_iff_exists.mp (h.active_some a ha)
    have hrun : i.running = true := (h.running_iff a i hi).mpr ha
    have hother : ∀ j, s.graph (!a) = some j → j.running = false := by
      intro j hj
      cases hr : j.running with
      | false => rfl
      | true =>
        have := (h.running_iff (!a) j hj).mp hr
        rw [ha] at this
        cases a <;> simp at this
    cases a with
    | false =>
      simp only [SW.graph, Bool.not_false, Bool.false_eq_true, if_false, if_true] at hi hother
      refine ⟨?_, ?_, ?_, ?_, ?_, ?_⟩
      · constructor <;> simp [activateBody, nextSlot, SW.graph, SW.setGraph, teardown, ha, hi]
      · cases hg1 : s.g1 with
        | none =>
          simp [activateBody, nextSlot, absLife, hi, hg1, instSt, hrun, lifeRun, lifeStep, Life.get, Life.set, SW.setGraph, teardown, ha, SW.graph]
        | some j =>
          have := hother j hg1
          simp [activateBody, nextSlot, absLife, hi, hg1, instSt, hrun, this, lifeRun, lifeStep, Life.get, Life.set, SW.setGraph, teardown, ha, SW.graph]
      · simp [activateBody, nextSlot, SW.activeInst, SW.setGraph, teardown, ha, SW.graph, hi]
      · simp [activateBody, nextSlot, SW.setGraph, teardown, ha, SW.graph, hi]
      · simp [activateBody, nextSlot, SW.setGraph, teardown, ha, SW.graph, hi]
      · simp [activateBody, nextSlot, SW.setGraph, teardown, ha, SW.graph, hi]
    | true =>
      simp only [SW.graph, Bool.not_true, Bool.false_eq_true, if_false, if_true] at hi hother
      refine ⟨?_, ?_, ?_, ?_, ?_, ?_⟩
      · constructor <;> simp [activateBody, nextSlot, SW.graph, SW.setGraph, teardown, ha, hi]
      · cases hg0 : s.g0 with
        | none =>
          simp [activateBody, nextSlot, absLife, hi, hg0, instSt, hrun, lifeRun, lifeStep, Life.get, Life.set, SW.setGraph, teardown, ha, SW.graph]
        | some j =>
          have := hother j hg0
          simp [activateBody, nextSlot, absLife, hi, hg0, instSt, hrun, this, lifeRun, lifeStep, Life.get, Life.set, SW.setGraph, teardown, ha, SW.graph]
      · simp [activateBody, nextSlot, SW.activeInst, SW.setGraph, teardown, ha, SW.graph, hi]
      · simp [activateBody, nextSlot, SW.setGraph, teardown, ha, SW.graph, hi]
      · simp [activateBody, nextSlot, SW.setGraph, teardown, ha, SW.graph, hi]
      · simp [activateBody, nextSlot, SW.setGraph, teardown, ha, SW.graph, hi]

/-! ## evaluation of the active child, the key rule, one cycle, a whole run -/

theorem Inv.of_nodeSlot {s : SW σ} (h : Inv s) (t : Time) : Inv { s with nodeSlot := t } := by
  constructor
  · exact h.running_iff
  · exact h.active_some
  · exact h.prev_other
  · exact h.other_prev
  · exact h.none_empty
  · exact h.key_iff

@[simp] theorem absLife_nodeSlot (s : SW σ) (t : Time) : absLife { s with nodeSlot := t } = absLife s := rfl

theorem Inv.of_fields {s : SW σ} (h : Inv s) (t : Time) (o : Option Val) : Inv { s with nodeSlot := t, outVal := o } := by
  constructor
  · exact h.running_iff
  · exact h.active_some
  · exact h.prev_other
  · exact h.other_prev
  · exact h.none_empty
  · exact h.key_iff

@[simp] theorem absLife_fields (s : SW σ) (t : Time) (o : Option Val) : absLife { s with nodeSlot := t, outVal := o } = absLife s := rfl

/-- Replacing the child state of the occupant of slot `a` (identity and running flag kept). -/
theorem Inv.of_setChild {s : SW σ} (h : Inv s) (a : Bool) (i : Inst σ) (hi : s.graph a = some i) (c : Child σ) :
    Inv (s.setGraph a (some { i with child := c })) := by
  constructor
  · intro b j hj
    rw [graph_setGraph] at hj
    rw [setGraph_activeSlot]
    by_cases hb : b = a
    · subst hb
      simp only [if_true] at hj
      injection hj with hj
      subst hj
      exact h.running_iff b i hi
    · simp only [hb, if_false] at hj
      exact h.running_iff b j hj
  · intro b hb
    rw [setGraph_activeSlot] at hb
    have := h.active_some b hb
    rw [graph_setGraph]
    by_cases hba : b = a
    · simp [hba]
    · simpa [hba] using this
  · intro p hp
    rw [setGraph_previousSlot] at hp
    rw [setGraph_activeSlot]
    exact h.prev_other p hp
  · intro b hb hg
    rw [setGraph_activeSlot] at hb
    rw [setGraph_previousSlot]
    apply h.other_prev b hb
    rw [graph_setGraph] at hg
    by_cases hba : (!b) = a
    · rw [hba, hi]; rfl
    · simpa [hba] using hg
  · intro hn
    rw [setGraph_activeSlot] at hn
    have := h.graph_none hn a
    rw [hi] at this
    cases this
  · rw [setGraph_activeSlot, setGraph_activeKey]; exact h.key_iff

theorem absLife_setChild (s : SW σ) (a : Bool) (i : Inst σ) (hi : s.graph a = some i) (c : Child σ) :
    absLife (s.setGraph a (some { i with child := c })) = absLife s := by
  rw [absLife_setGraph]
  have : (absLife s).get a = instSt (some { i with child := c }) := by rw [absLife_get, hi]; rfl
  rw [← this]
  cases a <;> simp [Life.set, Life.get]

structure EvalSpec (s : SW σ) (ev : List Event) (o : EvalOut σ) : Prop where
  inv : Inv o.sw
  life : absLife o.sw = absLife s
  active : o.sw.activeSlot = s.activeSlot
  key : o.sw.activeKey = s.activeKey
  events : ∃ evs, o.events = ev ++ evs ∧ lifeRun (absLife s) evs = some (absLife s)

theorem evalActive_spec (s : SW σ) (h : Inv s) (now : Time) (ports : List Port) (ev : List Event) :
    EvalSpec s ev (evalActive s now ports ev) := by
  unfold evalActive
  cases ha : s.activeSlot with
  | none => exact ⟨h, rfl, rfl, rfl, [], by simp, rfl⟩
  | some a =>
    obtain ⟨i, hi⟩ := Option.isSome_iff_exists.mp (h.active_some a ha)
    have hrun : i.running = true := (h.running_iff a i hi).mpr ha
    simp only [hi]
    refine ⟨(h.of_setChild a i hi _).of_fields _ _, ?_, ?_, ?_, ?_⟩
    · rw [absLife_fields, absLife_setChild s a i hi]
    · simp [ha]
    · simp
    · refine ⟨_, by rw [List.append_assoc], ?_⟩
      have hg : (absLife s).get a = .running := by rw [absLife_get, hi]; simp [instSt, hrun]
      split <;> simp [lifeRun, lifeStep, hg]

theorem keyStep_spec (cfg : Cfg σ) (s : SW σ) (h : Inv s) (now : Time) (key : Port) :
    match keyStep cfg s now key with
    | .error e => e = Err.noBranch
    | .ok r => Inv r.1 ∧ lifeRun (absLife s) r.2 = some (absLife r.1) := by
  unfold keyStep
  cases key.value with
  | none => exact ⟨h, rfl⟩
  | some k =>
    simp only
    by_cases h1 : (key.ticked || s.activeSlot.isNone) = true
    · rw [if_pos h1]
      by_cases h2 : (s.activeSlot.isNone || cfg.reload || !(s.activeSlot.isSome && s.activeKey == some k)) = true
      · rw [if_pos h2]
        cases hsel : selectBranch cfg k with
        | none => rfl
        | some b =>
          simp only [activate_eq h]
          have := activateBody_spec s h b k now
          exact ⟨this.1, this.2.1⟩
      · rw [if_neg h2]; exact ⟨h, rfl⟩
    · rw [if_neg h1]; exact ⟨h, rfl⟩

theorem evaluate_spec (cfg : Cfg σ) (s : SW σ) (h : Inv s) (now : Time) (ports : List Port) :
    match evaluate cfg s now ports with
    | .error e => e = Err.noBranch
    | .ok o => Inv o.sw ∧ lifeRun (absLife s) o.events = some (absLife o.sw) := by
  unfold evaluate
  have hk := keyStep_spec cfg s h now (ports.getD 0 Port.absent)
  cases hks : keyStep cfg s now (ports.getD 0 Port.absent) with
  | error e => rw [hks] at hk; exact hk
  | ok r =>
    rw [hks] at hk
    obtain ⟨s1, ev1⟩ := r
    simp only at hk ⊢
    have he := evalActive_spec s1 hk.1 now ports ev1
    refine ⟨he.inv, ?_⟩
    obtain ⟨evs, hevs, hl⟩ := he.events
    rw [hevs, he.life]
    exact lifeRun_append_some hk.2 hl

/-- One engine cycle keeps the invariant and emits events the monitor accepts; the only possible
    error is the unmatched key. -/
theorem cycle_spec (cfg : Cfg σ) (r : Run σ) (h : Inv r.sw) (now : Time) (c : Cyc) :
    Inv (cycle cfg r now c).run.sw ∧
    lifeRun (absLife r.sw) (cycle cfg r now c).events = some (absLife (cycle cfg r now c).run.sw) ∧
    ((cycle cfg r now c).err = none ∨ (cycle cfg r now c).err = some Err.noBranch) := by
  unfold cycle
  by_cases hd : r.dead = true
  · rw [if_pos hd]; exact ⟨h, rfl, Or.inl rfl⟩
  · rw [if_neg hd]
    simp only
    generalize (if c.anyTick = true then schedNode r.sw.nodeSlot now now else r.sw.nodeSlot) = slot1
    by_cases hdue : (slot1 == now) = true
    · rw [if_pos hdue]
      have he := evaluate_spec cfg { r.sw with nodeSlot := slot1 } (h.of_nodeSlot _) now (mkPorts (r.held.update c) c)
      cases heq : evaluate cfg { r.sw with nodeSlot := slot1 } now (mkPorts (r.held.update c) c) with
      | error e =>
        rw [heq] at he
        simp only at he
        exact ⟨h.of_nodeSlot _, rfl, Or.inr (by rw [he])⟩
      | ok o =>
        rw [heq] at he
        exact ⟨he.1, by simpa using he.2, Or.inl rfl⟩
    · rw [if_neg hdue]; exact ⟨h.of_nodeSlot _, rfl, Or.inl rfl⟩

/-- all events of a run, in order -/
def allEvents (outs : List (CycleOut σ)) : List Event := outs.flatMap (fun o => o.events)

theorem runFrom_life (cfg : Cfg σ) (r : Run σ) (h : Inv r.sw) (now : Time) (cs : List Cyc) :
    Inv (finalRun cfg r now cs).sw ∧
    lifeRun (absLife r.sw) (allEvents (runFrom cfg r now cs)) = some (absLife (finalRun cfg r now cs).sw) := by
  induction cs generalizing r now with
  | nil => exact ⟨h, rfl⟩
  | cons c cs ih =>
    have hc := cycle_spec cfg r h now c
    have := ih (cycle cfg r now c).run hc.1 (now + 1)
    refine ⟨this.1, ?_⟩
    simp only [runFrom, allEvents, List.flatMap_cons, finalRun]
    exact lifeRun_append_some hc.2.1 this.2

/-! ## the specification of the output stream -/

/-- A child evaluated alone in consecutive cycles `now, now+1, ...` on the given outer inputs. -/
def aloneFrom (ch : Child σ) (now : Time) : List (List Port) → List (Option Val)
  | [] => []
  | p :: ps => (childEval ch now p).out :: aloneFrom (childEval ch now p).child (now + 1) ps

def aloneEnd (ch : Child σ) (now : Time) : List (List Port) → Child σ
  | [] => ch
  | p :: ps => aloneEnd (childEval ch now p).child (now + 1) ps

/-- The selected branch ALONE: started fresh at `t` (start hook run, boundary sampled: every valid
    held input is presented as ticked in the first cycle) and run on the inputs of the segment. -/
def runAlone (b : Branch σ) (t : Time) (pss : List (List Port)) : List (Option Val) :=
  aloneFrom (freshChild b t) t pss

/-- The outer inputs of consecutive cycles as the replay nodes present them. -/
def portsFrom (h : Held) : List Cyc → List (List Port)
  | [] => []
  | c :: cs => mkPorts (h.update c) c :: portsFrom (h.update c) cs

def heldAfter (h : Held) : List Cyc → Held
  | [] => h
  | c :: cs => heldAfter (h.update c) cs

/-- The selection rule read off the KEY history alone: with `cur` the currently selected key, cycle
    `c` selects anew iff the key ticks and (nothing is selected, or reload-on-tick, or it differs). -/
def switches (reload : Bool) (cur : Option Key) (c : Cyc) : Option Key :=
  match c.key with
  | none => none
  | some k => if cur.isNone || reload || !(cur == some k) then some k else none

/-- "The output stream is the concatenation, over maximal segments of constant selection, of the
    selected branch run alone from its start state":
    * `wait`: before the first key nothing is emitted;
    * `seg` : a selecting cycle `c` with key `k ↦ b` opens a segment `c :: seg` that extends up to (not
              including) the next selecting cycle (`seg` has none, `rest` is empty or starts with one);
              its output is `runAlone b` on its inputs, followed by the output of the rest;
    * `fail`: a key without branch and without default ends the stream (nothing more is emitted). -/
inductive SegSpec (cfg : Cfg σ) : Time → Held → Option Key → List Cyc → List (Option Val) → Prop
  | nil (t : Time) (h : Held) (cur : Option Key) : SegSpec cfg t h cur [] []
  | wait (t : Time) (h : Held) (c : Cyc) (cs : List Cyc) (outs : List (Option Val)) :
      c.key = none → SegSpec cfg (t + 1) (h.update c) none cs outs →
      SegSpec cfg t h none (c :: cs) (none :: outs)
  | seg (t : Time) (h : Held) (cur : Option Key) (c : Cyc) (k : Key) (b : Branch σ) (seg rest : List Cyc)
      (outs : List (Option Val)) :
      switches cfg.reload cur c = some k → selectBranch cfg k = some b →
      (∀ c' ∈ seg, switches cfg.reload (some k) c' = none) →
      (∀ c' rest', rest = c' :: rest' → (switches cfg.reload (some k) c').isSome = true) →
      SegSpec cfg (t + 1 + seg.length) (heldAfter h (c :: seg)) (some k) rest outs →
      SegSpec cfg t h cur (c :: (seg ++ rest)) (runAlone b t (portsFrom h (c :: seg)) ++ outs)
  | fail (t : Time) (h : Held) (cur : Option Key) (c : Cyc) (k : Key) (cs : List Cyc) :
      switches cfg.reload cur c = some k → selectBranch cfg k = none →
      SegSpec cfg t h cur (c :: cs) (List.replicate (cs.length + 1) none)

/-! ## facts about one child evaluation -/

theorem schedNode_self (s t : Nat) : schedNode s t t = t := by
  unfold schedNode; split <;> omega

theorem schedNode_due (t w : Nat) : schedNode t t w = w := by
  unfold schedNode; simp

theorem childEval_sampledAt (ch : Child σ) (now : Time) (ports : List Port) :
    (childEval ch now ports).child.sampledAt = ch.sampledAt := by
  unfold childEval
  by_cases hd : ch.due now ports = true
  · rw [if_pos hd]
    by_cases hg : ch.br.gate (ch.seen now ports) = true
    · rw [if_pos hg]
    · rw [if_neg hg]
  · rw [if_neg hd]

theorem childEval_br (ch : Child σ) (now : Time) (ports : List Port) :
    (childEval ch now ports).child.br = ch.br := by
  unfold childEval
  by_cases hd : ch.due now ports = true
  · rw [if_pos hd]
    by_cases hg : ch.br.gate (ch.seen now ports) = true
    · rw [if_pos hg]
    · rw [if_neg hg]
  · rw [if_neg hd]

/-- After an evaluation at `now` the child's wake-up lies strictly in the future. -/
theorem childEval_wake (ch : Child σ) (now : Nat) (ports : List Port) (h : ∀ w : Nat, ch.wake = some w → now ≤ w) :
    ∀ w : Nat, (childEval ch now ports).child.wake = some w → now + 1 ≤ w := by
  intro w
  have hne : ch.wake ≠ some now → ch.wake = some w → now + 1 ≤ w := by
    intro hn hw
    have h1 := h w hw
    rw [hw] at hn
    have : w ≠ now := fun e => hn (by rw [e])
    omega
  unfold childEval
  by_cases hd : ch.due now ports = true
  · rw [if_pos hd]
    by_cases hg : ch.br.gate (ch.seen now ports) = true
    · rw [if_pos hg]
      intro hw
      simp only [Option.filter_eq_some_iff, decide_eq_true_eq] at hw
      omega
    · rw [if_neg hg]
      simp only
      by_cases hwk : (ch.wake == some now) = true
      · rw [if_pos hwk]; intro hw; cases hw
      · rw [if_neg hwk]
        exact hne (by simpa using hwk)
  · rw [if_neg hd]
    have : ¬ (ch.wake == some now) = true := by
      intro e; apply hd; simp [Child.due, e]
    exact hne (by simpa using this)

theorem activeAny_false (passive : List Nat) (f : Port → Bool) : ∀ (l : List Port) (i : Nat),
    (∀ p ∈ l, f p = false) → activeAny passive f i l = false := by
  intro l
  induction l with
  | nil => intro i _; rfl
  | cons p r ih =>
    intro i h
    simp only [activeAny, h p (by simp), Bool.and_false, Bool.false_or]
    exact ih (i + 1) (fun q hq => h q (by simp [hq]))

/-- Nothing ticks, the boundary is not being sampled and no timer is due: the child is not touched. -/
theorem childEval_idle (ch : Child σ) (now : Time) (ports : List Port)
    (hp : ∀ p ∈ ports, p.ticked = false) (hs : ch.sampledAt ≠ some now) (hw : ch.wake ≠ some now) :
    childEval ch now ports = { child := ch, out := none, ranUser := false } := by
  have hv : ∀ p ∈ ch.br.view ports, p.ticked = false := by
    intro p hp'
    simp only [Branch.view, List.mem_map] at hp'
    obtain ⟨i, _, rfl⟩ := hp'
    rw [List.getD_eq_getElem?_getD]
    cases hg : ports[i]? with
    | none => rfl
    | some q => exact hp q (List.mem_of_getElem? hg)
  have hs' : (ch.sampledAt == some now) = false := by simpa using hs
  have hw' : (ch.wake == some now) = false := by simpa using hw
  have hn : ch.br.notified ports = false := activeAny_false _ _ _ 0 hv
  have hd : ch.due now ports = false := by
    simp [Child.due, hs', hw', hn]
  unfold childEval
  rw [hd]; rfl

theorem mkPorts_noTick (h : Held) (c : Cyc) (hc : c.anyTick = false) : ∀ p ∈ mkPorts h c, p.ticked = false := by
  simp only [Cyc.anyTick, Bool.or_eq_false_iff, List.any_eq_false] at hc
  have hins : ∀ (hs ts : List (Option Val)), (∀ t ∈ ts, ¬ t.isSome = true) → ∀ p ∈ insPorts hs ts, p.ticked = false := by
    intro hs
    induction hs with
    | nil => intro ts _ p hp; simp [insPorts] at hp
    | cons x xs ih =>
      intro ts hts p hp
      cases ts with
      | nil =>
        simp only [insPorts, List.mem_cons] at hp
        rcases hp with rfl | hp
        · rfl
        · exact ih [] (by simp) p hp
      | cons y ys =>
        simp only [insPorts, List.mem_cons] at hp
        rcases hp with rfl | hp
        · simpa using hts y (by simp)
        · exact ih ys (fun t ht => hts t (by simp [ht])) p hp
  intro p hp
  simp only [mkPorts, List.mem_cons] at hp
  rcases hp with rfl | hp
  · simpa using hc.1
  · exact hins _ _ hc.2 p hp

/-! ## one engine cycle, seen from the active child -/

theorem cycle_due (cfg : Cfg σ) (r : Run σ) (t : Nat) (c : Cyc) (hd : r.dead = false)
    (hdue : (if c.anyTick = true then t else r.sw.nodeSlot) = t) :
    cycle cfg r t c =
      match evaluate cfg { r.sw with nodeSlot := t } t (mkPorts (r.held.update c) c) with
      | .error e => { run := { sw := { r.sw with nodeSlot := t }, held := r.held.update c, dead := true },
                      out := none, events := [], err := some e }
      | .ok o => { run := { sw := o.sw, held := r.held.update c, dead := false }, out := o.out, events := o.events, err := none } := by
  unfold cycle
  rw [hd]
  simp only [Bool.false_eq_true, if_false, schedNode_self, hdue, beq_self_eq_true, if_true]
  rfl

theorem cycle_idle (cfg : Cfg σ) (r : Run σ) (t : Nat) (c : Cyc) (hd : r.dead = false)
    (hnt : c.anyTick = false) (hslot : r.sw.nodeSlot ≠ t) :
    cycle cfg r t c = { run := { sw := r.sw, held := r.held.update c, dead := false }, out := none, events := [], err := none } := by
  unfold cycle
  rw [hd]
  have : (r.sw.nodeSlot == t) = false := by simpa using hslot
  simp only [Bool.false_eq_true, if_false, hnt, this]

theorem cycle_dead (cfg : Cfg σ) (r : Run σ) (t : Nat) (c : Cyc) (hd : r.dead = true) :
    cycle cfg r t c = { run := r, out := none, events := [], err := none } := by
  unfold cycle; rw [if_pos hd]

theorem activeInst_iff (s : SW σ) (i : Inst σ) :
    s.activeInst = some i ↔ ∃ a, s.activeSlot = some a ∧ s.graph a = some i := by
  unfold SW.activeInst
  cases s.activeSlot with
  | none => simp
  | some a => simp

/-- The run has an active child `ch` selected by key `k`. -/
def ActiveIs (r : Run σ) (k : Key) (ch : Child σ) : Prop :=
  ∃ i, r.sw.activeInst = some i ∧ i.child = ch ∧ r.sw.activeKey = some k

/-- What holds between cycles, `t` being the time of the next cycle: the storage invariant, no key
    before the first activation, and the parent's schedule entry covers the active child's wake-up. -/
structure Timing (r : Run σ) (t : Nat) : Prop where
  alive : r.dead = false
  inv : Inv r.sw
  nokey : r.sw.activeSlot = none → r.held.key = none
  wake : ∀ i, r.sw.activeInst = some i → ∀ w : Nat, i.child.wake = some w →
    t ≤ w ∧ t ≤ r.sw.nodeSlot ∧ r.sw.nodeSlot ≤ w
  sampled : ∀ i, r.sw.activeInst = some i → ∀ u : Nat, i.child.sampledAt = some u → u < t

theorem Timing.init (t : Nat) : Timing ({} : Run σ) t := by
  constructor
  · rfl
  · exact Inv.init
  · intro _; rfl
  · intro i hi; simp [SW.activeInst] at hi
  · intro i hi; simp [SW.activeInst] at hi

/-- Evaluating the active child in a cycle in which the node is due (`nodeSlot = t`). -/
theorem evalActive_due (s : SW σ) (h : Inv s) (a : Bool) (i : Inst σ) (ha : s.activeSlot = some a)
    (hi : s.graph a = some i) (t : Nat) (hslot : s.nodeSlot = t) (ports : List Port) (ev : List Event)
    (hw : ∀ w : Nat, i.child.wake = some w → t ≤ w) :
    (evalActive s t ports ev).out = (childEval i.child t ports).out ∧
    (evalActive s t ports ev).sw.activeInst = some { i with child := (childEval i.child t ports).child } ∧
    (evalActive s t ports ev).sw.activeKey = s.activeKey ∧
    (evalActive s t ports ev).sw.activeSlot = some a ∧
    Inv (evalActive s t ports ev).sw ∧
    (∀ w : Nat, (childEval i.child t ports).child.wake = some w →
      t + 1 ≤ w ∧ t + 1 ≤ (evalActive s t ports ev).sw.nodeSlot ∧ (evalActive s t ports ev).sw.nodeSlot ≤ w) := by
  have hspec := evalActive_spec s h t ports ev
  have hwk := childEval_wake i.child t ports hw
  unfold evalActive at hspec ⊢
  simp only [ha, hi] at hspec ⊢
  refine ⟨trivial, ?_, by simp, by simp [ha], hspec.inv, ?_⟩
  · cases a <;> simp [SW.activeInst, SW.setGraph, SW.graph, ha]
  · intro w hw'
    have := hwk w hw'
    simp only [hw', setGraph_nodeSlot, hslot, schedNode_due]
    omega

theorem mkPorts_key (h : Held) (c : Cyc) : (mkPorts h c).getD 0 Port.absent = ⟨h.key, c.key.isSome⟩ := rfl

theorem update_key (h : Held) (c : Cyc) : (h.update c).key = orElse c.key h.key := rfl

/-- A key tick that does not select anew (same key, no reload) and a cycle without key tick leave the
    storage alone. -/
theorem keyStep_noswitch (cfg : Cfg σ) (s : SW σ) (t : Nat) (k : Key) (c : Cyc) (hk : Option Key)
    (ha : s.activeSlot.isSome = true) (hkey : s.activeKey = some k)
    (hsw : switches cfg.reload (some k) c = none) :
    keyStep cfg s t ⟨orElse c.key hk, c.key.isSome⟩ = .ok (s, []) := by
  have hnone : s.activeSlot.isNone = false := by
    cases h : s.activeSlot with
    | none => rw [h] at ha; cases ha
    | some _ => rfl
  unfold keyStep
  cases hc : c.key with
  | none =>
    simp only [orElse, Option.isSome_none]
    cases hk with
    | none => rfl
    | some k' => simp [hnone]
  | some k' =>
    simp only [switches, hc, Option.isNone_some, Bool.false_or] at hsw
    have hcond : (cfg.reload || !(some k == some k')) = false := by
      cases hb : (cfg.reload || !(some k == some k')) with
      | false => rfl
      | true => rw [hb] at hsw; simp at hsw
    simp only [Bool.or_eq_false_iff, Bool.not_eq_false'] at hcond
    have hkk : k = k' := by simpa using hcond.2
    subst hkk
    simp [orElse, hnone, hcond.1, ha, hkey]

/-- A selecting key tick runs `select_branch` and `activate_branch`. -/
theorem keyStep_switch (cfg : Cfg σ) (s : SW σ) (h : Inv s) (t : Nat) (k : Key) (c : Cyc) (hk : Option Key)
    (hsw : switches cfg.reload s.activeKey c = some k) :
    keyStep cfg s t ⟨orElse c.key hk, c.key.isSome⟩ =
      match selectBranch cfg k with
      | none => .error .noBranch
      | some b => .ok (activateBody s b k t) := by
  unfold keyStep
  cases hc : c.key with
  | none => simp [switches, hc] at hsw
  | some k' =>
    simp only [switches, hc] at hsw
    have hcond : (s.activeKey.isNone || cfg.reload || !(s.activeKey == some k')) = true := by
      cases hb : (s.activeKey.isNone || cfg.reload || !(s.activeKey == some k')) with
      | true => rfl
      | false => rw [hb] at hsw; simp at hsw
    rw [hcond] at hsw
    simp only [if_true, Option.some.injEq] at hsw
    subst hsw
    have hiff := h.key_iff
    have hcond2 : (s.activeSlot.isNone || cfg.reload || !(s.activeSlot.isSome && s.activeKey == some k')) = true := by
      cases hak : s.activeKey with
      | none =>
        rw [hak] at hiff
        cases hs : s.activeSlot with
        | none => rfl
        | some _ => rw [hs] at hiff; cases hiff
      | some k'' =>
        rw [hak] at hiff hcond
        cases hs : s.activeSlot with
        | none => rfl
        | some _ => simpa using hcond
    simp only [orElse, Option.isSome_some, Bool.true_or, if_true, hcond2]
    cases selectBranch cfg k' with
    | none => rfl
    | some b => simp [activate_eq h]

/-- (L0) A cycle that does not select anew: the switch emits exactly what the active child emits when
    evaluated on the cycle's inputs (nothing when the child is not due), and the child's new state is
    the active child of the next cycle. -/
theorem cycle_noswitch (cfg : Cfg σ) (r : Run σ) (t : Nat) (c : Cyc) (k : Key) (ch : Child σ)
    (ht : Timing r t) (hact : ActiveIs r k ch) (hsw : switches cfg.reload (some k) c = none) :
    (cycle cfg r t c).out = (childEval ch t (mkPorts (r.held.update c) c)).out ∧
    ActiveIs (cycle cfg r t c).run k (childEval ch t (mkPorts (r.held.update c) c)).child ∧
    Timing (cycle cfg r t c).run (t + 1) ∧
    (cycle cfg r t c).run.held = r.held.update c := by
  obtain ⟨i, hi, hch, hkey⟩ := hact
  subst hch
  obtain ⟨a, ha, hg⟩ := (activeInst_iff _ _).mp hi
  have hwake := ht.wake i hi
  have hsamp := ht.sampled i hi
  by_cases hdue : (if c.anyTick = true then t else r.sw.nodeSlot) = t
  · -- the node is evaluated
    rw [cycle_due cfg r t c ht.alive hdue]
    have hks : keyStep cfg { r.sw with nodeSlot := t } t ((mkPorts (r.held.update c) c).getD 0 Port.absent) =
        .ok ({ r.sw with nodeSlot := t }, []) := by
      rw [mkPorts_key, update_key]
      exact keyStep_noswitch cfg _ t k c r.held.key (by simp [ha]) hkey hsw
    unfold evaluate
    rw [hks]
    simp only
    have he := evalActive_due { r.sw with nodeSlot := t } (ht.inv.of_nodeSlot t) a i ha hg t rfl
      (mkPorts (r.held.update c) c) [] (fun w hw => (hwake w hw).1)
    refine ⟨he.1, ⟨_, he.2.1, rfl, by rw [he.2.2.1]; exact hkey⟩, ?_, by first | rfl | trivial⟩
    constructor
    · rfl
    · exact he.2.2.2.2.1
    · intro hn; rw [he.2.2.2.1] at hn; cases hn
    · intro j hj w hw
      rw [he.2.1] at hj
      injection hj with hj
      subst hj
      exact he.2.2.2.2.2 w hw
    · intro j hj u hu
      rw [he.2.1] at hj
      injection hj with hj
      subst hj
      simp only [childEval_sampledAt] at hu
      have := hsamp u hu
      omega
  · -- the node is not evaluated: nothing ticked and its schedule entry is not `t`
    have hnt : c.anyTick = false := by
      cases h : c.anyTick with
      | false => rfl
      | true => rw [h] at hdue; simp at hdue
    rw [hnt] at hdue
    simp only [Bool.false_eq_true, if_false] at hdue
    rw [cycle_idle cfg r t c ht.alive hnt hdue]
    have hs : i.child.sampledAt ≠ some t := by
      intro e; have := hsamp t e; omega
    have hw : i.child.wake ≠ some t := by
      intro e; have := hwake t e; omega
    have hidle := childEval_idle i.child t (mkPorts (r.held.update c) c) (mkPorts_noTick _ c hnt) hs hw
    rw [hidle]
    refine ⟨rfl, ⟨i, hi, rfl, hkey⟩, ?_, rfl⟩
    constructor
    · rfl
    · exact ht.inv
    · intro hn; rw [ha] at hn; cases hn
    · intro j hj w hw'
      have hj' : j = i := by
        have : r.sw.activeInst = some j := hj
        rw [hi] at this; injection this with this; exact this.symm
      subst hj'
      have := hwake w hw'
      have hne : w ≠ t := fun e => hw (by rw [hw', e])
      have hne2 : r.sw.nodeSlot ≠ t := hdue
      refine ⟨by omega, ?_, this.2.2⟩
      show t + 1 ≤ r.sw.nodeSlot
      omega
    · intro j hj u hu
      have hj' : j = i := by
        have : r.sw.activeInst = some j := hj
        rw [hi] at this; injection this with this; exact this.symm
      subst hj'
      have := hsamp u hu
      omega

theorem switches_key {reload : Bool} {cur : Option Key} {c : Cyc} {k : Key} (h : switches reload cur c = some k) :
    c.key = some k := by
  unfold switches at h
  cases hc : c.key with
  | none => rw [hc] at h; cases h
  | some k' =>
    rw [hc] at h
    simp only at h
    split at h
    · injection h with h; rw [h]
    · cases h

theorem anyTick_of_key {c : Cyc} {k : Key} (h : c.key = some k) : c.anyTick = true := by
  simp [Cyc.anyTick, h]

/-- (L2) A selecting cycle whose key has a branch: the switch emits what the FRESH child of that
    branch emits on the cycle's inputs with its boundary sampled, whatever state the storage was in. -/
theorem cycle_switch (cfg : Cfg σ) (r : Run σ) (t : Nat) (c : Cyc) (k : Key) (b : Branch σ)
    (ht : Timing r t) (hsw : switches cfg.reload r.sw.activeKey c = some k) (hsel : selectBranch cfg k = some b) :
    (cycle cfg r t c).out = (childEval (freshChild b t) t (mkPorts (r.held.update c) c)).out ∧
    ActiveIs (cycle cfg r t c).run k (childEval (freshChild b t) t (mkPorts (r.held.update c) c)).child ∧
    Timing (cycle cfg r t c).run (t + 1) ∧
    (cycle cfg r t c).run.held = r.held.update c := by
  have hck := switches_key hsw
  have hdue : (if c.anyTick = true then t else r.sw.nodeSlot) = t := by rw [anyTick_of_key hck]; rfl
  rw [cycle_due cfg r t c ht.alive hdue]
  have hinv := ht.inv.of_nodeSlot t
  have hks : keyStep cfg { r.sw with nodeSlot := t } t ((mkPorts (r.held.update c) c).getD 0 Port.absent) =
      .ok (activateBody { r.sw with nodeSlot := t } b k t) := by
    rw [mkPorts_key, update_key, keyStep_switch cfg _ hinv t k c r.held.key hsw, hsel]
  unfold evaluate
  rw [hks]
  simp only
  have hab := activateBody_spec { r.sw with nodeSlot := t } hinv b k t
  obtain ⟨a, ha, hg⟩ := (activeInst_iff _ _).mp hab.2.2.1
  have hfw : ∀ w : Nat, (freshChild b t).wake = some w → t ≤ w := by
    intro w hw
    simp only [freshChild, Option.filter_eq_some_iff, decide_eq_true_eq] at hw
    exact hw.2
  have he := evalActive_due (activateBody { r.sw with nodeSlot := t } b k t).1 hab.1 a _ ha hg t
    (by rw [hab.2.2.2.2.1]) (mkPorts (r.held.update c) c) (activateBody { r.sw with nodeSlot := t } b k t).2 hfw
  refine ⟨he.1, ⟨_, he.2.1, rfl, by rw [he.2.2.1]; exact hab.2.2.2.1⟩, ?_, by first | rfl | trivial⟩
  constructor
  · rfl
  · exact he.2.2.2.2.1
  · intro hn; rw [he.2.2.2.1] at hn; cases hn
  · intro j hj w hw
    rw [he.2.1] at hj
    injection hj with hj
    subst hj
    exact he.2.2.2.2.2 w hw
  · intro j hj u hu
    rw [he.2.1] at hj
    injection hj with hj
    subst hj
    simp only [childEval_sampledAt, freshChild, Option.some.injEq] at hu
    omega

/-- (L3) A selecting cycle whose key has no branch (and there is no default): the run fails. -/
theorem cycle_fail (cfg : Cfg σ) (r : Run σ) (t : Nat) (c : Cyc) (k : Key)
    (ht : Timing r t) (hsw : switches cfg.reload r.sw.activeKey c = some k) (hsel : selectBranch cfg k = none) :
    (cycle cfg r t c).out = none ∧ (cycle cfg r t c).run.dead = true ∧ (cycle cfg r t c).err = some Err.noBranch ∧
    (cycle cfg r t c).events = [] := by
  have hck := switches_key hsw
  have hdue : (if c.anyTick = true then t else r.sw.nodeSlot) = t := by rw [anyTick_of_key hck]; rfl
  rw [cycle_due cfg r t c ht.alive hdue]
  have hinv := ht.inv.of_nodeSlot t
  have hks : keyStep cfg { r.sw with nodeSlot := t } t ((mkPorts (r.held.update c) c).getD 0 Port.absent) =
      .error Err.noBranch := by
    rw [mkPorts_key, update_key, keyStep_switch cfg _ hinv t k c r.held.key hsw, hsel]
  unfold evaluate
  rw [hks]
  exact ⟨rfl, rfl, rfl, rfl⟩

theorem evalActive_none (s : SW σ) (hs : s.activeSlot = none) (t : Nat) (ports : List Port) (ev : List Event) :
    evalActive s t ports ev = { sw := s, out := none, events := ev } := by
  unfold evalActive; rw [hs]

/-- (L4) Before the first key: nothing is emitted and nothing is stored. -/
theorem cycle_wait (cfg : Cfg σ) (r : Run σ) (t : Nat) (c : Cyc)
    (ht : Timing r t) (hn : r.sw.activeSlot = none) (hck : c.key = none) :
    (cycle cfg r t c).out = none ∧ (cycle cfg r t c).run.sw.activeSlot = none ∧
    Timing (cycle cfg r t c).run (t + 1) ∧ (cycle cfg r t c).run.held = r.held.update c := by
  have hkey : (r.held.update c).key = none := by rw [update_key, hck, ht.nokey hn]; rfl
  have hai : ∀ s : SW σ, s.activeSlot = none → ∀ j, s.activeInst ≠ some j := by
    intro s hs j hj; simp [SW.activeInst, hs] at hj
  by_cases hdue : (if c.anyTick = true then t else r.sw.nodeSlot) = t
  · rw [cycle_due cfg r t c ht.alive hdue]
    have hks : keyStep cfg { r.sw with nodeSlot := t } t ((mkPorts (r.held.update c) c).getD 0 Port.absent) =
        .ok ({ r.sw with nodeSlot := t }, []) := by
      rw [mkPorts_key, hkey]; rfl
    unfold evaluate
    rw [hks]
    have hn' : ({ r.sw with nodeSlot := t } : SW σ).activeSlot = none := hn
    simp only
    rw [evalActive_none _ hn']
    refine ⟨rfl, hn, ?_, by first | rfl | trivial⟩
    constructor
    · rfl
    · exact ht.inv.of_nodeSlot t
    · intro _; exact hkey
    · intro j hj; exact absurd hj (hai _ hn' j)
    · intro j hj; exact absurd hj (hai _ hn' j)
  · have hnt : c.anyTick = false := by
      cases h : c.anyTick with
      | false => rfl
      | true => rw [h] at hdue; simp at hdue
    rw [hnt] at hdue
    simp only [Bool.false_eq_true, if_false] at hdue
    rw [cycle_idle cfg r t c ht.alive hnt hdue]
    refine ⟨rfl, hn, ?_, rfl⟩
    constructor
    · rfl
    · exact ht.inv
    · intro _; exact hkey
    · intro j hj; exact absurd hj (hai _ hn j)
    · intro j hj; exact absurd hj (hai _ hn j)

/-- After a failed cycle nothing is emitted any more. -/
theorem runFrom_dead (cfg : Cfg σ) (r : Run σ) (hd : r.dead = true) (t : Nat) (cs : List Cyc) :
    (runFrom cfg r t cs).map (fun o => o.out) = List.replicate cs.length none ∧
    allEvents (runFrom cfg r t cs) = [] ∧ (finalRun cfg r t cs).dead = true := by
  induction cs generalizing t with
  | nil => exact ⟨rfl, rfl, hd⟩
  | cons c cs ih =>
    simp only [runFrom, finalRun, cycle_dead cfg r t c hd, List.map_cons, List.length_cons, List.replicate_succ,
      allEvents, List.flatMap_cons, List.nil_append]
    have := ih (t + 1)
    exact ⟨by rw [this.1], this.2.1, this.2.2⟩

/-! ## segments -/

theorem runFrom_append (cfg : Cfg σ) (r : Run σ) (t : Nat) (a b : List Cyc) :
    runFrom cfg r t (a ++ b) = runFrom cfg r t a ++ runFrom cfg (finalRun cfg r t a) (t + a.length) b := by
  induction a generalizing r t with
  | nil => rfl
  | cons c cs ih =>
    simp only [List.cons_append, runFrom, finalRun, List.length_cons, ih]
    have : t + 1 + cs.length = t + (cs.length + 1) := by omega
    rw [this]

theorem finalRun_append (cfg : Cfg σ) (r : Run σ) (t : Nat) (a b : List Cyc) :
    finalRun cfg r t (a ++ b) = finalRun cfg (finalRun cfg r t a) (t + a.length) b := by
  induction a generalizing r t with
  | nil => rfl
  | cons c cs ih =>
    simp only [List.cons_append, finalRun, List.length_cons, ih]
    have : t + 1 + cs.length = t + (cs.length + 1) := by omega
    rw [this]

/-- (S1) Over a stretch of cycles without a new selection the switch emits exactly the stream of its
    active child evaluated alone. -/
theorem run_segment (cfg : Cfg σ) (seg : List Cyc) (r : Run σ) (t : Nat) (k : Key) (ch : Child σ)
    (ht : Timing r t) (hact : ActiveIs r k ch) (hseg : ∀ c ∈ seg, switches cfg.reload (some k) c = none) :
    (runFrom cfg r t seg).map (fun o => o.out) = aloneFrom ch t (portsFrom r.held seg) ∧
    ActiveIs (finalRun cfg r t seg) k (aloneEnd ch t (portsFrom r.held seg)) ∧
    Timing (finalRun cfg r t seg) (t + seg.length) ∧
    (finalRun cfg r t seg).held = heldAfter r.held seg := by
  induction seg generalizing r t ch with
  | nil => exact ⟨rfl, hact, ht, rfl⟩
  | cons c cs ih =>
    have hc := cycle_noswitch cfg r t c k ch ht hact (hseg c (by simp))
    have := ih (cycle cfg r t c).run (t + 1) _ hc.2.2.1 hc.2.1 (fun c' hc' => hseg c' (by simp [hc']))
    simp only [runFrom, finalRun, List.map_cons, portsFrom, aloneFrom, aloneEnd, heldAfter, List.length_cons]
    rw [hc.2.2.2] at this
    have e : t + 1 + cs.length = t + (cs.length + 1) := by omega
    rw [e] at this
    exact ⟨by rw [hc.1, this.1], this.2.1, this.2.2.1, this.2.2.2⟩

/-- Split off the maximal prefix without a new selection (current key `k`). -/
def splitSeg (reload : Bool) (k : Key) : List Cyc → List Cyc × List Cyc
  | [] => ([], [])
  | c :: cs => if (switches reload (some k) c).isSome then ([], c :: cs)
               else ((c :: (splitSeg reload k cs).1), (splitSeg reload k cs).2)

theorem splitSeg_spec (reload : Bool) (k : Key) (cs : List Cyc) :
    cs = (splitSeg reload k cs).1 ++ (splitSeg reload k cs).2 ∧
    (∀ c ∈ (splitSeg reload k cs).1, switches reload (some k) c = none) ∧
    (∀ c' rest', (splitSeg reload k cs).2 = c' :: rest' → (switches reload (some k) c').isSome = true) ∧
    (splitSeg reload k cs).2.length ≤ cs.length := by
  induction cs with
  | nil => simp [splitSeg]
  | cons c cs ih =>
    unfold splitSeg
    by_cases h : (switches reload (some k) c).isSome = true
    · rw [if_pos h]
      refine ⟨rfl, by simp, ?_, by simp⟩
      intro c' rest' e
      injection e with e1 _
      rw [← e1]; exact h
    · rw [if_neg h]
      refine ⟨by simp only [List.cons_append]; rw [← ih.1], ?_, ih.2.2.1, by simp only [List.length_cons]; omega⟩
      intro c' hc'
      simp only [List.mem_cons] at hc'
      rcases hc' with rfl | hc'
      · cases hs : switches reload (some k) c' with
        | none => rfl
        | some _ => rw [hs] at h; simp at h
      · exact ih.2.1 c' hc'

/-- The whole run from a state in which either nothing is selected yet or the history starts with a
    selecting cycle is the concatenation of per-segment stand-alone runs. -/
theorem follows_gen (cfg : Cfg σ) (n : Nat) : ∀ (hist : List Cyc), hist.length ≤ n → ∀ (r : Run σ) (t : Nat), Timing r t →
    (r.sw.activeSlot = none ∨ hist = [] ∨
      ∃ c cs, hist = c :: cs ∧ (switches cfg.reload r.sw.activeKey c).isSome = true) →
    SegSpec cfg t r.held r.sw.activeKey hist ((runFrom cfg r t hist).map (fun o => o.out)) := by
  induction n with
  | zero =>
    intro hist hl r t _ _
    have : hist = [] := List.eq_nil_of_length_eq_zero (by omega)
    subst this
    exact SegSpec.nil _ _ _
  | succ n ih =>
    intro hist hl r t ht hstart
    cases hist with
    | nil => exact SegSpec.nil _ _ _
    | cons c cs =>
      have hlen : cs.length ≤ n := by simp only [List.length_cons] at hl; omega
      -- either a waiting cycle (nothing selected, no key tick) or a selecting one
      have hcase : (r.sw.activeSlot = none ∧ c.key = none) ∨ ∃ k, switches cfg.reload r.sw.activeKey c = some k := by
        rcases hstart with hn | hnil | ⟨c', cs', e, hs⟩
        · have hk : r.sw.activeKey = none := by
            have := ht.inv.key_iff
            rw [hn] at this
            cases h : r.sw.activeKey with
            | none => rfl
            | some _ => rw [h] at this; cases this
          cases hck : c.key with
          | none => exact Or.inl ⟨hn, rfl⟩
          | some k => exact Or.inr ⟨k, by simp [switches, hck, hk]⟩
        · cases hnil
        · injection e with e1 _
          subst e1
          exact Or.inr (Option.isSome_iff_exists.mp hs)
      rcases hcase with ⟨hn, hck⟩ | ⟨k, hsw⟩
      · -- wait
        have hk : r.sw.activeKey = none := by
          have := ht.inv.key_iff
          rw [hn] at this
          cases h : r.sw.activeKey with
          | none => rfl
          | some _ => rw [h] at this; cases this
        have hw := cycle_wait cfg r t c ht hn hck
        have hk' : (cycle cfg r t c).run.sw.activeKey = none := by
          have := hw.2.2.1.inv.key_iff
          rw [hw.2.1] at this
          cases h : (cycle cfg r t c).run.sw.activeKey with
          | none => rfl
          | some _ => rw [h] at this; cases this
        have := ih cs hlen (cycle cfg r t c).run (t + 1) hw.2.2.1 (Or.inl hw.2.1)
        rw [hw.2.2.2, hk'] at this
        simp only [runFrom, List.map_cons, hw.1, hk]
        exact SegSpec.wait t r.held c cs _ hck this
      · cases hsel : selectBranch cfg k with
        | none =>
          -- fail
          have hf := cycle_fail cfg r t c k ht hsw hsel
          have hd := runFrom_dead cfg (cycle cfg r t c).run hf.2.1 (t + 1) cs
          simp only [runFrom, List.map_cons, hf.1, hd.1]
          exact SegSpec.fail t r.held _ c k cs hsw hsel
        | some b =>
          have hs := cycle_switch cfg r t c k b ht hsw hsel
          have hsp := splitSeg_spec cfg.reload k cs
          generalize hseg : (splitSeg cfg.reload k cs).1 = seg at hsp
          generalize hrest : (splitSeg cfg.reload k cs).2 = rest at hsp
          obtain ⟨hcs, hnone, hmax, hrl⟩ := hsp
          have h1 := run_segment cfg seg (cycle cfg r t c).run (t + 1) k _ hs.2.2.1 hs.2.1 hnone
          rw [hs.2.2.2] at h1
          obtain ⟨i2, hi2, _, hk2⟩ := h1.2.1
          have hrest' : rest.length ≤ n := by omega
          have hstart2 : (finalRun cfg (cycle cfg r t c).run (t + 1) seg).sw.activeSlot = none ∨ rest = [] ∨
              ∃ c' cs', rest = c' :: cs' ∧
                (switches cfg.reload (finalRun cfg (cycle cfg r t c).run (t + 1) seg).sw.activeKey c').isSome = true := by
            cases hr : rest with
            | nil => exact Or.inr (Or.inl rfl)
            | cons c' cs' => exact Or.inr (Or.inr ⟨c', cs', rfl, by rw [hk2]; exact hmax c' cs' hr⟩)
          have h2 := ih rest hrest' _ (t + 1 + seg.length) h1.2.2.1 hstart2
          rw [h1.2.2.2, hk2] at h2
          have hout : (runFrom cfg r t (c :: cs)).map (fun o => o.out) =
              runAlone b t (portsFrom r.held (c :: seg)) ++
                (runFrom cfg (finalRun cfg (cycle cfg r t c).run (t + 1) seg) (t + 1 + seg.length) rest).map (fun o => o.out) := by
            rw [hcs]
            simp only [runFrom, List.map_cons, runFrom_append, List.map_append, runAlone, portsFrom, aloneFrom,
              List.cons_append, hs.1, h1.1]
          rw [hout, hcs]
          exact SegSpec.seg t r.held _ c k b seg rest _ hsw hsel hnone hmax h2

/-- The maximal non-selecting prefix is unique. -/
theorem maxSplit_unique (p : Cyc → Bool) (a b a' b' : List Cyc) (e : a ++ b = a' ++ b')
    (ha : ∀ c ∈ a, p c = false) (ha' : ∀ c ∈ a', p c = false)
    (hb : ∀ c r, b = c :: r → p c = true) (hb' : ∀ c r, b' = c :: r → p c = true) : a = a' ∧ b = b' := by
  induction a generalizing a' with
  | nil =>
    cases a' with
    | nil => exact ⟨rfl, e⟩
    | cons c' cs' =>
      simp only [List.nil_append, List.cons_append] at e
      have h1 := hb c' (cs' ++ b') e
      have h2 := ha' c' (by simp)
      rw [h1] at h2; cases h2
  | cons c cs ih =>
    cases a' with
    | nil =>
      simp only [List.nil_append, List.cons_append] at e
      have h1 := hb' c (cs ++ b) e.symm
      have h2 := ha c (by simp)
      rw [h1] at h2; cases h2
    | cons c' cs' =>
      simp only [List.cons_append, List.cons.injEq] at e
      have := ih cs' e.2 (fun x hx => ha x (by simp [hx])) (fun x hx => ha' x (by simp [hx]))
      exact ⟨by rw [e.1, this.1], this.2⟩

/-- `SegSpec` determines the output stream. -/
theorem SegSpec.unique {cfg : Cfg σ} {t : Nat} {h : Held} {cur : Option Key} {hist : List Cyc} {o1 o2 : List (Option Val)}
    (s1 : SegSpec cfg t h cur hist o1) (s2 : SegSpec cfg t h cur hist o2) : o1 = o2 := by
  induction s1 generalizing o2 with
  | nil t h cur => cases s2; rfl
  | wait t h c cs outs hck _ ih =>
    cases s2 with
    | wait _ _ _ _ outs2 _ s2' => rw [ih s2']
    | seg _ _ _ _ k b seg rest outs2 hsw => simp [switches, hck] at hsw
    | fail _ _ _ _ k _ hsw => simp [switches, hck] at hsw
  | seg t h cur c k b seg rest outs hsw hsel hnone hmax _ ih =>
    generalize hl : c :: (seg ++ rest) = l at s2
    cases s2 with
    | nil => cases hl
    | wait _ _ c2 cs2 outs2 hck2 _ =>
      injection hl with e1 _
      subst e1
      simp [switches, hck2] at hsw
    | seg _ _ _ c2 k2 b2 seg2 rest2 outs2 hsw2 hsel2 hnone2 hmax2 s2' =>
      injection hl with e1 e2
      subst e1
      rw [hsw] at hsw2
      injection hsw2 with hk
      subst hk
      rw [hsel] at hsel2
      injection hsel2 with hb
      subst hb
      have hu := maxSplit_unique (fun c => (switches cfg.reload (some k) c).isSome) seg rest seg2 rest2 e2
        (fun c hc => by simp [hnone c hc]) (fun c hc => by simp [hnone2 c hc]) hmax hmax2
      obtain ⟨hs, hr⟩ := hu
      subst hs
      subst hr
      rw [ih s2']
    | fail _ _ _ c2 k2 cs2 hsw2 hsel2 =>
      injection hl with e1 _
      subst e1
      rw [hsw] at hsw2
      injection hsw2 with hk
      subst hk
      rw [hsel] at hsel2
      cases hsel2
  | fail t h cur c k cs hsw hsel =>
    generalize hl : c :: cs = l at s2
    cases s2 with
    | nil => cases hl
    | wait _ _ c2 cs2 outs2 hck2 _ =>
      injection hl with e1 _
      subst e1
      simp [switches, hck2] at hsw
    | seg _ _ _ c2 k2 b2 seg2 rest2 outs2 hsw2 hsel2 =>
      injection hl with e1 _
      subst e1
      rw [hsw] at hsw2
      injection hsw2 with hk
      subst hk
      rw [hsel] at hsel2
      cases hsel2
    | fail _ _ _ c2 k2 cs2 _ _ =>
      injection hl with _ e2
      subst e2
      rfl

/-! ## reachability of the invariants -/

/-- Every cycle either fails (unmatched key) or re-establishes `Timing` for the next cycle. -/
theorem cycle_timing (cfg : Cfg σ) (r : Run σ) (t : Nat) (c : Cyc) (ht : Timing r t) :
    ((cycle cfg r t c).run.dead = true ∧ (cycle cfg r t c).err = some Err.noBranch ∧
        ∃ k, switches cfg.reload r.sw.activeKey c = some k ∧ selectBranch cfg k = none) ∨
    (Timing (cycle cfg r t c).run (t + 1) ∧ (cycle cfg r t c).err = none) := by
  have herr : (cycle cfg r t c).run.dead = false → (cycle cfg r t c).err = none := by
    unfold cycle
    rw [if_neg (by simp [ht.alive])]
    simp only
    generalize (if c.anyTick = true then schedNode r.sw.nodeSlot t t else r.sw.nodeSlot) = slot1
    by_cases hdue : (slot1 == t) = true
    · rw [if_pos hdue]
      cases evaluate cfg { r.sw with nodeSlot := slot1 } t (mkPorts (r.held.update c) c) with
      | error e => intro hd; cases hd
      | ok o => intro _; rfl
    · rw [if_neg hdue]; intro _; rfl
  cases hsw : switches cfg.reload r.sw.activeKey c with
  | some k =>
    cases hsel : selectBranch cfg k with
    | none =>
      have := cycle_fail cfg r t c k ht hsw hsel
      exact Or.inl ⟨this.2.1, this.2.2.1, k, rfl, hsel⟩
    | some b =>
      have := cycle_switch cfg r t c k b ht hsw hsel
      exact Or.inr ⟨this.2.2.1, herr this.2.2.1.alive⟩
  | none =>
    cases ha : r.sw.activeSlot with
    | none =>
      have hk : r.sw.activeKey = none := by
        have := ht.inv.key_iff
        rw [ha] at this
        cases h : r.sw.activeKey with
        | none => rfl
        | some _ => rw [h] at this; cases this
      have hck : c.key = none := by
        cases hc : c.key with
        | none => rfl
        | some k => simp [switches, hc, hk] at hsw
      have := cycle_wait cfg r t c ht ha hck
      exact Or.inr ⟨this.2.2.1, herr this.2.2.1.alive⟩
    | some a =>
      obtain ⟨i, hi⟩ := Option.isSome_iff_exists.mp (ht.inv.active_some a ha)
      have hkey : ∃ k, r.sw.activeKey = some k := by
        have := ht.inv.key_iff
        rw [ha] at this
        exact Option.isSome_iff_exists.mp this.symm
      obtain ⟨k, hk⟩ := hkey
      rw [hk] at hsw
      have hact : ActiveIs r k i.child := ⟨i, (activeInst_iff _ _).mpr ⟨a, ha, hi⟩, rfl, hk⟩
      have := cycle_noswitch cfg r t c k i.child ht hact hsw
      exact Or.inr ⟨this.2.2.1, herr this.2.2.1.alive⟩

/-- Every state a run reaches without failing satisfies `Timing`. -/
theorem timing_reachable (cfg : Cfg σ) (cs : List Cyc) (r : Run σ) (t : Nat) (ht : Timing r t)
    (hal : (finalRun cfg r t cs).dead = false) : Timing (finalRun cfg r t cs) (t + cs.length) := by
  induction cs generalizing r t with
  | nil => exact ht
  | cons c cs ih =>
    simp only [finalRun, List.length_cons] at hal ⊢
    rcases cycle_timing cfg r t c ht with hd | hok
    · have := (runFrom_dead cfg _ hd.1 (t + 1) cs).2.2
      rw [this] at hal; cases hal
    · have := ih _ (t + 1) hok.1 hal
      have e : t + 1 + cs.length = t + (cs.length + 1) := by omega
      rw [e] at this
      exact this

/-- The only error a run can raise is the unmatched key. -/
theorem runFrom_err (cfg : Cfg σ) (cs : List Cyc) (r : Run σ) (h : Inv r.sw) (t : Nat) :
    ∀ o ∈ runFrom cfg r t cs, o.err = none ∨ o.err = some Err.noBranch := by
  induction cs generalizing r t with
  | nil => intro o ho; cases ho
  | cons c cs ih =>
    intro o ho
    simp only [runFrom, List.mem_cons] at ho
    have hc := cycle_spec cfg r h t c
    rcases ho with rfl | ho
    · exact hc.2.2
    · exact ih _ hc.1 (t + 1) o ho

/-- Stopping the graph and disposing of the node storage completes every lifecycle. -/
theorem shutdown_life (s : SW σ) (h : Inv s) : lifeRun (absLife s) (shutdown s) = some {} := by
  cases ha : s.activeSlot with
  | none =>
    have hg := h.none_empty ha
    simp [shutdown, teardown, ha, hg.1, hg.2, absLife, instSt, lifeRun]
  | some a =>
    obtain ⟨i, hi⟩ := Option.isSome_iff_exists.mp (h.active_some a ha)
    have hrun : i.running = true := (h.running_iff a i hi).mpr ha
    have hother : ∀ j, s.graph (!a) = some j → j.running = false := by
      intro j hj
      cases hr : j.running with
      | false => rfl
      | true =>
        have := (h.running_iff (!a) j hj).mp hr
        rw [ha] at this
        cases a <;> simp at this
    cases a with
    | false =>
      simp only [SW.graph, Bool.not_false, Bool.false_eq_true, if_false, if_true] at hi hother
      cases hg1 : s.g1 with
      | none => simp [shutdown, teardown, ha, SW.graph, hi, hg1, absLife, instSt, hrun, lifeRun, lifeStep, Life.get, Life.set]
      | some j =>
        have := hother j hg1
        simp [shutdown, teardown, ha, SW.graph, hi, hg1, absLife, instSt, hrun, this, lifeRun, lifeStep, Life.get, Life.set]
    | true =>
      simp only [SW.graph, Bool.not_true, Bool.false_eq_true, if_false, if_true] at hi hother
      cases hg0 : s.g0 with
      | none => simp [shutdown, teardown, ha, SW.graph, hi, hg0, absLife, instSt, hrun, lifeRun, lifeStep, Life.get, Life.set]
      | some j =>
        have := hother j hg0
        simp [shutdown, teardown, ha, SW.graph, hi, hg0, absLife, instSt, hrun, this, lifeRun, lifeStep, Life.get, Life.set]

end HgVerif.Switch
