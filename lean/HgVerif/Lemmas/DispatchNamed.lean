import HgVerif.Lemmas.Dispatch
/-!
Positions of a whole-time-series variable, for C19's "every type variable is bound to ONE type across
all positions" once bundles are nominal (a bundle type = name + field list).

* `varSites n p c`       : the (REF-stripped) argument sub-schemas that the occurrences of `~n` in the
                           pattern `p` are confronted with while `p` is read against the schema `c`
                           (the same walk as `input_ts_pattern_match`: REF transparency, `TSL` element,
                           `TSD` value, bundle fields in order); `varSitesArgs` does it per argument.
* `inst_varSites`        : if `p` accepts `c` under `m` (either reading), `m` binds `~n` to EXACTLY every
                           one of those sub-schemas - the same name and the same fields for a bundle.
* `noSchemaVar`          : the pattern has no `TSB[~S]`; there the code's reading `inst` and the strict
                           reading `instX` coincide.
-/
namespace HgVerif.Dispatch

mutual
def varSites (n : Name) (p : TP) (c : CT) : List CT :=
  match p with
  | .var v _ => if v = n then [stripRefs c] else []
  | .ref t => varSites n t (stripOne c)
  | .tsl e _ =>
    match stripRefs c with
    | .tsl ce _ => varSites n e ce
    | _ => []
  | .tsd _ v =>
    match stripRefs c with
    | .tsd _ cv => varSites n v cv
    | _ => []
  | .tsb _ fs =>
    match stripRefs c with
    | .tsb _ cfs => varSitesFields n fs cfs
    | _ => []
  | .conc _ => []
  | .ts _ => []
  | .tss _ => []
  | .tsw _ _ => []
  | .tsbVar _ => []
  | .signal => []
def varSitesFields (n : Name) (fs : PFields) (cfs : CFields) : List CT :=
  match fs, cfs with
  | .cons _ p rest, .cons _ c crest => varSites n p c ++ varSitesFields n rest crest
  | .nil, _ => []
  | .cons _ _ _, .nil => []
end

def varSitesArgs (n : Name) : List Param → List Arg → List CT
  | .input p :: ps, .ts c :: as => varSites n p c ++ varSitesArgs n ps as
  | .input _ :: ps, .sc _ :: as => varSitesArgs n ps as
  | .scalar _ :: ps, _ :: as => varSitesArgs n ps as
  | [], _ => []
  | _ :: _, [] => []

mutual
theorem inst_varSites {x : Bool} {m : RMap} {n : Name} : ∀ (p : TP) (c : CT), instG x p m c = true →
    ∀ d ∈ varSites n p c, m.findTs n = some d
  | .var v cs, c, hi, d, hd => by
    simp only [instG, Bool.and_eq_true, decide_eq_true_eq] at hi
    simp only [varSites] at hd
    split at hd
    · rename_i hv
      subst hv
      simp only [List.mem_singleton] at hd
      subst hd
      exact hi.1
    · cases hd
  | .ref t, c, hi, d, hd => by
    simp only [instG] at hi
    simp only [varSites] at hd
    exact inst_varSites t _ hi d hd
  | .tsl e sz, c, hi, d, hd => by
    simp only [instG] at hi
    simp only [varSites] at hd
    split at hi
    · rename_i ce k hc
      rw [hc] at hd
      simp only [Bool.and_eq_true] at hi
      exact inst_varSites e ce hi.2 d hd
    · cases hi
  | .tsd k v, c, hi, d, hd => by
    simp only [instG] at hi
    simp only [varSites] at hd
    split at hi
    · rename_i ck cv hc
      rw [hc] at hd
      simp only [Bool.and_eq_true] at hi
      exact inst_varSites v cv hi.2 d hd
    · cases hi
  | .tsb pn fs, c, hi, d, hd => by
    simp only [instG] at hi
    simp only [varSites] at hd
    split at hi
    · rename_i cn cfs hc
      rw [hc] at hd
      simp only [Bool.and_eq_true] at hi
      exact instFields_varSites fs cfs hi.2 d hd
    · cases hi
  | .conc _, _, _, d, hd => by simp [varSites] at hd
  | .ts _, _, _, d, hd => by simp [varSites] at hd
  | .tss _, _, _, d, hd => by simp [varSites] at hd
  | .tsw _ _, _, _, d, hd => by simp [varSites] at hd
  | .tsbVar _, _, _, d, hd => by simp [varSites] at hd
  | .signal, _, _, d, hd => by simp [varSites] at hd
theorem instFields_varSites {x : Bool} {m : RMap} {n : Name} : ∀ (fs : PFields) (cfs : CFields),
    instFieldsG x fs m cfs = true → ∀ d ∈ varSitesFields n fs cfs, m.findTs n = some d
  | .cons f p rest, .cons g c crest, hi, d, hd => by
    simp only [instFieldsG, Bool.and_eq_true, decide_eq_true_eq] at hi
    simp only [varSitesFields, List.mem_append] at hd
    rcases hd with hd | hd
    · exact inst_varSites p c hi.1.2 d hd
    · exact instFields_varSites rest crest hi.2 d hd
  | .nil, _, _, d, hd => by simp [varSitesFields] at hd
  | .cons _ _ _, .nil, _, d, hd => by simp [varSitesFields] at hd
end

theorem instArgs_varSites {x : Bool} {m : RMap} {n : Name} : ∀ (ps : List Param) (as : List Arg),
    instArgsG x ps as m = true → ∀ d ∈ varSitesArgs n ps as, m.findTs n = some d
  | .input p :: ps, .ts c :: as, hi, d, hd => by
    simp only [instArgsG, instParamG, Bool.and_eq_true] at hi
    simp only [varSitesArgs, List.mem_append] at hd
    rcases hd with hd | hd
    · exact inst_varSites p c hi.1 d hd
    · exact instArgs_varSites ps as hi.2 d hd
  | .input _ :: ps, .sc _ :: as, hi, d, hd => by simp [instArgsG, instParamG] at hi
  | .scalar _ :: ps, a :: as, hi, d, hd => by
    simp only [instArgsG, Bool.and_eq_true] at hi
    simp only [varSitesArgs] at hd
    exact instArgs_varSites ps as hi.2 d hd
  | [], _, _, d, hd => by simp [varSitesArgs] at hd
  | _ :: _, [], _, d, hd => by simp [varSitesArgs] at hd

/-! ## patterns without a schema variable: the two readings coincide -/

mutual
def noSchemaVar : TP → Bool
  | .tsbVar _ => false
  | .ref t => noSchemaVar t
  | .tsl e _ => noSchemaVar e
  | .tsd _ v => noSchemaVar v
  | .tsb _ fs => noSchemaVarFields fs
  | .var _ _ => true
  | .conc _ => true
  | .ts _ => true
  | .tss _ => true
  | .tsw _ _ => true
  | .signal => true
def noSchemaVarFields : PFields → Bool
  | .nil => true
  | .cons _ p rest => noSchemaVar p && noSchemaVarFields rest
end

mutual
theorem instG_flag_irrelevant {x y : Bool} {m : RMap} : ∀ (p : TP) (c : CT), noSchemaVar p = true →
    instG x p m c = instG y p m c
  | .tsbVar _, _, h => by simp [noSchemaVar] at h
  | .ref t, c, h => by
    simp only [noSchemaVar] at h
    simp only [instG]
    exact instG_flag_irrelevant t _ h
  | .tsl e sz, c, h => by
    simp only [noSchemaVar] at h
    simp only [instG]
    split
    · rw [instG_flag_irrelevant e _ h]
    · rfl
  | .tsd k v, c, h => by
    simp only [noSchemaVar] at h
    simp only [instG]
    split
    · rw [instG_flag_irrelevant v _ h]
    · rfl
  | .tsb pn fs, c, h => by
    simp only [noSchemaVar] at h
    simp only [instG]
    split
    · rw [instFieldsG_flag_irrelevant fs _ h]
    · rfl
  | .var _ _, _, _ => by simp [instG]
  | .conc _, _, _ => by simp [instG]
  | .ts _, _, _ => by simp [instG]
  | .tss _, _, _ => by simp [instG]
  | .tsw _ _, _, _ => by simp [instG]
  | .signal, _, _ => by simp [instG]
theorem instFieldsG_flag_irrelevant {x y : Bool} {m : RMap} : ∀ (fs : PFields) (cfs : CFields),
    noSchemaVarFields fs = true → instFieldsG x fs m cfs = instFieldsG y fs m cfs
  | .cons f p rest, .cons g c crest, h => by
    simp only [noSchemaVarFields, Bool.and_eq_true] at h
    simp only [instFieldsG]
    rw [instG_flag_irrelevant p c h.1, instFieldsG_flag_irrelevant rest crest h.2]
  | .nil, .nil, _ => by simp [instFieldsG]
  | .nil, .cons _ _ _, _ => by simp [instFieldsG]
  | .cons _ _ _, .nil, _ => by simp [instFieldsG]
end

mutual
/-- the strict reading implies the code's reading -/
theorem instX_inst {m : RMap} : ∀ (p : TP) (c : CT), instG true p m c = true → instG false p m c = true
  | .tsbVar n, c, h => by
    simp only [instG] at h ⊢
    split at h
    · split at h
      · exact svOk_weaken h
      · cases h
    · cases h
  | .ref t, c, h => by
    simp only [instG] at h ⊢
    exact instX_inst t _ h
  | .tsl e sz, c, h => by
    simp only [instG] at h ⊢
    split at h
    · simp only [Bool.and_eq_true] at h ⊢
      exact ⟨h.1, instX_inst e _ h.2⟩
    · cases h
  | .tsd k v, c, h => by
    simp only [instG] at h ⊢
    split at h
    · simp only [Bool.and_eq_true] at h ⊢
      exact ⟨h.1, instX_inst v _ h.2⟩
    · cases h
  | .tsb pn fs, c, h => by
    simp only [instG] at h ⊢
    split at h
    · simp only [Bool.and_eq_true] at h ⊢
      exact ⟨h.1, instFieldsX_inst fs _ h.2⟩
    · cases h
  | .var _ _, _, h => by simpa [instG] using h
  | .conc _, _, h => by simpa [instG] using h
  | .ts _, _, h => by simpa [instG] using h
  | .tss _, _, h => by simpa [instG] using h
  | .tsw _ _, _, h => by simpa [instG] using h
  | .signal, _, _ => by simp [instG]
theorem instFieldsX_inst {m : RMap} : ∀ (fs : PFields) (cfs : CFields),
    instFieldsG true fs m cfs = true → instFieldsG false fs m cfs = true
  | .cons f p rest, .cons g c crest, h => by
    simp only [instFieldsG, Bool.and_eq_true, decide_eq_true_eq] at h ⊢
    exact ⟨⟨h.1.1, instX_inst p c h.1.2⟩, instFieldsX_inst rest crest h.2⟩
  | .nil, .nil, _ => by simp [instFieldsG]
  | .nil, .cons _ _ _, h => by simp [instFieldsG] at h
  | .cons _ _ _, .nil, h => by simp [instFieldsG] at h
end

end HgVerif.Dispatch
