import HgVerif.Lemmas.NestFlowBlock
/-! One evaluation of an ORDINARY node of a graph that holds a nested node, against the evaluation of the same
node in the inlined program (composed rank): same user code on the same state, same logs, and every node — of this
graph or of any deeper one — is left with the same slot. -/
namespace HgVerif.NestFlow
open HgVerif.Sched HgVerif.Flow

variable {S : Type}

/-- the evaluation of an ordinary node of a graph with a nested node -/
theorem node_outer_eval (F : Flow S) (fx : Bool) (hi lo : Nat) (rk : Rk) (ch : Tree) (q : Nat) (t : Time) (u : CSt S)
    (hqk : q ≠ rk.posOf (hi - lo)) :
    (behT F fx (.node hi rk ch) lo).eval q t u =
      { st := { σ := upd u.σ (lo + rk.node q) (F.f (lo + rk.node q) u.σ t).1,
                gs := (((consW F (lo + rk.node q) u.σ t).filter (fun c => decide (hi ≤ c))).foldl
                        (fun x c => pushT ch hi t x c t) (sub u.gs)).1 ::
                      (((consW F (lo + rk.node q) u.σ t).filter (fun c => decide (hi ≤ c))).foldl
                        (fun x c => pushT ch hi t x c t) (sub u.gs)).2,
                up := u.up ++ (consW F (lo + rk.node q) u.σ t).filter (fun c => decide (c < lo)),
                fl := u.fl ++ [lo + rk.node q],
                wl := if (F.f (lo + rk.node q) u.σ t).2 then (lo + rk.node q) :: u.wl else u.wl },
        reqs := ((consW F (lo + rk.node q) u.σ t).filter (fun c => decide (lo ≤ c ∧ c < hi))).map
                  (fun c => (⟨rk.posOf (c - lo), t⟩ : Req)) ++
                ((consW F (lo + rk.node q) u.σ t).filter (fun c => decide (hi ≤ c))).map
                  (fun _ => (⟨rk.posOf (hi - lo), max t t⟩ : Req)) ++
                (F.selfReq (lo + rk.node q) (F.f (lo + rk.node q) u.σ t).1 t).map (fun T => (⟨q, T⟩ : Req)),
        ok := true } := by
  show (if q = rk.posOf (hi - lo) then _ else _) = _
  rw [if_neg hqk]
  rfl

/-- the evaluation of the nested node -/
theorem node_nested_eval (F : Flow S) (fx : Bool) (hi lo : Nat) (rk : Rk) (ch : Tree) (t : Time) (u : CSt S) :
    (behT F fx (.node hi rk ch) lo).eval (rk.posOf (hi - lo)) t u =
      { st := { (cycle fx (behT F fx ch hi) (ch.size F.n hi) t (sub u.gs).1 { u with gs := (sub u.gs).2, up := [] }).st with
                gs := (cycle fx (behT F fx ch hi) (ch.size F.n hi) t (sub u.gs).1 { u with gs := (sub u.gs).2, up := [] }).g ::
                      (cycle fx (behT F fx ch hi) (ch.size F.n hi) t (sub u.gs).1 { u with gs := (sub u.gs).2, up := [] }).st.gs,
                up := u.up ++ (cycle fx (behT F fx ch hi) (ch.size F.n hi) t (sub u.gs).1
                        { u with gs := (sub u.gs).2, up := [] }).st.up.filter (fun c => decide (c < lo)) },
        reqs := ((cycle fx (behT F fx ch hi) (ch.size F.n hi) t (sub u.gs).1
                    { u with gs := (sub u.gs).2, up := [] }).st.up.filter (fun c => decide (lo ≤ c))).map
                  (fun c => (⟨rk.posOf (c - lo), t⟩ : Req)) ++
                propagate (rk.posOf (hi - lo))
                  (cycle fx (behT F fx ch hi) (ch.size F.n hi) t (sub u.gs).1 { u with gs := (sub u.gs).2, up := [] }).g.next
                  (cycle fx (behT F fx ch hi) (ch.size F.n hi) t (sub u.gs).1 { u with gs := (sub u.gs).2, up := [] }).ok,
        ok := (cycle fx (behT F fx ch hi) (ch.size F.n hi) t (sub u.gs).1 { u with gs := (sub u.gs).2, up := [] }).ok } := by
  show (if rk.posOf (hi - lo) = rk.posOf (hi - lo) then _ else _) = _
  rw [if_pos rfl]

/-- nested scan (`gp`, `u`) against the inlined scan (`gI`, `uf`) -/
structure Com (F : Flow S) (hi lo : Nat) (rk : Rk) (ch : Tree) (t : Time) (gp : G) (u : CSt S) (gI : G) (uf : CSt S) : Prop where
  nowp : gp.now = t
  nowI : gI.now = t
  lenp : gp.slots.length = hi - lo + 1
  lenI : gI.slots.length = F.n - lo
  σ : u.σ = uf.σ
  up : u.up = uf.up
  fl : u.fl = uf.fl
  wl : u.wl = uf.wl
  view : ViewEq F.n (.node hi rk ch) lo (gp, u.gs) gI

theorem Com.cursor {F : Flow S} {hi lo : Nat} {rk : Rk} {ch : Tree} {t : Time} {gp : G} {u : CSt S} {gI : G} {uf : CSt S}
    (h : Com F hi lo rk ch t gp u gI uf) (a b : Nat) (na nb : Option Time) :
    Com F hi lo rk ch t { gp with next := na, cursor := a } u { gI with next := nb, cursor := b } uf :=
  ⟨h.nowp, h.nowI, h.lenp, h.lenI, h.σ, h.up, h.fl, h.wl, h.view⟩

theorem viewT_node (hi lo : Nat) (rk : Rk) (ch : Tree) (g : G) (gs : List G) (i : Nat) :
    viewT (.node hi rk ch) lo (g, gs) i = if i < hi then slotOf g (rk.posOf (i - lo)) else viewT ch hi (sub gs) i := rfl

theorem outer_step (F : Flow S) (fx : Bool) (hi lo : Nat) (rk : Rk) (ch : Tree)
    (hwf : Tree.WF F.n (.node hi rk ch) lo) (hT : TopoT F (.node hi rk ch) lo) (hS : SelfFuture F) (t : Time)
    (q : Nat) (hq : q < hi - lo + 1) (hqk : q ≠ rk.posOf (hi - lo))
    (gp : G) (u : CSt S) (gI : G) (uf : CSt S) (hC : Com F hi lo rk ch t gp u gI uf) (hs : slotOf gp q = t)
    (hci : CInv t q gp)
    (hd : (consW F (lo + rk.node q) u.σ t).filter (fun c => decide (hi ≤ c)) = [] ∨ W F.n t ch hi (sub u.gs)) :
    Com F hi lo rk ch t
      (((behT F fx (.node hi rk ch) lo).eval q t u).reqs.foldl scheduleNode { gp with cursor := q })
      ((behT F fx (.node hi rk ch) lo).eval q t u).st
      (((behT F fx (.leaf (flatRk F.n (.node hi rk ch) lo)) lo).eval ((flatRk F.n (.node hi rk ch) lo).posOf (rk.node q)) t uf).reqs.foldl
        scheduleNode { gI with cursor := (flatRk F.n (.node hi rk ch) lo).posOf (rk.node q) })
      ((behT F fx (.leaf (flatRk F.n (.node hi rk ch) lo)) lo).eval ((flatRk F.n (.node hi rk ch) lo).posOf (rk.node q)) t uf).st ∧
    CInv t (q + 1) (((behT F fx (.node hi rk ch) lo).eval q t u).reqs.foldl scheduleNode { gp with cursor := q }) ∧
    ((consW F (lo + rk.node q) u.σ t).filter (fun c => decide (hi ≤ c)) = [] →
      sub ((behT F fx (.node hi rk ch) lo).eval q t u).st.gs = sub u.gs ∧
      slotOf (((behT F fx (.node hi rk ch) lo).eval q t u).reqs.foldl scheduleNode { gp with cursor := q }) (rk.posOf (hi - lo)) =
        slotOf gp (rk.posOf (hi - lo))) ∧
    ((consW F (lo + rk.node q) u.σ t).filter (fun c => decide (hi ≤ c)) ≠ [] →
      slotOf (((behT F fx (.node hi rk ch) lo).eval q t u).reqs.foldl scheduleNode { gp with cursor := q }) (rk.posOf (hi - lo)) = t ∧
      q < rk.posOf (hi - lo)) ∧
    (W F.n t ch hi (sub u.gs) → W F.n t ch hi (sub ((behT F fx (.node hi rk ch) lo).eval q t u).st.gs)) := by
  have hwf' := hwf
  obtain ⟨hlo, hhi, hrk, hch⟩ := hwf
  obtain ⟨hk, hout, hnode⟩ := level_facts hrk
  have hst := flatRk_ok F.n (.node hi rk ch) lo hwf'
  have hnq := hnode q hq hqk
  have hposq : rk.posOf (lo + rk.node q - lo) = q := by rw [Nat.add_sub_cancel_left]; exact (hrk.1 q hq).1
  have hid : lo + (flatRk F.n (.node hi rk ch) lo).node ((flatRk F.n (.node hi rk ch) lo).posOf (rk.node q)) = lo + rk.node q := by
    rw [(hst.2 (rk.node q) (by omega)).1]
  have hposF : (flatRk F.n (.node hi rk ch) lo).posOf (lo + rk.node q - lo) = (flatRk F.n (.node hi rk ch) lo).posOf (rk.node q) := by
    rw [Nat.add_sub_cancel_left]
  have hin : lo + rk.node q < F.n := by omega
  -- the slot of the node on the inlined side
  have hsF : slotOf gI ((flatRk F.n (.node hi rk ch) lo).posOf (rk.node q)) = t := by
    have := hC.view (lo + rk.node q) (by omega) hin
    rw [viewT_node, if_pos (by omega), hposq, hposF] at this
    rw [← this]; exact hs
  -- the pushes into the child
  have hP : (∀ j, hi ≤ j → j < F.n →
        viewT ch hi (((consW F (lo + rk.node q) u.σ t).filter (fun c => decide (hi ≤ c))).foldl
          (fun x c => pushT ch hi t x c t) (sub u.gs)) j =
          if j ∈ (consW F (lo + rk.node q) u.σ t).filter (fun c => decide (hi ≤ c)) then t else viewT ch hi (sub u.gs) j) ∧
      (W F.n t ch hi (sub u.gs) → W F.n t ch hi (((consW F (lo + rk.node q) u.σ t).filter (fun c => decide (hi ≤ c))).foldl
          (fun x c => pushT ch hi t x c t) (sub u.gs))) := by
    rcases hd with hd | hd
    · rw [hd]; exact ⟨fun j _ _ => by simp, fun h => h⟩
    · have := pushT_list F.n ch hi hch t t (Nat.le_refl _) ((consW F (lo + rk.node q) u.σ t).filter (fun c => decide (hi ≤ c)))
        (sub u.gs) hd (by
          intro c hc
          obtain ⟨h1, h2⟩ := List.mem_filter.mp hc
          simp only [decide_eq_true_eq] at h2
          exact ⟨h2, (mem_consW F _ _ _ c h1).1⟩)
      exact ⟨this.2.1, fun _ => this.1⟩
  -- both evaluations over the same node and state
  have eF_r := leaf_reqs F fx (flatRk F.n (.node hi rk ch) lo) lo ((flatRk F.n (.node hi rk ch) lo).posOf (rk.node q)) t uf
  have eF_s := leaf_st F fx (flatRk F.n (.node hi rk ch) lo) lo ((flatRk F.n (.node hi rk ch) lo).posOf (rk.node q)) t uf
  rw [hid, ← hC.σ] at eF_r eF_s
  rw [eF_r, eF_s, node_outer_eval F fx hi lo rk ch q t u hqk]
  have hLN : ∀ c ∈ (consW F (lo + rk.node q) u.σ t).filter (fun c => decide (lo ≤ c ∧ c < hi)), lo ≤ c ∧ c < hi := by
    intro c hc
    obtain ⟨h1, h2⟩ := List.mem_filter.mp hc
    simpa using h2
  have hLF : ∀ c ∈ (consW F (lo + rk.node q) u.σ t).filter (fun c => decide (lo ≤ c)), lo ≤ c ∧ c < F.n := by
    intro c hc
    obtain ⟨h1, h2⟩ := List.mem_filter.mp hc
    simp only [decide_eq_true_eq] at h2
    exact ⟨h2, (mem_consW F _ _ _ c h1).1⟩
  have vN := notify_view gp t (fun c => rk.posOf (c - lo)) (fun c => lo ≤ c ∧ c < hi)
    ((consW F (lo + rk.node q) u.σ t).filter (fun c => decide (lo ≤ c ∧ c < hi)))
    (((consW F (lo + rk.node q) u.σ t).filter (fun c => decide (hi ≤ c))).map (fun _ => (⟨rk.posOf (hi - lo), max t t⟩ : Req)))
    (F.selfReq (lo + rk.node q) (F.f (lo + rk.node q) u.σ t).1 t) (lo + rk.node q) q q hC.nowp
    (fun a b ha hb e => by have := rk_inj hrk (i := a - lo) (j := b - lo) (by omega) (by omega) e; omega)
    (fun a ha => by rw [hC.lenp]; exact (hout (a - lo) (by omega)).2) hLN ⟨by omega, by omega⟩ hposq hs
    (by
      intro r hr
      obtain ⟨c, _, rfl⟩ := List.mem_map.mp hr
      refine ⟨Nat.max_self t, by rw [hC.lenp]; exact hk, fun a ha => (hout (a - lo) (by omega)).1⟩)
  have vF := notify_view0 gI t (fun c => (flatRk F.n (.node hi rk ch) lo).posOf (c - lo)) (fun c => lo ≤ c ∧ c < F.n)
    ((consW F (lo + rk.node q) u.σ t).filter (fun c => decide (lo ≤ c)))
    (F.selfReq (lo + rk.node q) (F.f (lo + rk.node q) u.σ t).1 t) (lo + rk.node q)
    ((flatRk F.n (.node hi rk ch) lo).posOf (rk.node q)) ((flatRk F.n (.node hi rk ch) lo).posOf (rk.node q)) hC.nowI
    (fun a b ha hb e => by have := rk_inj hst (i := a - lo) (j := b - lo) (by omega) (by omega) e; omega)
    (fun a ha => by rw [hC.lenI]; exact (hst.2 (a - lo) (by omega)).2) hLF ⟨by omega, hin⟩ hposF hsF
  obtain ⟨vN1, vN2, vN3, vN4⟩ := vN
  obtain ⟨vF1, _, vF3, vF4⟩ := vF
  have hmemN : ∀ a, lo ≤ a → a < hi → (a ∈ (consW F (lo + rk.node q) u.σ t).filter (fun c => decide (lo ≤ c ∧ c < hi)) ↔
      a ∈ consW F (lo + rk.node q) u.σ t) := by
    intro a h1 h2; simp [List.mem_filter, h1, h2]
  have hmemF : ∀ a, lo ≤ a → (a ∈ (consW F (lo + rk.node q) u.σ t).filter (fun c => decide (lo ≤ c)) ↔
      a ∈ consW F (lo + rk.node q) u.σ t) := by
    intro a ha; simp [List.mem_filter, ha]
  have hmemD : ∀ a, hi ≤ a → (a ∈ (consW F (lo + rk.node q) u.σ t).filter (fun c => decide (hi ≤ c)) ↔
      a ∈ consW F (lo + rk.node q) u.σ t) := by
    intro a ha; simp [List.mem_filter, ha]
  have hkslot : slotOf ((((consW F (lo + rk.node q) u.σ t).filter (fun c => decide (lo ≤ c ∧ c < hi))).map
                  (fun c => (⟨rk.posOf (c - lo), t⟩ : Req)) ++
                ((consW F (lo + rk.node q) u.σ t).filter (fun c => decide (hi ≤ c))).map
                  (fun _ => (⟨rk.posOf (hi - lo), max t t⟩ : Req)) ++
                (F.selfReq (lo + rk.node q) (F.f (lo + rk.node q) u.σ t).1 t).map (fun T => (⟨q, T⟩ : Req))).foldl
                scheduleNode { gp with cursor := q }) (rk.posOf (hi - lo)) =
      if (consW F (lo + rk.node q) u.σ t).filter (fun c => decide (hi ≤ c)) = [] then slotOf gp (rk.posOf (hi - lo)) else t := by
    rw [vN2 _ (fun a ha => (hout (a - lo) (by omega)).1)]
    cases hdl : (consW F (lo + rk.node q) u.σ t).filter (fun c => decide (hi ≤ c)) with
    | nil => simp
    | cons c rest => simp
  refine ⟨⟨vN3, vF3, by rw [vN4]; exact hC.lenp, by rw [vF4]; exact hC.lenI, rfl, ?_, ?_, ?_, ?_⟩, ?_, ?_, ?_, ?_⟩
  · show u.up ++ _ = uf.up ++ _
    rw [hC.up]
  · show u.fl ++ _ = uf.fl ++ _
    rw [hC.fl]
  · show (if _ then _ :: u.wl else u.wl) = (if _ then _ :: uf.wl else uf.wl)
    rw [hC.wl]
  · -- every node sees the same slot on both sides
    intro i' h1 h2
    rw [viewT_node, vF1 i' ⟨h1, h2⟩]
    have hold := hC.view i' h1 h2
    rw [viewT_node] at hold
    by_cases hih : i' < hi
    · rw [if_pos hih, vN1 i' ⟨h1, hih⟩]
      rw [if_pos hih] at hold
      by_cases e : i' = lo + rk.node q
      · rw [if_pos e, if_pos e]
      · rw [if_neg e, if_neg e]
        by_cases hm : i' ∈ consW F (lo + rk.node q) u.σ t
        · rw [if_pos ((hmemN i' h1 hih).mpr hm), if_pos ((hmemF i' h1).mpr hm)]
        · rw [if_neg (fun x => hm ((hmemN i' h1 hih).mp x)), if_neg (fun x => hm ((hmemF i' h1).mp x))]
          exact hold
    · rw [if_neg hih, sub_cons, hP.1 i' (by omega) h2, if_neg (show ¬ i' = lo + rk.node q by omega)]
      rw [if_neg hih] at hold
      by_cases hm : i' ∈ consW F (lo + rk.node q) u.σ t
      · rw [if_pos ((hmemD i' (by omega)).mpr hm), if_pos ((hmemF i' h1).mpr hm)]
      · rw [if_neg (fun x => hm ((hmemD i' (by omega)).mp x)), if_neg (fun x => hm ((hmemF i' h1).mp x))]
        exact hold
  · -- the parent's schedule invariant
    have h1 : CInv t (q + 1) { gp with cursor := q } := cinv_step_eval hci (by omega) q
    refine (cinv_requests _ h1 hC.lenp ?_).1
    intro r hr
    rcases List.mem_append.mp hr with hr | hr
    · rcases List.mem_append.mp hr with hr | hr
      · obtain ⟨c, hc, rfl⟩ := List.mem_map.mp hr
        obtain ⟨hc1, hc2⟩ := hLN c hc
        obtain ⟨hcn, hp⟩ := mem_consW F _ _ _ c (List.mem_filter.mp hc).1
        have := (topoT_level F hi lo rk ch hwf' hT c hc1 hcn _ hp (by omega)).1 (by omega) hc2
        rw [hposq] at this
        exact ⟨(hout (c - lo) (by omega)).2, Or.inl ⟨rfl, this⟩⟩
      · obtain ⟨c, hc, rfl⟩ := List.mem_map.mp hr
        obtain ⟨hc1, hc2⟩ := List.mem_filter.mp hc
        simp only [decide_eq_true_eq] at hc2
        obtain ⟨hcn, hp⟩ := mem_consW F _ _ _ c hc1
        have := (topoT_level F hi lo rk ch hwf' hT c (by omega) hcn _ hp (by omega)).2.1 (by omega) hc2
        rw [hposq] at this
        exact ⟨hk, Or.inl ⟨Nat.max_self t, this⟩⟩
    · obtain ⟨T, hT', rfl⟩ := List.mem_map.mp hr
      exact ⟨hq, Or.inr ⟨hS _ _ _ _ hT', Nat.le_refl _⟩⟩
  · intro hdl
    refine ⟨?_, by rw [hkslot, if_pos hdl]⟩
    show sub (_ :: _) = _
    rw [sub_cons, hdl]; rfl
  · intro hdl
    refine ⟨by rw [hkslot, if_neg hdl], ?_⟩
    cases hdl' : (consW F (lo + rk.node q) u.σ t).filter (fun c => decide (hi ≤ c)) with
    | nil => exact absurd hdl' hdl
    | cons c rest =>
      have hc : c ∈ (consW F (lo + rk.node q) u.σ t).filter (fun c => decide (hi ≤ c)) := by rw [hdl']; simp
      obtain ⟨hc1, hc2⟩ := List.mem_filter.mp hc
      simp only [decide_eq_true_eq] at hc2
      obtain ⟨hcn, hp⟩ := mem_consW F _ _ _ c hc1
      have := (topoT_level F hi lo rk ch hwf' hT c (by omega) hcn _ hp (by omega)).2.1 (by omega) hc2
      rw [hposq] at this
      exact this
  · intro hw
    show W F.n t ch hi (sub (_ :: _))
    rw [sub_cons]; exact hP.2 hw

end HgVerif.NestFlow
