import HgVerif.Lemmas.NestFlowStep
/-! One cycle of a nesting against one cycle of the inlined program under the composed rank:
the leaf case, the evaluation of the nested node (child cycle + pull-propagate against the child's block of the
inlined scan), and the induction over the nesting depth. -/
namespace HgVerif.NestFlow
open HgVerif.Sched HgVerif.Flow

variable {S : Type}

/-- the result of a cycle of the nesting `T` (`rN`) against the result of a cycle of the inlined program (`rF`) -/
structure CycRel (F : Flow S) (T : Tree) (lo : Nat) (t : Time) (rN rF : ScanRes (CSt S)) : Prop where
  okN : rN.ok = true
  okF : rF.ok = true
  σ : rN.st.σ = rF.st.σ
  up : rN.st.up = rF.st.up
  fl : rN.st.fl = rF.st.fl
  wl : rN.st.wl = rF.st.wl
  view : ViewEq F.n T lo (rN.g, rN.st.gs) rF.g
  qi : QI F.n T lo (rN.g, rN.st.gs)
  now : rN.g.now = t

theorem leaf_cycle (F : Flow S) (fx : Bool) (hS : SelfFuture F) (rk : Rk) (lo : Nat) (hwf : Tree.WF F.n (.leaf rk) lo)
    (hT : TopoT F (.leaf rk) lo) (t : Time) (x : G × List G) (hW : W F.n t (.leaf rk) lo x) (gF : G)
    (hV : ViewEq F.n (.leaf rk) lo x gF) (hlenF : gF.slots.length = F.n - lo) (hcF : gF.cursor = 0)
    (σ : Nat → S) (gsF : List G) (up fl wl : List Nat) :
    CycRel F (.leaf rk) lo t
      (cycle fx (behT F fx (.leaf rk) lo) (Tree.size F.n (.leaf rk) lo) t x.1 ⟨σ, x.2, up, fl, wl⟩)
      (cycle fx (behT F fx (.leaf (flatRk F.n (.leaf rk) lo)) lo) (F.n - lo) t gF ⟨σ, gsF, up, fl, wl⟩) := by
  obtain ⟨hlo, hrk⟩ := hwf
  have hown : Own (F.n - lo) t x.1 := hW
  obtain ⟨hlen, hc, _, _⟩ := hown
  have hslots : x.1.slots = gF.slots := by
    apply slots_ext x.1 gF (F.n - lo) hlen hlenF
    intro p hp
    have := hV (lo + rk.node p) (by omega) (by have := (hrk.1 p hp).2; omega)
    simp only [viewT, flatRk, Nat.add_sub_cancel_left, (hrk.1 p hp).1] at this
    exact this
  have hg : ({ x.1 with now := t, failed := false, next := none, cursor := 0 } : G) =
      { gF with now := t, failed := false, next := none, cursor := 0 } := by
    show ({ slots := x.1.slots, now := t } : G) = { slots := gF.slots, now := t }
    rw [hslots]
  show CycRel F (.leaf rk) lo t
      (cycle fx (behT F fx (.leaf rk) lo) (F.n - lo) t x.1 ⟨σ, x.2, up, fl, wl⟩)
      (cycle fx (behT F fx (.leaf rk) lo) (F.n - lo) t gF ⟨σ, gsF, up, fl, wl⟩)
  rw [cycle_fresh _ _ _ _ _ _ hc, cycle_fresh _ _ _ _ _ _ hcF, hg]
  obtain ⟨c1, c2, c3, c4, c5, c6, c7, c8⟩ := leaf_congr F fx rk lo t (F.n - lo) 0
    { gF with now := t, failed := false, next := none, cursor := 0 } ⟨σ, x.2, up, fl, wl⟩ ⟨σ, gsF, up, fl, wl⟩ [] rfl rfl rfl rfl
  have hci := cinv_scanFrom (behT F fx (.leaf rk) lo) (F.n - lo) (disc_leaf F fx rk lo ⟨hlo, hrk⟩ hT hS) t (F.n - lo) 0
    { gF with now := t, failed := false, next := none, cursor := 0 } ⟨σ, x.2, up, fl, wl⟩ [] (by omega) (cinv_init t gF)
    (by simpa using hlenF) c6
  refine ⟨c6, c7, c2, c3, c4, c5, ?_, ⟨?_, ?_, ?_⟩, hci.now⟩
  · intro i _ _
    show slotOf _ _ = slotOf _ _
    rw [c1]; rfl
  · exact scanFrom_length _ (F.n - lo) t (F.n - lo) 0 _ _ [] (by simpa using hlenF) c6
  · exact scanFrom_cursor_zero _ t (F.n - lo) 0 _ _ [] c6
  · show CInv (scanFrom _ t (F.n - lo) 0 _ _ []).g.now (F.n - lo) _
    rw [hci.now]; exact hci

end HgVerif.NestFlow

namespace HgVerif.NestFlow
open HgVerif.Sched HgVerif.Flow

variable {S : Type}

/-- the requests of the nested node: deliveries for this cycle to later positions, then the pull-propagate -/
theorem nested_reqs_slots (gp : G) (t : Time) (k : Nat) (notifs prop : List Req) (c0 : Nat)
    (hnow : gp.now = t) (hk : k < gp.slots.length) (hsk : slotOf gp k = t)
    (hn : ∀ r ∈ notifs, r.time = t ∧ r.node < gp.slots.length ∧ r.node ≠ k)
    (hp : prop = [] ∨ ∃ nx, prop = [(⟨k, nx⟩ : Req)]) :
    (∀ x, x ≠ k → slotOf ((notifs ++ prop).foldl scheduleNode { gp with cursor := c0 }) x =
      if x ∈ notifs.map (·.node) then t else slotOf gp x) ∧
    (prop = [] → slotOf ((notifs ++ prop).foldl scheduleNode { gp with cursor := c0 }) k = t) ∧
    (∀ nx, prop = [(⟨k, nx⟩ : Req)] → slotOf ((notifs ++ prop).foldl scheduleNode { gp with cursor := c0 }) k = nx) ∧
    ((notifs ++ prop).foldl scheduleNode { gp with cursor := c0 }).now = t ∧
    ((notifs ++ prop).foldl scheduleNode { gp with cursor := c0 }).slots.length = gp.slots.length := by
  have hmid := foldl_now_reqs { gp with cursor := c0 } notifs t hnow (fun r hr => ⟨(hn r hr).1, (hn r hr).2.1⟩)
  have hmidk : slotOf (notifs.foldl scheduleNode { gp with cursor := c0 }) k = t := by
    rw [hmid, if_neg]
    · exact hsk
    · intro h
      obtain ⟨r, hr, e⟩ := List.mem_map.mp h
      exact (hn r hr).2.2 e
  have hmidnow : (notifs.foldl scheduleNode { gp with cursor := c0 }).now = t := by rw [foldl_scheduleNode_now]; exact hnow
  have hmidlen : (notifs.foldl scheduleNode { gp with cursor := c0 }).slots.length = gp.slots.length := by
    rw [foldl_scheduleNode_length]
  rw [List.foldl_append]
  refine ⟨?_, ?_, ?_, by rw [foldl_scheduleNode_now]; exact hmidnow, by rw [foldl_scheduleNode_length]; exact hmidlen⟩
  · intro x hx
    rw [foldl_other_slot _ prop x, hmid]
    · rfl
    · intro r hr
      rcases hp with hp | ⟨nx, hp⟩
      · rw [hp] at hr; simp at hr
      · rw [hp] at hr; simp at hr; rw [hr]; exact fun e => hx e.symm
  · intro hp'; rw [hp']; exact hmidk
  · intro nx hp'
    rw [hp', List.foldl_cons, List.foldl_nil, scheduleNode_slots _ _ _ (by rw [hmidlen]; exact hk), if_pos]
    refine ⟨rfl, ?_⟩
    unfold accepts; left
    show slotOf _ k ≤ _
    rw [hmidk, hmidnow]; exact Nat.le_refl _

theorem nested_pos_step (F : Flow S) (fx : Bool) (hi lo : Nat) (rk : Rk) (ch : Tree)
    (hwf : Tree.WF F.n (.node hi rk ch) lo) (hT : TopoT F (.node hi rk ch) lo) (t : Time)
    (ih : ∀ (x : G × List G) (gF : G) (σ : Nat → S) (gsF : List G) (up fl wl : List Nat),
      W F.n t ch hi x → ViewEq F.n ch hi x gF → gF.slots.length = F.n - hi → gF.cursor = 0 →
      CycRel F ch hi t (cycle fx (behT F fx ch hi) (ch.size F.n hi) t x.1 ⟨σ, x.2, up, fl, wl⟩)
        (cycle fx (behT F fx (.leaf (flatRk F.n ch hi)) hi) (F.n - hi) t gF ⟨σ, gsF, up, fl, wl⟩))
    (g : G) (gs : List G) (hown : Own (hi - lo + 1) t g)
    (hlink : slotOf g (rk.posOf (hi - lo)) = t ∨
      (QI F.n ch hi (sub gs) ∧ Kinv (slotOf g (rk.posOf (hi - lo))) g.now (sub gs).1))
    (hcn : (sub gs).1.now ≤ g.now)
    (gp : G) (u : CSt S) (gI : G) (uf : CSt S) (hC : Com F hi lo rk ch t gp u gI uf)
    (hci : CInv t (rk.posOf (hi - lo)) gp) (hWc : W F.n t ch hi (sub u.gs))
    (hdis : slotOf gp (rk.posOf (hi - lo)) = t ∨
      (slotOf gp (rk.posOf (hi - lo)) = slotOf g (rk.posOf (hi - lo)) ∧ sub u.gs = sub gs))
    (e ef : List Nat) :
    ∃ gpB uB eB,
      (∀ rest, scanFrom (behT F fx (.node hi rk ch) lo) t (rest + 1) (rk.posOf (hi - lo)) gp u e =
               scanFrom (behT F fx (.node hi rk ch) lo) t rest (rk.posOf (hi - lo) + 1) gpB uB eB) ∧
      (scanFrom (behT F fx (.leaf (flatRk F.n (.node hi rk ch) lo)) lo) t (F.n - hi) (rk.posOf (hi - lo)) gI uf ef).ok = true ∧
      Com F hi lo rk ch t gpB uB
        (scanFrom (behT F fx (.leaf (flatRk F.n (.node hi rk ch) lo)) lo) t (F.n - hi) (rk.posOf (hi - lo)) gI uf ef).g
        (scanFrom (behT F fx (.leaf (flatRk F.n (.node hi rk ch) lo)) lo) t (F.n - hi) (rk.posOf (hi - lo)) gI uf ef).st ∧
      CInv t (rk.posOf (hi - lo) + 1) gpB ∧ QI F.n ch hi (sub uB.gs) ∧ (sub uB.gs).1.now ≤ t ∧
      Kinv (slotOf gpB (rk.posOf (hi - lo))) t (sub uB.gs).1 := by
  have hwf' := hwf
  obtain ⟨hlo, hhi, hrk, hch⟩ := hwf
  obtain ⟨hk, hout, hnode⟩ := level_facts hrk
  have hrc := flatRk_ok F.n ch hi hch
  have hst := flatRk_ok F.n (.node hi rk ch) lo hwf'
  -- positions of the child's nodes in the inlined schedule
  have hdeep : ∀ i, hi ≤ i → i < F.n → (flatRk F.n (.node hi rk ch) lo).posOf (i - lo) =
      rk.posOf (hi - lo) + (flatRk F.n ch hi).posOf (i - hi) := by
    intro i h1 h2
    rw [star_pos_deep F.n hi lo rk ch _ (by omega)]
    have : i - lo - (hi - lo) = i - hi := by omega
    rw [this]
  by_cases hs : slotOf gp (rk.posOf (hi - lo)) = t
  · -- the nested node is due: child cycle, deliveries, pull-propagate
    have hVc : ViewEq F.n ch hi (sub u.gs) (mkG (F.n - hi) (fun c => slotOf gI (rk.posOf (hi - lo) + c)) 0 none) := by
      intro i h1 h2
      have := hC.view i (by omega) h2
      rw [viewT_node, if_neg (by omega), hdeep i h1 h2] at this
      rw [this, mkG_slot _ _ _ _ _ (hrc.2 (i - hi) (by omega)).2]
    have R := ih (sub u.gs) (mkG (F.n - hi) (fun c => slotOf gI (rk.posOf (hi - lo) + c)) 0 none) u.σ [] [] u.fl u.wl
      hWc hVc (mkG_len ..) rfl
    have hfr := cycle_fresh fx (behT F fx (.leaf (flatRk F.n ch hi)) hi) (F.n - hi) t
      (mkG (F.n - hi) (fun c => slotOf gI (rk.posOf (hi - lo) + c)) 0 none) ⟨u.σ, [], [], u.fl, u.wl⟩ rfl
    rw [hfr] at R
    have hBR : BR F hi lo rk ch t gI uf.up
        { (mkG (F.n - hi) (fun c => slotOf gI (rk.posOf (hi - lo) + c)) 0 none) with now := t, failed := false, next := none, cursor := 0 }
        ⟨u.σ, [], [], u.fl, u.wl⟩ gI uf := by
      refine ⟨rfl, hC.nowI, mkG_len .., hC.lenI, hC.σ, hC.fl, hC.wl, by simp, ?_, ?_⟩
      · intro i h1 h2
        rw [hdeep i h1 h2]
        exact mkG_slot _ _ _ _ _ (hrc.2 (i - hi) (by omega)).2
      · intro i h1 h2; simp
    have B := block_lockstep F fx hi lo rk ch hwf' t gI uf.up _ _ gI uf [] ef hBR
    obtain ⟨_, Bok, BB⟩ := B
    have hupo := leaf_up_origin F fx (flatRk F.n ch hi) hi t (F.n - hi) 0
      { (mkG (F.n - hi) (fun c => slotOf gI (rk.posOf (hi - lo) + c)) 0 none) with now := t, failed := false, next := none, cursor := 0 }
      ⟨u.σ, [], [], u.fl, u.wl⟩ []
    have hev := node_nested_eval F fx hi lo rk ch t u
    have hstate : ({ u with gs := (sub u.gs).2, up := [] } : CSt S) = ⟨u.σ, (sub u.gs).2, [], u.fl, u.wl⟩ := rfl
    rw [hstate] at hev
    generalize hr : cycle fx (behT F fx ch hi) (ch.size F.n hi) t (sub u.gs).1 ⟨u.σ, (sub u.gs).2, [], u.fl, u.wl⟩ = rNc at hev R
    generalize hrF : scanFrom (behT F fx (.leaf (flatRk F.n ch hi)) hi) t (F.n - hi) 0
      { (mkG (F.n - hi) (fun c => slotOf gI (rk.posOf (hi - lo) + c)) 0 none) with now := t, failed := false, next := none, cursor := 0 }
      ⟨u.σ, [], [], u.fl, u.wl⟩ [] = rFc at R BB hupo
    generalize hrI : scanFrom (behT F fx (.leaf (flatRk F.n (.node hi rk ch) lo)) lo) t (F.n - hi) (rk.posOf (hi - lo)) gI uf ef = rIB at BB Bok ⊢
    -- where the deliveries go
    have hups : ∀ c ∈ rNc.st.up, c < hi ∧ c < F.n ∧ ∃ p, hi ≤ p ∧ p ∈ F.prods c := by
      intro c hc
      rw [R.up] at hc
      rcases hupo c hc with h | h
      · simp at h
      · exact h
    have hok : ((behT F fx (.node hi rk ch) lo).eval (rk.posOf (hi - lo)) t u).ok = true := by rw [hev]; exact R.okN
    have hqi := QI_len F.n ch hi _ R.qi
    have hnxt : ∀ nx, rNc.g.next = some nx → t < nx := by
      intro nx hnx
      have := (hqi.2.2.isSlot nx hnx).1
      rw [R.now] at this; exact this
    have hnot : ∀ r ∈ (rNc.st.up.filter (fun c => decide (lo ≤ c))).map (fun c => (⟨rk.posOf (c - lo), t⟩ : Req)),
        r.time = t ∧ r.node < gp.slots.length ∧ r.node ≠ rk.posOf (hi - lo) ∧ rk.posOf (hi - lo) < r.node := by
      intro r hr
      obtain ⟨c, hc, rfl⟩ := List.mem_map.mp hr
      obtain ⟨hc1, hc2⟩ := List.mem_filter.mp hc
      simp only [decide_eq_true_eq] at hc2
      obtain ⟨a, b, p, hp1, hp2⟩ := hups c hc1
      have h3 := (topoT_level F hi lo rk ch hwf' hT c hc2 b p hp2 (by omega)).2.2 hp1 a
      have h4 := hout (c - lo) (by omega)
      exact ⟨rfl, by rw [hC.lenp]; exact h4.2, h4.1, h3⟩
    have hpsome : ∀ nx, rNc.g.next = some nx →
        propagate (rk.posOf (hi - lo)) rNc.g.next rNc.ok = [(⟨rk.posOf (hi - lo), nx⟩ : Req)] := by
      intro nx h; rw [h, R.okN]; rfl
    have hpnone : rNc.g.next = none → propagate (rk.posOf (hi - lo)) rNc.g.next rNc.ok = [] := by
      intro h; rw [h]; rfl
    have hprop : propagate (rk.posOf (hi - lo)) rNc.g.next rNc.ok = [] ∨
        ∃ nx, propagate (rk.posOf (hi - lo)) rNc.g.next rNc.ok = [(⟨rk.posOf (hi - lo), nx⟩ : Req)] := by
      cases hn : rNc.g.next with
      | none => rw [← hn]; exact Or.inl (hpnone hn)
      | some nx => rw [← hn]; exact Or.inr ⟨nx, hpsome nx hn⟩
    have hsl := nested_reqs_slots gp t (rk.posOf (hi - lo)) _ _ (rk.posOf (hi - lo)) hC.nowp (by rw [hC.lenp]; exact hk) hs
      (fun r hr => ⟨(hnot r hr).1, (hnot r hr).2.1, (hnot r hr).2.2.1⟩) hprop
    obtain ⟨sl1, sl2, sl3, sl4, sl5⟩ := hsl
    refine ⟨_, _, _, fun rest => scanFrom_eval_ok _ t rest _ gp u e hs hok, Bok, ?_, ?_, ?_, ?_, ?_⟩
    · -- the relation with the inlined scan after the block
      rw [hev]
      dsimp only
      refine ⟨sl4, BB.nowI, by rw [sl5]; exact hC.lenp, BB.lenI, ?_, ?_, ?_, ?_, ?_⟩
      · show rNc.st.σ = _
        rw [R.σ, BB.σ]
      · show u.up ++ _ = _
        rw [BB.up, R.up, hC.up]
      · show rNc.st.fl = _
        rw [R.fl, BB.fl]
      · show rNc.st.wl = _
        rw [R.wl, BB.wl]
      · intro i' h1 h2
        rw [viewT_node]
        by_cases hih : i' < hi
        · rw [if_pos hih, sl1 _ (hout (i' - lo) (by omega)).1, BB.outer i' h1 hih, ← R.up]
          have hold := hC.view i' h1 h2
          rw [viewT_node, if_pos hih] at hold
          rw [← hold]
          have hmap : ((rNc.st.up.filter (fun c => decide (lo ≤ c))).map (fun c => (⟨rk.posOf (c - lo), t⟩ : Req))).map (·.node) =
              (rNc.st.up.filter (fun c => decide (lo ≤ c))).map (fun c => rk.posOf (c - lo)) := by
            rw [List.map_map]; rfl
          rw [hmap]
          have hmm := mem_map_pos (rNc.st.up.filter (fun c => decide (lo ≤ c))) (fun c => rk.posOf (c - lo))
            (fun c => lo ≤ c ∧ c < hi)
            (fun a b ha hb e => by have := rk_inj hrk (i := a - lo) (j := b - lo) (by omega) (by omega) e; omega)
            (by
              intro c hc
              obtain ⟨hc1, hc2⟩ := List.mem_filter.mp hc
              simp only [decide_eq_true_eq] at hc2
              exact ⟨hc2, (hups c hc1).1⟩) i' ⟨h1, hih⟩
          by_cases hm : i' ∈ rNc.st.up
          · rw [if_pos (hmm.mpr (List.mem_filter.mpr ⟨hm, by simpa using h1⟩)), if_pos hm]
          · rw [if_neg (fun x => hm (List.mem_filter.mp (hmm.mp x)).1), if_neg hm]
        · rw [if_neg hih]
          show viewT ch hi (sub (rNc.g :: rNc.st.gs)) i' = _
          rw [sub_cons, R.view i' (by omega) h2, BB.deep i' (by omega) h2]
    · -- the parent's schedule invariant
      rw [hev]
      dsimp only
      have h1 : CInv t (rk.posOf (hi - lo) + 1) { gp with cursor := rk.posOf (hi - lo) } := cinv_step_eval hci (by omega) _
      refine (cinv_requests _ h1 hC.lenp ?_).1
      intro r hr
      rcases List.mem_append.mp hr with hr | hr
      · obtain ⟨a, b, _, d⟩ := hnot r hr
        exact ⟨by rw [← hC.lenp]; exact b, Or.inl ⟨a, d⟩⟩
      · rcases hprop with hp | ⟨nx, hp⟩
        · rw [hp] at hr; simp at hr
        · rw [hp] at hr
          simp only [List.mem_singleton] at hr
          subst hr
          have hnx : rNc.g.next = some nx := by
            cases hn : rNc.g.next with
            | none => rw [hpnone hn] at hp; simp at hp
            | some nx' =>
              rw [hpsome nx' hn] at hp
              simp only [List.cons.injEq, and_true] at hp
              have : nx' = nx := by injection hp
              rw [this]
          exact ⟨hk, Or.inr ⟨hnxt nx hnx, Nat.le_refl _⟩⟩
    · rw [hev]
      show QI F.n ch hi (sub (rNc.g :: rNc.st.gs))
      rw [sub_cons]; exact R.qi
    · rw [hev]
      show (sub (rNc.g :: rNc.st.gs)).1.now ≤ t
      rw [sub_cons, R.now]; exact Nat.le_refl _
    · rw [hev]
      dsimp only
      show Kinv _ t (sub (rNc.g :: rNc.st.gs)).1
      rw [sub_cons]
      refine ⟨?_, ?_⟩
      · intro nx hnx
        exact ⟨sl3 nx (hpsome nx hnx), hnxt nx hnx⟩
      · intro hnx
        exact Nat.le_of_eq (sl2 (hpnone hnx))
  · -- the nested node is not due: the child is quiet
    rcases hdis with hdis | ⟨hsk, hsub⟩
    · exact absurd hdis hs
    rcases hlink with hlink | ⟨hQ, hK⟩
    · exact absurd (hsk.trans hlink) hs
    have hready := hown.2.2.2 _ hk
    have hnx : ∀ nx, (sub gs).1.next = some nx → t < nx := by
      intro nx h
      obtain ⟨e1, e2⟩ := hK.1 nx h
      have : slotOf gp (rk.posOf (hi - lo)) = nx := by rw [hsk, e1]
      omega
    rw [hsub] at hWc
    have hquiet := quiet_views F.n ch hi hch t (sub gs) hQ hWc hnx
    have hidle := scan_idle (behT F fx (.leaf (flatRk F.n (.node hi rk ch) lo)) lo) t (rk.posOf (hi - lo)) (F.n - hi) gI uf ef (by
      intro j hj
      have hnd := hrc.1 j hj
      have := hC.view (hi + (flatRk F.n ch hi).node j) (by omega) (by omega)
      rw [viewT_node, if_neg (by omega), hdeep _ (by omega) (by omega), Nat.add_sub_cancel_left, hnd.1, hsub] at this
      rw [← this]
      exact hquiet _ (by omega) (by omega))
    obtain ⟨i1, i2, i3, i4, _⟩ := hidle
    have hslI : ∀ p, slotOf (scanFrom (behT F fx (.leaf (flatRk F.n (.node hi rk ch) lo)) lo) t (F.n - hi)
        (rk.posOf (hi - lo)) gI uf ef).g p = slotOf gI p := by
      intro p; unfold slotOf; rw [i2]
    have hK' : Kinv (slotOf gp (rk.posOf (hi - lo))) t (sub u.gs).1 := by
      rw [hsub, hsk]
      refine ⟨fun nx h => ⟨(hK.1 nx h).1, hnx nx h⟩, fun h => ?_⟩
      have := hK.2 h
      have := hown.2.2.1
      omega
    have hQ' : QI F.n ch hi (sub u.gs) := by rw [hsub]; exact hQ
    have hnow' : (sub u.gs).1.now ≤ t := by rw [hsub]; have := hown.2.2.1; omega
    have hCom : ∀ (na : Option Time), Com F hi lo rk ch t { gp with next := na, cursor := rk.posOf (hi - lo) } u
        (scanFrom (behT F fx (.leaf (flatRk F.n (.node hi rk ch) lo)) lo) t (F.n - hi) (rk.posOf (hi - lo)) gI uf ef).g
        (scanFrom (behT F fx (.leaf (flatRk F.n (.node hi rk ch) lo)) lo) t (F.n - hi) (rk.posOf (hi - lo)) gI uf ef).st := by
      intro na
      rw [i4]
      refine ⟨hC.nowp, by rw [i3]; exact hC.nowI, hC.lenp, by rw [i2]; exact hC.lenI, hC.σ, hC.up, hC.fl, hC.wl, ?_⟩
      intro i' h1 h2
      rw [hslI]
      exact hC.view i' h1 h2
    rcases Nat.lt_or_gt_of_ne hs with hlt | hgt
    · refine ⟨{ gp with cursor := rk.posOf (hi - lo) }, u, e, fun rest => scanFrom_skip _ t rest _ gp u e hlt, i1,
        hCom gp.next, cinv_step_eval hci (by omega) _, hQ', hnow', hK'⟩
    · refine ⟨{ gp with next := omin gp.next (slotOf gp (rk.posOf (hi - lo))), cursor := rk.posOf (hi - lo) }, u, e,
        fun rest => scanFrom_fold _ t rest _ gp u e hgt, i1, hCom _, cinv_step_fold hci hgt _, hQ', hnow', hK'⟩

end HgVerif.NestFlow

namespace HgVerif.NestFlow
open HgVerif.Sched HgVerif.Flow

variable {S : Type}

/-- **one cycle, any depth**: a cycle of the nesting `T` (graph at `lo`) from a ready state does what a cycle of the
    inlined program under the composed rank does from a schedule showing every node the same slot: same node
    states, same upward notifications, same user-code runs and writers (in the same order), and afterwards every
    node again sees the same slot; the nesting is left in a consistent idle state. -/
theorem nest_cycle (F : Flow S) (fx : Bool) (hS : SelfFuture F) (T : Tree) (lo : Nat) (hwf : T.WF F.n lo) (hT : TopoT F T lo)
    (t : Time) (x : G × List G) (hW : W F.n t T lo x) (gF : G) (hV : ViewEq F.n T lo x gF)
    (hlenF : gF.slots.length = F.n - lo) (hcF : gF.cursor = 0) (σ : Nat → S) (gsF : List G) (up fl wl : List Nat) :
    CycRel F T lo t (cycle fx (behT F fx T lo) (T.size F.n lo) t x.1 ⟨σ, x.2, up, fl, wl⟩)
      (cycle fx (behT F fx (.leaf (flatRk F.n T lo)) lo) (F.n - lo) t gF ⟨σ, gsF, up, fl, wl⟩) := by
  induction T generalizing lo x gF σ gsF up fl wl with
  | leaf rk => exact leaf_cycle F fx hS rk lo hwf hT t x hW gF hV hlenF hcF σ gsF up fl wl
  | node hi rk ch ih =>
    have hwf' := hwf
    obtain ⟨hlo, hhi, hrk, hch⟩ := hwf
    obtain ⟨hk, hout, hnode⟩ := level_facts hrk
    have hTc := topoT_child F hi lo rk ch hlo hT
    obtain ⟨hown, hcn, hWc, hlink⟩ := hW
    have ihc : ∀ (x' : G × List G) (gF' : G) (σ' : Nat → S) (gsF' : List G) (up' fl' wl' : List Nat),
        W F.n t ch hi x' → ViewEq F.n ch hi x' gF' → gF'.slots.length = F.n - hi → gF'.cursor = 0 →
        CycRel F ch hi t (cycle fx (behT F fx ch hi) (ch.size F.n hi) t x'.1 ⟨σ', x'.2, up', fl', wl'⟩)
          (cycle fx (behT F fx (.leaf (flatRk F.n ch hi)) hi) (F.n - hi) t gF' ⟨σ', gsF', up', fl', wl'⟩) :=
      fun x' gF' σ' gsF' up' fl' wl' h1 h2 h3 h4 => ih hi hch hTc x' h1 gF' h2 h3 h4 σ' gsF' up' fl' wl'
    show CycRel F (.node hi rk ch) lo t
      (cycle fx (behT F fx (.node hi rk ch) lo) (hi - lo + 1) t x.1 ⟨σ, x.2, up, fl, wl⟩) _
    rw [cycle_fresh _ _ _ _ _ _ hown.2.1, cycle_fresh _ _ _ _ _ _ hcF]
    -- phase A: the positions before the nested node
    have A := scan_lockstep (behT F fx (.node hi rk ch) lo) (behT F fx (.leaf (flatRk F.n (.node hi rk ch) lo)) lo) t
      0 0 (rk.posOf (hi - lo))
      (fun j gp u _ gI uf _ => Com F hi lo rk ch t gp u gI uf ∧ CInv t j gp ∧ W F.n t ch hi (sub u.gs) ∧
        (slotOf gp (rk.posOf (hi - lo)) = t ∨
          (slotOf gp (rk.posOf (hi - lo)) = slotOf x.1 (rk.posOf (hi - lo)) ∧ sub u.gs = sub x.2)))
      ?hslot ?hskip ?hfold ?heval ?hzero (rk.posOf (hi - lo)) 0 (by omega)
      { x.1 with now := t, failed := false, next := none, cursor := 0 } ⟨σ, x.2, up, fl, wl⟩ []
      { gF with now := t, failed := false, next := none, cursor := 0 } ⟨σ, gsF, up, fl, wl⟩ []
      ⟨⟨rfl, rfl, hown.1, hlenF, rfl, rfl, rfl, rfl, hV⟩, cinv_init t x.1, hWc, Or.inr ⟨rfl, rfl⟩⟩
    case hslot =>
      intro j gA uA eA gB uB eB hj h
      simp only [Nat.zero_add]
      have hnj := hnode j (by omega) (by omega)
      have := h.1.view (lo + rk.node j) (by omega) (by omega)
      rw [viewT_node, if_pos (by omega), Nat.add_sub_cancel_left, (hrk.1 j (by omega)).1,
        star_pos_outer F.n hi lo rk ch _ hnj, (hrk.1 j (by omega)).1, if_pos hj] at this
      exact this
    case hskip =>
      intro j gA uA eA gB uB eB hj h hs
      exact ⟨h.1.cursor _ _ _ _, cinv_step_eval h.2.1 (by simp only [Nat.zero_add] at hs; omega) _, h.2.2.1, h.2.2.2⟩
    case hfold =>
      intro j gA uA eA gB uB eB hj h hs
      simp only [Nat.zero_add] at hs ⊢
      exact ⟨h.1.cursor _ _ _ _, cinv_step_fold h.2.1 hs _, h.2.2.1, h.2.2.2⟩
    case hzero =>
      intro gA uA eA gB uB eB h
      exact ⟨h.1.cursor _ _ _ _, ⟨h.2.1.now, h.2.1.lower, h.2.1.isSlot⟩, h.2.2.1, h.2.2.2⟩
    case heval =>
      intro j gA uA eA gB uB eB hj h hs
      simp only [Nat.zero_add] at hs ⊢
      have O := outer_step F fx hi lo rk ch hwf' hT hS t j (by omega) (by omega) gA uA gB uB h.1 hs h.2.1 (Or.inr h.2.2.1)
      have epos : (flatRk F.n (.node hi rk ch) lo).posOf (rk.node j) = j := by
        rw [star_pos_outer F.n hi lo rk ch _ (hnode j (by omega) (by omega)), (hrk.1 j (by omega)).1, if_pos hj]
      rw [epos] at O
      obtain ⟨O1, O2, O3, O4, O5⟩ := O
      refine ⟨by rw [node_outer_eval F fx hi lo rk ch j t uA (by omega)], rfl, O1, O2, O5 h.2.2.1, ?_⟩
      by_cases hdl : (consW F (lo + rk.node j) uA.σ t).filter (fun c => decide (hi ≤ c)) = []
      · obtain ⟨a, b⟩ := O3 hdl
        rw [a, b]; exact h.2.2.2
      · exact Or.inl (O4 hdl).1
    simp only [Nat.zero_add] at A
    generalize hrA : scanFrom (behT F fx (.node hi rk ch) lo) t (rk.posOf (hi - lo)) 0
          { x.1 with now := t, failed := false, next := none, cursor := 0 } ⟨σ, x.2, up, fl, wl⟩ [] = rA at A
    generalize hrFA : scanFrom (behT F fx (.leaf (flatRk F.n (.node hi rk ch) lo)) lo) t (rk.posOf (hi - lo)) 0
          { gF with now := t, failed := false, next := none, cursor := 0 } ⟨σ, gsF, up, fl, wl⟩ [] = rFA at A
    obtain ⟨Aok, AokF, hCA, hciA, hWcA, hdisA⟩ := A
    -- phase B: the nested node against the child's block
    obtain ⟨gpB, uB, eB, hstepB, BokF, hCB, hciB, hQB, hnowB, hKB⟩ :=
      nested_pos_step F fx hi lo rk ch hwf' hT t ihc x.1 x.2 hown hlink hcn rA.g rA.st rFA.g rFA.st hCA hciA hWcA hdisA
        rA.evaluated rFA.evaluated
    generalize hrIB : scanFrom (behT F fx (.leaf (flatRk F.n (.node hi rk ch) lo)) lo) t (F.n - hi) (rk.posOf (hi - lo))
          rFA.g rFA.st rFA.evaluated = rIB at BokF hCB
    -- phase C: the positions after the nested node
    have C := scan_lockstep (behT F fx (.node hi rk ch) lo) (behT F fx (.leaf (flatRk F.n (.node hi rk ch) lo)) lo) t
      (rk.posOf (hi - lo) + 1) (rk.posOf (hi - lo) + (F.n - hi)) (hi - lo - rk.posOf (hi - lo))
      (fun j gp u _ gI uf _ => Com F hi lo rk ch t gp u gI uf ∧ CInv t (rk.posOf (hi - lo) + 1 + j) gp ∧
        sub u.gs = sub uB.gs ∧ slotOf gp (rk.posOf (hi - lo)) = slotOf gpB (rk.posOf (hi - lo)))
      ?hslot ?hskip ?hfold ?heval ?hzero (hi - lo - rk.posOf (hi - lo)) 0 (by omega)
      gpB uB eB rIB.g rIB.st rIB.evaluated ⟨hCB, hciB, rfl, rfl⟩
    case hslot =>
      intro j gA uA eA gB uB' eB' hj h
      have hq : rk.posOf (hi - lo) + 1 + j < hi - lo + 1 := by omega
      have hnj := hnode _ hq (by omega)
      have := h.1.view (lo + rk.node (rk.posOf (hi - lo) + 1 + j)) (by omega) (by omega)
      rw [viewT_node, if_pos (by omega), Nat.add_sub_cancel_left, (hrk.1 _ hq).1,
        star_pos_outer F.n hi lo rk ch _ hnj, (hrk.1 _ hq).1, if_neg (by omega)] at this
      rw [this]; congr 1; omega
    case hskip =>
      intro j gA uA eA gB uB' eB' hj h hs
      exact ⟨h.1.cursor _ _ _ _, cinv_step_eval h.2.1 (by omega) _, h.2.2.1, h.2.2.2⟩
    case hfold =>
      intro j gA uA eA gB uB' eB' hj h hs
      exact ⟨h.1.cursor _ _ _ _, cinv_step_fold h.2.1 hs _, h.2.2.1, h.2.2.2⟩
    case hzero =>
      intro gA uA eA gB uB' eB' h
      exact ⟨h.1.cursor _ _ _ _, ⟨h.2.1.now, h.2.1.lower, h.2.1.isSlot⟩, h.2.2.1, h.2.2.2⟩
    case heval =>
      intro j gA uA eA gB uB' eB' hj h hs
      have hq : rk.posOf (hi - lo) + 1 + j < hi - lo + 1 := by omega
      have hnj := hnode _ hq (by omega)
      -- a node after the nested node notifies nobody inside the child
      have hdl : (consW F (lo + rk.node (rk.posOf (hi - lo) + 1 + j)) uA.σ t).filter (fun c => decide (hi ≤ c)) = [] := by
        cases hdl' : (consW F (lo + rk.node (rk.posOf (hi - lo) + 1 + j)) uA.σ t).filter (fun c => decide (hi ≤ c)) with
        | nil => rfl
        | cons c rest =>
          exfalso
          have hc : c ∈ (consW F (lo + rk.node (rk.posOf (hi - lo) + 1 + j)) uA.σ t).filter (fun c => decide (hi ≤ c)) := by
            rw [hdl']; simp
          obtain ⟨hc1, hc2⟩ := List.mem_filter.mp hc
          simp only [decide_eq_true_eq] at hc2
          obtain ⟨hcn', hp⟩ := mem_consW F _ _ _ c hc1
          have := (topoT_level F hi lo rk ch hwf' hT c (by omega) hcn' _ hp (by omega)).2.1 (by omega) hc2
          rw [Nat.add_sub_cancel_left, (hrk.1 _ hq).1] at this
          omega
      have O := outer_step F fx hi lo rk ch hwf' hT hS t _ hq (by omega) gA uA gB uB' h.1 hs h.2.1 (Or.inl hdl)
      have epos : (flatRk F.n (.node hi rk ch) lo).posOf (rk.node (rk.posOf (hi - lo) + 1 + j)) =
          rk.posOf (hi - lo) + (F.n - hi) + j := by
        rw [star_pos_outer F.n hi lo rk ch _ hnj, (hrk.1 _ hq).1, if_neg (by omega)]; omega
      rw [epos] at O
      obtain ⟨O1, O2, O3, _, _⟩ := O
      obtain ⟨a, b⟩ := O3 hdl
      refine ⟨by rw [node_outer_eval F fx hi lo rk ch _ t uA (by omega)], rfl, O1, O2, ?_, ?_⟩
      · rw [a]; exact h.2.2.1
      · rw [b]; exact h.2.2.2
    simp only [Nat.add_zero] at C
    obtain ⟨Cok, CokF, hCC, hciC, hsubC, hslotC⟩ := C
    -- put the three phases together
    have e1 : hi - lo + 1 = rk.posOf (hi - lo) + ((hi - lo - rk.posOf (hi - lo)) + 1) := by omega
    have e2 : F.n - lo = rk.posOf (hi - lo) + ((F.n - hi) + (hi - lo - rk.posOf (hi - lo))) := by omega
    have hN : scanFrom (behT F fx (.node hi rk ch) lo) t (hi - lo + 1) 0
          { x.1 with now := t, failed := false, next := none, cursor := 0 } ⟨σ, x.2, up, fl, wl⟩ [] =
        scanFrom (behT F fx (.node hi rk ch) lo) t (hi - lo - rk.posOf (hi - lo)) (rk.posOf (hi - lo) + 1) gpB uB eB := by
      rw [e1, scanFrom_add, hrA, if_pos Aok, Nat.zero_add, hstepB]
    have hF : scanFrom (behT F fx (.leaf (flatRk F.n (.node hi rk ch) lo)) lo) t (F.n - lo) 0
          { gF with now := t, failed := false, next := none, cursor := 0 } ⟨σ, gsF, up, fl, wl⟩ [] =
        scanFrom (behT F fx (.leaf (flatRk F.n (.node hi rk ch) lo)) lo) t (hi - lo - rk.posOf (hi - lo))
          (rk.posOf (hi - lo) + (F.n - hi)) rIB.g rIB.st rIB.evaluated := by
      rw [e2, scanFrom_add, hrFA, if_pos AokF, Nat.zero_add, scanFrom_add, hrIB, if_pos BokF]
    rw [hN, hF]
    have hsz : rk.posOf (hi - lo) + 1 + (hi - lo - rk.posOf (hi - lo)) = hi - lo + 1 := by omega
    rw [hsz] at hciC
    refine ⟨Cok, CokF, hCC.σ, hCC.up, hCC.fl, hCC.wl, hCC.view, ⟨hCC.lenp, scanFrom_cursor_zero _ t _ _ _ _ _ Cok, ?_, ?_, ?_, ?_⟩, hCC.nowp⟩
    · show CInv (scanFrom _ t _ _ gpB uB eB).g.now _ _
      rw [hCC.nowp]; exact hciC
    · show (sub (scanFrom _ t _ _ gpB uB eB).st.gs).1.now ≤ (scanFrom _ t _ _ gpB uB eB).g.now
      rw [hsubC, hCC.nowp]; exact hnowB
    · show Kinv (slotOf (scanFrom _ t _ _ gpB uB eB).g _) (scanFrom _ t _ _ gpB uB eB).g.now (sub (scanFrom _ t _ _ gpB uB eB).st.gs).1
      rw [hsubC, hCC.nowp, hslotC]; exact hKB
    · show QI F.n ch hi (sub (scanFrom _ t _ _ gpB uB eB).st.gs)
      rw [hsubC]; exact hQB

end HgVerif.NestFlow
