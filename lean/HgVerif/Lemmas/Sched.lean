import HgVerif.Model.Sched
/-! Helper lemmas about the generic scan (`Model/Sched.lean`). -/
namespace HgVerif.Sched

/-- every index the scan evaluates was already in the accumulator or lies at/after the start index -/
theorem scanFrom_evaluated_ge {σ : Type} (β : Beh σ) (t : Time) (fuel i : Nat) (g : G) (u : σ) (ev : List Nat) :
    ∀ x ∈ (scanFrom β t fuel i g u ev).evaluated, x ∈ ev ∨ i ≤ x := by
  induction fuel generalizing i g u ev with
  | zero => intro x hx; simp [scanFrom] at hx; exact Or.inl hx
  | succ fuel ih =>
    intro x hx
    unfold scanFrom at hx
    simp only at hx
    split at hx
    · split at hx
      · rcases ih _ _ _ _ x hx with h | h
        · simp at h
          rcases h with h | h
          · exact Or.inl h
          · exact Or.inr (by omega)
        · exact Or.inr (by omega)
      · simp at hx
        rcases hx with h | h
        · exact Or.inl h
        · exact Or.inr (by omega)
    · split at hx
      · rcases ih _ _ _ _ x hx with h | h
        · exact Or.inl h
        · exact Or.inr (by omega)
      · rcases ih _ _ _ _ x hx with h | h
        · exact Or.inl h
        · exact Or.inr (by omega)

/-- … and lies below `i + fuel` -/
theorem scanFrom_evaluated_lt {σ : Type} (β : Beh σ) (t : Time) (fuel i : Nat) (g : G) (u : σ) (ev : List Nat) :
    ∀ x ∈ (scanFrom β t fuel i g u ev).evaluated, x ∈ ev ∨ x < i + fuel := by
  induction fuel generalizing i g u ev with
  | zero => intro x hx; simp [scanFrom] at hx; exact Or.inl hx
  | succ fuel ih =>
    intro x hx
    unfold scanFrom at hx
    simp only at hx
    split at hx
    · split at hx
      · rcases ih _ _ _ _ x hx with h | h
        · simp at h
          rcases h with h | h
          · exact Or.inl h
          · exact Or.inr (by omega)
        · exact Or.inr (by omega)
      · simp at hx
        rcases hx with h | h
        · exact Or.inl h
        · exact Or.inr (by omega)
    · split at hx
      · rcases ih _ _ _ _ x hx with h | h
        · exact Or.inl h
        · exact Or.inr (by omega)
      · rcases ih _ _ _ _ x hx with h | h
        · exact Or.inl h
        · exact Or.inr (by omega)

end HgVerif.Sched

namespace HgVerif.Sched

def slotOf (g : G) (j : Nat) : Time := g.slots.getD j 0

theorem getD_set (l : List Time) (a : Nat) (v : Time) (j : Nat) (ha : a < l.length) :
    (l.set a v).getD j 0 = if j = a then v else l.getD j 0 := by
  by_cases h : j = a
  · subst h; simp [List.getD, ha]
  · simp only [List.getD, List.getElem?_set, h, ↓reduceIte]
    have : ¬ a = j := fun e => h e.symm
    simp [this]

/-- the guard of `schedule_node_impl` -/
def accepts (g : G) (r : Req) : Prop := slotOf g r.node ≤ g.now ∨ r.time < slotOf g r.node

instance (g : G) (r : Req) : Decidable (accepts g r) := by unfold accepts; exact inferInstance

theorem scheduleNode_slots (g : G) (r : Req) (j : Nat) (hlen : r.node < g.slots.length) :
    slotOf (scheduleNode g r) j = if j = r.node ∧ accepts g r then r.time else slotOf g j := by
  unfold scheduleNode accepts slotOf
  simp only
  split
  · rename_i h
    simp only [Bool.or_eq_true, decide_eq_true_eq] at h
    rw [getD_set _ _ _ _ hlen]
    by_cases hj : j = r.node
    · simp only [hj, ↓reduceIte, true_and]; rw [if_pos h]
    · simp only [hj, ↓reduceIte, false_and]
  · rename_i h
    simp only [Bool.or_eq_true, decide_eq_true_eq] at h
    rw [if_neg (fun hc => h hc.2)]

theorem scheduleNode_next (g : G) (r : Req) :
    (scheduleNode g r).next =
      if accepts g r ∧ g.now < r.time ∧ olt r.time g.next = true then some r.time else g.next := by
  unfold scheduleNode accepts slotOf
  simp only [List.getD_eq_getElem?_getD]
  by_cases h : (g.slots[r.node]?.getD 0 ≤ g.now ∨ r.time < g.slots[r.node]?.getD 0)
  · by_cases h1 : g.now < r.time
    · by_cases h2 : olt r.time g.next = true
      · simp [h, h1, h2]
      · simp [h, h1, h2]
    · simp [h, h1]
  · simp [h]

theorem scheduleNode_length (g : G) (r : Req) : (scheduleNode g r).slots.length = g.slots.length := by
  unfold scheduleNode; simp only; split <;> simp

theorem scheduleNode_now (g : G) (r : Req) : (scheduleNode g r).now = g.now := by
  unfold scheduleNode; simp only; split <;> rfl

theorem olt_some (t n : Time) : olt t (some n) = true ↔ t < n := by simp [olt]
theorem olt_none (t : Time) : olt t none = true := rfl

/-- membership in the accumulator is preserved by the scan -/
theorem scanFrom_mem_acc {σ : Type} (β : Beh σ) (t : Time) (fuel i : Nat) (g : G) (u : σ) (ev : List Nat) (x : Nat)
    (hx : x ∈ ev) : x ∈ (scanFrom β t fuel i g u ev).evaluated := by
  induction fuel generalizing i g u ev with
  | zero => simpa [scanFrom] using hx
  | succ fuel ih =>
    unfold scanFrom; simp only
    split
    · split
      · exact ih _ _ _ _ (by simp [hx])
      · simp [hx]
    · split
      · exact ih _ _ _ _ hx
      · exact ih _ _ _ _ hx

/-! ### unfolding equations of the scan -/

theorem scanFrom_zero {σ : Type} (β : Beh σ) (t : Time) (i : Nat) (g : G) (u : σ) (ev : List Nat) :
    scanFrom β t 0 i g u ev = { g := { g with cursor := 0 }, st := u, evaluated := ev, ok := true } := rfl

theorem scanFrom_eval_ok {σ : Type} (β : Beh σ) (t : Time) (fuel i : Nat) (g : G) (u : σ) (ev : List Nat)
    (hs : slotOf g i = t) (hok : (β.eval i t u).ok = true) :
    scanFrom β t (fuel + 1) i g u ev =
      scanFrom β t fuel (i + 1) ((β.eval i t u).reqs.foldl scheduleNode { g with cursor := i })
        (β.eval i t u).st (ev ++ [i]) := by
  have hs' : g.slots.getD i 0 = t := hs
  rw [scanFrom]; simp only [hs', ↓reduceIte, hok]

theorem scanFrom_eval_fail {σ : Type} (β : Beh σ) (t : Time) (fuel i : Nat) (g : G) (u : σ) (ev : List Nat)
    (hs : slotOf g i = t) (hok : (β.eval i t u).ok = false) :
    (scanFrom β t (fuel + 1) i g u ev).ok = false := by
  have hs' : g.slots.getD i 0 = t := hs
  rw [scanFrom]; simp only [hs', ↓reduceIte, hok]; rfl

theorem scanFrom_fold {σ : Type} (β : Beh σ) (t : Time) (fuel i : Nat) (g : G) (u : σ) (ev : List Nat)
    (hs : t < slotOf g i) :
    scanFrom β t (fuel + 1) i g u ev =
      scanFrom β t fuel (i + 1) { g with next := omin g.next (slotOf g i), cursor := i } u ev := by
  have hs' : t < g.slots.getD i 0 := hs
  have hne : ¬ g.slots.getD i 0 = t := by omega
  rw [scanFrom]; simp only [hne, ↓reduceIte, hs', gt_iff_lt]; rfl

theorem scanFrom_skip {σ : Type} (β : Beh σ) (t : Time) (fuel i : Nat) (g : G) (u : σ) (ev : List Nat)
    (hs : slotOf g i < t) :
    scanFrom β t (fuel + 1) i g u ev = scanFrom β t fuel (i + 1) { g with cursor := i } u ev := by
  have hs' : g.slots.getD i 0 < t := hs
  have hne : ¬ g.slots.getD i 0 = t := by omega
  have hng : ¬ g.slots.getD i 0 > t := by omega
  rw [scanFrom]; simp only [hne, ↓reduceIte, hng]

theorem foldl_scheduleNode_length (reqs : List Req) (g : G) :
    (reqs.foldl scheduleNode g).slots.length = g.slots.length := by
  induction reqs generalizing g with
  | nil => rfl
  | cons r rest ih => rw [List.foldl_cons, ih, scheduleNode_length]

theorem foldl_scheduleNode_now (reqs : List Req) (g : G) : (reqs.foldl scheduleNode g).now = g.now := by
  induction reqs generalizing g with
  | nil => rfl
  | cons r rest ih => rw [List.foldl_cons, ih, scheduleNode_now]

end HgVerif.Sched
