import HgVerif.Model.Sched
/-! Helper lemmas about the generic scan (`Model/Sched.lean`). -/
namespace HgVerif.Sched

/-- every index the scan evaluates was already in the accumulator or lies at/after the start index -/
theorem scanFrom_evaluated_ge {σ : Type} (β : Beh σ) (t : Time) (fuel i : Nat) (g : G) (u : σ) (ev : List Nat) :
    ∀ x ∈ (scanFrom β t fuel i g u ev).evaluated, x ∈ ev ∨ i ≤ x := by
  induction fuel generalizing i g u ev with
  | zero => intro x hx; simp [scanFrom] at hx; exact Or.inl hx
  | succ fuel ih =>
    intro x hx
    unfold scanFrom at hx
    simp only at hx
    split at hx
    · split at hx
      · rcases ih _ _ _ _ x hx with h | h
        · simp at h
          rcases h with h | h
          · exact Or.inl h
          · exact Or.inr (by omega)
        · exact Or.inr (by omega)
      · simp at hx
        rcases hx with h | h
        · exact Or.inl h
        · exact Or.inr (by omega)
    · split at hx
      · rcases ih _ _ _ _ x hx with h | h
        · exact Or.inl h
        · exact Or.inr (by omega)
      · rcases ih _ _ _ _ x hx with h | h
        · exact Or.inl h
        · exact Or.inr (by omega)

/-- … and lies below `i + fuel` -/
theorem scanFrom_evaluated_lt {σ : Type} (β : Beh σ) (t : Time) (fuel i : Nat) (g : G) (u : σ) (ev : List Nat) :
    ∀ x ∈ (scanFrom β t fuel i g u ev).evaluated, x ∈ ev ∨ x < i + fuel := by
  induction fuel generalizing i g u ev with
  | zero => intro x hx; simp [scanFrom] at hx; exact Or.inl hx
  | succ fuel ih =>
    intro x hx
    unfold scanFrom at hx
    simp only at hx
    split at hx
    · split at hx
      · rcases ih _ _ _ _ x hx with h | h
        · simp at h
          rcases h with h | h
          · exact Or.inl h
          · exact Or.inr (by omega)
        · exact Or.inr (by omega)
      · simp at hx
        rcases hx with h | h
        · exact Or.inl h
        · exact Or.inr (by omega)
    · split at hx
      · rcases ih _ _ _ _ x hx with h | h
        · exact Or.inl h
        · exact Or.inr (by omega)
      · rcases ih _ _ _ _ x hx with h | h
        · exact Or.inl h
        · exact Or.inr (by omega)

end HgVerif.Sched
