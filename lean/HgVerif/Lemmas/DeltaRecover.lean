import HgVerif.Model.Recover
import HgVerif.Lemmas.DeltaReplay
/-!
Helper lemmas for the recover / as-of stream of C20 (`Props/C20Recover.lean` holds the property theorems):

* `apply` does not look at the stale per-cycle marks of its input (`apply_clear`) - that is why applying an
  entry through a view at the entry's own (later) time needs no explicit end-of-cycle step in between;
* list-level specification of the sparse record node (`sparseEntries`), of the value probe (`probeHist`) and of
  the ticked cycles (`tickedStates`); the node-level model (`runSparse`) connected to them;
* the as-of fold and the sparse replay over the recording of a good history.
-/
namespace HgVerif.Delta

/-! ### `apply` ignores stale marks -/

theorem valid_clear : ∀ (s : Shape) (st : St s), valid s (clear s st) = valid s st
  | .ts _, _ => rfl
  | .signal, _ => rfl
  | .tsw _ _, _ => rfl
  | .tss _ _, _ => rfl
  | .tsd _ _ _, _ => rfl
  | .tsl e _, st => by
      simp only [valid, clear]
      induction st with
      | nil => rfl
      | cons c cs ih => simp only [List.map_cons, List.any_cons, valid_clear e c, ih]
  | .tsld e, st => by
      simp only [valid, clear]
      induction st with
      | nil => rfl
      | cons c cs ih => simp only [List.map_cons, List.any_cons, valid_clear e c, ih]
  | .tsb fs, st => valid_clear fs st
  | .bnil, _ => rfl
  | .bcons f r, st => by simp only [valid, clear, valid_clear f st.1, valid_clear r st.2]

/-- a never-ticked endpoint is not valid -/
theorem valid_fresh : ∀ (s : Shape), valid s (fresh s) = false
  | .ts _ => rfl
  | .signal => rfl
  | .tsw _ _ => rfl
  | .tss _ _ => rfl
  | .tsd _ _ _ => rfl
  | .tsl e n => by
      simp only [valid, fresh]
      induction n with
      | zero => rfl
      | succ n ih => simp only [List.replicate_succ, List.any_cons, valid_fresh e, ih, Bool.or_self]
  | .tsld _ => rfl
  | .tsb fs => valid_fresh fs
  | .bnil => rfl
  | .bcons f r => by simp only [valid, fresh, valid_fresh f, valid_fresh r, Bool.or_self]

theorem removesPresent_map {σ δ : Type} (f : σ → σ) : ∀ (ss : List (Option σ)) (ops : List (KeyOp δ)),
    removesPresent (ss.map (Option.map f)) ops = removesPresent ss ops
  | [], _ => by simp [removesPresent]
  | none :: ss, [] => by simp [removesPresent]
  | some _ :: ss, [] => by simp [removesPresent]
  | none :: ss, op :: ops => by
      simp only [List.map_cons, Option.map_none, removesPresent]
      exact removesPresent_map f ss ops
  | some _ :: ss, op :: ops => by
      simp only [List.map_cons, Option.map_some, removesPresent]
      rw [removesPresent_map f ss ops]

theorem hasEffect_tsd_clear (b : Bool) (u : Nat) (v : Shape) (st : DictSt (St v)) (d : List (KeyOp (Dl v))) :
    hasEffect (.tsd b u v) (clear (.tsd b u v) st) d = hasEffect (.tsd b u v) st d := by
  simp only [hasEffect, clear, removesPresent_map]

theorem hasEffect_clear : ∀ (s : Shape) (st : St s) (d : Dl s), hasEffect s (clear s st) d = hasEffect s st d
  | .ts _, _, _ => rfl
  | .signal, _, _ => rfl
  | .tsw _ _, _, _ => rfl
  | .tss _ _, _, _ => rfl
  | .tsd b u v, st, d => hasEffect_tsd_clear b u v st d
  | .tsl _ _, _, _ => rfl
  | .tsld _, _, _ => rfl
  | .tsb fs, st, d => hasEffect_clear fs st d
  | .bnil, _, _ => rfl
  | .bcons f r, st, d => by
      simp only [hasEffect, clear]
      rw [hasEffect_clear r st.2 d.2]
      cases d.1 with
      | none => rfl
      | some df => simp only [hasEffect_clear f st.1 df]

theorem dictApply_clr {σ δ : Type} (freshC : σ) (app : σ → δ → σ) (clr : σ → σ) (vld : σ → Bool)
    (hcc : ∀ c, clr (clr c) = clr c) (hac : ∀ c d, app (clr c) d = app c d) (hvc : ∀ c, vld (clr c) = vld c) :
    ∀ (ss : List (Option σ)) (ops : List (KeyOp δ)),
      dictApply freshC app clr vld (ss.map (Option.map clr)) ops = dictApply freshC app clr vld ss ops
  | [], _ => by simp [dictApply]
  | old :: ss, [] => by
      simp only [List.map_cons, dictApply]
      rw [dictApply_clr freshC app clr vld hcc hac hvc ss []]
      cases old <;> simp [hcc]
  | old :: ss, op :: ops => by
      simp only [List.map_cons, dictApply]
      rw [dictApply_clr freshC app clr vld hcc hac hvc ss ops]
      cases op.modified with
      | some dk => cases old <;> simp [hac]
      | none =>
        cases op.removed with
        | true => cases old <;> simp [hvc]
        | false => cases old <;> simp [hcc]

theorem listApply_clr {σ δ : Type} (app : σ → δ → σ) (clr : σ → σ)
    (hcc : ∀ c, clr (clr c) = clr c) (hac : ∀ c d, app (clr c) d = app c d) :
    ∀ (cs : List σ) (ds : List (Option δ)), listApply app clr (cs.map clr) ds = listApply app clr cs ds
  | [], _ => by simp [listApply]
  | c :: cs, [] => by
      simp only [List.map_cons, listApply, hcc]
      rw [listApply_clr app clr hcc hac cs []]
  | c :: cs, od :: ods => by
      simp only [List.map_cons, listApply]
      rw [listApply_clr app clr hcc hac cs ods]
      cases od <;> simp [hcc, hac]

theorem dynApply_clr {σ δ : Type} (freshC : σ) (app : σ → δ → σ) (clr : σ → σ)
    (hcc : ∀ c, clr (clr c) = clr c) (hac : ∀ c d, app (clr c) d = app c d) :
    ∀ (cs : List σ) (ds : List (Option δ)), dynApply freshC app clr (cs.map clr) ds = dynApply freshC app clr cs ds
  | [], _ => by simp [dynApply]
  | c :: cs, [] => by
      simp only [List.map_cons, dynApply, hcc]
      rw [dynApply_clr freshC app clr hcc hac cs []]
  | c :: cs, od :: ods => by
      simp only [List.map_cons, dynApply]
      rw [dynApply_clr freshC app clr hcc hac cs ods]
      cases od <;> simp [hcc, hac]

theorem apply_tsd_clear (b : Bool) (u : Nat) (v : Shape) (ihc : ∀ c d, apply v (clear v c) d = apply v c d)
    (st : DictSt (St v)) (d : List (KeyOp (Dl v))) :
    apply (.tsd b u v) (clear (.tsd b u v) st) d = apply (.tsd b u v) st d := by
  have hc := clear_clear (.tsd b u v) st
  have hd := dictApply_clr (fresh v) (apply v) (clear v) (valid v) (clear_clear v) ihc (valid_clear v) st.slots d
  simp only [apply, hasEffect_tsd_clear]
  cases hasEffect (.tsd b u v) st d with
  | true => simp only [clear, hd, ↓reduceIte]; rfl
  | false => simpa using hc

/-- Applying a delta in a new cycle gives the same result whether or not the marks of the previous cycle were
    cleared first: nothing in `apply_delta` reads them. -/
theorem apply_clear : ∀ (s : Shape) (st : St s) (d : Dl s), apply s (clear s st) d = apply s st d
  | .ts _, _, _ => rfl
  | .signal, _, _ => rfl
  | .tsw _ _, _, _ => rfl
  | .tss b u, st, d => by
      have hc := clear_clear (.tss b u) st
      simp only [apply, hasEffect_clear]
      cases hasEffect (.tss b u) st d with
      | true => rfl
      | false => simpa using hc
  | .tsd b u v, st, d => apply_tsd_clear b u v (apply_clear v) st d
  | .tsl e _, st, d => by
      simp only [apply, clear]
      exact listApply_clr (apply e) (clear e) (clear_clear e) (apply_clear e) st d
  | .tsld e, st, d => by
      simp only [apply, clear]
      exact dynApply_clr (fresh e) (apply e) (clear e) (clear_clear e) (apply_clear e) st d
  | .tsb fs, st, d => apply_clear fs st d
  | .bnil, _, _ => rfl
  | .bcons f r, st, d => by
      simp only [apply, clear]
      rw [apply_clear r st.2 d.2]
      cases d.1 with
      | none => simp only [clear_clear f st.1]; rfl
      | some df => simp only [apply_clear f st.1 df]; rfl

theorem apply_congr_clear (s : Shape) (a b : St s) (d : Dl s) (h : clear s a = clear s b) :
    apply s a d = apply s b d := by
  rw [← apply_clear s a d, ← apply_clear s b d, h]

/-! ### the sparse record node, the probe and the ticked cycles as list functions -/

/-- the sparse record node over consecutive cycles `c, c+1, …` -/
def sparseRecordHist {s : Shape} : List (St s) → Nat → Recording s → Recording s
  | [], _, rec => rec
  | m :: rest, c, rec => sparseRecordHist rest (c + 1) (sparseRecordEval rec c m)

/-- `(cycle, end-of-cycle state)` of the cycles in which the series ticked -/
def tickedStates (s : Shape) : List (St s) → Nat → List (Nat × St s)
  | [], _ => []
  | m :: rest, c => (if modified s m then [(c, m)] else []) ++ tickedStates s rest (c + 1)

/-- what the sparse record node appends for a history that starts at cycle `c` -/
def sparseEntries (s : Shape) : List (St s) → Nat → Recording s
  | [], _ => []
  | m :: rest, c => (if modified s m then [(c, capture s m)] else []) ++ sparseEntries s rest (c + 1)

/-- what the value probe stores -/
def probeHist (s : Shape) : List (St s) → Nat → List (Nat × St s)
  | [], _ => []
  | m :: rest, c => (if modified s m && valid s m then [(c, clear s m)] else []) ++ probeHist s rest (c + 1)

theorem sparseRecordHist_eq {s : Shape} : ∀ (hist : List (St s)) (c : Nat) (rec : Recording s),
    sparseRecordHist hist c rec = rec ++ sparseEntries s hist c
  | [], _, rec => by simp [sparseRecordHist, sparseEntries]
  | m :: rest, c, rec => by
      simp only [sparseRecordHist, sparseEntries, sparseRecordEval]
      rw [sparseRecordHist_eq rest (c + 1)]
      cases modified s m <;> simp

theorem sparseEntries_eq_map (s : Shape) : ∀ (hist : List (St s)) (c : Nat),
    sparseEntries s hist c = (tickedStates s hist c).map fun e => (e.1, capture s e.2)
  | [], _ => rfl
  | m :: rest, c => by
      simp only [sparseEntries, tickedStates, List.map_append, sparseEntries_eq_map s rest (c + 1)]
      cases modified s m <;> simp

theorem probeHist_eq_filterMap (s : Shape) : ∀ (hist : List (St s)) (c : Nat),
    probeHist s hist c = (tickedStates s hist c).filterMap fun e =>
      if modified s e.2 && valid s e.2 then some (e.1, clear s e.2) else none
  | [], _ => rfl
  | m :: rest, c => by
      simp only [probeHist, tickedStates, List.filterMap_append, probeHist_eq_filterMap s rest (c + 1)]
      cases hm : modified s m <;> cases hv : valid s m <;> simp [hm, hv]

theorem tickedStates_ge (s : Shape) : ∀ (hist : List (St s)) (c : Nat), ∀ e ∈ tickedStates s hist c, c ≤ e.1
  | [], _, e, h => by simp [tickedStates] at h
  | m :: rest, c, e, h => by
      simp only [tickedStates, List.mem_append] at h
      rcases h with h | h
      · cases hm : modified s m with
        | false => simp [hm] at h
        | true =>
          simp only [hm, ↓reduceIte, List.mem_singleton] at h
          subst h
          exact Nat.le_refl _
      · exact Nat.le_of_succ_le (tickedStates_ge s rest (c + 1) e h)

theorem sparseEntries_ge (s : Shape) (hist : List (St s)) (c : Nat) : ∀ e ∈ sparseEntries s hist c, c ≤ e.1 := by
  intro e he
  rw [sparseEntries_eq_map] at he
  obtain ⟨x, hx, rfl⟩ := List.mem_map.mp he
  exact tickedStates_ge s hist c x hx

theorem probeHist_ge (s : Shape) (hist : List (St s)) (c : Nat) : ∀ e ∈ probeHist s hist c, c ≤ e.1 := by
  intro e he
  rw [probeHist_eq_filterMap] at he
  obtain ⟨x, hx, hxe⟩ := List.mem_filterMap.mp he
  have := tickedStates_ge s hist c x hx
  split at hxe
  · cases hxe; exact this
  · cases hxe

/-- the record node writes strictly increasing times: one entry per cycle at most -/
theorem sparseEntries_increasing (s : Shape) : ∀ (hist : List (St s)) (c : Nat),
    (sparseEntries s hist c).Pairwise (fun a b => a.1 < b.1)
  | [], _ => List.Pairwise.nil
  | m :: rest, c => by
      simp only [sparseEntries]
      cases modified s m with
      | false => simpa using sparseEntries_increasing s rest (c + 1)
      | true =>
        simp only [↓reduceIte, List.singleton_append, List.pairwise_cons]
        exact ⟨fun e he => sparseEntries_ge s rest (c + 1) e he, sparseEntries_increasing s rest (c + 1)⟩

/-! ### the graph `replay -> sparse record (+ probe)` -/

theorem runSparse_spec {s : Shape} (inp : Buffer s) :
    ∀ (fuel i : Nat) (out : St s) (rec : Recording s) (live : List (Nat × St s)),
    i < inp.length → inp.length - i ≤ fuel →
    runSparse inp fuel i i out rec live =
      (rec ++ sparseEntries s (replayStates s out (inp.drop i)) i,
       live ++ probeHist s (replayStates s out (inp.drop i)) i)
  | 0, i, out, rec, live, h1, h2 => by omega
  | fuel + 1, i, out, rec, live, h1, h2 => by
      have hget : inp[i]? = some inp[i] := List.getElem?_eq_getElem h1
      have hdrop : inp.drop i = inp[i] :: inp.drop (i + 1) := (List.drop_eq_getElem_cons h1)
      simp only [runSparse, replayEval_eq inp i out _ hget]
      rw [hdrop]
      simp only [replayStates, sparseEntries, probeHist, sparseRecordEval]
      by_cases hlt : i + 1 < inp.length
      · simp only [hlt, decide_true, ↓reduceIte]
        rw [runSparse_spec inp fuel (i + 1) _ _ _ hlt (by omega)]
        cases modified s (stepOut s out inp[i]) <;> cases valid s (stepOut s out inp[i]) <;> simp
      · simp only [hlt, decide_false, Bool.false_eq_true, ↓reduceIte]
        have : inp.drop (i + 1) = [] := List.drop_eq_nil_of_le (by omega)
        rw [this]
        cases modified s (stepOut s out inp[i]) <;> cases valid s (stepOut s out inp[i]) <;>
          simp [replayStates, sparseEntries, probeHist]

/-! ### the as-of fold over the recording of a good history -/

theorem recoverFrom_later (s : Shape) (c : Nat) (st : St s) :
    ∀ (rec : Recording s), (∀ e ∈ rec, c < e.1) → recoverFrom s c st rec = st
  | [], _ => rfl
  | e :: es, h => by simp [recoverFrom, h e (List.mem_cons_self)]

theorem take_succ_sub {α : Type} (m : α) (rest : List α) (c c0 : Nat) (h : c0 ≤ c) :
    (m :: rest).take (c + 1 - c0) = m :: rest.take (c + 1 - (c0 + 1)) := by
  have : c + 1 - c0 = (c + 1 - (c0 + 1)) + 1 := by omega
  rw [this, List.take_succ_cons]

/-- Folding the recording of a good history as of cycle `c`, every entry at its own time, leaves the scratch
    output in the state (value and validity; the marks are those of the last entry) the recorded series had at
    the end of cycle `c`. -/
theorem recoverFrom_hist {s : Shape} (hw : wfShape s = true) (hs : isFields s = false) (c : Nat) :
    ∀ (hist : List (St s)) (pre st : St s) (c0 : Nat), GoodHist s pre hist → clear s st = clear s pre →
      clear s (recoverFrom s c st (sparseEntries s hist c0)) = clear s (lastD (hist.take (c + 1 - c0)) pre)
  | [], pre, st, c0, _, hst => by simpa [sparseEntries, recoverFrom, lastD] using hst
  | m :: rest, pre, st, c0, h, hst => by
      by_cases hc : c < c0
      · have h0 : c + 1 - c0 = 0 := by omega
        rw [h0, List.take_zero, recoverFrom_later s c st _ (fun e he =>
          Nat.lt_of_lt_of_le hc (sparseEntries_ge s (m :: rest) c0 e he))]
        simpa [lastD] using hst
      · have hle : c0 ≤ c := Nat.le_of_not_lt hc
        rw [take_succ_sub m rest c c0 hle]
        simp only [lastD, sparseEntries]
        cases hm : modified s m with
        | true =>
          simp only [↓reduceIte, List.singleton_append, recoverFrom, hc]
          have hap : apply s st (capture s m) = m := by
            rw [apply_congr_clear s st pre _ hst]
            exact (apply_capture_aux s hw).1 hs pre m h.1 hm
          rw [hap]
          exact recoverFrom_hist hw hs c rest m m (c0 + 1) h.2 rfl
        | false =>
          simp only [Bool.false_eq_true, ↓reduceIte, List.nil_append]
          have hu := tick_unmodified s pre m h.1 hm
          exact recoverFrom_hist hw hs c rest m st (c0 + 1) h.2 (by rw [hst, hu, clear_clear])

/-- an optional value: what a reader that checks `valid()` first sees -/
def optVal (s : Shape) (st : St s) : Option (St s) := if valid s st then some (clear s st) else none

theorem optVal_clear (s : Shape) (st : St s) : optVal s (clear s st) = optVal s st := by
  simp only [optVal, valid_clear, clear_clear]

theorem liveAt_foldl_later {σ : Type} (c : Nat) : ∀ (es : List (Nat × σ)) (acc : Option σ), (∀ e ∈ es, c < e.1) →
    es.foldl (fun acc e => if e.1 ≤ c then some e.2 else acc) acc = acc
  | [], _, _ => rfl
  | e :: es, acc, h => by
      have he := h e List.mem_cons_self
      simp only [List.foldl_cons, show ¬ e.1 ≤ c from by omega, ↓reduceIte]
      exact liveAt_foldl_later c es acc (fun x hx => h x (List.mem_cons_of_mem _ hx))

/-- the value the probe last saw at or before cycle `c` is the (valid) value of the series at the end of `c` -/
theorem probe_hist {s : Shape} (c : Nat) :
    ∀ (hist : List (St s)) (pre : St s) (c0 : Nat) (acc : Option (St s)), GoodHist s pre hist → acc = optVal s pre →
      (probeHist s hist c0).foldl (fun acc e => if e.1 ≤ c then some e.2 else acc) acc =
        optVal s (lastD (hist.take (c + 1 - c0)) pre)
  | [], pre, c0, acc, _, hacc => by simpa [probeHist, lastD] using hacc
  | m :: rest, pre, c0, acc, h, hacc => by
      by_cases hc : c < c0
      · have h0 : c + 1 - c0 = 0 := by omega
        rw [h0, List.take_zero, liveAt_foldl_later c _ acc (fun e he =>
          Nat.lt_of_lt_of_le hc (probeHist_ge s (m :: rest) c0 e he))]
        simpa [lastD] using hacc
      · have hle : c0 ≤ c := Nat.le_of_not_lt hc
        rw [take_succ_sub m rest c c0 hle]
        simp only [lastD, probeHist]
        cases hm : modified s m with
        | true =>
          have hv := tick_valid s pre m h.1 hm
          simp only [hv, Bool.and_self, ↓reduceIte, List.singleton_append, List.foldl_cons, hle]
          exact probe_hist c rest m (c0 + 1) _ h.2 (by simp [optVal, hv])
        | false =>
          simp only [Bool.false_and, Bool.false_eq_true, ↓reduceIte, List.nil_append]
          have hu := tick_unmodified s pre m h.1 hm
          exact probe_hist c rest m (c0 + 1) acc h.2 (by rw [hacc, hu, optVal_clear])

/-! ### the ordinary sparse replay of the recording of a good history -/

theorem sparseReplay_hist {s : Shape} (hw : wfShape s = true) (hs : isFields s = false) :
    ∀ (hist : List (St s)) (pre out : St s) (c0 now : Nat), GoodHist s pre hist → clear s out = clear s pre →
      now ≤ c0 → sparseReplay s now out (sparseEntries s hist c0) = tickedStates s hist c0
  | [], _, _, _, _, _, _, _ => rfl
  | m :: rest, pre, out, c0, now, h, hout, hnow => by
      simp only [sparseEntries, tickedStates]
      cases hm : modified s m with
      | true =>
        have hap : apply s out (capture s m) = m := by
          rw [apply_congr_clear s out pre _ hout]
          exact (apply_capture_aux s hw).1 hs pre m h.1 hm
        simp only [↓reduceIte, List.singleton_append, sparseReplay, show ¬ c0 < now from by omega, hap]
        rw [sparseReplay_hist hw hs rest m m (c0 + 1) (c0 + 1) h.2 rfl (Nat.le_refl _)]
      | false =>
        simp only [Bool.false_eq_true, ↓reduceIte, List.nil_append]
        have hu := tick_unmodified s pre m h.1 hm
        exact sparseReplay_hist hw hs rest m out (c0 + 1) now h.2 (by rw [hout, hu, clear_clear]) (by omega)

theorem tickedStates_modified (s : Shape) : ∀ (hist : List (St s)) (c : Nat), ∀ e ∈ tickedStates s hist c,
    modified s e.2 = true
  | [], _, e, h => by simp [tickedStates] at h
  | m :: rest, c, e, h => by
      simp only [tickedStates, List.mem_append] at h
      rcases h with h | h
      · cases hm : modified s m with
        | false => simp [hm] at h
        | true =>
          simp only [hm, ↓reduceIte, List.mem_singleton] at h
          subst h
          exact hm
      · exact tickedStates_modified s rest (c + 1) e h

theorem record_ticked {s : Shape} : ∀ (evals : List (Nat × St s)) (acc : Recording s),
    (∀ e ∈ evals, modified s e.2 = true) →
    evals.foldl (fun acc e => sparseRecordEval acc e.1 e.2) acc = acc ++ evals.map fun e => (e.1, capture s e.2)
  | [], acc, _ => by simp
  | e :: es, acc, h => by
      have he := h e List.mem_cons_self
      have h1 : sparseRecordEval acc e.1 e.2 = acc ++ [(e.1, capture s e.2)] := by simp [sparseRecordEval, he]
      simp only [List.foldl_cons, List.map_cons, h1]
      rw [record_ticked es _ (fun x hx => h x (List.mem_cons_of_mem _ hx))]
      simp

theorem goodHist_take {s : Shape} : ∀ (hist : List (St s)) (pre : St s) (n : Nat), GoodHist s pre hist →
    GoodHist s pre (hist.take n)
  | [], _, n, _ => by simp [GoodHist]
  | m :: rest, pre, 0, _ => by simp [GoodHist]
  | m :: rest, pre, n + 1, h => by
      simp only [List.take_succ_cons, GoodHist]
      exact ⟨h.1, goodHist_take rest m n h.2⟩

/-! ### `lastD` of a prefix -/

theorem lastD_take_get {α : Type} : ∀ (l : List α) (c : Nat) (d : α) (h : c < l.length),
    lastD (l.take (c + 1)) d = l[c]
  | [], _, _, h => by simp at h
  | x :: xs, 0, d, _ => by simp [lastD]
  | x :: xs, c + 1, d, h => by
      simp only [List.take_succ_cons, lastD, List.getElem_cons_succ]
      exact lastD_take_get xs c x (by simpa using h)

theorem lastD_take_all {α : Type} (l : List α) (c : Nat) (d : α) (h : l.length ≤ c + 1) :
    lastD (l.take (c + 1)) d = lastD l d := by
  rw [List.take_of_length_le h]

end HgVerif.Delta
