import HgVerif.Model.Slots
/-!
Helper lemmas for C05, fixed TSL / TSB part: with non-decreasing times a child write is
`kids[i] := (v, t); lmt := t`.
-/
namespace HgVerif.Slots
local notation "Time" => Nat

/-- no child is newer than its parent -/
structure Fixed.WF (x : Fixed) : Prop where
  le : ∀ p ∈ x.kids, p.2 ≤ x.lmt

theorem Fixed.WF_init (n : Nat) : (Fixed.init n).WF := by
  refine ⟨?_⟩
  intro p hp
  simp [Fixed.init] at hp
  simp [hp.2, Fixed.init]

theorem Fixed.write_sorted {x : Fixed} (h : x.WF) {i : Nat} {t : Time} (v : Int) (hi : i < x.kids.length)
    (ht : x.lmt ≤ t) : x.write i t v = { kids := x.kids.set i (v, t), lmt := t } := by
  have hc : (x.kids.getD i (0, 0)).2 ≤ x.lmt := by
    have : x.kids.getD i (0, 0) = x.kids[i] := by simp [List.getD, hi]
    rw [this]; exact h.le _ (List.getElem_mem hi)
  unfold Fixed.write
  simp only
  by_cases hne : ((x.kids.getD i (0, 0)).2 != t) = true
  · simp only [hne, ↓reduceIte]
    have hne' : (x.kids.getD i (0, 0)).2 ≠ t := by simpa using hne
    have hnle : ¬ t ≤ (x.kids.getD i (0, 0)).2 := by omega
    simp only [hnle, ↓reduceIte, recMod]
    by_cases hl : t ≤ x.lmt
    · have : x.lmt = t := by omega
      simp [hl, this]
    · simp [hl]
  · simp only [hne, Bool.false_eq_true, ↓reduceIte]
    have he : (x.kids.getD i (0, 0)).2 = t := by simpa using hne
    have : x.lmt = t := by omega
    rw [he]
    cases x
    simp_all

theorem Fixed.write_wf {x : Fixed} (h : x.WF) {i : Nat} {t : Time} (v : Int) (hi : i < x.kids.length)
    (ht : x.lmt ≤ t) : (x.write i t v).WF := by
  rw [Fixed.write_sorted h v hi ht]
  refine ⟨?_⟩
  intro p hp
  simp only at hp ⊢
  rcases List.mem_or_eq_of_mem_set hp with hp | hp
  · have := h.le p hp; omega
  · rw [hp]; exact Nat.le_refl t

end HgVerif.Slots
