import HgVerif.Lemmas.MapNode
/-!
Helper lemmas for C10, second part: the per-slot ("solo") machine and the refinement of every phase of
`MapNode.cycle` to it.  Core Lean only.
-/
set_option linter.unusedSimpArgs false
set_option linter.unusedVariables false

namespace HgVerif.MapNode

local notation "Time" => Nat

variable {κ σ ι ο ε : Type}

/-! ## one slot on its own: the per-key machine -/

/-- what the loop body does to a started entry of slot `s` (up to `pulled_when`) -/
def soloEvalE (B : Beh κ σ ι ο ε) (c : Bool) (I : CycleIn κ ι) (s : Nat) (e : Entry κ σ ο ε) : Entry κ σ ο ε :=
  if e.started then (childEval B c I (if I.late.contains s then notifyE I.now e else e)).e else e

/-- the output tick of slot `s` in this cycle -/
def tickOf (B : Beh κ σ ι ο ε) (c : Bool) (I : CycleIn κ ι) (s : Nat) : Option (Entry κ σ ο ε) → Option (κ × ο)
  | some e => if e.started then
      (childEval B c I (if I.late.contains s then notifyE I.now e else e)).out.map (fun v => (e.key, v)) else none
  | none => none

/-- the captured error of slot `s` in this cycle -/
def errOf (B : Beh κ σ ι ο ε) (c : Bool) (I : CycleIn κ ι) (s : Nat) : Option (Entry κ σ ο ε) → Option (κ × ε)
  | some e => if e.started then
      (childEval B c I (if I.late.contains s then notifyE I.now e else e)).err.map (fun v => (e.key, v)) else none
  | none => none

/-- the input notification reaches started children only -/
def notifyS (now : Time) (e : Entry κ σ ο ε) : Entry κ σ ο ε := if e.started then notifyE now e else e

/-- is there a started entry -/
def startedO : Option (Entry κ σ ο ε) → Bool
  | some e => e.started
  | none => false

/-- one cycle as seen by slot `s` alone: erase, input notification, key-set removal / addition,
    late notification and evaluation.  No heap, no candidate set, no other slot. -/
def soloStep (B : Beh κ σ ι ο ε) (c : Bool) (I : CycleIn κ ι) (s : Nat) (o : Option (Entry κ σ ο ε)) :
    Option (Entry κ σ ο ε) :=
  let o1 := if s ∈ I.erased then none else o
  let o2 := if s ∈ I.notified then o1.map (notifyS I.now) else o1
  let o3 := if I.keysModified = true ∧ s ∈ I.removed then o2.map stopE else o2
  let o4 := if I.keysModified = true then
      match I.added.find? (fun sk => sk.1 == s) with
      | some sk => if startedO o3 then o3 else some (createE B I sk.2 o3)
      | none => o3
    else o3
  o4.map (soloEvalE B c I s)

/-- the entry of slot `s` before the loop, as `soloStep` computes it -/
def soloPre (B : Beh κ σ ι ο ε) (I : CycleIn κ ι) (s : Nat) (o : Option (Entry κ σ ο ε)) : Option (Entry κ σ ο ε) :=
  let o1 := if s ∈ I.erased then none else o
  let o2 := if s ∈ I.notified then o1.map (notifyS I.now) else o1
  let o3 := if I.keysModified = true ∧ s ∈ I.removed then o2.map stopE else o2
  if I.keysModified = true then
    match I.added.find? (fun sk => sk.1 == s) with
    | some sk => if startedO o3 then o3 else some (createE B I sk.2 o3)
    | none => o3
  else o3

theorem soloStep_eq (B : Beh κ σ ι ο ε) (c : Bool) (I : CycleIn κ ι) (s : Nat) (o : Option (Entry κ σ ο ε)) :
    soloStep B c I s o = (soloPre B I s o).map (soloEvalE B c I s) := rfl

/-- equality up to `pulled_when` -/
def SEq (o o' : Option (Entry κ σ ο ε)) : Prop := o.map strip = o'.map strip

theorem SEq.refl (o : Option (Entry κ σ ο ε)) : SEq o o := rfl
theorem SEq.trans {a b d : Option (Entry κ σ ο ε)} (h1 : SEq a b) (h2 : SEq b d) : SEq a d := Eq.trans h1 h2
theorem SEq.symm {a b : Option (Entry κ σ ο ε)} (h : SEq a b) : SEq b a := Eq.symm h

theorem SEq.some_iff {e e' : Entry κ σ ο ε} : SEq (some e) (some e') ↔ strip e = strip e' := by
  simp [SEq]

theorem SEq.none_left {o : Option (Entry κ σ ο ε)} (h : SEq none o) : o = none := by
  cases o with
  | none => rfl
  | some e => simp [SEq] at h

theorem SEq.none_right {o : Option (Entry κ σ ο ε)} (h : SEq o none) : o = none := by
  cases o with
  | none => rfl
  | some e => simp [SEq] at h

/-- a function on entries that does not look at `pulled_when` -/
def StripCongr (f : Entry κ σ ο ε → Entry κ σ ο ε) : Prop := ∀ e e', strip e = strip e' → strip (f e) = strip (f e')

theorem SEq.map {f : Entry κ σ ο ε → Entry κ σ ο ε} (hf : StripCongr f) {o o' : Option (Entry κ σ ο ε)}
    (h : SEq o o') : SEq (o.map f) (o'.map f) := by
  cases o with
  | none => rw [SEq.none_left h]; rfl
  | some e =>
    cases o' with
    | none => simp [SEq] at h
    | some e' => simp only [Option.map_some]; exact SEq.some_iff.mpr (hf e e' (SEq.some_iff.mp h))

theorem strip_eq_fields {e e' : Entry κ σ ο ε} (h : strip e = strip e') :
    e.key = e'.key ∧ e.started = e'.started ∧ e.st = e'.st ∧ e.next = e'.next ∧ e.outv = e'.outv ∧ e.errv = e'.errv := by
  have h1 := congrArg Entry.key h
  have h2 := congrArg Entry.started h
  have h3 := congrArg Entry.st h
  have h4 := congrArg Entry.next h
  have h5 := congrArg Entry.outv h
  have h6 := congrArg Entry.errv h
  simp at h1 h2 h3 h4 h5 h6
  exact ⟨h1, h2, h3, h4, h5, h6⟩

theorem strip_ext {e e' : Entry κ σ ο ε} (h1 : e.key = e'.key) (h2 : e.started = e'.started) (h3 : e.st = e'.st)
    (h4 : e.next = e'.next) (h5 : e.outv = e'.outv) (h6 : e.errv = e'.errv) : strip e = strip e' := by
  cases e; cases e'; simp [strip] at *; exact ⟨h1, h2, h3, h4, h5, h6⟩

theorem notifyE_congr (now : Time) : StripCongr (notifyE (κ := κ) (σ := σ) (ο := ο) (ε := ε) now) := by
  intro e e' h
  obtain ⟨h1, h2, h3, h4, h5, h6⟩ := strip_eq_fields h
  apply strip_ext <;> simp [notifyE, *]

theorem stopE_congr : StripCongr (stopE (κ := κ) (σ := σ) (ο := ο) (ε := ε)) := by
  intro e e' h
  obtain ⟨h1, h2, h3, h4, h5, h6⟩ := strip_eq_fields h
  apply strip_ext <;> simp [stopE, *]

theorem childEval_congr (B : Beh κ σ ι ο ε) (c : Bool) (I : CycleIn κ ι) {e e' : Entry κ σ ο ε}
    (h : strip e = strip e') :
    strip (childEval B c I e).e = strip (childEval B c I e').e ∧ (childEval B c I e).out = (childEval B c I e').out ∧
    (childEval B c I e).err = (childEval B c I e').err ∧ (childEval B c I e).ok = (childEval B c I e').ok ∧
    (childEval B c I e).ran = (childEval B c I e').ran := by
  obtain ⟨h1, h2, h3, h4, h5, h6⟩ := strip_eq_fields h
  unfold childEval
  rw [h1, h3, h4]
  by_cases hd : e'.next ≤ I.now
  · simp only [hd, if_true]
    generalize B.step e'.key I.now (I.input e'.key) e'.st = sr
    cases hs : sr.err with
    | none => refine ⟨?_, ?_, ?_, ?_, ?_⟩ <;> first | rfl | trivial | (apply strip_ext <;> simp [*])
    | some x =>
      cases c <;> (refine ⟨?_, ?_, ?_, ?_, ?_⟩ <;> first | rfl | trivial | (apply strip_ext <;> simp [*]))
  · simp only [hd, if_false]
    exact ⟨h, trivial, trivial, trivial, trivial⟩

theorem soloEvalE_congr (B : Beh κ σ ι ο ε) (c : Bool) (I : CycleIn κ ι) (s : Nat) : StripCongr (soloEvalE B c I s) := by
  intro e e' h
  have hst := (strip_eq_fields h).2.1
  unfold soloEvalE
  rw [hst]
  split
  · split
    · exact (childEval_congr B c I (notifyE_congr I.now e e' h)).1
    · exact (childEval_congr B c I h).1
  · exact h

theorem createE_congr (B : Beh κ σ ι ο ε) (I : CycleIn κ ι) (k : κ) {o o' : Option (Entry κ σ ο ε)} (h : SEq o o') :
    strip (createE B I k o) = strip (createE B I k o') := by
  cases o with
  | none => rw [SEq.none_left h]
  | some e =>
    cases o' with
    | none => simp [SEq] at h
    | some e' =>
      have h' := SEq.some_iff.mp h
      obtain ⟨h1, h2, h3, h4, h5, h6⟩ := strip_eq_fields h'
      unfold createE
      simp only [h2]
      split
      · exact h'
      · rw [h1, h3]

theorem started_of_SEq {o o' : Option (Entry κ σ ο ε)} (h : SEq o o') : startedO o = startedO o' := by
  cases o with
  | none => rw [SEq.none_left h]
  | some e =>
    cases o' with
    | none => simp [SEq] at h
    | some e' => exact (strip_eq_fields (SEq.some_iff.mp h)).2.1

theorem soloPre_congr (B : Beh κ σ ι ο ε) (I : CycleIn κ ι) (s : Nat) {o o' : Option (Entry κ σ ο ε)}
    (h : SEq o o') : SEq (soloPre B I s o) (soloPre B I s o') := by
  unfold soloPre
  simp only
  have h1 : SEq (if s ∈ I.erased then none else o) (if s ∈ I.erased then none else o') := by
    split
    · exact SEq.refl _
    · exact h
  generalize (if s ∈ I.erased then none else o) = a at h1
  generalize (if s ∈ I.erased then none else o') = a' at h1
  have hn : StripCongr (notifyS (κ := κ) (σ := σ) (ο := ο) (ε := ε) I.now) := by
    intro e e' he
    have := (strip_eq_fields he).2.1
    unfold notifyS
    simp only [this]
    split
    · exact notifyE_congr I.now e e' he
    · exact he
  have h2 : SEq (if s ∈ I.notified then a.map (notifyS I.now) else a)
      (if s ∈ I.notified then a'.map (notifyS I.now) else a') := by
    split
    · exact SEq.map hn h1
    · exact h1
  generalize (if s ∈ I.notified then a.map (notifyS I.now) else a) = b at h2
  generalize (if s ∈ I.notified then a'.map (notifyS I.now) else a') = b' at h2
  have h3 : SEq (if I.keysModified = true ∧ s ∈ I.removed then b.map stopE else b)
      (if I.keysModified = true ∧ s ∈ I.removed then b'.map stopE else b') := by
    split
    · exact SEq.map stopE_congr h2
    · exact h2
  generalize (if I.keysModified = true ∧ s ∈ I.removed then b.map stopE else b) = d at h3
  generalize (if I.keysModified = true ∧ s ∈ I.removed then b'.map stopE else b') = d' at h3
  split
  · split
    · rw [started_of_SEq h3]
      split
      · exact h3
      · exact SEq.some_iff.mpr (createE_congr B I _ h3)
    · exact h3
  · exact h3

theorem soloStep_congr (B : Beh κ σ ι ο ε) (c : Bool) (I : CycleIn κ ι) (s : Nat) {o o' : Option (Entry κ σ ο ε)}
    (h : SEq o o') : SEq (soloStep B c I s o) (soloStep B c I s o') := by
  rw [soloStep_eq, soloStep_eq]
  exact SEq.map (soloEvalE_congr B c I s) (soloPre_congr B I s h)

/-! ## the phases of a cycle, slot by slot -/

/-- `on_erase` and the input notification, for one slot -/
def soloUp (I : CycleIn κ ι) (s : Nat) (o : Option (Entry κ σ ο ε)) : Option (Entry κ σ ο ε) :=
  let o1 := if s ∈ I.erased then none else o
  if s ∈ I.notified then o1.map (notifyS I.now) else o1

/-- key-set removal and addition, for one slot -/
def soloRec (B : Beh κ σ ι ο ε) (I : CycleIn κ ι) (s : Nat) (o : Option (Entry κ σ ο ε)) : Option (Entry κ σ ο ε) :=
  let o3 := if I.keysModified = true ∧ s ∈ I.removed then o.map stopE else o
  if I.keysModified = true then
    match I.added.find? (fun sk => sk.1 == s) with
    | some sk => if startedO o3 then o3 else some (createE B I sk.2 o3)
    | none => o3
  else o3

theorem soloPre_eq (B : Beh κ σ ι ο ε) (I : CycleIn κ ι) (s : Nat) (o : Option (Entry κ σ ο ε)) :
    soloPre B I s o = soloRec B I s (soloUp I s o) := rfl

theorem notifyS_idem (now : Time) (e : Entry κ σ ο ε) : notifyS now (notifyS now e) = notifyS now e := by
  cases e with
  | mk key started st next pw outv errv =>
    cases started with
    | false => rfl
    | true =>
      simp only [notifyS, notifyE, if_true]
      congr 1
      by_cases h : now < next
      · simp [h]
      · simp [h]

theorem notify_ent (now : Time) (m : M κ σ ο ε) (a s : Nat) :
    (notify now m a).ent s = if s = a then (m.ent s).map (notifyS now) else m.ent s := by
  rcases notify_cases now m a with heq | ⟨e, he, hst, heq⟩
  · rw [heq]
    by_cases hs : s = a
    · subst hs
      unfold notify at heq
      cases he : m.ent s with
      | none => simp
      | some e =>
        cases hst : e.started with
        | false => simp [hst, notifyS]
        | true =>
          exfalso
          simp [he, hst] at heq
          have hl : ∀ (l : List HE) (x : HE), (heapPush l x).length = l.length + 1 := by
            intro l x; induction l with
            | nil => simp [heapPush]
            | cons y ys ih => unfold heapPush; split <;> simp [ih]
          have h2 := congrArg (fun m : M κ σ ο ε => m.heap.length) heq
          simp only [hl] at h2
          omega
    · simp [hs]
  · rw [heq]
    by_cases hs : s = a
    · subst hs; simp [he, hst, notifyS]
    · simp [hs, setEnt_other _ _ _ _ hs]

theorem foldl_notify_ent (now : Time) (l : List Nat) (m : M κ σ ο ε) (s : Nat) :
    (l.foldl (notify now) m).ent s = if s ∈ l then (m.ent s).map (notifyS now) else m.ent s := by
  induction l generalizing m with
  | nil => simp
  | cons a as ih =>
    simp only [List.foldl_cons, ih, notify_ent, List.mem_cons]
    by_cases h1 : s = a
    · subst h1
      by_cases h2 : s ∈ as
      · simp only [h2, if_true, true_or]
        cases m.ent s with
        | none => rfl
        | some e => simp [notifyS_idem]
      · simp [h2]
    · by_cases h2 : s ∈ as <;> simp [h1, h2]

theorem upstream_ent (m : M κ σ ο ε) (I : CycleIn κ ι) (s : Nat) :
    (upstream m I).ent s = soloUp I s (m.ent s) := by
  unfold upstream soloUp
  simp only
  split <;> simp only [foldl_notify_ent, foldl_erase_ent]

theorem upstream_primed (m : M κ σ ο ε) (I : CycleIn κ ι) : (upstream m I).primed = m.primed := by
  have h : ∀ (l : List Nat) (m' : M κ σ ο ε), (l.foldl (notify I.now) m').primed = m'.primed := by
    intro l
    induction l with
    | nil => intro m'; rfl
    | cons a as ih =>
      intro m'
      simp only [List.foldl_cons, ih]
      rcases notify_cases I.now m' a with heq | ⟨_, _, _, heq⟩ <;> rw [heq]
  unfold upstream
  simp only
  split <;> simp [h]

theorem createEntry_ent (B : Beh κ σ ι ο ε) (I : CycleIn κ ι) (r : Rec κ σ ο ε) (sk : Nat × κ) (s : Nat) :
    (createEntry B I r sk).m.ent s =
      if s = sk.1 then (if startedO (r.m.ent s) then r.m.ent s else some (createE B I sk.2 (r.m.ent s)))
      else r.m.ent s := by
  rcases createEntry_cases B I r sk with ⟨⟨e, he, hst⟩, heq⟩ | ⟨hns, heq⟩
  · rw [heq]
    by_cases hs : s = sk.1
    · subst hs; simp [he, startedO, hst]
    · simp [hs]
  · rw [heq]
    have hso : startedO (r.m.ent sk.1) = false := by
      cases he : r.m.ent sk.1 with
      | none => rfl
      | some e => exact hns e he
    by_cases hs : s = sk.1
    · subst hs
      simp only [hso, if_true]
      split <;> simp
    · simp only [hs, if_false]
      split <;> simp [setEnt_other _ _ _ _ hs]

theorem foldl_createEntry_ent (B : Beh κ σ ι ο ε) (I : CycleIn κ ι) (l : List (Nat × κ)) (r : Rec κ σ ο ε) (s : Nat) :
    (l.foldl (createEntry B I) r).m.ent s =
      match l.find? (fun sk => sk.1 == s) with
      | some sk => if startedO (r.m.ent s) then r.m.ent s else some (createE B I sk.2 (r.m.ent s))
      | none => r.m.ent s := by
  induction l generalizing r with
  | nil => simp
  | cons a as ih =>
    simp only [List.foldl_cons, ih, createEntry_ent, List.find?_cons]
    by_cases hs : s = a.1
    · subst hs
      simp only [beq_self_eq_true, if_true]
      have hst : startedO (if startedO (r.m.ent a.1) then r.m.ent a.1 else some (createE B I a.2 (r.m.ent a.1))) = true := by
        split
        · assumption
        · simp [startedO, createE_started]
      cases as.find? (fun sk => sk.1 == a.1) with
      | none => rfl
      | some sk => simp only [hst, if_true]
    · have : (a.1 == s) = false := by
        simp only [beq_eq_false_iff_ne, ne_eq]; exact fun h => hs h.symm
      simp only [hs, if_false, this]

theorem removeAll_ent_none (r : Rec κ σ ο ε) (h : ∀ s, r.m.ent s = none) : ∀ s, (removeAll r).m.ent s = none := by
  intro s
  unfold removeAll
  rw [foldl_removeEntry_ent, h s]
  simp

theorem rebuild_ent (B : Beh κ σ ι ο ε) (I : CycleIn κ ι) (l : List (Nat × κ)) (r : Rec κ σ ο ε)
    (h : ∀ s, r.m.ent s = none) (s : Nat) :
    (l.foldl (createEntry B I) (removeAll r)).m.ent s =
      match l.find? (fun sk => sk.1 == s) with
      | some sk => some (createE B I sk.2 none)
      | none => none := by
  rw [foldl_createEntry_ent, removeAll_ent_none r h s]
  cases l.find? (fun sk => sk.1 == s) <;> simp [startedO]

/-- the key-set part of the environment contract used by the refinement: the key set stays valid; before
    the first reconcile nothing exists and the live slots are the ones just added -/
structure KeysOk (m : M κ σ ο ε) (I : CycleIn κ ι) : Prop where
  valid : I.keysValid = true
  live : m.primed = false → I.live = (if I.keysModified then I.added else [])
  fresh : m.primed = false → ∀ s, m.ent s = none

theorem reconcile_ent (B : Beh κ σ ι ο ε) (I : CycleIn κ ι) (r : Rec κ σ ο ε) (hk : KeysOk r.m I) (s : Nat) :
    (reconcile B I r).m.ent s = soloRec B I s (r.m.ent s) := by
  unfold reconcile soloRec
  simp only [hk.valid, Bool.not_true, Bool.false_eq_true, if_false]
  cases hp : r.m.primed with
  | false =>
    simp only [Bool.not_false, if_true]
    have hnone := hk.fresh hp
    rw [rebuild_ent, hk.live hp, hnone s]
    · cases hkm : I.keysModified with
      | false => simp
      | true => simp [startedO]
    · exact fun s => hnone s
  | true =>
    simp only [Bool.not_true, Bool.false_eq_true, if_false]
    cases hkm : I.keysModified with
    | false => simp
    | true =>
      simp only [if_true, true_and]
      rw [foldl_createEntry_ent, foldl_removeEntry_ent]

theorem reconcile_primed (B : Beh κ σ ι ο ε) (I : CycleIn κ ι) (r : Rec κ σ ο ε) (hv : I.keysValid = true) :
    (reconcile B I r).m.primed = true := by
  have hc : ∀ (l : List (Nat × κ)) (r' : Rec κ σ ο ε), (l.foldl (createEntry B I) r').m.primed = r'.m.primed := by
    intro l
    induction l with
    | nil => intro r'; rfl
    | cons a as ih =>
      intro r'
      simp only [List.foldl_cons, ih]
      rcases createEntry_cases B I r' a with ⟨_, heq⟩ | ⟨_, heq⟩ <;> rw [heq]
      simp only; split <;> rfl
  have hr : ∀ (l : List Nat) (r' : Rec κ σ ο ε), (l.foldl removeEntry r').m.primed = r'.m.primed := by
    intro l
    induction l with
    | nil => intro r'; rfl
    | cons a as ih =>
      intro r'
      simp only [List.foldl_cons, ih]
      unfold removeEntry; cases r'.m.ent a <;> rfl
  unfold reconcile
  simp only [hv, Bool.not_true, Bool.false_eq_true, if_false]
  cases hp : r.m.primed with
  | false => simp
  | true =>
    simp only [Bool.not_true, Bool.false_eq_true, if_false]
    split
    · rw [hc, hr]
    · rfl

/-! ### the loop, slot by slot -/

theorem evalStarted_other (B : Beh κ σ ι ο ε) (c : Bool) (I : CycleIn κ ι) (r : Rec κ σ ο ε) (s s' : Nat)
    (e0 : Entry κ σ ο ε) (he : r.m.ent s = some e0) (hst : e0.started = true) (hs : s' ≠ s) :
    (evalStarted B c I r s e0).m.ent s' = r.m.ent s' := by
  obtain ⟨_, hm0o, _⟩ := late_state I.now (I.late.contains s) r.m s e0 he hst
  unfold evalStarted
  simp only at hm0o ⊢
  generalize (if I.late.contains s = true then notify I.now r.m s else r.m) = m0 at *
  generalize (if I.late.contains s = true then notifyE I.now e0 else e0) = e at *
  by_cases hc : (childEval B c I e).ok = true
  · simp only [hc, Bool.not_true, Bool.false_eq_true, if_false]
    show setEnt _ s _ s' = _
    rw [setEnt_other _ _ _ _ hs]; exact hm0o s' hs
  · have hc' : (childEval B c I e).ok = false := by simpa using hc
    simp only [hc', Bool.not_false, if_true]
    show setEnt _ s _ s' = _
    rw [setEnt_other _ _ _ _ hs]; exact hm0o s' hs

theorem evalStarted_self (B : Beh κ σ ι ο ε) (c : Bool) (I : CycleIn κ ι) (r : Rec κ σ ο ε) (s : Nat)
    (e0 : Entry κ σ ο ε) (hst : e0.started = true) (hok : (evalStarted B c I r s e0).out.ok = true) :
    SEq ((evalStarted B c I r s e0).m.ent s) (some (soloEvalE B c I s e0)) ∧
    (evalStarted B c I r s e0).out.modified = r.out.modified ++ (tickOf B c I s (some e0)).toList ∧
    (evalStarted B c I r s e0).out.errs = r.out.errs ++ (errOf B c I s (some e0)).toList := by
  unfold evalStarted at hok ⊢
  unfold soloEvalE tickOf errOf
  generalize I.late.contains s = L at *
  have hkey : (if L = true then notifyE I.now e0 else e0).key = e0.key := by split <;> rfl
  generalize hee : (if L = true then notifyE I.now e0 else e0) = e at *
  simp only at hok ⊢
  have hcok : (childEval B c I e).ok = true := by
    cases hc : (childEval B c I e).ok with
    | true => rfl
    | false => simp [hc] at hok
  simp only [hcok, Bool.not_true, Bool.false_eq_true, if_false, hst, if_true, hkey]
  refine ⟨?_, ?_, ?_⟩
  · simp only [setEnt_same]
    apply SEq.some_iff.mpr
    rw [pull_strip]
  · rw [hee]; cases (childEval B c I e).out <;> simp
  · rw [hee]; cases (childEval B c I e).err <;> simp

theorem evalSlot_other (B : Beh κ σ ι ο ε) (c : Bool) (I : CycleIn κ ι) (r : Rec κ σ ο ε) (s s' : Nat)
    (hs : s' ≠ s) : (evalSlot B c I r s).m.ent s' = r.m.ent s' := by
  unfold evalSlot
  split
  · rfl
  · cases he : r.m.ent s with
    | none => rfl
    | some e0 =>
      simp only
      cases hst : e0.started with
      | false => simp
      | true =>
        simp only [Bool.not_true, Bool.false_eq_true, if_false]
        exact evalStarted_other B c I r s s' e0 he hst hs

theorem foldl_evalSlot_other (B : Beh κ σ ι ο ε) (c : Bool) (I : CycleIn κ ι) (l : List Nat) (r : Rec κ σ ο ε)
    (s : Nat) (hs : s ∉ l) : (l.foldl (evalSlot B c I) r).m.ent s = r.m.ent s := by
  induction l generalizing r with
  | nil => rfl
  | cons a as ih =>
    simp only [List.foldl_cons]
    rw [ih _ (fun h => hs (List.mem_cons_of_mem _ h))]
    exact evalSlot_other B c I r a s (fun h => hs (h ▸ List.mem_cons_self))

/-- what one iteration does to its own slot and to the outputs of the cycle -/
theorem evalSlot_self (B : Beh κ σ ι ο ε) (c : Bool) (I : CycleIn κ ι) (r : Rec κ σ ο ε) (s : Nat)
    (hok : (evalSlot B c I r s).out.ok = true) :
    SEq ((evalSlot B c I r s).m.ent s) ((r.m.ent s).map (soloEvalE B c I s)) ∧
    (evalSlot B c I r s).out.modified = r.out.modified ++ (tickOf B c I s (r.m.ent s)).toList ∧
    (evalSlot B c I r s).out.errs = r.out.errs ++ (errOf B c I s (r.m.ent s)).toList := by
  have hrok := evalSlot_ok_mono B c I r s hok
  unfold evalSlot at hok ⊢
  rw [hrok] at hok ⊢
  simp only [Bool.not_true, Bool.false_eq_true, if_false] at hok ⊢
  cases he : r.m.ent s with
  | none => rw [he] at hok; simp [SEq, tickOf, errOf, he]
  | some e0 =>
    rw [he] at hok
    simp only at hok ⊢
    cases hst : e0.started with
    | false => simp [hst, SEq, soloEvalE, tickOf, errOf, he]
    | true =>
      rw [hst] at hok
      simp only [Bool.not_true, Bool.false_eq_true, if_false] at hok ⊢
      exact evalStarted_self B c I r s e0 hst hok

theorem foldl_evalSlot_ent (B : Beh κ σ ι ο ε) (c : Bool) (I : CycleIn κ ι) (l : List Nat) (r : Rec κ σ ο ε)
    (hnd : l.Nodup) (hok : (l.foldl (evalSlot B c I) r).out.ok = true) (s : Nat) :
    SEq ((l.foldl (evalSlot B c I) r).m.ent s) (if s ∈ l then (r.m.ent s).map (soloEvalE B c I s) else r.m.ent s) := by
  induction l generalizing r with
  | nil => simp [SEq]
  | cons a as ih =>
    have hnd' := (List.nodup_cons.mp hnd)
    have hok1 := foldl_evalSlot_ok_mono B c I as _ hok
    simp only [List.foldl_cons]
    by_cases hs : s = a
    · subst hs
      rw [foldl_evalSlot_other B c I as _ s hnd'.1]
      simp only [List.mem_cons, true_or, if_true]
      exact (evalSlot_self B c I r s hok1).1
    · have := ih (evalSlot B c I r a) hnd'.2 hok
      rw [evalSlot_other B c I r a s hs] at this
      simpa [hs] using this

theorem filterMap_congr' {α β : Type} {f g : α → Option β} {l : List α} (h : ∀ x ∈ l, f x = g x) :
    l.filterMap f = l.filterMap g := by
  induction l with
  | nil => rfl
  | cons a as ih =>
    simp only [List.filterMap_cons, h a List.mem_cons_self]
    rw [ih (fun x hx => h x (List.mem_cons_of_mem _ hx))]

theorem foldl_evalSlot_out (B : Beh κ σ ι ο ε) (c : Bool) (I : CycleIn κ ι) (l : List Nat) (r : Rec κ σ ο ε)
    (hnd : l.Nodup) (hok : (l.foldl (evalSlot B c I) r).out.ok = true) :
    (l.foldl (evalSlot B c I) r).out.modified = r.out.modified ++ l.filterMap (fun s => tickOf B c I s (r.m.ent s)) ∧
    (l.foldl (evalSlot B c I) r).out.errs = r.out.errs ++ l.filterMap (fun s => errOf B c I s (r.m.ent s)) := by
  induction l generalizing r with
  | nil => simp
  | cons a as ih =>
    have hnd' := (List.nodup_cons.mp hnd)
    have hok1 := foldl_evalSlot_ok_mono B c I as _ hok
    obtain ⟨_, hm, he⟩ := evalSlot_self B c I r a hok1
    obtain ⟨ihm, ihe⟩ := ih (evalSlot B c I r a) hnd'.2 hok
    simp only [List.foldl_cons]
    have hcongr1 : as.filterMap (fun s => tickOf B c I s ((evalSlot B c I r a).m.ent s)) =
        as.filterMap (fun s => tickOf B c I s (r.m.ent s)) := by
      apply filterMap_congr'
      intro s hs
      rw [evalSlot_other B c I r a s (fun h => hnd'.1 (h ▸ hs))]
    have hcongr2 : as.filterMap (fun s => errOf B c I s ((evalSlot B c I r a).m.ent s)) =
        as.filterMap (fun s => errOf B c I s (r.m.ent s)) := by
      apply filterMap_congr'
      intro s hs
      rw [evalSlot_other B c I r a s (fun h => hnd'.1 (h ▸ hs))]
    refine ⟨?_, ?_⟩
    · rw [ihm, hm, hcongr1, List.filterMap_cons]
      cases tickOf B c I a (r.m.ent a) <;> simp
    · rw [ihe, he, hcongr2, List.filterMap_cons]
      cases errOf B c I a (r.m.ent a) <;> simp

/-! ### reconcile leaves the value outputs of the cycle alone -/

theorem removeEntry_out (r : Rec κ σ ο ε) (s : Nat) :
    (removeEntry r s).out.modified = r.out.modified ∧ (removeEntry r s).out.errs = r.out.errs ∧
    (removeEntry r s).out.ok = r.out.ok := by
  unfold removeEntry; cases r.m.ent s <;> exact ⟨rfl, rfl, rfl⟩

theorem foldl_removeEntry_out (l : List Nat) (r : Rec κ σ ο ε) :
    (l.foldl removeEntry r).out.modified = r.out.modified ∧ (l.foldl removeEntry r).out.errs = r.out.errs ∧
    (l.foldl removeEntry r).out.ok = r.out.ok := by
  induction l generalizing r with
  | nil => exact ⟨rfl, rfl, rfl⟩
  | cons a as ih =>
    obtain ⟨h1, h2, h3⟩ := ih (removeEntry r a)
    obtain ⟨g1, g2, g3⟩ := removeEntry_out r a
    exact ⟨by rw [List.foldl_cons, h1, g1], by rw [List.foldl_cons, h2, g2], by rw [List.foldl_cons, h3, g3]⟩

theorem createEntry_out (B : Beh κ σ ι ο ε) (I : CycleIn κ ι) (r : Rec κ σ ο ε) (sk : Nat × κ) :
    (createEntry B I r sk).out.modified = r.out.modified ∧ (createEntry B I r sk).out.errs = r.out.errs ∧
    (createEntry B I r sk).out.ok = r.out.ok := by
  rcases createEntry_cases B I r sk with ⟨_, heq⟩ | ⟨_, heq⟩ <;> rw [heq] <;> exact ⟨rfl, rfl, rfl⟩

theorem foldl_createEntry_out (B : Beh κ σ ι ο ε) (I : CycleIn κ ι) (l : List (Nat × κ)) (r : Rec κ σ ο ε) :
    (l.foldl (createEntry B I) r).out.modified = r.out.modified ∧ (l.foldl (createEntry B I) r).out.errs = r.out.errs ∧
    (l.foldl (createEntry B I) r).out.ok = r.out.ok := by
  induction l generalizing r with
  | nil => exact ⟨rfl, rfl, rfl⟩
  | cons a as ih =>
    obtain ⟨h1, h2, h3⟩ := ih (createEntry B I r a)
    obtain ⟨g1, g2, g3⟩ := createEntry_out B I r a
    exact ⟨by rw [List.foldl_cons, h1, g1], by rw [List.foldl_cons, h2, g2], by rw [List.foldl_cons, h3, g3]⟩

theorem reconcile_out (B : Beh κ σ ι ο ε) (I : CycleIn κ ι) (r : Rec κ σ ο ε) :
    (reconcile B I r).out.modified = r.out.modified ∧ (reconcile B I r).out.errs = r.out.errs ∧
    (reconcile B I r).out.ok = r.out.ok := by
  unfold reconcile removeAll
  split
  · exact foldl_removeEntry_out _ _
  · simp only
    split
    · obtain ⟨h1, h2, h3⟩ := foldl_createEntry_out B I I.live
        ((List.range (max r.m.cap I.cap)).foldl removeEntry ({ r with m := { r.m with cap := max r.m.cap I.cap } } : Rec κ σ ο ε))
      obtain ⟨g1, g2, g3⟩ := foldl_removeEntry_out (List.range (max r.m.cap I.cap))
        ({ r with m := { r.m with cap := max r.m.cap I.cap } } : Rec κ σ ο ε)
      exact ⟨h1.trans g1, h2.trans g2, h3.trans g3⟩
    · split
      · obtain ⟨h1, h2, h3⟩ := foldl_createEntry_out B I I.added
          (I.removed.foldl removeEntry ({ r with m := { r.m with cap := max r.m.cap I.cap } } : Rec κ σ ο ε))
        obtain ⟨g1, g2, g3⟩ := foldl_removeEntry_out I.removed
          ({ r with m := { r.m with cap := max r.m.cap I.cap } } : Rec κ σ ο ε)
        exact ⟨h1.trans g1, h2.trans g2, h3.trans g3⟩
      · exact ⟨rfl, rfl, rfl⟩

/-! ### the whole cycle, slot by slot -/

theorem soloUp_none (I : CycleIn κ ι) (s : Nat) : soloUp I s (none : Option (Entry κ σ ο ε)) = none := by
  unfold soloUp; simp

theorem childEval_idle (B : Beh κ σ ι ο ε) (c : Bool) (I : CycleIn κ ι) (e : Entry κ σ ο ε) (h : I.now < e.next) :
    childEval B c I e = { e := e } := by
  unfold childEval; rw [if_neg (by omega)]

/-- a started entry that is not due and not late-notified is left alone by the loop body -/
theorem soloEvalE_idle (B : Beh κ σ ι ο ε) (c : Bool) (I : CycleIn κ ι) (s : Nat) (e : Entry κ σ ο ε)
    (hl : I.late.contains s = false) (hn : e.started = true → I.now < e.next) : soloEvalE B c I s e = e := by
  unfold soloEvalE
  split
  · rename_i hst
    rw [hl]
    simp only [Bool.false_eq_true, if_false]
    rw [childEval_idle B c I e (hn hst)]
  · rfl

theorem tickOf_idle (B : Beh κ σ ι ο ε) (c : Bool) (I : CycleIn κ ι) (s : Nat) (o : Option (Entry κ σ ο ε))
    (hl : I.late.contains s = false) (hn : ∀ e, o = some e → e.started = true → I.now < e.next) :
    tickOf B c I s o = none ∧ errOf B c I s o = none := by
  cases o with
  | none => exact ⟨rfl, rfl⟩
  | some e =>
    unfold tickOf errOf
    rw [hl]
    cases hst : e.started with
    | false => simp [hst]
    | true =>
      have hc := childEval_idle B c I e (hn e rfl hst)
      simp [hc]

theorem tickOf_congr (B : Beh κ σ ι ο ε) (c : Bool) (I : CycleIn κ ι) (s : Nat) {o o' : Option (Entry κ σ ο ε)}
    (h : SEq o o') : tickOf B c I s o = tickOf B c I s o' ∧ errOf B c I s o = errOf B c I s o' := by
  cases o with
  | none => rw [SEq.none_left h]; exact ⟨rfl, rfl⟩
  | some e =>
    cases o' with
    | none => simp [SEq] at h
    | some e' =>
      have h' := SEq.some_iff.mp h
      obtain ⟨h1, h2, _⟩ := strip_eq_fields h'
      unfold tickOf errOf
      simp only [h1, h2]
      split
      · split
        · obtain ⟨_, ho, he, _⟩ := childEval_congr B c I (notifyE_congr I.now e e' h')
          rw [ho, he]; exact ⟨rfl, rfl⟩
        · obtain ⟨_, ho, he, _⟩ := childEval_congr B c I h'
          rw [ho, he]; exact ⟨rfl, rfl⟩
      · exact ⟨rfl, rfl⟩

theorem upstream_ps_ne (m : M κ σ ο ε) (I : CycleIn κ ι) (h : (upstream m I).ps ≠ I.now) :
    I.keysModified = false ∧ I.bcastModified = false ∧ I.muxModified = false := by
  unfold upstream at h
  simp only at h
  split at h
  · exfalso; apply h; simp only; exact schedNode_now _ _
  · rename_i hf
    simp only [Bool.or_eq_true, not_or, Bool.not_eq_true] at hf
    exact ⟨hf.1.1, hf.1.2, hf.2⟩

/-- a pre-candidate that holds an entry is visited by the loop -/
theorem mem_slots_of_preCand (m : M κ σ ο ε) (I : CycleIn κ ι) (wp : Bool) (hc : CapOk m.ent m.cap) (s : Nat)
    (e : Entry κ σ ο ε) (he : m.ent s = some e) (hp : s ∈ preCands m I) : s ∈ (prepare m I wp).2 := by
  unfold prepare
  simp only
  apply List.mem_filter.mpr
  refine ⟨List.mem_range.mpr (hc s e he), ?_⟩
  simp only [List.contains_iff_mem]
  have := drainDue_cand_mono I.now m.heap m.ent (preCands m I) s hp
  split
  · exact foldl_addCand_mono _ _ _ s this
  · exact this

/-- the rest of the environment contract used by the refinement: a late (re-binding) notification
    only reaches slots of membership-changed keys, which are candidates, in a cycle in which a
    multiplexed dictionary ticked -/
structure LateOk (I : CycleIn κ ι) : Prop where
  sub : ∀ s ∈ I.late, s ∈ I.modSlots
  mux : I.late ≠ [] → I.muxModified = true

theorem prepare_nodup (m : M κ σ ο ε) (I : CycleIn κ ι) (wp : Bool) : (prepare m I wp).2.Nodup := by
  unfold prepare
  simp only
  exact List.Nodup.sublist List.filter_sublist List.nodup_range

theorem evaluate_solo (B : Beh κ σ ι ο ε) (c : Bool) (m : M κ σ ο ε) (I : CycleIn κ ι)
    (hmid : Mid (fun _ => False) m) (hlt : I.now < MAX_DT) (hk : KeysOk m I) (hl : LateOk I)
    (hok : (evaluate B c m I).out.ok = true) :
    (∀ s, SEq ((evaluate B c m I).m.ent s) ((soloRec B I s (m.ent s)).map (soloEvalE B c I s))) ∧
    (∀ kv, kv ∈ (evaluate B c m I).out.modified ↔ ∃ s, tickOf B c I s (soloRec B I s (m.ent s)) = some kv) ∧
    (∀ kv, kv ∈ (evaluate B c m I).out.errs ↔ ∃ s, errOf B c I s (soloRec B I s (m.ent s)) = some kv) := by
  unfold evaluate at hok ⊢
  simp only at hok ⊢
  have h1 := reconcile_mid B I { m := m, out := { evaluated := true } } hmid
  have hent1 := reconcile_ent B I { m := m, out := { evaluated := true } } hk
  have hout1 := reconcile_out B I { m := m, out := { evaluated := true } }
  simp only at hent1 hout1
  generalize reconcile B I { m := m, out := { evaluated := true } } = r1 at *
  have h1' : Mid (fun s => m.primed = false ∨ (I.keysValid = true ∧ I.keysModified = true ∧ s ∈ I.added.map (·.1))) r1.m :=
    ⟨h1.sorted, h1.pw, h1.cov.mono (fun _ hs => hs) (fun _ hx => hx), h1.capOk⟩
  have h2 := prepare_loop r1.m I m.primed h1'
  have hnd := prepare_nodup r1.m I m.primed
  have hpent : ∀ s, SEq ((prepare r1.m I m.primed).1.ent s) (r1.m.ent s) := by
    intro s
    unfold prepare
    simp only
    rcases drainDue_ent I.now r1.m.heap r1.m.ent (preCands r1.m I) s with h | ⟨_, e, he, h⟩
    · rw [h]; exact SEq.refl _
    · rw [h, he]; exact SEq.some_iff.mpr rfl
  have hcand := mem_slots_of_preCand r1.m I m.primed h1.capOk
  generalize hp : prepare r1.m I m.primed = p at *
  generalize hr2 : p.2.foldl (evalSlot B c I) { r1 with m := p.1 } = r2 at *
  have hr2ok : r2.out.ok = true := by
    cases hc : r2.out.ok with
    | true => rfl
    | false => simp [hc] at hok
  simp only [hr2ok, Bool.not_true, Bool.false_eq_true, if_false]
  have h3 : LoopInv I.now [] r2.m := by
    rw [← hr2]; exact foldl_evalSlot_loop B c I p.2 _ h2 (by rw [hr2]; exact hr2ok)
  have hfin : (drainFinal I.now r2.m.heap r2.m.ent).2 = r2.m.ent := drainFinal_ent _ _ _ h3.low
  have hloop := foldl_evalSlot_ent B c I p.2 { r1 with m := p.1 } hnd (by rw [hr2]; exact hr2ok)
  have hlout := foldl_evalSlot_out B c I p.2 { r1 with m := p.1 } hnd (by rw [hr2]; exact hr2ok)
  rw [hr2] at hloop hlout
  simp only at hloop hlout
  -- a slot that is not visited holds nothing the loop body would change
  have hidle : ∀ s, s ∉ p.2 → ∀ e, p.1.ent s = some e →
      I.late.contains s = false ∧ (e.started = true → I.now < e.next) := by
    intro s hs e he
    refine ⟨?_, ?_⟩
    · cases hc : I.late.contains s with
      | false => rfl
      | true =>
        exfalso
        have hmem : s ∈ I.late := by simpa using hc
        -- s is late, hence a modified slot, hence a pre-candidate since it holds an entry
        have hsome : ∃ e1, r1.m.ent s = some e1 := by
          have := hpent s
          rw [he] at this
          cases h : r1.m.ent s with
          | none => rw [h] at this; simp [SEq] at this
          | some e1 => exact ⟨e1, rfl⟩
        obtain ⟨e1, he1⟩ := hsome
        apply hs
        apply hcand s e1 he1
        unfold preCands
        simp only [hk.valid, if_true]
        exact foldl_addCand_mem _ _ _ s (hl.sub s hmem) (by rw [he1]; rfl)
    · intro hst
      by_cases hn : e.next < MAX_DT
      · rcases h2.cov s e he hst hn with hin | ⟨x, _, _, hlo, hle, _⟩
        · exact absurd hin hs
        · omega
      · omega
  have hchain : ∀ s, SEq (p.1.ent s) (soloRec B I s (m.ent s)) := by
    intro s; rw [← hent1 s]; exact hpent s
  refine ⟨?_, ?_, ?_⟩
  · intro s
    rw [rearm_ent]
    simp only [hfin]
    refine SEq.trans (hloop s) ?_
    by_cases hs : s ∈ p.2
    · simp only [hs, if_true]
      exact SEq.map (soloEvalE_congr B c I s) (hchain s)
    · simp only [hs, if_false]
      refine SEq.trans ?_ (SEq.map (soloEvalE_congr B c I s) (hchain s))
      cases he : p.1.ent s with
      | none => exact SEq.refl _
      | some e =>
        obtain ⟨hl', hn'⟩ := hidle s hs e he
        simp only [Option.map_some]
        rw [soloEvalE_idle B c I s e hl' hn']
        exact SEq.refl _
  · intro kv
    rw [hlout.1, hout1.1]
    simp only [List.nil_append, List.mem_filterMap]
    constructor
    · rintro ⟨s, _, h⟩
      exact ⟨s, by rw [← (tickOf_congr B c I s (hchain s)).1]; exact h⟩
    · rintro ⟨s, h⟩
      rw [← (tickOf_congr B c I s (hchain s)).1] at h
      by_cases hs : s ∈ p.2
      · exact ⟨s, hs, h⟩
      · exfalso
        have := (tickOf_idle B c I s (p.1.ent s)
          (by cases he : p.1.ent s with
              | none =>
                cases hc : I.late.contains s with
                | false => rfl
                | true => rw [he] at h; simp [tickOf] at h
              | some e => exact (hidle s hs e he).1)
          (fun e he hst => (hidle s hs e he).2 hst)).1
        rw [this] at h; cases h
  · intro kv
    rw [hlout.2, hout1.2.1]
    simp only [List.nil_append, List.mem_filterMap]
    constructor
    · rintro ⟨s, _, h⟩
      exact ⟨s, by rw [← (tickOf_congr B c I s (hchain s)).2]; exact h⟩
    · rintro ⟨s, h⟩
      rw [← (tickOf_congr B c I s (hchain s)).2] at h
      by_cases hs : s ∈ p.2
      · exact ⟨s, hs, h⟩
      · exfalso
        have := (tickOf_idle B c I s (p.1.ent s)
          (by cases he : p.1.ent s with
              | none =>
                cases hc : I.late.contains s with
                | false => rfl
                | true => rw [he] at h; simp [errOf] at h
              | some e => exact (hidle s hs e he).1)
          (fun e he hst => (hidle s hs e he).2 hst)).2
        rw [this] at h; cases h

theorem soloRec_id (B : Beh κ σ ι ο ε) (I : CycleIn κ ι) (s : Nat) (o : Option (Entry κ σ ο ε))
    (h : I.keysModified = false) : soloRec B I s o = o := by
  unfold soloRec; simp [h]

/-- ONE CYCLE, SLOT BY SLOT: the entry of every slot after the cycle is what the slot's own machine
    computes from the entry before it, and the value / error ticks of the cycle are exactly the ticks
    of the individual slots. -/
theorem cycle_solo (B : Beh κ σ ι ο ε) (c : Bool) {t : Time} {m : M κ σ ο ε} {I : CycleIn κ ι}
    (hinv : Inv t m) (henv : EnvOk t m I) (hk : KeysOk m I) (hl : LateOk I)
    (hok : (cycle B c m I).out.ok = true) :
    (∀ s, SEq ((cycle B c m I).m.ent s) (soloStep B c I s (m.ent s))) ∧
    (∀ kv, kv ∈ (cycle B c m I).out.modified ↔ ∃ s, tickOf B c I s (soloPre B I s (m.ent s)) = some kv) ∧
    (∀ kv, kv ∈ (cycle B c m I).out.errs ↔ ∃ s, errOf B c I s (soloPre B I s (m.ent s)) = some kv) := by
  obtain ⟨hmid, harm⟩ := upstream_mid hinv henv
  have hup := upstream_ent m I
  have hk1 : KeysOk (upstream m I) I := by
    refine ⟨hk.valid, ?_, ?_⟩
    · intro hp; rw [upstream_primed] at hp; exact hk.live hp
    · intro hp s; rw [upstream_primed] at hp; rw [hup, hk.fresh hp s, soloUp_none]
  simp only [soloStep_eq, soloPre_eq]
  unfold cycle at hok ⊢
  simp only at hok ⊢
  split
  · rename_i hps
    rw [if_pos hps] at hok
    obtain ⟨h1, h2, h3⟩ := evaluate_solo B c (upstream m I) I hmid henv.lt_max hk1 hl hok
    refine ⟨?_, ?_, ?_⟩
    · intro s; rw [← hup]; exact h1 s
    · intro kv; rw [h2]; simp only [hup]
    · intro kv; rw [h3]; simp only [hup]
  · rename_i hps
    obtain ⟨hkm, _, hmux⟩ := upstream_ps_ne m I hps
    have hlate : ∀ s, I.late.contains s = false := by
      intro s
      have : I.late = [] := by
        cases hl' : I.late with
        | nil => rfl
        | cons a as =>
          have := hl.mux (by rw [hl']; simp)
          rw [hmux] at this; cases this
      rw [this]; rfl
    have hidle : ∀ s e, (upstream m I).ent s = some e → e.started = true → I.now < e.next := by
      intro s e he hst
      by_cases hn : e.next < MAX_DT
      · rcases hmid.cov s e he hst hn with hf | ⟨x, hx, _, _, hle, _⟩
        · cases hf
        · have := harm x hx
          have := henv.lt_max
          omega
      · have := henv.lt_max; omega
    refine ⟨?_, ?_, ?_⟩
    · intro s
      simp only
      rw [← hup, soloRec_id B I s _ hkm]
      cases he : (upstream m I).ent s with
      | none => exact SEq.refl _
      | some e =>
        simp only [Option.map_some]
        rw [soloEvalE_idle B c I s e (hlate s) (hidle s e he)]
        exact SEq.refl _
    · intro kv
      simp only [List.not_mem_nil, false_iff, not_exists]
      intro s
      rw [← hup, soloRec_id B I s _ hkm,
        (tickOf_idle B c I s _ (hlate s) (fun e he hst => hidle s e he hst)).1]
      simp
    · intro kv
      simp only [List.not_mem_nil, false_iff, not_exists]
      intro s
      rw [← hup, soloRec_id B I s _ hkm,
        (tickOf_idle B c I s _ (hlate s) (fun e he hst => hidle s e he hst)).2]
      simp

/-! ### with error capture nothing escapes the map node -/

theorem childEval_ok_of_captures (B : Beh κ σ ι ο ε) (I : CycleIn κ ι) (e : Entry κ σ ο ε) :
    (childEval B true I e).ok = true := by
  unfold childEval
  by_cases h : e.next ≤ I.now
  · simp only [h, if_true]
    generalize B.step e.key I.now (I.input e.key) e.st = sr
    cases hs : sr.err <;> rfl
  · simp only [h, if_false]

theorem evalSlot_ok_of_captures (B : Beh κ σ ι ο ε) (I : CycleIn κ ι) (r : Rec κ σ ο ε) (s : Nat)
    (h : r.out.ok = true) : (evalSlot B true I r s).out.ok = true := by
  unfold evalSlot
  rw [h]
  simp only [Bool.not_true, Bool.false_eq_true, if_false]
  cases he : r.m.ent s with
  | none => exact h
  | some e0 =>
    simp only
    cases hst : e0.started with
    | false => simpa using h
    | true =>
      simp only [Bool.not_true, Bool.false_eq_true, if_false]
      unfold evalStarted
      simp only
      generalize (if I.late.contains s = true then notifyE I.now e0 else e0) = e
      have := childEval_ok_of_captures B I e
      simp only [this, Bool.not_true, Bool.false_eq_true, if_false]

theorem cycle_ok_of_captures (B : Beh κ σ ι ο ε) (m : M κ σ ο ε) (I : CycleIn κ ι) :
    (cycle B true m I).out.ok = true := by
  unfold cycle
  simp only
  split
  · unfold evaluate
    simp only
    have h1 := (reconcile_out B I { m := upstream m I, out := { evaluated := true } }).2.2
    generalize reconcile B I { m := upstream m I, out := { evaluated := true } } = r1 at *
    have h2 : ∀ (l : List Nat) (r : Rec κ σ ο ε), r.out.ok = true → (l.foldl (evalSlot B true I) r).out.ok = true := by
      intro l
      induction l with
      | nil => intro r h; exact h
      | cons a as ih => intro r h; exact ih _ (evalSlot_ok_of_captures B I r a h)
    have h3 := h2 (prepare r1.m I (upstream m I).primed).2 { r1 with m := (prepare r1.m I (upstream m I).primed).1 } h1
    simp only [h3, Bool.not_true, Bool.false_eq_true, if_false]
  · rfl

/-! ### what a slot's machine reads: non-interference -/

/-- two cycle inputs that agree on everything slot `s` (holding key `k`) can see -/
structure SlotAgree (s : Nat) (k : κ) (I I' : CycleIn κ ι) : Prop where
  now : I.now = I'.now
  erased : s ∈ I.erased ↔ s ∈ I'.erased
  notified : s ∈ I.notified ↔ s ∈ I'.notified
  km : I.keysModified = I'.keysModified
  removed : s ∈ I.removed ↔ s ∈ I'.removed
  added : I.added.find? (fun sk => sk.1 == s) = I'.added.find? (fun sk => sk.1 == s)
  addedKey : ∀ sk, I.added.find? (fun sk => sk.1 == s) = some sk → sk.2 = k
  late : I.late.contains s = I'.late.contains s
  input : I.input k = I'.input k

theorem ite_iff {α : Type} {p q : Prop} [Decidable p] [Decidable q] (h : p ↔ q) (a b : α) :
    (if p then a else b) = (if q then a else b) := by
  by_cases hp : p
  · rw [if_pos hp, if_pos (h.mp hp)]
  · rw [if_neg hp, if_neg (fun hq => hp (h.mpr hq))]

/-- the key held by a slot (if any) -/
def KeyIs (k : κ) (o : Option (Entry κ σ ο ε)) : Prop := ∀ e, o = some e → e.key = k

theorem KeyIs.map {k : κ} {o : Option (Entry κ σ ο ε)} {f : Entry κ σ ο ε → Entry κ σ ο ε}
    (h : KeyIs k o) (hf : ∀ e, (f e).key = e.key) : KeyIs k (o.map f) := by
  intro e he
  cases o with
  | none => cases he
  | some e0 => simp at he; subst he; rw [hf]; exact h e0 rfl

theorem childEval_agree (B : Beh κ σ ι ο ε) (c : Bool) {I I' : CycleIn κ ι} (e : Entry κ σ ο ε)
    (hnow : I.now = I'.now) (hin : I.input e.key = I'.input e.key) : childEval B c I e = childEval B c I' e := by
  unfold childEval; rw [hnow, hin]

theorem soloEvalE_key (B : Beh κ σ ι ο ε) (c : Bool) (I : CycleIn κ ι) (s : Nat) (e : Entry κ σ ο ε) :
    (soloEvalE B c I s e).key = e.key := by
  unfold soloEvalE
  split
  · rw [childEval_key]; split <;> rfl
  · rfl

theorem createE_key (B : Beh κ σ ι ο ε) (I : CycleIn κ ι) (k : κ) (o : Option (Entry κ σ ο ε)) (h : KeyIs k o) :
    (createE B I k o).key = k := by
  unfold createE
  cases o with
  | none => rfl
  | some e => simp only; split <;> exact h e rfl

theorem soloStep_agree (B : Beh κ σ ι ο ε) (c : Bool) {I I' : CycleIn κ ι} (s : Nat) (k : κ)
    (h : SlotAgree s k I I') (o : Option (Entry κ σ ο ε)) (hk : KeyIs k o) :
    soloStep B c I s o = soloStep B c I' s o ∧ KeyIs k (soloStep B c I s o) ∧
    tickOf B c I s (soloPre B I s o) = tickOf B c I' s (soloPre B I' s o) ∧
    errOf B c I s (soloPre B I s o) = errOf B c I' s (soloPre B I' s o) := by
  -- the state before the loop body
  have hpre : soloPre B I s o = soloPre B I' s o ∧ KeyIs k (soloPre B I s o) := by
    unfold soloPre
    simp only
    rw [ite_iff h.erased, ite_iff h.notified, ← h.now, ← h.km, ← h.added]
    have hk1 : KeyIs k (if s ∈ I'.erased then none else o) := by
      split
      · intro e he; cases he
      · exact hk
    generalize (if s ∈ I'.erased then none else o) = o1 at hk1 ⊢
    have hk2 : KeyIs k (if s ∈ I'.notified then o1.map (notifyS I.now) else o1) := by
      split
      · exact hk1.map (fun e => by unfold notifyS; split <;> rfl)
      · exact hk1
    generalize (if s ∈ I'.notified then o1.map (notifyS I.now) else o1) = o2 at hk2 ⊢
    have hrm : (I.keysModified = true ∧ s ∈ I.removed) ↔ (I.keysModified = true ∧ s ∈ I'.removed) :=
      ⟨fun ⟨a, b⟩ => ⟨a, h.removed.mp b⟩, fun ⟨a, b⟩ => ⟨a, h.removed.mpr b⟩⟩
    rw [ite_iff hrm]
    have hk3 : KeyIs k (if I.keysModified = true ∧ s ∈ I'.removed then o2.map stopE else o2) := by
      split
      · exact hk2.map (fun e => rfl)
      · exact hk2
    generalize (if I.keysModified = true ∧ s ∈ I'.removed then o2.map stopE else o2) = o3 at hk3 ⊢
    split
    · cases hf : I.added.find? (fun sk => sk.1 == s) with
      | none => exact ⟨rfl, hk3⟩
      | some sk =>
        have hsk := h.addedKey sk hf
        simp only
        split
        · exact ⟨rfl, hk3⟩
        · have hce : createE B I sk.2 o3 = createE B I' sk.2 o3 := by
            unfold createE freshE
            cases o3 with
            | none => simp only; rw [h.now, hsk, h.input]
            | some e =>
              have := hk3 e rfl
              simp only; rw [h.now, this, h.input]
          refine ⟨by rw [hce], ?_⟩
          intro e he
          simp at he; subst he
          rw [createE_key B I sk.2 o3 (by rw [hsk]; exact hk3)]; exact hsk
    · exact ⟨rfl, hk3⟩
  obtain ⟨hpe, hpk⟩ := hpre
  have hev : ∀ e, e.key = k → soloEvalE B c I s e = soloEvalE B c I' s e ∧
      (childEval B c I (if I.late.contains s then notifyE I.now e else e)) =
      (childEval B c I' (if I'.late.contains s then notifyE I'.now e else e)) := by
    intro e he
    have hch : (childEval B c I (if I.late.contains s then notifyE I.now e else e)) =
        (childEval B c I' (if I'.late.contains s then notifyE I'.now e else e)) := by
      rw [← h.late, ← h.now]
      apply childEval_agree B c _ h.now
      have : (if I.late.contains s = true then notifyE I.now e else e).key = k := by split <;> exact he
      rw [this]; exact h.input
    refine ⟨?_, hch⟩
    unfold soloEvalE
    rw [hch]
  refine ⟨?_, ?_, ?_, ?_⟩
  · rw [soloStep_eq, soloStep_eq, ← hpe]
    cases hp : soloPre B I s o with
    | none => rfl
    | some e => simp only [Option.map_some]; rw [(hev e (hpk e hp)).1]
  · rw [soloStep_eq]
    exact hpk.map (soloEvalE_key B c I s)
  · rw [← hpe]
    cases hp : soloPre B I s o with
    | none => rfl
    | some e => unfold tickOf; simp only; rw [(hev e (hpk e hp)).2]
  · rw [← hpe]
    cases hp : soloPre B I s o with
    | none => rfl
    | some e => unfold errOf; simp only; rw [(hev e (hpk e hp)).2]

/-! ### which key is live in a slot: the specification of the key set -/

/-- the key set as the environment describes it, for one slot -/
def liveStep (I : CycleIn κ ι) (s : Nat) (l : Option κ) : Option κ :=
  let l1 := if I.keysModified = true ∧ s ∈ I.removed then none else l
  if I.keysModified = true then
    match I.added.find? (fun sk => sk.1 == s) with
    | some sk => if l1.isSome then l1 else some sk.2
    | none => l1
  else l1

/-- the key of a started entry -/
def liveOf : Option (Entry κ σ ο ε) → Option κ
  | some e => if e.started then some e.key else none
  | none => none

/-- the slot-store protocol of the key-set source: only removed (stopped) slots are erased, and a slot
    that is added holds nothing (it was erased since its removal) -/
structure StoreOk (m : M κ σ ο ε) (I : CycleIn κ ι) : Prop where
  eraseStopped : ∀ s ∈ I.erased, ∀ e, m.ent s = some e → e.started = false
  addFree : ∀ sk ∈ I.added, m.ent sk.1 = none ∨ sk.1 ∈ I.erased

theorem liveOf_soloStep (B : Beh κ σ ι ο ε) (c : Bool) (I : CycleIn κ ι) (s : Nat) (o : Option (Entry κ σ ο ε))
    (he : s ∈ I.erased → ∀ e, o = some e → e.started = false)
    (ha : ∀ sk, I.added.find? (fun sk => sk.1 == s) = some sk → o = none ∨ s ∈ I.erased) :
    liveOf (soloStep B c I s o) = liveStep I s (liveOf o) := by
  have hev : ∀ o' : Option (Entry κ σ ο ε), liveOf (o'.map (soloEvalE B c I s)) = liveOf o' := by
    intro o'
    cases o' with
    | none => rfl
    | some e =>
      simp only [Option.map_some, liveOf, soloEvalE_key]
      unfold soloEvalE
      split
      · rw [childEval_started]
        split <;> simp [notifyE, *]
      · rfl
  rw [soloStep_eq, hev]
  unfold soloPre liveStep
  simp only
  -- erase does not change what is live
  have h1 : liveOf (if s ∈ I.erased then none else o) = liveOf o := by
    split
    · rename_i hs
      cases o with
      | none => rfl
      | some e => simp [liveOf, he hs e rfl]
    · rfl
  have h1n : ∀ sk, I.added.find? (fun sk => sk.1 == s) = some sk → (if s ∈ I.erased then none else o) = none := by
    intro sk hsk
    rcases ha sk hsk with h | h
    · rw [h]; simp
    · simp [h]
  generalize (if s ∈ I.erased then none else o) = o1 at h1 h1n
  have h2 : liveOf (if s ∈ I.notified then o1.map (notifyS I.now) else o1) = liveOf o1 ∧
      (o1 = none → (if s ∈ I.notified then o1.map (notifyS I.now) else o1) = none) := by
    split
    · refine ⟨?_, fun h => by rw [h]; rfl⟩
      cases o1 with
      | none => rfl
      | some e => simp only [Option.map_some, liveOf, notifyS]; split <;> simp [notifyE, *]
    · exact ⟨rfl, id⟩
  generalize (if s ∈ I.notified then o1.map (notifyS I.now) else o1) = o2 at h2
  rw [← h1, ← h2.1]
  have h3 : liveOf (if I.keysModified = true ∧ s ∈ I.removed then o2.map stopE else o2) =
      (if I.keysModified = true ∧ s ∈ I.removed then none else liveOf o2) ∧
      (o2 = none → (if I.keysModified = true ∧ s ∈ I.removed then o2.map stopE else o2) = none) := by
    split
    · refine ⟨?_, fun h => by rw [h]; rfl⟩
      cases o2 with
      | none => rfl
      | some e => simp [liveOf, stopE]
    · exact ⟨rfl, id⟩
  generalize (if I.keysModified = true ∧ s ∈ I.removed then o2.map stopE else o2) = o3 at h3
  rw [← h3.1]
  split
  · cases hf : I.added.find? (fun sk => sk.1 == s) with
    | none => rfl
    | some sk =>
      have ho3 : o3 = none := h3.2 (h2.2 (h1n sk hf))
      subst ho3
      simp [startedO, liveOf, createE, freshE]
  · rfl

end HgVerif.MapNode
