import HgVerif.Lemmas.NestFlowLeaf
/-! The block lemma: the cycle of a FLAT child graph (its own schedule, its own positions) does the same as the
stretch of the inlined scan that covers the child's nodes (positions `k … k+m-1` of the composed rank), where
notifications leaving the child are collected on one side and applied at once on the other. -/
namespace HgVerif.NestFlow
open HgVerif.Sched HgVerif.Flow

variable {S : Type}

/-- child scan (`gC`, `uC`) against the inlined scan over the child's block (`gI`, `uI`); `gI0` is the inlined
    schedule when the block is entered, `up0` what had left the enclosing graph before -/
structure BR (F : Flow S) (hi lo : Nat) (rk : Rk) (ch : Tree) (t : Time) (gI0 : G) (up0 : List Nat)
    (gC : G) (uC : CSt S) (gI : G) (uI : CSt S) : Prop where
  nowC : gC.now = t
  nowI : gI.now = t
  lenC : gC.slots.length = F.n - hi
  lenI : gI.slots.length = F.n - lo
  σ : uC.σ = uI.σ
  fl : uC.fl = uI.fl
  wl : uC.wl = uI.wl
  up : uI.up = up0 ++ uC.up.filter (fun c => decide (c < lo))
  deep : ∀ i, hi ≤ i → i < F.n →
    slotOf gC ((flatRk F.n ch hi).posOf (i - hi)) = slotOf gI ((flatRk F.n (.node hi rk ch) lo).posOf (i - lo))
  outer : ∀ i, lo ≤ i → i < hi → slotOf gI ((flatRk F.n (.node hi rk ch) lo).posOf (i - lo)) =
    if i ∈ uC.up then t else slotOf gI0 ((flatRk F.n (.node hi rk ch) lo).posOf (i - lo))

theorem block_lockstep (F : Flow S) (fx : Bool) (hi lo : Nat) (rk : Rk) (ch : Tree)
    (hwf : Tree.WF F.n (.node hi rk ch) lo) (t : Time) (gI0 : G) (up0 : List Nat)
    (gC : G) (uC : CSt S) (gI : G) (uI : CSt S) (eC eI : List Nat)
    (hR : BR F hi lo rk ch t gI0 up0 gC uC gI uI) :
    (scanFrom (behT F fx (.leaf (flatRk F.n ch hi)) hi) t (F.n - hi) 0 gC uC eC).ok = true ∧
    (scanFrom (behT F fx (.leaf (flatRk F.n (.node hi rk ch) lo)) lo) t (F.n - hi) (rk.posOf (hi - lo)) gI uI eI).ok = true ∧
    BR F hi lo rk ch t gI0 up0
      (scanFrom (behT F fx (.leaf (flatRk F.n ch hi)) hi) t (F.n - hi) 0 gC uC eC).g
      (scanFrom (behT F fx (.leaf (flatRk F.n ch hi)) hi) t (F.n - hi) 0 gC uC eC).st
      (scanFrom (behT F fx (.leaf (flatRk F.n (.node hi rk ch) lo)) lo) t (F.n - hi) (rk.posOf (hi - lo)) gI uI eI).g
      (scanFrom (behT F fx (.leaf (flatRk F.n (.node hi rk ch) lo)) lo) t (F.n - hi) (rk.posOf (hi - lo)) gI uI eI).st := by
  have hwf' := hwf
  obtain ⟨hlo, hhi, hrk, hch⟩ := hwf
  obtain ⟨hk, hout, _⟩ := level_facts hrk
  have hrc := flatRk_ok F.n ch hi hch
  have hst := flatRk_ok F.n (.node hi rk ch) lo hwf'
  have hposj : ∀ j, j < F.n - hi →
      (flatRk F.n ch hi).posOf (hi + (flatRk F.n ch hi).node j - hi) = j ∧
      lo + (flatRk F.n (.node hi rk ch) lo).node (rk.posOf (hi - lo) + j) = hi + (flatRk F.n ch hi).node j ∧
      (flatRk F.n (.node hi rk ch) lo).posOf (hi + (flatRk F.n ch hi).node j - lo) = rk.posOf (hi - lo) + j ∧
      hi + (flatRk F.n ch hi).node j < F.n := by
    intro j hj
    have h1 := hrc.1 j hj
    refine ⟨by rw [Nat.add_sub_cancel_left]; exact h1.1, ?_, ?_, by omega⟩
    · rw [star_node_block F.n hi lo rk ch j hj]; omega
    · rw [star_pos_deep F.n hi lo rk ch _ (by omega)]
      have : hi + (flatRk F.n ch hi).node j - lo - (hi - lo) = (flatRk F.n ch hi).node j := by omega
      rw [this, h1.1]
  have key := scan_lockstep (behT F fx (.leaf (flatRk F.n ch hi)) hi) (behT F fx (.leaf (flatRk F.n (.node hi rk ch) lo)) lo) t
    0 (rk.posOf (hi - lo)) (F.n - hi)
    (fun _ gA uA _ gB uB _ => BR F hi lo rk ch t gI0 up0 gA uA gB uB)
    ?hslot ?hskip ?hfold ?heval ?hzero (F.n - hi) 0 (by omega) gC uC eC gI uI eI hR
  · simpa only [Nat.zero_add, Nat.add_zero] using key
  case hslot =>
    intro j gA uA eA gB uB eB hj h
    obtain ⟨a, b, c, d⟩ := hposj j hj
    have := h.deep (hi + (flatRk F.n ch hi).node j) (by omega) d
    rw [a, c] at this
    rw [Nat.zero_add]; exact this
  case hskip => intro j gA uA eA gB uB eB hj h _; exact ⟨h.nowC, h.nowI, h.lenC, h.lenI, h.σ, h.fl, h.wl, h.up, h.deep, h.outer⟩
  case hfold => intro j gA uA eA gB uB eB hj h _; exact ⟨h.nowC, h.nowI, h.lenC, h.lenI, h.σ, h.fl, h.wl, h.up, h.deep, h.outer⟩
  case hzero => intro gA uA eA gB uB eB h; exact ⟨h.nowC, h.nowI, h.lenC, h.lenI, h.σ, h.fl, h.wl, h.up, h.deep, h.outer⟩
  case heval =>
    intro j gA uA eA gB uB eB hj h hs
    rw [Nat.zero_add] at hs ⊢
    refine ⟨rfl, rfl, ?_⟩
    obtain ⟨hpj, hid, hpI, hin⟩ := hposj j hj
    -- the node that runs, on both sides
    have hslotB : slotOf gB (rk.posOf (hi - lo) + j) = t := by
      have := h.deep _ (by omega) hin
      rw [hpj, hpI] at this; rw [← this]; exact hs
    -- both evaluations, written over the same node and the same state
    have eAr := leaf_reqs F fx (flatRk F.n ch hi) hi j t uA
    have eAs := leaf_st F fx (flatRk F.n ch hi) hi j t uA
    have eBr := leaf_reqs F fx (flatRk F.n (.node hi rk ch) lo) lo (rk.posOf (hi - lo) + j) t uB
    have eBs := leaf_st F fx (flatRk F.n (.node hi rk ch) lo) lo (rk.posOf (hi - lo) + j) t uB
    rw [hid, ← h.σ] at eBr eBs
    rw [eAr, eAs, eBr, eBs]
    have hLA : ∀ c ∈ (consW F (hi + (flatRk F.n ch hi).node j) uA.σ t).filter (fun c => decide (hi ≤ c)), hi ≤ c ∧ c < F.n := by
      intro c hc
      obtain ⟨h1, h2⟩ := List.mem_filter.mp hc
      simp only [decide_eq_true_eq] at h2
      exact ⟨h2, (mem_consW F _ _ _ c h1).1⟩
    have hLB : ∀ c ∈ (consW F (hi + (flatRk F.n ch hi).node j) uA.σ t).filter (fun c => decide (lo ≤ c)), lo ≤ c ∧ c < F.n := by
      intro c hc
      obtain ⟨h1, h2⟩ := List.mem_filter.mp hc
      simp only [decide_eq_true_eq] at h2
      exact ⟨h2, (mem_consW F _ _ _ c h1).1⟩
    have vA := notify_view0 gA t (fun c => (flatRk F.n ch hi).posOf (c - hi)) (fun c => hi ≤ c ∧ c < F.n)
      ((consW F (hi + (flatRk F.n ch hi).node j) uA.σ t).filter (fun c => decide (hi ≤ c)))
      (F.selfReq (hi + (flatRk F.n ch hi).node j) (F.f (hi + (flatRk F.n ch hi).node j) uA.σ t).1 t)
      (hi + (flatRk F.n ch hi).node j) j j h.nowC
      (fun a b ha hb e => by have := rk_inj hrc (i := a - hi) (j := b - hi) (by omega) (by omega) e; omega)
      (fun a ha => by rw [h.lenC]; exact (hrc.2 (a - hi) (by omega)).2) hLA ⟨by omega, hin⟩ hpj hs
    have vB := notify_view0 gB t (fun c => (flatRk F.n (.node hi rk ch) lo).posOf (c - lo)) (fun c => lo ≤ c ∧ c < F.n)
      ((consW F (hi + (flatRk F.n ch hi).node j) uA.σ t).filter (fun c => decide (lo ≤ c)))
      (F.selfReq (hi + (flatRk F.n ch hi).node j) (F.f (hi + (flatRk F.n ch hi).node j) uA.σ t).1 t)
      (hi + (flatRk F.n ch hi).node j) (rk.posOf (hi - lo) + j) (rk.posOf (hi - lo) + j) h.nowI
      (fun a b ha hb e => by have := rk_inj hst (i := a - lo) (j := b - lo) (by omega) (by omega) e; omega)
      (fun a ha => by rw [h.lenI]; exact (hst.2 (a - lo) (by omega)).2) hLB ⟨by omega, hin⟩ hpI hslotB
    obtain ⟨vA1, _, vA3, vA4⟩ := vA
    obtain ⟨vB1, _, vB3, vB4⟩ := vB
    have hmemA : ∀ a, hi ≤ a → (a ∈ (consW F (hi + (flatRk F.n ch hi).node j) uA.σ t).filter (fun c => decide (hi ≤ c)) ↔
        a ∈ consW F (hi + (flatRk F.n ch hi).node j) uA.σ t) := by
      intro a ha; simp [List.mem_filter, ha]
    have hmemB : ∀ a, lo ≤ a → (a ∈ (consW F (hi + (flatRk F.n ch hi).node j) uA.σ t).filter (fun c => decide (lo ≤ c)) ↔
        a ∈ consW F (hi + (flatRk F.n ch hi).node j) uA.σ t) := by
      intro a ha; simp [List.mem_filter, ha]
    refine ⟨vA3, vB3, by rw [vA4]; exact h.lenC, by rw [vB4]; exact h.lenI, rfl, ?_, ?_, ?_, ?_, ?_⟩
    · show uA.fl ++ _ = uB.fl ++ _
      rw [h.fl]
    · show (if _ then _ :: uA.wl else uA.wl) = (if _ then _ :: uB.wl else uB.wl)
      rw [h.wl]
    · show uB.up ++ _ = up0 ++ (uA.up ++ _).filter _
      rw [h.up, List.filter_append, List.filter_filter, List.append_assoc]
      congr 2
      apply List.filter_congr
      intro c _
      by_cases hc : c < lo
      · have : c < hi := by omega
        simp [hc, this]
      · simp [hc]
    · intro i' h1 h2
      rw [vA1 i' ⟨h1, h2⟩, vB1 i' ⟨by omega, h2⟩]
      by_cases e : i' = hi + (flatRk F.n ch hi).node j
      · rw [if_pos e, if_pos e]
      · rw [if_neg e, if_neg e]
        by_cases hm : i' ∈ consW F (hi + (flatRk F.n ch hi).node j) uA.σ t
        · rw [if_pos ((hmemA i' h1).mpr hm), if_pos ((hmemB i' (by omega)).mpr hm)]
        · rw [if_neg (fun x => hm ((hmemA i' h1).mp x)), if_neg (fun x => hm ((hmemB i' (by omega)).mp x))]
          exact h.deep i' h1 h2
    · intro i' h1 h2
      rw [vB1 i' ⟨h1, by omega⟩, if_neg (by omega)]
      show _ = if i' ∈ uA.up ++ _ then t else _
      by_cases hm : i' ∈ consW F (hi + (flatRk F.n ch hi).node j) uA.σ t
      · rw [if_pos ((hmemB i' h1).mpr hm), if_pos]
        rw [List.mem_append]; right
        rw [List.mem_filter]; exact ⟨hm, by simpa using h2⟩
      · rw [if_neg (fun x => hm ((hmemB i' h1).mp x)), h.outer i' h1 h2]
        by_cases hu : i' ∈ uA.up
        · rw [if_pos hu, if_pos (List.mem_append.mpr (Or.inl hu))]
        · rw [if_neg hu, if_neg]
          rw [List.mem_append, not_or]
          exact ⟨hu, fun x => hm (List.mem_filter.mp x).1⟩

end HgVerif.NestFlow
